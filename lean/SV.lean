import SV.Common
import SV.CommonProofs
import SV.Shard
import SV.ShardProofs
import SV.TxCache.Model
import SV.TxCache.Spec
import SV.Props.C19
