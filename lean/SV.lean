import SV.Common
import SV.Shard
import SV.ShardProofs
import SV.Props.C19
