/-
  C18 — Time caches keep a key for at least its span, then drop it at the next sweep.
  PARTIAL: the timing LOGIC is proved (every operation takes the clock reading it observes); that the self-sweeping
  cacher's goroutine actually runs every CacheExpiry is observed by a liveness probe, not proved.
-/
import SV.Misc.TimeCacheProofs
namespace SV.Props.C18
open SV SV.TimeCache

/-- a key with (timestamp t0, span d) is reported present until d has elapsed: any number of sweeps, operations on other
    keys and HasOrAdd calls reading a time ≤ t0 + d leave it in place -/
theorem retained_until_span_elapsed (tc : TC) (k : Bytes) (e : Entry) (ops : List (Op × Nat)) (h : KeysNodup tc) (he : alookup k tc = some e)
    (hno : ∀ o ∈ ops, touches k o.1 = false) (ht : ∀ o ∈ ops, o.2 ≤ e.timestamp + e.span) :
    alookup k (ops.foldl step tc) = some e := retained tc k e ops h he hno ht
/-- a sweep that starts after the span has elapsed removes it -/
theorem dropped_by_later_sweep (tc : TC) (now : Nat) (k : Bytes) (e : Entry) (h : KeysNodup tc) (he : alookup k tc = some e)
    (ht : e.timestamp + e.span < now) : has (sweep tc now) k = false := sweep_drops tc now k e h he ht
/-- Upsert never shortens the remaining life: span := max(old, new), countdown restarts -/
theorem upsert_max_and_restart (tc : TC) (k v : Bytes) (span now : Nat) :
    alookup k (upsert tc k v span now) =
      some (match alookup k tc with | some e => ⟨now, max e.span span, e.value⟩ | none => ⟨now, span, v⟩) := upsert_lookup tc k v span now
/-- Add / AddWithSpan / Put replace the span and restart the countdown -/
theorem add_replaces_and_restarts (tc : TC) (k v : Bytes) (span now : Nat) : alookup k (add tc k v span now) = some ⟨now, span, v⟩ :=
  add_lookup tc k v span now
/-- HasOrAdd leaves an existing entry untouched -/
theorem hasOrAdd_flags (tc : TC) (k v : Bytes) (span now : Nat) :
    (hasOrAdd tc k v span now).2.1 = has tc k ∧ (hasOrAdd tc k v span now).2.2 = !has tc k ∧
    (has tc k = true → (hasOrAdd tc k v span now).1 = tc) := SV.TimeCache.hasOrAdd_flags tc k v span now
/-- soundness of the one-sided clock bounds used by the check: with every true reading inside its bracket,
    certainly-present ⇒ present ⇒ possibly-present, through adds, upserts, sweeps and removals -/
theorem brackets_sound_add (i : I) (tc : TC) (k v : Bytes) (span lo t hi : Nat) (h : Sandwich i tc) (h1 : lo ≤ t) (h2 : t ≤ hi) :
    Sandwich (i.add k v span lo hi) (add tc k v span t) := Sandwich.add i tc k v span lo t hi h h1 h2
theorem brackets_sound_upsert (i : I) (tc : TC) (k v : Bytes) (span lo t hi : Nat) (h : Sandwich i tc) (h1 : lo ≤ t) (h2 : t ≤ hi) :
    Sandwich (i.upsert k v span lo hi) (upsert tc k v span t) := Sandwich.upsert i tc k v span lo t hi h h1 h2
theorem brackets_sound_sweep (i : I) (tc : TC) (lo t hi : Nat) (h : Sandwich i tc) (h1 : lo ≤ t) (h2 : t ≤ hi) :
    Sandwich (i.sweep lo hi) (sweep tc t) := Sandwich.sweep i tc lo t hi h h1 h2
theorem verdict_sound (i : I) (tc : TC) (k : Bytes) (h : Sandwich i tc) :
    (has i.must k = true → has tc k = true) ∧ (has tc k = true → has i.may k = true) := Sandwich.verdict i tc k h

end SV.Props.C18
