/-
  C18 — Time caches keep a key for at least its span, then drop it at the next sweep.
  PARTIAL: the timing LOGIC is proved (every operation takes the clock reading it observes); that the self-sweeping
  cacher's goroutine actually runs every CacheExpiry is observed by a liveness probe, not proved.
-/
import SV.Misc.TimeCacheProofs
import SV.Misc.TimeCacheMore
import SV.GenProofs.TimeCache
namespace SV.Props.C18
open SV SV.TimeCache

/-- a key with (timestamp t0, span d) is reported present until d has elapsed: any number of sweeps, operations on other
    keys and HasOrAdd calls reading a time ≤ t0 + d leave it in place -/
theorem retained_until_span_elapsed (tc : TC) (k : Bytes) (e : Entry) (ops : List (Op × Nat)) (h : KeysNodup tc) (he : alookup k tc = some e)
    (hno : ∀ o ∈ ops, touches k o.1 = false) (ht : ∀ o ∈ ops, o.2 ≤ e.timestamp + e.span) :
    alookup k (ops.foldl step tc) = some e := retained tc k e ops h he hno ht
/-- a sweep that starts after the span has elapsed removes it -/
theorem dropped_by_later_sweep (tc : TC) (now : Nat) (k : Bytes) (e : Entry) (h : KeysNodup tc) (he : alookup k tc = some e)
    (ht : e.timestamp + e.span < now) : has (sweep tc now) k = false := sweep_drops tc now k e h he ht
/-- Upsert never shortens the remaining life: span := max(old, new), countdown restarts -/
theorem upsert_max_and_restart (tc : TC) (k v : Bytes) (span now : Nat) :
    alookup k (upsert tc k v span now) =
      some (match alookup k tc with | some e => ⟨now, max e.span span, e.value⟩ | none => ⟨now, span, v⟩) := upsert_lookup tc k v span now
/-- Add / AddWithSpan / Put replace the span and restart the countdown -/
theorem add_replaces_and_restarts (tc : TC) (k v : Bytes) (span now : Nat) : alookup k (add tc k v span now) = some ⟨now, span, v⟩ :=
  add_lookup tc k v span now
/-- HasOrAdd leaves an existing entry untouched -/
theorem hasOrAdd_flags (tc : TC) (k v : Bytes) (span now : Nat) :
    (hasOrAdd tc k v span now).2.1 = has tc k ∧ (hasOrAdd tc k v span now).2.2 = !has tc k ∧
    (has tc k = true → (hasOrAdd tc k v span now).1 = tc) := SV.TimeCache.hasOrAdd_flags tc k v span now
/-- soundness of the one-sided clock bounds used by the check: with every true reading inside its bracket,
    certainly-present ⇒ present ⇒ possibly-present, through adds, upserts, sweeps and removals -/
theorem brackets_sound_add (i : I) (tc : TC) (k v : Bytes) (span lo t hi : Nat) (h : Sandwich i tc) (h1 : lo ≤ t) (h2 : t ≤ hi) :
    Sandwich (i.add k v span lo hi) (add tc k v span t) := Sandwich.add i tc k v span lo t hi h h1 h2
theorem brackets_sound_upsert (i : I) (tc : TC) (k v : Bytes) (span lo t hi : Nat) (h : Sandwich i tc) (h1 : lo ≤ t) (h2 : t ≤ hi) :
    Sandwich (i.upsert k v span lo hi) (upsert tc k v span t) := Sandwich.upsert i tc k v span lo t hi h h1 h2
theorem brackets_sound_sweep (i : I) (tc : TC) (lo t hi : Nat) (h : Sandwich i tc) (h1 : lo ≤ t) (h2 : t ≤ hi) :
    Sandwich (i.sweep lo hi) (sweep tc t) := Sandwich.sweep i tc lo t hi h h1 h2
theorem verdict_sound (i : I) (tc : TC) (k : Bytes) (h : Sandwich i tc) :
    (has i.must k = true → has tc k = true) ∧ (has tc k = true → has i.may k = true) := Sandwich.verdict i tc k h

/-! ### history-level statements (SV.Misc.TimeCacheMore) -/

/-- a key set by Add/AddWithSpan/Upsert/Put at reading `t0` is reported present at EVERY later point of ANY history in
    which no operation touches it (HasOrAdd of the key and operations on other keys are allowed, with any readings), as long
    as the sweeps read ≤ t0 + d, where d is the span the setting operation left (replaced by Add, max for Upsert) -/
theorem present_at_every_query_until_span_elapsed (tc : TC) (pre post : List (Op × Nat)) (o : Op) (t0 : Nat) (k : Bytes)
    (h : KeysNodup tc) (hset : sets k o = true) (hno : ∀ p ∈ post, touches k p.1 = false)
    (ht : ∀ p ∈ post, isSweep p.1 = true → p.2 ≤ t0 + spanAfter (pre.foldl step tc) k o) (n : Nat) :
    has ((pre ++ (o, t0) :: post.take n).foldl step tc) k = true :=
  present_until_expiry_every_query tc pre post o t0 k h hset hno ht n
/-- …and a sweep reading > t0 + d removes it for good (until something re-creates it) -/
theorem gone_after_a_sweep_past_the_span (tc : TC) (pre mid rest : List (Op × Nat)) (o : Op) (t0 ts : Nat) (k : Bytes)
    (h : KeysNodup tc) (hset : sets k o = true) (hno : ∀ p ∈ mid, touches k p.1 = false)
    (ht : ∀ p ∈ mid, isSweep p.1 = true → p.2 ≤ t0 + spanAfter (pre.foldl step tc) k o)
    (hts : t0 + spanAfter (pre.foldl step tc) k o < ts) (hrest : ∀ p ∈ rest, revives k p.1 = false) :
    has ((pre ++ (o, t0) :: (mid ++ (Op.sweep, ts) :: rest)).foldl step tc) k = false :=
  gone_after_expiry_sweep tc pre mid rest o t0 ts k h hset hno ht hts hrest
/-- Upsert never shortens the remaining life of a key (monotone clock): new expiry ≥ old expiry and ≥ now + span -/
theorem upsert_never_shortens_life (tc : TC) (k v : Bytes) (span now : Nat) (e : Entry)
    (he : alookup k tc = some e) (hmono : e.timestamp ≤ now) :
    ∃ e', alookup k (upsert tc k v span now) = some e' ∧ e'.timestamp = now ∧ e'.span = max e.span span ∧ e'.value = e.value ∧
      e.timestamp + e.span ≤ e'.timestamp + e'.span ∧ now + span ≤ e'.timestamp + e'.span :=
  upsert_never_shortens tc k v span now e he hmono
/-- the self-sweeping cacher (timeCacher API over the same core, background sweep = explicit event): after Put(k, v) and
    until its span has elapsed Get/Peek return v, Has/Keys/Len see it and HasOrAdd leaves it alone -/
theorem cacher_serves_latest_put_until_expiry (c : Core) (pre post : List (AOp × Nat)) (k v : Bytes) (t0 : Nat) (hk : k ≠ [])
    (h : KeysNodup c.data) (hno : ∀ p ∈ post, atouches k p.1 = false)
    (ht : ∀ p ∈ post, aIsSweep p.1 = true → p.2 ≤ t0 + c.defaultSpan) :
    let c' := (pre ++ (.put k v, t0) :: post).foldl astep c
    c'.get k = some v ∧ c'.peek k = some v ∧ c'.has k = true ∧ k ∈ c'.keys ∧ 0 < c'.len ∧
      (∀ v' now, c'.hasOrAdd k v' now = (c', true, false)) := cacher_retained c pre post k v t0 hk h hno ht
/-- interval soundness now covers HasOrAdd as well, and whole histories through the three caches' API (Clear included):
    whatever the true readings inside their brackets, certainly-present ⇒ present ⇒ possibly-present -/
theorem brackets_sound_hasOrAdd (i : I) (tc : TC) (k v : Bytes) (span lo t hi : Nat) (h : Sandwich i tc) (h1 : lo ≤ t) (h2 : t ≤ hi) :
    Sandwich (i.hasOrAdd k v span lo hi) (hasOrAdd tc k v span t).1 := Sandwich.hasOrAdd i tc k v span lo t hi h h1 h2
theorem hasOrAdd_flags_decided_when_certain (i : I) (tc : TC) (k v : Bytes) (span t : Nat) (h : Sandwich i tc) :
    (has i.must k = true → (TimeCache.hasOrAdd tc k v span t).2.1 = true ∧ (TimeCache.hasOrAdd tc k v span t).2.2 = false) ∧
    (has i.may k = false → (TimeCache.hasOrAdd tc k v span t).2.1 = false ∧ (TimeCache.hasOrAdd tc k v span t).2.2 = true) :=
  Sandwich.hasOrAdd_flags i tc k v span t h
theorem verdict_sound_for_every_history (ops : List BAOp) (d : Nat) (hok : ∀ b ∈ ops, b.ok) (k : Bytes) :
    (has (ops.foldl (I.astep d) ⟨[], []⟩).must k = true → ((ops.map BAOp.exact).foldl TimeCache.astep (Core.new d)).has k = true) ∧
    (((ops.map BAOp.exact).foldl TimeCache.astep (Core.new d)).has k = true → has (ops.foldl (I.astep d) ⟨[], []⟩).may k = true) :=
  api_interval_run_verdict ops d hok k

/-! ### tie by translation: the source's own leaf logic (regenerated into SV/Generated/Funcs.lean on every run) IS the model's -/
theorem source_expiry_test_is_the_models (now : Nat) (e : Entry) :
    decide (now - e.timestamp > e.span) = Gen.sweepExpired (time_Since_element_timestamp := ((now - e.timestamp : Nat) : Int)) (element_span := e.span) := GenProofs.sweepExpired_eq now e
/-- the span kept by an Upsert of a present key: the source's test (`existing.span < duration`) gives the model's maximum -/
theorem source_upsert_span_is_the_models (stored given : Nat) :
    max stored given = (if Gen.upsertExtendsSpan (existing_span := stored) (duration := given) then given else stored) := GenProofs.upsert_span_eq_source stored given

end SV.Props.C18
