/-
  C04 — Pool contents follow add/remove semantics with per-sender ordering and limits.
  PARTIAL on the byte limit: `applySizeConstraints` drops at most one transaction per insertion (known finding F3).
-/
import SV.TxCache.ListProofs
import SV.TxCache.ListsInvProofs
import SV.TxCache.EvictPost
import SV.TxCache.ReachableProofs
import SV.GenProofs.TxThresholds
import SV.GenProofs.TxLists
import SV.TxCache.GoList
import SV.GenProofs.TxSenderBytes
namespace SV.Props.C04
open SV SV.TxCache

/-- the code's back-to-front insertion is the reference ordered insertion (nonce ↑, gas price ↓, hash ↑) and refuses exactly duplicates -/
theorem insert_is_ordered_insert (t : Tx) (l : List Tx) (hs : ListSorted l) :
    insertTx t l =
      if (∃ c ∈ l, c.nonce = t.nonce ∧ c.gasPrice = t.gasPrice ∧ c.hash = t.hash) then none
      else some (orderedInsert t l) :=
  insertTx_eq_orderedInsert t l hs

/-- every list of every reachable pool is strictly sorted (no hash twice) and within the count limit -/
theorem lists_sorted_add (v : Variant) (p : Pool) (t : Tx) (hi : ListsInv p) (hc : 1 ≤ p.cfg.countPerSender) :
    ListsInv (addTx v p t).1 := ListsInv.addTx v p t hi hc
theorem lists_sorted_remove (p : Pool) (h : Bytes) (hi : ListsInv p) : ListsInv (removeTxByHash p h).1 :=
  ListsInv.removeTxByHash p h hi
theorem sorted_has_no_duplicates {l : List Tx} (h : ListSorted l) : l.Nodup := ListSorted.nodup h

/-- AddTx (eviction off): `added` ⇔ the hash was not pooled; the sender's list becomes the ordered insertion followed by the trim -/
theorem add_semantics (U : Bytes → Tx) (p : Pool) (t : Tx) (h : Inv U p) (hso : ListsSorted p) (ht : WfTx U t)
    (he : p.cfg.evictionEnabled = false) :
    let r := addTx Variant.current p t
    let l := (alookup t.sender p.lists).getD []
    r.2 = (alookup t.hash p.byHash).isNone ∧
    (alookup t.sender r.1.lists).getD [] =
      (if (alookup t.hash p.byHash).isSome then l else (trim1 p.cfg (orderedInsert t l)).1) :=
  addTx_lists_noEvict U p t h hso ht he
theorem add_leaves_other_senders (U : Bytes → Tx) (p : Pool) (t : Tx) (h : Inv U p) (hso : ListsSorted p) (ht : WfTx U t)
    (he : p.cfg.evictionEnabled = false) (s : Bytes) (hs : s ≠ t.sender) :
    alookup s (addTx Variant.current p t).1.lists = alookup s p.lists :=
  evict_not_called_when_disabled U p t h hso ht he s hs

/-- RemoveTxByHash drops exactly the sender's transactions with a lower or equal nonce and nothing else -/
theorem remove_semantics (U : Bytes → Tx) (p : Pool) (hsh : Bytes) (h : Inv U p) :
    match alookup hsh p.byHash with
    | none => removeTxByHash p hsh = (p, false)
    | some t =>
      (removeTxByHash p hsh).2 = true ∧
      (∀ s, s ≠ t.sender → alookup s (removeTxByHash p hsh).1.lists = alookup s p.lists) ∧
      (alookup t.sender (removeTxByHash p hsh).1.lists).getD [] =
        ((alookup t.sender p.lists).getD []).filter (fun x => decide (x.nonce > t.nonce)) :=
  removeTxByHash_lists U p hsh h

/-- lookups by hash agree with the lists (both directions) -/
theorem lookups_agree (U : Bytes → Tx) (p : Pool) (h : Inv U p) :
    (∀ hsh t, alookup hsh p.byHash = some t → ∃ l, alookup t.sender p.lists = some l ∧ t ∈ l) ∧
    (∀ s l t, alookup s p.lists = some l → t ∈ l → alookup t.hash p.byHash = some t) :=
  ⟨fun hsh t hm => Inv.no_ghost U p h hsh t hm, fun s l t hl ht => Inv.listed_is_hashed U p h s l t hl ht⟩

/-- limits: the trim as coded removes at most ONE transaction; it agrees with the reference trim whenever one removal suffices … -/
theorem trim_partial (cfg : Config) (l : List Tx) (h : senderExceeded cfg l.dropLast = false) :
    (trim1 cfg l).1 = trimAll cfg (l.length + 1) l := trim1_eq_trimAll_of_one_suffices cfg l h
/-- … and does NOT otherwise (finding F3: the sender stays above its byte limit) -/
theorem trim_incomplete_F3 :
    ∃ (cfg : Config) (l : List Tx), senderExceeded cfg (trim1 cfg l).1 = true ∧ (trim1 cfg l).1 ≠ trimAll cfg (l.length + 1) l :=
  trim1_incomplete_example

/-- GLOBAL REFINEMENT (eviction disabled): after ANY history the per-sender lists are exactly those of the reference
    `specLists` (SV.TxCache.ReachableProofs), which is written with ordered insertion, the one-step trim, "drop nonce ≤ n"
    and the reference's own hash search only — it mentions neither `addTx` nor `removeTxByHash`; the hash index agrees
    with the reference's search, so the `added` / `found` flags are determined by it as well -/
theorem lists_equal_reference_after_any_history (U : Bytes → Tx) (cfg : Config) (ops : List Op)
    (he : cfg.evictionEnabled = false) (hw : ∀ t, Op.add t ∈ ops → WfTx U t) (s : Bytes) :
    (alookup s (ops.foldl applyOp (Pool.init cfg)).lists).getD [] = specLists cfg ops s :=
  reachable_lists_eq_spec U cfg ops he hw s
theorem hash_index_equals_reference_after_any_history (U : Bytes → Tx) (cfg : Config) (ops : List Op)
    (he : cfg.evictionEnabled = false) (hw : ∀ t, Op.add t ∈ ops → WfTx U t) (k : Bytes) :
    alookup k (ops.foldl applyOp (Pool.init cfg)).byHash = (specState cfg ops).find k :=
  reachable_find_eq_spec U cfg ops he hw k

/-! ### tie by translation: the source's own leaf logic (regenerated into SV/Generated/Funcs.lean on every run) IS the model's -/
theorem source_sender_limit_test_is_the_models (cfg : Config) (l : List Tx) :
    senderExceeded cfg l = Gen.senderExceeded (listForSender_constraints_maxNumBytes := cfg.numBytesPerSender) (listForSender_constraints_maxNumTxs := cfg.countPerSender) (listForSender_totalBytes_Get := (listBytes l)) (listForSender_countTx := l.length) :=
  GenProofs.senderExceeded_eq cfg l

/-- one iteration of the source's `findInsertionPlace` (translated: 0 = go on towards the front, 1 = insert right after this
    element, 2 = already in the cache) is the decision the model's sorted insertion takes at that element -/
theorem source_insertion_walk_is_the_models (t c : Tx) (rest : List Tx) :
    insertRev t (c :: rest) =
      (if Gen.insertionStep (incomingTx_Tx_GetNonce := t.nonce) (incomingTx_Tx_GetGasPrice := t.gasPrice) (currentTx_Tx_GetNonce := c.nonce) (currentTx_Tx_GetGasPrice := c.gasPrice) (currentTx_TxHash := c.hash) (incomingTx_TxHash := t.hash) = 1 then some (t :: c :: rest)
       else if Gen.insertionStep (incomingTx_Tx_GetNonce := t.nonce) (incomingTx_Tx_GetGasPrice := t.gasPrice) (currentTx_Tx_GetNonce := c.nonce) (currentTx_Tx_GetGasPrice := c.gasPrice) (currentTx_TxHash := c.hash) (incomingTx_TxHash := t.hash) = 2 then none
       else (insertRev t rest).map (c :: ·)) := GenProofs.insertRev_cons_eq_source t c rest
/-- RemoveTxByHash's walk over the sender's list stops where the source's loop breaks (first nonce above the removed one) -/
theorem source_lower_nonce_removal_is_the_models (n : Nat) (c : Tx) (rest : List Tx) :
    dropLowerOrEqual n (c :: rest) =
      (if Gen.removeLowerStops (txNonce := c.nonce) (targetNonce := n) = [true] then c :: rest else dropLowerOrEqual n rest) :=
  GenProofs.dropLowerOrEqual_cons_eq_source n c rest

/-! ### Go's `container/list` is not assumed: the per-sender list code transcribed over a faithful model of the library
    (node heap with next/prev/list pointers, sentinel root, the library's guards) refines the plain-list model
    (SV/TxCache/GoList.lean) -/
open GoList in
/-- `txListForSender.AddTx` (findInsertionPlace walking `Back()/Prev()`, `PushFront`/`InsertAfter`, `applySizeConstraints`)
    over the transcribed library yields exactly the model's `insertTx` followed by `trim1`, flags and evicted hashes included -/
theorem go_list_addTx_is_the_models (cfg : Config) {s : SenderList} (h : SWF s) (t : Tx) :
    match insertTx t s.items.toList with
    | none => s.addTx cfg t = (s, false, [])
    | some l' => SWF (s.addTx cfg t).1 ∧ (s.addTx cfg t).1.items.toList = (trim1 cfg l').1
        ∧ (s.addTx cfg t).2 = (true, (trim1 cfg l').2.map (·.hash)) := addTx_refines cfg h t
open GoList in
/-- the removal walk of RemoveTxByHash over the transcribed library is the model's `dropLowerOrEqual`, hashes in list order -/
theorem go_list_lower_nonce_removal_is_the_models (k : Nat) {s : SenderList} (h : SWF s) :
    SWF (s.removeLowerOrEqual k).1
    ∧ (s.removeLowerOrEqual k).1.items.toList = dropLowerOrEqual k s.items.toList
    ∧ (s.removeLowerOrEqual k).2
        = (s.items.toList.take (s.items.toList.length - (dropLowerOrEqual k s.items.toList).length)).map (·.hash) :=
  removeLowerOrEqual_refines k h
open GoList in
/-- what `GetTransactionsPoolForSender` hands out is the list front to back -/
theorem go_list_getTxs_is_the_list (s : SenderList) : s.getTxs = s.items.toList := getTxs_eq s

open GoList in
/-- the tie by translation for the per-sender byte counter: the two statements of the CURRENT source that change
    `totalBytes` are the updates of the transcribed list code — a successful insertion adds the transaction's size, a rejected
    one (duplicate) changes nothing, every removal subtracts the size of the removed transaction -/
theorem source_sender_byte_counter_updates_are_the_transcriptions :
    (∀ (s s' : SenderList) (t : Tx), s.insert t = (s', true) →
        s'.totalBytes = Gen.senderBytesAfterAdd (listForSender_totalBytes := s.totalBytes) (tx_Size := (t.size : Int))) ∧
    (∀ (s s' : SenderList) (t : Tx), s.insert t = (s', false) → s'.totalBytes = s.totalBytes) ∧
    (∀ b sz : Int, b - sz = Gen.senderBytesAfterRemove (listForSender_totalBytes := b) (tx_Size := sz)) ∧
    Gen.senderBytesAfterAdd_leaves = ["listForSender.totalBytes : Int", "tx.Size : Int"] ∧
    Gen.senderBytesAfterRemove_leaves = ["listForSender.totalBytes : Int", "tx.Size : Int"] :=
  ⟨GenProofs.senderBytes_insert, GenProofs.senderBytes_insert_rejected, GenProofs.senderBytes_remove,
   GenProofs.senderBytes_leaves.1, GenProofs.senderBytes_leaves.2⟩

end SV.Props.C04
