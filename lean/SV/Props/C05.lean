/-
  C05 — Pool indexes and counters agree after every operation, incl. eviction and Clear.
-/
import SV.TxCache.EvictInv
namespace SV.Props.C05
open SV SV.TxCache

/-- `Inv U p` (SV.TxCache.Spec): the set of transactions reachable by hash equals the set reachable through the senders'
    lists; CountTx = its size; NumBytes = Σ Size; CountSenders = number of senders owning ≥ 1 transaction (no empty list).
    It holds after EVERY sequential history of AddTx (with or without eviction), RemoveTxByHash and Clear; selection does
    not modify the pool. -/
theorem invariant_of_every_reachable_pool (U : Bytes → Tx) (cfg : Config) (ops : List Op)
    (hw : ∀ t, Op.add t ∈ ops → WfTx U t) : Inv U (ops.foldl applyOp (Pool.init cfg)) :=
  Inv.reachable U cfg ops hw

theorem step_add (U : Bytes → Tx) (p : Pool) (t : Tx) (h : Inv U p) (hso : ListsSorted p) (ht : WfTx U t) :
    Inv U (addTx Variant.current p t).1 := Inv.addTx U p t h hso ht
theorem step_remove (U : Bytes → Tx) (p : Pool) (hsh : Bytes) (h : Inv U p) : Inv U (removeTxByHash p hsh).1 :=
  Inv.removeTxByHash U p hsh h
theorem step_clear (U : Bytes → Tx) (p : Pool) (h : Inv U p) : Inv U (clear Variant.current p) := Inv.clear U p h
/-- eviction keeps the invariant; its threshold step does so for ANY sender and ANY nonce threshold -/
theorem step_evict (U : Bytes → Tx) (p : Pool) (h : Inv U p) : Inv U (evict Variant.current p) := Inv.evict U p h
theorem step_threshold (U : Bytes → Tx) (p : Pool) (sn : Bytes × Nat) (h : Inv U p) :
    Inv U (applyThreshold Variant.current p sn) := Inv.applyThreshold U p sn h

/-- an emptied pool reports zero for all counters -/
theorem emptied_pool_reports_zero (U : Bytes → Tx) (p : Pool) (h : Inv U p) (he : p.byHash = []) :
    p.lists = [] ∧ p.cntTx = 0 ∧ p.numBytes = 0 ∧ p.cntSenders = 0 := Inv.empty_reports_zero U p h he
/-- no transaction remains that can be neither selected nor evicted (reachable by hash but in no list) -/
theorem no_ghost (U : Bytes → Tx) (p : Pool) (h : Inv U p) (hsh : Bytes) (t : Tx) (hm : alookup hsh p.byHash = some t) :
    ∃ l, alookup t.sender p.lists = some l ∧ t ∈ l := Inv.no_ghost U p h hsh t hm

/-- pre-repair counter-examples (F4 Clear keeps NumBytes, F5 empty sender stays registered, F6 eviction ghost) -/
theorem legacy_F4 : ∃ (cfg : Config) (t : Tx),
    let p := SV.TxCache.clear Variant.legacy (addTx Variant.legacy (Pool.init cfg) t).1
    p.byHash = [] ∧ p.numBytes ≠ 0 := legacy_clear_counterexample
theorem legacy_F5 : ∃ (cfg : Config) (t : Tx),
    let p := (addTx Variant.legacy (Pool.init cfg) t).1
    p.byHash = [] ∧ p.cntSenders ≠ 0 := legacy_empty_sender_counterexample
theorem legacy_F6 : ∃ (cfg : Config) (ts : List Tx) (g : Tx),
    let p := ts.foldl (fun p t => (addTx Variant.legacy p t).1) (Pool.init cfg)
    alookup g.hash p.byHash = some g ∧ ∀ s l, (s, l) ∈ p.lists → g ∉ l := legacy_ghost_counterexample

end SV.Props.C05
