/-
  C12 — Immunized items are never evicted.
-/
import SV.Immunity.Proofs
import SV.GenProofs.Immunity
import SV.Immunity.CacheProofs
import SV.Immunity.FifoSpec
import SV.Immunity.ChunkLib
namespace SV.Props.C12
open SV SV.Immunity

/-- adding to a full chunk evicts only non-immune items: every immune resident stays, as the very same item (same payload) -/
theorem add_keeps_immune (cfg : ChunkCfg) (c : Chunk) (k p : Bytes) (size : Int) :
    ∀ it ∈ c.items, it.immune = true → it ∈ (c.addItem Variant.current cfg k p size).1.items :=
  addItem_keeps_immune cfg c k p size
theorem eviction_skips_immune (n : Nat) (l : List Item) :
    (∀ it ∈ (removeOldest n l).2, it.immune = false) ∧ (∀ it ∈ l, it.immune = true → it ∈ (removeOldest n l).1) :=
  removeOldest_keeps_immune n l
/-- once a key is immune and resident with payload p it stays so through ANY history without `remove k`
    (Clear re-creates the chunks, i.e. ends the history) -/
theorem protected_forever (cfg : ChunkCfg) (c : Chunk) (k p : Bytes) (ops : List COp) (hi : ChunkInv cfg c)
    (hw : ∀ op ∈ ops, (match op with | .add _ _ s => 0 ≤ s | _ => True)) (hm : 1 ≤ cfg.maxNumItems)
    (h : Protected c k p) (hop : COp.rm k ∉ ops) : Protected (ops.foldl (Chunk.apply cfg) c) k p :=
  Protected.run cfg c k p ops hi hw hm h hop
/-- protection starts when an already-immunized key is added (immunisation before insertion) … -/
theorem protected_when_added (cfg : ChunkCfg) (c : Chunk) (k p : Bytes) (size : Int) (hi : ChunkInv cfg c)
    (hk : k ∈ c.immuneKeys) (ha : (c.addItem Variant.current cfg k p size).2.2 = true) :
    Protected (c.addItem Variant.current cfg k p size).1 k p := Protected.of_add cfg c k p size hi hk ha
/-- … or when a resident key is immunized (immunisation after insertion) -/
theorem protected_when_immunized (cfg : ChunkCfg) (c : Chunk) (k : Bytes) (it : Item) (hi : ChunkInv cfg c)
    (hit : it ∈ c.items) (hk : it.key = k) : Protected (c.immunizeKey k).1 k it.payload := Protected.of_immunize cfg c k it hi hit hk
/-- if all residents are immune and capacity is reached the add is refused and the chunk is unchanged -/
theorem all_immune_refused (cfg : ChunkCfg) (c : Chunk) (k p : Bytes) (size : Int)
    (hall : ∀ it ∈ c.items, it.immune = true) (hex : c.exceeded cfg = true) (hk : c.has k = false) :
    c.addItem Variant.current cfg k p size = (c, false, false) := addItem_all_immune_refused cfg c k p size hall hex hk
theorem refusal_changes_nothing (cfg : ChunkCfg) (c : Chunk) (k p : Bytes) (size : Int) (c' : Chunk)
    (h : c.addItem Variant.current cfg k p size = (c', false, false)) : c' = c := addItem_refused cfg c k p size c' h
/-- adds never overwrite the payload of a key that is already present -/
theorem never_overwrites (cfg : ChunkCfg) (c : Chunk) (k p : Bytes) (size : Int) (hk : c.has k = true) :
    c.addItem Variant.current cfg k p size = (c, true, false) := addItem_present cfg c k p size hk
/-- F10 (pre-repair): evicting before the duplicate test overwrote a resident key -/
theorem legacy_F10 : ∃ (cfg : ChunkCfg) (c : Chunk) (k p : Bytes),
    c.has k = true ∧ (c.addItem Variant.legacy cfg k p 1).2 = (false, true) ∧
    ((c.addItem Variant.legacy cfg k p 1).1.get k).map (·.payload) ≠ (c.get k).map (·.payload) :=
  legacy_overwrite_counterexample

/-! ### tie by translation: the source's own leaf logic (regenerated into SV/Generated/Funcs.lean on every run) IS the model's -/
theorem source_capacity_test_is_the_models (cfg : ChunkCfg) (c : Chunk) :
    c.exceeded cfg = Gen.chunkExceeded (len_chunk_items := c.items.length) (chunk_config_maxNumItems := cfg.maxNumItems) (chunk_numBytes := c.numBytes) (chunk_config_maxNumBytes := cfg.maxNumBytes) := GenProofs.chunkExceeded_eq cfg c
theorem source_chunk_config_is_the_models (c : Config) :
    ((c.chunkCfg.maxNumItems : Nat) : Int) = Gen.chunkMaxNumItems (config_NumChunks := c.numChunks) (config_MaxNumItems := c.maxNumItems) ∧
    ((c.chunkCfg.maxNumBytes : Nat) : Int) = Gen.chunkMaxNumBytes (config_NumChunks := c.numChunks) (config_MaxNumBytes := c.maxNumBytes) ∧
    ((c.chunkCfg.numToEvict : Nat) : Int) = Gen.chunkNumItemsToEvict (config_NumChunks := c.numChunks) (config_NumItemsToPreemptivelyEvict := c.numItemsToEvict) := GenProofs.chunkCfg_eq c

/-! ### the whole cache (any number of chunks ≥ 1, routing by fnv32) — SV.Immunity.CacheProofs -/

/-- once `ImmunizeKeys keys` has been accepted (capacity gate passed) for a key `k ∈ keys`, then — whatever happens in between
    except `Remove k` / `Clear` — an item added under `k` (immunity registered BEFORE the item exists) stays retrievable
    with its original payload through any further history without `Remove k` / `Clear` -/
theorem cache_protects_accepted_keys {c : Cache} (h : CacheInv c) (keys : List Bytes) (hg : ¬ c.gateRefuses keys)
    (k p : Bytes) (s : Int) (hs : 0 ≤ s) (hk : k ∈ keys) (ops₁ ops₂ : List CacheOp)
    (hw₁ : ∀ op ∈ ops₁, op.sizeOk) (hw₂ : ∀ op ∈ ops₂, op.sizeOk)
    (hrm₁ : CacheOp.rm k ∉ ops₁) (hcl₁ : CacheOp.clear ∉ ops₁) (hrm₂ : CacheOp.rm k ∉ ops₂) (hcl₂ : CacheOp.clear ∉ ops₂)
    (ha : ((ops₁.foldl Cache.apply (c.immunizeKeys keys).1).hasOrAdd Variant.current k p s).2.2 = true) :
    (ops₂.foldl Cache.apply ((ops₁.foldl Cache.apply (c.immunizeKeys keys).1).hasOrAdd Variant.current k p s).1).get k
      = some p := immunize_then_add_protected h keys hg k p s hs hk ops₁ ops₂ hw₁ hw₂ hrm₁ hcl₁ hrm₂ hcl₂ ha
/-- a key that is immune and resident with payload p stays so through any cache history without `Remove k` / `Clear`
    (immunisation AFTER insertion is `cprotected_of_immunize` in CacheProofs) -/
theorem cache_protected_forever {c : Cache} (h : CacheInv c) (k p : Bytes) (ops : List CacheOp) (hw : ∀ op ∈ ops, op.sizeOk)
    (hp : CProtected c k p) (hrm : CacheOp.rm k ∉ ops) (hcl : CacheOp.clear ∉ ops) :
    (ops.foldl Cache.apply c).get k = some p := cprotected_run_get h k p ops hw hp hrm hcl
/-- if all residents of the target chunk are immune and it is at capacity the add is refused; a refused add leaves the
    WHOLE cache unchanged; an add never overwrites a present key -/
theorem cache_all_immune_refused (c : Cache) (k p : Bytes) (s : Int)
    (hall : ∀ it ∈ (c.chunkOf k).items, it.immune = true) (hex : (c.chunkOf k).exceeded c.cfg.chunkCfg = true)
    (hk : (c.get k).isSome = false) : c.hasOrAdd Variant.current k p s = (c, false, false) :=
  hasOrAdd_all_immune_refused c k p s hall hex hk
theorem cache_refusal_changes_nothing (c : Cache) (k p : Bytes) (s : Int) (c' : Cache)
    (h : c.hasOrAdd Variant.current k p s = (c', false, false)) : c' = c := refused_add_changes_nothing c k p s c' h
theorem cache_never_overwrites (c : Cache) (k p : Bytes) (s : Int) (hk : (c.get k).isSome = true) :
    c.hasOrAdd Variant.current k p s = (c, true, false) := hasOrAdd_present c k p s hk

/-! ### one chunk IS a FIFO queue with batch eviction: history-level refinement to an independent reference (SV.Immunity.FifoSpec:
    a queue of (key, payload, size) oldest first + a set of immune keys, no per-item flags) -/

theorem single_chunk_refines_fifo_queue (cfg : ChunkCfg) (ops : List COp)
    (hw : ∀ op ∈ ops, (match op with | .add _ _ s => 0 ≤ s | _ => True)) :
    let c := ops.foldl (Chunk.apply cfg) Chunk.empty
    let q := Q.run cfg Q.empty ops
    c.toQ = q ∧
    c.items.map (·.key) = q.queue.map (·.1) ∧
    c.items.map (·.payload) = q.queue.map (·.2.1) ∧
    c.items.map (·.size) = q.queue.map (·.2.2) ∧
    c.numBytes = q.bytes ∧
    c.immuneKeys = q.immune ∧
    Chunk.trace cfg Chunk.empty ops = Q.trace cfg Q.empty ops := chunk_run_refines_queue cfg ops hw
/-- the reference refuses an add exactly when the key is new, the queue is full and nothing is evictable (every resident immune,
    or batch size 0); a refused add changes nothing -/
theorem fifo_refusal_iff (cfg : ChunkCfg) (q : Q) (k p : Bytes) (size : Int) :
    ((q.add cfg k p size).2 = (false, false) ↔
      (q.has k = false ∧ q.full cfg = true ∧
        (cfg.numToEvict = 0 ∨ ∀ e ∈ q.queue, q.immune.contains e.1 = true))) ∧
    ((q.add cfg k p size).2 = (false, false) → (q.add cfg k p size).1 = q) := q_refusal_iff cfg q k p size

/-- on the faithful two-structure chunk (items map + linked list, SV/Immunity/ChunkLib.lean): an element flagged by
    ImmunizeKeys stays linked, flagged and retrievable through the map across every later history that does not remove its key -/
theorem immunized_element_survives_on_the_two_structure_chunk (cfg : ChunkCfg) {c : Lib.LChunk} (h : Lib.Coh c)
    (keys : List Bytes) {e : Lib.Elem} (he : e ∈ c.list) (hk : e.item.key ∈ keys) (ops : List Lib.Op)
    (hno : Lib.Op.remove e.item.key ∉ ops) :
    ∃ e' ∈ (Lib.finalState (Lib.LChunk.step cfg) c (Lib.Op.immunize keys :: ops)).list, Lib.SameElem e e' ∧ e'.item.immune = true ∧
      (Lib.finalState (Lib.LChunk.step cfg) c (Lib.Op.immunize keys :: ops)).getItem e.item.key = some e'.item :=
  Lib.lib_immunized_never_evicted cfg h keys he hk ops hno

end SV.Props.C12
