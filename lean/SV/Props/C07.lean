/-
  C07 — Eviction removes only least-valuable per-sender suffixes, no more than needed.
-/
import SV.TxCache.EvictPost
import SV.GenProofs.TxThresholds
import SV.GenProofs.TxComparator
import SV.GenProofs.TxLists
import SV.TxCache.ReachableSize
import SV.TxCache.GoList
namespace SV.Props.C07
open SV SV.TxCache

/-- the victim taken at each step is the least valuable among the heads of all walks
    (lowest fee per gas unit; ties: smaller gas limit, then larger hash) -/
theorem takes_least_valuable (v : Variant) (heap : List HItem) (it : HItem) (rest : List HItem)
    (hd : (heap.map (·.cur.hash)).Nodup) (h : popWorst v heap = some (it, rest)) :
    ∀ other ∈ rest, moreValuable v other.cur it.cur = true :=
  popWorst_is_least_valuable v heap it rest hd h
/-- batches of exactly NumItemsToPreemptivelyEvict (or whatever is left) -/
theorem batch_size (v : Variant) (hv : v.evictionDropsPopped = false) (n : Nat) (heap : List HItem) (acc : List Tx) :
    (collectVictims v n heap acc).1.length = acc.length + min n ((heap.map (fun it => it.rest.length + 1)).sum) :=
  collectVictims_length v hv n heap acc
/-- a further batch is taken only while the pool is still over a threshold -/
theorem stops_when_within (v : Variant) (fuel : Nat) (p : Pool) (heap : List HItem) (h : p.exceeded = false) :
    evictLoop v fuel p heap = p := evictLoop_stops v fuel p heap h
/-- nothing is evicted while the pool is within thresholds -/
theorem noop_within_thresholds (v : Variant) (p : Pool) (h : p.exceeded = false) : evict v p = p := evict_noop v p h
/-- every surviving list is a PREFIX of the old one and everything cut has a nonce strictly above everything kept:
    each sender loses a suffix of its nonce order, same-nonce siblings go together, no gap is opened -/
theorem loses_nonce_suffix (v : Variant) (p : Pool) (hi : ListsInv p) (s : Bytes) (l' : List Tx)
    (h : (s, l') ∈ (evict v p).lists) :
    ∃ l suf, (s, l) ∈ p.lists ∧ l = l' ++ suf ∧ ∀ a ∈ l', ∀ b ∈ suf, a.nonce < b.nonce :=
  evict_lists_prefix v p hi s l' h
/-- evicted transactions disappear from every view: after eviction the two indexes and the counters still agree -/
theorem disappear_from_every_view (U : Bytes → Tx) (p : Pool) (h : Inv U p) : Inv U (evict Variant.current p) := Inv.evict U p h
/-- independence of the sender iteration order: the popped victim does not depend on the order of the heap -/
theorem victim_independent_of_order (v : Variant) (l l' : List HItem) (b : HItem) (r : List HItem)
    (hd : (l.map (·.cur.hash)).Nodup) (hp : l.Perm l') (h : popWorst v l = some (b, r)) :
    ∃ r', popWorst v l' = some (b, r') ∧ r.Perm r' :=
  popBy_perm_invariant _ l l' b r (popWorst_strictTotalOn v l) hd hp h

/-! ### tie by translation: the source's own leaf logic (regenerated into SV/Generated/Funcs.lean on every run) IS the model's -/
theorem source_threshold_tests_are_the_models (p : Pool) :
    p.exceeded =
      Gen.poolExceeded (cache_areThereTooManyBytes := (Gen.tooManyBytes (cache_NumBytes := (clampNat p.numBytes)) (cache_config_NumBytesThreshold := p.cfg.numBytesThreshold))) (cache_areThereTooManySenders := (Gen.tooManySenders (cache_CountSenders := (clampNat p.cntSenders)) (cache_config_CountThreshold := p.cfg.countThreshold))) (cache_areThereTooManyTxs := (Gen.tooManyTxs (cache_CountTx := (clampNat p.cntTx)) (cache_config_CountThreshold := p.cfg.countThreshold))) := GenProofs.poolExceeded_eq p
theorem source_comparator_is_the_models (a b : Tx) :
    moreValuable Variant.current a b =
      Gen.moreValuable (wrappedTx_PricePerUnit := (GenProofs.sat64 (a.ppu Variant.current))) (otherTransaction_PricePerUnit := (GenProofs.sat64 (b.ppu Variant.current))) (wrappedTx_Tx_GetGasLimit := a.gasLimit) (otherTransaction_Tx_GetGasLimit := b.gasLimit) (wrappedTx_TxHash := a.hash) (otherTransaction_TxHash := b.hash) (wrappedTx_computeExactPricePerUnit := (a.ppu Variant.current)) (otherTransaction_computeExactPricePerUnit := (b.ppu Variant.current)) := GenProofs.moreValuable_eq a b

/-! ### end to end, over every pool reachable by any history (SV/TxCache/ReachableSize.lean) -/
/-- eviction of any reachable pool cuts per-sender nonce suffixes: what is kept is a prefix, every kept nonce is below every cut one -/
theorem every_reachable_eviction_cuts_nonce_suffixes (cfg : Config) (ops : List Op) (s : Bytes) (l' : List Tx)
    (h : (s, l') ∈ (evict Variant.current (run cfg ops)).lists) :
    ∃ l suf, (s, l) ∈ (run cfg ops).lists ∧ l = l' ++ suf ∧ ∀ a ∈ l', ∀ b ∈ suf, a.nonce < b.nonce :=
  reachable_eviction_cuts_nonce_suffixes cfg ops s l' h
/-- nothing is evicted from a reachable pool that is within its thresholds -/
theorem every_reachable_eviction_noop_within (cfg : Config) (ops : List Op) (h : (run cfg ops).exceeded = false) :
    evict Variant.current (run cfg ops) = run cfg ops := reachable_eviction_noop_within_thresholds cfg ops h
/-- what eviction of a reachable pool removes from the sender lists is gone by hash too, what it keeps is still found -/
theorem every_reachable_evicted_disappear_everywhere (U : Bytes → Tx) (cfg : Config) (ops : List Op)
    (hw : ∀ t, Op.add t ∈ ops → WfTx U t) :
    Inv U (evict Variant.current (run cfg ops)) ∧
    ∀ t, (∃ s l, (s, l) ∈ (run cfg ops).lists ∧ t ∈ l) →
      (¬ ∃ s l, (s, l) ∈ (evict Variant.current (run cfg ops)).lists ∧ t ∈ l) →
      alookup t.hash (evict Variant.current (run cfg ops)).byHash = none :=
  reachable_evicted_disappear_everywhere U cfg ops hw
theorem every_reachable_survivor_stays_hashed (U : Bytes → Tx) (cfg : Config) (ops : List Op)
    (hw : ∀ t, Op.add t ∈ ops → WfTx U t) (s : Bytes) (l : List Tx) (t : Tx)
    (hm : (s, l) ∈ (evict Variant.current (run cfg ops)).lists) (ht : t ∈ l) :
    alookup t.hash (evict Variant.current (run cfg ops)).byHash = some t :=
  reachable_survivors_stay_hashed U cfg ops hw s l t hm ht

/-- the cut of a sender's suffix walks from the back and stops where the source's loop breaks (first nonce below the cut) -/
theorem source_suffix_cut_is_the_models (n : Nat) (c : Tx) (rest : List Tx) :
    dropHigherRev n (c :: rest) =
      (if Gen.removeHigherStops (txNonce := c.nonce) (givenNonce := n) = [true] then c :: rest else dropHigherRev n rest) :=
  GenProofs.dropHigherRev_cons_eq_source n c rest

open GoList in
/-- the suffix cut of eviction (`removeTransactionsWithHigherOrEqualNonce`, walking `Back()/Prev()` and saving `Prev()` before
    `Remove`) over the transcribed `container/list` is the model's `keepLower`; the hashes come out from the back -/
theorem go_list_suffix_cut_is_the_models (k : Nat) {s : SenderList} (h : SWF s) :
    SWF (s.removeHigherOrEqual k).1
    ∧ (s.removeHigherOrEqual k).1.items.toList = keepLower k s.items.toList
    ∧ (s.removeHigherOrEqual k).2
        = ((s.items.toList.drop (keepLower k s.items.toList).length).reverse).map (·.hash) := removeHigherOrEqual_refines k h

end SV.Props.C07
