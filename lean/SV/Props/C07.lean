/-
  C07 — Eviction removes only least-valuable per-sender suffixes, no more than needed.
-/
import SV.TxCache.EvictPost
import SV.GenProofs.TxThresholds
import SV.GenProofs.TxComparator
namespace SV.Props.C07
open SV SV.TxCache

/-- the victim taken at each step is the least valuable among the heads of all walks
    (lowest fee per gas unit; ties: smaller gas limit, then larger hash) -/
theorem takes_least_valuable (v : Variant) (heap : List HItem) (it : HItem) (rest : List HItem)
    (hd : (heap.map (·.cur.hash)).Nodup) (h : popWorst v heap = some (it, rest)) :
    ∀ other ∈ rest, moreValuable v other.cur it.cur = true :=
  popWorst_is_least_valuable v heap it rest hd h
/-- batches of exactly NumItemsToPreemptivelyEvict (or whatever is left) -/
theorem batch_size (v : Variant) (hv : v.evictionDropsPopped = false) (n : Nat) (heap : List HItem) (acc : List Tx) :
    (collectVictims v n heap acc).1.length = acc.length + min n ((heap.map (fun it => it.rest.length + 1)).sum) :=
  collectVictims_length v hv n heap acc
/-- a further batch is taken only while the pool is still over a threshold -/
theorem stops_when_within (v : Variant) (fuel : Nat) (p : Pool) (heap : List HItem) (h : p.exceeded = false) :
    evictLoop v fuel p heap = p := evictLoop_stops v fuel p heap h
/-- nothing is evicted while the pool is within thresholds -/
theorem noop_within_thresholds (v : Variant) (p : Pool) (h : p.exceeded = false) : evict v p = p := evict_noop v p h
/-- every surviving list is a PREFIX of the old one and everything cut has a nonce strictly above everything kept:
    each sender loses a suffix of its nonce order, same-nonce siblings go together, no gap is opened -/
theorem loses_nonce_suffix (v : Variant) (p : Pool) (hi : ListsInv p) (s : Bytes) (l' : List Tx)
    (h : (s, l') ∈ (evict v p).lists) :
    ∃ l suf, (s, l) ∈ p.lists ∧ l = l' ++ suf ∧ ∀ a ∈ l', ∀ b ∈ suf, a.nonce < b.nonce :=
  evict_lists_prefix v p hi s l' h
/-- evicted transactions disappear from every view: after eviction the two indexes and the counters still agree -/
theorem disappear_from_every_view (U : Bytes → Tx) (p : Pool) (h : Inv U p) : Inv U (evict Variant.current p) := Inv.evict U p h
/-- independence of the sender iteration order: the popped victim does not depend on the order of the heap -/
theorem victim_independent_of_order (v : Variant) (l l' : List HItem) (b : HItem) (r : List HItem)
    (hd : (l.map (·.cur.hash)).Nodup) (hp : l.Perm l') (h : popWorst v l = some (b, r)) :
    ∃ r', popWorst v l' = some (b, r') ∧ r.Perm r' :=
  popBy_perm_invariant _ l l' b r (popWorst_strictTotalOn v l) hd hp h

/-! ### tie by translation: the source's own leaf logic (regenerated into SV/Generated/Funcs.lean on every run) IS the model's -/
theorem source_threshold_tests_are_the_models (p : Pool) :
    p.exceeded =
      Gen.poolExceeded (Gen.tooManyBytes (clampNat p.numBytes) p.cfg.numBytesThreshold)
        (Gen.tooManySenders (clampNat p.cntSenders) p.cfg.countThreshold)
        (Gen.tooManyTxs (clampNat p.cntTx) p.cfg.countThreshold) := GenProofs.poolExceeded_eq p
theorem source_comparator_is_the_models (a b : Tx) :
    moreValuable Variant.current a b =
      Gen.moreValuable (GenProofs.sat64 (a.ppu Variant.current)) (GenProofs.sat64 (b.ppu Variant.current))
        a.gasLimit b.gasLimit a.hash b.hash (a.ppu Variant.current) (b.ppu Variant.current) := GenProofs.moreValuable_eq a b

end SV.Props.C07
