/-
  C19 — Shard routing is total, in range and stable.
  Property theorems only; helper lemmas live in SV.ShardProofs.
-/
import SV.ShardProofs
import SV.Persist.Proofs
import SV.Persist.ShardedProofs
import SV.GenProofs.Shard
namespace SV.Props.C19
open SV SV.Shard

/-- For every shard count `n ≥ 2` and every key (any length, including empty) the id is in `[0,n)`.
    `computeId` is a total function, so totality and stability (same key ⇒ same id) are definitional. -/
theorem id_in_range (n : Nat) (key : Bytes) (h : 2 ≤ n) : computeId n key < n :=
  computeId_lt n key h

/-- The id depends only on the key's trailing `bytesNeeded n` bytes. -/
theorem id_depends_on_suffix_only (n : Nat) (pre pre' suf : Bytes) (h : suf.length = bytesNeeded n) :
    computeId n (pre ++ suf) = computeId n (pre' ++ suf) := by
  rw [computeId_suffix n pre suf h, computeId_suffix n pre' suf h]

/-- Every id in `[0,n)` is produced by some key (for every shard count the constructor accepts). -/
theorem id_onto (n i : Nat) (hv : validCount n = true) (hi : i < n) : ∃ key : Bytes, computeId n key = i := by
  simp only [validCount, Bool.and_eq_true, decide_eq_true_eq] at hv
  exact ⟨beKey (bytesNeeded n) i, computeId_onto n i hv.1 hv.2 hi⟩

/-- The run-length encoding the driver prints for the exhaustive mask comparison is sound for the
    model's masks: every `n` inside a printed segment has exactly the printed masks. -/
theorem mask_segments_sound (a b : Nat) (ha : 2 ≤ a) (hb : b - a < 2 ^ 64) :
    ∀ s ∈ mergeSegs (segs 64 a b), ∀ n, s.1 ≤ n → n ≤ s.2.1 → triple n = s.2.2 :=
  fun s hs => mergeSegs_sound _ (segs_sound 64 a b ha hb) s hs

/-- a sharded persister routes every operation on a key to one and the same underlying persister and therefore behaves
    as a single map (reads after Put / Remove), for every shard count ≥ 2 and every batch size -/
theorem sharded_put_then_read (s : Persist.Sharded) (k k' : Bytes) (v : Persist.Val) (h : Persist.SInv s) :
    (s.put k v).get Persist.Variant.current k' = if k' = k then some v.bytes else s.get Persist.Variant.current k' :=
  Persist.sharded_get_put s k k' v h
theorem sharded_remove_then_read (s : Persist.Sharded) (k k' : Bytes) (h : Persist.SInv s) :
    (s.remove k).get Persist.Variant.current k' = if k' = k then none else s.get Persist.Variant.current k' :=
  Persist.sharded_get_remove s k k' h
theorem sharded_invariant (s : Persist.Sharded) (k : Bytes) (v : Persist.Val) (h : Persist.SInv s) : Persist.SInv (s.put k v) :=
  Persist.SInv.put s k v h
/-- RangeKeys of the sharded persister is the union (concatenation) of the shards' ranges, by definition -/
theorem sharded_range_is_union (s : Persist.Sharded) : s.range = s.shards.flatMap Persist.P.range := rfl

-- non-vacuity: concrete instances
example : computeId 5 [0xff, 0xff, 0x07] = 3 := by decide
example : validCount 300 = true ∧ computeId 300 (beKey (bytesNeeded 300) 299) = 299 := by decide
example : bytesNeeded 300 = 2 ∧ computeId 300 ([1, 2, 3] ++ [1, 2]) = computeId 300 ([] ++ [1, 2]) := by decide

/-- whole histories: the sharded persister behaves as a single map, and after a flush RangeKeys visits the union of all shards —
    exactly the logical map, each key once (every key lives only in the shard its id routes to) -/
theorem sharded_history_is_one_map (n maxBatch : Nat) (hn : 2 ≤ n) (hm : 1 ≤ maxBatch) (ops : List Persist.Op) (k : Bytes) :
    (ops.foldl Persist.Sharded.step (Persist.Sharded.init n maxBatch)).get Persist.Variant.current k
      = (ops.foldl Persist.specStep (fun _ => none)) k := Persist.sharded_run_refines_map n maxBatch hn hm ops k
theorem sharded_range_visits_the_union_once (n maxBatch : Nat) (hn : 2 ≤ n) (hm : 1 ≤ maxBatch) (ops : List Persist.Op) :
    (((ops ++ [Persist.Op.tick]).foldl Persist.Sharded.step (Persist.Sharded.init n maxBatch)).range.map (·.1)).Nodup ∧
    ∀ k, alookup k ((ops ++ [Persist.Op.tick]).foldl Persist.Sharded.step (Persist.Sharded.init n maxBatch)).range
      = (ops.foldl Persist.specStep (fun _ => none)) k := Persist.sharded_run_range n maxBatch hn hm ops

/-- the tie by translation: the two tests of `ComputeId` in the CURRENT source (which bytes of the key are read; when the low
    mask replaces the high one) are the model's, and they read exactly the operands pinned here -/
theorem source_computeId_tests_are_the_models (n : Nat) (key : Bytes) (hn : 1 ≤ n) :
    suffixOf n key =
      (if Gen.shardKeepsWholeKey (len_key := key.length) (sp_bytesNeeded := bytesNeeded n)
       then key.drop (key.length - bytesNeeded n) else key) ∧
    computeId n key =
      (let addr := foldAddr (suffixOf n key)
       if Gen.shardFallsBackToLowMask (shardIndex := ((addr &&& maskHigh n : Nat) : Int)) (sp_numOfShards := n)
       then addr &&& maskLow n else addr &&& maskHigh n) ∧
    Gen.shardKeepsWholeKey_leaves = ["len(key) : Int", "sp.bytesNeeded : Int"] ∧
    Gen.shardFallsBackToLowMask_leaves = ["shardIndex : Int", "sp.numOfShards : Int"] :=
  ⟨GenProofs.suffixOf_eq_source n key, GenProofs.computeId_eq_source n key hn,
   GenProofs.shardKeepsWholeKey_leaves, GenProofs.shardFallsBackToLowMask_leaves⟩

end SV.Props.C19
