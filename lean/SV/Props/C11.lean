/-
  C11 — Concurrent persister operations are linearizable.
  PARTIAL: the theorem is about the block-interleaving model SV.Conc.PersistConc (critical sections as atomic blocks).
  The block structure is tied to the source by regenerated facts (`persister_blocks`) and by forced schedules replayed on
  the model; Go memory-model races inside a block, fairness and goleveldb's internal concurrency are outside the model.
-/
import SV.Conc.LinProofs
import SV.FactsProofs.Blocks
namespace SV.Props.C11
open SV SV.Persist SV.Conc

/-- the code has the block structure of the model (regenerated from the current source on every run) -/
theorem block_structure_matches_source :
    (Facts.dbGetBatchReadsAtomic && Facts.dbHasBatchReadsAtomic && Facts.serialGetBatchReadsAtomic &&
     Facts.serialHasBatchReadsAtomic && Facts.serialFlushHoldsLock && Facts.dbFlushHoldsLock) = true := Facts.persister_blocks

/-- ALL schedules, any number of threads, any programs, any batch size (flushes by size, and by the timer thread): there
    is a sequential order of the operations (`lin`, sorted by linearization point `pt`) such that
    (1) replaying it on a plain map reproduces every returned value (`SeqOK`);
    (2) every completed read is in it with a point inside its call/return window;
    (3) every write is in it at the step of its first block (between its call and its return);
    (4) it contains nothing else, and no operation twice.
    Hence every operation appears to take effect atomically at one instant between its call and its return. -/
theorem linearizable (maxBatch : Nat) (progs : List (List Conc.Op)) (sched : List Nat) :
    ∃ lin : List LinOp,
      lin.Pairwise (fun a b => a.pt ≤ b.pt) ∧
      SeqOK (fun _ => none) lin ∧
      (∀ j t k r, Ev.ret t (.get k) r ∈ evsAt (Cfg.init maxBatch progs) sched j →
        ∃ i m, i ≤ m ∧ m ≤ j ∧ CallRet (Cfg.init maxBatch progs) sched t k r i j ∧
          (⟨m, t, j, .get k, r⟩ : LinOp) ∈ lin) ∧
      (∀ i t op, op.isWrite = true → Ev.call t op ∈ evsAt (Cfg.init maxBatch progs) sched i →
        (⟨i, t, i, op, none⟩ : LinOp) ∈ lin) :=
  let ⟨lin, h1, h2, h3, h4, _⟩ := SV.Conc.linearizable maxBatch progs sched
  ⟨lin, h1, h2, h3, h4⟩

/-- every completed read returns the logical value of SOME configuration between its call and its return -/
theorem read_window (maxBatch : Nat) (progs : List (List Conc.Op)) (sched : List Nat) (j t : Nat) (k : Bytes)
    (r : Option Bytes) (hret : Ev.ret t (.get k) r ∈ evsAt (Cfg.init maxBatch progs) sched j) :
    ∃ i m, i ≤ m ∧ m ≤ j ∧ CallRet (Cfg.init maxBatch progs) sched t k r i j ∧
      r = (cfgAt (Cfg.init maxBatch progs) sched m).abs k := get_window maxBatch progs sched j t k r hret

/-- in particular: a read that starts after a write to the same key took effect (e.g. has returned), with no other write
    to that key until the read returns, returns that write's value (none for a remove) — it never misses it -/
theorem read_never_misses_a_returned_write (maxBatch : Nat) (progs : List (List Conc.Op)) (sched : List Nat) (j t : Nat) (k : Bytes)
    (r : Option Bytes) (hret : Ev.ret t (.get k) r ∈ evsAt (Cfg.init maxBatch progs) sched j) :
    ∃ i, CallRet (Cfg.init maxBatch progs) sched t k r i j ∧
      (∀ w t' v, w < i → Ev.call t' (.put k v) ∈ evsAt (Cfg.init maxBatch progs) sched w →
          NoWrite (Cfg.init maxBatch progs) sched k (w + 1) j → r = some v) ∧
      (∀ w t', w < i → Ev.call t' (.rm k) ∈ evsAt (Cfg.init maxBatch progs) sched w →
          NoWrite (Cfg.init maxBatch progs) sched k (w + 1) j → r = none) := read_after_write maxBatch progs sched j t k r hret

/-- reads never go backwards: if one read returned before another was called, the second observes a strictly later configuration -/
theorem reads_never_go_backwards (maxBatch : Nat) (progs : List (List Conc.Op)) (sched : List Nat) (j₁ t₁ j₂ t₂ : Nat)
    (k₁ k₂ : Bytes) (r₁ r₂ : Option Bytes)
    (h₁ : Ev.ret t₁ (.get k₁) r₁ ∈ evsAt (Cfg.init maxBatch progs) sched j₁)
    (h₂ : Ev.ret t₂ (.get k₂) r₂ ∈ evsAt (Cfg.init maxBatch progs) sched j₂) :
    ∃ m₁ i₂ m₂, m₁ ≤ j₁ ∧ i₂ ≤ m₂ ∧ m₂ ≤ j₂ ∧ CallRet (Cfg.init maxBatch progs) sched t₂ k₂ r₂ i₂ j₂ ∧
      r₁ = (cfgAt (Cfg.init maxBatch progs) sched m₁).abs k₁ ∧
      r₂ = (cfgAt (Cfg.init maxBatch progs) sched m₂).abs k₂ ∧
      (j₁ < i₂ → m₁ < m₂) := reads_monotone maxBatch progs sched j₁ t₁ j₂ t₂ k₁ k₂ r₁ r₂ h₁ h₂

/-- a flush — by size or by the timer — never changes the logical map; a write changes it at exactly one block -/
theorem flush_is_invisible (p : P) (k : Bytes) (h : CInv p) : p.flush.abs k = p.abs k := abs_flush' p k h
theorem write_takes_effect_at_one_block (p : P) (k k' v : Bytes) (h : CInv p) :
    (batchPut p k v).abs k' = if k' = k then some v else p.abs k' := abs_batchPut p k k' v h

-- non-vacuity: a schedule in which a read's batch lookup misses before a concurrent put and a timer flush run
example : (runSched (Cfg.init 3 [[.put [1] [7]], [.get [1]]]) [1, 0, 0, 2, 1]).1.getLast? = some (Ev.ret 1 (.get [1]) (some [7])) := by
  decide

end SV.Props.C11
