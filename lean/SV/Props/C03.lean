/-
  C03 — Selection order is the deterministic fee-per-gas greedy merge across senders.
-/
import SV.TxCache.OrderProofs
import SV.TxCache.SelOrderProofs
import SV.TxCache.GreedySpec
import SV.TxCache.HeapModel
import SV.TxCache.ReachableProofs
import SV.GenProofs.TxComparator
import SV.TxCache.ChunkedMap
namespace SV.Props.C03
open SV SV.TxCache

/-- fee per gas unit used for ordering is floor(fee / gasLimit) for EVERY fee (no truncation to 64 bits), 0 for gasLimit 0 -/
theorem ppu_is_floor (t : Tx) : t.ppu Variant.current = if t.gasLimit = 0 then 0 else t.fee / t.gasLimit := by
  unfold Tx.ppu; simp [Variant.current]

/-- the comparator (higher fee per gas unit, then larger gas limit, then smaller hash) is a strict total order on
    transactions with different hashes: every pair is ordered, so "the best candidate" is unique -/
theorem comparator_strict_total (v : Variant) :
    (∀ a, moreValuable v a a = false) ∧
    (∀ a b c, moreValuable v a b = true → moreValuable v b c = true → moreValuable v a c = true) ∧
    (∀ a b, a.hash ≠ b.hash → moreValuable v a b = true ∨ moreValuable v b a = true) :=
  ⟨moreValuable_irrefl v, moreValuable_trans v, moreValuable_total v⟩

/-- each step takes, among the next pending transactions of the senders still in play, THE most valuable one -/
theorem pops_the_best (v : Variant) (heap : List HItem) (b : HItem) (r : List HItem)
    (hd : (heap.map (·.cur.hash)).Nodup) (h : popBest v heap = some (b, r)) :
    ∀ i ∈ r, moreValuable v b.cur i.cur = true :=
  popBy_best (moreValuable v) heap b r (popBest_strictTotalOn v heap) hd h

/-- the result depends only on the SET of bunches: not on insertion order, map iteration order or chunk count -/
theorem order_independent (v : Variant) (s : Session) (q : SelParams) (bunches bunches' : List (List Tx))
    (hp : bunches.Perm bunches') (hn : (bunches.flatten.map (·.hash)).Nodup) :
    selectFromBunches v s q bunches = selectFromBunches v s q bunches' :=
  selectFromBunches_perm v s q bunches bunches' hp hn

/-- lowering maxNum, gasRequested or the time budget yields a prefix -/
theorem stricter_limits_give_prefix (v : Variant) (hv : v.gasWraps = false) (s : Session) (q' q : SelParams) (hs : Stricter q' q)
    (bunches : List (List Tx)) : (selectFromBunches v s q' bunches).1 <+: (selectFromBunches v s q bunches).1 :=
  selectFromBunches_prefix v hv s q' q hs bunches

/-- the model's selection IS the documented procedure: `greedy` (SV.TxCache.GreedySpec) is written independently in the
    README's vocabulary — players with a queue and an expectation (first / after n), an explicit argmax over the heads,
    budget tests, then sender-level hazards (initial gap, middle gap, unaffordable fee: drop the sender), then
    transaction-level hazards (stale, badly guarded, duplicate nonce: skip one) — and returns the same list and gas -/
theorem equals_documented_greedy_procedure (v : Variant) (s : Session) (q : SelParams) (bunches : List (List Tx))
    (hn : (bunches.flatten.map (·.hash)).Nodup) : selectFromBunches v s q bunches = greedy v s q bunches :=
  selectFromBunches_eq_greedy v s q bunches hn

/-- Go's container/heap is not assumed: a faithful functional model of heap.Init/Push/Pop (binary heap in a slice, sift-up /
    sift-down transcribed from the Go source) threaded through the same loop returns exactly what the extract-best
    abstraction returns -/
theorem container_heap_refines_extract_best (v : Variant) (s : Session) (q : SelParams) (bunches : List (List Tx))
    (hn : (bunches.flatten.map (·.hash)).Nodup) :
    Heap.selectFromBunchesHeap v s q bunches = selectFromBunches v s q bunches :=
  Heap.selectFromBunchesHeap_eq v s q bunches hn

/-- selection is a pure function of (pool, session, limits): `select` returns no pool, the pool is unchanged by
    construction; repeatability is functional extensionality -/
theorem repeatable (v : Variant) (p : Pool) (s : Session) (q : SelParams) : select v p s q = select v p s q := rfl

/-- F2 (pre-repair): PPU from the low 64 bits of the fee -/
theorem legacy_ppu_truncates : (⟨[1], [2], 0, 1, 1, 1, two64 + 5, 0, []⟩ : Tx).ppu Variant.legacy = 5 := by decide

/-- END-TO-END: on every reachable pool the selection IS the documented greedy procedure and depends only on the SET of
    sender lists (any other map iteration / insertion order of the senders gives the same result) -/
theorem greedy_on_every_reachable_pool (U : Bytes → Tx) (cfg : Config) (ops : List Op)
    (hw : ∀ t, Op.add t ∈ ops → WfTx U t) (s : Session) (q : SelParams) :
    let p := ops.foldl applyOp (Pool.init cfg)
    select Variant.current p s q = greedy Variant.current s q (p.lists.map (·.2)) ∧
    (∀ L' : List (Bytes × List Tx), L'.Perm p.lists →
      selectFromBunches Variant.current s q (L'.map (·.2)) = select Variant.current p s q) ∧
    (∀ p' : Pool, p'.lists.Perm p.lists → select Variant.current p' s q = select Variant.current p s q) :=
  reachable_selection_is_greedy U cfg ops hw s q

/-! ### tie by translation: the source's own leaf logic (regenerated into SV/Generated/Funcs.lean on every run) IS the model's -/
theorem source_comparator_is_the_models (a b : Tx) :
    moreValuable Variant.current a b =
      Gen.moreValuable (wrappedTx_PricePerUnit := (GenProofs.sat64 (a.ppu Variant.current))) (otherTransaction_PricePerUnit := (GenProofs.sat64 (b.ppu Variant.current))) (wrappedTx_Tx_GetGasLimit := a.gasLimit) (otherTransaction_Tx_GetGasLimit := b.gasLimit) (wrappedTx_TxHash := a.hash) (otherTransaction_TxHash := b.hash) (wrappedTx_computeExactPricePerUnit := (a.ppu Variant.current)) (otherTransaction_computeExactPricePerUnit := (b.ppu Variant.current)) := GenProofs.moreValuable_eq a b
theorem source_comparator_reads (_ : Unit) :
    Gen.moreValuable_leaves = ["otherTransaction.PricePerUnit : Int", "otherTransaction.Tx.GetGasLimit() : Int", "otherTransaction.TxHash : Bytes", "otherTransaction.computeExactPricePerUnit() : Int", "wrappedTx.PricePerUnit : Int", "wrappedTx.Tx.GetGasLimit() : Int", "wrappedTx.TxHash : Bytes", "wrappedTx.computeExactPricePerUnit() : Int"] := GenProofs.moreValuable_leaves

/-- the price per gas unit stored at insertion is computed by the source as ⌊fee / gasLimit⌋ saturated at 2^64 − 1, for EVERY
    fee (the math/big path included; a reintroduced `fee.Uint64()` truncation would change the translated definition and
    break this theorem) -/
theorem source_price_per_unit_is_floor_saturated (t : Tx) (hg : t.gasLimit ≠ 0) :
    Gen.pricePerUnit (fee := t.fee) (gasLimit := t.gasLimit) = GenProofs.sat64 (t.ppu Variant.current) := GenProofs.pricePerUnit_eq t hg

/-! ### "not on chunk count": the mempool's chunked concurrent map (txcache/maps/concurrentMap.go, transcribed in
    SV/TxCache/ChunkedMap.lean: fnv32 chunk choice, per-chunk Go maps enumerated in ANY order) is invisible -/
open ChunkedMap ChunkedMap.CMap in
/-- the same history of map operations on `n` and on `n'` chunks returns the same flags/values/counts, ends with the same
    lookups, and its two enumerations are permutations of one another (whatever order Go iterates each chunk in) -/
theorem chunk_count_is_invisible_to_the_map {α : Type} (n n' : Nat) (ops : List (Op α))
    (σ σ' : Nat → List (Bytes × α) → List (Bytes × α)) (hσ : IterOrder σ) (hσ' : IterOrder σ') :
    (run n ops).2 = (run n' ops).2 ∧
    (∀ k, (run n ops).1.get k = (run n' ops).1.get k) ∧
    (∀ k, (run n ops).1.has k = (run n' ops).1.has k) ∧
    (run n ops).1.count = (run n' ops).1.count ∧
    ((run n ops).1.enumWith σ).Perm ((run n' ops).1.enumWith σ') ∧
    ((run n ops).1.keysWith σ).Perm ((run n' ops).1.keysWith σ') ∧
    ((run n ops).1.keysWith σ).Nodup ∧
    ((run n ops).1.keys).Perm ((run n' ops).1.keys) := chunks_invisible n n' ops σ σ' hσ hσ'
open ChunkedMap ChunkedMap.CMap in
/-- hence the selection computed from the senders' lists enumerated through the chunked map is the same for every
    chunk count and every per-chunk iteration order -/
theorem selection_independent_of_chunk_count (v : Variant) (s : Session) (q : SelParams) (n n' : Nat) (ops : List (Op (List Tx)))
    (σ σ' : Nat → List (Bytes × List Tx) → List (Bytes × List Tx)) (hσ : IterOrder σ) (hσ' : IterOrder σ')
    (hn : ((bunchesWith σ (run n ops).1).flatten.map (·.hash)).Nodup) :
    selectFromBunches v s q (bunchesWith σ (run n ops).1) = selectFromBunches v s q (bunchesWith σ' (run n' ops).1) :=
  selection_chunks_invisible v s q n n' ops σ σ' hσ hσ' hn
open ChunkedMap ChunkedMap.CMap in
/-- … and it is the selection of the one-association-list representation the hand-written model uses -/
theorem chunked_selection_is_the_models (v : Variant) (s : Session) (q : SelParams) (n : Nat) (ops : List (Op (List Tx)))
    (σ : Nat → List (Bytes × List Tx) → List (Bytes × List Tx)) (hσ : IterOrder σ)
    (hn : (((runA ops).1.map (·.2)).flatten.map (·.hash)).Nodup) :
    selectFromBunches v s q (bunchesWith σ (run n ops).1) = selectFromBunches v s q ((runA ops).1.map (·.2)) :=
  selection_refines_alist v s q n ops σ hσ hn

end SV.Props.C03
