/-
  C10 — A crash loses at most the unflushed batch; flushed batches survive whole.
  PARTIAL: the batching LOGIC is proved; that goleveldb applies a synced batch atomically and durably (and recovers it
  from a torn journal) is the engine's contract — observed on crash images at every storage event, not proved; so is the
  timer actually firing within BatchDelaySeconds.
-/
import SV.Persist.Proofs
import SV.FactsProofs
namespace SV.Props.C10
open SV SV.Persist

/-- every LevelDB write the persisters issue is synced (regenerated from the current source on every run) -/
theorem every_write_is_synced : ∀ w ∈ Facts.leveldbWrites, w.2 = true := Facts.all_writes_sync

/-- the LevelDB state changes only by applying ONE WHOLE batch: an operation either leaves the flushed state untouched or
    replaces it by the pending batch (all acknowledged operations since the last flush, in order, including this one)
    applied on top of it — never a part of a batch, never out of order -/
theorem put_db_atomic (p : P) (k : Bytes) (v : Val) :
    (p.put k v).db = p.db ∨ (p.put k v).db = applyBatch p.db (p.ops ++ [.put k v.bytes]) := by
  unfold P.put P.bump
  dsimp only
  split
  · left; rfl
  · right; simp [P.flush]

theorem remove_db_atomic (p : P) (k : Bytes) :
    (p.remove k).db = p.db ∨ (p.remove k).db = applyBatch p.db (p.ops ++ [.del k]) := by
  unfold P.remove P.bump
  dsimp only
  split
  · left; rfl
  · right; simp [P.flush]

/-- a flush (size-triggered, timer, Close) writes exactly the pending batch -/
theorem flush_db (p : P) : p.flush.db = applyBatch p.db p.ops ∧ p.flush.ops = [] := ⟨rfl, rfl⟩

/-- hence, with the engine's all-or-nothing write: whatever survives of an in-flight write, the recovered state is the
    flush boundary before or after the operation in progress -/
def recover (db : Store) (inflight : List BOp) (survived : Bool) : Store := if survived then applyBatch db inflight else db
theorem crash_during_flushing_put (p : P) (k : Bytes) (v : Val) (survived : Bool)
    (hf : (p.put k v).db = applyBatch p.db (p.ops ++ [.put k v.bytes])) :
    recover p.db (p.ops ++ [.put k v.bytes]) survived = p.db ∨
    recover p.db (p.ops ++ [.put k v.bytes]) survived = (p.put k v).db := by
  unfold recover
  cases survived
  · left; rfl
  · right; simp [hf]
/-- an operation that does not flush issues no write at all: any crash during it recovers the previous flush boundary -/
theorem crash_during_non_flushing_put (p : P) (k : Bytes) (v : Val) (survived : Bool) : recover p.db [] survived = p.db := by
  unfold recover; cases survived <;> simp [applyBatch]

/-- the flushed state IS the logical map at the flush boundary: nothing acknowledged before the flush is missing from it -/
theorem flushed_state_is_the_map (p : P) (h : BInv p) : ∀ k, alookup k p.flush.db = p.abs k := (range_after_flush p h).2
/-- an acknowledged write is at risk only until its batch is flushed: the pending batch counts every acknowledged
    operation since the last flush and stays below MaxBatchSize after every operation, so the flush happens after at most
    MaxBatchSize − 1 further operations (or at the next timer event, which is a flush) -/
theorem at_risk_bounded (p : P) (h : BInv p) : p.ops.length < p.maxBatch := pending_bounded p h
theorem invariant_put (p : P) (k : Bytes) (v : Val) (h : BInv p) : BInv (p.put k v) := BInv.put p k v h
theorem invariant_remove (p : P) (k : Bytes) (h : BInv p) : BInv (p.remove k) := BInv.remove p k h

end SV.Props.C10
