/-
  C10 — A crash loses at most the unflushed batch; flushed batches survive whole.
  PARTIAL: the batching LOGIC is proved; that goleveldb applies a synced batch atomically and durably (and recovers it
  from a torn journal) is the engine's contract — observed on crash images at every storage event, not proved; so is the
  timer actually firing within BatchDelaySeconds.
-/
import SV.Persist.Proofs
import SV.Persist.CrashProofs
import SV.FactsProofs.Sync
import SV.FactsProofs.Blocks
import SV.GenProofs.Persist
namespace SV.Props.C10
open SV SV.Persist

/-- every LevelDB write the persisters issue is synced (regenerated from the current source on every run) -/
theorem every_write_is_synced : ∀ w ∈ Facts.leveldbWrites, w.2 = true := Facts.all_writes_sync
/-- (regenerated fact) both persisters hold the batch mutex from before the LevelDB write of a flush until the batch has been
    reset (DB) / swapped and answered (SerialDB): the model's `flush` — write `ops`, continue with `[]` — is one atomic step of
    the code, so an operation acknowledged meanwhile is in the NEXT batch and not wiped with the flushed one -/
theorem flush_is_one_critical_section : (Facts.serialFlushHoldsLock && Facts.dbFlushHoldsLock) = true :=
  Facts.flush_is_one_critical_section
/-- (regenerated fact) the pending batch of `DB` is reset only after the LevelDB write of the flush returned nil — in the
    size-triggered and in the timer-triggered flush: the model's `flush` (write `ops`, continue with `[]`) is the code's SUCCESSFUL
    flush; a failed write changes neither the store nor the batch, so acknowledged operations are not dropped by an I/O error -/
theorem failed_write_keeps_the_batch : Facts.dbResetOnlyAfterSuccessfulWrite = true := Facts.failed_write_keeps_the_batch
/-- (regenerated fact) what is handed to goleveldb at a flush is the batch's own record list, in the order of the operations -/
theorem every_flush_writes_the_record_list :
    Facts.leveldbWriteArgs = ["DB.putBatch: dbBatch.batch", "putBatchAct.doPutRequest: p.batch.batch"] :=
  Facts.writes_pass_the_record_list

/-- the LevelDB state changes only by applying ONE WHOLE batch: an operation either leaves the flushed state untouched or
    replaces it by the pending batch (all acknowledged operations since the last flush, in order, including this one)
    applied on top of it — never a part of a batch, never out of order -/
theorem put_db_atomic (p : P) (k : Bytes) (v : Val) :
    (p.put k v).db = p.db ∨ (p.put k v).db = applyBatch p.db (p.ops ++ [.put k v.bytes]) := by
  unfold P.put P.bump
  dsimp only
  split
  · left; rfl
  · right; simp [P.flush]

theorem remove_db_atomic (p : P) (k : Bytes) :
    (p.remove k).db = p.db ∨ (p.remove k).db = applyBatch p.db (p.ops ++ [.del k]) := by
  unfold P.remove P.bump
  dsimp only
  split
  · left; rfl
  · right; simp [P.flush]

/-- a flush (size-triggered, timer, Close) writes exactly the pending batch -/
theorem flush_db (p : P) : p.flush.db = applyBatch p.db p.ops ∧ p.flush.ops = [] := ⟨rfl, rfl⟩

/-- hence, with the engine's all-or-nothing write: whatever survives of an in-flight write, the recovered state is the
    flush boundary before or after the operation in progress -/
def recover (db : Store) (inflight : List BOp) (survived : Bool) : Store := if survived then applyBatch db inflight else db
theorem crash_during_flushing_put (p : P) (k : Bytes) (v : Val) (survived : Bool)
    (hf : (p.put k v).db = applyBatch p.db (p.ops ++ [.put k v.bytes])) :
    recover p.db (p.ops ++ [.put k v.bytes]) survived = p.db ∨
    recover p.db (p.ops ++ [.put k v.bytes]) survived = (p.put k v).db := by
  unfold recover
  cases survived
  · left; rfl
  · right; simp [hf]
/-- an operation that does not flush issues no write at all: any crash during it recovers the previous flush boundary -/
theorem crash_during_non_flushing_put (p : P) (k : Bytes) (v : Val) (survived : Bool) : recover p.db [] survived = p.db := by
  unfold recover; cases survived <;> simp [applyBatch]

/-- the flushed state IS the logical map at the flush boundary: nothing acknowledged before the flush is missing from it -/
theorem flushed_state_is_the_map (p : P) (h : BInv p) : ∀ k, alookup k p.flush.db = p.abs k := (range_after_flush p h).2
/-- an acknowledged write is at risk only until its batch is flushed: the pending batch counts every acknowledged
    operation since the last flush and stays below MaxBatchSize after every operation, so the flush happens after at most
    MaxBatchSize − 1 further operations (or at the next timer event, which is a flush) -/
theorem at_risk_bounded (p : P) (h : BInv p) : p.ops.length < p.maxBatch := pending_bounded p h
theorem invariant_put (p : P) (k : Bytes) (v : Val) (h : BInv p) : BInv (p.put k v) := BInv.put p k v h
theorem invariant_remove (p : P) (k : Bytes) (h : BInv p) : BInv (p.remove k) := BInv.remove p k h

/-! ### whole histories, every crash point (SV.Persist.Crash: `crashImage maxBatch ops i survived` is the directory left by
    a process that dies while operation `i` is in progress — if that operation issued a LevelDB write, the write either
    survived whole or not at all (the engine contract, an explicit hypothesis built into the definition) -/

/-- for EVERY history, batch size and crash point the recovered directory is the state as of a flush boundary `j ≤ i+1`
    which is at least every boundary completed before the crash (all completed flushes are fully present), and it is —
    key by key — EXACTLY the plain-map state after the first `j` operations: nothing of a later batch (never partial),
    everything of the earlier ones, applied in order -/
theorem crash_recovers_a_flush_boundary (maxBatch : Nat) (hm : 1 ≤ maxBatch) (ops : List Op) (i : Nat) (survived : Bool) :
    ∃ j, j ≤ i + 1 ∧ Boundary maxBatch ops j ∧
      (∀ j', j' ≤ i → Boundary maxBatch ops j' → j' ≤ j) ∧
      crashImage maxBatch ops i survived = (run maxBatch (ops.take j)).db ∧
      ∀ k, alookup k (crashImage maxBatch ops i survived) = (ops.take j).foldl specStep (fun _ => none) k :=
  crash_recovers_a_recent_flush_boundary maxBatch hm ops i survived

/-- an acknowledged write is at risk for at most MaxBatchSize − 1 further Put/Remove operations: if that many follow
    operation `j`, a flush boundary lies in `(j, i]`; and every timer event / Close is a boundary -/
theorem acknowledged_write_flushed_within (maxBatch : Nat) (hm : 1 ≤ maxBatch) (ops : List Op) (i j : Nat) (hji : j < i)
    (hi : i ≤ ops.length) (hcnt : maxBatch ≤ ((ops.take i).drop (j + 1)).countP Op.isUpdate + 1) :
    ∃ j', j < j' ∧ j' ≤ i ∧ Boundary maxBatch ops j' := write_flushed_within maxBatch hm ops i j hji hi hcnt
theorem timer_and_close_are_boundaries (maxBatch : Nat) (ops : List Op) (i : Nat)
    (h : ops[i]? = some Op.tick ∨ ops[i]? = some Op.reopen) : Boundary maxBatch ops (i + 1) :=
  boundary_after_tick_reopen maxBatch ops i h
/-- fewer than MaxBatchSize acknowledged updates are lost by any crash -/
theorem lost_updates_are_bounded (maxBatch : Nat) (hm : 1 ≤ maxBatch) (ops : List Op) (i : Nat) (survived : Bool) :
    ((ops.take i).drop (crashPoint maxBatch ops i survived)).countP Op.isUpdate < maxBatch :=
  lost_updates_bounded maxBatch hm ops i survived

/-- the judgement the model driver applies to every REAL crash image (`imageAllowed`, computable) is sound and complete
    for that characterisation -/
theorem driver_judgement_sound (maxBatch : Nat) (hm : 1 ≤ maxBatch) (ops : List Op) (i : Nat) (img : Store)
    (h : imageAllowed maxBatch ops i img = true) :
    ∃ j, j ≤ i + 1 ∧ Boundary maxBatch ops j ∧ (∀ j', j' ≤ i → Boundary maxBatch ops j' → j' ≤ j) ∧
      ∀ k, alookup k img = (ops.take j).foldl specStep (fun _ => none) k := imageAllowed_sound maxBatch hm ops i img h
theorem driver_judgement_complete (maxBatch : Nat) (ops : List Op) (i : Nat) (survived : Bool) :
    imageAllowed maxBatch ops i (crashImage maxBatch ops i survived) = true := imageAllowed_crashImage maxBatch ops i survived

/-! ### tie by translation: the source's own leaf logic (regenerated into SV/Generated/Funcs.lean on every run) IS the model's -/
theorem source_flush_test_is_the_models (p : P) :
    p.bump = (if Gen.dbNoFlushNeeded (s_sizeBatch := p.sizeBatch) (s_maxBatchSize := p.maxBatch) then { p with sizeBatch := p.sizeBatch + 1 }
              else ({ p with sizeBatch := p.sizeBatch + 1 } : P).flush) ∧
    Gen.serialNoFlushNeeded (s_sizeBatch := p.sizeBatch) (s_maxBatchSize := p.maxBatch) = Gen.dbNoFlushNeeded (s_sizeBatch := p.sizeBatch) (s_maxBatchSize := p.maxBatch) := GenProofs.bump_eq p

end SV.Props.C10
