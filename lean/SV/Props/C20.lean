/-
  C20 — FIFO sharded cache is bounded and keeps entries for a guaranteed insertion count.
-/
import SV.Misc.FifoProofs
import SV.Misc.FifoRingProofs
import SV.Misc.FifoRingCacheProofs
namespace SV.Props.C20
open SV SV.Fifo

/-- a cache of size S over N shards (S ≥ 2N) never holds more than S entries -/
theorem never_more_than_size (size : Nat) (c : Cache) (h : CacheInv size c) (hs : 2 * c.n ≤ size) : c.len ≤ size := cache_bound size c h hs
theorem invariant_put (size : Nat) (c : Cache) (k v : Bytes) (h : CacheInv size c) (hs : 2 * c.n ≤ size) : CacheInv size (c.put k v).1 :=
  CacheInv.put size c k v h hs
theorem invariant_hasOrAdd (size : Nat) (c : Cache) (k v : Bytes) (h : CacheInv size c) (hs : 2 * c.n ≤ size) : CacheInv size (c.hasOrAdd k v).1 :=
  CacheInv.hasOrAdd size c k v h hs
theorem invariant_remove (size : Nat) (c : Cache) (k : Bytes) (h : CacheInv size c) : CacheInv size (c.remove k) := CacheInv.remove size c k h
/-- the entry just inserted is always resident -/
theorem just_inserted_resident (size : Nat) (c : Cache) (k v : Bytes) (h : CacheInv size c) (hs : 2 * c.n ≤ size) :
    (c.put k v).1.get k = some v := put_resident size c k v h hs
/-- an entry is never dropped before ⌈S/N⌉ − 2 further insertions into its shard -/
theorem survives_guaranteed_insertions (m : Nat) (s : Shard) (k v : Bytes) (ks : List (Bytes × Bytes)) (h : ShardInv m s) (hm : 2 ≤ m)
    (hne : ∀ p ∈ ks, p.1 ≠ k) (hl : ks.length ≤ m - 2) :
    alookup k (ks.foldl (fun s p => s.set p.1 p.2) (s.set k v)).vals = some v := survives m s k v ks h hm hne hl
theorem slots_per_shard (size n : Nat) (hn : 1 ≤ n) (hs : n ≤ size) : shardSize size n = (size + n - 1) / n := shardSize_spec size n hn hs
/-- one shard: strict insertion order, an overwrite counting as a fresh insertion; the evicted key is the oldest position -/
theorem fifo_order (m : Nat) (s : Shard) (k v : Bytes) (h : ShardInv m s) (hm : 2 ≤ m) :
    (s.set k v).keys = ((blank k s.view).dropLast.reverse.filterMap id) ++ [k] := set_keys m s k v h hm
/-- Get, Has, Peek, Keys and Len agree: Keys lists exactly the keys that have a value -/
theorem views_agree (m : Nat) (s : Shard) (h : ShardInv m s) : ∀ k, k ∈ s.keys ↔ (alookup k s.vals).isSome = true := keys_eq_vals m s h
/-- HasOrAdd inserts only when the key is absent; handlers fire exactly once per insertion -/
theorem hasOrAdd_inserts_iff_absent (c : Cache) (k v : Bytes) :
    let r := c.hasOrAdd k v
    r.2.1 = (c.get k).isSome ∧ r.2.2.1 = !(c.get k).isSome ∧ r.2.2.2 = (if r.2.2.1 then c.handlers.map (·, k, v) else []) :=
  SV.Fifo.hasOrAdd_flags c k v
theorem put_invokes_each_handler_once (c : Cache) (k v : Bytes) : (c.put k v).2 = c.handlers.map (·, k, v) := put_notifies c k v

/-! ### the ring buffer itself: `SV.Misc.FifoRing` / `FifoRingCache` transcribe concurrent-map's shard statement by statement
    (slot array `mapKeys`, `idxAdd`, per-item `arrayIdx`, `appendKeyToList`, `Keys()` walking from `idxAdd+1`) and the cache
    on top of it (`Clear` removing key by key through the hash); this is the model the driver executes.  It refines the
    age-ordered model above, so every theorem of this file holds of the ring. -/

/-- one shard: any operation sequence on the ring and on the age-ordered model stay related — same abstraction, same
    SetIfAbsent flags, same Keys (same order), same lookups; the representation invariant holds throughout -/
theorem ring_refines_age_model (m : Nat) (hm : 1 ≤ m) (ops : List Op) :
    RingInv ((Ring.init m).run ops).1 ∧
    ((Ring.init m).run ops).1.toShard = ((Shard.init m).run ops).1 ∧
    ((Ring.init m).run ops).2 = ((Shard.init m).run ops).2 ∧
    ((Ring.init m).run ops).1.keys = ((Shard.init m).run ops).1.keys ∧
    (∀ k, ((Ring.init m).run ops).1.get k = alookup k ((Shard.init m).run ops).1.vals) := run_init m hm ops
/-- the whole cache (any number of shards ≥ 1): same abstraction and the same outputs for every operation sequence over
    Put / HasOrAdd / Get / Remove / Clear / Len / Keys / handler (un)registration -/
theorem ring_cache_refines_age_model (size n : Nat) (hn : 1 ≤ n) (ops : List COp) :
    RCacheInv size ((RCache.init size n).run ops).1 ∧
    ((RCache.init size n).run ops).1.toCache = ((Cache.init size n).run ops).1 ∧
    ((RCache.init size n).run ops).2 = ((Cache.init size n).run ops).2 := crun_init size n hn ops
/-- hence, directly on the ring: never more than S entries, and the entry just inserted is resident -/
theorem ring_never_more_than_size {size : Nat} (c : RCache) (h : RCacheInv size c) (hs : 2 * c.n ≤ size) : c.len ≤ size :=
  rcache_bound c h hs
theorem ring_just_inserted_resident {size : Nat} (c : RCache) (k v : Bytes) (h : RCacheInv size c) (hs : 2 * c.n ≤ size) :
    (c.put k v).1.get k = some v := rcache_put_resident c k v h hs
/-- `Clear` (key-by-key removal over whatever order `Keys()` delivers) leaves every slot blank and keeps `idxAdd` -/
theorem ring_clear_state {size : Nat} (c : RCache) (h : RCacheInv size c) :
    c.clear = ⟨c.n, c.shards.map (fun r => ⟨r.m, r.idxAdd, List.replicate r.m none, []⟩), c.handlers⟩ := clear_state c h

end SV.Props.C20
