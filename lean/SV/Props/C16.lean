/-
  C16 — A storage unit keeps its cache and its persister coherent.
-/
import SV.Misc.UnitProofs
import SV.Misc.UnitReal
import SV.GenProofs.Config
import SV.FactsProofs.Unit
namespace SV.Props.C16
open SV SV.Unit SV.UnitReal

/-- after ANY history of Put/Get/Remove/ClearCache — with ANY cache evictions (the cacher is arbitrary) and ANY persister
    faults — the unit is coherent (its cache never serves a value different from what its persister holds) and Get / Has
    answer exactly like the map of acknowledged writes -/
theorem behaves_like_map_of_acknowledged_writes (ops : List Op) (k : Bytes) (keep : List Bytes) :
    let u := ops.foldl U.step U.init
    Coherent u ∧ (u.get k false keep).2 = (ops.foldl ackStep (fun _ => none)) k ∧ u.has k = ((ops.foldl ackStep (fun _ => none)) k).isSome :=
  run_spec ops k keep
/-- if the persister rejects a Put the error is returned, the persister is unchanged and the rejected value is not served afterwards -/
theorem rejected_put (u : U) (k v : Bytes) (keep keep' : List Bytes) (h : Coherent u) :
    (u.put k v true keep).2 = false ∧ (u.put k v true keep).1.db = u.db ∧
    ((u.put k v true keep).1.get k false keep').2 = alookup k u.db :=
  ⟨by simpa using (put_db u k v true keep).1, by simpa using (put_db u k v true keep).2, rejected_put_not_served u k v keep keep' h⟩
/-- Remove removes the key from both layers -/
theorem remove_both_layers (u : U) (k : Bytes) :
    alookup k (u.remove k false).1.cache = none ∧ alookup k (u.remove k false).1.db = none := remove_clears u k
/-- a read never changes the persister; GetBulkFromEpoch is Get per key, so it returns precisely the found pairs -/
theorem get_is_readonly (u : U) (k : Bytes) (fail : Bool) (keep : List Bytes) : (u.get k fail keep).1.db = u.db := get_db u k fail keep

/-! ### the unit over the REAL cachers (SV.Misc.UnitReal): every cacher the factory builds is an instance of the abstract
    cacher ("write the entry, then keep some subset"), so the statements above hold for the storage unit written exactly
    as storageunit.go calls its cacher — over the capacity LRU, the hashicorp LRU and the FIFO sharded cache -/

theorem real_cachers_satisfy_the_contract (vr : LRU.Variant) (size : Nat) :
    (capCacher vr).Lawful ∧ simpleCacher.Lawful ∧ (fifoCacher size).Lawful ∧ (lruCacher vr).Lawful :=
  ⟨capCacher_lawful vr, simpleCacher_lawful, fifoCacher_lawful size, lruCacher_lawful vr⟩
theorem unit_over_size_lru (vr : LRU.Variant) (cap : Nat) (maxBytes : Int) (rops : List ROp) (k : Bytes) :
    let u := rops.foldl RU.step (RU.init (LRU.Cap.init cap maxBytes) : RU (capCacher vr))
    LRU.CapInv u.cache ∧ RCoherent u ∧ (u.get k false).2 = (rops.foldl rackStep (fun _ => none)) k ∧
      u.has k = ((rops.foldl rackStep (fun _ => none)) k).isSome := capUnit_run_spec vr cap maxBytes rops k
theorem unit_over_lru (cap : Nat) (rops : List ROp) (k : Bytes) :
    let u := rops.foldl RU.step (RU.init (⟨cap, []⟩ : LRU.Simple) : RU simpleCacher)
    LRU.SimpleInv u.cache ∧ RCoherent u ∧ (u.get k false).2 = (rops.foldl rackStep (fun _ => none)) k ∧
      u.has k = ((rops.foldl rackStep (fun _ => none)) k).isSome := simpleUnit_run_spec cap rops k
theorem unit_over_fifo (size n : Nat) (hn : 1 ≤ n) (rops : List ROp) (k : Bytes) :
    let u := rops.foldl RU.step (RU.init (Fifo.Cache.init size n) : RU (fifoCacher size))
    Fifo.CacheInv size u.cache ∧ RCoherent u ∧ (u.get k false).2 = (rops.foldl rackStep (fun _ => none)) k ∧
      u.has k = ((rops.foldl rackStep (fun _ => none)) k).isSome := fifoUnit_run_spec size n hn rops k
theorem real_unit_rejected_put_not_served {C : Cacher} (L : C.Lawful) (u : RU C) (k v : Bytes) (hi : C.Inv u.cache)
    (h : RCoherent u) : ((u.put k v true).1.get k false).2 = alookup k u.db :=
  realUnit_rejected_put_not_served L u k v hi h

/-- the factory refuses a unit whose persister batch is larger than its cache (translated from `NewStorageUnitFromConf`) -/
theorem factory_refuses_batch_larger_than_cache (maxBatch capacity : Nat) (h : Gen.unitConfRejected (dbConf_MaxBatchSize := maxBatch) (cacheConf_Capacity := capacity) = false) :
    maxBatch ≤ capacity := GenProofs.unitConf_accepted maxBatch capacity h

/-- (regenerated fact) Put, Get (lookup + persister read + refill) and Remove each hold the unit lock for their whole body:
    the two layers are updated under one lock, so concurrent calls are serialised and the sequential statements apply -/
theorem unit_operations_hold_the_lock_throughout :
    (Facts.unitGetSingleSection && Facts.unitPutSingleSection && Facts.unitRemoveSingleSection && Facts.unitHasSingleSection) = true :=
  Facts.unit_operations_are_single_sections

end SV.Props.C16
