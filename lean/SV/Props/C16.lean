/-
  C16 — A storage unit keeps its cache and its persister coherent.
-/
import SV.Misc.UnitProofs
namespace SV.Props.C16
open SV SV.Unit

/-- after ANY history of Put/Get/Remove/ClearCache — with ANY cache evictions (the cacher is arbitrary) and ANY persister
    faults — the unit is coherent (its cache never serves a value different from what its persister holds) and Get / Has
    answer exactly like the map of acknowledged writes -/
theorem behaves_like_map_of_acknowledged_writes (ops : List Op) (k : Bytes) (keep : List Bytes) :
    let u := ops.foldl U.step U.init
    Coherent u ∧ (u.get k false keep).2 = (ops.foldl ackStep (fun _ => none)) k ∧ u.has k = ((ops.foldl ackStep (fun _ => none)) k).isSome :=
  run_spec ops k keep
/-- if the persister rejects a Put the error is returned, the persister is unchanged and the rejected value is not served afterwards -/
theorem rejected_put (u : U) (k v : Bytes) (keep keep' : List Bytes) (h : Coherent u) :
    (u.put k v true keep).2 = false ∧ (u.put k v true keep).1.db = u.db ∧
    ((u.put k v true keep).1.get k false keep').2 = alookup k u.db :=
  ⟨by simpa using (put_db u k v true keep).1, by simpa using (put_db u k v true keep).2, rejected_put_not_served u k v keep keep' h⟩
/-- Remove removes the key from both layers -/
theorem remove_both_layers (u : U) (k : Bytes) :
    alookup k (u.remove k false).1.cache = none ∧ alookup k (u.remove k false).1.db = none := remove_clears u k
/-- a read never changes the persister; GetBulkFromEpoch is Get per key, so it returns precisely the found pairs -/
theorem get_is_readonly (u : U) (k : Bytes) (fail : Bool) (keep : List Bytes) : (u.get k fail keep).1.db = u.db := get_db u k fail keep

end SV.Props.C16
