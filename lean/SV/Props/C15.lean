/-
  C15 — LRU and size-bounded LRU caches refine the reference LRU, flags and handlers too.
-/
import SV.LRU.Proofs
import SV.GenProofs.LRU
import SV.LRU.RefSpec
import SV.LRU.SimpleLruLib
import SV.LRU.CapacityLib
import SV.FactsProofs.Conc
namespace SV.Props.C15
open SV SV.LRU

/-- the sized cache keeps, after every operation: distinct keys, SizeInBytesContained = Σ resident sizes, and it
    fits its item and byte capacity — except that a single (the most recently written) entry always stays -/
theorem invariant_put (c : Cap) (k v : Bytes) (size : Int) (h : CapInv c) : CapInv (c.addSized Variant.current k v size).1 :=
  CapInv.addSized c k v size h
theorem invariant_hasOrAdd (c : Cap) (k v : Bytes) (size : Int) (h : CapInv c) : CapInv (c.addSizedIfMissing Variant.current k v size).1 :=
  CapInv.addSizedIfMissing c k v size h
theorem invariant_get (c : Cap) (k : Bytes) (h : CapInv c) : CapInv (c.get k).1 := CapInv.get c k h
theorem invariant_remove (c : Cap) (k : Bytes) (h : CapInv c) : CapInv (c.remove k).1 := CapInv.remove c k h
/-- eviction drops a SUFFIX of the recency list (the least recently used entries), stops as soon as the cache fits, and
    drops no more than needed: keeping one more entry would not fit -/
theorem eviction_drops_lru_suffix (c : Cap) (hb : c.bytes = sumSizes c.entries) :
    c.entries = (c.evictIfNeeded).1.entries ++ (c.evictIfNeeded).2.reverse ∧
    (c.evictIfNeeded).1.bytes = sumSizes (c.evictIfNeeded).1.entries ∧
    (c.evictIfNeeded).1.cap = c.cap ∧ (c.evictIfNeeded).1.maxBytes = c.maxBytes := evictIfNeeded_split c hb
theorem eviction_minimal (c : Cap) (hb : c.bytes = sumSizes c.entries) (hs : ∀ e ∈ c.entries, 0 ≤ e.size)
    (e : Entry) (rest : List Entry) (h : (c.evictIfNeeded).2.reverse = e :: rest) :
    ¬ Fits c.cap c.maxBytes ((c.evictIfNeeded).1.entries ++ [e]) := evictIfNeeded_minimal c hb hs e rest h
/-- Put makes the written entry the most recently used one; a negative size is rejected without any effect -/
theorem put_refreshes (c : Cap) (k v : Bytes) (size : Int) (h : CapInv c) (hs : 0 ≤ size) :
    (c.addSized Variant.current k v size).1.entries.head? = some ⟨k, v, size⟩ := addSized_head c k v size h hs
theorem negative_size_rejected (c : Cap) (k v : Bytes) (size : Int) (h : CapInv c) (hs : size < 0) :
    c.addSized Variant.current k v size = (c, false) := addSized_negative c k v size h hs
/-- Put's flag says truthfully whether an eviction happened; every entry that left is reported -/
theorem evicted_flag_truthful (c : Cap) (k v : Bytes) (size : Int) (h : CapInv c) :
    let r := c.addSizedAndReturnEvicted Variant.current k v size
    (∀ e ∈ c.entries, e.key ≠ k → (e ∈ r.1.entries ∨ e ∈ r.2)) ∧
    (∀ e ∈ r.2, e ∈ c.entries ∧ e.key ≠ k ∧ r.1.has e.key = false) ∧
    ((c.addSized Variant.current k v size).2 = !r.2.isEmpty) ∧ (c.addSized Variant.current k v size).1 = r.1 :=
  addSizedAndReturnEvicted_conservation c k v size h
/-- Get refreshes recency (moves the key to the most-recent end of Keys), Peek/Has do not -/
theorem get_refreshes (c : Cap) (k : Bytes) (h : CapInv c) (hk : c.has k = true) :
    (c.get k).1.keys = (c.keys.filter (· != k)) ++ [k] := get_keys c k h hk
/-- HasOrAdd: has ⇔ present; inserts iff absent and the size is valid -/
theorem hasOrAdd_flags (c : Cap) (k v : Bytes) (size : Int) (h : CapInv c) :
    let r := c.addSizedIfMissing Variant.current k v size
    r.2.1 = c.has k ∧ (c.has k = true → r.1 = c) ∧ (c.has k = false → 0 ≤ size → r.1.entries.head? = some ⟨k, v, size⟩) ∧
    (c.has k = false → size < 0 → r.1 = c) := addSizedIfMissing_flags c k v size h
/-- the plain (hashicorp) LRU: bounded, written key most recent, evicts exactly the least recently used entry when full -/
theorem simple_bound (c : Simple) (k v : Bytes) (h : SimpleInv c) (hc : 1 ≤ c.cap) : SimpleInv (c.add k v).1 := SimpleInv.add c k v h hc
theorem simple_evicts_lru (c : Simple) (k v : Bytes) (h : SimpleInv c) (hc : 1 ≤ c.cap) :
    (c.add k v).2 = (!c.has k && decide (c.entries.length = c.cap)) ∧
    ((c.add k v).2 = true → (c.add k v).1.entries = (k, v) :: c.entries.dropLast) := Simple.add_evicted c k v h hc
/-- handlers: every Put and every inserting HasOrAdd yields exactly one invocation per registered handler -/
theorem put_invokes_each_handler_once (c : Cache) (k v : Bytes) (size : Int) :
    (c.put Variant.current k v size).2.2 = c.handlers.map (·, k, v) := put_notifies c k v size
theorem hasOrAdd_invokes_iff_added (c : Cache) (k v : Bytes) (size : Int) :
    let r := c.hasOrAdd Variant.current k v size
    r.2.2.2 = (if r.2.2.1 then c.handlers.map (·, k, v) else []) ∧ (r.2.1 = true → r.2.2.1 = false) := hasOrAdd_notifies c k v size
theorem registry_is_a_set (c : Cache) (id : String) (h : c.handlers.Nodup) :
    (c.register id).handlers.Nodup ∧ id ∈ (c.register id).handlers := register_nodup c id h
/-- F11 (pre-repair): a growth overwrite evicted silently -/
theorem legacy_F11 : ∃ (c : Cap) (k v : Bytes) (size : Int) (e : Entry),
    let r := c.addSizedAndReturnEvicted Variant.legacy k v size
    e ∈ c.entries ∧ e.key ≠ k ∧ e ∉ r.1.entries ∧ e ∉ r.2 ∧ (c.addSized Variant.legacy k v size).2 = false :=
  legacy_silent_eviction_counterexample

/-! ### tie by translation: the source's own leaf logic (regenerated into SV/Generated/Funcs.lean on every run) IS the model's -/
theorem source_eviction_test_is_the_models (c : Cap) :
    c.shouldEvict = Gen.lruShouldEvict (c_evictList_Len := c.entries.length) (c_size := c.cap) (c_currentCapacityInBytes := c.bytes) (c_maxCapacityInBytes := c.maxBytes) := GenProofs.lruShouldEvict_eq c

/-! ### whole histories against an INDEPENDENT reference LRU (SV.LRU.RefSpec: recency list least→most recent; a write removes the
    key, appends it as most recent and trims least-recent entries while over the item / byte capacity and more than one
    entry remains; Get refreshes, Peek/Has do not) -/

/-- the size-bounded LRU: for EVERY history of Put / HasOrAdd / Get / Peek / Has / Remove / Clear the outputs (flags, values) and
    the observations (Keys in order, values, SizeInBytesContained, Len) equal the reference's at every step -/
theorem sized_lru_refines_reference (cap : Nat) (maxBytes : Int) (ops : List LOp) :
    runTrace Cap.stepL Cap.obs (Cap.init cap maxBytes) ops
      = runTrace Ref.step Ref.obs (Ref.init cap (some maxBytes)) ops ∧
    (runFinal Cap.stepL (Cap.init cap maxBytes) ops).toRef = runFinal Ref.step (Ref.init cap (some maxBytes)) ops ∧
    CapInv (runFinal Cap.stepL (Cap.init cap maxBytes) ops) := cap_refines_ref cap maxBytes ops
/-- the plain LRU (hashicorp) against the same reference without a byte bound -/
theorem plain_lru_refines_reference (cap : Nat) (hc : 1 ≤ cap) (ops : List LOp) :
    runTrace Simple.stepL Simple.obs ⟨cap, []⟩ ops = runTrace Ref.step Ref.obs (Ref.init cap none) ops ∧
    (runFinal Simple.stepL ⟨cap, []⟩ ops).toRef = runFinal Ref.step (Ref.init cap none) ops ∧
    SimpleInv (runFinal Simple.stepL ⟨cap, []⟩ ops) := simple_refines_ref cap hc ops
/-- the reference, in the property's words: the entry just written always stays … -/
theorem reference_never_evicts_just_written (r : Ref) (k v : Bytes) (size : Int) (h : r.rejects size = false) :
    (r.put k v size).1.items.getLast? = some ⟨k, v, r.stored size⟩ ∧
    (r.put k v size).1.keys.getLast? = some k ∧
    (r.put k v size).1.has k = true ∧ (r.put k v size).1.peek k = some v := ref_never_evicts_just_written r k v size h
/-- … what is dropped is a prefix of the least→most recent order, no more than needed, and the flag says whether anything was dropped … -/
theorem reference_evicts_least_recent_first (r : Ref) (k v : Bytes) (size : Int) (h : r.rejects size = false) :
    ∃ dropped kept, r.without k = dropped ++ kept ∧
      (r.put k v size).1.items = kept ++ [⟨k, v, r.stored size⟩] ∧
      (r.put k v size).2 = !dropped.isEmpty ∧
      (∀ d e, dropped = d ++ [e] → Ref.exceeds r.cap r.maxBytes (e :: (r.put k v size).1.items) = true) :=
  ref_evicts_least_recent_first r k v size h
/-- … flags are truthful and SizeInBytesContained is the sum of the resident sizes -/
theorem reference_flags_truthful (r : Ref) (k v : Bytes) (size : Int) (h : r.WF) :
    ((r.put k v size).2 = true ↔ ∃ e ∈ r.items, e.key ≠ k ∧ (r.put k v size).1.has e.key = false) ∧
    ((r.hasOrAdd k v size).2.1 = r.has k) ∧
    ((r.hasOrAdd k v size).2.2 = true ↔ (r.has k = false ∧ (r.hasOrAdd k v size).1.has k = true)) ∧
    ((r.hasOrAdd k v size).2.2 = false → (r.hasOrAdd k v size).1 = r) := ref_flags_truthful r k v size h
theorem reference_bytes_is_sum (r : Ref) : r.bytes = (r.items.map (·.size)).sum := ref_bytes_is_sum r

/-! ### hashicorp `simplelru` is not assumed: the library's LRU (items map + evict list, `Add`/`Get`/`Contains`/`Peek`/
    `Remove`/`RemoveOldest`/`Keys`/`Purge`, the wrapper's `ContainsOrAdd`) transcribed in SV/LRU/SimpleLruLib.lean refines
    the plain-LRU model and, through it, the reference specification -/
/-- the library model under the `lruCache` wrapper produces, for every history, the trace of the reference specification -/
theorem library_lru_refines_reference (cap : Nat) (hc : 1 ≤ cap) (ops : List LOp) :
    SV.LRU.runTrace Lib.LRU.stepL Lib.LRU.obsL (Lib.LRU.new cap) ops
      = SV.LRU.runTrace Ref.step Ref.obs (Ref.init cap none) ops ∧
    (SV.LRU.runFinal Lib.LRU.stepL (Lib.LRU.new cap) ops).abs.toRef = SV.LRU.runFinal Ref.step (Ref.init cap none) ops ∧
    Lib.Inv (SV.LRU.runFinal Lib.LRU.stepL (Lib.LRU.new cap) ops) := Lib.lib_refines_reference cap hc ops
/-- directly on the library model: never more than `size` entries after any history -/
theorem library_lru_never_exceeds_size (size : Nat) (hs : 0 < size) (ops : List Lib.Op) :
    (Lib.finalState Lib.LRU.step (Lib.LRU.new size) ops).len ≤ size ∧
    (Lib.finalState Lib.LRU.step (Lib.LRU.new size) ops).items.length ≤ size := Lib.lib_len_le_size size hs ops
/-- directly on the library model: `Add` evicts iff the key is new and the cache is full, and then exactly the least
    recently used entry (reported to the callback once) -/
theorem library_lru_add_evicts_least_recent (c : Lib.LRU) (k v : Bytes) (h : Lib.Inv c) :
    (c.add k v).2.1 = (!c.contains k && decide (c.len = c.size)) ∧
    ((c.add k v).2.1 = false → (c.add k v).2.2 = []) ∧
    ((c.add k v).2.1 = true → ∃ o, Lib.DL.back c.evictList = some o ∧ (c.add k v).2.2 = [(o.key, o.val)] ∧
        c.keys.head? = some o.key ∧ (c.add k v).1.keys = c.keys.tail ++ [k] ∧
        (c.add k v).1.contains o.key = false) := Lib.lib_add_evicts_lru c k v h

/-! ### the size-bounded LRU's two structures and its byte counter are not assumed coherent (SV/LRU/CapacityLib.lean:
    `items` map ↦ list element, `evictList`, `currentCapacityInBytes` transcribed from capacityLRUCache.go) -/
/-- for every capacity pair and every history the faithful model produces the trace of the reference specification and ends
    coherent (same keys in map and list, counter = sum of the linked sizes, sizes ≥ 0, within limits or a single entry) -/
theorem two_structure_sized_lru_refines_reference (size maxBytes : Nat) (ops : List LOp) :
    SV.LRU.runTrace CapLib.LCap.stepL CapLib.LCap.obsL (CapLib.LCap.new size maxBytes) ops
      = SV.LRU.runTrace Ref.step Ref.obs (Ref.init size (some (maxBytes : Int))) ops ∧
    (SV.LRU.runFinal CapLib.LCap.stepL (CapLib.LCap.new size maxBytes) ops).abs.toRef
      = SV.LRU.runFinal Ref.step (Ref.init size (some (maxBytes : Int))) ops ∧
    CapLib.Inv (SV.LRU.runFinal CapLib.LCap.stepL (CapLib.LCap.new size maxBytes) ops) :=
  CapLib.lib_cap_refines_reference size maxBytes ops
/-- directly on the faithful model: never more than `size` entries (list and map alike) -/
theorem two_structure_sized_lru_len_bound (size maxBytes : Nat) (hs : 1 ≤ size) (ops : List CapLib.Op) :
    (CapLib.finalState CapLib.LCap.step (CapLib.LCap.new size maxBytes) ops).len ≤ size ∧
    (CapLib.finalState CapLib.LCap.step (CapLib.LCap.new size maxBytes) ops).items.length ≤ size :=
  CapLib.lib_len_le_size size maxBytes hs ops
/-- the byte counter (and `SizeInBytesContained`) is within the byte capacity unless a single oversized entry is held, and equals
    the sum of the resident sizes -/
theorem two_structure_sized_lru_bytes_bound (size maxBytes : Nat) (ops : List CapLib.Op) :
    let c := CapLib.finalState CapLib.LCap.step (CapLib.LCap.new size maxBytes) ops
    (c.cur ≤ (maxBytes : Int) ∨ c.len = 1) ∧ (c.sizeInBytesContained ≤ maxBytes ∨ c.len = 1) ∧
    (c.sizeInBytesContained : Int) = (c.evictList.map (·.sz)).sum :=
  CapLib.lib_bytes_le_max_unless_single size maxBytes ops

/-- (regenerated fact) the operations of the size-bounded LRU are single critical sections of its mutex in the CURRENT source —
    `Keys` included: the slice it fills is sized and filled under one lock, so the listing is a snapshot of one state -/
theorem sized_lru_operations_are_single_critical_sections :
    ∀ n ∈ ["lrucache/capacity:capacityLRU.AddSized", "lrucache/capacity:capacityLRU.AddSizedIfMissing",
           "lrucache/capacity:capacityLRU.AddSizedAndReturnEvicted", "lrucache/capacity:capacityLRU.Get",
           "lrucache/capacity:capacityLRU.Remove", "lrucache/capacity:capacityLRU.Keys"],
      (n, true) ∈ Facts.singleCriticalSection := Facts.sized_lru_sections

/-- the tie by translation for `SizeInBytesContained`: every statement of the CURRENT source that changes
    `currentCapacityInBytes` (`addNew`, `removeElement`, `adjustSize`) is translated on every run and is the update the model
    performs — insertion adds the declared size, eviction and removal subtract the size stored with the entry, an overwrite
    moves the counter by the difference -/
theorem source_byte_counter_updates_are_the_models :
    (∀ (c : LRU.Cap) (k v : Bytes) (size : Int),
        (c.addNew k v size).bytes = Gen.lruBytesAfterAdd (c_currentCapacityInBytes := c.bytes) (sizeInBytes := size)) ∧
    (∀ (c : LRU.Cap) (e : LRU.Entry), c.entries.getLast? = some e →
        c.removeOldest.1.bytes = Gen.lruBytesAfterRemove (c_currentCapacityInBytes := c.bytes) (kv_size := e.size)) ∧
    (∀ (c : LRU.Cap) (k : Bytes) (e : LRU.Entry), c.find k = some e →
        (c.remove k).1.bytes = Gen.lruBytesAfterRemove (c_currentCapacityInBytes := c.bytes) (kv_size := e.size)) ∧
    (∀ bytes size old : Int,
        bytes + (size - old) = Gen.lruBytesAfterResize (c_currentCapacityInBytes := bytes) (v_size := old) (sizeInBytes := size)) ∧
    Gen.lruBytesAfterAdd_leaves = ["c.currentCapacityInBytes : Int", "sizeInBytes : Int"] ∧
    Gen.lruBytesAfterRemove_leaves = ["c.currentCapacityInBytes : Int", "kv.size : Int"] ∧
    Gen.lruBytesAfterResize_leaves = ["c.currentCapacityInBytes : Int", "sizeInBytes : Int", "v.size : Int"] :=
  ⟨GenProofs.lruBytes_addNew, GenProofs.lruBytes_removeOldest, GenProofs.lruBytes_remove,
   fun b s o => (GenProofs.lruBytes_update_eq_source b s o).2,
   GenProofs.lruBytes_leaves.1, GenProofs.lruBytes_leaves.2.1, GenProofs.lruBytes_leaves.2.2⟩

end SV.Props.C15
