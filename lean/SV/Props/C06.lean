/-
  C06 — Pool size limits hold after every insertion.  PARTIAL on the per-sender byte limit (known finding F3).
-/
import SV.TxCache.EvictPost
import SV.GenProofs.TxThresholds
import SV.GenProofs.Config
import SV.TxCache.ReachableSize
import SV.TxCache.GoList
namespace SV.Props.C06
open SV SV.TxCache

/-- after every AddTx each sender holds at most CountPerSenderThreshold transactions (and lists stay sorted) -/
theorem sender_count_bound (v : Variant) (p : Pool) (t : Tx) (hi : ListsInv p) (hc : 1 ≤ p.cfg.countPerSender) :
    ListsInv (addTx v p t).1 := ListsInv.addTx v p t hi hc
/-- per-sender byte limit: holds whenever dropping one transaction suffices (F3 otherwise, see C04.trim_incomplete_F3) -/
theorem sender_bytes_partial (cfg : Config) (l : List Tx) (h : senderExceeded cfg l.dropLast = false) :
    senderExceeded cfg (trim1 cfg l).1 = false := by
  rw [trim1_spec]; split
  · exact h
  · rename_i hh; simpa using hh
/-- eviction ends with the pool within its thresholds, or empty -/
theorem eviction_postcondition (U : Bytes → Tx) (p : Pool) (h : Inv U p) (hso : ListsSorted p) (hn : 1 ≤ p.cfg.numItemsToEvict) :
    (evict Variant.current p).exceeded = false ∨ ((evict Variant.current p).byHash = [] ∧ (evict Variant.current p).lists = []) :=
  evict_post U p h hso hn
/-- with eviction enabled, after an insertion the pool exceeds each pool-wide threshold by at most the one transaction
    just added; since the next insertion starts with the same eviction, that excess is gone once it has run -/
theorem pool_bounds_after_add (U : Bytes → Tx) (p : Pool) (t : Tx) (h : Inv U p) (hso : ListsSorted p) (ht : WfTx U t)
    (he : p.cfg.evictionEnabled = true) (hn : 1 ≤ p.cfg.numItemsToEvict) :
    let p' := (addTx Variant.current p t).1
    p'.cntTx ≤ (p.cfg.countThreshold : Int) + 1 ∧ p'.cntSenders ≤ (p.cfg.countThreshold : Int) + 1 ∧
    p'.numBytes ≤ (p.cfg.numBytesThreshold : Int) + (t.size : Int) :=
  addTx_pool_bounds U p t h hso ht he hn
/-- with eviction disabled no transaction is ever dropped for pool-wide reasons: other senders' lists are untouched -/
theorem no_pool_wide_drop_when_disabled (U : Bytes → Tx) (p : Pool) (t : Tx) (h : Inv U p) (hso : ListsSorted p) (ht : WfTx U t)
    (he : p.cfg.evictionEnabled = false) (s : Bytes) (hs : s ≠ t.sender) :
    alookup s (addTx Variant.current p t).1.lists = alookup s p.lists :=
  evict_not_called_when_disabled U p t h hso ht he s hs

/-! ### tie by translation: the source's own leaf logic (regenerated into SV/Generated/Funcs.lean on every run) IS the model's -/
theorem source_threshold_tests_are_the_models (p : Pool) :
    p.exceeded =
      Gen.poolExceeded (cache_areThereTooManyBytes := (Gen.tooManyBytes (cache_NumBytes := (clampNat p.numBytes)) (cache_config_NumBytesThreshold := p.cfg.numBytesThreshold))) (cache_areThereTooManySenders := (Gen.tooManySenders (cache_CountSenders := (clampNat p.cntSenders)) (cache_config_CountThreshold := p.cfg.countThreshold))) (cache_areThereTooManyTxs := (Gen.tooManyTxs (cache_CountTx := (clampNat p.cntTx)) (cache_config_CountThreshold := p.cfg.countThreshold))) := GenProofs.poolExceeded_eq p
theorem source_sender_limit_test_is_the_models (cfg : Config) (l : List Tx) :
    senderExceeded cfg l = Gen.senderExceeded (listForSender_constraints_maxNumBytes := cfg.numBytesPerSender) (listForSender_constraints_maxNumTxs := cfg.countPerSender) (listForSender_totalBytes_Get := (listBytes l)) (listForSender_countTx := l.length) :=
  GenProofs.senderExceeded_eq cfg l

/-- for EVERY configuration accepted by `NewTxCache` (the validity test is translated from `ConfigSourceMe.verify`, the bounds
    are regenerated constants): per-sender count bound + sortedness are preserved by AddTx, and eviction ends within the
    thresholds (or with an empty pool) -/
theorem holds_for_every_accepted_configuration (U : Bytes → Tx) (p : Pool) (t : Tx) (nameLen numChunks : Nat)
    (hacc : GenProofs.txAccepted p.cfg nameLen numChunks = true) (hi : ListsInv p) (h : Inv U p) (hso : ListsSorted p) :
    ListsInv (addTx Variant.current p t).1 ∧
    ((evict Variant.current p).exceeded = false ∨ ((evict Variant.current p).byHash = [] ∧ (evict Variant.current p).lists = [])) := by
  have hb := GenProofs.txAccepted_bounds p.cfg nameLen numChunks hacc
  exact ⟨ListsInv.addTx Variant.current p t hi hb.2.2.2.2.2.1, evict_post U p h hso hb.2.2.2.2.2.2.2.2.2⟩

/-! ### end to end: every pool reachable from the empty one by ANY history, every configuration accepted by `NewTxCache`;
    the hypotheses `Inv`, `ListsSorted`, `ListsInv`, `1 ≤ numItemsToEvict` of the single-step statements above are discharged
    (SV/TxCache/ReachableSize.lean) -/
/-- per-sender count bound and strict order of every sender list of every reachable pool -/
theorem every_reachable_sender_list_bounded (U : Bytes → Tx) (cfg : Config) (ops : List Op) (nameLen numChunks : Nat)
    (hacc : GenProofs.txAccepted cfg nameLen numChunks = true) (hw : ∀ t, Op.add t ∈ ops → WfTx U t)
    (s : Bytes) (l : List Tx) (hm : (s, l) ∈ (run cfg ops).lists) :
    ListSorted l ∧ 1 ≤ l.length ∧ l.length ≤ cfg.countPerSender ∧ 1 ≤ cfg.countPerSender ∧ ∀ t ∈ l, t.sender = s :=
  reachable_sender_lists U cfg ops nameLen numChunks hacc hw s l hm
/-- pool-wide bounds at EVERY insertion point of EVERY history (as reported by the unsigned counters) -/
theorem pool_bounds_at_every_add_of_every_history (U : Bytes → Tx) (cfg : Config) (ops : List Op)
    (nameLen numChunks : Nat) (hacc : GenProofs.txAccepted cfg nameLen numChunks = true)
    (hw : ∀ t, Op.add t ∈ ops → WfTx U t) (he : cfg.evictionEnabled = true)
    (pre post : List Op) (t : Tx) (hsplit : ops = pre ++ Op.add t :: post) :
    let p' := run cfg (pre ++ [Op.add t])
    clampNat p'.cntTx ≤ cfg.countThreshold + 1 ∧ clampNat p'.cntSenders ≤ cfg.countThreshold + 1 ∧
    clampNat p'.numBytes ≤ cfg.numBytesThreshold + t.size :=
  reachable_pool_bounds_at_every_add_of_history U cfg ops nameLen numChunks hacc hw he pre post t hsplit
/-- eviction of ANY reachable pool ends within the three thresholds (no "or empty" escape) -/
theorem eviction_of_every_reachable_pool_ends_within (U : Bytes → Tx) (cfg : Config) (ops : List Op) (nameLen numChunks : Nat)
    (hacc : GenProofs.txAccepted cfg nameLen numChunks = true) (hw : ∀ t, Op.add t ∈ ops → WfTx U t) :
    let q := evict Variant.current (run cfg ops)
    q.exceeded = false ∧ q.cntTx ≤ (cfg.countThreshold : Int) ∧ q.cntSenders ≤ (cfg.countThreshold : Int) ∧
    q.numBytes ≤ (cfg.numBytesThreshold : Int) :=
  reachable_within_thresholds_after_eviction U cfg ops nameLen numChunks hacc hw
/-- eviction disabled: no history ever loses another sender's transactions to an insertion -/
theorem no_history_drops_pool_wide_when_disabled (cfg : Config) (ops : List Op) (he : cfg.evictionEnabled = false)
    (t : Tx) (s : Bytes) (hs : s ≠ t.sender) :
    alookup s (addTx Variant.current (run cfg ops) t).1.lists = alookup s (run cfg ops).lists :=
  reachable_no_pool_wide_drop_when_disabled cfg ops he t s hs

/-! ### F3 as a theorem about the transcribed library and loop (SV/TxCache/GoList.lean): in `applySizeConstraints`
    `element.Prev()` is evaluated AFTER `items.Remove(element)`, and `container/list` clears the removed element's links,
    so the loop ends after one removal whatever the excess -/
open GoList in
theorem go_list_trim_is_trim1 (cfg : Config) {s : SenderList} (h : SWF s) :
    SWF (s.applySizeConstraints cfg).1
    ∧ (s.applySizeConstraints cfg).1.items.toList = (trim1 cfg s.items.toList).1
    ∧ (s.applySizeConstraints cfg).2 = (trim1 cfg s.items.toList).2.map (·.hash) := applySizeConstraints_refines cfg h
open GoList in
theorem go_list_trim_removes_at_most_one_F3 (cfg : Config) {s : SenderList} (h : SWF s) :
    (s.applySizeConstraints cfg).2.length ≤ 1
    ∧ ((s.applySizeConstraints cfg).1.items.toList = s.items.toList ∧ (s.applySizeConstraints cfg).2 = []
       ∨ ∃ x, s.items.toList = (s.applySizeConstraints cfg).1.items.toList ++ [x]
             ∧ (s.applySizeConstraints cfg).2 = [x.hash]) := applySizeConstraints_removes_at_most_one cfg h

end SV.Props.C06
