/-
  C09 — Close makes acknowledged writes durable; reopening yields the exact final state.
  (goleveldb contract assumed: Write applies a batch atomically and in order; Close/Open preserve the applied writes.)
-/
import SV.Persist.Proofs
import SV.FactsProofs.Batch
import SV.Persist.ShardedProofs
import SV.FactsProofs.Sync
namespace SV.Props.C09
open SV SV.Persist

/-- Close (= flush) followed by a fresh constructor on the same path yields exactly the same logical map: nothing lost, nothing resurrected -/
theorem reopen_preserves_map (p : P) (k : Bytes) (h : BInv p) : p.reopen.abs k = p.abs k := abs_reopen p k h
theorem reopen_keeps_invariant (p : P) (h : BInv p) : BInv p.reopen := BInv.reopen p h
/-- any number of close/reopen cycles anywhere in any history, any batch size -/
theorem cycles (maxBatch : Nat) (hm : 1 ≤ maxBatch) (ops : List Op) (k : Bytes) :
    (ops.foldl P.step (P.init maxBatch [])).get Variant.current k = (ops.foldl specStep (fun _ => none)) k :=
  run_refines_map maxBatch hm ops k
/-- RangeKeys visits every flushed key exactly once with its flushed value; after a flush (Close) that is the whole map -/
theorem range_after_close (p : P) (h : BInv p) :
    ((p.flush.range).map (·.1)).Nodup ∧ ∀ k, alookup k p.flush.range = p.abs k := range_after_flush p h

/-- (regenerated fact) the pending batch's Put / Delete / Reset perform unconditionally exactly the model's three effects each -/
theorem batch_operations_have_the_models_effects :
    Facts.batchPutEffects = Facts.modelPutEffects ∧ Facts.batchDeleteEffects = Facts.modelDeleteEffects ∧
    Facts.batchResetEffects = Facts.modelResetEffects :=
  ⟨Facts.batch_put_effects, Facts.batch_delete_effects, Facts.batch_reset_effects⟩

/-- the SHARDED persister over batching persisters is one plain map over whole histories — any shard count ≥ 2, any batch
    size, timer flushes of all shards and close/reopen cycles anywhere -/
theorem sharded_history_refines_map (n maxBatch : Nat) (hn : 2 ≤ n) (hm : 1 ≤ maxBatch) (ops : List Op) (k : Bytes) :
    (ops.foldl Sharded.step (Sharded.init n maxBatch)).get Variant.current k = (ops.foldl specStep (fun _ => none)) k :=
  sharded_run_refines_map n maxBatch hn hm ops k
/-- Close + reopen of all shards loses nothing and resurrects nothing; after it RangeKeys visits exactly the logical map, each
    key exactly once across ALL shards (routing invariant) -/
theorem sharded_reopen_preserves_map (s : Sharded) (k : Bytes) (h : SInv s) :
    (s.reopen).get Variant.current k = s.get Variant.current k := sharded_reopen_preserves s k h
theorem sharded_range_after_reopen (n maxBatch : Nat) (hn : 2 ≤ n) (hm : 1 ≤ maxBatch) (ops : List Op) :
    (((ops ++ [Op.reopen]).foldl Sharded.step (Sharded.init n maxBatch)).range.map (·.1)).Nodup ∧
    ∀ k, alookup k ((ops ++ [Op.reopen]).foldl Sharded.step (Sharded.init n maxBatch)).range
      = (ops.foldl specStep (fun _ => none)) k := sharded_run_range_reopen n maxBatch hn hm ops

/-- (regenerated fact) at every flush — the one `Close` performs included — goleveldb is handed the batch's own record list
    (the operations in the order they were acknowledged, values copied when they were put): what reopening finds is what the
    model's `flush` wrote, not something reconstructed at flush time -/
theorem every_flush_writes_the_record_list :
    Facts.leveldbWriteArgs = ["DB.putBatch: dbBatch.batch", "putBatchAct.doPutRequest: p.batch.batch"] :=
  Facts.writes_pass_the_record_list

end SV.Props.C09
