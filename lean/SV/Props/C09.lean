/-
  C09 — Close makes acknowledged writes durable; reopening yields the exact final state.
  (goleveldb contract assumed: Write applies a batch atomically and in order; Close/Open preserve the applied writes.)
-/
import SV.Persist.Proofs
import SV.FactsProofs.Batch
namespace SV.Props.C09
open SV SV.Persist

/-- Close (= flush) followed by a fresh constructor on the same path yields exactly the same logical map: nothing lost, nothing resurrected -/
theorem reopen_preserves_map (p : P) (k : Bytes) (h : BInv p) : p.reopen.abs k = p.abs k := abs_reopen p k h
theorem reopen_keeps_invariant (p : P) (h : BInv p) : BInv p.reopen := BInv.reopen p h
/-- any number of close/reopen cycles anywhere in any history, any batch size -/
theorem cycles (maxBatch : Nat) (hm : 1 ≤ maxBatch) (ops : List Op) (k : Bytes) :
    (ops.foldl P.step (P.init maxBatch [])).get Variant.current k = (ops.foldl specStep (fun _ => none)) k :=
  run_refines_map maxBatch hm ops k
/-- RangeKeys visits every flushed key exactly once with its flushed value; after a flush (Close) that is the whole map -/
theorem range_after_close (p : P) (h : BInv p) :
    ((p.flush.range).map (·.1)).Nodup ∧ ∀ k, alookup k p.flush.range = p.abs k := range_after_flush p h

/-- (regenerated fact) the pending batch's Put / Delete / Reset perform unconditionally exactly the model's three effects each -/
theorem batch_operations_have_the_models_effects :
    Facts.batchPutEffects = Facts.modelPutEffects ∧ Facts.batchDeleteEffects = Facts.modelDeleteEffects ∧
    Facts.batchResetEffects = Facts.modelResetEffects :=
  ⟨Facts.batch_put_effects, Facts.batch_delete_effects, Facts.batch_reset_effects⟩

end SV.Props.C09
