/-
  C02 — Selection stays within gas, count, balance and guard constraints.
-/
import SV.TxCache.SelProofs
import SV.TxCache.OrderProofs
import SV.TxCache.ReachableProofs
import SV.GenProofs.TxSelection
import SV.TxCache.SessionWrapper
namespace SV.Props.C02
open SV SV.TxCache

/-- the result is a duplicate-free list of pool members -/
theorem distinct_members (v : Variant) (pick : List HItem → Option (HItem × List HItem)) (hp : PickOk pick)
    (s : Session) (q : SelParams) (bunches : List (List Tx)) (hn : bunches.flatten.Nodup) (fuel : Nat) :
    let out := (selectLoop v pick s q fuel (initHeap bunches) (fun _ => 0) 0 []).1
    out.Nodup ∧ ∀ t ∈ out, t ∈ bunches.flatten :=
  selectLoop_members v pick hp s q bunches hn fuel

/-- at most maxNum transactions -/
theorem count_bound (v : Variant) (pick : List HItem → Option (HItem × List HItem))
    (s : Session) (q : SelParams) (heap : List HItem) (fuel : Nat) :
    (selectLoop v pick s q fuel heap (fun _ => 0) 0 []).1.length ≤ q.maxNum :=
  selectLoop_count v pick s q heap fuel

/-- the gas limits sum (in ℕ, no wrap-around) to the returned accumulated gas, which never exceeds gasRequested -/
theorem gas_sum_and_budget (v : Variant) (hv : v.gasWraps = false) (pick : List HItem → Option (HItem × List HItem))
    (s : Session) (q : SelParams) (heap : List HItem) (fuel : Nat) :
    let r := selectLoop v pick s q fuel heap (fun _ => 0) 0 []
    (r.1.map (·.gasLimit)).sum = r.2 ∧ r.2 ≤ q.gasReq :=
  selectLoop_gas v hv pick s q heap fuel

/-- no returned transaction is one the session reports as incorrectly guarded -/
theorem no_bad_guard (v : Variant) (pick : List HItem → Option (HItem × List HItem))
    (s : Session) (q : SelParams) (heap : List HItem) (fuel : Nat) :
    ∀ t ∈ (selectLoop v pick s q fuel heap (fun _ => 0) 0 []).1, s.badGuard t = false :=
  selectLoop_guard v pick s q heap fuel

/-- walking the result in order, each fee payer's balance covers this fee on top of every fee and transferred value
    already committed to that account by earlier transactions of the result (balances, fees, values are unbounded ℕ) -/
theorem balances_cover (v : Variant) (pick : List HItem → Option (HItem × List HItem))
    (s : Session) (q : SelParams) (heap : List HItem) (fuel : Nat) :
    let out := (selectLoop v pick s q fuel heap (fun _ => 0) 0 []).1
    ∀ i (hi : i < out.length), committed (out.take i) (out[i]).payer + (out[i]).fee ≤ s.balance (out[i]).payer :=
  selectLoop_balance v pick s q heap fuel

/-- the current tree has the repaired budget test -/
theorem current_does_not_wrap : Variant.current.gasWraps = false := rfl

/-- F1 (pre-repair): with the uint64 addition the gas clause fails — concrete counter-example -/
theorem legacy_gas_counterexample :
    ∃ (s : Session) (q : SelParams) (bunches : List (List Tx)),
      let r := selectFromBunches Variant.legacy s q bunches
      (r.1.map (·.gasLimit)).sum ≠ r.2 ∧ (r.1.map (·.gasLimit)).sum > q.gasReq :=
  SV.TxCache.legacy_gas_counterexample

/-- END-TO-END: every clause of the property for the selection from the pool reached by ANY operation history -/
theorem constraints_of_every_reachable_pool (U : Bytes → Tx) (cfg : Config) (ops : List Op)
    (hw : ∀ t, Op.add t ∈ ops → WfTx U t) (s : Session) (q : SelParams) :
    let p := ops.foldl applyOp (Pool.init cfg)
    let r := select Variant.current p s q
    r.1.Nodup ∧
    (∀ t ∈ r.1, (∃ snd l, (snd, l) ∈ p.lists ∧ t ∈ l) ∧ alookup t.hash p.byHash = some t) ∧
    r.1.length ≤ q.maxNum ∧
    (r.1.map (·.gasLimit)).sum = r.2 ∧ r.2 ≤ q.gasReq ∧
    (∀ t ∈ r.1, s.badGuard t = false) ∧
    (∀ i (hi : i < r.1.length), committed (r.1.take i) (r.1[i]).payer + (r.1[i]).fee ≤ s.balance (r.1[i]).payer) :=
  reachable_selection_constraints U cfg ops hw s q

/-! ### tie by translation: the source's own leaf logic (regenerated into SV/Generated/Funcs.lean on every run) IS the model's -/
theorem source_loop_exits_are_the_models (gasLimit gasReq acc len maxNum interval : Nat) (since maxDur : Int) :
    Gen.selectionStops (gasLimit := gasLimit) (gasRequested := gasReq) (accumulatedGas := acc) (len_selectedTransactions := len) (maxNum := maxNum) (selectionLoopDurationCheckInterval := interval) (time_Since_selectionLoopStartTime := since) (selectionLoopMaximumDuration := maxDur) =
      [gasExceeded Variant.current acc gasLimit gasReq, decide (len ≥ maxNum),
       (decide (len % interval = 0) && decide (since > maxDur))] :=
  GenProofs.selectionStops_eq gasLimit gasReq acc len maxNum interval since maxDur

theorem source_balance_test_is_the_models (consumed fee balance : Nat) (d1 d2 : Int) :
    decide (consumed + fee > balance) = Gen.feeExceedsBalance (tx_Fee := fee) (fee_nil := false) (tx_FeePayer := d1) (sessionWrapper_getAccountRecord_feePayer := d2) (feePayerRecord_consumedBalance := consumed) (feePayerRecord_initialBalance := balance) :=
  GenProofs.feeExceedsBalance_eq consumed fee balance d1 d2
theorem source_balance_test_reads (_ : Unit) :
    Gen.feeExceedsBalance_leaves = ["fee == nil : Bool", "feePayerRecord.consumedBalance : Int", "feePayerRecord.initialBalance : Int", "sessionWrapper.getAccountRecord(feePayer) : Int", "tx.Fee : Int", "tx.FeePayer : Int"] := GenProofs.feeExceedsBalance_leaves

/-- over the memoising session wrapper and ANY session oracle: the balance FIRST reported for the fee payer covers this fee
    on top of everything earlier transactions of the result committed to that account -/
theorem balances_cover_for_any_session_oracle (v : Variant) (pick : List HItem → Option (HItem × List HItem))
    (o : SW.Oracle) (guard : Tx → Bool) (q : SelParams) (heap : List HItem) (fuel : Nat) :
    let out := (SW.selectLoopW v pick o guard q fuel heap SW.W.empty 0 []).1
    ∀ i (hi : i < out.length), committed (out.take i) (out[i]).payer + (out[i]).fee ≤
      (match (SW.finalW v pick o guard q fuel heap SW.W.empty 0 []).queryIndex (out[i]).payer with
        | some k => ((o k (out[i]).payer).map (·.2)).getD 0
        | none => 0) := SW.selectLoopW_balances_cover v pick o guard q heap fuel

end SV.Props.C02
