/-
  C08 — Persisters return the latest written value regardless of batching state.
-/
import SV.Persist.Proofs
import SV.GenProofs.Persist
import SV.FactsProofs.Batch
import SV.Persist.ShardedProofs
namespace SV.Props.C08
open SV SV.Persist

/-- Get/Has return the logical map (pending batch overlaid on LevelDB), whatever the batching state -/
theorem get_is_logical_map (p : P) (k : Bytes) : p.get Variant.current k = p.abs k := get_eq_abs p k
theorem has_agrees_with_get (p : P) (k : Bytes) : p.has Variant.current k = (p.get Variant.current k).isSome := rfl
/-- the logical map behaves like a plain map under Put and Remove — for every batch size — and is untouched by a flush -/
theorem put_then_read (p : P) (k k' : Bytes) (v : Val) (h : BInv p) : (p.put k v).abs k' = if k' = k then some v.bytes else p.abs k' :=
  abs_put p k k' v h
theorem remove_then_read (p : P) (k k' : Bytes) (h : BInv p) : (p.remove k).abs k' = if k' = k then none else p.abs k' :=
  abs_remove p k k' h
theorem flush_invisible (p : P) (k : Bytes) (h : BInv p) : p.flush.abs k = p.abs k := abs_flush p k h
/-- any history of Put/Remove with timer flushes and close/reopen anywhere, any MaxBatchSize ≥ 1 (values of any content,
    nil and empty included): every read is the read of a plain map -/
theorem history_refines_map (maxBatch : Nat) (hm : 1 ≤ maxBatch) (ops : List Op) (k : Bytes) :
    (ops.foldl P.step (P.init maxBatch [])).get Variant.current k = (ops.foldl specStep (fun _ => none)) k :=
  run_refines_map maxBatch hm ops k
/-- the in-memory persister is a plain map by definition; the sharded persister behaves as a single map (see C19) -/
theorem mem_is_a_map (m : Mem) (k k' : Bytes) (v : Val) (hk : k' ≠ k) :
    Mem.get (Mem.put m k v) k = some v.bytes ∧ Mem.get (Mem.put m k v) k' = Mem.get m k' :=
  ⟨alookup_aset_self k v.bytes m, alookup_aset_ne hk v.bytes m⟩
/-- F8 (pre-repair): a nil value in the pending batch read as absent -/
theorem legacy_F8 : ∃ (p : P) (k : Bytes), (p.put k ⟨true, []⟩).get Variant.legacy k ≠ (p.put k ⟨true, []⟩).abs k :=
  legacy_nil_counterexample

/-! ### tie by translation: the source's own leaf logic (regenerated into SV/Generated/Funcs.lean on every run) IS the model's -/
theorem source_flush_test_is_the_models (p : P) :
    p.bump = (if Gen.dbNoFlushNeeded (s_sizeBatch := p.sizeBatch) (s_maxBatchSize := p.maxBatch) then { p with sizeBatch := p.sizeBatch + 1 }
              else ({ p with sizeBatch := p.sizeBatch + 1 } : P).flush) ∧
    Gen.serialNoFlushNeeded (s_sizeBatch := p.sizeBatch) (s_maxBatchSize := p.maxBatch) = Gen.dbNoFlushNeeded (s_sizeBatch := p.sizeBatch) (s_maxBatchSize := p.maxBatch) := GenProofs.bump_eq p

/-- (regenerated fact) the pending batch's Put / Delete / Reset perform unconditionally exactly the model's three effects each -/
theorem batch_operations_have_the_models_effects :
    Facts.batchPutEffects = Facts.modelPutEffects ∧ Facts.batchDeleteEffects = Facts.modelDeleteEffects ∧
    Facts.batchResetEffects = Facts.modelResetEffects :=
  ⟨Facts.batch_put_effects, Facts.batch_delete_effects, Facts.batch_reset_effects⟩

/-- the SHARDED persister over batching persisters is one plain map over whole histories — any shard count ≥ 2, any batch
    size, timer flushes of all shards and close/reopen cycles anywhere -/
theorem sharded_history_refines_map (n maxBatch : Nat) (hn : 2 ≤ n) (hm : 1 ≤ maxBatch) (ops : List Op) (k : Bytes) :
    (ops.foldl Sharded.step (Sharded.init n maxBatch)).get Variant.current k = (ops.foldl specStep (fun _ => none)) k :=
  sharded_run_refines_map n maxBatch hn hm ops k

end SV.Props.C08
