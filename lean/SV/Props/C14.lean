/-
  C14 — Mempool and caches stay safe and self-consistent under concurrent use.
  PARTIAL: absence of data races, panics and runtime deadlocks is exercised under the race detector (component conc14),
  not proved.  What is proved: the lock-order graph regenerated from the source is acyclic; the listed methods are single
  critical sections, so every concurrent history of those components is a sequential one and the sequential theorems
  (C12/C13, C15, C18, C20, C04–C06 for the per-sender lists) apply to every schedule; selection results satisfy C01/C02 for
  ANY nonce-sorted single-sender snapshots, whatever happens concurrently; sorted insertion commutes.
-/
import SV.FactsProofs.Conc
import SV.TxCache.SelProofs
import SV.TxCache.OrderProofs
import SV.TxCache.ListProofs
import SV.TxCache.AddCommute
import SV.TxCache.Sections
namespace SV.Props.C14
open SV SV.TxCache

/-- no lock-order cycle (regenerated from the current source on every run) -/
theorem no_lock_cycle : Facts.acyclic Facts.lockOrderIdx = true := Facts.lockOrder_acyclic
/-- the methods of the immunity chunk, the per-sender list, the capacity LRU, the time cache core and the concurrent map
    chunk operations are single critical sections -/
theorem components_are_single_critical_sections : ∀ m ∈ Facts.singleCriticalSection, m.2 = true := Facts.single_sections

/-- every concurrent selection works on per-sender SNAPSHOTS (`getTxs` is one critical section) which are nonce-sorted and
    single-sender; C01 holds for any such bunches — no matter what was added, removed or evicted meanwhile -/
theorem concurrent_selection_nonce_runs (v : Variant) (s : Session) (q : SelParams) (bunches : List (List Tx))
    (hb : ∀ b ∈ bunches, BunchOk b) (hd : BunchesDistinct bunches) (snd : Bytes) :
    ∃ k, noncesOf snd (selectFromBunches v s q bunches).1 = List.range' (s.nonce snd) k :=
  selectLoop_nonce_run v (popBest v) (popBest_pickOk v) s q bunches hb hd _ snd
/-- …and so do the budget clauses of C02, for ANY heap content -/
theorem concurrent_selection_budgets (s : Session) (q : SelParams) (bunches : List (List Tx)) :
    let r := selectFromBunches Variant.current s q bunches
    (r.1.map (·.gasLimit)).sum = r.2 ∧ r.2 ≤ q.gasReq ∧ r.1.length ≤ q.maxNum :=
  have h := selectLoop_gas Variant.current rfl (popBest Variant.current) s q (initHeap bunches) (bunchesTotal bunches + 1)
  ⟨h.1, h.2, selectLoop_count Variant.current (popBest Variant.current) s q (initHeap bunches) (bunchesTotal bunches + 1)⟩

/-- transactions added by concurrent AddTx calls (each list insertion is one critical section) end up in the same sorted
    list whatever the interleaving: ordered insertion yields a permutation that is sorted, and a sorted list of a given
    set of distinct keys is unique -/
theorem concurrent_adds_sorted (t : Tx) (l : List Tx) (hs : ListSorted l)
    (hn : ¬ ∃ c ∈ l, c.nonce = t.nonce ∧ c.gasPrice = t.gasPrice ∧ c.hash = t.hash) :
    ListSorted (orderedInsert t l) ∧ (orderedInsert t l).Perm (t :: l) :=
  ⟨orderedInsert_sorted t l hs hn, orderedInsert_perm t l⟩

/-! ### concurrent AddTx calls: every call performs both index updates inside ONE critical section (`mutTxOperation`), so a set
    of concurrent calls runs as SOME sequential order of them; without removals, eviction and per-sender trimming the
    outcome is the same for every order -/

/-- all transactions present (listed under their sender AND reachable by hash), nothing else, every list correctly
    ordered and a permutation of that sender's transactions; the counters equal the number / total size / senders -/
theorem concurrent_adds_all_present_and_ordered (U : Bytes → Tx) (cfg : Config) (txs : List Tx)
    (hnd : (txs.map (·.hash)).Nodup) (hw : ∀ t ∈ txs, WfTx U t) (hl : NoLimitHit cfg txs) :
    let p := addAll cfg txs
    (∀ t ∈ txs, (∃ l, alookup t.sender p.lists = some l ∧ t ∈ l) ∧ alookup t.hash p.byHash = some t) ∧
    (∀ k x, alookup k p.byHash = some x → x ∈ txs ∧ x.hash = k) ∧
    (∀ s l, alookup s p.lists = some l → ListSorted l ∧ l.Perm (txs.filter (fun t => decide (t.sender = s)))) ∧
    (∀ s, alookup s p.lists = none → txs.filter (fun t => decide (t.sender = s)) = []) ∧
    ((p.lists.map (·.1)).Nodup ∧ ∀ s, s ∈ p.lists.map (·.1) ↔ ∃ t ∈ txs, t.sender = s) ∧
    p.cntTx = (txs.length : Int) ∧ p.numBytes = (((txs.map (·.size)).sum : Nat) : Int) ∧
    p.cntSenders = (p.lists.length : Int) := adds_all_present_sorted U cfg txs hnd hw hl
/-- the observable pool does not depend on the order in which the concurrent calls were executed -/
theorem concurrent_adds_commute (U : Bytes → Tx) (cfg : Config) (txs txs' : List Tx) (hp : txs.Perm txs')
    (hnd : (txs.map (·.hash)).Nodup) (hw : ∀ t ∈ txs, WfTx U t) (hl : NoLimitHit cfg txs) :
    (∀ s, alookup s (addAll cfg txs).lists = alookup s (addAll cfg txs').lists) ∧
    (∀ k, alookup k (addAll cfg txs).byHash = alookup k (addAll cfg txs').byHash) ∧
    (addAll cfg txs).lists.Perm (addAll cfg txs').lists ∧
    (addAll cfg txs).cntTx = (addAll cfg txs').cntTx ∧
    (addAll cfg txs).numBytes = (addAll cfg txs').numBytes ∧
    (addAll cfg txs).cntSenders = (addAll cfg txs').cntSenders := adds_commute U cfg txs txs' hp hnd hw hl
/-- …and neither does a subsequent selection -/
theorem selection_after_concurrent_adds (U : Bytes → Tx) (cfg : Config) (txs txs' : List Tx) (hp : txs.Perm txs')
    (hnd : (txs.map (·.hash)).Nodup) (hw : ∀ t ∈ txs, WfTx U t) (hl : NoLimitHit cfg txs) (s : Session) (q : SelParams) :
    select Variant.current (addAll cfg txs) s q = select Variant.current (addAll cfg txs') s q :=
  SV.TxCache.selection_after_concurrent_adds U cfg txs txs' hp hnd hw hl s q

/-- (regenerated fact) both index updates of AddTx sit inside one `mutTxOperation` critical section -/
theorem addTx_is_one_critical_section : Facts.addTxIndexUpdatesAtomic = true := Facts.addTx_updates_atomic

/-- (regenerated fact) every pass of the eviction removes from both indexes inside one `mutTxOperation` critical section: eviction
    steps interleave with AddTx / RemoveTxByHash only as whole sections, hence the sequential index-agreement theorems (C05)
    apply to every concurrent history of adds, removals and evictions at section granularity -/
theorem eviction_removals_are_one_critical_section : Facts.evictionRemovalsUnderTxOperationLock = true := Facts.eviction_removals_atomic

/-- (regenerated fact) CountTx / NumBytes / CountSenders are updated iff the chunk-locked map operation reported a change:
    whatever the interleaving, at quiescence the counters equal what the maps hold -/
theorem counters_are_paired_with_map_updates : (Facts.hashIndexCountersPaired && Facts.senderCounterPaired) = true :=
  Facts.counters_paired_with_map_updates

/-! ### concurrency at critical-section granularity (SV/TxCache/Sections.lean)
    By the regenerated facts `addTx_is_one_critical_section` and `eviction_removals_are_one_critical_section` (and the
    whole-body locks of RemoveTxByHash and Clear) every concurrent execution of AddTx / RemoveTxByHash / Clear / eviction is, for
    the two indexes, an interleaving of the sections modelled by `Sections.Step`: (A) the locked part of AddTx, (A') its
    unlocked removal of the trimmed hashes, (R), (C), and ONE eviction pass over an ARBITRARY (possibly stale) victim list. -/
/-- no transaction reachable by hash is ever orphaned: it is in its sender's list, or an in-flight AddTx is about to remove it
    from the hash index (the invariant defect F13 violated before eviction's removals were put inside `mutTxOperation`) -/
theorem no_orphan_under_any_interleaving_of_sections (U : Bytes → Tx) (cfg : Config) (steps : List Sections.Step)
    (hw : ∀ t, Sections.Step.add t ∈ steps → WfTx U t) : Sections.NoOrphan (Sections.Conf.run cfg steps) :=
  Sections.noOrphan_run U cfg steps hw
/-- once all goroutines have finished (no AddTx in flight) every pooled transaction can be selected and evicted -/
theorem quiescent_pool_has_no_unreachable_transaction (U : Bytes → Tx) (cfg : Config) (steps : List Sections.Step)
    (hw : ∀ t, Sections.Step.add t ∈ steps → WfTx U t) (hq : (Sections.Conf.run cfg steps).pending = []) :
    ∀ h x, (h, x) ∈ (Sections.Conf.run cfg steps).pool.byHash →
      ∃ l, (x.sender, l) ∈ (Sections.Conf.run cfg steps).pool.lists ∧ x ∈ l :=
  Sections.quiescent_no_orphan U cfg steps hw hq
/-- each index stays well formed on its own (keys = hashes, distinct; lists sorted, non-empty, under their sender; counters
    truthful) under every interleaving -/
theorem indexes_well_formed_under_any_interleaving (U : Bytes → Tx) (cfg : Config) (steps : List Sections.Step)
    (hw : ∀ t, Sections.Step.add t ∈ steps → WfTx U t) : Sections.WfConf U (Sections.Conf.run cfg steps) :=
  Sections.wfConf_run U cfg steps hw
/-- the sequential model's AddTx is section (A) immediately followed by (A') -/
theorem sequential_add_is_the_two_sections (p : Pool) (t : Tx) :
    addTxCore Variant.current p t =
      (Sections.dropSection (Sections.addSection p t).1 (Sections.addSection p t).2.2, (Sections.addSection p t).2.1) :=
  Sections.addTxCore_eq_sections p t
/-- the agreement is one-sided on purpose: two AddTx of the same hash around a trim leave a transaction listed but not hashed
    (the "slight inconsistency" the source comments mention), so the sequential two-sided `Inv` is NOT an invariant here -/
theorem two_sided_agreement_is_not_invariant : ¬ Inv Sections.Ex.U (Sections.Conf.run Sections.Ex.cfg Sections.Ex.twoSided).pool :=
  Sections.two_sided_fails_inv

end SV.Props.C14
