/-
  C14 — Mempool and caches stay safe and self-consistent under concurrent use.
  PARTIAL: absence of data races, panics and runtime deadlocks is exercised under the race detector (component conc14),
  not proved.  What is proved: the lock-order graph regenerated from the source is acyclic; the listed methods are single
  critical sections, so every concurrent history of those components is a sequential one and the sequential theorems
  (C12/C13, C15, C18, C20, C04–C06 for the per-sender lists) apply to every schedule; selection results satisfy C01/C02 for
  ANY nonce-sorted single-sender snapshots, whatever happens concurrently; sorted insertion commutes.
-/
import SV.FactsProofs.Conc
import SV.TxCache.SelProofs
import SV.TxCache.OrderProofs
import SV.TxCache.ListProofs
import SV.TxCache.AddCommute
namespace SV.Props.C14
open SV SV.TxCache

/-- no lock-order cycle (regenerated from the current source on every run) -/
theorem no_lock_cycle : Facts.acyclic Facts.lockOrderIdx = true := Facts.lockOrder_acyclic
/-- the methods of the immunity chunk, the per-sender list, the capacity LRU, the time cache core and the concurrent map
    chunk operations are single critical sections -/
theorem components_are_single_critical_sections : ∀ m ∈ Facts.singleCriticalSection, m.2 = true := Facts.single_sections

/-- every concurrent selection works on per-sender SNAPSHOTS (`getTxs` is one critical section) which are nonce-sorted and
    single-sender; C01 holds for any such bunches — no matter what was added, removed or evicted meanwhile -/
theorem concurrent_selection_nonce_runs (v : Variant) (s : Session) (q : SelParams) (bunches : List (List Tx))
    (hb : ∀ b ∈ bunches, BunchOk b) (hd : BunchesDistinct bunches) (snd : Bytes) :
    ∃ k, noncesOf snd (selectFromBunches v s q bunches).1 = List.range' (s.nonce snd) k :=
  selectLoop_nonce_run v (popBest v) (popBest_pickOk v) s q bunches hb hd _ snd
/-- …and so do the budget clauses of C02, for ANY heap content -/
theorem concurrent_selection_budgets (s : Session) (q : SelParams) (bunches : List (List Tx)) :
    let r := selectFromBunches Variant.current s q bunches
    (r.1.map (·.gasLimit)).sum = r.2 ∧ r.2 ≤ q.gasReq ∧ r.1.length ≤ q.maxNum :=
  have h := selectLoop_gas Variant.current rfl (popBest Variant.current) s q (initHeap bunches) (bunchesTotal bunches + 1)
  ⟨h.1, h.2, selectLoop_count Variant.current (popBest Variant.current) s q (initHeap bunches) (bunchesTotal bunches + 1)⟩

/-- transactions added by concurrent AddTx calls (each list insertion is one critical section) end up in the same sorted
    list whatever the interleaving: ordered insertion yields a permutation that is sorted, and a sorted list of a given
    set of distinct keys is unique -/
theorem concurrent_adds_sorted (t : Tx) (l : List Tx) (hs : ListSorted l)
    (hn : ¬ ∃ c ∈ l, c.nonce = t.nonce ∧ c.gasPrice = t.gasPrice ∧ c.hash = t.hash) :
    ListSorted (orderedInsert t l) ∧ (orderedInsert t l).Perm (t :: l) :=
  ⟨orderedInsert_sorted t l hs hn, orderedInsert_perm t l⟩

/-! ### concurrent AddTx calls: every call performs both index updates inside ONE critical section (`mutTxOperation`), so a set
    of concurrent calls runs as SOME sequential order of them; without removals, eviction and per-sender trimming the
    outcome is the same for every order -/

/-- all transactions present (listed under their sender AND reachable by hash), nothing else, every list correctly
    ordered and a permutation of that sender's transactions; the counters equal the number / total size / senders -/
theorem concurrent_adds_all_present_and_ordered (U : Bytes → Tx) (cfg : Config) (txs : List Tx)
    (hnd : (txs.map (·.hash)).Nodup) (hw : ∀ t ∈ txs, WfTx U t) (hl : NoLimitHit cfg txs) :
    let p := addAll cfg txs
    (∀ t ∈ txs, (∃ l, alookup t.sender p.lists = some l ∧ t ∈ l) ∧ alookup t.hash p.byHash = some t) ∧
    (∀ k x, alookup k p.byHash = some x → x ∈ txs ∧ x.hash = k) ∧
    (∀ s l, alookup s p.lists = some l → ListSorted l ∧ l.Perm (txs.filter (fun t => decide (t.sender = s)))) ∧
    (∀ s, alookup s p.lists = none → txs.filter (fun t => decide (t.sender = s)) = []) ∧
    ((p.lists.map (·.1)).Nodup ∧ ∀ s, s ∈ p.lists.map (·.1) ↔ ∃ t ∈ txs, t.sender = s) ∧
    p.cntTx = (txs.length : Int) ∧ p.numBytes = (((txs.map (·.size)).sum : Nat) : Int) ∧
    p.cntSenders = (p.lists.length : Int) := adds_all_present_sorted U cfg txs hnd hw hl
/-- the observable pool does not depend on the order in which the concurrent calls were executed -/
theorem concurrent_adds_commute (U : Bytes → Tx) (cfg : Config) (txs txs' : List Tx) (hp : txs.Perm txs')
    (hnd : (txs.map (·.hash)).Nodup) (hw : ∀ t ∈ txs, WfTx U t) (hl : NoLimitHit cfg txs) :
    (∀ s, alookup s (addAll cfg txs).lists = alookup s (addAll cfg txs').lists) ∧
    (∀ k, alookup k (addAll cfg txs).byHash = alookup k (addAll cfg txs').byHash) ∧
    (addAll cfg txs).lists.Perm (addAll cfg txs').lists ∧
    (addAll cfg txs).cntTx = (addAll cfg txs').cntTx ∧
    (addAll cfg txs).numBytes = (addAll cfg txs').numBytes ∧
    (addAll cfg txs).cntSenders = (addAll cfg txs').cntSenders := adds_commute U cfg txs txs' hp hnd hw hl
/-- …and neither does a subsequent selection -/
theorem selection_after_concurrent_adds (U : Bytes → Tx) (cfg : Config) (txs txs' : List Tx) (hp : txs.Perm txs')
    (hnd : (txs.map (·.hash)).Nodup) (hw : ∀ t ∈ txs, WfTx U t) (hl : NoLimitHit cfg txs) (s : Session) (q : SelParams) :
    select Variant.current (addAll cfg txs) s q = select Variant.current (addAll cfg txs') s q :=
  SV.TxCache.selection_after_concurrent_adds U cfg txs txs' hp hnd hw hl s q

/-- (regenerated fact) both index updates of AddTx sit inside one `mutTxOperation` critical section -/
theorem addTx_is_one_critical_section : Facts.addTxIndexUpdatesAtomic = true := Facts.addTx_updates_atomic

/-- (regenerated fact) every pass of the eviction removes from both indexes inside one `mutTxOperation` critical section: eviction
    steps interleave with AddTx / RemoveTxByHash only as whole sections, hence the sequential index-agreement theorems (C05)
    apply to every concurrent history of adds, removals and evictions at section granularity -/
theorem eviction_removals_are_one_critical_section : Facts.evictionRemovalsUnderTxOperationLock = true := Facts.eviction_removals_atomic

/-- (regenerated fact) CountTx / NumBytes / CountSenders are updated iff the chunk-locked map operation reported a change:
    whatever the interleaving, at quiescence the counters equal what the maps hold -/
theorem counters_are_paired_with_map_updates : (Facts.hashIndexCountersPaired && Facts.senderCounterPaired) = true :=
  Facts.counters_paired_with_map_updates

end SV.Props.C14
