/-
  C13 — Immunity cache is a bounded FIFO map with exact accounting.
-/
import SV.Immunity.Proofs
import SV.GenProofs.Immunity
import SV.Immunity.CacheProofs
import SV.GenProofs.Config
import SV.Immunity.FifoSpec
import SV.Immunity.ChunkLib
namespace SV.Props.C13
open SV SV.Immunity

/-- every reachable chunk satisfies `ChunkInv`: at most maxNumItems items (so the cache, Σ over chunks of
    MaxNumItems / NumChunks, holds at most MaxNumItems), keys distinct, `immune` flags = membership in the immune-key set,
    NumBytes = Σ sizes (the clamp at 0 never fires), immune keys distinct (CountImmune = their number) -/
theorem chunk_invariant (cfg : ChunkCfg) (ops : List COp) (hm : 1 ≤ cfg.maxNumItems)
    (hw : ∀ op ∈ ops, (match op with | .add _ _ s => 0 ≤ s | _ => True)) :
    ChunkInv cfg (ops.foldl (Chunk.apply cfg) Chunk.empty) := ChunkInv.run cfg ops hm hw
/-- HasOrAdd: has ⇔ the key was present; added ⇔ it became present (then with the given payload and size) -/
theorem flags_truthful (cfg : ChunkCfg) (c : Chunk) (k p : Bytes) (size : Int) :
    let r := c.addItem Variant.current cfg k p size
    r.2.1 = c.has k ∧ (r.2.2 = true ↔ (c.has k = false ∧ r.1.has k = true)) ∧
    (r.2.2 = true → ∃ it ∈ r.1.items, it.key = k ∧ it.payload = p ∧ it.size = size) := addItem_flags cfg c k p size
/-- the coded eviction is the reference FIFO eviction: remove the first n items (oldest first) whose key is not immune -/
theorem eviction_is_fifo (cfg : ChunkCfg) (c : Chunk) (h : ChunkInv cfg c) (n : Nat) :
    removeOldest n c.items = specRemoveOldest c.immuneKeys n c.items := removeOldest_eq_spec cfg c h n
theorem eviction_partition (n : Nat) (l : List Item) :
    ((removeOldest n l).1 ++ (removeOldest n l).2).Perm l ∧ (removeOldest n l).1.Sublist l ∧ (removeOldest n l).2.length ≤ n :=
  removeOldest_partition n l
/-- Remove withdraws current or future immunity -/
theorem remove_withdraws_immunity (c : Chunk) (k : Bytes) :
    k ∉ (c.removeItem k).1.immuneKeys ∧ (c.removeItem k).1.has k = false := removeItem_withdraws c k
/-- the ImmunizeKeys capacity gate: refused as a whole, unchanged, when CountImmune + |keys| > MaxNumItems -/
theorem immunize_gate (c : Cache) (keys : List Bytes) (h : c.countImmune + keys.length > c.cfg.maxNumItems) :
    c.immunizeKeys keys = (c, 0, 0) := by
  unfold Cache.immunizeKeys; simp [h]

/-! ### tie by translation: the source's own leaf logic (regenerated into SV/Generated/Funcs.lean on every run) IS the model's -/
theorem source_capacity_test_is_the_models (cfg : ChunkCfg) (c : Chunk) :
    c.exceeded cfg = Gen.chunkExceeded (len_chunk_items := c.items.length) (chunk_config_maxNumItems := cfg.maxNumItems) (chunk_numBytes := c.numBytes) (chunk_config_maxNumBytes := cfg.maxNumBytes) := GenProofs.chunkExceeded_eq cfg c
theorem source_chunk_config_is_the_models (c : Config) :
    ((c.chunkCfg.maxNumItems : Nat) : Int) = Gen.chunkMaxNumItems (config_NumChunks := c.numChunks) (config_MaxNumItems := c.maxNumItems) ∧
    ((c.chunkCfg.maxNumBytes : Nat) : Int) = Gen.chunkMaxNumBytes (config_NumChunks := c.numChunks) (config_MaxNumBytes := c.maxNumBytes) ∧
    ((c.chunkCfg.numToEvict : Nat) : Int) = Gen.chunkNumItemsToEvict (config_NumChunks := c.numChunks) (config_NumItemsToPreemptivelyEvict := c.numItemsToEvict) := GenProofs.chunkCfg_eq c

/-! ### the whole cache (any number of chunks ≥ 1) — SV.Immunity.CacheProofs -/

/-- after ANY history of HasOrAdd/Put (sizes ≥ 0), Remove, ImmunizeKeys, Clear: the cache invariant holds and the cache
    never holds more than MaxNumItems items -/
theorem cache_never_exceeds_max (cfg : Config) (hn : 1 ≤ cfg.numChunks) (ops : List CacheOp) (hw : ∀ op ∈ ops, op.sizeOk) :
    CacheInv (ops.foldl Cache.apply (Cache.init cfg)) ∧ (ops.foldl Cache.apply (Cache.init cfg)).count ≤ cfg.maxNumItems :=
  ⟨CacheInv.run cfg hn ops hw, count_le_max_run cfg hn ops hw⟩
/-- Count, Len, Keys, ForEachItem, Get and Has describe the same set; NumBytes = Σ sizes; CountImmune = number of
    distinct immune keys -/
theorem cache_views_agree {c : Cache} (h : CacheInv c) :
    (∀ k p, c.get k = some p ↔ ∃ it ∈ c.items, it.key = k ∧ it.payload = p) ∧
    (c.items.map (·.key)).Nodup ∧ c.count = c.items.length ∧ c.numBytes = sumSz c.items ∧
    c.countImmune = c.immuneKeys.length ∧ c.immuneKeys.Nodup :=
  ⟨get_iff h, items_keys_nodup h, count_eq_length c, numBytes_eq_sum h, countImmune_eq_length c, immuneKeys_nodup h⟩
/-- HasOrAdd at cache level: has ⇔ was present; added ⇔ became present (then with the given payload) -/
theorem cache_flags_truthful {c : Cache} (h : CacheInv c) (k p : Bytes) (s : Int) :
    let r := c.hasOrAdd Variant.current k p s
    r.2.1 = (c.get k).isSome ∧ (r.2.2 = true ↔ ((c.get k).isSome = false ∧ (r.1.get k).isSome = true)) ∧
    (r.2.2 = true → r.1.get k = some p) := hasOrAdd_flags h k p s
/-- Remove withdraws the key's current or future immunity and no other -/
theorem cache_remove_withdraws_immunity {c : Cache} (h : CacheInv c) (k x : Bytes) :
    x ∈ (c.remove k).1.immuneKeys ↔ x ∈ c.immuneKeys ∧ x ≠ k := immuneKeys_remove h k x
/-- the ImmunizeKeys capacity gate refuses the call as a whole: no chunk, no view changes -/
theorem cache_immunize_gate_refuses_whole (c : Cache) (keys : List Bytes)
    (hg : c.countImmune + keys.length > c.cfg.maxNumItems) :
    c.immunizeKeys keys = (c, 0, 0) ∧
    (∀ i : Nat, (c.immunizeKeys keys).1.chunks[i]? = c.chunks[i]?) ∧
    (∀ k, (c.immunizeKeys keys).1.chunkOf k = c.chunkOf k) ∧
    (c.immunizeKeys keys).1.immuneKeys = c.immuneKeys ∧ (c.immunizeKeys keys).1.items = c.items :=
  immunize_gate_refuses_whole c keys hg

/-- for EVERY configuration accepted by `NewImmunityCache` / `NewCrossTxCache` (validity test translated from
    `CacheConfig.Verify` / `ConfigDestinationMe.verify`): invariant and capacity bound after any history -/
theorem holds_for_every_accepted_configuration (cfg : Config) (nameLen : Nat) (hacc : GenProofs.immunityAccepted cfg nameLen = true)
    (ops : List CacheOp) (hw : ∀ op ∈ ops, op.sizeOk) :
    CacheInv (ops.foldl Cache.apply (Cache.init cfg)) ∧ (ops.foldl Cache.apply (Cache.init cfg)).count ≤ cfg.maxNumItems :=
  have hb := GenProofs.immunityAccepted_bounds cfg nameLen hacc
  ⟨CacheInv.run cfg hb.2.1 ops hw, count_le_max_run cfg hb.2.1 ops hw⟩

/-! ### one chunk IS a FIFO queue with batch eviction: history-level refinement to an independent reference (SV.Immunity.FifoSpec:
    a queue of (key, payload, size) oldest first + a set of immune keys, no per-item flags) -/

theorem single_chunk_refines_fifo_queue (cfg : ChunkCfg) (ops : List COp)
    (hw : ∀ op ∈ ops, (match op with | .add _ _ s => 0 ≤ s | _ => True)) :
    let c := ops.foldl (Chunk.apply cfg) Chunk.empty
    let q := Q.run cfg Q.empty ops
    c.toQ = q ∧
    c.items.map (·.key) = q.queue.map (·.1) ∧
    c.items.map (·.payload) = q.queue.map (·.2.1) ∧
    c.items.map (·.size) = q.queue.map (·.2.2) ∧
    c.numBytes = q.bytes ∧
    c.immuneKeys = q.immune ∧
    Chunk.trace cfg Chunk.empty ops = Q.trace cfg Q.empty ops := chunk_run_refines_queue cfg ops hw
/-- the reference refuses an add exactly when the key is new, the queue is full and nothing is evictable (every resident immune,
    or batch size 0); a refused add changes nothing -/
theorem fifo_refusal_iff (cfg : ChunkCfg) (q : Q) (k p : Bytes) (size : Int) :
    ((q.add cfg k p size).2 = (false, false) ↔
      (q.has k = false ∧ q.full cfg = true ∧
        (cfg.numToEvict = 0 ∨ ∀ e ∈ q.queue, q.immune.contains e.1 = true))) ∧
    ((q.add cfg k p size).2 = (false, false) → (q.add cfg k p size).1 = q) := q_refusal_iff cfg q k p size
/-- victims are the oldest non-immune entries, in whole batches except possibly the last; eviction stops once the queue is not
    full any more or a batch came out short -/
theorem fifo_eviction_in_batches (cfg : ChunkCfg) {q q' : Q} (h : q.Wf) (he : q.evict cfg = some q') :
    1 ≤ cfg.numToEvict ∧ q.evictable ≠ [] ∧
    ∃ j, 1 ≤ j ∧ q' = q.without (q.evictable.take (j * cfg.numToEvict)) ∧
      (∀ i, 1 ≤ i → i < j → i * cfg.numToEvict ≤ q.evictable.length ∧
        (q.without (q.evictable.take (i * cfg.numToEvict))).full cfg = true) ∧
      (j * cfg.numToEvict ≤ q.evictable.length → q'.full cfg = false) ∧
      q'.count + min (j * cfg.numToEvict) q.evictable.length = q.count := q_batches cfg h he

/-! ### the chunk's two structures are not assumed coherent (SV/Immunity/ChunkLib.lean): the `items` map (key ↦ list element)
    and the `itemsAsList` linked list transcribed separately, every lookup going through the map to the element -/
/-- for every configuration and every history the faithful two-structure chunk returns what the one-list model returns, ends in
    the corresponding state, and its map and list are coherent (same keys, no dangling entry) -/
theorem two_structure_chunk_refines_the_model (cfg : ChunkCfg) (ops : List Lib.Op) :
    Lib.trace (Lib.LChunk.step cfg) Lib.LChunk.empty ops = Lib.trace (Lib.handStep cfg) Chunk.empty ops ∧
    (Lib.finalState (Lib.LChunk.step cfg) Lib.LChunk.empty ops).abs = Lib.finalState (Lib.handStep cfg) Chunk.empty ops ∧
    Lib.Coh (Lib.finalState (Lib.LChunk.step cfg) Lib.LChunk.empty ops) := Lib.lib_chunk_refines_model cfg ops
/-- `Count()` (the size of the MAP, as the code computes it) never exceeds the chunk's item limit, after any history -/
theorem map_count_never_exceeds_max (cfg : ChunkCfg) (ops : List Lib.Op) :
    (Lib.finalState (Lib.LChunk.step cfg) Lib.LChunk.empty ops).count ≤ cfg.maxNumItems := Lib.lib_count_le_max cfg ops

/-- the tie by translation for `NumBytes`: the two statements of the CURRENT source that change a chunk's byte counter are
    translated on every run and are the model's — an insertion adds the declared size; every removal (explicit, or one item
    of an eviction) subtracts the item's size and clamps at zero -/
theorem source_byte_counter_updates_are_the_models :
    (∀ b size : Int, b + size = Gen.chunkBytesAfterAdd (chunk_numBytes := b) (item_size := size)) ∧
    (∀ (c : Immunity.Chunk) (k : Bytes) (it : Immunity.Item), c.get k = some it →
        (c.removeItem k).1.numBytes = Gen.chunkBytesAfterRemove (chunk_numBytes := c.numBytes) (item_size := it.size)) ∧
    (∀ (b : Int) (removed : List Immunity.Item),
        Immunity.subBytes b removed =
          removed.foldl (fun b it => Gen.chunkBytesAfterRemove (chunk_numBytes := b) (item_size := it.size)) b) ∧
    Gen.chunkBytesAfterAdd_leaves = ["chunk.numBytes : Int", "item.size : Int"] ∧
    Gen.chunkBytesAfterRemove_leaves = ["chunk.numBytes : Int", "item.size : Int"] :=
  ⟨GenProofs.chunkBytes_add, GenProofs.chunkBytes_removeItem, GenProofs.subBytes_eq_source,
   GenProofs.chunkBytes_leaves.1, GenProofs.chunkBytes_leaves.2⟩

end SV.Props.C13
