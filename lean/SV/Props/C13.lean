/-
  C13 — Immunity cache is a bounded FIFO map with exact accounting.
-/
import SV.Immunity.Proofs
import SV.GenProofs
namespace SV.Props.C13
open SV SV.Immunity

/-- every reachable chunk satisfies `ChunkInv`: at most maxNumItems items (so the cache, Σ over chunks of
    MaxNumItems / NumChunks, holds at most MaxNumItems), keys distinct, `immune` flags = membership in the immune-key set,
    NumBytes = Σ sizes (the clamp at 0 never fires), immune keys distinct (CountImmune = their number) -/
theorem chunk_invariant (cfg : ChunkCfg) (ops : List COp) (hm : 1 ≤ cfg.maxNumItems)
    (hw : ∀ op ∈ ops, (match op with | .add _ _ s => 0 ≤ s | _ => True)) :
    ChunkInv cfg (ops.foldl (Chunk.apply cfg) Chunk.empty) := ChunkInv.run cfg ops hm hw
/-- HasOrAdd: has ⇔ the key was present; added ⇔ it became present (then with the given payload and size) -/
theorem flags_truthful (cfg : ChunkCfg) (c : Chunk) (k p : Bytes) (size : Int) :
    let r := c.addItem Variant.current cfg k p size
    r.2.1 = c.has k ∧ (r.2.2 = true ↔ (c.has k = false ∧ r.1.has k = true)) ∧
    (r.2.2 = true → ∃ it ∈ r.1.items, it.key = k ∧ it.payload = p ∧ it.size = size) := addItem_flags cfg c k p size
/-- the coded eviction is the reference FIFO eviction: remove the first n items (oldest first) whose key is not immune -/
theorem eviction_is_fifo (cfg : ChunkCfg) (c : Chunk) (h : ChunkInv cfg c) (n : Nat) :
    removeOldest n c.items = specRemoveOldest c.immuneKeys n c.items := removeOldest_eq_spec cfg c h n
theorem eviction_partition (n : Nat) (l : List Item) :
    ((removeOldest n l).1 ++ (removeOldest n l).2).Perm l ∧ (removeOldest n l).1.Sublist l ∧ (removeOldest n l).2.length ≤ n :=
  removeOldest_partition n l
/-- Remove withdraws current or future immunity -/
theorem remove_withdraws_immunity (c : Chunk) (k : Bytes) :
    k ∉ (c.removeItem k).1.immuneKeys ∧ (c.removeItem k).1.has k = false := removeItem_withdraws c k
/-- the ImmunizeKeys capacity gate: refused as a whole, unchanged, when CountImmune + |keys| > MaxNumItems -/
theorem immunize_gate (c : Cache) (keys : List Bytes) (h : c.countImmune + keys.length > c.cfg.maxNumItems) :
    c.immunizeKeys keys = (c, 0, 0) := by
  unfold Cache.immunizeKeys; simp [h]

/-! ### tie by translation: the source's own leaf logic (regenerated into SV/Generated/Funcs.lean on every run) IS the model's -/
theorem source_capacity_test_is_the_models (cfg : ChunkCfg) (c : Chunk) :
    c.exceeded cfg = Gen.chunkExceeded c.items.length cfg.maxNumItems c.numBytes cfg.maxNumBytes := GenProofs.chunkExceeded_eq cfg c
theorem source_chunk_config_is_the_models (c : Config) :
    ((c.chunkCfg.maxNumItems : Nat) : Int) = Gen.chunkMaxNumItems c.numChunks c.maxNumItems ∧
    ((c.chunkCfg.maxNumBytes : Nat) : Int) = Gen.chunkMaxNumBytes c.numChunks c.maxNumBytes ∧
    ((c.chunkCfg.numToEvict : Nat) : Int) = Gen.chunkNumItemsToEvict c.numChunks c.numItemsToEvict := GenProofs.chunkCfg_eq c

end SV.Props.C13
