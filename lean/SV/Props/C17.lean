/-
  C17 — The spilling cacher adapter never loses an entry.
-/
import SV.Misc.AdapterProofs
import SV.Misc.AdapterMore
import SV.GenProofs.LRU
import SV.FactsProofs.Adapter
namespace SV.Props.C17
open SV SV.Adapter

/-- after any sequence of Puts (each key bound to one immutable, non-empty value `V k`; sizes ≥ 0, incl. re-puts with a
    larger size) and Gets, every key put so far is reported by Has and returned by Get with its value -/
theorem never_loses (V : Bytes → Bytes) (hv : ∀ x, V x ≠ []) (cap : Nat) (maxBytes : Int) (ops : List Op)
    (hs : ∀ op ∈ ops, (match op with | .put _ s => 0 ≤ s | .get _ => True)) (k : Bytes) (hk : k ∈ putKeys ops) :
    let a := ops.foldl (A.step V) ⟨LRU.Cap.init cap maxBytes, []⟩
    a.has k = true ∧ (a.get k).2 = some (V k) := run_never_loses V hv cap maxBytes ops hs k hk
/-- entries leave the memory tier only by being written to the persister in the same step, and Put's result says
    whether anything was spilled -/
theorem spills_before_dropping (V : Bytes → Bytes) (S : List Bytes) (a : A) (k : Bytes) (size : Int) (h : AInv V S a) (hv : ∀ x, V x ≠ []) :
    let r := a.put LRU.Variant.current k (V k) size
    (∀ e ∈ a.mem.entries, e.key ≠ k → r.1.mem.has e.key = false → alookup e.key r.1.db = some e.val) ∧
    (r.2 = true ↔ ∃ e ∈ a.mem.entries, e.key ≠ k ∧ r.1.mem.has e.key = false) := put_spills V S a k size h hv
/-- F11 (pre-repair): the silent eviction of the LRU made the adapter lose an entry -/
theorem legacy_F11 : ∃ (a : A) (k v : Bytes) (size : Int) (e : LRU.Entry),
    e ∈ a.mem.entries ∧ e.key ≠ k ∧ (a.put LRU.Variant.legacy k v size).1.has e.key = false := legacy_loses_entry

/-- the same through ALL the adapter's entry points: histories of Put, HasOrAdd (= Has, then Put when absent), Get, Has,
    Peek and Remove — every key inserted by a Put or HasOrAdd and not removed since is reported by Has and returned by
    Get with its value -/
theorem never_loses_all_entry_points (V : Bytes → Bytes) (hv : ∀ x, V x ≠ []) (cap : Nat) (maxBytes : Int) (ops : List Op2)
    (hs : ∀ op ∈ ops, op.sizeOk) (k : Bytes) (hk : k ∈ liveKeys ops) :
    let a := ops.foldl (A.step2 V) ⟨LRU.Cap.init cap maxBytes, []⟩
    a.has k = true ∧ (a.get k).2 = some (V k) := run_never_loses2 V hv cap maxBytes ops hs k hk
/-- `liveKeys` is what it should be: inserted by a put/hoa that no later `rm` of the same key follows -/
theorem live_keys_characterised (ops : List Op2) (k : Bytes) :
    k ∈ liveKeys ops ↔ ∃ pre op post, ops = pre ++ op :: post ∧ op.inserts k = true ∧ Op2.rm k ∉ post :=
  mem_liveKeys_iff k ops
/-- HasOrAdd is Has followed by Put-when-absent, and its insertion spills like Put does -/
theorem hasOrAdd_is_has_then_put (vr : LRU.Variant) (a : A) (k v : Bytes) (size : Int) :
    (a.hasOrAdd vr k v size).2.1 = a.has k ∧
    (a.has k = true → a.hasOrAdd vr k v size = (a, true, false)) ∧
    (a.has k = false → a.hasOrAdd vr k v size = ((a.put vr k v size).1, false, (a.put vr k v size).2)) :=
  hasOrAdd_spec vr a k v size
theorem hasOrAdd_spills_before_dropping (V : Bytes → Bytes) (S : List Bytes) (a : A) (k : Bytes) (size : Int)
    (h : AInv V S a) (hv : ∀ x, V x ≠ []) :
    let r := a.hasOrAdd LRU.Variant.current k (V k) size
    (∀ e ∈ a.mem.entries, e.key ≠ k → r.1.mem.has e.key = false → alookup e.key r.1.db = some e.val) ∧
    (r.2.2 = true ↔ ∃ e ∈ a.mem.entries, e.key ≠ k ∧ r.1.mem.has e.key = false) := hasOrAdd_spills V S a k size h hv

/-! ### tie by translation: the source's own leaf logic (regenerated into SV/Generated/Funcs.lean on every run) IS the model's -/
theorem source_eviction_test_is_the_models (c : LRU.Cap) :
    c.shouldEvict = Gen.lruShouldEvict (c_evictList_Len := c.entries.length) (c_size := c.cap) (c_currentCapacityInBytes := c.bytes) (c_maxCapacityInBytes := c.maxBytes) := GenProofs.lruShouldEvict_eq c

/-- (regenerated fact) the adapter's Put — memory-tier write and persisting of the reported victims — is one critical section -/
theorem adapter_put_holds_the_lock_throughout : Facts.adapterPutSingleSection = true := Facts.adapter_put_is_single_section

end SV.Props.C17
