/-
  C17 — The spilling cacher adapter never loses an entry.
-/
import SV.Misc.AdapterProofs
namespace SV.Props.C17
open SV SV.Adapter

/-- after any sequence of Puts (each key bound to one immutable, non-empty value `V k`; sizes ≥ 0, incl. re-puts with a
    larger size) and Gets, every key put so far is reported by Has and returned by Get with its value -/
theorem never_loses (V : Bytes → Bytes) (hv : ∀ x, V x ≠ []) (cap : Nat) (maxBytes : Int) (ops : List Op)
    (hs : ∀ op ∈ ops, (match op with | .put _ s => 0 ≤ s | .get _ => True)) (k : Bytes) (hk : k ∈ putKeys ops) :
    let a := ops.foldl (A.step V) ⟨LRU.Cap.init cap maxBytes, []⟩
    a.has k = true ∧ (a.get k).2 = some (V k) := run_never_loses V hv cap maxBytes ops hs k hk
/-- entries leave the memory tier only by being written to the persister in the same step, and Put's result says
    whether anything was spilled -/
theorem spills_before_dropping (V : Bytes → Bytes) (S : List Bytes) (a : A) (k : Bytes) (size : Int) (h : AInv V S a) (hv : ∀ x, V x ≠ []) :
    let r := a.put LRU.Variant.current k (V k) size
    (∀ e ∈ a.mem.entries, e.key ≠ k → r.1.mem.has e.key = false → alookup e.key r.1.db = some e.val) ∧
    (r.2 = true ↔ ∃ e ∈ a.mem.entries, e.key ≠ k ∧ r.1.mem.has e.key = false) := put_spills V S a k size h hv
/-- F11 (pre-repair): the silent eviction of the LRU made the adapter lose an entry -/
theorem legacy_F11 : ∃ (a : A) (k v : Bytes) (size : Int) (e : LRU.Entry),
    e ∈ a.mem.entries ∧ e.key ≠ k ∧ (a.put LRU.Variant.legacy k v size).1.has e.key = false := legacy_loses_entry

end SV.Props.C17
