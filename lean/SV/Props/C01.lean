/-
  C01 — Selection yields per sender a gap-free nonce run starting at the account nonce.
  Property theorems only; proofs in SV.TxCache.SelProofs / ListProofs / EvictInv.
-/
import SV.TxCache.SelProofs
import SV.TxCache.OrderProofs
import SV.TxCache.EvictInv
import SV.TxCache.ReachableProofs
import SV.GenProofs.TxSelection
import SV.TxCache.SessionWrapper
namespace SV.Props.C01
open SV SV.TxCache

/-- For every sender, the nonces of the selected transactions, in result order, are exactly
    `accountNonce, accountNonce+1, …` (so: strictly consecutive, increasing, no (sender, nonce) twice, lowest = the
    session's account nonce, 0 when the session cannot resolve the account) — for ANY bunches that are single-sender and
    nonce-sorted, any session answers, any gas/count limits, any time-budget oracle, and ANY pop policy (the heap order
    plays no role for this property). -/
theorem nonce_run (v : Variant) (pick : List HItem → Option (HItem × List HItem)) (hp : PickOk pick)
    (s : Session) (q : SelParams) (bunches : List (List Tx))
    (hb : ∀ b ∈ bunches, BunchOk b) (hd : BunchesDistinct bunches) (fuel : Nat) (snd : Bytes) :
    ∃ k, noncesOf snd (selectLoop v pick s q fuel (initHeap bunches) (fun _ => 0) 0 []).1 = List.range' (s.nonce snd) k :=
  selectLoop_nonce_run v pick hp s q bunches hb hd fuel snd

/-- the code's selection (best-first pop) is an instance -/
theorem nonce_run_select (v : Variant) (s : Session) (q : SelParams) (bunches : List (List Tx))
    (hb : ∀ b ∈ bunches, BunchOk b) (hd : BunchesDistinct bunches) (snd : Bytes) :
    ∃ k, noncesOf snd (selectFromBunches v s q bunches).1 = List.range' (s.nonce snd) k :=
  selectLoop_nonce_run v (popBest v) (popBest_pickOk v) s q bunches hb hd _ snd

/-- every pool reachable by AddTx/RemoveTxByHash/Clear delivers lists that are strictly sorted (hence nonce-sorted),
    one sender each — the hypothesis of `nonce_run` is met by every reachable pool -/
theorem reachable_lists_sorted (U : Bytes → Tx) (cfg : Config) (ops : List Op) (hw : ∀ t, Op.add t ∈ ops → WfTx U t) :
    ListsSorted (ops.foldl applyOp (Pool.init cfg)) :=
  ListsSorted.reachable U cfg ops hw

-- non-vacuity: a concrete pool with a gap, a duplicate nonce and two senders
example :
    let t (h : UInt8) (s : UInt8) (n : Nat) : Tx := ⟨[h], [s], n, 1, 10, 1, 10, 0, []⟩
    let bunches := [[t 1 0xa0 0, t 2 0xa0 1, t 3 0xa0 1, t 4 0xa0 3], [t 5 0xa1 0]]
    let s : Session := ⟨fun _ => 0, fun _ => 1000, fun _ => false⟩
    ((selectFromBunches Variant.current s ⟨1000, 10, fun _ => false, 10⟩ bunches).1.map (·.hash)) = [[1], [2], [5]] := by
  decide

/-- END-TO-END: for the pool reached by ANY history of AddTx (with or without eviction) / RemoveTxByHash / Clear, any
    session, any limits, any sender: the selected nonces are `accountNonce, accountNonce+1, …` in result order -/
theorem nonce_run_of_every_reachable_pool (U : Bytes → Tx) (cfg : Config) (ops : List Op)
    (hw : ∀ t, Op.add t ∈ ops → WfTx U t) (s : Session) (q : SelParams) (snd : Bytes) :
    ∃ k, noncesOf snd (select Variant.current (ops.foldl applyOp (Pool.init cfg)) s q).1 = List.range' (s.nonce snd) k :=
  reachable_nonce_run U cfg ops hw s q snd

/-! ### tie by translation: the source's own leaf logic (regenerated into SV/Generated/Funcs.lean on every run) IS the model's -/
theorem source_detectors_are_the_models (s : Session) (consumed : Bytes → Nat) (it : HItem) :
    classify s consumed it =
      (if Gen.initialGap (item_latestSelectedTransaction_nil := it.latest.isNone) (item_currentTransactionNonce := it.cur.nonce) (senderNonce := (s.nonce it.cur.sender)) then .dropSender
       else if Gen.middleGap (item_latestSelectedTransaction_nil := it.latest.isNone) (item_currentTransactionNonce := it.cur.nonce) (item_latestSelectedTransactionNonce := (it.latest.getD 0 : Nat)) then .dropSender
       else if Gen.feeExceedsBalance (tx_Fee := it.cur.fee) (fee_nil := false) (tx_FeePayer := 0) (sessionWrapper_getAccountRecord_feePayer := 0) (feePayerRecord_consumedBalance := (consumed it.cur.payer)) (feePayerRecord_initialBalance := (s.balance it.cur.payer)) then .dropSender
       else if Gen.lowerNonce (item_currentTransactionNonce := it.cur.nonce) (senderNonce := (s.nonce it.cur.sender)) then .skipTx
       else if s.badGuard it.cur then .skipTx
       else if Gen.nonceDuplicate (item_latestSelectedTransaction_nil := it.latest.isNone) (item_currentTransactionNonce := it.cur.nonce) (item_latestSelectedTransactionNonce := (it.latest.getD 0 : Nat)) then .skipTx
       else .take) := GenProofs.classify_uses_generated_detectors s consumed it

/-! ### the real selection session is an external, possibly stateful object: the code reads it through a memoising wrapper
    (`selectionSessionWrapper.getAccountRecord`); `SV.TxCache.SessionWrapper` models that wrapper over an ARBITRARY oracle
    (answers may differ from call to call, may fail) and proves it refines the pure session of first answers -/

/-- whatever the session answers, the wrapper-threaded selection equals the model's selection for the session of FIRST answers -/
theorem wrapper_refines_pure_session (v : Variant) (pick : List HItem → Option (HItem × List HItem)) (o : SW.Oracle)
    (guard : Tx → Bool) (q : SelParams) (fuel : Nat) (heap : List HItem) :
    SW.selectLoopW v pick o guard q fuel heap SW.W.empty 0 [] =
      selectLoop v pick (SW.firstAnswers v pick o guard q fuel heap) q fuel heap (fun _ => 0) 0 [] :=
  SW.selectLoopW_refines v pick o guard q fuel heap
/-- hence, for ANY oracle: per sender the selected nonces are consecutive and start at the nonce reported at the FIRST (only)
    query for that sender — 0 on a lookup error or if the sender was never looked up -/
theorem nonce_run_for_any_session_oracle (v : Variant) (pick : List HItem → Option (HItem × List HItem)) (hp : PickOk pick)
    (o : SW.Oracle) (guard : Tx → Bool) (q : SelParams) (bunches : List (List Tx))
    (hb : ∀ b ∈ bunches, BunchOk b) (hd : BunchesDistinct bunches) (fuel : Nat) (snd : Bytes) :
    ∃ k, noncesOf snd (SW.selectLoopW v pick o guard q fuel (initHeap bunches) SW.W.empty 0 []).1 =
      List.range'
        (match (SW.finalW v pick o guard q fuel (initHeap bunches) SW.W.empty 0 []).queryIndex snd with
          | some i => ((o i snd).map (·.1)).getD 0
          | none => 0) k := SW.selectLoopW_nonce_run v pick hp o guard q bunches hb hd fuel snd
/-- each account is looked up at most once per selection -/
theorem each_account_looked_up_once (v : Variant) (pick : List HItem → Option (HItem × List HItem)) (o : SW.Oracle)
    (guard : Tx → Bool) (q : SelParams) (fuel : Nat) (heap : List HItem) :
    (SW.finalW v pick o guard q fuel heap SW.W.empty 0 []).calls
        = ((SW.finalW v pick o guard q fuel heap SW.W.empty 0 []).records.map (·.1)).length ∧
    ((SW.finalW v pick o guard q fuel heap SW.W.empty 0 []).records.map (·.1)).Nodup :=
  SW.getRecord_at_most_once v pick o guard q fuel heap

end SV.Props.C01
