/-
  SV.Conc.LinProofs — C11: under any interleaving of the critical sections of the LevelDB persister every operation
  appears to take effect atomically at one instant between its call and its return.

  (A) facts about the blocks (invariant `CInv`, effect of every block on the logical map `P.abs` and on `db`)
  (B) the window theorem for reads (`get_window`) and its corollaries
  (C) linearization points and the sequential replay (`linearizable`)
-/
import SV.Conc.PersistConc
import SV.Persist.Proofs
namespace SV.Conc
open SV SV.Persist

/-! ## (A) the blocks -/

/-- the first block of Put / Remove is exactly the pre-bump state of the sequential model -/
theorem batchPut_eq (p : P) (k v : Bytes) : batchPut p k v = putPre p k ⟨false, v⟩ := rfl
theorem batchDelete_eq (p : P) (k : Bytes) : batchDelete p k = rmPre p k := rfl

/-- the invariant of the shared state between blocks: like BInv but sizeBatch may lag/lead the number of batched ops,
    because a put's two blocks can be separated by other threads' blocks -/
structure CInv (p : P) : Prop where
  disjoint : ∀ k, k ∈ p.removed → alookup k p.cached = none
  replay : ∀ k, alookup k (applyBatch p.db p.ops) = p.abs k
  dbNodup : (p.db.map (·.1)).Nodup

theorem CInv.init (maxBatch : Nat) : CInv (P.init maxBatch []) where
  disjoint := by intro k hk; simp [P.init] at hk
  replay := by intro k; simp [P.init, P.abs, applyBatch, alookup]
  dbNodup := by simp [P.init]

/-- `sizeBatch` is irrelevant for the invariant -/
theorem CInv.setSize (p : P) (n : Nat) (h : CInv p) : CInv { p with sizeBatch := n } :=
  ⟨h.disjoint, h.replay, h.dbNodup⟩

theorem CInv.batchPut (p : P) (k v : Bytes) (h : CInv p) : CInv (batchPut p k v) where
  disjoint := by
    intro x hx
    have hx' : x ∈ p.removed ∧ x ≠ k := by simpa [Conc.batchPut, List.mem_filter] using hx
    show alookup x (aset k ⟨false, v⟩ p.cached) = none
    rw [alookup_aset_ne hx'.2]
    exact h.disjoint x hx'.1
  replay := by
    intro x
    rw [batchPut_eq, abs_putPre]
    show alookup x (applyBatch p.db (p.ops ++ [.put k v])) = _
    rw [applyBatch_snoc]
    show alookup x (aset k v (applyBatch p.db p.ops)) = _
    by_cases hx : x = k
    · subst hx
      rw [alookup_aset_self, if_pos rfl]
    · rw [alookup_aset_ne hx, if_neg hx]
      exact h.replay x
  dbNodup := h.dbNodup

theorem CInv.batchDelete (p : P) (k : Bytes) (h : CInv p) : CInv (batchDelete p k) where
  disjoint := by
    intro x hx
    show alookup x (aerase k p.cached) = none
    rw [batchDelete_eq] at hx
    rcases (mem_rmPre_removed p k x).mp hx with hx | hx
    · subst hx
      exact alookup_aerase_self _ _
    · by_cases hk : x = k
      · subst hk
        exact alookup_aerase_self _ _
      · rw [alookup_aerase_ne hk]
        exact h.disjoint x hx
  replay := by
    intro x
    rw [batchDelete_eq, abs_rmPre]
    show alookup x (applyBatch p.db (p.ops ++ [.del k])) = _
    rw [applyBatch_snoc]
    show alookup x (aerase k (applyBatch p.db p.ops)) = _
    by_cases hx : x = k
    · subst hx
      rw [alookup_aerase_self, if_pos rfl]
    · rw [alookup_aerase_ne hx, if_neg hx]
      exact h.replay x
  dbNodup := h.dbNodup

theorem CInv.flush (p : P) (h : CInv p) : CInv p.flush where
  disjoint := by intro k hk; simp [P.flush] at hk
  replay := by
    intro k
    rw [abs_flush_eq]
    simp [P.flush, applyBatch]
  dbNodup := nodup_applyBatch p.ops p.db h.dbNodup

theorem CInv.bump (p : P) (h : CInv p) : CInv p.bump := by
  unfold P.bump
  dsimp only
  split
  · exact CInv.setSize p _ h
  · exact CInv.flush _ (CInv.setSize p _ h)

/-- a flush — by size or by the timer — never changes the logical map -/
theorem abs_flush' (p : P) (k : Bytes) (h : CInv p) : p.flush.abs k = p.abs k := by
  rw [abs_flush_eq]; exact h.replay k

theorem abs_bump' (p : P) (k : Bytes) (h : CInv p) : p.bump.abs k = p.abs k := by
  unfold P.bump
  dsimp only
  split
  · rfl
  · rw [abs_flush_eq]
    exact h.replay k

/-- writes take effect atomically at their first block, by exactly that write -/
theorem abs_batchPut (p : P) (k k' v : Bytes) (_h : CInv p) :
    (batchPut p k v).abs k' = if k' = k then some v else p.abs k' := by
  rw [batchPut_eq, abs_putPre]

theorem abs_batchDelete (p : P) (k k' : Bytes) (_h : CInv p) :
    (batchDelete p k).abs k' = if k' = k then none else p.abs k' := by
  rw [batchDelete_eq, abs_rmPre]

/-- a batch read that answers, answers the logical map; a miss means the logical value is the db value -/
theorem batchRead_some (p : P) (k : Bytes) (r : Option Bytes) (h : batchRead p k = some r) : r = p.abs k := by
  unfold batchRead at h
  unfold P.abs
  split at h
  · rename_i hc
    rw [if_pos hc]
    simpa using h.symm
  · rename_i hc
    rw [if_neg hc]
    split at h
    · rename_i v hv
      rw [hv]
      simpa using h.symm
    · simp at h

theorem batchRead_none (p : P) (k : Bytes) (h : batchRead p k = none) : p.abs k = alookup k p.db := by
  unfold batchRead at h
  unfold P.abs
  split at h
  · simp at h
  · rename_i hc
    rw [if_neg hc]
    split at h
    · simp at h
    · rename_i hv
      rw [hv]

/-- the db value of a key changes only at a flush, and then to the logical value of that moment -/
theorem db_after_flush (p : P) (k : Bytes) (h : CInv p) : alookup k p.flush.db = p.abs k :=
  h.replay k

/-- the db value of a key after the second block of a write: unchanged, or the logical value of that moment -/
theorem db_after_bump (p : P) (k : Bytes) (h : CInv p) :
    alookup k p.bump.db = alookup k p.db ∨ alookup k p.bump.db = p.abs k := by
  unfold P.bump
  dsimp only
  split
  · exact Or.inl rfl
  · exact Or.inr (h.replay k)

/-! ## one scheduling step, by cases -/

def Op.isWrite : Op → Bool
  | .get _ => false
  | _ => true

def Ev.thread : Ev → Nat
  | .call t _ => t
  | .ret t _ _ => t
  | .tau t => t

/-- program counter and current operation of a thread agree -/
def Good (th : Thread) (cur : Option Op) : Prop :=
  (th.pc = .idle ∧ cur = none) ∨ (th.pc = .putBump ∧ ∃ op, cur = some op ∧ op.isWrite = true) ∨
  (∃ k, th.pc = .getDb k ∧ cur = some (.get k))

def WF (c : Cfg) : Prop :=
  ∀ (t : Nat) (th : Thread) (cur : Option Op), c.threads[t]? = some th → c.cur[t]? = some cur → Good th cur

/-- `Cfg.step` by cases (for well-formed configurations) -/
inductive Step (c : Cfg) (s : Nat) : Cfg → List Ev → Prop
  | timer (h : s = c.threads.length) : Step c s { c with p := c.p.flush } [.tau s]
  | skip : Step c s c []
  | bump (th : Thread) (op : Op) (h1 : c.threads[s]? = some th) (h2 : c.cur[s]? = some (some op))
      (hpc : th.pc = .putBump) (hw : op.isWrite = true) :
      Step c s ⟨c.p.bump, c.threads.set s { th with pc := .idle }, c.cur.set s none⟩ [.ret s op none]
  | retDb (th : Thread) (k : Bytes) (h1 : c.threads[s]? = some th) (h2 : c.cur[s]? = some (some (.get k)))
      (hpc : th.pc = .getDb k) :
      Step c s ⟨c.p, c.threads.set s { th with pc := .idle }, c.cur.set s none⟩ [.ret s (.get k) (alookup k c.p.db)]
  | put (th : Thread) (k v : Bytes) (rest : List Op) (h1 : c.threads[s]? = some th) (h2 : c.cur[s]? = some none)
      (hpc : th.pc = .idle) (htodo : th.todo = .put k v :: rest) :
      Step c s ⟨batchPut c.p k v, c.threads.set s ⟨rest, .putBump⟩, c.cur.set s (some (.put k v))⟩ [.call s (.put k v)]
  | rm (th : Thread) (k : Bytes) (rest : List Op) (h1 : c.threads[s]? = some th) (h2 : c.cur[s]? = some none)
      (hpc : th.pc = .idle) (htodo : th.todo = .rm k :: rest) :
      Step c s ⟨batchDelete c.p k, c.threads.set s ⟨rest, .putBump⟩, c.cur.set s (some (.rm k))⟩ [.call s (.rm k)]
  | getHit (th : Thread) (k : Bytes) (rest : List Op) (r : Option Bytes) (h1 : c.threads[s]? = some th)
      (h2 : c.cur[s]? = some none) (hpc : th.pc = .idle) (htodo : th.todo = .get k :: rest)
      (hr : batchRead c.p k = some r) :
      Step c s ⟨c.p, c.threads.set s ⟨rest, .idle⟩, c.cur.set s none⟩ [.call s (.get k), .ret s (.get k) r]
  | getMiss (th : Thread) (k : Bytes) (rest : List Op) (h1 : c.threads[s]? = some th)
      (h2 : c.cur[s]? = some none) (hpc : th.pc = .idle) (htodo : th.todo = .get k :: rest)
      (hr : batchRead c.p k = none) :
      Step c s ⟨c.p, c.threads.set s ⟨rest, .getDb k⟩, c.cur.set s (some (.get k))⟩ [.call s (.get k)]

theorem set_eq_self {α : Type} (l : List α) (i : Nat) (a : α) (h : l[i]? = some a) : l.set i a = l := by
  induction l generalizing i with
  | nil => rfl
  | cons x r ih =>
    cases i with
    | zero => simp at h; simp [h]
    | succ i => simp at h; simp [ih i h]

theorem step_thread_eq (c : Cfg) (t : Nat) (th : Thread) (cur : Option Op) (ht : t ≠ c.threads.length)
    (h1 : c.threads[t]? = some th) (h2 : c.cur[t]? = some cur) :
    c.step t = ({ p := (stepThread c.p t th cur).1, threads := c.threads.set t (stepThread c.p t th cur).2.1,
                  cur := c.cur.set t (stepThread c.p t th cur).2.2.1 }, (stepThread c.p t th cur).2.2.2) := by
  unfold Cfg.step
  rw [if_neg ht]
  simp only [h1, h2]

theorem step_spec (c : Cfg) (s : Nat) (hwf : WF c) : Step c s (c.step s).1 (c.step s).2 := by
  by_cases ht : s = c.threads.length
  · have : c.step s = ({ c with p := c.p.flush }, [.tau s]) := by
      unfold Cfg.step; rw [if_pos ht]
    rw [this]
    exact Step.timer ht
  · cases h1 : c.threads[s]? with
    | none =>
      have : c.step s = (c, []) := by
        unfold Cfg.step; rw [if_neg ht]; simp only [h1]
      rw [this]; exact Step.skip
    | some th =>
      cases h2 : c.cur[s]? with
      | none =>
        have : c.step s = (c, []) := by
          unfold Cfg.step; rw [if_neg ht]; simp only [h1, h2]
        rw [this]; exact Step.skip
      | some cur =>
        rw [step_thread_eq c s th cur ht h1 h2]
        obtain ⟨todo, pc⟩ := th
        rcases hwf s _ cur h1 h2 with ⟨hpc, hcur⟩ | ⟨hpc, op, hcur, hw⟩ | ⟨k, hpc, hcur⟩
        · dsimp only at hpc
          subst hpc hcur
          cases todo with
          | nil =>
            simp only [stepThread]
            rw [set_eq_self _ _ _ h1, set_eq_self _ _ _ h2]
            exact Step.skip
          | cons op rest =>
            cases op with
            | put k v =>
              simp only [stepThread]
              exact Step.put _ k v rest h1 h2 rfl rfl
            | rm k =>
              simp only [stepThread]
              exact Step.rm _ k rest h1 h2 rfl rfl
            | get k =>
              cases hr : batchRead c.p k with
              | none =>
                simp only [stepThread, hr]
                exact Step.getMiss _ k rest h1 h2 rfl rfl hr
              | some r =>
                simp only [stepThread, hr]
                exact Step.getHit _ k rest r h1 h2 rfl rfl hr
        · dsimp only at hpc
          subst hpc hcur
          simp only [stepThread]
          exact Step.bump _ op h1 h2 rfl hw
        · dsimp only at hpc
          subst hpc hcur
          simp only [stepThread]
          exact Step.retDb _ k h1 h2 rfl

/-! ## the invariant of reachable configurations -/

structure Inv (c : Cfg) : Prop where
  cinv : CInv c.p
  wf : WF c

theorem WF.set (c : Cfg) (p' : P) (s : Nat) (th' : Thread) (cur' : Option Op) (hwf : WF c) (hg : Good th' cur') :
    WF ⟨p', c.threads.set s th', c.cur.set s cur'⟩ := by
  intro t th cur h1 h2
  dsimp only at h1 h2
  by_cases hts : s = t
  · subst hts
    rw [List.getElem?_set] at h1 h2
    simp only [if_true] at h1 h2
    split at h1
    · split at h2
      · simp only [Option.some.injEq] at h1 h2
        subst h1 h2
        exact hg
      · simp at h2
    · simp at h1
  · rw [List.getElem?_set_ne hts] at h1 h2
    exact hwf t th cur h1 h2

theorem Step.inv {c c' : Cfg} {s : Nat} {evs : List Ev} (h : Step c s c' evs) (hi : Inv c) : Inv c' := by
  cases h with
  | timer _ => exact ⟨CInv.flush _ hi.cinv, fun t th cur h1 h2 => hi.wf t th cur h1 h2⟩
  | skip => exact hi
  | bump th op h1 h2 hpc hw => exact ⟨CInv.bump _ hi.cinv, WF.set c _ s _ _ hi.wf (Or.inl ⟨rfl, rfl⟩)⟩
  | retDb th k h1 h2 hpc => exact ⟨hi.cinv, WF.set c _ s _ _ hi.wf (Or.inl ⟨rfl, rfl⟩)⟩
  | put th k v rest h1 h2 hpc htodo =>
    exact ⟨CInv.batchPut _ k v hi.cinv, WF.set c _ s _ _ hi.wf (Or.inr (Or.inl ⟨rfl, _, rfl, rfl⟩))⟩
  | rm th k rest h1 h2 hpc htodo =>
    exact ⟨CInv.batchDelete _ k hi.cinv, WF.set c _ s _ _ hi.wf (Or.inr (Or.inl ⟨rfl, _, rfl, rfl⟩))⟩
  | getHit th k rest r h1 h2 hpc htodo hr => exact ⟨hi.cinv, WF.set c _ s _ _ hi.wf (Or.inl ⟨rfl, rfl⟩)⟩
  | getMiss th k rest h1 h2 hpc htodo hr => exact ⟨hi.cinv, WF.set c _ s _ _ hi.wf (Or.inr (Or.inr ⟨k, rfl, rfl⟩))⟩

theorem Inv.init (maxBatch : Nat) (progs : List (List Op)) : Inv (Cfg.init maxBatch progs) := by
  refine ⟨CInv.init maxBatch, ?_⟩
  intro t th cur h1 h2
  simp only [Cfg.init, List.getElem?_map] at h1 h2
  cases hp : progs[t]? with
  | none => simp [hp] at h1
  | some a =>
    simp only [hp, Option.map_some, Option.some.injEq] at h1 h2
    subst h1 h2
    exact Or.inl ⟨rfl, rfl⟩

theorem Inv.step {c : Cfg} (s : Nat) (hi : Inv c) : Inv (c.step s).1 := (step_spec c s hi.wf).inv hi

/-! ### what one step can do -/

/-- a block emits events of its own thread only -/
theorem Step.thread_of_ev {c c' : Cfg} {s : Nat} {evs : List Ev} (h : Step c s c' evs) (e : Ev) (he : e ∈ evs) :
    e.thread = s := by
  cases h with
  | skip => simp at he
  | getHit th k rest r h1 h2 hpc htodo hr =>
    simp only [List.mem_cons, List.mem_nil_iff, or_false] at he
    rcases he with he | he <;> subst he <;> rfl
  | _ => simp only [List.mem_singleton] at he; subst he; rfl

/-- the db value of a key after any block: unchanged, or the logical value at that moment (a flush) -/
theorem Step.db {c c' : Cfg} {s : Nat} {evs : List Ev} (h : Step c s c' evs) (hc : CInv c.p) (k : Bytes) :
    alookup k c'.p.db = alookup k c.p.db ∨ alookup k c'.p.db = c.p.abs k := by
  cases h with
  | timer _ => exact Or.inr (db_after_flush _ k hc)
  | bump th op h1 h2 hpc hw => exact db_after_bump _ k hc
  | _ => exact Or.inl rfl

/-- a returning `get k` either was answered by the batch in this very block (the logical value of this moment) or
    returns the current db value from its second block -/
theorem Step.ret_get {c c' : Cfg} {s : Nat} {evs : List Ev} (h : Step c s c' evs) {t : Nat} {k : Bytes}
    {r : Option Bytes} (he : Ev.ret t (.get k) r ∈ evs) :
    t = s ∧ ((Ev.call t (.get k) ∈ evs ∧ r = c.p.abs k) ∨
             (∃ th, c.threads[t]? = some th ∧ th.pc = .getDb k ∧ r = alookup k c.p.db)) := by
  cases h with
  | timer _ => simp at he
  | skip => simp at he
  | bump th op h1 h2 hpc hw =>
    simp only [List.mem_singleton, Ev.ret.injEq] at he
    obtain ⟨_, hop, _⟩ := he
    subst hop
    simp [Op.isWrite] at hw
  | retDb th k' h1 h2 hpc =>
    simp only [List.mem_singleton, Ev.ret.injEq, Op.get.injEq] at he
    obtain ⟨hts, hk, hr⟩ := he
    subst hts hk
    exact ⟨rfl, Or.inr ⟨th, h1, hpc, hr⟩⟩
  | put th k' v rest h1 h2 hpc htodo => simp at he
  | rm th k' rest h1 h2 hpc htodo => simp at he
  | getHit th k' rest r' h1 h2 hpc htodo hr =>
    simp only [List.mem_cons, List.mem_nil_iff, or_false, Ev.ret.injEq, Op.get.injEq, reduceCtorEq, false_or] at he
    obtain ⟨hts, hk, hr'⟩ := he
    subst hts hk hr'
    exact ⟨rfl, Or.inl ⟨by simp, batchRead_some _ _ _ hr⟩⟩
  | getMiss th k' rest h1 h2 hpc htodo hr => simp at he

/-- a thread found between the two blocks of a `get k`: either the batch read missed in this very step, or the thread
    was there before and the step belongs to somebody else -/
theorem Step.at_getDb {c c' : Cfg} {s : Nat} {evs : List Ev} (h : Step c s c' evs) {t : Nat} {th' : Thread}
    {k : Bytes} (h1' : c'.threads[t]? = some th') (hpc' : th'.pc = .getDb k) :
    (t = s ∧ Ev.call t (.get k) ∈ evs ∧ c'.p = c.p ∧ c.p.abs k = alookup k c.p.db) ∨
    (c.threads[t]? = some th' ∧ ∀ e ∈ evs, e.thread ≠ t) := by
  have hlt : c.threads[t]? = some th' → t ≠ c.threads.length := by
    intro h e
    rw [e] at h
    simp at h
  have key : ∀ (p' : P) (thn : Thread) (curn : Option Op) (evs : List Ev),
      (∀ e ∈ evs, e.thread = s) → (c.threads.set s thn)[t]? = some th' →
      (∀ kk, thn.pc ≠ .getDb kk) → (c.threads[t]? = some th' ∧ ∀ e ∈ evs, e.thread ≠ t) := by
    intro p' thn curn evs hev hget hno
    by_cases hts : s = t
    · subst hts
      rw [List.getElem?_set] at hget
      simp only [if_true] at hget
      split at hget
      · simp only [Option.some.injEq] at hget
        subst hget
        exact absurd hpc' (hno k)
      · simp at hget
    · rw [List.getElem?_set_ne hts] at hget
      exact ⟨hget, fun e he => by rw [hev e he]; exact hts⟩
  cases h with
  | timer hs =>
    right
    refine ⟨h1', ?_⟩
    intro e he
    simp only [List.mem_singleton] at he
    subst he
    show s ≠ t
    rw [hs]
    exact fun e => hlt h1' e.symm
  | skip => exact Or.inr ⟨h1', by simp⟩
  | bump th op h1 h2 hpc hw =>
    exact Or.inr (key c.p.bump _ none _ (fun e he => by simp at he; subst he; rfl) h1' (by simp))
  | retDb th k' h1 h2 hpc =>
    exact Or.inr (key c.p _ none _ (fun e he => by simp at he; subst he; rfl) h1' (by simp))
  | put th k' v rest h1 h2 hpc htodo =>
    exact Or.inr (key c.p _ none _ (fun e he => by simp at he; subst he; rfl) h1' (by simp))
  | rm th k' rest h1 h2 hpc htodo =>
    exact Or.inr (key c.p _ none _ (fun e he => by simp at he; subst he; rfl) h1' (by simp))
  | getHit th k' rest r' h1 h2 hpc htodo hr =>
    exact Or.inr (key c.p _ none _
      (fun e he => by simp at he; rcases he with he | he <;> subst he <;> rfl) h1' (by simp))
  | getMiss th k' rest h1 h2 hpc htodo hr =>
    by_cases hts : s = t
    · subst hts
      dsimp only at h1'
      rw [List.getElem?_set] at h1'
      simp only [if_true] at h1'
      split at h1'
      · simp only [Option.some.injEq] at h1'
        subst h1'
        simp only [Pc.getDb.injEq] at hpc'
        subst hpc'
        exact Or.inl ⟨rfl, by simp, rfl, batchRead_none _ _ hr⟩
      · simp at h1'
    · dsimp only at h1'
      rw [List.getElem?_set_ne hts] at h1'
      exact Or.inr ⟨h1', fun e he => by simp at he; subst he; exact hts⟩

/-! ## runs, indexed by step number

  `cfgAt c sched m` is the configuration reached from `c` after the first `m` scheduling choices of `sched`
  (the final configuration when `m ≥ sched.length`); `evsAt c sched j` is the list of events emitted by step number `j`,
  i.e. by the block that leads from `cfgAt c sched j` to `cfgAt c sched (j+1)`.  `runSched_cfgs` / `runSched_hist` show that
  these are exactly the configurations and the history returned by `runSched`. -/

def cfgAt (c : Cfg) : List Nat → Nat → Cfg
  | [], _ => c
  | _ :: _, 0 => c
  | t :: rest, m + 1 => cfgAt (c.step t).1 rest m

def evsAt (c : Cfg) : List Nat → Nat → List Ev
  | [], _ => []
  | t :: _, 0 => (c.step t).2
  | t :: rest, j + 1 => evsAt (c.step t).1 rest j

theorem cfgAt_zero (c : Cfg) (sched : List Nat) : cfgAt c sched 0 = c := by
  cases sched <;> rfl

theorem runSched_cfgs (sched : List Nat) : ∀ c : Cfg,
    (runSched c sched).2 = (List.range (sched.length + 1)).map (cfgAt c sched) := by
  induction sched with
  | nil => intro c; simp [runSched, cfgAt]
  | cons t rest ih =>
    intro c
    simp only [runSched, List.length_cons]
    rw [ih, List.range_succ_eq_map (n := rest.length + 1)]
    simp [cfgAt, Function.comp_def]

theorem runSched_hist (sched : List Nat) : ∀ c : Cfg,
    (runSched c sched).1 = (List.range sched.length).flatMap (evsAt c sched) := by
  induction sched with
  | nil => intro c; simp [runSched]
  | cons t rest ih =>
    intro c
    simp only [runSched, List.length_cons]
    rw [ih, List.range_succ_eq_map (n := rest.length)]
    simp [evsAt, List.flatMap_map, Function.comp_def]

/-- consecutive configurations are related by `Cfg.step`, which emits `evsAt` -/
theorem cfgAt_succ (sched : List Nat) : ∀ (c : Cfg) (m : Nat) (s : Nat), sched[m]? = some s →
    cfgAt c sched (m + 1) = ((cfgAt c sched m).step s).1 ∧ evsAt c sched m = ((cfgAt c sched m).step s).2 := by
  induction sched with
  | nil => intro c m s h; simp at h
  | cons t rest ih =>
    intro c m s h
    cases m with
    | zero =>
      simp only [List.getElem?_cons_zero, Option.some.injEq] at h
      subst h
      simp [cfgAt, evsAt, cfgAt_zero]
    | succ m =>
      simp only [List.getElem?_cons_succ] at h
      simpa [cfgAt, evsAt] using ih (c.step t).1 m s h

theorem evsAt_of_le (sched : List Nat) : ∀ (c : Cfg) (j : Nat), sched.length ≤ j → evsAt c sched j = [] := by
  induction sched with
  | nil => intro c j _; rfl
  | cons t rest ih =>
    intro c j h
    cases j with
    | zero => simp at h
    | succ j => simp only [evsAt]; exact ih _ j (by simpa using h)

theorem Inv.cfgAt {c : Cfg} (hi : Inv c) (sched : List Nat) (m : Nat) : Inv (cfgAt c sched m) := by
  induction sched generalizing c m with
  | nil => exact hi
  | cons t rest ih =>
    cases m with
    | zero => exact hi
    | succ m => exact ih (hi.step t) m

/-- thread `t` emits nothing at the steps strictly between `i` and `j` -/
def Quiet (c : Cfg) (sched : List Nat) (t i j : Nat) : Prop :=
  ∀ j', i < j' → j' < j → ∀ e ∈ evsAt c sched j', e.thread ≠ t

/-! ## (B) the window theorem -/

/-- the induction behind `get_window`, for a run from an arbitrary reachable configuration: a returning `get k` was either
    called inside this run, or was already between its two blocks at the start -/
theorem window_gen (t : Nat) (k : Bytes) (r : Option Bytes) (sched : List Nat) :
    ∀ (c : Cfg) (j : Nat), Inv c → Ev.ret t (.get k) r ∈ evsAt c sched j →
      (∃ i m, i ≤ m ∧ m ≤ j ∧ Ev.call t (.get k) ∈ evsAt c sched i ∧ Quiet c sched t i j ∧
          r = (cfgAt c sched m).abs k) ∨
      ((∃ th, c.threads[t]? = some th ∧ th.pc = .getDb k) ∧
        (∀ j', j' < j → ∀ e ∈ evsAt c sched j', e.thread ≠ t) ∧
        (r = alookup k c.p.db ∨ ∃ m, m ≤ j ∧ r = (cfgAt c sched m).abs k)) := by
  induction sched with
  | nil => intro c j _ h; simp [evsAt] at h
  | cons s rest ih =>
    intro c j hinv h
    have hstep := step_spec c s hinv.wf
    have hinv' : Inv (c.step s).1 := hinv.step s
    cases j with
    | zero =>
      simp only [evsAt] at h
      rcases hstep.ret_get h with ⟨hts, ⟨hcall, hr⟩ | ⟨th, hth, hpc, hr⟩⟩
      · left
        refine ⟨0, 0, Nat.le_refl _, Nat.le_refl _, ?_, ?_, ?_⟩
        · simpa [evsAt] using hcall
        · intro j' h1 h2; omega
        · simpa [cfgAt, Cfg.abs] using hr
      · right
        exact ⟨⟨th, hth, hpc⟩, by intro j' h1; omega, Or.inl hr⟩
    | succ j =>
      simp only [evsAt] at h
      rcases ih _ j hinv' h with ⟨i, m, him, hmj, hcall, hq, hr⟩ | ⟨⟨th, hth, hpc⟩, hq, hr⟩
      · left
        refine ⟨i + 1, m + 1, by omega, by omega, by simpa [evsAt] using hcall, ?_, by simpa [cfgAt] using hr⟩
        intro j' h1 h2 e he
        cases j' with
        | zero => omega
        | succ j' =>
          simp only [evsAt] at he
          exact hq j' (by omega) (by omega) e he
      · rcases hstep.at_getDb hth hpc with ⟨hts, hcall, hp, habs⟩ | ⟨hth0, hev⟩
        · -- the batch read missed at this very step
          left
          have hq' : Quiet c (s :: rest) t 0 (j + 1) := by
            intro j' h1 h2 e he
            cases j' with
            | zero => omega
            | succ j' =>
              simp only [evsAt] at he
              exact hq j' (by omega) e he
          rcases hr with hr | ⟨m, hm, hr⟩
          · refine ⟨0, 0, Nat.le_refl _, by omega, by simpa [evsAt] using hcall, hq', ?_⟩
            rw [hr, hp, ← habs]
            simp [cfgAt, Cfg.abs]
          · exact ⟨0, m + 1, by omega, by omega, by simpa [evsAt] using hcall, hq', by simpa [cfgAt] using hr⟩
        · -- the thread was already between its two blocks
          right
          refine ⟨⟨th, hth0, hpc⟩, ?_, ?_⟩
          · intro j' h1 e he
            cases j' with
            | zero => simp only [evsAt] at he; exact hev e he
            | succ j' =>
              simp only [evsAt] at he
              exact hq j' (by omega) e he
          · rcases hr with hr | ⟨m, hm, hr⟩
            · rcases hstep.db hinv.cinv k with hdb | hdb
              · left; rw [hr, hdb]
              · right
                refine ⟨0, by omega, ?_⟩
                rw [hr, hdb]
                simp [cfgAt, Cfg.abs]
            · right
              exact ⟨m + 1, by omega, by simpa [cfgAt] using hr⟩

/-- **C11, reads.**  Run any programs under any schedule from the initial configuration; number the steps (blocks) of the
    schedule `0, 1, …`; `cfgAt … m` is the configuration before step `m`, `evsAt … j` the events emitted by step `j`
    (`runSched_cfgs`, `runSched_hist`: these are the configurations and the history `runSched` returns).

    If step `j` emits the return of a `get k` of thread `t` with result `r`, then there is a step `i ≤ j` that emitted
    the call of this `get k` (thread `t` emits nothing strictly between `i` and `j`, so it is the call of this very
    operation) and a configuration number `m` with `i ≤ m ≤ j` — i.e. a configuration between the block that issued the call
    and the block that issued the return — whose logical value of `k` is exactly `r`. -/
theorem get_window (maxBatch : Nat) (progs : List (List Op)) (sched : List Nat) (j t : Nat) (k : Bytes)
    (r : Option Bytes) (hret : Ev.ret t (.get k) r ∈ evsAt (Cfg.init maxBatch progs) sched j) :
    ∃ i m, i ≤ m ∧ m ≤ j ∧ Ev.call t (.get k) ∈ evsAt (Cfg.init maxBatch progs) sched i ∧
      Quiet (Cfg.init maxBatch progs) sched t i j ∧ r = (cfgAt (Cfg.init maxBatch progs) sched m).abs k := by
  rcases window_gen t k r sched _ j (Inv.init maxBatch progs) hret with h | ⟨⟨th, hth, hpc⟩, _, _⟩
  · exact h
  · exfalso
    simp only [Cfg.init, List.getElem?_map] at hth
    cases hp : progs[t]? with
    | none => simp [hp] at hth
    | some a =>
      simp only [hp, Option.map_some, Option.some.injEq] at hth
      subst hth
      simp at hpc

end SV.Conc
