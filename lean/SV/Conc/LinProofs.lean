/-
  SV.Conc.LinProofs — C11: under any interleaving of the critical sections of the LevelDB persister every operation
  appears to take effect atomically at one instant between its call and its return.

  (A) facts about the blocks (invariant `CInv`, effect of every block on the logical map `P.abs` and on `db`)
  (B) the window theorem for reads (`get_window`) and its corollaries
  (C) linearization points and the sequential replay (`linearizable`)
-/
import SV.Conc.PersistConc
import SV.Persist.Proofs
namespace SV.Conc
open SV SV.Persist

/-! ## (A) the blocks -/

/-- the first block of Put / Remove is exactly the pre-bump state of the sequential model -/
theorem batchPut_eq (p : P) (k v : Bytes) : batchPut p k v = putPre p k ⟨false, v⟩ := rfl
theorem batchDelete_eq (p : P) (k : Bytes) : batchDelete p k = rmPre p k := rfl

/-- the invariant of the shared state between blocks: like BInv but sizeBatch may lag/lead the number of batched ops,
    because a put's two blocks can be separated by other threads' blocks -/
structure CInv (p : P) : Prop where
  disjoint : ∀ k, k ∈ p.removed → alookup k p.cached = none
  replay : ∀ k, alookup k (applyBatch p.db p.ops) = p.abs k
  dbNodup : (p.db.map (·.1)).Nodup

theorem CInv.init (maxBatch : Nat) : CInv (P.init maxBatch []) where
  disjoint := by intro k hk; simp [P.init] at hk
  replay := by intro k; simp [P.init, P.abs, applyBatch, alookup]
  dbNodup := by simp [P.init]

/-- `sizeBatch` is irrelevant for the invariant -/
theorem CInv.setSize (p : P) (n : Nat) (h : CInv p) : CInv { p with sizeBatch := n } :=
  ⟨h.disjoint, h.replay, h.dbNodup⟩

theorem CInv.batchPut (p : P) (k v : Bytes) (h : CInv p) : CInv (batchPut p k v) where
  disjoint := by
    intro x hx
    have hx' : x ∈ p.removed ∧ x ≠ k := by simpa [Conc.batchPut, List.mem_filter] using hx
    show alookup x (aset k ⟨false, v⟩ p.cached) = none
    rw [alookup_aset_ne hx'.2]
    exact h.disjoint x hx'.1
  replay := by
    intro x
    rw [batchPut_eq, abs_putPre]
    show alookup x (applyBatch p.db (p.ops ++ [.put k v])) = _
    rw [applyBatch_snoc]
    show alookup x (aset k v (applyBatch p.db p.ops)) = _
    by_cases hx : x = k
    · subst hx
      rw [alookup_aset_self, if_pos rfl]
    · rw [alookup_aset_ne hx, if_neg hx]
      exact h.replay x
  dbNodup := h.dbNodup

theorem CInv.batchDelete (p : P) (k : Bytes) (h : CInv p) : CInv (batchDelete p k) where
  disjoint := by
    intro x hx
    show alookup x (aerase k p.cached) = none
    rw [batchDelete_eq] at hx
    rcases (mem_rmPre_removed p k x).mp hx with hx | hx
    · subst hx
      exact alookup_aerase_self _ _
    · by_cases hk : x = k
      · subst hk
        exact alookup_aerase_self _ _
      · rw [alookup_aerase_ne hk]
        exact h.disjoint x hx
  replay := by
    intro x
    rw [batchDelete_eq, abs_rmPre]
    show alookup x (applyBatch p.db (p.ops ++ [.del k])) = _
    rw [applyBatch_snoc]
    show alookup x (aerase k (applyBatch p.db p.ops)) = _
    by_cases hx : x = k
    · subst hx
      rw [alookup_aerase_self, if_pos rfl]
    · rw [alookup_aerase_ne hx, if_neg hx]
      exact h.replay x
  dbNodup := h.dbNodup

theorem CInv.flush (p : P) (h : CInv p) : CInv p.flush where
  disjoint := by intro k hk; simp [P.flush] at hk
  replay := by
    intro k
    rw [abs_flush_eq]
    simp [P.flush, applyBatch]
  dbNodup := nodup_applyBatch p.ops p.db h.dbNodup

theorem CInv.bump (p : P) (h : CInv p) : CInv p.bump := by
  unfold P.bump
  dsimp only
  split
  · exact CInv.setSize p _ h
  · exact CInv.flush _ (CInv.setSize p _ h)

/-- a flush — by size or by the timer — never changes the logical map -/
theorem abs_flush' (p : P) (k : Bytes) (h : CInv p) : p.flush.abs k = p.abs k := by
  rw [abs_flush_eq]; exact h.replay k

theorem abs_bump' (p : P) (k : Bytes) (h : CInv p) : p.bump.abs k = p.abs k := by
  unfold P.bump
  dsimp only
  split
  · rfl
  · rw [abs_flush_eq]
    exact h.replay k

/-- writes take effect atomically at their first block, by exactly that write -/
theorem abs_batchPut (p : P) (k k' v : Bytes) (_h : CInv p) :
    (batchPut p k v).abs k' = if k' = k then some v else p.abs k' := by
  rw [batchPut_eq, abs_putPre]

theorem abs_batchDelete (p : P) (k k' : Bytes) (_h : CInv p) :
    (batchDelete p k).abs k' = if k' = k then none else p.abs k' := by
  rw [batchDelete_eq, abs_rmPre]

/-- a batch read that answers, answers the logical map; a miss means the logical value is the db value -/
theorem batchRead_some (p : P) (k : Bytes) (r : Option Bytes) (h : batchRead p k = some r) : r = p.abs k := by
  unfold batchRead at h
  unfold P.abs
  split at h
  · rename_i hc
    rw [if_pos hc]
    simpa using h.symm
  · rename_i hc
    rw [if_neg hc]
    split at h
    · rename_i v hv
      rw [hv]
      simpa using h.symm
    · simp at h

theorem batchRead_none (p : P) (k : Bytes) (h : batchRead p k = none) : p.abs k = alookup k p.db := by
  unfold batchRead at h
  unfold P.abs
  split at h
  · simp at h
  · rename_i hc
    rw [if_neg hc]
    split at h
    · simp at h
    · rename_i hv
      rw [hv]

/-- the db value of a key changes only at a flush, and then to the logical value of that moment -/
theorem db_after_flush (p : P) (k : Bytes) (h : CInv p) : alookup k p.flush.db = p.abs k :=
  h.replay k

/-- the db value of a key after the second block of a write: unchanged, or the logical value of that moment -/
theorem db_after_bump (p : P) (k : Bytes) (h : CInv p) :
    alookup k p.bump.db = alookup k p.db ∨ alookup k p.bump.db = p.abs k := by
  unfold P.bump
  dsimp only
  split
  · exact Or.inl rfl
  · exact Or.inr (h.replay k)

/-! ## one scheduling step, by cases -/

def Op.isWrite : Op → Bool
  | .get _ => false
  | _ => true

def Ev.thread : Ev → Nat
  | .call t _ => t
  | .ret t _ _ => t
  | .tau t => t

/-- program counter and current operation of a thread agree -/
def Good (th : Thread) (cur : Option Op) : Prop :=
  (th.pc = .idle ∧ cur = none) ∨ (th.pc = .putBump ∧ ∃ op, cur = some op ∧ op.isWrite = true) ∨
  (∃ k, th.pc = .getDb k ∧ cur = some (.get k))

def WF (c : Cfg) : Prop :=
  ∀ (t : Nat) (th : Thread) (cur : Option Op), c.threads[t]? = some th → c.cur[t]? = some cur → Good th cur

/-- `Cfg.step` by cases (for well-formed configurations) -/
inductive Step (c : Cfg) (s : Nat) : Cfg → List Ev → Prop
  | timer (h : s = c.threads.length) : Step c s { c with p := c.p.flush } [.tau s]
  | skip : Step c s c []
  | bump (th : Thread) (op : Op) (h1 : c.threads[s]? = some th) (h2 : c.cur[s]? = some (some op))
      (hpc : th.pc = .putBump) (hw : op.isWrite = true) :
      Step c s ⟨c.p.bump, c.threads.set s { th with pc := .idle }, c.cur.set s none⟩ [.ret s op none]
  | retDb (th : Thread) (k : Bytes) (h1 : c.threads[s]? = some th) (h2 : c.cur[s]? = some (some (.get k)))
      (hpc : th.pc = .getDb k) :
      Step c s ⟨c.p, c.threads.set s { th with pc := .idle }, c.cur.set s none⟩ [.ret s (.get k) (alookup k c.p.db)]
  | put (th : Thread) (k v : Bytes) (rest : List Op) (h1 : c.threads[s]? = some th) (h2 : c.cur[s]? = some none)
      (hpc : th.pc = .idle) (htodo : th.todo = .put k v :: rest) :
      Step c s ⟨batchPut c.p k v, c.threads.set s ⟨rest, .putBump⟩, c.cur.set s (some (.put k v))⟩ [.call s (.put k v)]
  | rm (th : Thread) (k : Bytes) (rest : List Op) (h1 : c.threads[s]? = some th) (h2 : c.cur[s]? = some none)
      (hpc : th.pc = .idle) (htodo : th.todo = .rm k :: rest) :
      Step c s ⟨batchDelete c.p k, c.threads.set s ⟨rest, .putBump⟩, c.cur.set s (some (.rm k))⟩ [.call s (.rm k)]
  | getHit (th : Thread) (k : Bytes) (rest : List Op) (r : Option Bytes) (h1 : c.threads[s]? = some th)
      (h2 : c.cur[s]? = some none) (hpc : th.pc = .idle) (htodo : th.todo = .get k :: rest)
      (hr : batchRead c.p k = some r) :
      Step c s ⟨c.p, c.threads.set s ⟨rest, .idle⟩, c.cur.set s none⟩ [.call s (.get k), .ret s (.get k) r]
  | getMiss (th : Thread) (k : Bytes) (rest : List Op) (h1 : c.threads[s]? = some th)
      (h2 : c.cur[s]? = some none) (hpc : th.pc = .idle) (htodo : th.todo = .get k :: rest)
      (hr : batchRead c.p k = none) :
      Step c s ⟨c.p, c.threads.set s ⟨rest, .getDb k⟩, c.cur.set s (some (.get k))⟩ [.call s (.get k)]

theorem set_eq_self {α : Type} (l : List α) (i : Nat) (a : α) (h : l[i]? = some a) : l.set i a = l := by
  induction l generalizing i with
  | nil => rfl
  | cons x r ih =>
    cases i with
    | zero => simp at h; simp [h]
    | succ i => simp at h; simp [ih i h]

theorem step_thread_eq (c : Cfg) (t : Nat) (th : Thread) (cur : Option Op) (ht : t ≠ c.threads.length)
    (h1 : c.threads[t]? = some th) (h2 : c.cur[t]? = some cur) :
    c.step t = ({ p := (stepThread c.p t th cur).1, threads := c.threads.set t (stepThread c.p t th cur).2.1,
                  cur := c.cur.set t (stepThread c.p t th cur).2.2.1 }, (stepThread c.p t th cur).2.2.2) := by
  unfold Cfg.step
  rw [if_neg ht]
  simp only [h1, h2]

theorem step_spec (c : Cfg) (s : Nat) (hwf : WF c) : Step c s (c.step s).1 (c.step s).2 := by
  by_cases ht : s = c.threads.length
  · have : c.step s = ({ c with p := c.p.flush }, [.tau s]) := by
      unfold Cfg.step; rw [if_pos ht]
    rw [this]
    exact Step.timer ht
  · cases h1 : c.threads[s]? with
    | none =>
      have : c.step s = (c, []) := by
        unfold Cfg.step; rw [if_neg ht]; simp only [h1]
      rw [this]; exact Step.skip
    | some th =>
      cases h2 : c.cur[s]? with
      | none =>
        have : c.step s = (c, []) := by
          unfold Cfg.step; rw [if_neg ht]; simp only [h1, h2]
        rw [this]; exact Step.skip
      | some cur =>
        rw [step_thread_eq c s th cur ht h1 h2]
        obtain ⟨todo, pc⟩ := th
        rcases hwf s _ cur h1 h2 with ⟨hpc, hcur⟩ | ⟨hpc, op, hcur, hw⟩ | ⟨k, hpc, hcur⟩
        · dsimp only at hpc
          subst hpc hcur
          cases todo with
          | nil =>
            simp only [stepThread]
            rw [set_eq_self _ _ _ h1, set_eq_self _ _ _ h2]
            exact Step.skip
          | cons op rest =>
            cases op with
            | put k v =>
              simp only [stepThread]
              exact Step.put _ k v rest h1 h2 rfl rfl
            | rm k =>
              simp only [stepThread]
              exact Step.rm _ k rest h1 h2 rfl rfl
            | get k =>
              cases hr : batchRead c.p k with
              | none =>
                simp only [stepThread, hr]
                exact Step.getMiss _ k rest h1 h2 rfl rfl hr
              | some r =>
                simp only [stepThread, hr]
                exact Step.getHit _ k rest r h1 h2 rfl rfl hr
        · dsimp only at hpc
          subst hpc hcur
          simp only [stepThread]
          exact Step.bump _ op h1 h2 rfl hw
        · dsimp only at hpc
          subst hpc hcur
          simp only [stepThread]
          exact Step.retDb _ k h1 h2 rfl

/-! ## the invariant of reachable configurations -/

structure Inv (c : Cfg) : Prop where
  cinv : CInv c.p
  wf : WF c

theorem WF.set (c : Cfg) (p' : P) (s : Nat) (th' : Thread) (cur' : Option Op) (hwf : WF c) (hg : Good th' cur') :
    WF ⟨p', c.threads.set s th', c.cur.set s cur'⟩ := by
  intro t th cur h1 h2
  dsimp only at h1 h2
  by_cases hts : s = t
  · subst hts
    rw [List.getElem?_set] at h1 h2
    simp only [if_true] at h1 h2
    split at h1
    · split at h2
      · simp only [Option.some.injEq] at h1 h2
        subst h1 h2
        exact hg
      · simp at h2
    · simp at h1
  · rw [List.getElem?_set_ne hts] at h1 h2
    exact hwf t th cur h1 h2

theorem Step.inv {c c' : Cfg} {s : Nat} {evs : List Ev} (h : Step c s c' evs) (hi : Inv c) : Inv c' := by
  cases h with
  | timer _ => exact ⟨CInv.flush _ hi.cinv, fun t th cur h1 h2 => hi.wf t th cur h1 h2⟩
  | skip => exact hi
  | bump th op h1 h2 hpc hw => exact ⟨CInv.bump _ hi.cinv, WF.set c _ s _ _ hi.wf (Or.inl ⟨rfl, rfl⟩)⟩
  | retDb th k h1 h2 hpc => exact ⟨hi.cinv, WF.set c _ s _ _ hi.wf (Or.inl ⟨rfl, rfl⟩)⟩
  | put th k v rest h1 h2 hpc htodo =>
    exact ⟨CInv.batchPut _ k v hi.cinv, WF.set c _ s _ _ hi.wf (Or.inr (Or.inl ⟨rfl, _, rfl, rfl⟩))⟩
  | rm th k rest h1 h2 hpc htodo =>
    exact ⟨CInv.batchDelete _ k hi.cinv, WF.set c _ s _ _ hi.wf (Or.inr (Or.inl ⟨rfl, _, rfl, rfl⟩))⟩
  | getHit th k rest r h1 h2 hpc htodo hr => exact ⟨hi.cinv, WF.set c _ s _ _ hi.wf (Or.inl ⟨rfl, rfl⟩)⟩
  | getMiss th k rest h1 h2 hpc htodo hr => exact ⟨hi.cinv, WF.set c _ s _ _ hi.wf (Or.inr (Or.inr ⟨k, rfl, rfl⟩))⟩

theorem Inv.init (maxBatch : Nat) (progs : List (List Op)) : Inv (Cfg.init maxBatch progs) := by
  refine ⟨CInv.init maxBatch, ?_⟩
  intro t th cur h1 h2
  simp only [Cfg.init, List.getElem?_map] at h1 h2
  cases hp : progs[t]? with
  | none => simp [hp] at h1
  | some a =>
    simp only [hp, Option.map_some, Option.some.injEq] at h1 h2
    subst h1 h2
    exact Or.inl ⟨rfl, rfl⟩

theorem Inv.step {c : Cfg} (s : Nat) (hi : Inv c) : Inv (c.step s).1 := (step_spec c s hi.wf).inv hi

/-! ### what one step can do -/

/-- a block emits events of its own thread only -/
theorem Step.thread_of_ev {c c' : Cfg} {s : Nat} {evs : List Ev} (h : Step c s c' evs) (e : Ev) (he : e ∈ evs) :
    e.thread = s := by
  cases h with
  | skip => simp at he
  | getHit th k rest r h1 h2 hpc htodo hr =>
    simp only [List.mem_cons, List.mem_nil_iff, or_false] at he
    rcases he with he | he <;> subst he <;> rfl
  | _ => simp only [List.mem_singleton] at he; subst he; rfl

/-- the db value of a key after any block: unchanged, or the logical value at that moment (a flush) -/
theorem Step.db {c c' : Cfg} {s : Nat} {evs : List Ev} (h : Step c s c' evs) (hc : CInv c.p) (k : Bytes) :
    alookup k c'.p.db = alookup k c.p.db ∨ alookup k c'.p.db = c.p.abs k := by
  cases h with
  | timer _ => exact Or.inr (db_after_flush _ k hc)
  | bump th op h1 h2 hpc hw => exact db_after_bump _ k hc
  | _ => exact Or.inl rfl

/-- a returning `get k` either was answered by the batch in this very block (the logical value of this moment) or
    returns the current db value from its second block -/
theorem Step.ret_get {c c' : Cfg} {s : Nat} {evs : List Ev} (h : Step c s c' evs) {t : Nat} {k : Bytes}
    {r : Option Bytes} (he : Ev.ret t (.get k) r ∈ evs) :
    t = s ∧ ((evs = [.call t (.get k), .ret t (.get k) r] ∧ r = c.p.abs k) ∨
             (evs = [.ret t (.get k) r] ∧ ∃ th, c.threads[t]? = some th ∧ th.pc = .getDb k ∧ r = alookup k c.p.db)) := by
  cases h with
  | timer _ => simp at he
  | skip => simp at he
  | bump th op h1 h2 hpc hw =>
    simp only [List.mem_singleton, Ev.ret.injEq] at he
    obtain ⟨_, hop, _⟩ := he
    subst hop
    simp [Op.isWrite] at hw
  | retDb th k' h1 h2 hpc =>
    simp only [List.mem_singleton, Ev.ret.injEq, Op.get.injEq] at he
    obtain ⟨hts, hk, hr⟩ := he
    subst hts hk hr
    exact ⟨rfl, Or.inr ⟨rfl, th, h1, hpc, rfl⟩⟩
  | put th k' v rest h1 h2 hpc htodo => simp at he
  | rm th k' rest h1 h2 hpc htodo => simp at he
  | getHit th k' rest r' h1 h2 hpc htodo hr =>
    simp only [List.mem_cons, List.mem_nil_iff, or_false, Ev.ret.injEq, Op.get.injEq, reduceCtorEq, false_or] at he
    obtain ⟨hts, hk, hr'⟩ := he
    subst hts hk hr'
    exact ⟨rfl, Or.inl ⟨rfl, batchRead_some _ _ _ hr⟩⟩
  | getMiss th k' rest h1 h2 hpc htodo hr => simp at he

/-- a thread found between the two blocks of a `get k`: either the batch read missed in this very step, or the thread
    was there before and the step belongs to somebody else -/
theorem Step.at_getDb {c c' : Cfg} {s : Nat} {evs : List Ev} (h : Step c s c' evs) {t : Nat} {th' : Thread}
    {k : Bytes} (h1' : c'.threads[t]? = some th') (hpc' : th'.pc = .getDb k) :
    (t = s ∧ evs = [.call t (.get k)] ∧ c'.p = c.p ∧ c.p.abs k = alookup k c.p.db) ∨
    (c.threads[t]? = some th' ∧ ∀ e ∈ evs, e.thread ≠ t) := by
  have hlt : c.threads[t]? = some th' → t ≠ c.threads.length := by
    intro h e
    rw [e] at h
    simp at h
  have key : ∀ (p' : P) (thn : Thread) (curn : Option Op) (evs : List Ev),
      (∀ e ∈ evs, e.thread = s) → (c.threads.set s thn)[t]? = some th' →
      (∀ kk, thn.pc ≠ .getDb kk) → (c.threads[t]? = some th' ∧ ∀ e ∈ evs, e.thread ≠ t) := by
    intro p' thn curn evs hev hget hno
    by_cases hts : s = t
    · subst hts
      rw [List.getElem?_set] at hget
      simp only [if_true] at hget
      split at hget
      · simp only [Option.some.injEq] at hget
        subst hget
        exact absurd hpc' (hno k)
      · simp at hget
    · rw [List.getElem?_set_ne hts] at hget
      exact ⟨hget, fun e he => by rw [hev e he]; exact hts⟩
  cases h with
  | timer hs =>
    right
    refine ⟨h1', ?_⟩
    intro e he
    simp only [List.mem_singleton] at he
    subst he
    show s ≠ t
    rw [hs]
    exact fun e => hlt h1' e.symm
  | skip => exact Or.inr ⟨h1', by simp⟩
  | bump th op h1 h2 hpc hw =>
    exact Or.inr (key c.p.bump _ none _ (fun e he => by simp at he; subst he; rfl) h1' (by simp))
  | retDb th k' h1 h2 hpc =>
    exact Or.inr (key c.p _ none _ (fun e he => by simp at he; subst he; rfl) h1' (by simp))
  | put th k' v rest h1 h2 hpc htodo =>
    exact Or.inr (key c.p _ none _ (fun e he => by simp at he; subst he; rfl) h1' (by simp))
  | rm th k' rest h1 h2 hpc htodo =>
    exact Or.inr (key c.p _ none _ (fun e he => by simp at he; subst he; rfl) h1' (by simp))
  | getHit th k' rest r' h1 h2 hpc htodo hr =>
    exact Or.inr (key c.p _ none _
      (fun e he => by simp at he; rcases he with he | he <;> subst he <;> rfl) h1' (by simp))
  | getMiss th k' rest h1 h2 hpc htodo hr =>
    by_cases hts : s = t
    · subst hts
      dsimp only at h1'
      rw [List.getElem?_set] at h1'
      simp only [if_true] at h1'
      split at h1'
      · simp only [Option.some.injEq] at h1'
        subst h1'
        simp only [Pc.getDb.injEq] at hpc'
        subst hpc'
        exact Or.inl ⟨rfl, rfl, rfl, batchRead_none _ _ hr⟩
      · simp at h1'
    · dsimp only at h1'
      rw [List.getElem?_set_ne hts] at h1'
      exact Or.inr ⟨h1', fun e he => by simp at he; subst he; exact hts⟩

/-! ## runs, indexed by step number

  `cfgAt c sched m` is the configuration reached from `c` after the first `m` scheduling choices of `sched`
  (the final configuration when `m ≥ sched.length`); `evsAt c sched j` is the list of events emitted by step number `j`,
  i.e. by the block that leads from `cfgAt c sched j` to `cfgAt c sched (j+1)`.  `runSched_cfgs` / `runSched_hist` show that
  these are exactly the configurations and the history returned by `runSched`. -/

def cfgAt (c : Cfg) : List Nat → Nat → Cfg
  | [], _ => c
  | _ :: _, 0 => c
  | t :: rest, m + 1 => cfgAt (c.step t).1 rest m

def evsAt (c : Cfg) : List Nat → Nat → List Ev
  | [], _ => []
  | t :: _, 0 => (c.step t).2
  | t :: rest, j + 1 => evsAt (c.step t).1 rest j

theorem cfgAt_zero (c : Cfg) (sched : List Nat) : cfgAt c sched 0 = c := by
  cases sched <;> rfl

theorem runSched_cfgs (sched : List Nat) : ∀ c : Cfg,
    (runSched c sched).2 = (List.range (sched.length + 1)).map (cfgAt c sched) := by
  induction sched with
  | nil => intro c; simp [runSched, cfgAt]
  | cons t rest ih =>
    intro c
    simp only [runSched, List.length_cons]
    rw [ih, List.range_succ_eq_map (n := rest.length + 1)]
    simp [cfgAt, Function.comp_def]

theorem runSched_cfgs_get (c : Cfg) (sched : List Nat) (m : Nat) (h : m ≤ sched.length) :
    (runSched c sched).2[m]? = some (cfgAt c sched m) := by
  rw [runSched_cfgs, List.getElem?_map, List.getElem?_range (by omega)]
  rfl

theorem runSched_hist (sched : List Nat) : ∀ c : Cfg,
    (runSched c sched).1 = (List.range sched.length).flatMap (evsAt c sched) := by
  induction sched with
  | nil => intro c; simp [runSched]
  | cons t rest ih =>
    intro c
    simp only [runSched, List.length_cons]
    rw [ih, List.range_succ_eq_map (n := rest.length)]
    simp [evsAt, List.flatMap_map]

/-- consecutive configurations are related by `Cfg.step`, which emits `evsAt` -/
theorem cfgAt_succ (sched : List Nat) : ∀ (c : Cfg) (m : Nat) (s : Nat), sched[m]? = some s →
    cfgAt c sched (m + 1) = ((cfgAt c sched m).step s).1 ∧ evsAt c sched m = ((cfgAt c sched m).step s).2 := by
  induction sched with
  | nil => intro c m s h; simp at h
  | cons t rest ih =>
    intro c m s h
    cases m with
    | zero =>
      simp only [List.getElem?_cons_zero, Option.some.injEq] at h
      subst h
      simp [cfgAt, evsAt, cfgAt_zero]
    | succ m =>
      simp only [List.getElem?_cons_succ] at h
      simpa [cfgAt, evsAt] using ih (c.step t).1 m s h

theorem evsAt_of_le (sched : List Nat) : ∀ (c : Cfg) (j : Nat), sched.length ≤ j → evsAt c sched j = [] := by
  induction sched with
  | nil => intro c j _; rfl
  | cons t rest ih =>
    intro c j h
    cases j with
    | zero => simp at h
    | succ j => simp only [evsAt]; exact ih _ j (by simpa using h)

theorem Inv.cfgAt {c : Cfg} (hi : Inv c) (sched : List Nat) (m : Nat) : Inv (cfgAt c sched m) := by
  induction sched generalizing c m with
  | nil => exact hi
  | cons t rest ih =>
    cases m with
    | zero => exact hi
    | succ m => exact ih (hi.step t) m

/-- **call and return of one `get`.**  Step `i` emitted the call and step `j` the return (with result `r`) of one and
    the same `get k` of thread `t`: either the get was answered by the batch, in which case one block emitted both events
    (`i = j`), or step `i` emitted just the call (the batch read missed), step `j > i` just the return (the db read), and
    thread `t` emitted nothing in between. -/
def CallRet (c : Cfg) (sched : List Nat) (t : Nat) (k : Bytes) (r : Option Bytes) (i j : Nat) : Prop :=
  (i = j ∧ evsAt c sched j = [.call t (.get k), .ret t (.get k) r]) ∨
  (i < j ∧ evsAt c sched i = [.call t (.get k)] ∧ evsAt c sched j = [.ret t (.get k) r] ∧
    ∀ j', i < j' → j' < j → ∀ e ∈ evsAt c sched j', e.thread ≠ t)

theorem CallRet.le {c : Cfg} {sched : List Nat} {t : Nat} {k : Bytes} {r : Option Bytes} {i j : Nat}
    (h : CallRet c sched t k r i j) : i ≤ j := by
  rcases h with ⟨h, _⟩ | ⟨h, _⟩ <;> omega

theorem CallRet.call_mem {c : Cfg} {sched : List Nat} {t : Nat} {k : Bytes} {r : Option Bytes} {i j : Nat}
    (h : CallRet c sched t k r i j) : Ev.call t (.get k) ∈ evsAt c sched i := by
  rcases h with ⟨rfl, h⟩ | ⟨_, h, _⟩ <;> rw [h] <;> simp

theorem CallRet.ret_mem {c : Cfg} {sched : List Nat} {t : Nat} {k : Bytes} {r : Option Bytes} {i j : Nat}
    (h : CallRet c sched t k r i j) : Ev.ret t (.get k) r ∈ evsAt c sched j := by
  rcases h with ⟨_, h⟩ | ⟨_, _, h, _⟩ <;> rw [h] <;> simp

theorem CallRet.shift {c : Cfg} {s : Nat} {rest : List Nat} {t : Nat} {k : Bytes} {r : Option Bytes} {i j : Nat}
    (h : CallRet (c.step s).1 rest t k r i j) : CallRet c (s :: rest) t k r (i + 1) (j + 1) := by
  rcases h with ⟨rfl, h⟩ | ⟨hij, h1, h2, hq⟩
  · exact Or.inl ⟨rfl, by simpa [evsAt] using h⟩
  · refine Or.inr ⟨by omega, by simpa [evsAt] using h1, by simpa [evsAt] using h2, ?_⟩
    intro j' h1' h2' e he
    cases j' with
    | zero => omega
    | succ j' =>
      simp only [evsAt] at he
      exact hq j' (by omega) (by omega) e he

/-! ## (B) the window theorem -/

/-- the induction behind `get_window`, for a run from an arbitrary reachable configuration: a returning `get k` was either
    called inside this run, or was already between its two blocks at the start -/
theorem window_gen (t : Nat) (k : Bytes) (r : Option Bytes) (sched : List Nat) :
    ∀ (c : Cfg) (j : Nat), Inv c → Ev.ret t (.get k) r ∈ evsAt c sched j →
      (∃ i m, i ≤ m ∧ m ≤ j ∧ CallRet c sched t k r i j ∧ r = (cfgAt c sched m).abs k) ∨
      ((∃ th, c.threads[t]? = some th ∧ th.pc = .getDb k) ∧ evsAt c sched j = [.ret t (.get k) r] ∧
        (∀ j', j' < j → ∀ e ∈ evsAt c sched j', e.thread ≠ t) ∧
        (r = alookup k c.p.db ∨ ∃ m, m ≤ j ∧ r = (cfgAt c sched m).abs k)) := by
  induction sched with
  | nil => intro c j _ h; simp [evsAt] at h
  | cons s rest ih =>
    intro c j hinv h
    have hstep := step_spec c s hinv.wf
    have hinv' : Inv (c.step s).1 := hinv.step s
    cases j with
    | zero =>
      simp only [evsAt] at h
      rcases hstep.ret_get h with ⟨hts, ⟨hevs, hr⟩ | ⟨hevs, th, hth, hpc, hr⟩⟩
      · left
        refine ⟨0, 0, Nat.le_refl _, Nat.le_refl _, Or.inl ⟨rfl, ?_⟩, ?_⟩
        · simpa [evsAt] using hevs
        · simpa [cfgAt, Cfg.abs] using hr
      · right
        exact ⟨⟨th, hth, hpc⟩, by simpa [evsAt] using hevs, by intro j' h1; omega, Or.inl hr⟩
    | succ j =>
      simp only [evsAt] at h
      rcases ih _ j hinv' h with ⟨i, m, him, hmj, hcr, hr⟩ | ⟨⟨th, hth, hpc⟩, hevs, hq, hr⟩
      · left
        exact ⟨i + 1, m + 1, by omega, by omega, hcr.shift, by simpa [cfgAt] using hr⟩
      · rcases hstep.at_getDb hth hpc with ⟨hts, hcall, hp, habs⟩ | ⟨hth0, hev⟩
        · -- the batch read missed at this very step
          left
          have hcr : CallRet c (s :: rest) t k r 0 (j + 1) := by
            refine Or.inr ⟨by omega, by simpa [evsAt] using hcall, by simpa [evsAt] using hevs, ?_⟩
            intro j' h1 h2 e he
            cases j' with
            | zero => omega
            | succ j' =>
              simp only [evsAt] at he
              exact hq j' (by omega) e he
          rcases hr with hr | ⟨m, hm, hr⟩
          · refine ⟨0, 0, Nat.le_refl _, by omega, hcr, ?_⟩
            rw [hr, hp, ← habs]
            simp [cfgAt, Cfg.abs]
          · exact ⟨0, m + 1, by omega, by omega, hcr, by simpa [cfgAt] using hr⟩
        · -- the thread was already between its two blocks
          right
          refine ⟨⟨th, hth0, hpc⟩, by simpa [evsAt] using hevs, ?_, ?_⟩
          · intro j' h1 e he
            cases j' with
            | zero => simp only [evsAt] at he; exact hev e he
            | succ j' =>
              simp only [evsAt] at he
              exact hq j' (by omega) e he
          · rcases hr with hr | ⟨m, hm, hr⟩
            · rcases hstep.db hinv.cinv k with hdb | hdb
              · left; rw [hr, hdb]
              · right
                refine ⟨0, by omega, ?_⟩
                rw [hr, hdb]
                simp [cfgAt, Cfg.abs]
            · right
              exact ⟨m + 1, by omega, by simpa [cfgAt] using hr⟩

/-- **C11, reads.**  Run any programs under any schedule from the initial configuration; number the steps (blocks) of the
    schedule `0, 1, …`; `cfgAt … m` is the configuration before step `m`, `evsAt … j` the events emitted by step `j`
    (`runSched_cfgs`, `runSched_hist`: these are the configurations and the history `runSched` returns).

    If step `j` emits the return of a `get k` of thread `t` with result `r`, then there is a step `i ≤ j` that emitted
    the call of this very operation (`CallRet`) and a configuration number `m` with `i ≤ m ≤ j` — i.e. a configuration
    between the block that issued the call and the block that issued the return — whose logical value of `k` is exactly `r`.
    (No assumption on `maxBatch`: it also holds for `maxBatch = 0`, where every bump flushes.) -/
theorem get_window (maxBatch : Nat) (progs : List (List Op)) (sched : List Nat) (j t : Nat) (k : Bytes)
    (r : Option Bytes) (hret : Ev.ret t (.get k) r ∈ evsAt (Cfg.init maxBatch progs) sched j) :
    ∃ i m, i ≤ m ∧ m ≤ j ∧ CallRet (Cfg.init maxBatch progs) sched t k r i j ∧
      r = (cfgAt (Cfg.init maxBatch progs) sched m).abs k := by
  rcases window_gen t k r sched _ j (Inv.init maxBatch progs) hret with h | ⟨⟨th, hth, hpc⟩, _, _⟩
  · exact h
  · exfalso
    simp only [Cfg.init, List.getElem?_map] at hth
    cases hp : progs[t]? with
    | none => simp [hp] at hth
    | some a =>
      simp only [hp, Option.map_some, Option.some.injEq] at hth
      subst hth
      simp at hpc

/-! ### corollaries: stable windows, read-after-write, monotone reads -/

/-- every step of a run from a reachable configuration is one of the cases of `Step` (past the end of the schedule: `skip`) -/
theorem step_at (sched : List Nat) : ∀ (c : Cfg) (m : Nat), Inv c →
    ∃ s, Step (cfgAt c sched m) s (cfgAt c sched (m + 1)) (evsAt c sched m) := by
  induction sched with
  | nil => intro c m _; exact ⟨0, Step.skip⟩
  | cons t rest ih =>
    intro c m hi
    cases m with
    | zero =>
      refine ⟨t, ?_⟩
      simp only [cfgAt, evsAt, cfgAt_zero]
      exact step_spec c t hi.wf
    | succ m =>
      simp only [cfgAt, evsAt]
      exact ih _ m (hi.step t)

/-- the event is the first block of a write to key `k` -/
def Ev.writesKey (k : Bytes) : Ev → Prop
  | .call _ (.put k' _) => k' = k
  | .call _ (.rm k') => k' = k
  | _ => False

/-- no write to `k` takes effect at the steps `a ≤ · < b` -/
def NoWrite (c : Cfg) (sched : List Nat) (k : Bytes) (a b : Nat) : Prop :=
  ∀ m, a ≤ m → m < b → ∀ e ∈ evsAt c sched m, ¬ e.writesKey k

theorem Step.abs_put {c c' : Cfg} {s : Nat} {evs : List Ev} (h : Step c s c' evs) (hc : CInv c.p) {t : Nat}
    {k v : Bytes} (he : Ev.call t (.put k v) ∈ evs) : c'.abs k = some v := by
  cases h with
  | put th k' v' rest h1 h2 hpc htodo =>
    simp only [List.mem_singleton, Ev.call.injEq, Op.put.injEq] at he
    obtain ⟨_, hk, hv⟩ := he
    subst hk hv
    show (batchPut c.p k v).abs k = some v
    rw [abs_batchPut _ _ _ _ hc, if_pos rfl]
  | _ => simp at he

theorem Step.abs_rm {c c' : Cfg} {s : Nat} {evs : List Ev} (h : Step c s c' evs) (hc : CInv c.p) {t : Nat}
    {k : Bytes} (he : Ev.call t (.rm k) ∈ evs) : c'.abs k = none := by
  cases h with
  | rm th k' rest h1 h2 hpc htodo =>
    simp only [List.mem_singleton, Ev.call.injEq, Op.rm.injEq] at he
    obtain ⟨_, hk⟩ := he
    subst hk
    show (batchDelete c.p k).abs k = none
    rw [abs_batchDelete _ _ _ hc, if_pos rfl]
  | _ => simp at he

/-- the logical value of a key changes only at the first block of a write to that key -/
theorem Step.abs_same {c c' : Cfg} {s : Nat} {evs : List Ev} (h : Step c s c' evs) (hc : CInv c.p) {k : Bytes}
    (hno : ∀ e ∈ evs, ¬ e.writesKey k) : c'.abs k = c.abs k := by
  cases h with
  | timer _ => exact abs_flush' _ k hc
  | skip => rfl
  | bump th op h1 h2 hpc hw => exact abs_bump' _ k hc
  | retDb th k' h1 h2 hpc => rfl
  | put th k' v rest h1 h2 hpc htodo =>
    have hne : k ≠ k' := fun e => hno _ (List.mem_singleton.mpr rfl) (by simp [Ev.writesKey, e])
    show (batchPut c.p k' v).abs k = c.p.abs k
    rw [abs_batchPut _ _ _ _ hc, if_neg hne]
  | rm th k' rest h1 h2 hpc htodo =>
    have hne : k ≠ k' := fun e => hno _ (List.mem_singleton.mpr rfl) (by simp [Ev.writesKey, e])
    show (batchDelete c.p k').abs k = c.p.abs k
    rw [abs_batchDelete _ _ _ hc, if_neg hne]
  | getHit th k' rest r h1 h2 hpc htodo hr => rfl
  | getMiss th k' rest h1 h2 hpc htodo hr => rfl

theorem abs_after_put {c : Cfg} (hi : Inv c) (sched : List Nat) {m t : Nat} {k v : Bytes}
    (he : Ev.call t (.put k v) ∈ evsAt c sched m) : (cfgAt c sched (m + 1)).abs k = some v := by
  obtain ⟨s, hs⟩ := step_at sched c m hi
  exact hs.abs_put (hi.cfgAt sched m).cinv he

theorem abs_after_rm {c : Cfg} (hi : Inv c) (sched : List Nat) {m t : Nat} {k : Bytes}
    (he : Ev.call t (.rm k) ∈ evsAt c sched m) : (cfgAt c sched (m + 1)).abs k = none := by
  obtain ⟨s, hs⟩ := step_at sched c m hi
  exact hs.abs_rm (hi.cfgAt sched m).cinv he

/-- between writes to `k` the logical value of `k` is constant — whatever flushes, bumps and reads happen -/
theorem abs_const {c : Cfg} (hi : Inv c) (sched : List Nat) (k : Bytes) (a b : Nat) (hab : a ≤ b)
    (hno : NoWrite c sched k a b) : (cfgAt c sched b).abs k = (cfgAt c sched a).abs k := by
  induction b with
  | zero =>
    have : a = 0 := by omega
    subst this; rfl
  | succ b ih =>
    by_cases hb : a = b + 1
    · subst hb; rfl
    · have hab' : a ≤ b := by omega
      obtain ⟨s, hs⟩ := step_at sched c b hi
      rw [hs.abs_same (hi.cfgAt sched b).cinv (hno b hab' (by omega))]
      exact ih hab' (fun m h1 h2 => hno m h1 (by omega))

/-- **corollary 1 (stable window).**  If the logical value of `k` is the same value `a` in every configuration of the
    window of a `get k`, the get returns `a`. -/
theorem get_stable (maxBatch : Nat) (progs : List (List Op)) (sched : List Nat) (j t : Nat) (k : Bytes)
    (r : Option Bytes) (hret : Ev.ret t (.get k) r ∈ evsAt (Cfg.init maxBatch progs) sched j) :
    ∃ i, CallRet (Cfg.init maxBatch progs) sched t k r i j ∧
      ∀ a, (∀ m, i ≤ m → m ≤ j → (cfgAt (Cfg.init maxBatch progs) sched m).abs k = a) → r = a := by
  obtain ⟨i, m, him, hmj, hcr, hr⟩ := get_window maxBatch progs sched j t k r hret
  exact ⟨i, hcr, fun a ha => by rw [hr]; exact ha m him hmj⟩

/-- **corollary 2 (no overlapping write).**  If no write to `k` takes effect between the call step and the return step of
    a `get k`, it returns the logical value at its call (= at its return). -/
theorem get_no_overlap (maxBatch : Nat) (progs : List (List Op)) (sched : List Nat) (j t : Nat) (k : Bytes)
    (r : Option Bytes) (hret : Ev.ret t (.get k) r ∈ evsAt (Cfg.init maxBatch progs) sched j) :
    ∃ i, CallRet (Cfg.init maxBatch progs) sched t k r i j ∧
      (NoWrite (Cfg.init maxBatch progs) sched k i j → r = (cfgAt (Cfg.init maxBatch progs) sched i).abs k) := by
  obtain ⟨i, m, him, hmj, hcr, hr⟩ := get_window maxBatch progs sched j t k r hret
  refine ⟨i, hcr, fun hno => ?_⟩
  rw [hr]
  exact abs_const (Inv.init maxBatch progs) sched k i m him (fun x h1 h2 => hno x h1 (by omega))

/-- **corollary 3 (read-after-write).**  If a write to `k` took effect (first block at step `w`) before the call step `i`
    of a `get k` — in particular if the write returned before the get was called — and no other write to `k` takes effect
    from then until the get returns, the get returns the value written (`none` for a remove). -/
theorem read_after_write (maxBatch : Nat) (progs : List (List Op)) (sched : List Nat) (j t : Nat) (k : Bytes)
    (r : Option Bytes) (hret : Ev.ret t (.get k) r ∈ evsAt (Cfg.init maxBatch progs) sched j) :
    ∃ i, CallRet (Cfg.init maxBatch progs) sched t k r i j ∧
      (∀ w t' v, w < i → Ev.call t' (.put k v) ∈ evsAt (Cfg.init maxBatch progs) sched w →
          NoWrite (Cfg.init maxBatch progs) sched k (w + 1) j → r = some v) ∧
      (∀ w t', w < i → Ev.call t' (.rm k) ∈ evsAt (Cfg.init maxBatch progs) sched w →
          NoWrite (Cfg.init maxBatch progs) sched k (w + 1) j → r = none) := by
  obtain ⟨i, m, him, hmj, hcr, hr⟩ := get_window maxBatch progs sched j t k r hret
  have hi := Inv.init maxBatch progs
  refine ⟨i, hcr, ?_, ?_⟩
  · intro w t' v hw hput hno
    rw [hr, abs_const hi sched k (w + 1) m (by omega) (fun x h1 h2 => hno x h1 (by omega))]
    exact abs_after_put hi sched hput
  · intro w t' hw hrm hno
    rw [hr, abs_const hi sched k (w + 1) m (by omega) (fun x h1 h2 => hno x h1 (by omega))]
    exact abs_after_rm hi sched hrm

/-- **corollary 4 (reads never go backwards).**  Two completed reads observe the logical map at configurations `m₁`, `m₂`
    inside their respective windows; if the first returned (step `j₁`) before the second was called (step `i₂`) then
    `m₁ < m₂`: the second read observes a later state of the logical map than the first. -/
theorem reads_monotone (maxBatch : Nat) (progs : List (List Op)) (sched : List Nat) (j₁ t₁ j₂ t₂ : Nat)
    (k₁ k₂ : Bytes) (r₁ r₂ : Option Bytes)
    (h₁ : Ev.ret t₁ (.get k₁) r₁ ∈ evsAt (Cfg.init maxBatch progs) sched j₁)
    (h₂ : Ev.ret t₂ (.get k₂) r₂ ∈ evsAt (Cfg.init maxBatch progs) sched j₂) :
    ∃ m₁ i₂ m₂, m₁ ≤ j₁ ∧ i₂ ≤ m₂ ∧ m₂ ≤ j₂ ∧ CallRet (Cfg.init maxBatch progs) sched t₂ k₂ r₂ i₂ j₂ ∧
      r₁ = (cfgAt (Cfg.init maxBatch progs) sched m₁).abs k₁ ∧
      r₂ = (cfgAt (Cfg.init maxBatch progs) sched m₂).abs k₂ ∧
      (j₁ < i₂ → m₁ < m₂) := by
  obtain ⟨i1, m1, _, hmj1, _, hr1⟩ := get_window maxBatch progs sched j₁ t₁ k₁ r₁ h₁
  obtain ⟨i2, m2, him2, hmj2, hcr2, hr2⟩ := get_window maxBatch progs sched j₂ t₂ k₂ r₂ h₂
  exact ⟨m1, i2, m2, hmj1, him2, hmj2, hcr2, hr1, hr2, fun h => by omega⟩

/-! ## (C) linearization points and the sequential replay -/

/-- the sequential specification: a plain map -/
def specApply (m : Bytes → Option Bytes) : Op → (Bytes → Option Bytes)
  | .put k v => fun x => if x = k then some v else m x
  | .rm k => fun x => if x = k then none else m x
  | .get _ => m

def specRes (m : Bytes → Option Bytes) : Op → Option Bytes
  | .get k => m k
  | _ => none

/-- an operation placed at its linearization point -/
structure LinOp where
  pt : Nat                 -- number of the configuration at which (reads) / step at which (writes) it takes effect
  thread : Nat
  step : Nat               -- identifies the operation: the step that emitted its return (reads) / its call (writes)
  op : Op
  res : Option Bytes       -- the result it returned in the concurrent run (writes: none)

/-- executing the operations one after the other on the plain map `m` produces exactly the recorded results -/
def SeqOK : (Bytes → Option Bytes) → List LinOp → Prop
  | _, [] => True
  | m, e :: rest => e.res = specRes m e.op ∧ SeqOK (specApply m e.op) rest

/-- the map after executing the operations sequentially -/
def finalMap (m : Bytes → Option Bytes) (l : List LinOp) : Bytes → Option Bytes :=
  l.foldl (fun m e => specApply m e.op) m

theorem SeqOK_append (l1 l2 : List LinOp) : ∀ m, SeqOK m (l1 ++ l2) ↔ SeqOK m l1 ∧ SeqOK (finalMap m l1) l2 := by
  induction l1 with
  | nil => intro m; simp [SeqOK, finalMap]
  | cons e r ih =>
    intro m
    simp only [List.cons_append, SeqOK, ih, finalMap, List.foldl_cons, and_assoc]

theorem finalMap_append (l1 l2 : List LinOp) (m : Bytes → Option Bytes) :
    finalMap m (l1 ++ l2) = finalMap (finalMap m l1) l2 := by
  simp [finalMap, List.foldl_append]

/-- a block of reads that all return the current value -/
theorem SeqOK_reads (m : Bytes → Option Bytes) (l : List LinOp)
    (h : ∀ e ∈ l, ∃ k, e.op = .get k ∧ e.res = m k) : SeqOK m l ∧ finalMap m l = m := by
  induction l with
  | nil => exact ⟨trivial, rfl⟩
  | cons e r ih =>
    obtain ⟨k, hop, hres⟩ := h e (List.mem_cons_self)
    have ih' := ih (fun e' he' => h e' (List.mem_cons_of_mem _ he'))
    have hap : specApply m e.op = m := by rw [hop]; rfl
    refine ⟨⟨by rw [hop]; exact hres, by rw [hap]; exact ih'.1⟩, ?_⟩
    show finalMap (specApply m e.op) r = m
    rw [hap]; exact ih'.2

/-- the largest index below `j` with a property -/
theorem exists_largest (Q : Nat → Prop) (j : Nat) (h : ∃ m, m ≤ j ∧ Q m) :
    ∃ m, m ≤ j ∧ Q m ∧ ∀ m', m < m' → m' ≤ j → ¬ Q m' := by
  induction j with
  | zero =>
    obtain ⟨m, hm, hq⟩ := h
    have : m = 0 := by omega
    subst this
    exact ⟨0, Nat.le_refl _, hq, fun m' h1 h2 => by omega⟩
  | succ j ih =>
    by_cases hq : Q (j + 1)
    · exact ⟨j + 1, Nat.le_refl _, hq, fun m' h1 h2 => by omega⟩
    · obtain ⟨m0, hm0, hq0⟩ := h
      have hm0' : m0 ≤ j := by
        rcases Nat.lt_or_ge j m0 with hlt | hge
        · have : m0 = j + 1 := by omega
          subst this; exact absurd hq0 hq
        · exact hge
      obtain ⟨m, hm, hqm, hmax⟩ := ih ⟨m0, hm0', hq0⟩
      refine ⟨m, by omega, hqm, ?_⟩
      intro m' h1 h2
      by_cases hm' : m' = j + 1
      · subst hm'; exact hq
      · exact hmax m' h1 (by omega)

/-- `m` is the linearization point of a `get k` that returned `r` at step `j`: the last configuration up to `j` whose
    logical value of `k` is `r` (by `get_window` it lies inside the window of the get) -/
def IsPt (c : Cfg) (sched : List Nat) (m j : Nat) (k : Bytes) (r : Option Bytes) : Prop :=
  m ≤ j ∧ (cfgAt c sched m).abs k = r ∧ ∀ m', m < m' → m' ≤ j → (cfgAt c sched m').abs k ≠ r

/-- writes are linearized at the step of their first block (the step that emits their call event) -/
def wEntry (m : Nat) : Ev → Option LinOp
  | .call t op => if op.isWrite then some ⟨m, t, m, op, none⟩ else none
  | _ => none

open Classical in
/-- a read returning at step `j` is linearized at configuration `m` iff `IsPt … m j …` -/
noncomputable def rEntry (c : Cfg) (sched : List Nat) (m j : Nat) : Ev → Option LinOp
  | .ret t (.get k) r => if IsPt c sched m j k r then some ⟨m, t, j, .get k, r⟩ else none
  | _ => none

def writesAt (c : Cfg) (sched : List Nat) (m : Nat) : List LinOp := (evsAt c sched m).filterMap (wEntry m)

noncomputable def readsAt (c : Cfg) (sched : List Nat) (m : Nat) : List LinOp :=
  (List.range sched.length).flatMap fun j => (evsAt c sched j).filterMap (rEntry c sched m j)

/-- the linearization: for every configuration number `m` in turn, first the reads that observe configuration `m`,
    then the write (if any) whose first block is step `m` -/
noncomputable def linOf (c : Cfg) (sched : List Nat) : List LinOp :=
  (List.range (sched.length + 1)).flatMap fun m => readsAt c sched m ++ writesAt c sched m

theorem mem_writesAt {c : Cfg} {sched : List Nat} {m : Nat} {e : LinOp} :
    e ∈ writesAt c sched m ↔
      ∃ t op, op.isWrite = true ∧ Ev.call t op ∈ evsAt c sched m ∧ e = ⟨m, t, m, op, none⟩ := by
  unfold writesAt
  rw [List.mem_filterMap]
  constructor
  · rintro ⟨ev, hev, hw⟩
    cases ev with
    | call t op =>
      simp only [wEntry] at hw
      split at hw
      · rename_i hop
        simp only [Option.some.injEq] at hw
        exact ⟨t, op, hop, hev, hw.symm⟩
      · simp at hw
    | ret t op r => simp [wEntry] at hw
    | tau t => simp [wEntry] at hw
  · rintro ⟨t, op, hop, hev, he⟩
    exact ⟨_, hev, by simp [wEntry, hop, he]⟩

theorem rEntry_some {c : Cfg} {sched : List Nat} {m j : Nat} {ev : Ev} {e : LinOp}
    (h : rEntry c sched m j ev = some e) :
    ∃ t k r, ev = .ret t (.get k) r ∧ IsPt c sched m j k r ∧ e = ⟨m, t, j, .get k, r⟩ := by
  cases ev with
  | call t op => simp [rEntry] at h
  | tau t => simp [rEntry] at h
  | ret t op r =>
    cases op with
    | put k v => simp [rEntry] at h
    | rm k => simp [rEntry] at h
    | get k =>
      simp only [rEntry] at h
      split at h
      · rename_i hpt
        simp only [Option.some.injEq] at h
        exact ⟨t, k, r, rfl, hpt, h.symm⟩
      · simp at h

theorem mem_readsAt {c : Cfg} {sched : List Nat} {m : Nat} {e : LinOp} :
    e ∈ readsAt c sched m ↔
      ∃ j t k r, j < sched.length ∧ Ev.ret t (.get k) r ∈ evsAt c sched j ∧ IsPt c sched m j k r ∧
        e = ⟨m, t, j, .get k, r⟩ := by
  unfold readsAt
  simp only [List.mem_flatMap, List.mem_range, List.mem_filterMap]
  constructor
  · rintro ⟨j, hj, ev, hev, hr⟩
    obtain ⟨t, k, r, rfl, hpt, he⟩ := rEntry_some hr
    exact ⟨j, t, k, r, hj, hev, hpt, he⟩
  · rintro ⟨j, t, k, r, hj, hev, hpt, he⟩
    exact ⟨j, hj, _, hev, by simp [rEntry, hpt, he]⟩

/-- the writes linearized at step `m` turn the logical map before step `m` into the logical map after it -/
theorem writesAt_spec {c : Cfg} (hi : Inv c) (sched : List Nat) (m : Nat) :
    SeqOK (cfgAt c sched m).abs (writesAt c sched m) ∧
    finalMap (cfgAt c sched m).abs (writesAt c sched m) = (cfgAt c sched (m + 1)).abs := by
  obtain ⟨s, hs⟩ := step_at sched c m hi
  have hc := (hi.cfgAt sched m).cinv
  unfold writesAt
  generalize cfgAt c sched m = c1 at hs hc ⊢
  generalize cfgAt c sched (m + 1) = c2 at hs ⊢
  generalize evsAt c sched m = evs at hs ⊢
  cases hs with
  | timer _ =>
    refine ⟨by simp [List.filterMap_cons, wEntry, SeqOK], ?_⟩
    funext x
    simp only [List.filterMap_cons, wEntry, List.filterMap_nil, finalMap, List.foldl_nil]
    exact (abs_flush' _ x hc).symm
  | skip => exact ⟨by simp [SeqOK], by simp [finalMap]⟩
  | bump th op h1 h2 hpc hw =>
    refine ⟨by simp [List.filterMap_cons, wEntry, SeqOK], ?_⟩
    funext x
    simp only [List.filterMap_cons, wEntry, List.filterMap_nil, finalMap, List.foldl_nil]
    exact (abs_bump' _ x hc).symm
  | retDb th k h1 h2 hpc => exact ⟨by simp [List.filterMap_cons, wEntry, SeqOK], by simp [List.filterMap_cons, wEntry, finalMap]; rfl⟩
  | put th k v rest h1 h2 hpc htodo =>
    refine ⟨by simp [wEntry, SeqOK, Op.isWrite, specRes], ?_⟩
    funext x
    simp only [List.filterMap_cons, wEntry, Op.isWrite, if_true, List.filterMap_nil, finalMap, List.foldl_cons,
      List.foldl_nil, specApply]
    exact (abs_batchPut _ k x v hc).symm
  | rm th k rest h1 h2 hpc htodo =>
    refine ⟨by simp [wEntry, SeqOK, Op.isWrite, specRes], ?_⟩
    funext x
    simp only [List.filterMap_cons, wEntry, Op.isWrite, if_true, List.filterMap_nil, finalMap, List.foldl_cons,
      List.foldl_nil, specApply]
    exact (abs_batchDelete _ k x hc).symm
  | getHit th k rest r h1 h2 hpc htodo hr =>
    exact ⟨by simp [List.filterMap_cons, wEntry, SeqOK, Op.isWrite], by simp [List.filterMap_cons, wEntry, finalMap, Op.isWrite]; rfl⟩
  | getMiss th k rest h1 h2 hpc htodo hr =>
    exact ⟨by simp [wEntry, SeqOK, Op.isWrite], by simp [wEntry, finalMap, Op.isWrite]; rfl⟩

/-- the reads linearized at configuration `m` all return its logical value, and change nothing -/
theorem readsAt_spec (c : Cfg) (sched : List Nat) (m : Nat) :
    SeqOK (cfgAt c sched m).abs (readsAt c sched m) ∧
    finalMap (cfgAt c sched m).abs (readsAt c sched m) = (cfgAt c sched m).abs := by
  apply SeqOK_reads
  intro e he
  obtain ⟨j, t, k, r, _, _, hpt, rfl⟩ := mem_readsAt.mp he
  exact ⟨k, rfl, hpt.2.1.symm⟩

/-- replaying the linearization up to (excluding) point `N` yields the logical map of configuration `N` -/
theorem lin_prefix {c : Cfg} (hi : Inv c) (sched : List Nat) (N : Nat) :
    SeqOK c.abs ((List.range N).flatMap fun m => readsAt c sched m ++ writesAt c sched m) ∧
    finalMap c.abs ((List.range N).flatMap fun m => readsAt c sched m ++ writesAt c sched m) =
      (cfgAt c sched N).abs := by
  induction N with
  | zero => simp [SeqOK, finalMap, cfgAt_zero]
  | succ N ih =>
    rw [List.range_succ, List.flatMap_append]
    simp only [List.flatMap_cons, List.flatMap_nil, List.append_nil]
    have hr := readsAt_spec c sched N
    have hw := writesAt_spec hi sched N
    refine ⟨?_, ?_⟩
    · rw [SeqOK_append, ih.2, SeqOK_append, hr.2]
      exact ⟨ih.1, hr.1, hw.1⟩
    · rw [finalMap_append, ih.2, finalMap_append, hr.2, hw.2]

theorem init_abs (maxBatch : Nat) (progs : List (List Op)) : (Cfg.init maxBatch progs).abs = fun _ => none := by
  funext k
  simp [Cfg.abs, Cfg.init, P.abs, P.init, alookup]

theorem evsAt_lt {c : Cfg} {sched : List Nat} {j : Nat} {e : Ev} (h : e ∈ evsAt c sched j) : j < sched.length := by
  rcases Nat.lt_or_ge j sched.length with hlt | hge
  · exact hlt
  · rw [evsAt_of_le sched c j hge] at h
    simp at h

theorem mem_linOf {c : Cfg} {sched : List Nat} {e : LinOp} :
    e ∈ linOf c sched ↔ ∃ m, m < sched.length + 1 ∧ (e ∈ readsAt c sched m ∨ e ∈ writesAt c sched m) := by
  unfold linOf
  simp only [List.mem_flatMap, List.mem_range, List.mem_append]

theorem linOf_sorted (c : Cfg) (sched : List Nat) : (linOf c sched).Pairwise (fun a b => a.pt ≤ b.pt) := by
  have hpt : ∀ m e, e ∈ readsAt c sched m ++ writesAt c sched m → e.pt = m := by
    intro m e he
    rcases List.mem_append.mp he with he | he
    · obtain ⟨j, t, k, r, _, _, _, rfl⟩ := mem_readsAt.mp he; rfl
    · obtain ⟨t, op, _, _, rfl⟩ := mem_writesAt.mp he; rfl
  unfold linOf
  rw [List.pairwise_flatMap]
  constructor
  · intro m _
    rw [List.pairwise_iff_forall_sublist]
    intro a b hab
    have ha := hpt m a (hab.subset (by simp))
    have hb := hpt m b (hab.subset (by simp))
    omega
  · refine List.Pairwise.imp ?_ (List.pairwise_lt_range (n := sched.length + 1))
    intro a b hab x hx y hy
    rw [hpt a x hx, hpt b y hy]
    omega

/-! ### every operation is linearized once -/

/-- a block emits nothing, one event, or the call and the return of a `get` answered by the batch -/
theorem Step.shape {c c' : Cfg} {s : Nat} {evs : List Ev} (h : Step c s c' evs) :
    evs = [] ∨ (∃ e, evs = [e]) ∨ ∃ t k r, evs = [.call t (.get k), .ret t (.get k) r] := by
  cases h with
  | skip => exact Or.inl rfl
  | getHit th k rest r h1 h2 hpc htodo hr => exact Or.inr (Or.inr ⟨_, _, _, rfl⟩)
  | _ => exact Or.inr (Or.inl ⟨_, rfl⟩)

theorem shape_at {c : Cfg} (hi : Inv c) (sched : List Nat) (j : Nat) :
    evsAt c sched j = [] ∨ (∃ e, evsAt c sched j = [e]) ∨
      ∃ t k r, evsAt c sched j = [.call t (.get k), .ret t (.get k) r] := by
  obtain ⟨s, hs⟩ := step_at sched c j hi
  exact hs.shape

theorem ret_unique {c : Cfg} (hi : Inv c) (sched : List Nat) {j t t' : Nat} {k k' : Bytes} {r r' : Option Bytes}
    (h : Ev.ret t (.get k) r ∈ evsAt c sched j) (h' : Ev.ret t' (.get k') r' ∈ evsAt c sched j) :
    t = t' ∧ k = k' ∧ r = r' := by
  rcases shape_at hi sched j with he | ⟨e, he⟩ | ⟨t0, k0, r0, he⟩ <;> rw [he] at h h'
  · simp at h
  · simp only [List.mem_singleton] at h h'
    rw [← h'] at h
    simpa using h
  · simp only [List.mem_cons, List.mem_nil_iff, or_false, reduceCtorEq, false_or, Ev.ret.injEq, Op.get.injEq] at h h'
    obtain ⟨a1, a2, a3⟩ := h
    obtain ⟨b1, b2, b3⟩ := h'
    subst a1 a2 a3 b1 b2 b3
    exact ⟨rfl, rfl, rfl⟩

theorem no_write_and_ret {c : Cfg} (hi : Inv c) (sched : List Nat) {j t t' : Nat} {op : Op} {k : Bytes}
    {r : Option Bytes} (hop : op.isWrite = true) (h : Ev.call t op ∈ evsAt c sched j)
    (h' : Ev.ret t' (.get k) r ∈ evsAt c sched j) : False := by
  rcases shape_at hi sched j with he | ⟨e, he⟩ | ⟨t0, k0, r0, he⟩ <;> rw [he] at h h'
  · simp at h
  · simp only [List.mem_singleton] at h h'
    rw [← h'] at h
    simp at h
  · simp only [List.mem_cons, List.mem_nil_iff, or_false, reduceCtorEq, or_false, Ev.call.injEq] at h
    obtain ⟨_, a2⟩ := h
    subst a2
    simp [Op.isWrite] at hop

theorem pairwise_of_length_le_one {α : Type} (R : α → α → Prop) (l : List α) (h : l.length ≤ 1) : l.Pairwise R := by
  match l, h with
  | [], _ => exact List.Pairwise.nil
  | [a], _ => exact List.pairwise_singleton R a
  | _ :: _ :: _, h => simp at h

theorem writesAt_length {c : Cfg} (hi : Inv c) (sched : List Nat) (m : Nat) : (writesAt c sched m).length ≤ 1 := by
  unfold writesAt
  rcases shape_at hi sched m with he | ⟨e, he⟩ | ⟨t0, k0, r0, he⟩ <;> rw [he]
  · simp
  · exact Nat.le_trans (List.length_filterMap_le _ _) (by simp)
  · simp [List.filterMap_cons, wEntry, Op.isWrite]

theorem readsAt_inner_length {c : Cfg} (hi : Inv c) (sched : List Nat) (m j : Nat) :
    ((evsAt c sched j).filterMap (rEntry c sched m j)).length ≤ 1 := by
  rcases shape_at hi sched j with he | ⟨e, he⟩ | ⟨t0, k0, r0, he⟩ <;> rw [he]
  · simp
  · exact Nat.le_trans (List.length_filterMap_le _ _) (by simp)
  · have : [Ev.call t0 (.get k0), Ev.ret t0 (.get k0) r0].filterMap (rEntry c sched m j) =
        [Ev.ret t0 (.get k0) r0].filterMap (rEntry c sched m j) := by
      simp [List.filterMap_cons, rEntry]
    rw [this]
    exact Nat.le_trans (List.length_filterMap_le _ _) (by simp)

theorem IsPt.unique {c : Cfg} {sched : List Nat} {m m' j : Nat} {k : Bytes} {r : Option Bytes}
    (h : IsPt c sched m j k r) (h' : IsPt c sched m' j k r) : m = m' := by
  rcases Nat.lt_trichotomy m m' with hlt | heq | hgt
  · exact absurd h'.2.1 (h.2.2 m' hlt h'.1)
  · exact heq
  · exact absurd h.2.1 (h'.2.2 m hgt h.1)

/-- no two entries of the linearization stand for the same operation (an operation is identified by the step that
    emitted its return event — reads — or its call event — writes; a step emits events of one operation only) -/
theorem linOf_distinct {c : Cfg} (hi : Inv c) (sched : List Nat) :
    (linOf c sched).Pairwise (fun a b => a.step ≠ b.step) := by
  unfold linOf
  rw [List.pairwise_flatMap]
  constructor
  · intro m _
    rw [List.pairwise_append]
    refine ⟨?_, pairwise_of_length_le_one _ _ (writesAt_length hi sched m), ?_⟩
    · unfold readsAt
      rw [List.pairwise_flatMap]
      refine ⟨fun j _ => pairwise_of_length_le_one _ _ (readsAt_inner_length hi sched m j), ?_⟩
      refine List.Pairwise.imp ?_ (List.pairwise_lt_range (n := sched.length))
      intro j j' hjj x hx y hy
      obtain ⟨ev, _, hev⟩ := List.mem_filterMap.mp hx
      obtain ⟨ev', _, hev'⟩ := List.mem_filterMap.mp hy
      obtain ⟨_, _, _, _, _, rfl⟩ := rEntry_some hev
      obtain ⟨_, _, _, _, _, rfl⟩ := rEntry_some hev'
      dsimp only
      omega
    · intro a ha b hb
      obtain ⟨j, t, k, r, _, hret, _, rfl⟩ := mem_readsAt.mp ha
      obtain ⟨t', op, hop, hcall, rfl⟩ := mem_writesAt.mp hb
      intro hjm
      dsimp only at hjm
      subst hjm
      exact no_write_and_ret hi sched hop hcall hret
  · refine List.Pairwise.imp ?_ (List.pairwise_lt_range (n := sched.length + 1))
    intro m m' hmm x hx y hy hxy
    rcases List.mem_append.mp hx with hx | hx <;> rcases List.mem_append.mp hy with hy | hy
    · obtain ⟨j, t, k, r, _, hret, hpt, rfl⟩ := mem_readsAt.mp hx
      obtain ⟨j', t', k', r', _, hret', hpt', rfl⟩ := mem_readsAt.mp hy
      dsimp only at hxy
      subst hxy
      obtain ⟨_, hk, hr⟩ := ret_unique hi sched hret hret'
      subst hk hr
      have := hpt.unique hpt'
      omega
    · obtain ⟨j, t, k, r, _, hret, hpt, rfl⟩ := mem_readsAt.mp hx
      obtain ⟨t', op, hop, hcall, rfl⟩ := mem_writesAt.mp hy
      dsimp only at hxy
      subst hxy
      exact no_write_and_ret hi sched hop hcall hret
    · obtain ⟨t', op, hop, hcall, rfl⟩ := mem_writesAt.mp hx
      obtain ⟨j, t, k, r, _, hret, hpt, rfl⟩ := mem_readsAt.mp hy
      dsimp only at hxy
      subst hxy
      exact no_write_and_ret hi sched hop hcall hret
    · obtain ⟨t, op, _, _, rfl⟩ := mem_writesAt.mp hx
      obtain ⟨t', op', _, _, rfl⟩ := mem_writesAt.mp hy
      dsimp only at hxy
      omega

/-- **C11, linearizability.**  For every run of any programs under any schedule there is a list `lin` of operations, each
    tagged with a linearization point, such that

    1. `lin` is ordered by linearization point;
    2. executing `lin` sequentially on a plain map, starting from the empty map, reproduces every recorded result;
    3. every completed `get` (return event at step `j`, call event at step `i`) is in `lin` with its returned value, at a
       point `m` with `i ≤ m ≤ j` (reads answered by the batch: `m = i = j`, their only block; reads that missed: the last
       configuration of the window whose logical value is the value returned);
    4. every write whose first block was executed — completed or still pending at the end of the schedule — is in `lin` at the
       step `i` of its first block, the step that emitted its call event (its return comes at a later step);
    5. `lin` contains nothing else: every entry is such a write or such a completed read (`e.step` is the step that emitted
       the write's call resp. the read's return);
    6. no operation is linearized twice: the entries have pairwise different `step`s (a step emits events of one operation
       only, so `step` identifies the operation).

    Because points lie between call and return and `lin` is sorted by point, an operation that returned before another one was
    called precedes it in `lin` (real-time order).  Among operations with the same point `m` the reads (which observe
    configuration `m`) come before the write (which is step `m` and produces configuration `m+1`). -/
theorem linearizable (maxBatch : Nat) (progs : List (List Op)) (sched : List Nat) :
    ∃ lin : List LinOp,
      lin.Pairwise (fun a b => a.pt ≤ b.pt) ∧
      SeqOK (fun _ => none) lin ∧
      (∀ j t k r, Ev.ret t (.get k) r ∈ evsAt (Cfg.init maxBatch progs) sched j →
        ∃ i m, i ≤ m ∧ m ≤ j ∧ CallRet (Cfg.init maxBatch progs) sched t k r i j ∧
          (⟨m, t, j, .get k, r⟩ : LinOp) ∈ lin) ∧
      (∀ i t op, op.isWrite = true → Ev.call t op ∈ evsAt (Cfg.init maxBatch progs) sched i →
        (⟨i, t, i, op, none⟩ : LinOp) ∈ lin) ∧
      (∀ e ∈ lin,
        (e.op.isWrite = true ∧ e.res = none ∧ e.step = e.pt ∧
          Ev.call e.thread e.op ∈ evsAt (Cfg.init maxBatch progs) sched e.step) ∨
        (∃ k, e.op = .get k ∧ e.pt ≤ e.step ∧
          Ev.ret e.thread (.get k) e.res ∈ evsAt (Cfg.init maxBatch progs) sched e.step)) ∧
      lin.Pairwise (fun a b => a.step ≠ b.step) := by
  have hi := Inv.init maxBatch progs
  refine ⟨linOf (Cfg.init maxBatch progs) sched, linOf_sorted _ _, ?_, ?_, ?_, ?_, linOf_distinct hi sched⟩
  · have := (lin_prefix hi sched (sched.length + 1)).1
    rw [init_abs] at this
    exact this
  · intro j t k r hret
    obtain ⟨i, m0, him, hmj, hcr, hr⟩ := get_window maxBatch progs sched j t k r hret
    obtain ⟨m, hm, hqm, hmax⟩ := exists_largest
      (fun m => (cfgAt (Cfg.init maxBatch progs) sched m).abs k = r) j ⟨m0, hmj, hr.symm⟩
    have hm0 : m0 ≤ m := by
      rcases Nat.lt_or_ge m m0 with hlt | hge
      · exact absurd hr.symm (hmax m0 hlt hmj)
      · exact hge
    have hj := evsAt_lt hret
    refine ⟨i, m, by omega, hm, hcr, mem_linOf.mpr ⟨m, by omega, Or.inl ?_⟩⟩
    exact mem_readsAt.mpr ⟨j, t, k, r, hj, hret, ⟨hm, hqm, hmax⟩, rfl⟩
  · intro i t op hop hcall
    have hlt := evsAt_lt hcall
    exact mem_linOf.mpr ⟨i, by omega, Or.inr (mem_writesAt.mpr ⟨t, op, hop, hcall, rfl⟩)⟩
  · intro e he
    obtain ⟨m, _, he | he⟩ := mem_linOf.mp he
    · obtain ⟨j, t, k, r, _, hret, hpt, rfl⟩ := mem_readsAt.mp he
      exact Or.inr ⟨k, rfl, hpt.1, hret⟩
    · obtain ⟨t, op, hop, hcall, rfl⟩ := mem_writesAt.mp he
      exact Or.inl ⟨hop, rfl, rfl, hcall⟩

end SV.Conc
