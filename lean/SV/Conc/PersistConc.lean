/-
  SV.Conc.PersistConc — interleaving model of the LevelDB persisters (leveldb.DB and leveldb.SerialDB) at the
  granularity of their critical sections (the REPAIRED block structure, regenerated facts in SV.Generated.Facts):

    Put k v  = [batch.Put k v]            ; [updateBatchWithIncrement: size++, flush when full]
    Remove k = [batch.Delete k]           ; [updateBatchWithIncrement]
    Get k    = [isRemoved k + batch.Get k (one read-locked section)] ; on a miss: [db.Get k]
    Has k    = same as Get
    timer    = [flush]

  A flush (write the batch to LevelDB, reset the batch) is ONE block: `DB` holds mutBatch across Write+Reset;
  `SerialDB` holds mutBatch across the swap and the hand-over to the process loop, which serialises all LevelDB
  accesses.  A schedule is a list of thread indices; thread `n` (= number of user threads) is the timer.
-/
import SV.Persist.Model
namespace SV.Conc
open SV SV.Persist

inductive Op
  | put (k : Bytes) (v : Bytes)
  | rm (k : Bytes)
  | get (k : Bytes)
  deriving Repr, DecidableEq

/-- where a thread stands inside its current operation -/
inductive Pc
  | idle
  | putBump                  -- batch.Put / batch.Delete done, bump pending
  | getDb (k : Bytes)        -- batch read missed, db read pending
  deriving Repr, DecidableEq

structure Thread where
  todo : List Op
  pc : Pc
  deriving Repr

/-- what an executed block makes visible -/
inductive Ev
  | call (t : Nat) (op : Op)
  | ret (t : Nat) (op : Op) (res : Option Bytes)   -- writes return none
  | tau (t : Nat)                                  -- internal block
  deriving Repr, DecidableEq

structure Cfg where
  p : P                       -- shared state: pending batch + LevelDB
  threads : List Thread
  cur : List (Option Op)      -- the operation each thread is in the middle of
  deriving Repr

def batchPut (p : P) (k : Bytes) (v : Bytes) : P :=
  { p with cached := aset k ⟨false, v⟩ p.cached, removed := p.removed.filter (· != k), ops := p.ops ++ [.put k v] }
def batchDelete (p : P) (k : Bytes) : P :=
  { p with removed := if p.removed.contains k then p.removed else p.removed ++ [k], cached := aerase k p.cached, ops := p.ops ++ [.del k] }

/-- the locked batch read of Get: `some r` = answered from the batch, `none` = miss -/
def batchRead (p : P) (k : Bytes) : Option (Option Bytes) :=
  if p.removed.contains k then some none
  else match alookup k p.cached with
    | some v => some (some v.bytes)
    | none => none

/-- one block of thread `t` -/
def stepThread (p : P) (t : Nat) (th : Thread) (cur : Option Op) : P × Thread × Option Op × List Ev :=
  match th.pc, cur with
  | .putBump, some op => (p.bump, { th with pc := .idle }, none, [.ret t op none])
  | .getDb k, some op => (p, { th with pc := .idle }, none, [.ret t op (alookup k p.db)])
  | _, _ =>
    match th.todo with
    | [] => (p, th, none, [])
    | op :: rest =>
      match op with
      | .put k v => (batchPut p k v, ⟨rest, .putBump⟩, some op, [.call t op])
      | .rm k => (batchDelete p k, ⟨rest, .putBump⟩, some op, [.call t op])
      | .get k =>
        match batchRead p k with
        | some r => (p, ⟨rest, .idle⟩, none, [.call t op, .ret t op r])
        | none => (p, ⟨rest, .getDb k⟩, some op, [.call t op])

/-- execute one scheduling choice; index `threads.length` is the timer (a flush) -/
def Cfg.step (c : Cfg) (t : Nat) : Cfg × List Ev :=
  if t = c.threads.length then ({ c with p := c.p.flush }, [.tau t])
  else
    match c.threads[t]?, c.cur[t]? with
    | some th, some cur =>
      let (p, th', cur', evs) := stepThread c.p t th cur
      ({ p := p, threads := c.threads.set t th', cur := c.cur.set t cur' }, evs)
    | _, _ => (c, [])

def Cfg.init (maxBatch : Nat) (progs : List (List Op)) : Cfg :=
  ⟨P.init maxBatch [], progs.map (⟨·, .idle⟩), progs.map (fun _ => none)⟩

/-- run a schedule, collecting the history and every intermediate configuration -/
def runSched : Cfg → List Nat → List Ev × List Cfg
  | c, [] => ([], [c])
  | c, t :: rest =>
    let (c', evs) := c.step t
    let (h, cs) := runSched c' rest
    (evs ++ h, c :: cs)

/-- the logical map of a configuration -/
def Cfg.abs (c : Cfg) (k : Bytes) : Option Bytes := c.p.abs k

end SV.Conc
