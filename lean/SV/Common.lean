/-
  SV.Common — byte strings, Go's bytes.Compare, fnv32 (as in txcache/maps and
  immunitycache), hex encoding and the small parsing helpers used by the driver.
  Core Lean only (no Mathlib) so that the driver executable links.
-/
namespace SV

abbrev Bytes := List UInt8

/-- Go's `bytes.Compare a b < 0` (lexicographic, shorter prefix first). -/
def bytesLt : Bytes → Bytes → Bool
  | [], [] => false
  | [], _ :: _ => true
  | _ :: _, [] => false
  | a :: as, b :: bs => if a < b then true else if b < a then false else bytesLt as bs

/-- `bytes.Compare` as an `Ordering`. -/
def bytesCmp (a b : Bytes) : Ordering :=
  if bytesLt a b then .lt else if bytesLt b a then .gt else .eq

/-- FNV-1 32 bit exactly as `fnv32` in txcache/maps/concurrentMap.go and immunitycache. -/
def fnv32 (key : Bytes) : Nat :=
  key.foldl (fun h b => ((h * 16777619) % 4294967296) ^^^ b.toNat) 2166136261

/-! ### hex -/

def hexDigit (n : Nat) : Char :=
  if n < 10 then Char.ofNat (48 + n) else Char.ofNat (87 + n)

def toHex (b : Bytes) : String :=
  if b.isEmpty then "-" else
  String.ofList (b.flatMap fun x => [hexDigit (x.toNat / 16), hexDigit (x.toNat % 16)])

def hexVal (c : Char) : Option Nat :=
  if '0' ≤ c ∧ c ≤ '9' then some (c.toNat - 48)
  else if 'a' ≤ c ∧ c ≤ 'f' then some (c.toNat - 87)
  else none

def parseHexChars : List Char → Option Bytes
  | [] => some []
  | [_] => none
  | a :: b :: rest => do
    let x ← hexVal a
    let y ← hexVal b
    let r ← parseHexChars rest
    pure (UInt8.ofNat (x * 16 + y) :: r)

def parseHex (s : String) : Option Bytes :=
  if s = "-" then some [] else parseHexChars s.toList

def boolStr (b : Bool) : String := if b then "1" else "0"

def joinSp (l : List String) : String := " ".intercalate l

def hexList (l : List Bytes) : String :=
  if l.isEmpty then "[]" else "[" ++ ",".intercalate (l.map toHex) ++ "]"

/-- insertion sort of byte strings (canonical order for sets that come out of Go maps) -/
def insertBytes (x : Bytes) : List Bytes → List Bytes
  | [] => [x]
  | y :: ys => if bytesLt y x then y :: insertBytes x ys else x :: y :: ys

def sortBytes (l : List Bytes) : List Bytes := l.foldr insertBytes []

/-! ### association lists (Go maps as values) -/

def alookup {α β} [BEq α] (k : α) : List (α × β) → Option β
  | [] => none
  | (k', v) :: r => if k' == k then some v else alookup k r

def aerase {α β} [BEq α] (k : α) : List (α × β) → List (α × β)
  | [] => []
  | (k', v) :: r => if k' == k then aerase k r else (k', v) :: aerase k r

/-- insert or overwrite, keeping the position of an existing binding -/
def aset {α β} [BEq α] (k : α) (v : β) : List (α × β) → List (α × β)
  | [] => [(k, v)]
  | (k', v') :: r => if k' == k then (k, v) :: r else (k', v') :: aset k v r

end SV
