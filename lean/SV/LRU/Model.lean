/-
  SV.LRU.Model — executable models of
    * lrucache/capacity/capacityLRUCache.go (size- and byte-bounded LRU),
    * hashicorp/golang-lru v0.6.0 simplelru (as used through lru.Cache and simpleLRUCacheAdapter),
    * lrucache/lrucache.go (the Cacher wrapper with its added-data handler registry).
  Entries are kept most-recently-used FIRST (as evictList); `Keys` lists them oldest first.
-/
import SV.Common
namespace SV.LRU

structure Variant where
  updateEvictsSilently : Bool   -- F11: update → adjustSize → evictIfNeeded, result discarded
  negativeHasOrAddSaysAdded : Bool -- F12: lruCache.HasOrAdd reports added=true for a rejected negative size
  deriving Repr, DecidableEq

def Variant.legacy : Variant := ⟨true, true⟩
def Variant.current : Variant := ⟨false, false⟩

structure Entry where
  key : Bytes
  val : Bytes
  size : Int
  deriving Repr, DecidableEq

/-- capacityLRU -/
structure Cap where
  cap : Nat              -- `size` (max items)
  maxBytes : Int         -- `maxCapacityInBytes`
  entries : List Entry   -- evictList, front (MRU) first
  bytes : Int            -- `currentCapacityInBytes`
  deriving Repr

def Cap.init (cap : Nat) (maxBytes : Int) : Cap := ⟨cap, maxBytes, [], 0⟩

def Cap.has (c : Cap) (k : Bytes) : Bool := c.entries.any (·.key == k)
def Cap.find (c : Cap) (k : Bytes) : Option Entry := c.entries.find? (·.key == k)

/-- `shouldEvict` -/
def Cap.shouldEvict (c : Cap) : Bool :=
  if c.entries.length = 1 then false
  else decide (c.entries.length > c.cap) || decide (c.bytes > c.maxBytes)

/-- remove the back element (LRU) -/
def Cap.removeOldest (c : Cap) : Cap × Option Entry :=
  match c.entries.getLast? with
  | none => (c, none)
  | some e => ({ c with entries := c.entries.dropLast, bytes := c.bytes - e.size }, some e)

/-- `for c.shouldEvict() { removeOldest }` → (cache, evicted entries in eviction order) -/
def Cap.evictLoop : Nat → Cap → List Entry → Cap × List Entry
  | 0, c, acc => (c, acc)
  | fuel + 1, c, acc =>
    if c.shouldEvict then
      match c.removeOldest with
      | (c', some e) => Cap.evictLoop fuel c' (acc ++ [e])
      | (c', none) => (c', acc)
    else (c, acc)

def Cap.evictIfNeeded (c : Cap) : Cap × List Entry := Cap.evictLoop (c.entries.length + 1) c []

/-- `addNew` -/
def Cap.addNew (c : Cap) (k v : Bytes) (size : Int) : Cap :=
  { c with entries := ⟨k, v, size⟩ :: c.entries, bytes := c.bytes + size }

/-- `update` (MoveToFront, new value and size; legacy: evicts inside and discards the result) -/
def Cap.update (vr : Variant) (c : Cap) (k v : Bytes) (size : Int) : Cap :=
  match c.find k with
  | none => c
  | some old =>
    let c1 := { c with entries := ⟨k, v, size⟩ :: c.entries.filter (·.key != k), bytes := c.bytes + (size - old.size) }
    if vr.updateEvictsSilently then c1.evictIfNeeded.1 else c1

/-- `addSized` (negative sizes are rejected) -/
def Cap.addSizedCore (vr : Variant) (c : Cap) (k v : Bytes) (size : Int) : Cap :=
  if size < 0 then c
  else if c.has k then c.update vr k v size else c.addNew k v size

/-- `AddSized` → (cache, evicted?) -/
def Cap.addSized (vr : Variant) (c : Cap) (k v : Bytes) (size : Int) : Cap × Bool :=
  let (c', ev) := (c.addSizedCore vr k v size).evictIfNeeded
  (c', !ev.isEmpty)

/-- `AddSizedAndReturnEvicted` → (cache, evicted entries) -/
def Cap.addSizedAndReturnEvicted (vr : Variant) (c : Cap) (k v : Bytes) (size : Int) : Cap × List Entry :=
  (c.addSizedCore vr k v size).evictIfNeeded

/-- `AddSizedIfMissing` → (cache, found, evicted) -/
def Cap.addSizedIfMissing (vr : Variant) (c : Cap) (k v : Bytes) (size : Int) : Cap × Bool × Bool :=
  if vr.negativeHasOrAddSaysAdded && decide (size < 0) then (c, false, false)   -- legacy: size validated before the lookup
  else if c.has k then (c, true, false)
  else if size < 0 then (c, false, false)
  else
    let (c', ev) := (c.addNew k v size).evictIfNeeded
    (c', false, !ev.isEmpty)

def Cap.get (c : Cap) (k : Bytes) : Cap × Option Bytes :=
  match c.find k with
  | none => (c, none)
  | some e => ({ c with entries := e :: c.entries.filter (·.key != k) }, some e.val)

def Cap.peek (c : Cap) (k : Bytes) : Option Bytes := (c.find k).map (·.val)

def Cap.remove (c : Cap) (k : Bytes) : Cap × Bool :=
  match c.find k with
  | none => (c, false)
  | some e => ({ c with entries := c.entries.filter (·.key != k), bytes := c.bytes - e.size }, true)

def Cap.purge (c : Cap) : Cap := { c with entries := [], bytes := 0 }
def Cap.keys (c : Cap) : List Bytes := c.entries.reverse.map (·.key)

/-! ### hashicorp simplelru (through lru.Cache) -/

structure Simple where
  cap : Nat
  entries : List (Bytes × Bytes)   -- front (MRU) first
  deriving Repr

def Simple.has (c : Simple) (k : Bytes) : Bool := c.entries.any (·.1 == k)

/-- `Add` → (cache, evicted?) -/
def Simple.add (c : Simple) (k v : Bytes) : Simple × Bool :=
  if c.has k then ({ c with entries := (k, v) :: c.entries.filter (·.1 != k) }, false)
  else
    let es := (k, v) :: c.entries
    if es.length > c.cap then ({ c with entries := es.dropLast }, true) else ({ c with entries := es }, false)

/-- `ContainsOrAdd` → (cache, found, evicted) -/
def Simple.containsOrAdd (c : Simple) (k v : Bytes) : Simple × Bool × Bool :=
  if c.has k then (c, true, false) else let (c', e) := c.add k v; (c', false, e)

def Simple.get (c : Simple) (k : Bytes) : Simple × Option Bytes :=
  match c.entries.find? (·.1 == k) with
  | none => (c, none)
  | some e => ({ c with entries := e :: c.entries.filter (·.1 != k) }, some e.2)

def Simple.peek (c : Simple) (k : Bytes) : Option Bytes := (c.entries.find? (·.1 == k)).map (·.2)
def Simple.remove (c : Simple) (k : Bytes) : Simple := { c with entries := c.entries.filter (·.1 != k) }
def Simple.keys (c : Simple) : List Bytes := c.entries.reverse.map (·.1)

/-! ### lrucache.lruCache: Cacher wrapper + handler registry -/

inductive Backend
  | sized (c : Cap)
  | plain (c : Simple)
  deriving Repr

structure Cache where
  b : Backend
  handlers : List String     -- registered handler ids (a set)
  deriving Repr

/-- invocations produced by one call: (handler id, key, value) for every registered handler -/
def Cache.notify (c : Cache) (k v : Bytes) : List (String × Bytes × Bytes) := c.handlers.map (·, k, v)

/-- `Put` → (cache, evicted, handler invocations) -/
def Cache.put (vr : Variant) (c : Cache) (k v : Bytes) (size : Int) : Cache × Bool × List (String × Bytes × Bytes) :=
  match c.b with
  | .sized s => let (s', e) := s.addSized vr k v size; ({ c with b := .sized s' }, e, c.notify k v)
  | .plain s => let (s', e) := s.add k v; ({ c with b := .plain s' }, e, c.notify k v)

/-- `HasOrAdd` → (cache, has, added, handler invocations) -/
def Cache.hasOrAdd (vr : Variant) (c : Cache) (k v : Bytes) (size : Int) :
    Cache × Bool × Bool × List (String × Bytes × Bytes) :=
  match c.b with
  | .sized s =>
    let (s', has, _) := s.addSizedIfMissing vr k v size
    if has then (c, true, false, [])
    else if vr.negativeHasOrAddSaysAdded then ({ c with b := .sized s' }, false, true, c.notify k v)
    else if s'.has k then ({ c with b := .sized s' }, false, true, c.notify k v)
    else ({ c with b := .sized s' }, false, false, [])
  | .plain s =>
    let (s', has, _) := s.containsOrAdd k v
    if has then (c, true, false, []) else ({ c with b := .plain s' }, false, true, c.notify k v)

def Cache.get (c : Cache) (k : Bytes) : Cache × Option Bytes :=
  match c.b with
  | .sized s => let (s', r) := s.get k; ({ c with b := .sized s' }, r)
  | .plain s => let (s', r) := s.get k; ({ c with b := .plain s' }, r)

def Cache.peek (c : Cache) (k : Bytes) : Option Bytes :=
  match c.b with | .sized s => s.peek k | .plain s => s.peek k
def Cache.has (c : Cache) (k : Bytes) : Bool :=
  match c.b with | .sized s => s.has k | .plain s => s.has k
def Cache.remove (c : Cache) (k : Bytes) : Cache :=
  match c.b with
  | .sized s => { c with b := .sized (s.remove k).1 }
  | .plain s => { c with b := .plain (s.remove k) }
def Cache.clear (c : Cache) : Cache :=
  match c.b with
  | .sized s => { c with b := .sized s.purge }
  | .plain s => { c with b := .plain { s with entries := [] } }
def Cache.keys (c : Cache) : List Bytes :=
  match c.b with | .sized s => s.keys | .plain s => s.keys
def Cache.len (c : Cache) : Nat :=
  match c.b with | .sized s => s.entries.length | .plain s => s.entries.length
def Cache.sizeInBytes (c : Cache) : Int :=
  match c.b with | .sized s => s.bytes | .plain _ => 0
def Cache.register (c : Cache) (id : String) : Cache :=
  if c.handlers.contains id then c else { c with handlers := c.handlers ++ [id] }
def Cache.unregister (c : Cache) (id : String) : Cache := { c with handlers := c.handlers.filter (· != id) }

end SV.LRU
