/-
  SV.LRU.CapacityLib — `capacityLRU` of lrucache/capacity/capacityLRUCache.go modelled AS THE CODE IMPLEMENTS IT:
  a `container/list` of `*entry{key, value, size}` elements, a Go map from keys to element POINTERS and a separately
  maintained byte counter — three structures whose agreement the hand-written model `SV.LRU.Cap` (SV/LRU/Model.lean,
  ONE list of entries) takes for granted.  Here the agreement is an invariant that is proved, not assumed
  (properties C15, C17).

  Code state:
      type capacityLRU struct { lock; size int; maxCapacityInBytes, currentCapacityInBytes int64;
                                evictList *list.List; items map[interface{}]*list.Element }
  Model state `LCap`:
      `size`, `maxBytes`  the two capacities (`NewCapacityLRU` refuses `size < 1` and `byteCapacity < 1`);
      `cur`               `currentCapacityInBytes` (an unbounded `Int`: int64 overflow is not modelled);
      `evictList`         `container/list` abstracted to the sequence of its elements, FRONT (most recent) FIRST; an element
                          is `(id, key, val, sz)`: `id` stands for the identity of the `*list.Element`, the rest for the
                          `*entry` it carries (which `update`/`adjustSize` overwrite IN PLACE through the pointer);
      `items`             the Go map as an association list key ↦ element id;
      `nextId`            allocation counter: ids are never reused.
  Every lookup goes key → (map) → element id → (list) → entry, as in the code.  A map entry whose id is not linked in the
  list stands for a pointer to an element that was unlinked; the model does not keep the content of unlinked elements, so
  in that (incoherent) situation the operations stop where the code would read the stale element — the situation is
  excluded by `Linked` (`Linked.resolve`, `Coh.deref`), and section 10 shows what goes wrong when it is not.
  The mutex is not modelled (every exported method holds it from entry to exit: the calls are atomic).

  Results
    * `Linked` (map ↔ list agreement), `Coh` (= `Linked` + byte counter = Σ sizes), `NonNeg`, `Inv`;
      `coh_step`, `nonneg_step`, `inv_step` (kept by EVERY operation, whatever the arguments: the only thing the byte
      bookkeeping needs — sizes ≥ 0 — is established by the code's own rejection of negative sizes);
      `Coh.sameKeys`, `Coh.sameLen`, `Coh.deref`, `Coh.cur_eq_sum`, `keysSlice_eq`;
    * `step_refines` / `lib_cap_refines_model`: same return values as the hand model (`Variant.current`) after every call of
      every history, states related by `LCap.abs`; `lib_cap_refines_reference`: under the `lruCache` wrapper the faithful
      model refines the independent reference LRU of RefSpec.lean (composition with `Cap.step_refines`, the step lemma of
      `sized_lru_refines_reference`);
    * on the faithful model: `lib_len_le_size`, `lib_bytes_le_max_unless_single`, `lib_write_shape` (what is evicted is a
      suffix of the recency order, least recent first, reported in that order; the written entry is the most recent
      one), `lib_evicted_keys_nodup`, `lib_negative_size_rejected`, `evictLoop_settled` (the fuel is never what stops the loop);
    * section 10: `decide`-checked incoherent states and what they break; section 11: a concrete history.
  Correspondence with the hand model `Cap`: NO behavioural difference was found under `Linked` — same flags, same values,
  same victims in the same order, same `Keys` order (oldest first in both), negative sizes refused at the same point
  (`AddSizedIfMissing`: after the lookup, in both).  Three things the hand model does not show:
    (1) it DUPLICATES the byte counter (`Cap.bytes` is a field, not a function of the entries), so a drifted counter is
        carried along by the abstraction: the simulation needs only `Linked` (`sim_run_linked`), and a drifted counter
        shows up as a disagreement with the REFERENCE and with the hand model's invariant `CapInv`, not with the hand
        model's transitions (`drifted_disagrees_with_reference`, `drifted_disagrees_with_hand_model`);
    (2) both eviction loops of the code spin forever when `shouldEvict()` holds on an EMPTY list (byte counter above the
        capacity, nothing to remove); the hand model — and this one — leave the loop there.  Unreachable from coherent
        states (`Coh.never_spins`), reachable from a drifted counter by two `Remove`s (`drifted_spins`);
    (3) `Keys` sizes its slice by the MAP and fills it from the LIST (`keysSlice`): a nil slot or an index panic as soon
        as the two lengths differ (`dangling_disagrees`, `orphan_disagrees`); exact under `Linked` (`keysSlice_eq`).
-/
import SV.LRU.RefSpec
import SV.Persist.ShardedProofs
namespace SV.LRU.CapLib
open SV SV.LRU

/-! ## 1. The model -/

/-- a `*list.Element` whose `Value` is an `*entry{key, value, size}` -/
structure Elem where
  id : Nat
  key : Bytes
  val : Bytes
  sz : Int
  deriving Repr, DecidableEq

/-- the `*entry` an element carries, as the hand model's `Entry` -/
def Elem.entry (e : Elem) : Entry := ⟨e.key, e.val, e.sz⟩
def Elem.kv (e : Elem) : Bytes × Bytes := (e.key, e.val)

/-! ### `container/list`, reduced to the order of the elements -/
namespace DL

/-- following an element pointer -/
def deref (l : List Elem) (id : Nat) : Option Elem := l.find? (·.id == id)
/-- `PushFront` -/
def pushFront (e : Elem) (l : List Elem) : List Elem := e :: l
/-- `MoveToFront(e)` (a no-op when `e` is not an element of the list, as in Go) -/
def moveToFront (l : List Elem) (id : Nat) : List Elem :=
  match deref l id with
  | none => l
  | some e => e :: l.filter (·.id != id)
/-- `Remove(e)` (a no-op when `e` is not an element of the list, as in Go) -/
def remove (l : List Elem) (id : Nat) : List Elem := l.filter (·.id != id)
/-- `Back()` -/
def back (l : List Elem) : Option Elem := l.getLast?
/-- `e.Value.(*entry).value = v` -/
def setValue (l : List Elem) (id : Nat) (v : Bytes) : List Elem :=
  l.map (fun e => if e.id == id then { e with val := v } else e)
/-- `e.Value.(*entry).size = s` -/
def setSize (l : List Elem) (id : Nat) (s : Int) : List Elem :=
  l.map (fun e => if e.id == id then { e with sz := s } else e)

end DL

structure LCap where
  size : Nat
  maxBytes : Nat
  cur : Int
  evictList : List Elem
  items : List (Bytes × Nat)
  nextId : Nat
  deriving Repr, DecidableEq

namespace LCap

/-- `NewCapacityLRU(size, byteCapacity)`; Go returns an error for `size < 1` or `byteCapacity < 1` -/
def new (size maxBytes : Nat) : LCap := ⟨size, maxBytes, 0, [], [], 0⟩

/-- `Purge`: fresh map, `evictList.Init()`, counter reset -/
def purge (c : LCap) : LCap := { c with items := [], evictList := [], cur := 0 }

/-- `shouldEvict`: a single element stays, however large -/
def shouldEvict (c : LCap) : Bool :=
  if c.evictList.length = 1 then false
  else decide (c.evictList.length > c.size) || decide (c.cur > (c.maxBytes : Int))

/-- `removeElement(e)`: `evictList.Remove(e)`; `kv := e.Value.(*entry)`; `delete(items, kv.key)`; `cur -= kv.size` -/
def removeElement (c : LCap) (e : Elem) : LCap :=
  { c with evictList := DL.remove c.evictList e.id, items := aerase e.key c.items, cur := c.cur - e.sz }

/-- `removeOldest` -/
def removeOldest (c : LCap) : LCap :=
  match DL.back c.evictList with
  | some e => c.removeElement e
  | none => c

/-- `for c.shouldEvict() { evicted := evictList.Back(); …; removeElement(evicted); … }` → (cache, evicted elements in
    eviction order).  This is the loop of `evictIfNeeded` and of `AddSizedAndReturnEvicted` alike.  The `none` branch —
    `shouldEvict()` holds and `Back()` is nil — is where BOTH Go loops spin forever (`removeOldest` does nothing,
    resp. `continue`); it needs an empty list with a byte counter above the byte capacity, see `Coh.never_spins` and
    `drifted_spins` (section 10).
    Fuel: every round unlinks at least the back element, so `Len() + 1` rounds always suffice (`evictLoop_settled`). -/
def evictLoop : Nat → LCap → List Elem → LCap × List Elem
  | 0, c, acc => (c, acc)
  | fuel + 1, c, acc =>
    if c.shouldEvict then
      match DL.back c.evictList with
      | some e => evictLoop fuel (c.removeElement e) (acc ++ [e])
      | none => (c, acc)
    else (c, acc)

/-- `evictIfNeeded` → (cache, what was evicted); the Go result is `evicted = true` iff the loop body ran -/
def evictIfNeeded (c : LCap) : LCap × List Elem := evictLoop (c.evictList.length + 1) c []

/-- `addNew`: `ent := &entry{…}; e := evictList.PushFront(ent); items[key] = e; cur += sizeInBytes` -/
def addNew (c : LCap) (k v : Bytes) (size : Int) : LCap :=
  { c with evictList := DL.pushFront ⟨c.nextId, k, v, size⟩ c.evictList, items := aset k c.nextId c.items,
           cur := c.cur + size, nextId := c.nextId + 1 }

/-- `adjustSize(key, sizeInBytes)`: looks the element up AGAIN through the map; `cur -= v.size; v.size = sizeInBytes;
    cur += sizeInBytes` -/
def adjustSize (c : LCap) (k : Bytes) (size : Int) : LCap :=
  match alookup k c.items with
  | none => c
  | some id =>
    match DL.deref c.evictList id with
    | none => c
    | some e => { c with cur := c.cur - e.sz + size, evictList := DL.setSize c.evictList id size }

/-- `update(key, value, sizeInBytes, ent)`: `MoveToFront(ent)`; `sizeDiff := sizeInBytes - e.size`; `e.value = value`;
    `e.size = sizeInBytes`; `cur += sizeDiff`; `adjustSize(key, sizeInBytes)` -/
def update (c : LCap) (k v : Bytes) (size : Int) (id : Nat) : LCap :=
  match DL.deref (DL.moveToFront c.evictList id) id with
  | none => c
  | some e =>
    adjustSize { c with evictList := DL.setSize (DL.setValue (DL.moveToFront c.evictList id) id v) id size,
                        cur := c.cur + (size - e.sz) } k size

/-- the unexported `addSized`: a negative size is logged and refused; else `update` or `addNew` -/
def addSizedCore (c : LCap) (k v : Bytes) (size : Int) : LCap :=
  if size < 0 then c
  else
    match alookup k c.items with
    | some id => c.update k v size id
    | none => c.addNew k v size

/-- `AddSized` → (cache, evicted?) -/
def addSized (c : LCap) (k v : Bytes) (size : Int) : LCap × Bool :=
  ((c.addSizedCore k v size).evictIfNeeded.1, !(c.addSizedCore k v size).evictIfNeeded.2.isEmpty)

/-- `AddSizedAndReturnEvicted` → (cache, evicted (key, value) pairs IN EVICTION ORDER).  Go returns them as a map, which
    loses the order and would merge two pairs with the same key; `lib_evicted_keys_nodup` shows that under `Coh` no key
    occurs twice, so the Go map holds exactly these pairs. -/
def addSizedAndReturnEvicted (c : LCap) (k v : Bytes) (size : Int) : LCap × List (Bytes × Bytes) :=
  ((c.addSizedCore k v size).evictIfNeeded.1, (c.addSizedCore k v size).evictIfNeeded.2.map Elem.kv)

/-- `AddSizedIfMissing` → (cache, found, evicted): the map is consulted first, THEN the size is validated -/
def addSizedIfMissing (c : LCap) (k v : Bytes) (size : Int) : LCap × Bool × Bool :=
  match alookup k c.items with
  | some _ => (c, true, false)
  | none =>
    if size < 0 then (c, false, false)
    else ((c.addNew k v size).evictIfNeeded.1, false, !(c.addNew k v size).evictIfNeeded.2.isEmpty)

/-- `Get` → (cache, value if ok).  (`ent.Value.(*entry) == nil` never holds: only `addNew` creates elements.) -/
def get (c : LCap) (k : Bytes) : LCap × Option Bytes :=
  match alookup k c.items with
  | some id => ({ c with evictList := DL.moveToFront c.evictList id }, (DL.deref c.evictList id).map (·.val))
  | none => (c, none)

/-- `Contains`: the map alone -/
def contains (c : LCap) (k : Bytes) : Bool := (alookup k c.items).isSome

/-- `Peek` -/
def peek (c : LCap) (k : Bytes) : Option Bytes :=
  match alookup k c.items with
  | some id => (DL.deref c.evictList id).map (·.val)
  | none => none

/-- `Remove` → (cache, was contained) -/
def remove (c : LCap) (k : Bytes) : LCap × Bool :=
  match alookup k c.items with
  | some id =>
    match DL.deref c.evictList id with
    | some e => (c.removeElement e, true)
    | none => (c, true)
  | none => (c, false)

/-- `Keys`: walks `Back()`, `Prev()`, … — oldest to newest -/
def keys (c : LCap) : List Bytes := c.evictList.reverse.map (·.key)

/-- `Keys` to the letter: `keys := make([]interface{}, len(c.items))` is filled from the LIST.  `none` = index out of
    range (the list is longer than the map); a `none` slot = a nil left in the slice (the map is larger than the list).
    `keysSlice_eq`: under `Linked` the slice is filled exactly. -/
def keysSlice (c : LCap) : Option (List (Option Bytes)) :=
  if c.evictList.length ≤ c.items.length then
    some (c.keys.map some ++ List.replicate (c.items.length - c.evictList.length) none)
  else none

/-- `Len`: of the LIST -/
def len (c : LCap) : Nat := c.evictList.length

/-- the conversion `uint64(x)` of an int64 -/
def u64 (x : Int) : Nat := if 0 ≤ x then x.toNat else (x + 18446744073709551616).toNat

/-- `SizeInBytesContained`: `uint64(currentCapacityInBytes)` -/
def sizeInBytesContained (c : LCap) : Nat := u64 c.cur

end LCap

/-! ### operations and outputs -/

inductive Op
  | addSized (k v : Bytes) (size : Int)
  | addSizedRet (k v : Bytes) (size : Int)
  | addIfMissing (k v : Bytes) (size : Int)
  | get (k : Bytes)
  | contains (k : Bytes)
  | peek (k : Bytes)
  | remove (k : Bytes)
  | keys
  | len
  | bytes
  | purge
  deriving Repr, DecidableEq

inductive Out
  | evicted (b : Bool)
  | evictedPairs (l : List (Bytes × Bytes))
  | foundEvicted (found evicted : Bool)
  | value (v : Option Bytes)
  | present (b : Bool)
  | removed (b : Bool)
  | keys (l : List Bytes)
  | len (n : Nat)
  | bytes (n : Nat)
  | purged
  deriving Repr, DecidableEq

/-- one call on the faithful model → (cache, return value) -/
def LCap.step (c : LCap) : Op → LCap × Out
  | .addSized k v s => ((c.addSized k v s).1, .evicted (c.addSized k v s).2)
  | .addSizedRet k v s => ((c.addSizedAndReturnEvicted k v s).1, .evictedPairs (c.addSizedAndReturnEvicted k v s).2)
  | .addIfMissing k v s =>
    ((c.addSizedIfMissing k v s).1, .foundEvicted (c.addSizedIfMissing k v s).2.1 (c.addSizedIfMissing k v s).2.2)
  | .get k => ((c.get k).1, .value (c.get k).2)
  | .contains k => (c, .present (c.contains k))
  | .peek k => (c, .value (c.peek k))
  | .remove k => ((c.remove k).1, .removed (c.remove k).2)
  | .keys => (c, .keys c.keys)
  | .len => (c, .len c.len)
  | .bytes => (c, .bytes c.sizeInBytesContained)
  | .purge => (c.purge, .purged)

/-- the hand-written model `SV.LRU.Cap` (current code), driven by the same calls -/
def capStep (s : Cap) : Op → Cap × Out
  | .addSized k v sz => ((s.addSized Variant.current k v sz).1, .evicted (s.addSized Variant.current k v sz).2)
  | .addSizedRet k v sz =>
    ((s.addSizedAndReturnEvicted Variant.current k v sz).1,
     .evictedPairs ((s.addSizedAndReturnEvicted Variant.current k v sz).2.map (fun e => (e.key, e.val))))
  | .addIfMissing k v sz =>
    ((s.addSizedIfMissing Variant.current k v sz).1,
     .foundEvicted (s.addSizedIfMissing Variant.current k v sz).2.1 (s.addSizedIfMissing Variant.current k v sz).2.2)
  | .get k => ((s.get k).1, .value (s.get k).2)
  | .contains k => (s, .present (s.has k))
  | .peek k => (s, .value (s.peek k))
  | .remove k => ((s.remove k).1, .removed (s.remove k).2)
  | .keys => (s, .keys s.keys)
  | .len => (s, .len s.entries.length)
  | .bytes => (s, .bytes (LCap.u64 s.bytes))
  | .purge => (s.purge, .purged)

/-- the abstraction function: forget element ids and the map; the byte counter is carried over as it is -/
def LCap.abs (c : LCap) : Cap := ⟨c.size, (c.maxBytes : Int), c.evictList.map Elem.entry, c.cur⟩

/-! ### histories -/

def finalState {σ : Type} (step : σ → Op → σ × Out) : σ → List Op → σ
  | s, [] => s
  | s, op :: ops => finalState step (step s op).1 ops

def trace {σ : Type} (step : σ → Op → σ × Out) : σ → List Op → List Out
  | _, [] => []
  | s, op :: ops => (step s op).2 :: trace step (step s op).1 ops

/-- 3 items / 10 bytes; an overwrite that grows an entry and thereby evicts, a refresh by `Get` that changes the victim,
    a removal -/
def demo : List Op :=
  [ .addSized [1] [10] 3,            -- 1
    .addSized [2] [20] 3,            -- 1 2
    .addSized [3] [30] 3,            -- 1 2 3      (9 bytes)
    .get [1],                        -- 2 3 1      (refresh: the least recent is now 2)
    .addSizedRet [3] [31] 5,         -- 2 1 3(5)   11 bytes > 10: evicts 2, NOT 1
    .remove [1],                     -- 3
    .addIfMissing [4] [40] 2 ]       -- 3 4


/-! ## 2. Lists of elements -/

section lists

/-- Σ of the sizes of the linked elements -/
def total (l : List Elem) : Int := sumSizes (l.map Elem.entry)

@[simp] theorem total_nil : total [] = 0 := rfl

@[simp] theorem total_cons (e : Elem) (l : List Elem) : total (e :: l) = e.sz + total l := by
  unfold total
  rw [List.map_cons, sumSizes_cons]
  rfl

@[simp] theorem total_append (a b : List Elem) : total (a ++ b) = total a + total b := by
  unfold total
  rw [List.map_append, sumSizes_append]

theorem total_reverse (l : List Elem) : total l.reverse = total l := by
  induction l with
  | nil => rfl
  | cons x xs ih => rw [List.reverse_cons, total_append, total_cons, total_cons, ih, total_nil]; omega

theorem total_eq_sum (l : List Elem) : total l = (l.map (·.sz)).sum := by
  induction l with
  | nil => rfl
  | cons x xs ih => rw [total_cons, List.map_cons, List.sum_cons, ih]

theorem find_unique_id (l : List Elem) (e : Elem) (hn : (l.map (·.id)).Nodup) (he : e ∈ l) :
    l.find? (·.id == e.id) = some e := by
  induction l with
  | nil => simp at he
  | cons x xs ih =>
    simp only [List.map_cons, List.nodup_cons] at hn
    rcases List.mem_cons.mp he with rfl | he'
    · simp
    · have hx : x.id ≠ e.id := fun h => hn.1 (by rw [h]; exact List.mem_map_of_mem he')
      have hb : (x.id == e.id) = false := by simp [hx]
      rw [List.find?_cons, hb]
      exact ih hn.2 he'

theorem find_unique_key (l : List Elem) (e : Elem) (hn : (l.map (·.key)).Nodup) (he : e ∈ l) :
    l.find? (·.key == e.key) = some e := find_unique Elem.key l e.key e hn he rfl

/-- with distinct keys and distinct ids, "the element with key `k`" and "the element with that id" are the same thing -/
theorem filter_id_eq_filter_key (l : List Elem) (e : Elem) (hk : (l.map (·.key)).Nodup) (hi : (l.map (·.id)).Nodup)
    (he : e ∈ l) : l.filter (·.id != e.id) = l.filter (·.key != e.key) := by
  apply List.filter_congr
  intro x hx
  by_cases hxe : x = e
  · subst hxe; simp
  · have h1 : x.id ≠ e.id := by
      intro h
      have := find_unique_id l x hi hx
      rw [h, find_unique_id l e hi he] at this
      exact hxe (Option.some.inj this).symm
    have h2 : x.key ≠ e.key := by
      intro h
      have := find_unique_key l x hk hx
      rw [h, find_unique_key l e hk he] at this
      exact hxe (Option.some.inj this).symm
    rw [bne_iff_ne.mpr h1, bne_iff_ne.mpr h2]

theorem find_filter_key (l : List Elem) (k k' : Bytes) :
    (l.filter (·.key != k)).find? (·.key == k') = if k' = k then none else l.find? (·.key == k') := by
  induction l with
  | nil => simp
  | cons x xs ih =>
    by_cases hx : x.key = k
    · have : (x.key != k) = false := by simp [hx]
      rw [List.filter_cons, this]
      simp only [Bool.false_eq_true, if_false]
      rw [ih]
      split
      · rfl
      · rename_i hne
        have hb : (x.key == k') = false := by simp [hx]; exact fun h => hne h.symm
        rw [List.find?_cons, hb]
    · have : (x.key != k) = true := by simp [hx]
      rw [List.filter_cons, this]
      simp only [if_true]
      rw [List.find?_cons, List.find?_cons, ih]
      cases hb : (x.key == k') with
      | true =>
        have : x.key = k' := by simpa using hb
        have hne : ¬ k' = k := fun h => hx (this.trans h)
        simp [hne]
      | false => rfl

/-- removing the last element by id is `dropLast` -/
theorem filter_id_last (init : List Elem) (e : Elem) (hi : ((init ++ [e]).map (·.id)).Nodup) :
    (init ++ [e]).filter (·.id != e.id) = init := by
  rw [List.filter_append]
  have h1 : init.filter (·.id != e.id) = init := by
    rw [List.filter_eq_self]
    intro x hx
    have : x.id ≠ e.id := by
      intro h
      rw [List.map_append, List.nodup_append] at hi
      exact hi.2.2 x.id (List.mem_map_of_mem hx) e.id (by simp) h
    simp [this]
  rw [h1]
  simp

theorem not_mem_keys_filter (l : List Elem) (k : Bytes) : k ∉ (l.filter (·.key != k)).map (·.key) := by
  intro hm
  obtain ⟨x, hx, hxk⟩ := List.mem_map.mp hm
  have := (List.mem_filter.mp hx).2
  simp [hxk] at this

/-! ### the hand model's list functions through `map Elem.entry` -/

theorem any_entry (l : List Elem) (k : Bytes) :
    (l.map Elem.entry).any (·.key == k) = (l.find? (·.key == k)).isSome := by
  induction l with
  | nil => rfl
  | cons x xs ih =>
    rw [List.map_cons, List.any_cons, List.find?_cons, ih]
    show ((x.key == k) || _) = _
    cases (x.key == k) <;> rfl

theorem find_entry (l : List Elem) (k : Bytes) :
    (l.map Elem.entry).find? (·.key == k) = (l.find? (·.key == k)).map Elem.entry := by
  induction l with
  | nil => rfl
  | cons x xs ih =>
    rw [List.map_cons, List.find?_cons, List.find?_cons, ih]
    show (match (x.key == k) with | true => _ | false => _) = _
    cases (x.key == k) <;> rfl

theorem filter_entry (l : List Elem) (k : Bytes) :
    (l.map Elem.entry).filter (·.key != k) = (l.filter (·.key != k)).map Elem.entry := by
  induction l with
  | nil => rfl
  | cons x xs ih =>
    rw [List.map_cons, List.filter_cons, List.filter_cons, ih]
    show (if (x.key != k) = true then _ else _) = _
    cases (x.key != k) <;> rfl

/-- unlinking the element that carries a key: one element less, its size less -/
theorem filter_facts (l : List Elem) (e : Elem) (hk : (l.map (·.key)).Nodup) (he : e ∈ l) :
    (l.filter (·.key != e.key)).length + 1 = l.length ∧ total (l.filter (·.key != e.key)) + e.sz = total l := by
  have hf : (l.map Elem.entry).find? (·.key == e.key) = some e.entry := by
    rw [find_entry, find_unique_key l e hk he]; rfl
  have hn : ((l.map Elem.entry).map (·.key)).Nodup := by rw [List.map_map]; exact hk
  obtain ⟨h1, h2⟩ := filter_find_facts e.key (l.map Elem.entry) e.entry hn hf
  rw [filter_entry, List.length_map, List.length_map] at h1
  rw [filter_entry] at h2
  exact ⟨h1, h2⟩

theorem filter_key_last (l : List Elem) (o : Elem) (hk : (l.map (·.key)).Nodup) (hi : (l.map (·.id)).Nodup)
    (hb : l.getLast? = some o) : l.filter (·.key != o.key) = l.dropLast := by
  obtain ⟨init, rfl⟩ := List.getLast?_eq_some_iff.mp hb
  rw [← filter_id_eq_filter_key _ o hk hi (by simp), filter_id_last init o hi]
  simp

theorem setValue_front (l : List Elem) (e : Elem) (v : Bytes) :
    DL.setValue (e :: l.filter (·.id != e.id)) e.id v = { e with val := v } :: l.filter (·.id != e.id) := by
  unfold DL.setValue
  rw [List.map_cons]
  congr 1
  · simp
  · have : ∀ x ∈ l.filter (·.id != e.id),
        (fun x : Elem => if (x.id == e.id) = true then { x with val := v } else x) x = id x := by
      intro x hx
      have := (List.mem_filter.mp hx).2
      have hne : (x.id == e.id) = false := by simpa [bne] using this
      simp [hne]
    rw [List.map_congr_left this, List.map_id]

theorem setSize_front (l : List Elem) (e : Elem) (s : Int) :
    DL.setSize (e :: l.filter (·.id != e.id)) e.id s = { e with sz := s } :: l.filter (·.id != e.id) := by
  unfold DL.setSize
  rw [List.map_cons]
  congr 1
  · simp
  · have : ∀ x ∈ l.filter (·.id != e.id),
        (fun x : Elem => if (x.id == e.id) = true then { x with sz := s } else x) x = id x := by
      intro x hx
      have := (List.mem_filter.mp hx).2
      have hne : (x.id == e.id) = false := by simpa [bne] using this
      simp [hne]
    rw [List.map_congr_left this, List.map_id]

end lists


/-! ## 3. The coherence invariant -/

/-- map ↔ list agreement -/
structure Linked (c : LCap) : Prop where
  /-- no key twice in the list -/
  keysNodup : (c.evictList.map (·.key)).Nodup
  /-- an element is linked once -/
  idsNodup : (c.evictList.map (·.id)).Nodup
  /-- ids are below the allocation counter (never reused) -/
  idsFresh : ∀ e ∈ c.evictList, e.id < c.nextId
  /-- a Go map binds a key once -/
  itemsNodup : (c.items.map (·.1)).Nodup
  /-- `items[k]` is (the pointer to) the list element that carries key `k` — in both directions: the map and the list
      hold the same keys, and each map entry's id is the id of the element carrying that key -/
  lookup : ∀ k, alookup k c.items = (c.evictList.find? (·.key == k)).map (·.id)

/-- COHERENCE of the three structures: the map and the list agree, and the byte counter is the sum of the sizes of the
    linked elements -/
structure Coh (c : LCap) : Prop where
  linked : Linked c
  bytes : c.cur = total c.evictList

/-- every linked element has a size ≥ 0 (what `uint64(currentCapacityInBytes)` and "removing never makes the cache
    exceed a limit" need; established by the code itself: `addSized`/`AddSizedIfMissing` refuse negative sizes) -/
def NonNeg (c : LCap) : Prop := ∀ e ∈ c.evictList, 0 ≤ e.sz

/-- within both limits, or a single entry -/
def Within (c : LCap) : Prop :=
  c.evictList.length ≤ 1 ∨ (c.evictList.length ≤ c.size ∧ c.cur ≤ (c.maxBytes : Int))

/-- the full state invariant of `capacityLRU` between two calls -/
structure Inv (c : LCap) : Prop where
  coh : Coh c
  nonneg : NonNeg c
  within : Within c

theorem Linked.resolve {c : LCap} (h : Linked c) {k : Bytes} {id : Nat} (hl : alookup k c.items = some id) :
    ∃ e, e ∈ c.evictList ∧ e.key = k ∧ e.id = id ∧ c.evictList.find? (·.key == k) = some e ∧
      DL.deref c.evictList id = some e := by
  have := h.lookup k
  rw [hl] at this
  cases hf : c.evictList.find? (·.key == k) with
  | none => rw [hf] at this; simp at this
  | some e =>
    rw [hf] at this
    have hid : e.id = id := by simpa using this.symm
    have hm := List.mem_of_find?_eq_some hf
    have hk : e.key = k := by simpa using List.find?_some hf
    refine ⟨e, hm, hk, hid, rfl, ?_⟩
    rw [← hid]
    exact find_unique_id _ e h.idsNodup hm

theorem Linked.absent {c : LCap} (h : Linked c) {k : Bytes} (hl : alookup k c.items = none) :
    c.evictList.find? (·.key == k) = none := by
  have := h.lookup k
  rw [hl] at this
  cases hf : c.evictList.find? (·.key == k) with
  | none => rfl
  | some e => rw [hf] at this; simp at this

theorem Linked.lookup_mem {c : LCap} (h : Linked c) {e : Elem} (he : e ∈ c.evictList) :
    alookup e.key c.items = some e.id := by
  rw [h.lookup, find_unique_key _ e h.keysNodup he]; rfl

/-- `removeElement` of a linked element is "remove its key" -/
theorem Linked.removeElement {c : LCap} (h : Linked c) {e : Elem} (he : e ∈ c.evictList) :
    Linked (c.removeElement e) ∧ (c.removeElement e).evictList = c.evictList.filter (·.key != e.key) := by
  have hev : (c.removeElement e).evictList = c.evictList.filter (·.key != e.key) :=
    filter_id_eq_filter_key _ e h.keysNodup h.idsNodup he
  refine ⟨⟨?_, ?_, ?_, ?_, ?_⟩, hev⟩
  · rw [hev]; exact List.Nodup.sublist (List.Sublist.map _ List.filter_sublist) h.keysNodup
  · rw [hev]; exact List.Nodup.sublist (List.Sublist.map _ List.filter_sublist) h.idsNodup
  · rw [hev]; intro x hx; exact h.idsFresh x (List.mem_filter.mp hx).1
  · exact SV.Persist.nodup_keys_aerase e.key c.items h.itemsNodup
  · intro k
    rw [hev, find_filter_key]
    show alookup k (aerase e.key c.items) = _
    split
    · rename_i hk; rw [hk]; exact SV.Persist.alookup_aerase_self e.key c.items
    · rename_i hk; rw [SV.Persist.alookup_aerase_ne hk]; exact h.lookup k

theorem Linked.addNew {c : LCap} (h : Linked c) {k : Bytes} (v : Bytes) (s : Int) (hl : alookup k c.items = none) :
    Linked (c.addNew k v s) := by
  have hab := h.absent hl
  rw [List.find?_eq_none] at hab
  refine ⟨?_, ?_, ?_, ?_, ?_⟩
  · show ((⟨c.nextId, k, v, s⟩ :: c.evictList).map (·.key)).Nodup
    simp only [List.map_cons, List.nodup_cons]
    refine ⟨?_, h.keysNodup⟩
    intro hm
    obtain ⟨x, hx, hxk⟩ := List.mem_map.mp hm
    exact hab x hx (by simp [hxk])
  · show ((⟨c.nextId, k, v, s⟩ :: c.evictList).map (·.id)).Nodup
    simp only [List.map_cons, List.nodup_cons]
    refine ⟨?_, h.idsNodup⟩
    intro hm
    obtain ⟨x, hx, hxk⟩ := List.mem_map.mp hm
    have := h.idsFresh x hx
    omega
  · intro x hx
    show x.id < c.nextId + 1
    have hx' : x ∈ (⟨c.nextId, k, v, s⟩ : Elem) :: c.evictList := hx
    rcases List.mem_cons.mp hx' with rfl | hx'
    · exact Nat.lt_succ_self _
    · exact Nat.lt_succ_of_lt (h.idsFresh x hx')
  · exact SV.Persist.nodup_keys_aset k c.nextId c.items h.itemsNodup
  · intro k'
    show alookup k' (aset k c.nextId c.items) = ((⟨c.nextId, k, v, s⟩ :: c.evictList).find? (·.key == k')).map (·.id)
    by_cases hk : k' = k
    · subst hk
      rw [SV.Persist.alookup_aset_self]
      simp
    · rw [SV.Persist.alookup_aset_ne hk, List.find?_cons]
      have : (k == k') = false := by simp; exact fun e => hk e.symm
      simp only [this]
      exact h.lookup k'

/-- `MoveToFront` of a linked element, possibly with a new value and size (the counter is not `Linked`'s business) -/
theorem Linked.touch {c : LCap} (h : Linked c) {e : Elem} (he : e ∈ c.evictList) (w : Bytes) (s cur' : Int) :
    Linked { c with evictList := ⟨e.id, e.key, w, s⟩ :: c.evictList.filter (·.key != e.key), cur := cur' } := by
  refine ⟨?_, ?_, ?_, h.itemsNodup, ?_⟩
  · show (((⟨e.id, e.key, w, s⟩ : Elem) :: c.evictList.filter (·.key != e.key)).map (·.key)).Nodup
    simp only [List.map_cons, List.nodup_cons]
    exact ⟨not_mem_keys_filter _ _, List.Nodup.sublist (List.Sublist.map _ List.filter_sublist) h.keysNodup⟩
  · show (((⟨e.id, e.key, w, s⟩ : Elem) :: c.evictList.filter (·.key != e.key)).map (·.id)).Nodup
    rw [← filter_id_eq_filter_key _ e h.keysNodup h.idsNodup he]
    simp only [List.map_cons, List.nodup_cons]
    refine ⟨?_, List.Nodup.sublist (List.Sublist.map _ List.filter_sublist) h.idsNodup⟩
    intro hm
    obtain ⟨x, hx, hxk⟩ := List.mem_map.mp hm
    have := (List.mem_filter.mp hx).2
    simp [hxk] at this
  · intro x hx
    have hx' : x ∈ (⟨e.id, e.key, w, s⟩ : Elem) :: c.evictList.filter (·.key != e.key) := hx
    rcases List.mem_cons.mp hx' with rfl | hx'
    · exact h.idsFresh e he
    · exact h.idsFresh x (List.mem_filter.mp hx').1
  · intro k
    show alookup k c.items
      = (((⟨e.id, e.key, w, s⟩ : Elem) :: c.evictList.filter (·.key != e.key)).find? (·.key == k)).map (·.id)
    by_cases hk : k = e.key
    · subst hk
      rw [h.lookup_mem he]
      simp
    · rw [List.find?_cons]
      have : (e.key == k) = false := by simp; exact fun e => hk e.symm
      simp only [this]
      rw [find_filter_key, if_neg hk]
      exact h.lookup k

theorem Linked.new (size maxBytes : Nat) : Linked (LCap.new size maxBytes) :=
  { keysNodup := List.nodup_nil, idsNodup := List.nodup_nil, idsFresh := fun e he => (by cases he),
    itemsNodup := List.nodup_nil, lookup := fun _ => rfl }

theorem Linked.purge (c : LCap) : Linked c.purge :=
  { keysNodup := List.nodup_nil, idsNodup := List.nodup_nil, idsFresh := fun e he => (by cases he),
    itemsNodup := List.nodup_nil, lookup := fun _ => rfl }

theorem Coh.new (size maxBytes : Nat) : Coh (LCap.new size maxBytes) := ⟨Linked.new size maxBytes, rfl⟩

theorem Inv.new (size maxBytes : Nat) : Inv (LCap.new size maxBytes) :=
  ⟨Coh.new size maxBytes, fun e he => (by cases he), Or.inl (Nat.zero_le _)⟩


/-! ## 4. What each operation does on a linked state -/

theorem moveToFront_eq {c : LCap} (h : Linked c) {e : Elem} (he : e ∈ c.evictList) :
    DL.moveToFront c.evictList e.id = e :: c.evictList.filter (·.id != e.id) := by
  unfold DL.moveToFront DL.deref
  rw [find_unique_id _ e h.idsNodup he]

theorem deref_front (e : Elem) (l : List Elem) : DL.deref (e :: l) e.id = some e := by
  simp [DL.deref]

/-- `update` through the pointer found in the map: the element moves to the front with the new value and size; the
    counter moves by the difference — and `adjustSize`, which subtracts and re-adds the size just written, changes nothing -/
theorem update_eq {c : LCap} (h : Linked c) {k : Bytes} {id : Nat} (v : Bytes) (s : Int)
    (hl : alookup k c.items = some id) :
    ∃ e, e ∈ c.evictList ∧ e.key = k ∧ e.id = id ∧
      c.update k v s id
        = { c with evictList := ⟨e.id, e.key, v, s⟩ :: c.evictList.filter (·.key != e.key),
                   cur := c.cur + (s - e.sz) } := by
  obtain ⟨e, he, hek, hid, _, _⟩ := h.resolve hl
  refine ⟨e, he, hek, hid, ?_⟩
  subst hid
  subst hek
  unfold LCap.update
  rw [moveToFront_eq h he, deref_front]
  simp only []
  rw [setValue_front, setSize_front]
  unfold LCap.adjustSize
  simp only [hl]
  have hd := deref_front ⟨e.id, e.key, v, s⟩ (c.evictList.filter (·.id != e.id))
  have hs := setSize_front c.evictList ⟨e.id, e.key, v, s⟩ s
  simp only [] at hd hs
  rw [hd]
  simp only []
  rw [hs, filter_id_eq_filter_key _ e h.keysNodup h.idsNodup he]
  congr 1
  omega


/-- a key the map knows: what `Get`, `Peek`, `Remove` do -/
theorem present_case {c : LCap} (h : Linked c) {k : Bytes} {id : Nat} (hl : alookup k c.items = some id) :
    ∃ e, e ∈ c.evictList ∧ e.key = k ∧ e.id = id ∧ c.evictList.find? (·.key == k) = some e ∧
      c.get k = ({ c with evictList := e :: c.evictList.filter (·.key != e.key) }, some e.val) ∧
      c.peek k = some e.val ∧ c.remove k = (c.removeElement e, true) := by
  obtain ⟨e, he, hek, hid, hf, hd⟩ := h.resolve hl
  refine ⟨e, he, hek, hid, hf, ?_, ?_, ?_⟩
  · simp only [LCap.get, hl, hd]
    rw [← hid, moveToFront_eq h he, filter_id_eq_filter_key _ e h.keysNodup h.idsNodup he]
    rfl
  · simp only [LCap.peek, hl, hd]; rfl
  · simp only [LCap.remove, hl, hd]

/-- a key the map does not know -/
theorem absent_case {c : LCap} {k : Bytes} (hl : alookup k c.items = none) :
    c.get k = (c, none) ∧ c.peek k = none ∧ c.remove k = (c, false) ∧ c.contains k = false := by
  refine ⟨?_, ?_, ?_, ?_⟩
  · simp only [LCap.get, hl]
  · simp only [LCap.peek, hl]
  · simp only [LCap.remove, hl]
  · simp only [LCap.contains, hl]; rfl

/-! ## 5. Abstraction lemmas -/

theorem abs_has {c : LCap} (h : Linked c) (k : Bytes) : c.abs.has k = c.contains k := by
  show (c.evictList.map Elem.entry).any (·.key == k) = (alookup k c.items).isSome
  rw [any_entry, h.lookup]
  cases c.evictList.find? (·.key == k) <;> rfl

theorem abs_find (c : LCap) (k : Bytes) : c.abs.find k = (c.evictList.find? (·.key == k)).map Elem.entry :=
  find_entry c.evictList k

theorem abs_shouldEvict (c : LCap) : c.abs.shouldEvict = c.shouldEvict := by
  unfold Cap.shouldEvict LCap.shouldEvict LCap.abs
  simp only [List.length_map]

theorem loop_false (fuel : Nat) (c : LCap) (acc : List Elem) (h : c.shouldEvict = false) :
    LCap.evictLoop (fuel + 1) c acc = (c, acc) := by
  simp [LCap.evictLoop, h]

theorem loop_none (fuel : Nat) (c : LCap) (acc : List Elem) (h : c.shouldEvict = true)
    (hg : c.evictList.getLast? = none) : LCap.evictLoop (fuel + 1) c acc = (c, acc) := by
  simp [LCap.evictLoop, DL.back, h, hg]

theorem loop_some (fuel : Nat) (c : LCap) (acc : List Elem) (e : Elem) (h : c.shouldEvict = true)
    (hg : c.evictList.getLast? = some e) :
    LCap.evictLoop (fuel + 1) c acc = LCap.evictLoop fuel (c.removeElement e) (acc ++ [e]) := by
  simp [LCap.evictLoop, DL.back, h, hg]

/-- unlinking the back element -/
theorem removeBack {c : LCap} (h : Linked c) {o : Elem} (hb : c.evictList.getLast? = some o) :
    Linked (c.removeElement o) ∧ (c.removeElement o).evictList = c.evictList.dropLast ∧
    (c.removeElement o).abs = { c.abs with entries := c.abs.entries.dropLast, bytes := c.abs.bytes - o.entry.size } := by
  have ho := List.mem_of_getLast? hb
  obtain ⟨h1, h2⟩ := h.removeElement ho
  have h3 : (c.removeElement o).evictList = c.evictList.dropLast := by
    rw [h2, filter_key_last _ o h.keysNodup h.idsNodup hb]
  refine ⟨h1, h3, ?_⟩
  show (⟨c.size, (c.maxBytes : Int), (c.removeElement o).evictList.map Elem.entry, c.cur - o.sz⟩ : Cap)
    = ⟨c.size, (c.maxBytes : Int), (c.evictList.map Elem.entry).dropLast, c.cur - o.sz⟩
  rw [h3, List.map_dropLast]

/-- the eviction loop, round by round: the map/list agreement is kept, the hand model's loop does the same, the byte
    counter stays the sum if it was, sizes stay ≥ 0; what is evicted is a suffix of the list, back element first -/
theorem evictLoop_refines (fuel : Nat) : ∀ (c : LCap) (acc : List Elem), Linked c →
    Linked (LCap.evictLoop fuel c acc).1 ∧
    (LCap.evictLoop fuel c acc).1.abs = (Cap.evictLoop fuel c.abs (acc.map Elem.entry)).1 ∧
    (LCap.evictLoop fuel c acc).2.map Elem.entry = (Cap.evictLoop fuel c.abs (acc.map Elem.entry)).2 ∧
    (c.cur = total c.evictList →
      (LCap.evictLoop fuel c acc).1.cur = total (LCap.evictLoop fuel c acc).1.evictList) ∧
    ∃ d, (LCap.evictLoop fuel c acc).2 = acc ++ d ∧
      c.evictList = (LCap.evictLoop fuel c acc).1.evictList ++ d.reverse := by
  induction fuel with
  | zero =>
    intro c acc h
    exact ⟨h, rfl, rfl, fun hb => hb, [], by simp [LCap.evictLoop], by simp [LCap.evictLoop]⟩
  | succ fuel ih =>
    intro c acc h
    have hse := abs_shouldEvict c
    cases hs : c.shouldEvict with
    | false =>
      rw [hs] at hse
      rw [loop_false fuel c acc hs, evictLoop_false fuel c.abs _ hse]
      exact ⟨h, rfl, rfl, fun hb => hb, [], by simp, by simp⟩
    | true =>
      rw [hs] at hse
      have hlast : c.abs.entries.getLast? = c.evictList.getLast?.map Elem.entry := List.getLast?_map
      cases hg : c.evictList.getLast? with
      | none =>
        rw [hg] at hlast
        rw [loop_none fuel c acc hs hg, evictLoop_none fuel c.abs _ hse hlast]
        exact ⟨h, rfl, rfl, fun hb => hb, [], by simp, by simp⟩
      | some o =>
        rw [hg] at hlast
        rw [loop_some fuel c acc o hs hg, evictLoop_some fuel c.abs _ o.entry hse hlast]
        obtain ⟨r1, r2, r3⟩ := removeBack h hg
        obtain ⟨i1, i2, i3, i4, d, i5, i6⟩ := ih (c.removeElement o) (acc ++ [o]) r1
        have hsplit : c.evictList = c.evictList.dropLast ++ [o] := by
          obtain ⟨ys, hys⟩ := List.getLast?_eq_some_iff.mp hg
          rw [hys]; simp
        rw [r3, List.map_append] at i2 i3
        refine ⟨i1, i2, i3, ?_, o :: d, ?_, ?_⟩
        · intro hb
          apply i4
          show c.cur - o.sz = total (c.removeElement o).evictList
          rw [r2]
          have : total c.evictList = total c.evictList.dropLast + o.sz := by
            conv => lhs; rw [hsplit]
            simp
          omega
        · rw [i5]; simp
        · conv => lhs; rw [hsplit]
          rw [← r2, i6]; simp



theorem evictIfNeeded_refines {c : LCap} (h : Linked c) :
    Linked c.evictIfNeeded.1 ∧ c.evictIfNeeded.1.abs = c.abs.evictIfNeeded.1 ∧
    c.evictIfNeeded.2.map Elem.entry = c.abs.evictIfNeeded.2 ∧
    (c.cur = total c.evictList → c.evictIfNeeded.1.cur = total c.evictIfNeeded.1.evictList) ∧
    c.evictList = c.evictIfNeeded.1.evictList ++ c.evictIfNeeded.2.reverse := by
  have hlen : c.abs.entries.length = c.evictList.length := List.length_map _
  obtain ⟨h1, h2, h3, h4, d, h5, h6⟩ := evictLoop_refines (c.evictList.length + 1) c [] h
  unfold LCap.evictIfNeeded Cap.evictIfNeeded
  rw [hlen]
  simp only [List.nil_append] at h5
  rw [h5]
  rw [h5] at h3
  exact ⟨h1, h2, h3, h4, h6⟩

/-- the evicted elements were linked; the survivors too -/
theorem evictIfNeeded_mem {c : LCap} (h : Linked c) (x : Elem) :
    (x ∈ c.evictIfNeeded.1.evictList → x ∈ c.evictList) ∧ (x ∈ c.evictIfNeeded.2 → x ∈ c.evictList) := by
  obtain ⟨_, _, _, _, h5⟩ := evictIfNeeded_refines h
  constructor
  · intro hx; rw [h5]; exact List.mem_append_left _ hx
  · intro hx; rw [h5]; exact List.mem_append_right _ (List.mem_reverse.mpr hx)

theorem filter_absent (l : List Elem) (k : Bytes) (h : l.find? (·.key == k) = none) :
    l.filter (·.key != k) = l := by
  rw [List.filter_eq_self]
  rw [List.find?_eq_none] at h
  intro a ha
  simpa using h a ha

/-- the write itself (before the eviction loop) -/
theorem addSizedCore_refines (c : LCap) (k v : Bytes) (s : Int) (h : Linked c) :
    Linked (c.addSizedCore k v s) ∧ (c.addSizedCore k v s).abs = c.abs.addSizedCore Variant.current k v s ∧
    (c.cur = total c.evictList → (c.addSizedCore k v s).cur = total (c.addSizedCore k v s).evictList) ∧
    (NonNeg c → NonNeg (c.addSizedCore k v s)) ∧
    (0 ≤ s → ∃ id, (c.addSizedCore k v s).evictList = ⟨id, k, v, s⟩ :: c.evictList.filter (·.key != k)) := by
  by_cases hs : s < 0
  · have hlib : c.addSizedCore k v s = c := by unfold LCap.addSizedCore; rw [if_pos hs]
    rw [hlib, addSizedCore_negative c.abs k v s hs]
    exact ⟨h, rfl, id, id, fun h0 => absurd h0 (by omega)⟩
  · cases hl : alookup k c.items with
    | some id =>
      obtain ⟨e, he, hek, hid, heq⟩ := update_eq h v s hl
      have hlib : c.addSizedCore k v s
          = { c with evictList := ⟨e.id, e.key, v, s⟩ :: c.evictList.filter (·.key != e.key),
                     cur := c.cur + (s - e.sz) } := by
        unfold LCap.addSizedCore
        rw [if_neg hs]
        simp only [hl]
        exact heq
      have hhas : c.abs.has k = true := by rw [abs_has h, LCap.contains, hl]; rfl
      have hfind : c.abs.find k = some e.entry := by
        rw [abs_find, ← hek, find_unique_key _ e h.keysNodup he]; rfl
      have hhand : c.abs.addSizedCore Variant.current k v s
          = ⟨c.size, (c.maxBytes : Int), ⟨k, v, s⟩ :: c.abs.entries.filter (·.key != k), c.cur + (s - e.sz)⟩ := by
        simp only [Cap.addSizedCore, hs, if_false, hhas, if_true, Cap.update, hfind, Variant.current]
        rfl
      obtain ⟨_, ht⟩ := filter_facts c.evictList e h.keysNodup he
      rw [hlib, hhand]
      refine ⟨h.touch he v s _, ?_, ?_, ?_, ?_⟩
      · show (⟨c.size, (c.maxBytes : Int),
            Elem.entry ⟨e.id, e.key, v, s⟩ :: (c.evictList.filter (·.key != e.key)).map Elem.entry, _⟩ : Cap) = _
        rw [← filter_entry, hek]
        rfl
      · intro hb
        show c.cur + (s - e.sz) = total (⟨e.id, e.key, v, s⟩ :: c.evictList.filter (·.key != e.key))
        rw [total_cons]
        show c.cur + (s - e.sz) = s + total (c.evictList.filter (·.key != e.key))
        omega
      · intro hn x hx
        have hx' : x ∈ (⟨e.id, e.key, v, s⟩ : Elem) :: c.evictList.filter (·.key != e.key) := hx
        rcases List.mem_cons.mp hx' with rfl | hx'
        · show 0 ≤ s; omega
        · exact hn x (List.mem_filter.mp hx').1
      · intro _
        exact ⟨e.id, by rw [hek]⟩
    | none =>
      have hlib : c.addSizedCore k v s = c.addNew k v s := by
        unfold LCap.addSizedCore
        rw [if_neg hs]
        simp only [hl]
      have hhas : c.abs.has k = false := by rw [abs_has h, LCap.contains, hl]; rfl
      have hhand : c.abs.addSizedCore Variant.current k v s = c.abs.addNew k v s := by
        simp only [Cap.addSizedCore, hs, if_false, hhas, Bool.false_eq_true]
      rw [hlib, hhand]
      refine ⟨h.addNew v s hl, rfl, ?_, ?_, ?_⟩
      · intro hb
        show c.cur + s = total (⟨c.nextId, k, v, s⟩ :: c.evictList)
        rw [total_cons]
        show c.cur + s = s + total c.evictList
        omega
      · intro hn x hx
        have hx' : x ∈ (⟨c.nextId, k, v, s⟩ : Elem) :: c.evictList := hx
        rcases List.mem_cons.mp hx' with rfl | hx'
        · show 0 ≤ s; omega
        · exact hn x hx'
      · intro _
        exact ⟨c.nextId, by rw [filter_absent _ _ (h.absent hl)]; rfl⟩


/-! ## 6. Every operation: agreement kept, hand model matched, counter and sizes kept -/

/-- what the four properties are about, in one place -/
structure Step (c c' : LCap) (s' : Cap) : Prop where
  linked : Linked c'
  abs : c'.abs = s'
  bytes : c.cur = total c.evictList → c'.cur = total c'.evictList
  nonneg : NonNeg c → NonNeg c'

theorem Step.refl {c : LCap} (h : Linked c) : Step c c c.abs := ⟨h, rfl, id, id⟩

/-- write, then evict -/
theorem write_refines (c : LCap) (k v : Bytes) (s : Int) (h : Linked c) :
    Step c (c.addSizedCore k v s).evictIfNeeded.1 ((c.abs.addSizedCore Variant.current k v s).evictIfNeeded).1 ∧
    (c.addSizedCore k v s).evictIfNeeded.2.map Elem.entry
      = ((c.abs.addSizedCore Variant.current k v s).evictIfNeeded).2 := by
  obtain ⟨w1, w2, w3, w4, _⟩ := addSizedCore_refines c k v s h
  obtain ⟨e1, e2, e3, e4, _⟩ := evictIfNeeded_refines w1
  rw [w2] at e2 e3
  refine ⟨⟨e1, e2, fun hb => e4 (w3 hb), ?_⟩, e3⟩
  intro hn x hx
  exact w4 hn x ((evictIfNeeded_mem w1 x).1 hx)

theorem isEmpty_map_entry (l : List Elem) : (l.map Elem.entry).isEmpty = l.isEmpty := by
  cases l <;> rfl

theorem addSized_refines (c : LCap) (k v : Bytes) (s : Int) (h : Linked c) :
    Step c (c.addSized k v s).1 (c.abs.addSized Variant.current k v s).1 ∧
    (c.addSized k v s).2 = (c.abs.addSized Variant.current k v s).2 := by
  obtain ⟨h1, h2⟩ := write_refines c k v s h
  refine ⟨h1, ?_⟩
  show (!(c.addSizedCore k v s).evictIfNeeded.2.isEmpty)
    = !((c.abs.addSizedCore Variant.current k v s).evictIfNeeded).2.isEmpty
  rw [← h2, isEmpty_map_entry]

theorem addSizedAndReturnEvicted_refines (c : LCap) (k v : Bytes) (s : Int) (h : Linked c) :
    Step c (c.addSizedAndReturnEvicted k v s).1 (c.abs.addSizedAndReturnEvicted Variant.current k v s).1 ∧
    (c.addSizedAndReturnEvicted k v s).2
      = (c.abs.addSizedAndReturnEvicted Variant.current k v s).2.map (fun e => (e.key, e.val)) := by
  obtain ⟨h1, h2⟩ := write_refines c k v s h
  refine ⟨h1, ?_⟩
  show (c.addSizedCore k v s).evictIfNeeded.2.map Elem.kv
    = ((c.abs.addSizedCore Variant.current k v s).evictIfNeeded).2.map (fun e => (e.key, e.val))
  rw [← h2, List.map_map]
  rfl

theorem addSizedIfMissing_refines (c : LCap) (k v : Bytes) (s : Int) (h : Linked c) :
    Step c (c.addSizedIfMissing k v s).1 (c.abs.addSizedIfMissing Variant.current k v s).1 ∧
    (c.addSizedIfMissing k v s).2 = (c.abs.addSizedIfMissing Variant.current k v s).2 := by
  cases hl : alookup k c.items with
  | some id =>
    have hhas : c.abs.has k = true := by rw [abs_has h, LCap.contains, hl]; rfl
    have hlib : c.addSizedIfMissing k v s = (c, true, false) := by simp only [LCap.addSizedIfMissing, hl]
    have hhand : c.abs.addSizedIfMissing Variant.current k v s = (c.abs, true, false) := by
      simp [Cap.addSizedIfMissing, Variant.current, hhas]
    rw [hlib, hhand]
    exact ⟨Step.refl h, rfl⟩
  | none =>
    have hhas : c.abs.has k = false := by rw [abs_has h, LCap.contains, hl]; rfl
    by_cases hs : s < 0
    · have hlib : c.addSizedIfMissing k v s = (c, false, false) := by simp only [LCap.addSizedIfMissing, hl, hs, if_true]
      have hhand : c.abs.addSizedIfMissing Variant.current k v s = (c.abs, false, false) := by
        simp [Cap.addSizedIfMissing, Variant.current, hhas, hs]
      rw [hlib, hhand]
      exact ⟨Step.refl h, rfl⟩
    · have hcore : c.addSizedCore k v s = c.addNew k v s := by
        unfold LCap.addSizedCore
        rw [if_neg hs]
        simp only [hl]
      have hlib : c.addSizedIfMissing k v s
          = ((c.addSizedCore k v s).evictIfNeeded.1, false, !(c.addSizedCore k v s).evictIfNeeded.2.isEmpty) := by
        simp only [LCap.addSizedIfMissing, hl, hs, if_false, hcore]
      have hhand : c.abs.addSizedIfMissing Variant.current k v s
          = (((c.abs.addSizedCore Variant.current k v s).evictIfNeeded).1, false,
             !((c.abs.addSizedCore Variant.current k v s).evictIfNeeded).2.isEmpty) := by
        rw [← addNew_eq_core c.abs k v s hhas hs]
        simp [Cap.addSizedIfMissing, Variant.current, hhas, hs]
      obtain ⟨h1, h2⟩ := write_refines c k v s h
      rw [hlib, hhand]
      refine ⟨h1, ?_⟩
      rw [← h2, isEmpty_map_entry]

theorem get_refines (c : LCap) (k : Bytes) (h : Linked c) :
    Step c (c.get k).1 (c.abs.get k).1 ∧ (c.get k).2 = (c.abs.get k).2 := by
  cases hl : alookup k c.items with
  | some id =>
    obtain ⟨e, he, hek, _, hf, hget, _, _⟩ := present_case h hl
    have hfind : c.abs.find k = some e.entry := by rw [abs_find, hf]; rfl
    have hhand : c.abs.get k = (⟨c.size, (c.maxBytes : Int), e.entry :: c.abs.entries.filter (·.key != k), c.cur⟩,
        some e.val) := by
      simp only [Cap.get, hfind]
      rfl
    obtain ⟨_, ht⟩ := filter_facts c.evictList e h.keysNodup he
    rw [hget, hhand]
    refine ⟨⟨?_, ?_, ?_, ?_⟩, rfl⟩
    · exact h.touch he e.val e.sz c.cur
    · show (⟨c.size, (c.maxBytes : Int), e.entry :: (c.evictList.filter (·.key != e.key)).map Elem.entry, c.cur⟩ : Cap)
        = _
      rw [← filter_entry, hek]
      rfl
    · intro hb
      show c.cur = total (e :: c.evictList.filter (·.key != e.key))
      rw [total_cons]; omega
    · intro hn x hx
      have hx' : x ∈ e :: c.evictList.filter (·.key != e.key) := hx
      rcases List.mem_cons.mp hx' with rfl | hx'
      · exact hn _ he
      · exact hn x (List.mem_filter.mp hx').1
  | none =>
    have hfind : c.abs.find k = none := by rw [abs_find, h.absent hl]; rfl
    have hhand : c.abs.get k = (c.abs, none) := by simp only [Cap.get, hfind]
    rw [(absent_case hl).1, hhand]
    exact ⟨Step.refl h, rfl⟩

theorem peek_refines (c : LCap) (k : Bytes) (h : Linked c) : c.peek k = c.abs.peek k := by
  cases hl : alookup k c.items with
  | some id =>
    obtain ⟨e, _, _, _, hf, _, hpk, _⟩ := present_case h hl
    rw [hpk, Cap.peek, abs_find, hf]
    rfl
  | none =>
    rw [(absent_case hl).2.1, Cap.peek, abs_find, h.absent hl]
    rfl

theorem remove_refines (c : LCap) (k : Bytes) (h : Linked c) :
    Step c (c.remove k).1 (c.abs.remove k).1 ∧ (c.remove k).2 = (c.abs.remove k).2 := by
  cases hl : alookup k c.items with
  | some id =>
    obtain ⟨e, he, hek, _, hf, _, _, hrm⟩ := present_case h hl
    have hfind : c.abs.find k = some e.entry := by rw [abs_find, hf]; rfl
    have hhand : c.abs.remove k = (⟨c.size, (c.maxBytes : Int), c.abs.entries.filter (·.key != k), c.cur - e.sz⟩,
        true) := by
      simp only [Cap.remove, hfind]
      rfl
    obtain ⟨_, ht⟩ := filter_facts c.evictList e h.keysNodup he
    obtain ⟨r1, r2⟩ := h.removeElement he
    rw [hrm, hhand]
    refine ⟨⟨r1, ?_, ?_, ?_⟩, rfl⟩
    · show (⟨c.size, (c.maxBytes : Int), (c.removeElement e).evictList.map Elem.entry, c.cur - e.sz⟩ : Cap) = _
      rw [r2, ← filter_entry, hek]
      rfl
    · intro hb
      show c.cur - e.sz = total (c.removeElement e).evictList
      rw [r2]; omega
    · intro hn x hx
      have hx' : x ∈ (c.removeElement e).evictList := hx
      rw [r2] at hx'
      exact hn x (List.mem_filter.mp hx').1
  | none =>
    have hfind : c.abs.find k = none := by rw [abs_find, h.absent hl]; rfl
    have hhand : c.abs.remove k = (c.abs, false) := by simp only [Cap.remove, hfind]
    rw [(absent_case hl).2.2.1, hhand]
    exact ⟨Step.refl h, rfl⟩

theorem keys_refines (c : LCap) : c.keys = c.abs.keys := by
  show c.evictList.reverse.map (·.key) = (c.evictList.map Elem.entry).reverse.map (·.key)
  rw [← List.map_reverse, List.map_map]
  rfl

theorem len_refines (c : LCap) : c.len = c.abs.entries.length := (List.length_map _).symm

/-- STEP LEMMA.  One call on a state whose map and list agree (`Linked`; the byte counter may be anything): the
    agreement is kept, the abstraction commutes with the hand model's operation, the return value is the hand
    model's; if the counter was the sum of the linked sizes it still is; if all sizes were ≥ 0 they still are -/
theorem step_refines (c : LCap) (op : Op) (h : Linked c) :
    Step c (c.step op).1 (capStep c.abs op).1 ∧ (c.step op).2 = (capStep c.abs op).2 := by
  cases op with
  | addSized k v s =>
    obtain ⟨h1, h2⟩ := addSized_refines c k v s h
    exact ⟨h1, congrArg Out.evicted h2⟩
  | addSizedRet k v s =>
    obtain ⟨h1, h2⟩ := addSizedAndReturnEvicted_refines c k v s h
    exact ⟨h1, congrArg Out.evictedPairs h2⟩
  | addIfMissing k v s =>
    obtain ⟨h1, h2⟩ := addSizedIfMissing_refines c k v s h
    refine ⟨h1, ?_⟩
    show Out.foundEvicted _ _ = Out.foundEvicted _ _
    rw [h2]
  | get k =>
    obtain ⟨h1, h2⟩ := get_refines c k h
    exact ⟨h1, congrArg Out.value h2⟩
  | contains k => exact ⟨Step.refl h, congrArg Out.present (abs_has h k).symm⟩
  | peek k => exact ⟨Step.refl h, congrArg Out.value (peek_refines c k h)⟩
  | remove k =>
    obtain ⟨h1, h2⟩ := remove_refines c k h
    exact ⟨h1, congrArg Out.removed h2⟩
  | keys => exact ⟨Step.refl h, congrArg Out.keys (keys_refines c)⟩
  | len => exact ⟨Step.refl h, congrArg Out.len (len_refines c)⟩
  | bytes => exact ⟨Step.refl h, rfl⟩
  | purge => exact ⟨⟨Linked.purge c, rfl, fun _ => rfl, fun _ e he => (by cases he)⟩, rfl⟩


/-! ## 7. The invariants are kept by every operation -/

/-- COHERENCE IS KEPT by every call, whatever its arguments (negative sizes included: the code refuses them) -/
theorem coh_step (c : LCap) (op : Op) (h : Coh c) : Coh (c.step op).1 :=
  ⟨(step_refines c op h.linked).1.linked, (step_refines c op h.linked).1.bytes h.bytes⟩

/-- no negative size ever enters the list — not assumed of the caller: `addSized` and `AddSizedIfMissing` refuse a
    negative `sizeInBytes` before touching anything -/
theorem nonneg_step (c : LCap) (op : Op) (h : Linked c) (hn : NonNeg c) : NonNeg (c.step op).1 :=
  (step_refines c op h).1.nonneg hn

theorem total_nonneg (l : List Elem) (h : ∀ e ∈ l, 0 ≤ e.sz) : 0 ≤ total l := by
  induction l with
  | nil => simp
  | cons x xs ih =>
    rw [total_cons]
    have := h x (by simp)
    have := ih (fun e he => h e (List.mem_cons_of_mem _ he))
    omega

/-- the hand model's invariant holds of the abstraction -/
theorem abs_inv {c : LCap} (h : Inv c) : CapInv c.abs := by
  refine ⟨?_, ?_, h.coh.bytes, ?_⟩
  · show ((c.evictList.map Elem.entry).map (·.key)).Nodup
    rw [List.map_map]; exact h.coh.linked.keysNodup
  · intro e he
    obtain ⟨x, hx, rfl⟩ := List.mem_map.mp he
    exact h.nonneg x hx
  · show (c.evictList.map Elem.entry).length ≤ 1 ∨
      ((c.evictList.map Elem.entry).length ≤ c.size ∧ sumSizes (c.evictList.map Elem.entry) ≤ (c.maxBytes : Int))
    rw [List.length_map]
    have hb : c.cur = sumSizes (c.evictList.map Elem.entry) := h.coh.bytes
    rw [← hb]
    exact h.within

theorem inv_of_abs {c : LCap} (h : Coh c) (hc : CapInv c.abs) : Inv c := by
  refine ⟨h, ?_, ?_⟩
  · intro e he
    exact hc.sizes e.entry (List.mem_map_of_mem he)
  · have hf := hc.fits
    have hb : c.cur = sumSizes (c.evictList.map Elem.entry) := h.bytes
    show c.evictList.length ≤ 1 ∨ (c.evictList.length ≤ c.size ∧ c.cur ≤ (c.maxBytes : Int))
    rw [hb, ← List.length_map (f := Elem.entry)]
    exact hf

theorem capInv_step (s : Cap) (op : Op) (h : CapInv s) : CapInv (capStep s op).1 := by
  cases op with
  | addSized k v sz => exact CapInv.addSized s k v sz h
  | addSizedRet k v sz => exact CapInv.addSizedCore_evict s k v sz h
  | addIfMissing k v sz => exact CapInv.addSizedIfMissing s k v sz h
  | get k => exact CapInv.get s k h
  | remove k => exact CapInv.remove s k h
  | purge => exact CapInv.purge s
  | _ => exact h

/-- THE STATE INVARIANT IS KEPT by every call -/
theorem inv_step (c : LCap) (op : Op) (h : Inv c) : Inv (c.step op).1 := by
  apply inv_of_abs (coh_step c op h.coh)
  rw [(step_refines c op h.coh.linked).1.abs]
  exact capInv_step c.abs op (abs_inv h)

/-- the same, method by method -/
theorem coh_addSized (c : LCap) (k v : Bytes) (s : Int) (h : Coh c) : Coh (c.addSized k v s).1 :=
  coh_step c (.addSized k v s) h
theorem coh_addSizedAndReturnEvicted (c : LCap) (k v : Bytes) (s : Int) (h : Coh c) :
    Coh (c.addSizedAndReturnEvicted k v s).1 := coh_step c (.addSizedRet k v s) h
theorem coh_addSizedIfMissing (c : LCap) (k v : Bytes) (s : Int) (h : Coh c) : Coh (c.addSizedIfMissing k v s).1 :=
  coh_step c (.addIfMissing k v s) h
theorem coh_get (c : LCap) (k : Bytes) (h : Coh c) : Coh (c.get k).1 := coh_step c (.get k) h
theorem coh_remove (c : LCap) (k : Bytes) (h : Coh c) : Coh (c.remove k).1 := coh_step c (.remove k) h
theorem coh_purge (c : LCap) : Coh c.purge := ⟨Linked.purge c, rfl⟩

/-- the hypothesis is met by a state with two residents; by a state whose counter has drifted it is not (section 10) -/
example : Coh (finalState LCap.step (LCap.new 3 10) [.addSized [1] [10] 1, .addSized [2] [20] 1]) :=
  coh_step _ _ (coh_step _ _ (Coh.new 3 10))

/-! ### coherence in the words of the code -/

/-- `items` and `evictList` hold the same keys (each once) -/
theorem Linked.sameKeys {c : LCap} (h : Linked c) : (c.items.map (·.1)).Perm (c.evictList.map (·.key)) := by
  rw [List.perm_ext_iff_of_nodup h.itemsNodup h.keysNodup]
  intro k
  constructor
  · intro hk
    obtain ⟨p, hp, rfl⟩ := List.mem_map.mp hk
    obtain ⟨k, id⟩ := p
    obtain ⟨e, he, hek, _⟩ := h.resolve (SV.Persist.alookup_of_mem_nodup c.items h.itemsNodup hp)
    exact hek ▸ List.mem_map_of_mem he
  · intro hk
    obtain ⟨e, he, rfl⟩ := List.mem_map.mp hk
    exact List.mem_map.mpr ⟨(e.key, e.id), SV.Persist.mem_keys_of_alookup_some _ (h.lookup_mem he), rfl⟩

theorem Coh.sameKeys {c : LCap} (h : Coh c) : (c.items.map (·.1)).Perm (c.evictList.map (·.key)) := h.linked.sameKeys

/-- `len(c.items) == c.evictList.Len()` -/
theorem Linked.sameLen {c : LCap} (h : Linked c) : c.items.length = c.evictList.length := by
  have := h.sameKeys.length_eq
  simpa using this

theorem Coh.sameLen {c : LCap} (h : Coh c) : c.items.length = c.evictList.length := h.linked.sameLen

/-- no dangling and no stale map entry: `items[k]` points to a linked element, and that element carries key `k` -/
theorem Coh.deref {c : LCap} (h : Coh c) {k : Bytes} {id : Nat} (hp : (k, id) ∈ c.items) :
    ∃ e, DL.deref c.evictList id = some e ∧ e ∈ c.evictList ∧ e.key = k ∧ e.id = id := by
  obtain ⟨e, he, hek, hid, _, hd⟩ :=
    h.linked.resolve (SV.Persist.alookup_of_mem_nodup c.items h.linked.itemsNodup hp)
  exact ⟨e, hd, he, hek, hid⟩

/-- …and every linked element is what the map holds for its key -/
theorem Coh.mapped {c : LCap} (h : Coh c) {e : Elem} (he : e ∈ c.evictList) : (e.key, e.id) ∈ c.items :=
  SV.Persist.mem_keys_of_alookup_some _ (h.linked.lookup_mem he)

/-- `currentCapacityInBytes` is the sum of the sizes of the linked elements -/
theorem Coh.cur_eq_sum {c : LCap} (h : Coh c) : c.cur = (c.evictList.map (·.sz)).sum := by
  rw [h.bytes, total_eq_sum]

theorem u64_nonneg (x : Int) (h : 0 ≤ x) : (LCap.u64 x : Int) = x := by
  unfold LCap.u64
  rw [if_pos h]
  omega

/-- `SizeInBytesContained` converts to `uint64` without wrapping -/
theorem Inv.sizeInBytes {c : LCap} (h : Inv c) : (c.sizeInBytesContained : Int) = (c.evictList.map (·.sz)).sum := by
  rw [← h.coh.cur_eq_sum]
  apply u64_nonneg
  rw [h.coh.bytes]
  exact total_nonneg _ h.nonneg

/-- the slice `Keys` allocates from `len(c.items)` is filled exactly by the walk over the list -/
theorem keysSlice_eq {c : LCap} (h : Linked c) : c.keysSlice = some (c.keys.map some) := by
  unfold LCap.keysSlice
  rw [h.sameLen]
  simp

/-- the `Back() == nil` corner of the eviction loops (where the Go code would spin) is not reachable from a coherent
    state: an empty list means a zero counter -/
theorem Coh.never_spins {c : LCap} (h : Coh c) (hs : c.shouldEvict = true) : DL.back c.evictList ≠ none := by
  intro hb
  have hnil : c.evictList = [] := List.getLast?_eq_none_iff.mp hb
  have hc := h.bytes
  rw [hnil] at hc
  unfold LCap.shouldEvict at hs
  rw [hnil, hc] at hs
  simp at hs
  omega


/-! ## 8. Refinement over whole histories -/

/-- the simulation needs only the map/list agreement: even with a byte counter that has drifted, the faithful model and
    the hand model (which carries the same counter) stay in step — see section 10 for what a drifted counter does break -/
theorem sim_run_linked (ops : List Op) : ∀ c : LCap, Linked c →
    trace LCap.step c ops = trace capStep c.abs ops ∧
    (finalState LCap.step c ops).abs = finalState capStep c.abs ops ∧ Linked (finalState LCap.step c ops) := by
  induction ops with
  | nil => intro c h; exact ⟨rfl, rfl, h⟩
  | cons op ops ih =>
    intro c h
    obtain ⟨h1, h2⟩ := step_refines c op h
    obtain ⟨i1, i2, i3⟩ := ih (c.step op).1 h1.linked
    rw [h1.abs] at i1 i2
    refine ⟨?_, i2, i3⟩
    show (c.step op).2 :: _ = (capStep c.abs op).2 :: _
    rw [i1, h2]

theorem finalState_inv (ops : List Op) : ∀ c : LCap, Inv c → Inv (finalState LCap.step c ops) := by
  induction ops with
  | nil => intro c h; exact h
  | cons op ops ih => intro c h; exact ih _ (inv_step c op h)

/-- MAIN THEOREM.  For all capacities and EVERY history of `AddSized`, `AddSizedAndReturnEvicted`, `AddSizedIfMissing`,
    `Get`, `Contains`, `Peek`, `Remove`, `Keys`, `Len`, `SizeInBytesContained`, `Purge`: the code's `capacityLRU` (linked list
    + map of element pointers + byte counter) and the hand-written one-list model `SV.LRU.Cap` return the same value at
    every step (evicted pairs in the same order), the final states are related by the abstraction function, and the
    representation invariant (coherence, sizes ≥ 0, within the limits unless a single entry) holds. -/
theorem lib_cap_refines_model (size maxBytes : Nat) (ops : List Op) :
    trace LCap.step (LCap.new size maxBytes) ops = trace capStep (Cap.init size maxBytes) ops ∧
    (finalState LCap.step (LCap.new size maxBytes) ops).abs = finalState capStep (Cap.init size maxBytes) ops ∧
    Inv (finalState LCap.step (LCap.new size maxBytes) ops) := by
  obtain ⟨h1, h2, _⟩ := sim_run_linked ops (LCap.new size maxBytes) (Linked.new size maxBytes)
  exact ⟨h1, h2, finalState_inv ops _ (Inv.new size maxBytes)⟩

/-- the same from any state satisfying the invariant -/
theorem lib_cap_refines_model_from (c : LCap) (h : Inv c) (ops : List Op) :
    trace LCap.step c ops = trace capStep c.abs ops ∧
    (finalState LCap.step c ops).abs = finalState capStep c.abs ops ∧ Inv (finalState LCap.step c ops) := by
  obtain ⟨h1, h2, _⟩ := sim_run_linked ops c h.coh.linked
  exact ⟨h1, h2, finalState_inv ops c h⟩

/-! ### closing the chain of C15: the faithful model under the `lruCache` wrapper refines the reference LRU -/

/-- `lruCache` over `capacityLRU` (lrucache.go): `Put` is `AddSized`; `HasOrAdd` is `AddSizedIfMissing` followed, when
    not found, by `added = Contains(key)`; `Remove` drops the flag; `Clear` is `Purge` -/
def LCap.stepL (c : LCap) : LOp → LCap × LOut
  | .put k v s => ((c.addSized k v s).1, .evicted (c.addSized k v s).2)
  | .hoa k v s =>
    if (c.addSizedIfMissing k v s).2.1 then (c, .hasAdded true false)
    else ((c.addSizedIfMissing k v s).1, .hasAdded false ((c.addSizedIfMissing k v s).1.contains k))
  | .get k => ((c.get k).1, .value (c.get k).2)
  | .peek k => (c, .value (c.peek k))
  | .has k => (c, .present (c.contains k))
  | .rm k => ((c.remove k).1, .done)
  | .clear => (c.purge, .done)

/-- `Keys()`, the values in the same order, `SizeInBytesContained()`, `Len()` -/
def LCap.obsL (c : LCap) : SV.LRU.Obs :=
  ⟨c.keys, c.evictList.reverse.map (·.val), (c.sizeInBytesContained : Int), c.len⟩

theorem obsL_eq {c : LCap} (h : Inv c) : c.obsL = c.abs.obs := by
  have hb : (c.sizeInBytesContained : Int) = c.cur := by
    apply u64_nonneg
    rw [h.coh.bytes]
    exact total_nonneg _ h.nonneg
  show (⟨c.keys, c.evictList.reverse.map (·.val), (c.sizeInBytesContained : Int), c.len⟩ : SV.LRU.Obs)
    = ⟨c.abs.keys, (c.evictList.map Elem.entry).reverse.map (·.val), c.cur, (c.evictList.map Elem.entry).length⟩
  rw [keys_refines, hb, ← List.map_reverse, List.map_map, List.length_map]
  rfl

theorem stepL_refines (c : LCap) (op : LOp) (h : Inv c) :
    Inv (c.stepL op).1 ∧ (c.stepL op).1.abs = (c.abs.stepL op).1 ∧ (c.stepL op).2 = (c.abs.stepL op).2 := by
  have hl := h.coh.linked
  cases op with
  | put k v s =>
    obtain ⟨h1, h2⟩ := addSized_refines c k v s hl
    exact ⟨inv_step c (.addSized k v s) h, h1.abs, congrArg LOut.evicted h2⟩
  | hoa k v s =>
    obtain ⟨h1, h2⟩ := addSizedIfMissing_refines c k v s hl
    have hi := inv_step c (.addIfMissing k v s) h
    have h21 : (c.addSizedIfMissing k v s).2.1 = (c.abs.addSizedIfMissing Variant.current k v s).2.1 := by rw [h2]
    simp only [LCap.stepL, Cap.stepL, ← h21]
    cases hf : (c.addSizedIfMissing k v s).2.1 with
    | true => exact ⟨h, rfl, rfl⟩
    | false =>
      simp only [Bool.false_eq_true, if_false]
      refine ⟨hi, h1.abs, ?_⟩
      rw [← h1.abs, abs_has h1.linked]
  | get k =>
    obtain ⟨h1, h2⟩ := get_refines c k hl
    exact ⟨inv_step c (.get k) h, h1.abs, congrArg LOut.value h2⟩
  | peek k => exact ⟨h, rfl, congrArg LOut.value (peek_refines c k hl)⟩
  | has k => exact ⟨h, rfl, congrArg LOut.present (abs_has hl k).symm⟩
  | rm k =>
    obtain ⟨h1, _⟩ := remove_refines c k hl
    exact ⟨inv_step c (.remove k) h, h1.abs, rfl⟩
  | clear => exact ⟨inv_step c .purge h, rfl, rfl⟩

/-- C15 without assuming that the list, the map and the counter of `capacityLRU` agree: for all capacities and every
    history of the wrapper's operations, the FAITHFUL model produces the reference LRU's outputs and observations
    (`Keys` in order, values, `SizeInBytesContained`, `Len`) at every step.  (Composition of `stepL_refines` with
    `Cap.step_refines`, the step lemma behind `sized_lru_refines_reference`.) -/
theorem lib_cap_refines_reference (size maxBytes : Nat) (ops : List LOp) :
    SV.LRU.runTrace LCap.stepL LCap.obsL (LCap.new size maxBytes) ops
      = SV.LRU.runTrace Ref.step Ref.obs (Ref.init size (some (maxBytes : Int))) ops ∧
    (SV.LRU.runFinal LCap.stepL (LCap.new size maxBytes) ops).abs.toRef
      = SV.LRU.runFinal Ref.step (Ref.init size (some (maxBytes : Int))) ops ∧
    Inv (SV.LRU.runFinal LCap.stepL (LCap.new size maxBytes) ops) :=
  SV.LRU.sim_run LCap.stepL LCap.obsL Inv (fun c => c.abs.toRef)
    (fun c op h => by
      obtain ⟨h1, h2, h3⟩ := stepL_refines c op h
      obtain ⟨_, g2, g3⟩ := Cap.step_refines c.abs op (abs_inv h)
      exact ⟨h1, by rw [h2]; exact g2, by rw [h3]; exact g3⟩)
    (fun c h => by rw [obsL_eq h]; exact Cap.obs_eq c.abs (abs_inv h))
    ops (LCap.new size maxBytes) (Inv.new size maxBytes)


/-! ## 9. Corollaries, stated on the faithful model -/

/-- the capacities never change -/
def SameCaps (c c' : LCap) : Prop := c'.size = c.size ∧ c'.maxBytes = c.maxBytes

theorem evictLoop_caps (fuel : Nat) : ∀ (c : LCap) (acc : List Elem), SameCaps c (LCap.evictLoop fuel c acc).1 := by
  induction fuel with
  | zero => intro c acc; exact ⟨rfl, rfl⟩
  | succ fuel ih =>
    intro c acc
    unfold LCap.evictLoop
    split
    · split
      · exact ih _ _
      · exact ⟨rfl, rfl⟩
    · exact ⟨rfl, rfl⟩

theorem adjustSize_caps (c : LCap) (k : Bytes) (s : Int) : SameCaps c (c.adjustSize k s) := by
  unfold LCap.adjustSize
  split
  · exact ⟨rfl, rfl⟩
  · split <;> exact ⟨rfl, rfl⟩

theorem addSizedCore_caps (c : LCap) (k v : Bytes) (s : Int) : SameCaps c (c.addSizedCore k v s) := by
  unfold LCap.addSizedCore
  split
  · exact ⟨rfl, rfl⟩
  · split
    · unfold LCap.update
      split
      · exact ⟨rfl, rfl⟩
      · exact adjustSize_caps _ _ _
    · exact ⟨rfl, rfl⟩

theorem SameCaps.trans {a b c : LCap} (h1 : SameCaps a b) (h2 : SameCaps b c) : SameCaps a c :=
  ⟨h2.1.trans h1.1, h2.2.trans h1.2⟩

theorem step_caps (c : LCap) (op : Op) : SameCaps c (c.step op).1 := by
  cases op with
  | addSized k v s => exact (addSizedCore_caps c k v s).trans (evictLoop_caps _ _ _)
  | addSizedRet k v s => exact (addSizedCore_caps c k v s).trans (evictLoop_caps _ _ _)
  | addIfMissing k v s =>
    show SameCaps c (c.addSizedIfMissing k v s).1
    unfold LCap.addSizedIfMissing
    split
    · exact ⟨rfl, rfl⟩
    · split
      · exact ⟨rfl, rfl⟩
      · exact SameCaps.trans (b := c.addNew k v s) ⟨rfl, rfl⟩ (evictLoop_caps _ _ _)
  | get k => show SameCaps c (c.get k).1; unfold LCap.get; split <;> exact ⟨rfl, rfl⟩
  | remove k =>
    show SameCaps c (c.remove k).1
    unfold LCap.remove
    split
    · split <;> exact ⟨rfl, rfl⟩
    · exact ⟨rfl, rfl⟩
  | _ => exact ⟨rfl, rfl⟩

theorem finalState_caps (ops : List Op) : ∀ c : LCap, SameCaps c (finalState LCap.step c ops) := by
  induction ops with
  | nil => intro c; exact ⟨rfl, rfl⟩
  | cons op ops ih => intro c; exact (step_caps c op).trans (ih _)

/-- never more than `size` entries — in the list and in the map — after any history (`1 ≤ size`: what
    `NewCapacityLRU` accepts; with `size = 0` the single most recent entry still stays) -/
theorem lib_len_le_size (size maxBytes : Nat) (hs : 1 ≤ size) (ops : List Op) :
    (finalState LCap.step (LCap.new size maxBytes) ops).len ≤ size ∧
    (finalState LCap.step (LCap.new size maxBytes) ops).items.length ≤ size := by
  obtain ⟨_, _, h⟩ := lib_cap_refines_model size maxBytes ops
  have hc := (finalState_caps ops (LCap.new size maxBytes)).1
  have hw := h.within
  rw [h.coh.sameLen]
  unfold Within at hw
  rw [hc] at hw
  show (finalState LCap.step (LCap.new size maxBytes) ops).evictList.length ≤ size ∧ _
  have hsz : (LCap.new size maxBytes).size = size := rfl
  omega

/-- the byte counter (= the sum of the resident sizes, = what `SizeInBytesContained` reports) is within the byte
    capacity after any history — unless exactly one entry is held (a single oversized entry stays) -/
theorem lib_bytes_le_max_unless_single (size maxBytes : Nat) (ops : List Op) :
    let c := finalState LCap.step (LCap.new size maxBytes) ops
    (c.cur ≤ (maxBytes : Int) ∨ c.len = 1) ∧ (c.sizeInBytesContained ≤ maxBytes ∨ c.len = 1) ∧
    (c.sizeInBytesContained : Int) = (c.evictList.map (·.sz)).sum := by
  intro c
  obtain ⟨_, _, h⟩ := lib_cap_refines_model size maxBytes ops
  have h : Inv c := h
  have hc : c.maxBytes = maxBytes := (finalState_caps ops (LCap.new size maxBytes)).2
  have hw := h.within
  unfold Within at hw
  rw [hc] at hw
  have hcur : c.cur ≤ (maxBytes : Int) ∨ c.len = 1 := by
    rcases hw with hw | hw
    · by_cases h1 : c.evictList.length = 1
      · exact Or.inr h1
      · left
        have : c.evictList = [] := List.eq_nil_of_length_eq_zero (by omega)
        rw [h.coh.bytes, this]
        simp
    · exact Or.inl hw.2
  have hu : (c.sizeInBytesContained : Int) = c.cur := by
    rw [h.sizeInBytes, h.coh.cur_eq_sum]
  refine ⟨hcur, ?_, h.sizeInBytes⟩
  rcases hcur with h1 | h1
  · left; omega
  · exact Or.inr h1

theorem shouldEvict_false_of_within {c : LCap} (h : Coh c) (hw : Within c) : c.shouldEvict = false := by
  unfold LCap.shouldEvict
  split
  · rfl
  · rename_i h1
    rcases hw with hw | hw
    · have hnil : c.evictList = [] := List.eq_nil_of_length_eq_zero (by omega)
      have hc := h.bytes
      rw [hnil] at hc
      rw [hnil, hc]
      simp
    · simp
      omega

/-- between two calls the eviction loop has nothing to do -/
theorem evictIfNeeded_noop {c : LCap} (h : Inv c) : c.evictIfNeeded = (c, []) :=
  loop_false _ c [] (shouldEvict_false_of_within h.coh h.within)

/-- a negative size is refused by all three writing methods: nothing changes, nothing is reported -/
theorem lib_negative_size_rejected (c : LCap) (k v : Bytes) (s : Int) (h : Inv c) (hs : s < 0) :
    c.addSized k v s = (c, false) ∧ c.addSizedAndReturnEvicted k v s = (c, []) ∧
    c.addSizedIfMissing k v s = (c, c.contains k, false) := by
  have hcore : c.addSizedCore k v s = c := by unfold LCap.addSizedCore; rw [if_pos hs]
  refine ⟨?_, ?_, ?_⟩
  · unfold LCap.addSized; rw [hcore, evictIfNeeded_noop h]; rfl
  · unfold LCap.addSizedAndReturnEvicted; rw [hcore, evictIfNeeded_noop h]; rfl
  · unfold LCap.addSizedIfMissing LCap.contains
    cases alookup k c.items with
    | some id => rfl
    | none => simp [hs]

/-- WHAT A WRITE DOES (valid size).  The key's old element, if any, is taken out of the recency order; what is evicted
    is a SUFFIX of the remaining order (front = most recent), reported least recent first; the survivors keep their
    order; the written entry is the front — the most recent — element with exactly the value and size given; it is
    never among the victims.  `AddSized` leaves the same state and reports whether there were victims. -/
theorem lib_write_shape (c : LCap) (k v : Bytes) (s : Int) (h : Inv c) (hs : 0 ≤ s) :
    ∃ (id : Nat) (kept ev : List Elem), c.evictList.filter (·.key != k) = kept ++ ev.reverse ∧
      (c.addSizedAndReturnEvicted k v s).1.evictList = ⟨id, k, v, s⟩ :: kept ∧
      (c.addSizedAndReturnEvicted k v s).2 = ev.map Elem.kv ∧
      (c.addSized k v s).1 = (c.addSizedAndReturnEvicted k v s).1 ∧ (c.addSized k v s).2 = !ev.isEmpty := by
  have hl := h.coh.linked
  obtain ⟨w1, w2, w3, _, w5⟩ := addSizedCore_refines c k v s hl
  obtain ⟨id, hid⟩ := w5 hs
  obtain ⟨e1, e2, _, _, e5⟩ := evictIfNeeded_refines w1
  have hne : (c.addSizedCore k v s).evictIfNeeded.1.evictList ≠ [] := by
    have hb : (c.addSizedCore k v s).abs.bytes = sumSizes (c.addSizedCore k v s).abs.entries := w3 h.coh.bytes
    have := (evictIfNeeded_fits _ hb).2 (by
      show (c.addSizedCore k v s).evictList.map Elem.entry ≠ []
      rw [hid]; simp)
    rw [← e2] at this
    intro h0
    apply this
    show (c.addSizedCore k v s).evictIfNeeded.1.evictList.map Elem.entry = []
    rw [h0]; rfl
  rw [hid] at e5
  obtain ⟨p', hp, hrest⟩ := head_of_prefix _ _ _ _ e5 hne
  exact ⟨id, p', (c.addSizedCore k v s).evictIfNeeded.2, hrest, hp, rfl, rfl, rfl⟩

/-- the same in terms of `Keys()` (oldest first): the old `Keys()` without `k` = the victims' keys, in the order
    reported, followed by the survivors; the new `Keys()` = the survivors followed by `k` -/
theorem lib_write_keys (c : LCap) (k v : Bytes) (s : Int) (h : Inv c) (hs : 0 ≤ s) :
    ∃ survivors, c.keys.filter (· != k) = (c.addSizedAndReturnEvicted k v s).2.map (·.1) ++ survivors ∧
      (c.addSizedAndReturnEvicted k v s).1.keys = survivors ++ [k] := by
  obtain ⟨id, kept, ev, h1, h2, h3, _⟩ := lib_write_shape c k v s h hs
  refine ⟨kept.reverse.map (·.key), ?_, ?_⟩
  · have : c.keys.filter (· != k) = ((c.evictList.filter (·.key != k)).reverse).map (·.key) := by
      simp only [LCap.keys, List.filter_map, List.filter_reverse]
      rfl
    rw [this, h1, h3]
    simp [Elem.kv]
  · simp [LCap.keys, h2]

/-- the victims carry pairwise different keys (so the Go result MAP of `AddSizedAndReturnEvicted` holds exactly the
    reported pairs), none of them is the written key, and none of them is resident afterwards -/
theorem lib_evicted_keys_nodup (c : LCap) (k v : Bytes) (s : Int) (h : Inv c) (hs : 0 ≤ s) :
    ((c.addSizedAndReturnEvicted k v s).2.map (·.1)).Nodup ∧
    ∀ p ∈ (c.addSizedAndReturnEvicted k v s).2, p.1 ≠ k ∧ (c.addSizedAndReturnEvicted k v s).1.contains p.1 = false := by
  have hl := h.coh.linked
  obtain ⟨w1, _, _, _, _⟩ := addSizedCore_refines c k v s hl
  obtain ⟨e1, _, _, _, e5⟩ := evictIfNeeded_refines w1
  obtain ⟨id, kept, ev, h1, h2, h3, _⟩ := lib_write_shape c k v s h hs
  have hev : (c.addSizedCore k v s).evictIfNeeded.2.map Elem.kv = ev.map Elem.kv := h3
  have hn := w1.keysNodup
  rw [e5, List.map_append, List.nodup_append] at hn
  have hres : (c.addSizedAndReturnEvicted k v s).1 = (c.addSizedCore k v s).evictIfNeeded.1 := rfl
  have h2nd : (c.addSizedAndReturnEvicted k v s).2 = (c.addSizedCore k v s).evictIfNeeded.2.map Elem.kv := rfl
  constructor
  · rw [h2nd, List.map_map]
    have : (List.map ((fun x => x.1) ∘ Elem.kv) (c.addSizedCore k v s).evictIfNeeded.2)
        = (c.addSizedCore k v s).evictIfNeeded.2.map (·.key) := rfl
    rw [this]
    have h2' := hn.2.1
    rw [List.map_reverse] at h2'
    exact (List.reverse_perm _).nodup_iff.mp h2'
  · intro p hp
    rw [h2nd] at hp
    obtain ⟨x, hx, rfl⟩ := List.mem_map.mp hp
    have hxr : x.key ∈ ((c.addSizedCore k v s).evictIfNeeded.2.reverse).map (·.key) :=
      List.mem_map_of_mem (List.mem_reverse.mpr hx)
    have hnot : ∀ y ∈ (c.addSizedCore k v s).evictIfNeeded.1.evictList, y.key ≠ x.key :=
      fun y hy => hn.2.2 y.key (List.mem_map_of_mem hy) x.key hxr
    constructor
    · have := hnot ⟨id, k, v, s⟩ (by rw [← hres, h2]; simp)
      exact fun e => this e.symm
    · rw [hres, LCap.contains, e1.lookup]
      have : (c.addSizedCore k v s).evictIfNeeded.1.evictList.find? (·.key == (Elem.kv x).1) = none := by
        rw [List.find?_eq_none]
        intro y hy
        have := hnot y hy
        show (y.key == x.key) ≠ true
        simpa using this
      rw [this]
      rfl

/-- THE FUEL IS NEVER WHAT STOPS THE LOOP — for any state whatsoever, coherent or not: with `Len() + 1` rounds (or
    more) the loop ends because `shouldEvict()` is false, or in the `Back() == nil` corner in which the Go code spins -/
theorem evictLoop_settled (fuel : Nat) : ∀ (c : LCap) (acc : List Elem), c.evictList.length + 1 ≤ fuel →
    (LCap.evictLoop fuel c acc).1.shouldEvict = false ∨ DL.back (LCap.evictLoop fuel c acc).1.evictList = none := by
  induction fuel with
  | zero => intro c acc h; omega
  | succ fuel ih =>
    intro c acc hf
    cases hs : c.shouldEvict with
    | false => rw [loop_false fuel c acc hs]; exact Or.inl hs
    | true =>
      cases hg : c.evictList.getLast? with
      | none => rw [loop_none fuel c acc hs hg]; exact Or.inr hg
      | some e =>
        rw [loop_some fuel c acc e hs hg]
        apply ih
        have hlt : (c.evictList.filter (·.id != e.id)).length < c.evictList.length := by
          rw [List.length_filter_lt_length_iff_exists]
          exact ⟨e, List.mem_of_getLast? hg, by simp⟩
        show (c.evictList.filter (·.id != e.id)).length + 1 ≤ fuel
        omega

theorem evictIfNeeded_settled (c : LCap) :
    c.evictIfNeeded.1.shouldEvict = false ∨ DL.back c.evictIfNeeded.1.evictList = none :=
  evictLoop_settled _ c [] (Nat.le_refl _)


/-! ## 10. What coherence buys: incoherent states, checked by evaluation

`step_refines` needs `Linked`; `lib_cap_refines_reference`, `lib_bytes_le_max_unless_single`, `Inv.sizeInBytes` need the
byte counter to be the sum (`Coh`).  The states below violate one or the other; nothing in the TYPE
`capacityLRU` excludes them — only the discipline of its methods does (`coh_step`). -/

theorem Linked.withCur {c : LCap} (h : Linked c) (x : Int) : Linked { c with cur := x } :=
  ⟨h.keysNodup, h.idsNodup, h.idsFresh, h.itemsNodup, h.lookup⟩

/-- two resident entries of 1 byte each -/
def twoOps : List Op := [.addSized [1] [10] 1, .addSized [2] [20] 1]
def two : LCap := finalState LCap.step (LCap.new 3 10) twoOps

example : two = ⟨3, 10, 2, [⟨1, [2], [20], 1⟩, ⟨0, [1], [10], 1⟩], [([1], 0), ([2], 1)], 2⟩ := by decide

theorem two_inv : Inv two := (lib_cap_refines_model 3 10 twoOps).2.2

/-! ### (a) the byte counter has drifted from the sum (100 instead of 2); map and list still agree -/

def drifted : LCap := { two with cur := 100 }

theorem drifted_linked : Linked drifted := two_inv.coh.linked.withCur 100

theorem drifted_not_coh : ¬ Coh drifted := fun h => absurd h.bytes (by decide)

/-- a 1-byte insertion into 3 slots / 10 bytes holding 2 bytes: the code evicts BOTH residents (the counter says 101),
    where the same contents with a truthful counter evict nothing … -/
theorem drifted_evicts_needlessly :
    (drifted.addSizedAndReturnEvicted [3] [30] 1).2 = [([1], [10]), ([2], [20])] ∧
    (drifted.addSized [3] [30] 1).2 = true ∧ (drifted.addSized [3] [30] 1).1.keys = [[3]] ∧
    (two.addSized [3] [30] 1).2 = false ∧ (two.addSized [3] [30] 1).1.keys = [[1], [2], [3]] := by decide

/-- … so C15 fails on it: the reference LRU over the same residents evicts nothing and keeps all three keys … -/
theorem drifted_disagrees_with_reference :
    (drifted.stepL (.put [3] [30] 1)).2 = .evicted true ∧ (drifted.abs.toRef.step (.put [3] [30] 1)).2 = .evicted false ∧
    (drifted.stepL (.put [3] [30] 1)).1.keys ≠ (drifted.abs.toRef.step (.put [3] [30] 1)).1.keys := by decide

/-- … and so does the hand model as soon as ITS counter is the sum of ITS entries (its invariant `CapInv`), i.e. the
    hand model of the same contents.  (Fed the drifted counter, the hand model drifts along: `step_refines` needs only
    `Linked` — the hand model duplicates the counter instead of deriving it, see the last example.) -/
theorem drifted_disagrees_with_hand_model :
    let s : Cap := ⟨3, 10, drifted.abs.entries, sumSizes drifted.abs.entries⟩
    s.entries = drifted.abs.entries ∧ (s.addSized Variant.current [3] [30] 1).2 = false ∧
    (drifted.addSized [3] [30] 1).2 = true ∧
    ((s.addSized Variant.current [3] [30] 1).1.entries.map (·.key)) = [[3], [2], [1]] ∧
    ((drifted.addSized [3] [30] 1).1.evictList.map (·.key)) = [[3]] := by decide

example : (drifted.step (.addSized [3] [30] 1)).2 = (capStep drifted.abs (.addSized [3] [30] 1)).2 :=
  (step_refines drifted _ drifted_linked).2

/-- `SizeInBytesContained` reports the drifted counter; a NEGATIVE drift wraps around in the `uint64` conversion -/
theorem drifted_size_report :
    drifted.sizeInBytesContained = 100 ∧ (drifted.evictList.map (·.sz)).sum = 2 ∧
    ({ two with cur := -5 } : LCap).sizeInBytesContained = 18446744073709551611 := by decide

/-- the spinning corner: remove both residents from the drifted state — the counter stays at 98 with an EMPTY list, so
    `shouldEvict()` holds and `Back()` is nil.  The next `AddSized` with a negative size (refused, then `evictIfNeeded`)
    or `AddSizedAndReturnEvicted` would loop forever in Go; the model's loop returns at once (`none` branch). -/
theorem drifted_spins :
    let c := ((drifted.remove [1]).1.remove [2]).1
    c.evictList = [] ∧ c.cur = 98 ∧ c.shouldEvict = true ∧ DL.back c.evictList = none := by decide

/-! ### (b) a map entry whose element is gone (key `[2]` ↦ element 7, not linked) -/

def dangling : LCap := ⟨3, 10, 1, [⟨0, [1], [10], 1⟩], [([1], 0), ([2], 7)], 8⟩

theorem dangling_not_linked : ¬ Linked dangling := fun h => absurd (h.lookup [2]) (by decide)

/-- the counter is fine here — only the map is wrong -/
example : dangling.cur = total dangling.evictList := by decide

/-- `Contains`, `AddSizedIfMissing` and `Remove` answer from the MAP, the hand model from its list: they disagree; and
    `Keys` leaves a nil in its `len(items)`-sized slice -/
theorem dangling_disagrees :
    dangling.contains [2] = true ∧ dangling.abs.has [2] = false ∧
    (dangling.step (.contains [2])).2 ≠ (capStep dangling.abs (.contains [2])).2 ∧
    (dangling.addSizedIfMissing [2] [20] 1).2.1 = true ∧
    (dangling.abs.addSizedIfMissing Variant.current [2] [20] 1).2.1 = false ∧
    (dangling.addSizedIfMissing [2] [20] 1).1.keys = [[1]] ∧
    (dangling.abs.addSizedIfMissing Variant.current [2] [20] 1).1.keys = [[1], [2]] ∧
    (dangling.remove [2]).2 = true ∧ (dangling.abs.remove [2]).2 = false ∧
    dangling.keysSlice = some [some [1], none] ∧ dangling.len = 1 ∧ dangling.items.length = 2 := by decide

/-! ### (c) a linked element the map does not know (key `[2]`) -/

def orphan : LCap := ⟨3, 10, 2, [⟨1, [2], [20], 1⟩, ⟨0, [1], [10], 1⟩], [([1], 0)], 2⟩

theorem orphan_not_linked : ¬ Linked orphan := fun h => absurd (h.lookup [2]) (by decide)

/-- `Keys` shows a key that `Contains` denies and `Peek` cannot read — and indexes past its slice (panic); writing the
    key again links a SECOND element for it (the hand model overwrites), after which the counter counts it twice -/
theorem orphan_disagrees :
    orphan.keys = [[1], [2]] ∧ orphan.contains [2] = false ∧ orphan.abs.has [2] = true ∧
    orphan.peek [2] = none ∧ orphan.abs.peek [2] = some [20] ∧ orphan.keysSlice = none ∧
    (orphan.addSized [2] [21] 1).1.keys = [[1], [2], [2]] ∧ (orphan.addSized [2] [21] 1).1.cur = 3 ∧
    (orphan.abs.addSized Variant.current [2] [21] 1).1.keys = [[1], [2]] ∧
    (orphan.abs.addSized Variant.current [2] [21] 1).1.bytes = 2 := by decide

/-! ## 11. Non-vacuity: 3 items / 10 bytes, seven calls -/

/-- the hypotheses of the main theorems can be met -/
example : Inv (LCap.new 3 10) := Inv.new 3 10
example : Coh two ∧ NonNeg two ∧ Within two := ⟨two_inv.coh, two_inv.nonneg, two_inv.within⟩

/-- what the faithful model does on `demo`: call 4 (`Get 1`) refreshes key 1, so the growing overwrite of key 3 in call 5
    (3 → 5 bytes, 11 > 10) evicts key 2 and reports `(2, 20)`; call 6 removes key 1; call 7 inserts key 4 -/
example : trace LCap.step (LCap.new 3 10) demo =
    [ .evicted false, .evicted false, .evicted false, .value (some [10]), .evictedPairs [([2], [20])],
      .removed true, .foundEvicted false false ] := by decide

/-- and the hand model says the same, call by call (this is `lib_cap_refines_model 3 10 demo`, by computation) -/
example : trace LCap.step (LCap.new 3 10) demo = trace capStep (Cap.init 3 10) demo := by decide

/-- the concrete final state: two linked elements, two map entries pointing at them, ids not reused, 7 bytes -/
example : finalState LCap.step (LCap.new 3 10) demo
    = ⟨3, 10, 7, [⟨3, [4], [40], 2⟩, ⟨2, [3], [31], 5⟩], [([3], 2), ([4], 3)], 4⟩ := by decide

example : (finalState LCap.step (LCap.new 3 10) demo).abs.entries
    = (finalState capStep (Cap.init 3 10) demo).entries := by decide

/-- the state after the first four calls: full (3 items, 9 bytes), key 2 least recently used -/
def demoMid : LCap := finalState LCap.step (LCap.new 3 10) (demo.take 4)

theorem demoMid_inv : Inv demoMid := (lib_cap_refines_model 3 10 (demo.take 4)).2.2

example : demoMid.keys = [[2], [3], [1]] ∧ demoMid.cur = 9 ∧ demoMid.items = [([1], 0), ([2], 1), ([3], 2)] := by decide

/-- `lib_write_shape` / `lib_write_keys` at work: the overwrite keeps element 2 (same pointer), gives it the new value
    and size, moves it to the front; the victim is the back element; `AddSized` says `true` -/
example : (demoMid.addSizedAndReturnEvicted [3] [31] 5).1.evictList = [⟨2, [3], [31], 5⟩, ⟨0, [1], [10], 3⟩] ∧
    (demoMid.addSizedAndReturnEvicted [3] [31] 5).2 = [([2], [20])] ∧
    (demoMid.addSized [3] [31] 5).2 = true ∧ (demoMid.addSized [3] [31] 5).1.cur = 8 := by decide

/-- a single oversized entry stays (25 > 10 bytes), everything else goes, least recent first -/
example : (demoMid.addSizedAndReturnEvicted [9] [90] 25).2 = [([2], [20]), ([3], [30]), ([1], [10])] ∧
    (demoMid.addSizedAndReturnEvicted [9] [90] 25).1.keys = [[9]] ∧
    (demoMid.addSizedAndReturnEvicted [9] [90] 25).1.sizeInBytesContained = 25 := by decide

/-- `lib_negative_size_rejected`, instance -/
example : demoMid.addSized [3] [31] (-1) = (demoMid, false) ∧
    demoMid.addSizedIfMissing [7] [70] (-1) = (demoMid, false, false) := by decide

/-- the wrapper-level chain on the sized-cache demo of RefSpec (2 items / 10 bytes, nine calls) -/
example : SV.LRU.runTrace LCap.stepL LCap.obsL (LCap.new 2 10) demoOps
    = SV.LRU.runTrace Ref.step Ref.obs (Ref.init 2 (some 10)) demoOps := by decide

end SV.LRU.CapLib
