/-
  SV.LRU.Proofs — invariants and behavioural theorems for the LRU models (C15/C17).
-/
import SV.LRU.Model
namespace SV.LRU

def sumSizes (l : List Entry) : Int := (l.map (·.size)).foldl (· + ·) 0

/-- within limits, or a single entry (the most recently written entry always stays) -/
def Fits (cap : Nat) (maxBytes : Int) (l : List Entry) : Prop :=
  l.length ≤ 1 ∨ (l.length ≤ cap ∧ sumSizes l ≤ maxBytes)

structure CapInv (c : Cap) : Prop where
  keysNodup : (c.entries.map (·.key)).Nodup
  sizes : ∀ e ∈ c.entries, 0 ≤ e.size
  bytes : c.bytes = sumSizes c.entries
  fits : Fits c.cap c.maxBytes c.entries

/-! ### sums -/

theorem foldl_add_start (l : List Int) : ∀ a : Int, l.foldl (· + ·) a = a + l.foldl (· + ·) 0 := by
  induction l with
  | nil => intro a; simp
  | cons x xs ih =>
    intro a
    simp only [List.foldl_cons]
    rw [ih (a + x), ih (0 + x)]
    omega

@[simp] theorem sumSizes_nil : sumSizes [] = 0 := rfl

@[simp] theorem sumSizes_cons (e : Entry) (l : List Entry) : sumSizes (e :: l) = e.size + sumSizes l := by
  unfold sumSizes
  simp only [List.map_cons, List.foldl_cons]
  rw [foldl_add_start]
  omega

@[simp] theorem sumSizes_append (a b : List Entry) : sumSizes (a ++ b) = sumSizes a + sumSizes b := by
  induction a with
  | nil => simp
  | cons x xs ih => simp only [List.cons_append, sumSizes_cons, ih]; omega

/-! ### eviction loop -/

theorem shouldEvict_false_fits (c : Cap) (hb : c.bytes = sumSizes c.entries) (h : c.shouldEvict = false) :
    Fits c.cap c.maxBytes c.entries := by
  unfold Cap.shouldEvict at h
  unfold Fits
  split at h
  · left; omega
  · right
    simp at h
    rw [← hb]; omega

theorem shouldEvict_true (c : Cap) (h : c.shouldEvict = true) :
    c.entries.length ≠ 1 ∧ (c.entries.length > c.cap ∨ c.bytes > c.maxBytes) := by
  unfold Cap.shouldEvict at h
  split at h
  · simp at h
  · simp at h
    refine ⟨by assumption, ?_⟩
    omega

theorem evictLoop_false (fuel : Nat) (c : Cap) (acc : List Entry) (h : c.shouldEvict = false) :
    Cap.evictLoop (fuel + 1) c acc = (c, acc) := by
  simp [Cap.evictLoop, h]

theorem evictLoop_none (fuel : Nat) (c : Cap) (acc : List Entry) (h : c.shouldEvict = true)
    (hg : c.entries.getLast? = none) : Cap.evictLoop (fuel + 1) c acc = (c, acc) := by
  simp [Cap.evictLoop, Cap.removeOldest, h, hg]

theorem evictLoop_some (fuel : Nat) (c : Cap) (acc : List Entry) (e : Entry) (h : c.shouldEvict = true)
    (hg : c.entries.getLast? = some e) :
    Cap.evictLoop (fuel + 1) c acc =
      Cap.evictLoop fuel { c with entries := c.entries.dropLast, bytes := c.bytes - e.size } (acc ++ [e]) := by
  simp [Cap.evictLoop, Cap.removeOldest, h, hg]

theorem evictLoop_spec (fuel : Nat) : ∀ (c : Cap) (acc : List Entry), c.bytes = sumSizes c.entries →
    ∃ d, (Cap.evictLoop fuel c acc).2 = acc ++ d ∧
      c.entries = (Cap.evictLoop fuel c acc).1.entries ++ d.reverse ∧
      (Cap.evictLoop fuel c acc).1.bytes = sumSizes (Cap.evictLoop fuel c acc).1.entries ∧
      (Cap.evictLoop fuel c acc).1.cap = c.cap ∧ (Cap.evictLoop fuel c acc).1.maxBytes = c.maxBytes ∧
      (c.entries.length ≤ fuel → Fits c.cap c.maxBytes (Cap.evictLoop fuel c acc).1.entries) ∧
      (c.entries ≠ [] → (Cap.evictLoop fuel c acc).1.entries ≠ []) ∧
      (∀ e rest, d.reverse = e :: rest →
        ¬ Fits c.cap c.maxBytes ((Cap.evictLoop fuel c acc).1.entries ++ [e])) := by
  induction fuel with
  | zero =>
    intro c acc hb
    refine ⟨[], by simp [Cap.evictLoop], by simp [Cap.evictLoop], by simpa [Cap.evictLoop] using hb,
      by simp [Cap.evictLoop], by simp [Cap.evictLoop], ?_, by simp [Cap.evictLoop], by simp⟩
    intro hl
    simp only [Cap.evictLoop]
    left; omega
  | succ fuel ih =>
    intro c acc hb
    cases hs : c.shouldEvict with
    | false =>
      rw [evictLoop_false fuel c acc hs]
      exact ⟨[], by simp, by simp, hb, rfl, rfl, fun _ => shouldEvict_false_fits c hb hs, fun h => h, by simp⟩
    | true =>
      cases hg : c.entries.getLast? with
      | none =>
        rw [evictLoop_none fuel c acc hs hg]
        have hnil : c.entries = [] := by simpa using hg
        exact ⟨[], by simp, by simp, hb, rfl, rfl, fun _ => Or.inl (by simp [hnil]), fun h => h, by simp⟩
      | some e =>
        rw [evictLoop_some fuel c acc e hs hg]
        have hsplit : c.entries.dropLast ++ [e] = c.entries := by
          obtain ⟨ys, hys⟩ := List.getLast?_eq_some_iff.mp hg
          rw [hys]; simp
        have hsum : sumSizes c.entries = sumSizes c.entries.dropLast + e.size := by
          conv => lhs; rw [← hsplit]
          simp
        obtain ⟨hne1, hover⟩ := shouldEvict_true c hs
        have hlen : c.entries.length = c.entries.dropLast.length + 1 := by
          conv => lhs; rw [← hsplit]
          simp
        let c' : Cap := { c with entries := c.entries.dropLast, bytes := c.bytes - e.size }
        have hb' : c'.bytes = sumSizes c'.entries := by
          show c.bytes - e.size = sumSizes c.entries.dropLast
          omega
        obtain ⟨d, h1, h2, h3, h4, h5, h6, h7, h8⟩ := ih c' (acc ++ [e]) hb'
        refine ⟨e :: d, ?_, ?_, h3, h4, h5, ?_, ?_, ?_⟩
        · show (Cap.evictLoop fuel c' (acc ++ [e])).2 = _
          rw [h1]; simp
        · show c.entries = (Cap.evictLoop fuel c' (acc ++ [e])).1.entries ++ _
          rw [← hsplit]
          show c'.entries ++ [e] = _
          rw [h2]; simp
        · intro hl
          exact h6 (by show c.entries.dropLast.length ≤ fuel; omega)
        · intro _
          exact h7 (by
            show c.entries.dropLast ≠ []
            intro h0
            rw [h0] at hlen
            simp at hlen
            omega)
        · intro e0 rest hrev
          show ¬ Fits c.cap c.maxBytes ((Cap.evictLoop fuel c' (acc ++ [e])).1.entries ++ [e0])
          cases hd : d with
          | nil =>
            subst hd
            simp at hrev
            obtain ⟨rfl, _⟩ := hrev
            have : (Cap.evictLoop fuel c' (acc ++ [e])).1.entries = c.entries.dropLast := by
              have := h2; simp at this; exact this.symm
            rw [this, hsplit]
            unfold Fits
            rw [← hb]
            omega
          | cons x xs =>
            have hdne : d.reverse ≠ [] := by simp [hd]
            have hrev' : (e :: d).reverse = d.reverse ++ [e] := by simp
            rw [hrev'] at hrev
            cases hdr : d.reverse with
            | nil => exact absurd hdr hdne
            | cons y ys =>
              rw [hdr] at hrev
              simp at hrev
              exact h8 e0 ys (by rw [hdr, hrev.1])

/-- eviction drops a suffix (the least recently used entries) and reports exactly what it dropped, LRU first -/
theorem evictIfNeeded_split (c : Cap) (hb : c.bytes = sumSizes c.entries) :
    c.entries = (c.evictIfNeeded).1.entries ++ (c.evictIfNeeded).2.reverse ∧
    (c.evictIfNeeded).1.bytes = sumSizes (c.evictIfNeeded).1.entries ∧
    (c.evictIfNeeded).1.cap = c.cap ∧ (c.evictIfNeeded).1.maxBytes = c.maxBytes := by
  obtain ⟨d, h1, h2, h3, h4, h5, _, _, _⟩ := evictLoop_spec (c.entries.length + 1) c [] hb
  unfold Cap.evictIfNeeded
  simp only [List.nil_append] at h1
  rw [h1]
  exact ⟨h2, h3, h4, h5⟩

/-- …it stops as soon as the cache fits, and never empties a non-empty cache -/
theorem evictIfNeeded_fits (c : Cap) (hb : c.bytes = sumSizes c.entries) :
    Fits c.cap c.maxBytes (c.evictIfNeeded).1.entries ∧ (c.entries ≠ [] → (c.evictIfNeeded).1.entries ≠ []) := by
  obtain ⟨d, _, _, _, _, _, h6, h7, _⟩ := evictLoop_spec (c.entries.length + 1) c [] hb
  unfold Cap.evictIfNeeded
  exact ⟨h6 (by omega), h7⟩

/-- …and no more than needed: if anything was dropped, keeping one more entry would not fit -/
theorem evictIfNeeded_minimal (c : Cap) (hb : c.bytes = sumSizes c.entries) (hs : ∀ e ∈ c.entries, 0 ≤ e.size)
    (e : Entry) (rest : List Entry) (h : (c.evictIfNeeded).2.reverse = e :: rest) :
    ¬ Fits c.cap c.maxBytes ((c.evictIfNeeded).1.entries ++ [e]) := by
  have _ := hs
  obtain ⟨d, h1, _, _, _, _, _, _, h8⟩ := evictLoop_spec (c.entries.length + 1) c [] hb
  unfold Cap.evictIfNeeded at h ⊢
  simp only [List.nil_append] at h1
  rw [h1] at h
  exact h8 e rest h

/-- a cache that fits is left alone -/
theorem evictIfNeeded_noop (c : Cap) (hb : c.bytes = sumSizes c.entries) (hf : Fits c.cap c.maxBytes c.entries) :
    c.evictIfNeeded = (c, []) := by
  unfold Cap.evictIfNeeded
  cases hs : c.shouldEvict with
  | false => exact evictLoop_false _ c [] hs
  | true =>
    obtain ⟨hne1, hover⟩ := shouldEvict_true c hs
    rcases hf with hl | ⟨hl, hm⟩
    · have hnil : c.entries = [] := by
        cases hc : c.entries with
        | nil => rfl
        | cons x xs => rw [hc] at hl hne1; simp at hl hne1; omega
      exact evictLoop_none _ c [] hs (by simp [hnil])
    · rw [← hb] at hm; omega

/-! ### lookups -/

theorem has_find (c : Cap) (k : Bytes) (h : c.has k = true) :
    ∃ e, c.find k = some e ∧ e ∈ c.entries ∧ e.key = k := by
  unfold Cap.has at h
  unfold Cap.find
  cases hf : c.entries.find? (·.key == k) with
  | some e =>
    refine ⟨e, rfl, List.mem_of_find?_eq_some hf, ?_⟩
    have := List.find?_some hf
    simpa using this
  | none =>
    rw [List.find?_eq_none] at hf
    simp only [List.any_eq_true] at h
    obtain ⟨x, hx, hxk⟩ := h
    exact absurd hxk (hf x hx)

theorem has_false (c : Cap) (k : Bytes) (h : c.has k = false) :
    c.find k = none ∧ ∀ e ∈ c.entries, e.key ≠ k := by
  unfold Cap.has at h
  unfold Cap.find
  simp only [List.any_eq_false] at h
  refine ⟨List.find?_eq_none.mpr h, ?_⟩
  intro e he hk
  exact h e he (by simp [hk])

theorem filter_find_facts (k : Bytes) (l : List Entry) (e : Entry) (hn : (l.map (·.key)).Nodup)
    (hf : l.find? (·.key == k) = some e) :
    (l.filter (·.key != k)).length + 1 = l.length ∧
    sumSizes (l.filter (·.key != k)) + e.size = sumSizes l := by
  induction l with
  | nil => simp at hf
  | cons x xs ih =>
    simp only [List.map_cons, List.nodup_cons] at hn
    by_cases hx : x.key = k
    · have hxs : xs.filter (·.key != k) = xs := by
        rw [List.filter_eq_self]
        intro a ha
        simp only [bne_iff_ne, ne_eq]
        intro hak
        apply hn.1
        rw [hx, ← hak]
        exact List.mem_map_of_mem ha
      simp [List.find?_cons, hx] at hf
      subst hf
      simp [List.filter_cons, hx, hxs]
      omega
    · simp [List.find?_cons, hx] at hf
      obtain ⟨h1, h2⟩ := ih hn.2 hf
      simp [List.filter_cons, hx]
      omega

theorem filter_keys_nodup (k : Bytes) (l : List Entry) (hn : (l.map (·.key)).Nodup) :
    ((l.filter (·.key != k)).map (·.key)).Nodup :=
  List.Nodup.sublist (List.Sublist.map _ List.filter_sublist) hn

theorem not_mem_filter_keys (k : Bytes) (l : List Entry) : k ∉ (l.filter (·.key != k)).map (·.key) := by
  simp

/-! ### CapInv -/

theorem CapInv.evict (c : Cap) (hn : (c.entries.map (·.key)).Nodup) (hs : ∀ e ∈ c.entries, 0 ≤ e.size)
    (hb : c.bytes = sumSizes c.entries) : CapInv (c.evictIfNeeded).1 := by
  obtain ⟨h1, h2, h3, h4⟩ := evictIfNeeded_split c hb
  obtain ⟨h5, _⟩ := evictIfNeeded_fits c hb
  refine ⟨?_, ?_, h2, ?_⟩
  · rw [h1, List.map_append] at hn
    exact List.Nodup.sublist (List.sublist_append_left _ _) hn
  · intro e he
    exact hs e (by rw [h1]; exact List.mem_append_left _ he)
  · rw [h3, h4]; exact h5

theorem CapInv.init (cap : Nat) (maxBytes : Int) : CapInv (Cap.init cap maxBytes) :=
  ⟨by simp [Cap.init], by simp [Cap.init], by simp [Cap.init], Or.inl (by simp [Cap.init])⟩

/-- shape of the cache right after the write and before eviction (valid size) -/
theorem addSizedCore_shape (c : Cap) (k v : Bytes) (size : Int) (h : CapInv c) (hs : 0 ≤ size) :
    ∃ rest, (c.addSizedCore Variant.current k v size).entries = ⟨k, v, size⟩ :: rest ∧
      (∀ e, e ∈ rest ↔ (e ∈ c.entries ∧ e.key ≠ k)) ∧
      (rest.map (·.key)).Nodup ∧
      (c.addSizedCore Variant.current k v size).bytes = sumSizes (c.addSizedCore Variant.current k v size).entries ∧
      (c.addSizedCore Variant.current k v size).cap = c.cap ∧
      (c.addSizedCore Variant.current k v size).maxBytes = c.maxBytes := by
  unfold Cap.addSizedCore
  rw [if_neg (by omega)]
  cases hk : c.has k with
  | true =>
    obtain ⟨old, hfind, hmem, hkey⟩ := has_find c k hk
    obtain ⟨_, hsum⟩ := filter_find_facts k c.entries old h.keysNodup hfind
    simp only [if_true, Cap.update, hfind, Variant.current]
    refine ⟨c.entries.filter (·.key != k), rfl, ?_, filter_keys_nodup k _ h.keysNodup, ?_, rfl, rfl⟩
    · intro e; simp
    · simp only [Bool.false_eq_true, if_false, sumSizes_cons]
      rw [h.bytes]; omega
  | false =>
    obtain ⟨_, hne⟩ := has_false c k hk
    simp only [Bool.false_eq_true, if_false, Cap.addNew]
    refine ⟨c.entries, rfl, ?_, h.keysNodup, ?_, rfl, rfl⟩
    · intro e
      exact ⟨fun he => ⟨he, hne e he⟩, fun he => he.1⟩
    · simp only [sumSizes_cons]
      rw [h.bytes]; omega

theorem addSizedCore_negative (c : Cap) (k v : Bytes) (size : Int) (hs : size < 0) :
    c.addSizedCore Variant.current k v size = c := by
  unfold Cap.addSizedCore
  rw [if_pos hs]

theorem CapInv.addSizedCore_evict (c : Cap) (k v : Bytes) (size : Int) (h : CapInv c) :
    CapInv ((c.addSizedCore Variant.current k v size).evictIfNeeded).1 := by
  by_cases hs : size < 0
  · rw [addSizedCore_negative c k v size hs]
    exact CapInv.evict c h.keysNodup h.sizes h.bytes
  · obtain ⟨rest, h1, h2, h3, h4, _, _⟩ := addSizedCore_shape c k v size h (by omega)
    apply CapInv.evict _ _ _ h4
    · rw [h1]
      simp only [List.map_cons, List.nodup_cons]
      refine ⟨?_, h3⟩
      intro hmem
      obtain ⟨e, he, hek⟩ := List.mem_map.mp hmem
      exact ((h2 e).mp he).2 hek
    · intro e he
      rw [h1] at he
      rcases List.mem_cons.mp he with rfl | he
      · show 0 ≤ size; omega
      · exact h.sizes e ((h2 e).mp he).1

theorem CapInv.addSized (c : Cap) (k v : Bytes) (size : Int) (h : CapInv c) :
    CapInv (c.addSized Variant.current k v size).1 :=
  CapInv.addSizedCore_evict c k v size h

end SV.LRU
