/-
  SV.LRU.Proofs — invariants and behavioural theorems for the LRU models (C15/C17).
-/
import SV.LRU.Model
namespace SV.LRU

def sumSizes (l : List Entry) : Int := (l.map (·.size)).foldl (· + ·) 0

/-- within limits, or a single entry (the most recently written entry always stays) -/
def Fits (cap : Nat) (maxBytes : Int) (l : List Entry) : Prop :=
  l.length ≤ 1 ∨ (l.length ≤ cap ∧ sumSizes l ≤ maxBytes)

structure CapInv (c : Cap) : Prop where
  keysNodup : (c.entries.map (·.key)).Nodup
  sizes : ∀ e ∈ c.entries, 0 ≤ e.size
  bytes : c.bytes = sumSizes c.entries
  fits : Fits c.cap c.maxBytes c.entries

/-! ### sums -/

theorem foldl_add_start (l : List Int) : ∀ a : Int, l.foldl (· + ·) a = a + l.foldl (· + ·) 0 := by
  induction l with
  | nil => intro a; simp
  | cons x xs ih =>
    intro a
    simp only [List.foldl_cons]
    rw [ih (a + x), ih (0 + x)]
    omega

@[simp] theorem sumSizes_nil : sumSizes [] = 0 := rfl

@[simp] theorem sumSizes_cons (e : Entry) (l : List Entry) : sumSizes (e :: l) = e.size + sumSizes l := by
  unfold sumSizes
  simp only [List.map_cons, List.foldl_cons]
  rw [foldl_add_start]
  omega

@[simp] theorem sumSizes_append (a b : List Entry) : sumSizes (a ++ b) = sumSizes a + sumSizes b := by
  induction a with
  | nil => simp
  | cons x xs ih => simp only [List.cons_append, sumSizes_cons, ih]; omega

/-! ### eviction loop -/

theorem shouldEvict_false_fits (c : Cap) (hb : c.bytes = sumSizes c.entries) (h : c.shouldEvict = false) :
    Fits c.cap c.maxBytes c.entries := by
  unfold Cap.shouldEvict at h
  unfold Fits
  split at h
  · left; omega
  · right
    simp at h
    rw [← hb]; omega

theorem shouldEvict_true (c : Cap) (h : c.shouldEvict = true) :
    c.entries.length ≠ 1 ∧ (c.entries.length > c.cap ∨ c.bytes > c.maxBytes) := by
  unfold Cap.shouldEvict at h
  split at h
  · simp at h
  · simp at h
    refine ⟨by assumption, ?_⟩
    omega

theorem evictLoop_false (fuel : Nat) (c : Cap) (acc : List Entry) (h : c.shouldEvict = false) :
    Cap.evictLoop (fuel + 1) c acc = (c, acc) := by
  simp [Cap.evictLoop, h]

theorem evictLoop_none (fuel : Nat) (c : Cap) (acc : List Entry) (h : c.shouldEvict = true)
    (hg : c.entries.getLast? = none) : Cap.evictLoop (fuel + 1) c acc = (c, acc) := by
  simp [Cap.evictLoop, Cap.removeOldest, h, hg]

theorem evictLoop_some (fuel : Nat) (c : Cap) (acc : List Entry) (e : Entry) (h : c.shouldEvict = true)
    (hg : c.entries.getLast? = some e) :
    Cap.evictLoop (fuel + 1) c acc =
      Cap.evictLoop fuel { c with entries := c.entries.dropLast, bytes := c.bytes - e.size } (acc ++ [e]) := by
  simp [Cap.evictLoop, Cap.removeOldest, h, hg]

theorem evictLoop_spec (fuel : Nat) : ∀ (c : Cap) (acc : List Entry), c.bytes = sumSizes c.entries →
    ∃ d, (Cap.evictLoop fuel c acc).2 = acc ++ d ∧
      c.entries = (Cap.evictLoop fuel c acc).1.entries ++ d.reverse ∧
      (Cap.evictLoop fuel c acc).1.bytes = sumSizes (Cap.evictLoop fuel c acc).1.entries ∧
      (Cap.evictLoop fuel c acc).1.cap = c.cap ∧ (Cap.evictLoop fuel c acc).1.maxBytes = c.maxBytes ∧
      (c.entries.length ≤ fuel → Fits c.cap c.maxBytes (Cap.evictLoop fuel c acc).1.entries) ∧
      (c.entries ≠ [] → (Cap.evictLoop fuel c acc).1.entries ≠ []) ∧
      (∀ e rest, d.reverse = e :: rest →
        ¬ Fits c.cap c.maxBytes ((Cap.evictLoop fuel c acc).1.entries ++ [e])) := by
  induction fuel with
  | zero =>
    intro c acc hb
    refine ⟨[], by simp [Cap.evictLoop], by simp [Cap.evictLoop], by simpa [Cap.evictLoop] using hb,
      by simp [Cap.evictLoop], by simp [Cap.evictLoop], ?_, by simp [Cap.evictLoop], by simp⟩
    intro hl
    simp only [Cap.evictLoop]
    left; omega
  | succ fuel ih =>
    intro c acc hb
    cases hs : c.shouldEvict with
    | false =>
      rw [evictLoop_false fuel c acc hs]
      exact ⟨[], by simp, by simp, hb, rfl, rfl, fun _ => shouldEvict_false_fits c hb hs, fun h => h, by simp⟩
    | true =>
      cases hg : c.entries.getLast? with
      | none =>
        rw [evictLoop_none fuel c acc hs hg]
        have hnil : c.entries = [] := by simpa using hg
        exact ⟨[], by simp, by simp, hb, rfl, rfl, fun _ => Or.inl (by simp [hnil]), fun h => h, by simp⟩
      | some e =>
        rw [evictLoop_some fuel c acc e hs hg]
        have hsplit : c.entries.dropLast ++ [e] = c.entries := by
          obtain ⟨ys, hys⟩ := List.getLast?_eq_some_iff.mp hg
          rw [hys]; simp
        have hsum : sumSizes c.entries = sumSizes c.entries.dropLast + e.size := by
          conv => lhs; rw [← hsplit]
          simp
        obtain ⟨hne1, hover⟩ := shouldEvict_true c hs
        have hlen : c.entries.length = c.entries.dropLast.length + 1 := by
          conv => lhs; rw [← hsplit]
          simp
        let c' : Cap := { c with entries := c.entries.dropLast, bytes := c.bytes - e.size }
        have hb' : c'.bytes = sumSizes c'.entries := by
          show c.bytes - e.size = sumSizes c.entries.dropLast
          omega
        obtain ⟨d, h1, h2, h3, h4, h5, h6, h7, h8⟩ := ih c' (acc ++ [e]) hb'
        refine ⟨e :: d, ?_, ?_, h3, h4, h5, ?_, ?_, ?_⟩
        · show (Cap.evictLoop fuel c' (acc ++ [e])).2 = _
          rw [h1]; simp
        · show c.entries = (Cap.evictLoop fuel c' (acc ++ [e])).1.entries ++ _
          rw [← hsplit]
          show c'.entries ++ [e] = _
          rw [h2]; simp
        · intro hl
          exact h6 (by show c.entries.dropLast.length ≤ fuel; omega)
        · intro _
          exact h7 (by
            show c.entries.dropLast ≠ []
            intro h0
            rw [h0] at hlen
            simp at hlen
            omega)
        · intro e0 rest hrev
          show ¬ Fits c.cap c.maxBytes ((Cap.evictLoop fuel c' (acc ++ [e])).1.entries ++ [e0])
          cases hd : d with
          | nil =>
            subst hd
            simp at hrev
            obtain ⟨rfl, _⟩ := hrev
            have : (Cap.evictLoop fuel c' (acc ++ [e])).1.entries = c.entries.dropLast := by
              have := h2; simp at this; exact this.symm
            rw [this, hsplit]
            unfold Fits
            rw [← hb]
            omega
          | cons x xs =>
            have hdne : d.reverse ≠ [] := by simp [hd]
            have hrev' : (e :: d).reverse = d.reverse ++ [e] := by simp
            rw [hrev'] at hrev
            cases hdr : d.reverse with
            | nil => exact absurd hdr hdne
            | cons y ys =>
              rw [hdr] at hrev
              simp at hrev
              exact h8 e0 ys (by rw [hdr, hrev.1])

/-- eviction drops a suffix (the least recently used entries) and reports exactly what it dropped, LRU first -/
theorem evictIfNeeded_split (c : Cap) (hb : c.bytes = sumSizes c.entries) :
    c.entries = (c.evictIfNeeded).1.entries ++ (c.evictIfNeeded).2.reverse ∧
    (c.evictIfNeeded).1.bytes = sumSizes (c.evictIfNeeded).1.entries ∧
    (c.evictIfNeeded).1.cap = c.cap ∧ (c.evictIfNeeded).1.maxBytes = c.maxBytes := by
  obtain ⟨d, h1, h2, h3, h4, h5, _, _, _⟩ := evictLoop_spec (c.entries.length + 1) c [] hb
  unfold Cap.evictIfNeeded
  simp only [List.nil_append] at h1
  rw [h1]
  exact ⟨h2, h3, h4, h5⟩

/-- …it stops as soon as the cache fits, and never empties a non-empty cache -/
theorem evictIfNeeded_fits (c : Cap) (hb : c.bytes = sumSizes c.entries) :
    Fits c.cap c.maxBytes (c.evictIfNeeded).1.entries ∧ (c.entries ≠ [] → (c.evictIfNeeded).1.entries ≠ []) := by
  obtain ⟨d, _, _, _, _, _, h6, h7, _⟩ := evictLoop_spec (c.entries.length + 1) c [] hb
  unfold Cap.evictIfNeeded
  exact ⟨h6 (by omega), h7⟩

/-- …and no more than needed: if anything was dropped, keeping one more entry would not fit -/
theorem evictIfNeeded_minimal (c : Cap) (hb : c.bytes = sumSizes c.entries) (hs : ∀ e ∈ c.entries, 0 ≤ e.size)
    (e : Entry) (rest : List Entry) (h : (c.evictIfNeeded).2.reverse = e :: rest) :
    ¬ Fits c.cap c.maxBytes ((c.evictIfNeeded).1.entries ++ [e]) := by
  have _ := hs
  obtain ⟨d, h1, _, _, _, _, _, _, h8⟩ := evictLoop_spec (c.entries.length + 1) c [] hb
  unfold Cap.evictIfNeeded at h ⊢
  simp only [List.nil_append] at h1
  rw [h1] at h
  exact h8 e rest h

/-- a cache that fits is left alone -/
theorem evictIfNeeded_noop (c : Cap) (hb : c.bytes = sumSizes c.entries) (hf : Fits c.cap c.maxBytes c.entries) :
    c.evictIfNeeded = (c, []) := by
  unfold Cap.evictIfNeeded
  cases hs : c.shouldEvict with
  | false => exact evictLoop_false _ c [] hs
  | true =>
    obtain ⟨hne1, hover⟩ := shouldEvict_true c hs
    rcases hf with hl | ⟨hl, hm⟩
    · have hnil : c.entries = [] := by
        cases hc : c.entries with
        | nil => rfl
        | cons x xs => rw [hc] at hl hne1; simp only [List.length_cons] at hl hne1; omega
      exact evictLoop_none _ c [] hs (by simp [hnil])
    · rw [← hb] at hm; omega

/-! ### lookups -/

theorem has_find (c : Cap) (k : Bytes) (h : c.has k = true) :
    ∃ e, c.find k = some e ∧ e ∈ c.entries ∧ e.key = k := by
  unfold Cap.has at h
  unfold Cap.find
  cases hf : c.entries.find? (·.key == k) with
  | some e =>
    refine ⟨e, rfl, List.mem_of_find?_eq_some hf, ?_⟩
    have := List.find?_some hf
    simpa using this
  | none =>
    rw [List.find?_eq_none] at hf
    simp only [List.any_eq_true] at h
    obtain ⟨x, hx, hxk⟩ := h
    exact absurd hxk (hf x hx)

theorem has_false (c : Cap) (k : Bytes) (h : c.has k = false) :
    c.find k = none ∧ ∀ e ∈ c.entries, e.key ≠ k := by
  unfold Cap.has at h
  unfold Cap.find
  simp only [List.any_eq_false] at h
  refine ⟨List.find?_eq_none.mpr h, ?_⟩
  intro e he hk
  exact h e he (by simp [hk])

theorem filter_find_facts (k : Bytes) (l : List Entry) (e : Entry) (hn : (l.map (·.key)).Nodup)
    (hf : l.find? (·.key == k) = some e) :
    (l.filter (·.key != k)).length + 1 = l.length ∧
    sumSizes (l.filter (·.key != k)) + e.size = sumSizes l := by
  induction l with
  | nil => simp at hf
  | cons x xs ih =>
    simp only [List.map_cons, List.nodup_cons] at hn
    by_cases hx : x.key = k
    · have hxs : xs.filter (·.key != k) = xs := by
        rw [List.filter_eq_self]
        intro a ha
        simp only [bne_iff_ne, ne_eq]
        intro hak
        apply hn.1
        rw [hx, ← hak]
        exact List.mem_map_of_mem ha
      simp [hx] at hf
      subst hf
      simp [hx, hxs]
      omega
    · simp [hx] at hf
      obtain ⟨h1, h2⟩ := ih hn.2 hf
      simp [hx]
      omega

theorem filter_keys_nodup (k : Bytes) (l : List Entry) (hn : (l.map (·.key)).Nodup) :
    ((l.filter (·.key != k)).map (·.key)).Nodup :=
  List.Nodup.sublist (List.Sublist.map _ List.filter_sublist) hn

theorem not_mem_filter_keys (k : Bytes) (l : List Entry) : k ∉ (l.filter (·.key != k)).map (·.key) := by
  simp

/-! ### CapInv -/

theorem CapInv.evict (c : Cap) (hn : (c.entries.map (·.key)).Nodup) (hs : ∀ e ∈ c.entries, 0 ≤ e.size)
    (hb : c.bytes = sumSizes c.entries) : CapInv (c.evictIfNeeded).1 := by
  obtain ⟨h1, h2, h3, h4⟩ := evictIfNeeded_split c hb
  obtain ⟨h5, _⟩ := evictIfNeeded_fits c hb
  refine ⟨?_, ?_, h2, ?_⟩
  · rw [h1, List.map_append] at hn
    exact List.Nodup.sublist (List.sublist_append_left _ _) hn
  · intro e he
    exact hs e (by rw [h1]; exact List.mem_append_left _ he)
  · rw [h3, h4]; exact h5

theorem CapInv.init (cap : Nat) (maxBytes : Int) : CapInv (Cap.init cap maxBytes) :=
  ⟨by simp [Cap.init], by simp [Cap.init], by simp [Cap.init], Or.inl (by simp [Cap.init])⟩

/-- shape of the cache right after the write and before eviction (valid size) -/
theorem addSizedCore_shape (c : Cap) (k v : Bytes) (size : Int) (h : CapInv c) (hs : 0 ≤ size) :
    ∃ rest, (c.addSizedCore Variant.current k v size).entries = ⟨k, v, size⟩ :: rest ∧
      (∀ e, e ∈ rest ↔ (e ∈ c.entries ∧ e.key ≠ k)) ∧
      (rest.map (·.key)).Nodup ∧
      (c.addSizedCore Variant.current k v size).bytes = sumSizes (c.addSizedCore Variant.current k v size).entries ∧
      (c.addSizedCore Variant.current k v size).cap = c.cap ∧
      (c.addSizedCore Variant.current k v size).maxBytes = c.maxBytes := by
  unfold Cap.addSizedCore
  rw [if_neg (by omega)]
  cases hk : c.has k with
  | true =>
    obtain ⟨old, hfind, hmem, hkey⟩ := has_find c k hk
    obtain ⟨_, hsum⟩ := filter_find_facts k c.entries old h.keysNodup hfind
    simp only [if_true, Cap.update, hfind, Variant.current]
    refine ⟨c.entries.filter (·.key != k), rfl, ?_, filter_keys_nodup k _ h.keysNodup, ?_, by first | rfl | trivial, by first | rfl | trivial⟩
    · intro e; simp
    · simp only [Bool.false_eq_true, if_false, sumSizes_cons]
      rw [h.bytes]; omega
  | false =>
    obtain ⟨_, hne⟩ := has_false c k hk
    simp only [Bool.false_eq_true, if_false, Cap.addNew]
    refine ⟨c.entries, rfl, ?_, h.keysNodup, ?_, by first | rfl | trivial, by first | rfl | trivial⟩
    · intro e
      exact ⟨fun he => ⟨he, hne e he⟩, fun he => he.1⟩
    · simp only [sumSizes_cons]
      rw [h.bytes]; omega

theorem addSizedCore_negative (c : Cap) (k v : Bytes) (size : Int) (hs : size < 0) :
    c.addSizedCore Variant.current k v size = c := by
  unfold Cap.addSizedCore
  rw [if_pos hs]

theorem CapInv.addSizedCore_evict (c : Cap) (k v : Bytes) (size : Int) (h : CapInv c) :
    CapInv ((c.addSizedCore Variant.current k v size).evictIfNeeded).1 := by
  by_cases hs : size < 0
  · rw [addSizedCore_negative c k v size hs]
    exact CapInv.evict c h.keysNodup h.sizes h.bytes
  · obtain ⟨rest, h1, h2, h3, h4, _, _⟩ := addSizedCore_shape c k v size h (by omega)
    apply CapInv.evict _ _ _ h4
    · rw [h1]
      simp only [List.map_cons, List.nodup_cons]
      refine ⟨?_, h3⟩
      intro hmem
      obtain ⟨e, he, hek⟩ := List.mem_map.mp hmem
      exact ((h2 e).mp he).2 hek
    · intro e he
      rw [h1] at he
      rcases List.mem_cons.mp he with rfl | he
      · show 0 ≤ size; omega
      · exact h.sizes e ((h2 e).mp he).1

theorem CapInv.addSized (c : Cap) (k v : Bytes) (size : Int) (h : CapInv c) :
    CapInv (c.addSized Variant.current k v size).1 :=
  CapInv.addSizedCore_evict c k v size h

theorem addNew_eq_core (c : Cap) (k v : Bytes) (size : Int) (hk : c.has k = false) (hs : ¬ size < 0) :
    c.addNew k v size = c.addSizedCore Variant.current k v size := by
  unfold Cap.addSizedCore
  rw [if_neg hs, hk]
  simp

theorem CapInv.addSizedIfMissing (c : Cap) (k v : Bytes) (size : Int) (h : CapInv c) :
    CapInv (c.addSizedIfMissing Variant.current k v size).1 := by
  unfold Cap.addSizedIfMissing
  simp only [Variant.current, Bool.false_and, Bool.false_eq_true, if_false]
  cases hk : c.has k with
  | true => simpa using h
  | false =>
    by_cases hs : size < 0
    · simpa [hs] using h
    · simp only [Bool.false_eq_true, if_false, hs]
      rw [addNew_eq_core c k v size hk hs]
      exact CapInv.addSizedCore_evict c k v size h

theorem CapInv.get (c : Cap) (k : Bytes) (h : CapInv c) : CapInv (c.get k).1 := by
  unfold Cap.get
  cases hf : c.find k with
  | none => exact h
  | some e =>
    have hf' : c.entries.find? (·.key == k) = some e := hf
    obtain ⟨hlen, hsum⟩ := filter_find_facts k c.entries e h.keysNodup hf'
    have hek : e.key = k := by simpa using List.find?_some hf'
    have hmem : e ∈ c.entries := List.mem_of_find?_eq_some hf'
    refine ⟨?_, ?_, ?_, ?_⟩
    · show ((e :: c.entries.filter (·.key != k)).map (·.key)).Nodup
      simp only [List.map_cons, List.nodup_cons]
      refine ⟨?_, filter_keys_nodup k _ h.keysNodup⟩
      rw [hek]; exact not_mem_filter_keys k _
    · intro x hx
      have hx' : x ∈ e :: c.entries.filter (·.key != k) := hx
      rcases List.mem_cons.mp hx' with rfl | hx'
      · exact h.sizes _ hmem
      · exact h.sizes x (List.mem_filter.mp hx').1
    · show c.bytes = sumSizes (e :: c.entries.filter (·.key != k))
      rw [sumSizes_cons, h.bytes]; omega
    · show Fits c.cap c.maxBytes (e :: c.entries.filter (·.key != k))
      have hf := h.fits
      unfold Fits at hf ⊢
      rw [sumSizes_cons, List.length_cons]
      omega

theorem CapInv.remove (c : Cap) (k : Bytes) (h : CapInv c) : CapInv (c.remove k).1 := by
  unfold Cap.remove
  cases hf : c.find k with
  | none => exact h
  | some e =>
    have hf' : c.entries.find? (·.key == k) = some e := hf
    obtain ⟨hlen, hsum⟩ := filter_find_facts k c.entries e h.keysNodup hf'
    have hmem : e ∈ c.entries := List.mem_of_find?_eq_some hf'
    have hes := h.sizes e hmem
    refine ⟨filter_keys_nodup k _ h.keysNodup, ?_, ?_, ?_⟩
    · intro x hx
      have hx' : x ∈ c.entries.filter (·.key != k) := hx
      exact h.sizes x (List.mem_filter.mp hx').1
    · show c.bytes - e.size = sumSizes (c.entries.filter (·.key != k))
      rw [h.bytes]; omega
    · show Fits c.cap c.maxBytes (c.entries.filter (·.key != k))
      have hf := h.fits
      unfold Fits at hf ⊢
      omega

theorem CapInv.purge (c : Cap) : CapInv c.purge :=
  ⟨by simp [Cap.purge], by simp [Cap.purge], by simp [Cap.purge], Or.inl (by simp [Cap.purge])⟩

/-! ### behaviour -/

theorem head_of_prefix {α : Type} (x : α) (rest p q : List α) (h : x :: rest = p ++ q) (hp : p ≠ []) :
    ∃ p', p = x :: p' ∧ rest = p' ++ q := by
  cases p with
  | nil => exact absurd rfl hp
  | cons y ys =>
    simp only [List.cons_append, List.cons.injEq] at h
    exact ⟨ys, by rw [h.1], h.2⟩

/-- C15: a Put with a valid size makes the entry the most recently used one, with the given value and size -/
theorem addSized_head (c : Cap) (k v : Bytes) (size : Int) (h : CapInv c) (hs : 0 ≤ size) :
    (c.addSized Variant.current k v size).1.entries.head? = some ⟨k, v, size⟩ := by
  show ((c.addSizedCore Variant.current k v size).evictIfNeeded).1.entries.head? = _
  obtain ⟨rest, h1, _, _, h4, _, _⟩ := addSizedCore_shape c k v size h hs
  obtain ⟨hsplit, _⟩ := evictIfNeeded_split _ h4
  obtain ⟨_, hne⟩ := evictIfNeeded_fits _ h4
  rw [h1] at hsplit
  obtain ⟨p', hp, _⟩ := head_of_prefix _ _ _ _ hsplit (hne (by rw [h1]; simp))
  rw [hp]; rfl

/-- C15: a negative size is rejected: nothing changes, nothing is reported -/
theorem addSized_negative (c : Cap) (k v : Bytes) (size : Int) (h : CapInv c) (hs : size < 0) :
    c.addSized Variant.current k v size = (c, false) := by
  unfold Cap.addSized
  rw [addSizedCore_negative c k v size hs, evictIfNeeded_noop c h.bytes h.fits]
  rfl

/-- C15/C17: conservation: every entry resident before a write (other than the written key) is afterwards either
    still resident, unchanged, or among the reported victims; victims are no longer resident; the evicted flag says
    exactly whether there are victims -/
theorem addSizedAndReturnEvicted_conservation (c : Cap) (k v : Bytes) (size : Int) (h : CapInv c) :
    let r := c.addSizedAndReturnEvicted Variant.current k v size
    (∀ e ∈ c.entries, e.key ≠ k → (e ∈ r.1.entries ∨ e ∈ r.2)) ∧
    (∀ e ∈ r.2, e ∈ c.entries ∧ e.key ≠ k ∧ r.1.has e.key = false) ∧
    ((c.addSized Variant.current k v size).2 = !r.2.isEmpty) ∧ (c.addSized Variant.current k v size).1 = r.1 := by
  intro r
  refine ⟨?_, ?_, rfl, rfl⟩
  · intro e he hek
    by_cases hs : size < 0
    · left
      show e ∈ ((c.addSizedCore Variant.current k v size).evictIfNeeded).1.entries
      rw [addSizedCore_negative c k v size hs, evictIfNeeded_noop c h.bytes h.fits]
      exact he
    · obtain ⟨rest, h1, h2, _, h4, _, _⟩ := addSizedCore_shape c k v size h (by omega)
      obtain ⟨hsplit, _⟩ := evictIfNeeded_split _ h4
      have hmem : e ∈ (c.addSizedCore Variant.current k v size).entries := by
        rw [h1]; exact List.mem_cons_of_mem _ ((h2 e).mpr ⟨he, hek⟩)
      rw [hsplit] at hmem
      rcases List.mem_append.mp hmem with hm | hm
      · exact Or.inl hm
      · exact Or.inr (List.mem_reverse.mp hm)
  · intro e he
    by_cases hs : size < 0
    · have : r.2 = [] := by
        show ((c.addSizedCore Variant.current k v size).evictIfNeeded).2 = []
        rw [addSizedCore_negative c k v size hs, evictIfNeeded_noop c h.bytes h.fits]
      rw [this] at he
      simp at he
    · obtain ⟨rest, h1, h2, h3, h4, _, _⟩ := addSizedCore_shape c k v size h (by omega)
      obtain ⟨hsplit, _⟩ := evictIfNeeded_split _ h4
      obtain ⟨_, hne⟩ := evictIfNeeded_fits _ h4
      rw [h1] at hsplit
      obtain ⟨p', hp, hrest⟩ := head_of_prefix _ _ _ _ hsplit (hne (by rw [h1]; simp))
      have he' : e ∈ r.2.reverse := List.mem_reverse.mpr he
      have her : e ∈ rest := by rw [hrest]; exact List.mem_append_right _ he'
      obtain ⟨hec, hek⟩ := (h2 e).mp her
      refine ⟨hec, hek, ?_⟩
      show Cap.has r.1 e.key = false
      unfold Cap.has
      show (((c.addSizedCore Variant.current k v size).evictIfNeeded).1.entries.any (·.key == e.key)) = false
      rw [hp]
      rw [hrest, List.map_append, List.nodup_append] at h3
      simp only [List.any_cons, Bool.or_eq_false_iff, List.any_eq_false]
      refine ⟨by simpa using fun hh => hek hh.symm, ?_⟩
      intro x hx hxe
      have hxe' : x.key = e.key := by simpa using hxe
      exact h3.2.2 x.key (List.mem_map_of_mem hx) e.key (List.mem_map_of_mem he') hxe'

/-- C15: recency: Get moves the entry to the most-recent end of Keys and changes nothing else -/
theorem get_keys (c : Cap) (k : Bytes) (h : CapInv c) (hk : c.has k = true) :
    (c.get k).1.keys = (c.keys.filter (· != k)) ++ [k] := by
  have _ := h
  obtain ⟨e, hfind, _, hek⟩ := has_find c k hk
  unfold Cap.get
  rw [hfind]
  simp only [Cap.keys, List.reverse_cons, List.map_append, List.map_cons, List.map_nil, hek,
    List.filter_map, List.filter_reverse]
  rfl

theorem peek_has_no_effect (c : Cap) (k : Bytes) : (c.peek k).isSome = c.has k := by
  unfold Cap.peek Cap.find Cap.has
  rw [Bool.eq_iff_iff]
  simp [List.find?_isSome]

/-- C15: HasOrAdd on the sized cache: has ⇔ was present; inserts iff absent and size valid -/
theorem addSizedIfMissing_flags (c : Cap) (k v : Bytes) (size : Int) (h : CapInv c) :
    let r := c.addSizedIfMissing Variant.current k v size
    r.2.1 = c.has k ∧ (c.has k = true → r.1 = c) ∧ (c.has k = false → 0 ≤ size → r.1.entries.head? = some ⟨k, v, size⟩) ∧
    (c.has k = false → size < 0 → r.1 = c) := by
  intro r
  have hr : r = c.addSizedIfMissing Variant.current k v size := rfl
  unfold Cap.addSizedIfMissing at hr
  simp only [Variant.current, Bool.false_and, Bool.false_eq_true, if_false] at hr
  cases hk : c.has k with
  | true =>
    rw [hk] at hr
    simp only [if_true] at hr
    rw [hr]; simp
  | false =>
    rw [hk] at hr
    by_cases hs : size < 0
    · simp only [Bool.false_eq_true, if_false, hs, if_true] at hr
      rw [hr]
      simp
      omega
    · simp only [Bool.false_eq_true, if_false, hs] at hr
      rw [addNew_eq_core c k v size hk hs] at hr
      rw [hr]
      refine ⟨rfl, by simp, ?_, fun _ h' => absurd h' hs⟩
      intro _ hs'
      exact addSized_head c k v size h hs'

/-! ### simple (hashicorp) LRU -/

/-- simple (hashicorp) LRU -/
structure SimpleInv (c : Simple) : Prop where
  keysNodup : (c.entries.map (·.1)).Nodup
  bound : c.entries.length ≤ c.cap

theorem Simple.has_false (c : Simple) (k : Bytes) (h : c.has k = false) : k ∉ c.entries.map (·.1) := by
  unfold Simple.has at h
  simp only [List.any_eq_false] at h
  intro hmem
  obtain ⟨x, hx, hxk⟩ := List.mem_map.mp hmem
  exact h x hx (by simp [hxk])

theorem SimpleInv.add (c : Simple) (k v : Bytes) (h : SimpleInv c) (hc : 1 ≤ c.cap) : SimpleInv (c.add k v).1 := by
  have _ := hc
  unfold Simple.add
  cases hk : c.has k with
  | true =>
    simp only [if_true]
    refine ⟨?_, ?_⟩
    · show (((k, v) :: c.entries.filter (·.1 != k)).map (·.1)).Nodup
      simp only [List.map_cons, List.nodup_cons]
      refine ⟨by simp, List.Nodup.sublist (List.Sublist.map _ List.filter_sublist) h.keysNodup⟩
    · show ((k, v) :: c.entries.filter (·.1 != k)).length ≤ c.cap
      have hlt : (c.entries.filter (·.1 != k)).length < c.entries.length := by
        rw [List.length_filter_lt_length_iff_exists]
        unfold Simple.has at hk
        simp only [List.any_eq_true] at hk
        obtain ⟨x, hx, hxk⟩ := hk
        exact ⟨x, hx, by simpa using hxk⟩
      have := h.bound
      simp only [List.length_cons]
      omega
  | false =>
    have hnm := Simple.has_false c k hk
    have hnd : (((k, v) :: c.entries).map (·.1)).Nodup := by
      simp only [List.map_cons, List.nodup_cons]
      exact ⟨hnm, h.keysNodup⟩
    simp only [Bool.false_eq_true, if_false]
    split
    · refine ⟨?_, ?_⟩
      · show ((((k, v) :: c.entries).dropLast).map (·.1)).Nodup
        exact List.Nodup.sublist (List.Sublist.map _ (List.dropLast_sublist _)) hnd
      · show (((k, v) :: c.entries).dropLast).length ≤ c.cap
        have := h.bound
        simp only [List.length_dropLast, List.length_cons]
        omega
    · rename_i hle
      refine ⟨hnd, ?_⟩
      show ((k, v) :: c.entries).length ≤ c.cap
      omega

theorem Simple.add_head (c : Simple) (k v : Bytes) (hc : 1 ≤ c.cap) : (c.add k v).1.entries.head? = some (k, v) := by
  unfold Simple.add
  cases hk : c.has k with
  | true => simp
  | false =>
    simp only [Bool.false_eq_true, if_false]
    split
    · rename_i hgt
      cases he : c.entries with
      | nil => rw [he] at hgt; simp at hgt; omega
      | cons x xs => simp
    · simp

/-- evicted ⇔ the cache was full and the key new; then exactly the least recently used entry goes.
    NOTE: `hc : 1 ≤ c.cap` is an added hypothesis (enforced by the Go constructor): for `cap = 0` the second
    conjunct is false, see `Simple.add_evicted_cap0_counterexample`. -/
theorem Simple.add_evicted (c : Simple) (k v : Bytes) (h : SimpleInv c) (hc : 1 ≤ c.cap) :
    (c.add k v).2 = (!c.has k && decide (c.entries.length = c.cap)) ∧
    ((c.add k v).2 = true → (c.add k v).1.entries = (k, v) :: c.entries.dropLast) := by
  have hb := h.bound
  unfold Simple.add
  cases hk : c.has k with
  | true => simp
  | false =>
    simp only [Bool.false_eq_true, if_false, Bool.not_false, Bool.true_and]
    split
    · rename_i hgt
      simp only [List.length_cons] at hgt
      refine ⟨by simp; omega, ?_⟩
      intro _
      show ((k, v) :: c.entries).dropLast = (k, v) :: c.entries.dropLast
      apply List.dropLast_cons_of_ne_nil
      intro hnil
      rw [hnil] at hgt
      simp at hgt
      omega
    · rename_i hle
      simp only [List.length_cons] at hle
      refine ⟨by simp; omega, ?_⟩
      intro hf
      simp at hf

/-- the first conjunct of `Simple.add_evicted` needs no lower bound on the capacity -/
theorem Simple.add_evicted_flag (c : Simple) (k v : Bytes) (h : SimpleInv c) :
    (c.add k v).2 = (!c.has k && decide (c.entries.length = c.cap)) := by
  have hb := h.bound
  unfold Simple.add
  cases hk : c.has k with
  | true => simp
  | false =>
    simp only [Bool.false_eq_true, if_false, Bool.not_false, Bool.true_and]
    split
    · rename_i hgt
      simp only [List.length_cons] at hgt
      simp; omega
    · rename_i hle
      simp only [List.length_cons] at hle
      simp; omega

/-- without `1 ≤ cap` the second conjunct of `Simple.add_evicted` fails: a zero-capacity cache evicts the entry
    it has just been given -/
theorem Simple.add_evicted_cap0_counterexample :
    ∃ (c : Simple) (k v : Bytes), SimpleInv c ∧ (c.add k v).2 = true ∧
      (c.add k v).1.entries ≠ (k, v) :: c.entries.dropLast :=
  ⟨⟨0, []⟩, [1], [2], ⟨by simp, by simp⟩, by decide, by decide⟩

/-! ### wrapper and handler registry -/

/-- C15: handlers: every Put, and every inserting HasOrAdd, yields exactly one invocation per registered handler,
    with the inserted key and value; a non-inserting HasOrAdd yields none -/
theorem put_notifies (c : Cache) (k v : Bytes) (size : Int) :
    (c.put Variant.current k v size).2.2 = c.handlers.map (·, k, v) := by
  unfold Cache.put
  cases c.b <;> rfl

theorem hasOrAdd_notifies (c : Cache) (k v : Bytes) (size : Int) :
    let r := c.hasOrAdd Variant.current k v size
    r.2.2.2 = (if r.2.2.1 then c.handlers.map (·, k, v) else []) ∧ (r.2.1 = true → r.2.2.1 = false) := by
  intro r
  have hr : r = c.hasOrAdd Variant.current k v size := rfl
  unfold Cache.hasOrAdd at hr
  cases hb : c.b with
  | sized s =>
    rw [hb] at hr
    simp only [Variant.current, Bool.false_eq_true, if_false] at hr
    cases h1 : (s.addSizedIfMissing ⟨false, false⟩ k v size).2.1 with
    | true => rw [h1] at hr; simp only [if_true] at hr; rw [hr]; simp
    | false =>
      rw [h1] at hr
      simp only [Bool.false_eq_true, if_false] at hr
      cases h2 : (s.addSizedIfMissing ⟨false, false⟩ k v size).1.has k with
      | true => simp only [h2, if_true] at hr; rw [hr]; simp [Cache.notify]
      | false => simp only [h2, Bool.false_eq_true, if_false] at hr; rw [hr]; simp
  | plain s =>
    rw [hb] at hr
    simp only [] at hr
    cases h1 : (s.containsOrAdd k v).2.1 with
    | true => rw [h1] at hr; simp only [if_true] at hr; rw [hr]; simp
    | false => rw [h1] at hr; simp only [Bool.false_eq_true, if_false] at hr; rw [hr]; simp [Cache.notify]

theorem register_nodup (c : Cache) (id : String) (h : c.handlers.Nodup) :
    (c.register id).handlers.Nodup ∧ id ∈ (c.register id).handlers := by
  unfold Cache.register
  cases hc : c.handlers.contains id with
  | true =>
    simp only [if_true]
    exact ⟨h, by simpa using hc⟩
  | false =>
    simp only [Bool.false_eq_true, if_false]
    have hnm : id ∉ c.handlers := by
      intro hm
      have : c.handlers.contains id = true := by simpa using hm
      rw [hc] at this
      exact Bool.noConfusion this
    refine ⟨?_, by simp⟩
    rw [List.nodup_append]
    refine ⟨h, by simp, ?_⟩
    intro a ha b hb hab
    simp only [List.mem_singleton] at hb
    exact hnm (by rw [← hb, ← hab]; exact ha)

theorem unregister_removes (c : Cache) (id : String) : id ∉ (c.unregister id).handlers := by
  unfold Cache.unregister
  simp

/-! ### legacy defect witness -/

/-- the legacy `update` evicted silently: entries vanish without being reported (breaks conservation) -/
theorem legacy_silent_eviction_counterexample : ∃ (c : Cap) (k v : Bytes) (size : Int) (e : Entry),
    let r := c.addSizedAndReturnEvicted Variant.legacy k v size
    e ∈ c.entries ∧ e.key ≠ k ∧ e ∉ r.1.entries ∧ e ∉ r.2 ∧ (c.addSized Variant.legacy k v size).2 = false :=
  ⟨⟨3, 10, [⟨[1], [], 4⟩, ⟨[2], [], 4⟩], 8⟩, [1], [], 8, ⟨[2], [], 4⟩, by decide⟩

end SV.LRU
