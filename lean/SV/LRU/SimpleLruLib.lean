/-
  SV.LRU.SimpleLruLib — hashicorp/golang-lru v0.6.0 `simplelru.LRU` (and the `ContainsOrAdd` of the `lru.Cache`
  wrapper) modelled AS THE LIBRARY IMPLEMENTS IT, and the proof that this model refines the hand-written plain-LRU
  model `SV.LRU.Simple` (SV/LRU/Model.lean) that property C15 is stated on.

  Library state (simplelru/lru.go):
      type LRU struct { size int; evictList *list.List; items map[interface{}]*list.Element; onEvict EvictCallback }
  Model state:
      `size`       the capacity (`NewLRU` refuses `size <= 0`);
      `evictList`  `container/list` abstracted to the sequence of its elements, FRONT (most recent) FIRST; an element is
                   `(id, key, value)`: `id` stands for the identity of the `*list.Element`, `key`/`value` for the
                   `*entry` it carries;
      `items`      the Go map as an association list key ↦ element id (the map stores POINTERS to list elements, the value
                   is reached through the pointer, which is why `Add` on a present key can overwrite it in place);
      `nextId`     allocation counter: ids are never reused;
      `onEvict`    is not state: every operation returns the list of `(key, value)` pairs the callback is invoked with,
                   in invocation order.
  Not modelled: `Resize` and `GetOldest` (not reachable through `types.LRUCacheHandler`, the interface lrucache.go uses).

  Results
    * `Inv` (representation invariant), `inv_step` (kept by every operation), `Inv.sameKeys`, `Inv.sameLen`, `Inv.deref`;
    * `step_refines`, `lib_refines_plain_model` (every history), `lib_refines_plain_model_eq` (equal traces without `Purge`);
    * on the library model: `lib_len_le_size`, `lib_add_evicts_lru`, `lib_add_present`, `lib_add_then_read`,
      `lib_get_contains_peek`, `lib_containsOrAdd`, `lib_remove`, `purge_callbacks_perm`;
    * `lib_refines_reference`: under the `lruCache` wrapper the library model refines the reference LRU of RefSpec.lean.
  Correspondence with the hand model `Simple`: NO behavioural difference was found on the common operations (`Add` returns
  false on overwrite in both, `Keys` is oldest-first in both, `ContainsOrAdd` does not refresh in both).  What the hand model
  lacks: the `present` result of `Remove` (read off as `has`), `RemoveOldest` (`dropLast`), and the callback altogether —
  its counterpart is `gone`, the entries that leave the state.  Two facts about the callback worth knowing: the library
  invokes it on `Remove`/`RemoveOldest`/`Purge` too, not only on capacity evictions (`lib_remove`), and `Purge` invokes it in
  Go's map iteration order, so only the multiset of `Purge` callbacks is determined (last-but-one example of section 10).
-/
import SV.LRU.RefSpec
import SV.Persist.ShardedProofs
namespace SV.LRU.Lib
open SV SV.LRU

/-! ## 1. The model -/

/-- a `*list.Element` whose `Value` is an `*entry{key, value}` -/
structure Elem where
  id : Nat
  key : Bytes
  val : Bytes
  deriving Repr, DecidableEq

def Elem.kv (e : Elem) : Bytes × Bytes := (e.key, e.val)

/-- the pairs the `onEvict` callback is invoked with, in order -/
abbrev Cb := List (Bytes × Bytes)

/-! ### `container/list`, reduced to the order of the elements -/
namespace DL

/-- following an element pointer -/
def deref (l : List Elem) (id : Nat) : Option Elem := l.find? (·.id == id)
/-- `PushFront` -/
def pushFront (e : Elem) (l : List Elem) : List Elem := e :: l
/-- `MoveToFront(e)` (a no-op when `e` is not an element of the list, as in Go) -/
def moveToFront (l : List Elem) (id : Nat) : List Elem :=
  match deref l id with
  | none => l
  | some e => e :: l.filter (·.id != id)
/-- `Remove(e)` -/
def remove (l : List Elem) (id : Nat) : List Elem := l.filter (·.id != id)
/-- `Back()` -/
def back (l : List Elem) : Option Elem := l.getLast?
/-- `e.Value.(*entry).value = v` -/
def setValue (l : List Elem) (id : Nat) (v : Bytes) : List Elem :=
  l.map (fun e => if e.id == id then { e with val := v } else e)

end DL

structure LRU where
  size : Nat
  evictList : List Elem
  items : List (Bytes × Nat)
  nextId : Nat
  deriving Repr

namespace LRU

/-- `NewLRU(size, onEvict)`; Go returns an error for `size <= 0`, hence `0 < size` in the invariant -/
def new (size : Nat) : LRU := ⟨size, [], [], 0⟩

/-- `removeElement(e)`: `evictList.Remove(e)`, `delete(items, kv.key)`, `onEvict(kv.key, kv.value)` -/
def removeElement (c : LRU) (e : Elem) : LRU × Cb :=
  ({ c with evictList := DL.remove c.evictList e.id, items := aerase e.key c.items }, [e.kv])

/-- the unexported `removeOldest()` -/
def evictOldest (c : LRU) : LRU × Cb :=
  match DL.back c.evictList with
  | some e => c.removeElement e
  | none => (c, [])

/-- `ent := &entry{key, value}; entry := evictList.PushFront(ent); items[key] = entry` -/
def pushNew (c : LRU) (k v : Bytes) : LRU :=
  { c with evictList := DL.pushFront ⟨c.nextId, k, v⟩ c.evictList, items := aset k c.nextId c.items,
           nextId := c.nextId + 1 }

/-- `Add` → (cache, evicted, callback invocations) -/
def add (c : LRU) (k v : Bytes) : LRU × Bool × Cb :=
  match alookup k c.items with
  | some id => ({ c with evictList := DL.setValue (DL.moveToFront c.evictList id) id v }, false, [])
  | none =>
    if (c.pushNew k v).evictList.length > (c.pushNew k v).size then
      ((c.pushNew k v).evictOldest.1, true, (c.pushNew k v).evictOldest.2)
    else (c.pushNew k v, false, [])

/-- `Get` → (cache, value if ok).  (`ent.Value.(*entry) == nil` never holds: only `Add` creates elements.) -/
def get (c : LRU) (k : Bytes) : LRU × Option Bytes :=
  match alookup k c.items with
  | some id => ({ c with evictList := DL.moveToFront c.evictList id }, (DL.deref c.evictList id).map (·.val))
  | none => (c, none)

/-- `Contains` -/
def contains (c : LRU) (k : Bytes) : Bool := (alookup k c.items).isSome

/-- `Peek` -/
def peek (c : LRU) (k : Bytes) : Option Bytes :=
  match alookup k c.items with
  | some id => (DL.deref c.evictList id).map (·.val)
  | none => none

/-- `Remove` → (cache, present, callback invocations).  The `none` branch of the inner match is a dangling map entry;
    the invariant excludes it (`Inv.deref`). -/
def remove (c : LRU) (k : Bytes) : LRU × Bool × Cb :=
  match alookup k c.items with
  | some id =>
    match DL.deref c.evictList id with
    | some e => ((c.removeElement e).1, true, (c.removeElement e).2)
    | none => (c, true, [])
  | none => (c, false, [])

/-- `RemoveOldest` → (cache, (key, value) if ok, callback invocations) -/
def removeOldest (c : LRU) : LRU × Option (Bytes × Bytes) × Cb :=
  match DL.back c.evictList with
  | some e => ((c.removeElement e).1, some e.kv, (c.removeElement e).2)
  | none => (c, none, [])

/-- `Keys`: oldest to newest (walks `Back()`, `Prev()`, … into a slice of `len(items)` slots; `Inv.sameLen` says the
    slice is filled exactly) -/
def keys (c : LRU) : List Bytes := c.evictList.reverse.map (·.key)

/-- `Len` -/
def len (c : LRU) : Nat := c.evictList.length

/-- `Purge`: `for k, v := range items { onEvict(k, v.Value.(*entry).value); delete(items, k) }; evictList.Init()`.
    Go iterates the map in an unspecified order; the model uses the order of the association list, and the theorems
    about `purge` only speak about the callback list up to permutation. -/
def purge (c : LRU) : LRU × Cb :=
  ({ c with evictList := [], items := [] },
   c.items.filterMap (fun p => (DL.deref c.evictList p.2).map (fun e => (p.1, e.val))))

/-- `lru.Cache.ContainsOrAdd` → (cache, ok, evicted, callback invocations).  (With a callback installed the wrapper
    buffers the pair handed to `onEvict` and invokes the user callback with it after unlocking: same pair.) -/
def containsOrAdd (c : LRU) (k v : Bytes) : LRU × Bool × Bool × Cb :=
  if c.contains k then (c, true, false, []) else ((c.add k v).1, false, (c.add k v).2.1, (c.add k v).2.2)

end LRU

/-! ### operations and outputs -/

inductive Op
  | add (k v : Bytes)
  | get (k : Bytes)
  | contains (k : Bytes)
  | peek (k : Bytes)
  | remove (k : Bytes)
  | removeOldest
  | keys
  | len
  | purge
  | containsOrAdd (k v : Bytes)
  deriving Repr, DecidableEq

inductive Out
  | evicted (b : Bool)
  | value (v : Option Bytes)
  | present (b : Bool)
  | removed (b : Bool)
  | oldest (kv : Option (Bytes × Bytes))
  | keys (l : List Bytes)
  | len (n : Nat)
  | purged
  | okEvicted (ok evicted : Bool)
  deriving Repr, DecidableEq

/-- one call on the library model → (cache, return value, callback invocations) -/
def LRU.step (c : LRU) : Op → LRU × Out × Cb
  | .add k v => ((c.add k v).1, .evicted (c.add k v).2.1, (c.add k v).2.2)
  | .get k => ((c.get k).1, .value (c.get k).2, [])
  | .contains k => (c, .present (c.contains k), [])
  | .peek k => (c, .value (c.peek k), [])
  | .remove k => ((c.remove k).1, .removed (c.remove k).2.1, (c.remove k).2.2)
  | .removeOldest => (c.removeOldest.1, .oldest c.removeOldest.2.1, c.removeOldest.2.2)
  | .keys => (c, .keys c.keys, [])
  | .len => (c, .len c.len, [])
  | .purge => (c.purge.1, .purged, c.purge.2)
  | .containsOrAdd k v =>
    ((c.containsOrAdd k v).1, .okEvicted (c.containsOrAdd k v).2.1 (c.containsOrAdd k v).2.2.1,
     (c.containsOrAdd k v).2.2.2)

/-! ### the hand-written model, driven by the same operations

`SV.LRU.Simple` has no callback.  What the callback reports is, on a model that only has states, the set of entries that
were resident before the call and are not resident after it: `gone`, oldest first.  `Simple` has no `RemoveOldest`
either; it is the obvious `dropLast` on the recency list (front = most recent). -/

/-- entries of `s` whose key is no longer resident in `s'`, oldest first -/
def gone (s s' : Simple) : Cb := s.entries.reverse.filter (fun p => !s'.has p.1)

def plainNext (s : Simple) : Op → Simple × Out
  | .add k v => ((s.add k v).1, .evicted (s.add k v).2)
  | .get k => ((s.get k).1, .value (s.get k).2)
  | .contains k => (s, .present (s.has k))
  | .peek k => (s, .value (s.peek k))
  | .remove k => (s.remove k, .removed (s.has k))
  | .removeOldest => ({ s with entries := s.entries.dropLast }, .oldest s.entries.getLast?)
  | .keys => (s, .keys s.keys)
  | .len => (s, .len s.entries.length)
  | .purge => ({ s with entries := [] }, .purged)
  | .containsOrAdd k v => ((s.containsOrAdd k v).1, .okEvicted (s.containsOrAdd k v).2.1 (s.containsOrAdd k v).2.2)

def plainStep (s : Simple) (op : Op) : Simple × Out × Cb :=
  ((plainNext s op).1, (plainNext s op).2, gone s (plainNext s op).1)

/-- the abstraction function: forget element ids and the map -/
def LRU.abs (c : LRU) : Simple := ⟨c.size, c.evictList.map Elem.kv⟩

/-! ### histories -/

/-- what a caller sees of one call: the return value and the callback invocations -/
abbrev CallObs := Out × Cb

def finalState {σ : Type} (step : σ → Op → σ × Out × Cb) : σ → List Op → σ
  | s, [] => s
  | s, op :: ops => finalState step (step s op).1 ops

def trace {σ : Type} (step : σ → Op → σ × Out × Cb) : σ → List Op → List CallObs
  | _, [] => []
  | s, op :: ops => (step s op).2 :: trace step (step s op).1 ops

/-- equal return value; equal callback invocations in the same order — except for `Purge`, where Go's map iteration
    order is unspecified: there the same pairs, in some order -/
def ObsEq (a b : CallObs) : Prop := a.1 = b.1 ∧ (if a.1 = Out.purged then a.2.Perm b.2 else a.2 = b.2)

def TraceEq : List CallObs → List CallObs → Prop
  | [], [] => True
  | a :: as, b :: bs => ObsEq a b ∧ TraceEq as bs
  | _, _ => False

/-- size 2; an eviction (step 4 evicts key 2, NOT key 1 which step 3 refreshed), a refresh by `Get`, an overwrite -/
def demo : List Op :=
  [ .add [1] [10], .add [2] [20], .get [1], .add [3] [30], .add [1] [11], .containsOrAdd [4] [40] ]

/-! ## 2. Lists of elements -/

section lists

theorem find_unique_id (l : List Elem) (e : Elem) (hn : (l.map (·.id)).Nodup) (he : e ∈ l) :
    l.find? (·.id == e.id) = some e := by
  induction l with
  | nil => simp at he
  | cons x xs ih =>
    simp only [List.map_cons, List.nodup_cons] at hn
    rcases List.mem_cons.mp he with rfl | he'
    · simp
    · have hx : x.id ≠ e.id := fun h => hn.1 (by rw [h]; exact List.mem_map_of_mem he')
      have hb : (x.id == e.id) = false := by simp [hx]
      rw [List.find?_cons, hb]
      exact ih hn.2 he'

theorem find_unique_key (l : List Elem) (e : Elem) (hn : (l.map (·.key)).Nodup) (he : e ∈ l) :
    l.find? (·.key == e.key) = some e := find_unique Elem.key l e.key e hn he rfl

/-- with distinct keys and distinct ids, "the element with key `k`" and "the element with that id" are the same thing -/
theorem filter_id_eq_filter_key (l : List Elem) (e : Elem) (hk : (l.map (·.key)).Nodup) (hi : (l.map (·.id)).Nodup)
    (he : e ∈ l) : l.filter (·.id != e.id) = l.filter (·.key != e.key) := by
  apply List.filter_congr
  intro x hx
  by_cases hxe : x = e
  · subst hxe; simp
  · have h1 : x.id ≠ e.id := by
      intro h
      have := find_unique_id l x hi hx
      rw [h, find_unique_id l e hi he] at this
      exact hxe (Option.some.inj this).symm
    have h2 : x.key ≠ e.key := by
      intro h
      have := find_unique_key l x hk hx
      rw [h, find_unique_key l e hk he] at this
      exact hxe (Option.some.inj this).symm
    rw [bne_iff_ne.mpr h1, bne_iff_ne.mpr h2]

theorem find_filter_key (l : List Elem) (k k' : Bytes) :
    (l.filter (·.key != k)).find? (·.key == k') = if k' = k then none else l.find? (·.key == k') := by
  induction l with
  | nil => simp
  | cons x xs ih =>
    by_cases hx : x.key = k
    · have : (x.key != k) = false := by simp [hx]
      rw [List.filter_cons, this]
      simp only [Bool.false_eq_true, if_false]
      rw [ih]
      split
      · rfl
      · rename_i hne
        have hb : (x.key == k') = false := by simp [hx]; exact fun h => hne h.symm
        rw [List.find?_cons, hb]
    · have : (x.key != k) = true := by simp [hx]
      rw [List.filter_cons, this]
      simp only [if_true]
      rw [List.find?_cons, List.find?_cons, ih]
      cases hb : (x.key == k') with
      | true =>
        have : x.key = k' := by simpa using hb
        have hne : ¬ k' = k := fun h => hx (this.trans h)
        simp [hne]
      | false => rfl

/-- removing the last element by id is `dropLast` -/
theorem filter_id_last (init : List Elem) (e : Elem) (hi : ((init ++ [e]).map (·.id)).Nodup) :
    (init ++ [e]).filter (·.id != e.id) = init := by
  rw [List.filter_append]
  have h1 : init.filter (·.id != e.id) = init := by
    rw [List.filter_eq_self]
    intro x hx
    have : x.id ≠ e.id := by
      intro h
      rw [List.map_append, List.nodup_append] at hi
      exact hi.2.2 x.id (List.mem_map_of_mem hx) e.id (by simp) h
    simp [this]
  rw [h1]
  simp

end lists

/-! ## 3. The representation invariant -/

/-- the part of the invariant that also holds between `PushFront` and `removeOldest` inside `Add` -/
structure Core (c : LRU) : Prop where
  /-- no key twice in the list -/
  keysNodup : (c.evictList.map (·.key)).Nodup
  /-- an element is linked once -/
  idsNodup : (c.evictList.map (·.id)).Nodup
  /-- ids are never reused -/
  idsFresh : ∀ e ∈ c.evictList, e.id < c.nextId
  /-- a Go map binds a key once -/
  itemsNodup : (c.items.map (·.1)).Nodup
  /-- `items[k]` is (the pointer to) the list element that carries key `k` — in both directions -/
  lookup : ∀ k, alookup k c.items = (c.evictList.find? (·.key == k)).map (·.id)

/-- the representation invariant of `simplelru.LRU` -/
structure Inv (c : LRU) : Prop where
  core : Core c
  sizePos : 0 < c.size
  bound : c.evictList.length ≤ c.size

theorem Core.resolve {c : LRU} (h : Core c) {k : Bytes} {id : Nat} (hl : alookup k c.items = some id) :
    ∃ e, e ∈ c.evictList ∧ e.key = k ∧ e.id = id ∧ c.evictList.find? (·.key == k) = some e ∧
      DL.deref c.evictList id = some e := by
  have := h.lookup k
  rw [hl] at this
  cases hf : c.evictList.find? (·.key == k) with
  | none => rw [hf] at this; simp at this
  | some e =>
    rw [hf] at this
    have hid : e.id = id := by simpa using this.symm
    have hm := List.mem_of_find?_eq_some hf
    have hk : e.key = k := by simpa using List.find?_some hf
    refine ⟨e, hm, hk, hid, rfl, ?_⟩
    rw [← hid]
    exact find_unique_id _ e h.idsNodup hm

theorem Core.absent {c : LRU} (h : Core c) {k : Bytes} (hl : alookup k c.items = none) :
    c.evictList.find? (·.key == k) = none := by
  have := h.lookup k
  rw [hl] at this
  cases hf : c.evictList.find? (·.key == k) with
  | none => rfl
  | some e => rw [hf] at this; simp at this

theorem Core.lookup_mem {c : LRU} (h : Core c) {e : Elem} (he : e ∈ c.evictList) :
    alookup e.key c.items = some e.id := by
  rw [h.lookup, find_unique_key _ e h.keysNodup he]; rfl

theorem not_mem_keys_filter (l : List Elem) (k : Bytes) : k ∉ (l.filter (·.key != k)).map (·.key) := by
  intro hm
  obtain ⟨x, hx, hxk⟩ := List.mem_map.mp hm
  have := (List.mem_filter.mp hx).2
  simp [hxk] at this

/-- `removeElement` of a linked element is "remove its key" -/
theorem Core.removeElement {c : LRU} (h : Core c) {e : Elem} (he : e ∈ c.evictList) :
    Core (c.removeElement e).1 ∧ (c.removeElement e).1.evictList = c.evictList.filter (·.key != e.key) ∧
    (c.removeElement e).1.size = c.size := by
  have hev : (c.removeElement e).1.evictList = c.evictList.filter (·.key != e.key) :=
    filter_id_eq_filter_key _ e h.keysNodup h.idsNodup he
  refine ⟨⟨?_, ?_, ?_, ?_, ?_⟩, hev, rfl⟩
  · rw [hev]; exact List.Nodup.sublist (List.Sublist.map _ List.filter_sublist) h.keysNodup
  · rw [hev]; exact List.Nodup.sublist (List.Sublist.map _ List.filter_sublist) h.idsNodup
  · rw [hev]; intro x hx; exact h.idsFresh x (List.mem_filter.mp hx).1
  · exact SV.Persist.nodup_keys_aerase e.key c.items h.itemsNodup
  · intro k
    rw [hev, find_filter_key]
    show alookup k (aerase e.key c.items) = _
    split
    · rename_i hk; rw [hk]; exact SV.Persist.alookup_aerase_self e.key c.items
    · rename_i hk; rw [SV.Persist.alookup_aerase_ne hk]; exact h.lookup k

theorem Core.pushNew {c : LRU} (h : Core c) {k : Bytes} (v : Bytes) (hl : alookup k c.items = none) :
    Core (c.pushNew k v) := by
  have hab := h.absent hl
  rw [List.find?_eq_none] at hab
  refine ⟨?_, ?_, ?_, ?_, ?_⟩
  · show ((⟨c.nextId, k, v⟩ :: c.evictList).map (·.key)).Nodup
    simp only [List.map_cons, List.nodup_cons]
    refine ⟨?_, h.keysNodup⟩
    intro hm
    obtain ⟨x, hx, hxk⟩ := List.mem_map.mp hm
    exact hab x hx (by simp [hxk])
  · show ((⟨c.nextId, k, v⟩ :: c.evictList).map (·.id)).Nodup
    simp only [List.map_cons, List.nodup_cons]
    refine ⟨?_, h.idsNodup⟩
    intro hm
    obtain ⟨x, hx, hxk⟩ := List.mem_map.mp hm
    have := h.idsFresh x hx
    omega
  · intro x hx
    show x.id < c.nextId + 1
    rcases List.mem_cons.mp hx with rfl | hx'
    · exact Nat.lt_succ_self _
    · exact Nat.lt_succ_of_lt (h.idsFresh x hx')
  · exact SV.Persist.nodup_keys_aset k c.nextId c.items h.itemsNodup
  · intro k'
    show alookup k' (aset k c.nextId c.items) = ((⟨c.nextId, k, v⟩ :: c.evictList).find? (·.key == k')).map (·.id)
    by_cases hk : k' = k
    · subst hk
      rw [SV.Persist.alookup_aset_self]
      simp
    · rw [SV.Persist.alookup_aset_ne hk, List.find?_cons]
      have : (k == k') = false := by simp; exact fun e => hk e.symm
      simp only [this]
      exact h.lookup k'

/-- `MoveToFront` of a linked element, possibly with a new value -/
theorem Core.touch {c : LRU} (h : Core c) {e : Elem} (he : e ∈ c.evictList) (w : Bytes) :
    Core { c with evictList := { e with val := w } :: c.evictList.filter (·.key != e.key) } := by
  refine ⟨?_, ?_, ?_, h.itemsNodup, ?_⟩
  · show (({ e with val := w } :: c.evictList.filter (·.key != e.key)).map (·.key)).Nodup
    simp only [List.map_cons, List.nodup_cons]
    exact ⟨not_mem_keys_filter _ _, List.Nodup.sublist (List.Sublist.map _ List.filter_sublist) h.keysNodup⟩
  · show (({ e with val := w } :: c.evictList.filter (·.key != e.key)).map (·.id)).Nodup
    rw [← filter_id_eq_filter_key _ e h.keysNodup h.idsNodup he]
    simp only [List.map_cons, List.nodup_cons]
    refine ⟨?_, List.Nodup.sublist (List.Sublist.map _ List.filter_sublist) h.idsNodup⟩
    intro hm
    obtain ⟨x, hx, hxk⟩ := List.mem_map.mp hm
    have := (List.mem_filter.mp hx).2
    simp [hxk] at this
  · intro x hx
    rcases List.mem_cons.mp hx with rfl | hx'
    · exact h.idsFresh e he
    · exact h.idsFresh x (List.mem_filter.mp hx').1
  · intro k
    show alookup k c.items = (({ e with val := w } :: c.evictList.filter (·.key != e.key)).find? (·.key == k)).map (·.id)
    by_cases hk : k = e.key
    · subst hk
      rw [h.lookup_mem he]
      simp
    · rw [List.find?_cons]
      have : (e.key == k) = false := by simp; exact fun e => hk e.symm
      simp only [this]
      rw [find_filter_key, if_neg hk]
      exact h.lookup k

theorem Inv.new (size : Nat) (hs : 0 < size) : Inv (LRU.new size) :=
  { core := { keysNodup := List.nodup_nil, idsNodup := List.nodup_nil, idsFresh := fun e he => (by cases he),
              itemsNodup := List.nodup_nil, lookup := fun _ => rfl },
    sizePos := hs, bound := Nat.zero_le _ }

/-! ## 4. Abstraction lemmas -/

theorem has_kv (l : List Elem) (k : Bytes) : (l.map Elem.kv).any (·.1 == k) = (l.find? (·.key == k)).isSome := by
  induction l with
  | nil => rfl
  | cons x xs ih =>
    rw [List.map_cons, List.any_cons, List.find?_cons, ih]
    show ((x.key == k) || _) = _
    cases (x.key == k) <;> rfl

theorem find_kv (l : List Elem) (k : Bytes) :
    (l.map Elem.kv).find? (·.1 == k) = (l.find? (·.key == k)).map Elem.kv := by
  induction l with
  | nil => rfl
  | cons x xs ih =>
    rw [List.map_cons, List.find?_cons, List.find?_cons, ih]
    show (match (x.key == k) with | true => _ | false => _) = _
    cases (x.key == k) <;> rfl

theorem filter_kv (l : List Elem) (k : Bytes) :
    (l.map Elem.kv).filter (·.1 != k) = (l.filter (·.key != k)).map Elem.kv := by
  induction l with
  | nil => rfl
  | cons x xs ih =>
    rw [List.map_cons, List.filter_cons, List.filter_cons, ih]
    show (if (x.key != k) = true then _ else _) = _
    cases (x.key != k) <;> rfl

theorem abs_has {c : LRU} (h : Core c) (k : Bytes) : c.abs.has k = c.contains k := by
  show (c.evictList.map Elem.kv).any (·.1 == k) = (alookup k c.items).isSome
  rw [has_kv, h.lookup]
  cases c.evictList.find? (·.key == k) <;> rfl

theorem abs_inv {c : LRU} (h : Inv c) : SimpleInv c.abs := by
  refine ⟨?_, ?_⟩
  · show ((c.evictList.map Elem.kv).map (·.1)).Nodup
    rw [List.map_map]
    exact h.core.keysNodup
  · show (c.evictList.map Elem.kv).length ≤ c.size
    rw [List.length_map]
    exact h.bound

/-! ### what `gone` is -/

theorem gone_nil (s s' : Simple) (hs : ∀ p ∈ s.entries, s'.has p.1 = true) : gone s s' = [] := by
  unfold gone
  rw [List.filter_eq_nil_iff]
  intro p hp
  rw [hs p (List.mem_reverse.mp hp)]
  simp

theorem filter_key_self (l : List Elem) (e : Elem) (hn : (l.map (·.key)).Nodup) (he : e ∈ l) :
    l.filter (·.key == e.key) = [e] := by
  induction l with
  | nil => simp at he
  | cons x xs ih =>
    simp only [List.map_cons, List.nodup_cons] at hn
    rcases List.mem_cons.mp he with rfl | he'
    · have : xs.filter (·.key == e.key) = [] := by
        rw [List.filter_eq_nil_iff]
        intro y hy hye
        have : y.key = e.key := by simpa using hye
        exact hn.1 (this ▸ List.mem_map_of_mem hy)
      rw [List.filter_cons, this]
      simp
    · have hx : x.key ≠ e.key := fun hxe => hn.1 (hxe ▸ List.mem_map_of_mem he')
      have hb : (x.key == e.key) = false := by simp [hx]
      rw [List.filter_cons, hb]
      simp only [Bool.false_eq_true, if_false]
      exact ih hn.2 he'

/-- residency in a list from which key `k` was filtered out -/
theorem has_filter (l : List Elem) (k : Bytes) (x : Elem) (hx : x ∈ l) :
    ((l.filter (·.key != k)).map Elem.kv).any (·.1 == x.key) = (x.key != k) := by
  rw [has_kv]
  by_cases hk : x.key = k
  · have h1 : (l.filter (·.key != k)).find? (·.key == x.key) = none := by
      rw [find_filter_key, if_pos hk]
    rw [h1]
    simp [hk]
  · have h1 : ∃ y, y ∈ l.filter (·.key != k) ∧ (y.key == x.key) = true :=
      ⟨x, List.mem_filter.mpr ⟨hx, by simp [hk]⟩, by simp⟩
    rw [List.find?_isSome.mpr h1]
    simp [hk]

/-- if exactly the key of the linked element `e` leaves, the callback list is `[e]` -/
theorem gone_single (n : Nat) (l : List Elem) (s' : Simple) (e : Elem) (hn : (l.map (·.key)).Nodup) (he : e ∈ l)
    (hs : ∀ x ∈ l, s'.has x.key = (x.key != e.key)) : gone ⟨n, l.map Elem.kv⟩ s' = [e.kv] := by
  unfold gone
  rw [List.filter_reverse]
  have : (l.map Elem.kv).filter (fun p => !s'.has p.1) = (l.filter (·.key == e.key)).map Elem.kv := by
    rw [List.filter_map]
    congr 1
    apply List.filter_congr
    intro x hx
    show (!s'.has x.key) = (x.key == e.key)
    rw [hs x hx]
    simp [bne]
  show ((l.map Elem.kv).filter (fun p => !s'.has p.1)).reverse = [e.kv]
  rw [this, filter_key_self l e hn he]
  rfl

/-! ## 5. Every operation: invariant, abstraction, outputs -/

theorem filter_key_last (l : List Elem) (o : Elem) (hk : (l.map (·.key)).Nodup) (hi : (l.map (·.id)).Nodup)
    (hb : l.getLast? = some o) : l.filter (·.key != o.key) = l.dropLast := by
  obtain ⟨init, rfl⟩ := List.getLast?_eq_some_iff.mp hb
  rw [← filter_id_eq_filter_key _ o hk hi (by simp), filter_id_last init o hi]
  simp

theorem moveToFront_eq {c : LRU} (h : Core c) {e : Elem} (he : e ∈ c.evictList) :
    DL.moveToFront c.evictList e.id = e :: c.evictList.filter (·.key != e.key) := by
  unfold DL.moveToFront DL.deref
  rw [find_unique_id _ e h.idsNodup he]
  show e :: c.evictList.filter (·.id != e.id) = _
  rw [filter_id_eq_filter_key _ e h.keysNodup h.idsNodup he]

theorem setValue_front {c : LRU} (h : Core c) {e : Elem} (he : e ∈ c.evictList) (v : Bytes) :
    DL.setValue (e :: c.evictList.filter (·.key != e.key)) e.id v
      = { e with val := v } :: c.evictList.filter (·.key != e.key) := by
  unfold DL.setValue
  rw [List.map_cons]
  congr 1
  · simp
  · rw [← filter_id_eq_filter_key _ e h.keysNodup h.idsNodup he]
    have : ∀ x ∈ c.evictList.filter (·.id != e.id),
        (fun x : Elem => if (x.id == e.id) = true then { x with val := v } else x) x = id x := by
      intro x hx
      have := (List.mem_filter.mp hx).2
      have hne : (x.id == e.id) = false := by simpa [bne] using this
      simp [hne]
    rw [List.map_congr_left this, List.map_id]

/-- the list after a refresh has the same length -/
theorem length_touch {c : LRU} (h : Core c) {e : Elem} (he : e ∈ c.evictList) :
    (e :: c.evictList.filter (·.key != e.key)).length = c.evictList.length := by
  have hp : ∀ l : List Elem, l.length = (l.filter (·.key == e.key)).length + (l.filter (·.key != e.key)).length := by
    intro l
    induction l with
    | nil => rfl
    | cons x xs ih =>
      rw [List.filter_cons, List.filter_cons]
      have hb' : (x.key != e.key) = !(x.key == e.key) := rfl
      rw [hb']
      cases (x.key == e.key)
      · simp only [Bool.false_eq_true, if_false, Bool.not_false, if_true, List.length_cons]; omega
      · simp only [if_true, Bool.not_true, Bool.false_eq_true, if_false, List.length_cons]; omega
  have hp := hp c.evictList
  rw [filter_key_self _ e h.keysNodup he] at hp
  simp only [List.length_cons, List.length_nil] at hp ⊢
  omega

/-- `Add` of a present key and `Get` of a present key, in one statement (`w` is the value the element ends up with) -/
theorem touch_refines {c : LRU} (h : Inv c) {e : Elem} (he : e ∈ c.evictList) (w : Bytes) :
    Inv { c with evictList := { e with val := w } :: c.evictList.filter (·.key != e.key) } ∧
    gone c.abs ⟨c.size, (e.key, w) :: c.abs.entries.filter (·.1 != e.key)⟩ = [] := by
  refine ⟨⟨h.core.touch he w, h.sizePos, ?_⟩, ?_⟩
  · have := length_touch h.core he
    have hb := h.bound
    show ({ e with val := w } :: c.evictList.filter (·.key != e.key)).length ≤ c.size
    simp only [List.length_cons] at this ⊢
    omega
  · apply gone_nil
    intro p hp
    obtain ⟨x, hx, rfl⟩ := List.mem_map.mp hp
    show (((e.key, w) :: (c.evictList.map Elem.kv).filter (·.1 != e.key)).any (·.1 == x.key)) = true
    rw [List.any_cons, filter_kv, has_filter _ _ x hx]
    show ((e.key == x.key) || (x.key != e.key)) = true
    by_cases hk : x.key = e.key <;> simp [hk]

theorem removeElement_refines {c : LRU} (h : Inv c) {e : Elem} (he : e ∈ c.evictList) :
    Inv (c.removeElement e).1 ∧ (c.removeElement e).1.abs = c.abs.remove e.key ∧
    (c.removeElement e).2 = gone c.abs (c.abs.remove e.key) := by
  obtain ⟨h1, h2, h3⟩ := h.core.removeElement he
  refine ⟨⟨h1, by rw [h3]; exact h.sizePos, ?_⟩, ?_, ?_⟩
  · rw [h2, h3]; exact Nat.le_trans (List.length_filter_le _ _) h.bound
  · show (⟨(c.removeElement e).1.size, (c.removeElement e).1.evictList.map Elem.kv⟩ : Simple)
      = ⟨c.size, (c.evictList.map Elem.kv).filter (·.1 != e.key)⟩
    rw [h2, h3, filter_kv]
  · show [e.kv] = _
    symm
    apply gone_single c.size c.evictList _ e h.core.keysNodup he
    intro x hx
    show ((c.evictList.map Elem.kv).filter (·.1 != e.key)).any (·.1 == x.key) = _
    rw [filter_kv, has_filter _ _ x hx]

/-- the unexported `removeOldest()` on a state that satisfies the core invariant (as inside `Add`) -/
theorem evictOldest_core {c : LRU} (h : Core c) {o : Elem} (hb : c.evictList.getLast? = some o) :
    Core c.evictOldest.1 ∧ c.evictOldest.1.evictList = c.evictList.dropLast ∧ c.evictOldest.1.size = c.size ∧
    c.evictOldest.2 = [o.kv] := by
  have ho := List.mem_of_getLast? hb
  obtain ⟨h1, h2, h3⟩ := h.removeElement ho
  have : c.evictOldest = c.removeElement o := by simp only [LRU.evictOldest, DL.back, hb]
  rw [this]
  exact ⟨h1, by rw [h2, filter_key_last _ o h.keysNodup h.idsNodup hb], h3, rfl⟩

theorem simple_add_absent (s : Simple) (k v : Bytes) (hk : s.has k = false) :
    s.add k v = if s.entries.length + 1 > s.cap then (⟨s.cap, ((k, v) :: s.entries).dropLast⟩, true)
                else (⟨s.cap, (k, v) :: s.entries⟩, false) := by
  unfold Simple.add
  simp only [hk, Bool.false_eq_true, if_false, List.length_cons]

theorem add_refines (c : LRU) (k v : Bytes) (h : Inv c) :
    Inv (c.add k v).1 ∧ (c.add k v).1.abs = (c.abs.add k v).1 ∧ (c.add k v).2.1 = (c.abs.add k v).2 ∧
    (c.add k v).2.2 = gone c.abs (c.abs.add k v).1 := by
  cases hl : alookup k c.items with
  | some id =>
    obtain ⟨e, he, hek, hid, _, _⟩ := h.core.resolve hl
    have hhas : c.abs.has k = true := by rw [abs_has h.core, LRU.contains, hl]; rfl
    have hlib : c.add k v = ({ c with evictList := { e with val := v } :: c.evictList.filter (·.key != e.key) }, false, []) := by
      simp only [LRU.add, hl]
      rw [← hid, moveToFront_eq h.core he, setValue_front h.core he]
    have hhand : c.abs.add k v = (⟨c.size, (e.key, v) :: c.abs.entries.filter (·.1 != e.key)⟩, false) := by
      simp only [Simple.add, hhas, if_true, hek]
      rfl
    obtain ⟨h1, h2⟩ := touch_refines h he v
    rw [hlib, hhand]
    refine ⟨h1, ?_, rfl, h2.symm⟩
    show (⟨c.size, Elem.kv { e with val := v } :: (c.evictList.filter (·.key != e.key)).map Elem.kv⟩ : Simple) = _
    rw [← filter_kv]
    rfl
  | none =>
    have hhas : c.abs.has k = false := by rw [abs_has h.core, LRU.contains, hl]; rfl
    have hab := h.core.absent hl
    rw [List.find?_eq_none] at hab
    have hc1 := h.core.pushNew v hl
    have hev1 : (c.pushNew k v).evictList = ⟨c.nextId, k, v⟩ :: c.evictList := rfl
    have hsz1 : (c.pushNew k v).size = c.size := rfl
    have hb := h.bound
    have hp := h.sizePos
    have hlen : c.abs.entries.length = c.evictList.length := List.length_map _
    have hcap : c.abs.cap = c.size := rfl
    rw [simple_add_absent _ _ _ hhas, hlen, hcap]
    simp only [LRU.add, hl, hev1, hsz1, List.length_cons]
    by_cases hgt : c.evictList.length + 1 > c.size
    · simp only [hgt, if_true]
      -- the list was full: `removeOldest` runs
      cases hne : c.evictList with
      | nil => rw [hne] at hgt; simp at hgt; omega
      | cons y ys =>
        obtain ⟨o, ho⟩ : ∃ o, c.evictList.getLast? = some o := by
          cases hg : c.evictList.getLast? with
          | none => rw [List.getLast?_eq_none_iff] at hg; rw [hg] at hne; cases hne
          | some o => exact ⟨o, rfl⟩
        have ho1 : (c.pushNew k v).evictList.getLast? = some o := by
          rw [hev1, hne, List.getLast?_cons_cons, ← hne]; exact ho
        obtain ⟨e1, e2, e3, e4⟩ := evictOldest_core hc1 ho1
        have hom := List.mem_of_getLast? ho
        refine ⟨⟨e1, by rw [e3]; exact hp, ?_⟩, ?_, trivial, ?_⟩
        · rw [e2, hev1, List.length_dropLast, List.length_cons]; omega
        · show (⟨(c.pushNew k v).evictOldest.1.size, (c.pushNew k v).evictOldest.1.evictList.map Elem.kv⟩ : Simple) = _
          rw [e2, e3, hev1, List.map_dropLast]
          rfl
        · rw [e4]
          symm
          apply gone_single c.size c.evictList _ o h.core.keysNodup hom
          intro x hx
          have hd : ((k, v) :: c.abs.entries).dropLast
              = (k, v) :: (c.evictList.filter (·.key != o.key)).map Elem.kv := by
            show ((k, v) :: c.evictList.map Elem.kv).dropLast = _
            rw [List.dropLast_cons_of_ne_nil (by rw [hne]; simp), ← List.map_dropLast,
              filter_key_last _ o h.core.keysNodup h.core.idsNodup ho]
          show (((k, v) :: c.abs.entries).dropLast).any (·.1 == x.key) = _
          rw [hd, List.any_cons, has_filter _ _ x hx]
          have : (k == x.key) = false := by
            have := hab x hx
            simp at this ⊢
            exact fun e => this e.symm
          show ((k == x.key) || _) = _
          rw [this]; rfl
    · simp only [hgt, if_false]
      refine ⟨⟨hc1, hp, ?_⟩, rfl, trivial, ?_⟩
      · rw [hev1, List.length_cons]; omega
      · symm
        apply gone_nil
        intro p hp'
        show (((k, v) :: c.abs.entries).any (·.1 == p.1)) = true
        rw [List.any_cons, List.any_eq_true.mpr ⟨p, hp', by simp⟩]
        simp

theorem gone_self (s : Simple) : gone s s = [] := by
  apply gone_nil
  intro p hp
  exact List.any_eq_true.mpr ⟨p, hp, by simp⟩

theorem get_refines (c : LRU) (k : Bytes) (h : Inv c) :
    Inv (c.get k).1 ∧ (c.get k).1.abs = (c.abs.get k).1 ∧ (c.get k).2 = (c.abs.get k).2 ∧
    ([] : Cb) = gone c.abs (c.abs.get k).1 := by
  cases hl : alookup k c.items with
  | some id =>
    obtain ⟨e, he, hek, hid, hf, hd⟩ := h.core.resolve hl
    subst hek
    have hlib : c.get e.key = ({ c with evictList := e :: c.evictList.filter (·.key != e.key) }, some e.val) := by
      simp only [LRU.get, hl, hd]
      rw [← hid, moveToFront_eq h.core he]
      rfl
    have hfind : c.abs.entries.find? (·.1 == e.key) = some e.kv := by
      show (c.evictList.map Elem.kv).find? (·.1 == e.key) = _
      rw [find_kv, hf]; rfl
    have hhand : c.abs.get e.key = (⟨c.size, (e.key, e.val) :: c.abs.entries.filter (·.1 != e.key)⟩, some e.val) := by
      simp only [Simple.get, hfind]
      rfl
    obtain ⟨h1, h2⟩ := touch_refines h he e.val
    rw [hlib, hhand]
    refine ⟨h1, ?_, rfl, h2.symm⟩
    show (⟨c.size, Elem.kv e :: (c.evictList.filter (·.key != e.key)).map Elem.kv⟩ : Simple) = _
    rw [← filter_kv]
    rfl
  | none =>
    have hfind : c.abs.entries.find? (·.1 == k) = none := by
      show (c.evictList.map Elem.kv).find? (·.1 == k) = _
      rw [find_kv, h.core.absent hl]; rfl
    have hlib : c.get k = (c, none) := by simp only [LRU.get, hl]
    have hhand : c.abs.get k = (c.abs, none) := by simp only [Simple.get, hfind]
    rw [hlib, hhand]
    exact ⟨h, rfl, rfl, (gone_self _).symm⟩

theorem peek_refines (c : LRU) (k : Bytes) (h : Inv c) : c.peek k = c.abs.peek k := by
  cases hl : alookup k c.items with
  | some id =>
    obtain ⟨e, he, hek, hid, hf, hd⟩ := h.core.resolve hl
    have hfind : c.abs.entries.find? (·.1 == k) = some e.kv := by
      show (c.evictList.map Elem.kv).find? (·.1 == k) = _
      rw [find_kv, hf]; rfl
    simp only [LRU.peek, hl, hd, Simple.peek, hfind]
    rfl
  | none =>
    have hfind : c.abs.entries.find? (·.1 == k) = none := by
      show (c.evictList.map Elem.kv).find? (·.1 == k) = _
      rw [find_kv, h.core.absent hl]; rfl
    simp only [LRU.peek, hl, Simple.peek, hfind]
    rfl

theorem remove_refines (c : LRU) (k : Bytes) (h : Inv c) :
    Inv (c.remove k).1 ∧ (c.remove k).1.abs = c.abs.remove k ∧ (c.remove k).2.1 = c.abs.has k ∧
    (c.remove k).2.2 = gone c.abs (c.abs.remove k) := by
  cases hl : alookup k c.items with
  | some id =>
    obtain ⟨e, he, hek, hid, hf, hd⟩ := h.core.resolve hl
    subst hek
    have hhas : c.abs.has e.key = true := by rw [abs_has h.core, LRU.contains, hl]; rfl
    have hlib : c.remove e.key = ((c.removeElement e).1, true, (c.removeElement e).2) := by
      simp only [LRU.remove, hl, hd]
    obtain ⟨h1, h2, h3⟩ := removeElement_refines h he
    rw [hlib, hhas]
    exact ⟨h1, h2, rfl, h3⟩
  | none =>
    have hhas : c.abs.has k = false := by rw [abs_has h.core, LRU.contains, hl]; rfl
    have hlib : c.remove k = (c, false, []) := by simp only [LRU.remove, hl]
    have hrm : c.abs.remove k = c.abs := by
      show (⟨c.size, (c.evictList.map Elem.kv).filter (·.1 != k)⟩ : Simple) = ⟨c.size, c.evictList.map Elem.kv⟩
      congr 1
      rw [List.filter_eq_self]
      intro p hp
      have := List.any_eq_false.mp hhas p hp
      simpa [bne] using this
    rw [hlib, hhas, hrm]
    exact ⟨h, rfl, rfl, (gone_self _).symm⟩

theorem removeOldest_refines (c : LRU) (h : Inv c) :
    Inv c.removeOldest.1 ∧ c.removeOldest.1.abs = { c.abs with entries := c.abs.entries.dropLast } ∧
    c.removeOldest.2.1 = c.abs.entries.getLast? ∧
    c.removeOldest.2.2 = gone c.abs { c.abs with entries := c.abs.entries.dropLast } := by
  have hlast : c.abs.entries.getLast? = c.evictList.getLast?.map Elem.kv := List.getLast?_map
  cases hb : c.evictList.getLast? with
  | none =>
    have hnil : c.evictList = [] := List.getLast?_eq_none_iff.mp hb
    have hlib : c.removeOldest = (c, none, []) := by simp only [LRU.removeOldest, DL.back, hb]
    have habs : ({ c.abs with entries := c.abs.entries.dropLast } : Simple) = c.abs := by
      show (⟨c.size, (c.evictList.map Elem.kv).dropLast⟩ : Simple) = ⟨c.size, c.evictList.map Elem.kv⟩
      rw [hnil]; rfl
    rw [hlib, habs, hlast, hb]
    exact ⟨h, rfl, rfl, (gone_self _).symm⟩
  | some o =>
    have ho := List.mem_of_getLast? hb
    have hlib : c.removeOldest = ((c.removeElement o).1, some o.kv, (c.removeElement o).2) := by
      simp only [LRU.removeOldest, DL.back, hb]
    have habs : c.abs.remove o.key = { c.abs with entries := c.abs.entries.dropLast } := by
      show (⟨c.size, (c.evictList.map Elem.kv).filter (·.1 != o.key)⟩ : Simple)
        = ⟨c.size, (c.evictList.map Elem.kv).dropLast⟩
      rw [filter_kv, filter_key_last _ o h.core.keysNodup h.core.idsNodup hb, List.map_dropLast]
    obtain ⟨h1, h2, h3⟩ := removeElement_refines h ho
    rw [hlib, ← habs, hlast, hb]
    exact ⟨h1, h2, rfl, h3⟩

theorem keys_refines (c : LRU) : c.keys = c.abs.keys := by
  show c.evictList.reverse.map (·.key) = (c.evictList.map Elem.kv).reverse.map (·.1)
  rw [← List.map_reverse, List.map_map]
  rfl

theorem len_refines (c : LRU) : c.len = c.abs.entries.length := (List.length_map _).symm

theorem containsOrAdd_refines (c : LRU) (k v : Bytes) (h : Inv c) :
    Inv (c.containsOrAdd k v).1 ∧ (c.containsOrAdd k v).1.abs = (c.abs.containsOrAdd k v).1 ∧
    (c.containsOrAdd k v).2.1 = (c.abs.containsOrAdd k v).2.1 ∧
    (c.containsOrAdd k v).2.2.1 = (c.abs.containsOrAdd k v).2.2 ∧
    (c.containsOrAdd k v).2.2.2 = gone c.abs (c.abs.containsOrAdd k v).1 := by
  have hh := abs_has h.core k
  cases hc : c.contains k with
  | true =>
    rw [hc] at hh
    simp only [LRU.containsOrAdd, hc, Simple.containsOrAdd, hh, if_true]
    exact ⟨h, trivial, trivial, trivial, (gone_self _).symm⟩
  | false =>
    rw [hc] at hh
    obtain ⟨h1, h2, h3, h4⟩ := add_refines c k v h
    simp only [LRU.containsOrAdd, hc, Simple.containsOrAdd, hh, Bool.false_eq_true, if_false]
    exact ⟨h1, h2, trivial, h3, h4⟩

theorem mem_of_alookup (k : Bytes) (l : List (Bytes × Nat)) (v : Nat) (h : alookup k l = some v) : (k, v) ∈ l := by
  induction l with
  | nil => simp [alookup] at h
  | cons a r ih =>
    obtain ⟨k', v'⟩ := a
    simp only [alookup] at h
    split at h
    · rename_i hk
      have e : k' = k := by simpa using hk
      simp only [Option.some.injEq] at h
      rw [e, h]; exact List.mem_cons_self ..
    · exact List.mem_cons_of_mem _ (ih h)

/-- `Purge` invokes the callback once for every resident entry (in the map's iteration order) -/
theorem purge_callbacks_perm {c : LRU} (h : Core c) : c.purge.2.Perm (c.evictList.map Elem.kv) := by
  have hn1 : (c.evictList.map Elem.kv).Nodup := by
    have : ((c.evictList.map Elem.kv).map (·.1)).Nodup := by rw [List.map_map]; exact h.keysNodup
    exact List.Pairwise.of_map (·.1) (fun a b hab he => hab (he ▸ rfl)) this
  have hn2 : c.purge.2.Nodup := by
    have hp : c.items.Pairwise (fun a b => a.1 ≠ b.1) := List.pairwise_map.mp h.itemsNodup
    refine List.Pairwise.filterMap _ ?_ hp
    intro a a' hne b hb b' hb' hbb
    cases hd : DL.deref c.evictList a.2 with
    | none => rw [hd] at hb; simp at hb
    | some e =>
      cases hd' : DL.deref c.evictList a'.2 with
      | none => rw [hd'] at hb'; simp at hb'
      | some e' =>
        rw [hd] at hb; rw [hd'] at hb'
        simp only [Option.map_some, Option.some.injEq] at hb hb'
        rw [← hb, ← hb'] at hbb
        exact hne (Prod.mk.inj hbb).1
  rw [List.perm_ext_iff_of_nodup hn2 hn1]
  intro q
  constructor
  · intro hq
    obtain ⟨p, hp, hf⟩ := List.mem_filterMap.mp hq
    obtain ⟨k, id⟩ := p
    have hl := SV.Persist.alookup_of_mem_nodup c.items h.itemsNodup hp
    obtain ⟨e, he, hek, _, _, hd⟩ := h.resolve hl
    simp only [hd, Option.map_some, Option.some.injEq] at hf
    rw [← hf, ← hek]
    exact List.mem_map_of_mem he
  · intro hq
    obtain ⟨e, he, rfl⟩ := List.mem_map.mp hq
    refine List.mem_filterMap.mpr ⟨(e.key, e.id), mem_of_alookup _ _ _ (h.lookup_mem he), ?_⟩
    show (DL.deref c.evictList e.id).map _ = _
    rw [DL.deref, find_unique_id _ e h.idsNodup he]
    rfl

theorem purge_refines (c : LRU) (h : Inv c) :
    Inv c.purge.1 ∧ c.purge.1.abs = { c.abs with entries := [] } ∧
    c.purge.2.Perm (gone c.abs { c.abs with entries := [] }) := by
  refine ⟨?_, rfl, ?_⟩
  · exact { core := { keysNodup := List.nodup_nil, idsNodup := List.nodup_nil, idsFresh := fun e he => (by cases he),
                      itemsNodup := List.nodup_nil, lookup := fun _ => rfl },
            sizePos := h.sizePos, bound := Nat.zero_le _ }
  · have hg : gone c.abs { c.abs with entries := [] } = (c.evictList.map Elem.kv).reverse := by
      show (c.evictList.map Elem.kv).reverse.filter (fun p => !(⟨c.size, []⟩ : Simple).has p.1) = _
      exact List.filter_eq_self.mpr (fun p _ => rfl)
    rw [hg]
    exact (purge_callbacks_perm h.core).trans (List.reverse_perm _).symm

/-! ## 6. Refinement -/

theorem obsEq_of_eq {a b : CallObs} (h1 : a.1 = b.1) (h2 : a.2 = b.2) : ObsEq a b := by
  refine ⟨h1, ?_⟩
  split
  · rw [h2]
  · exact h2

/-- STEP LEMMA: one call on the library model — the invariant is kept, the abstraction commutes with the hand model's
    operation, the return value is the hand model's, and the callback is invoked with exactly the entries that leave the
    hand model's state, oldest first (for `Purge`: in some order) -/
theorem step_refines (c : LRU) (op : Op) (h : Inv c) :
    Inv (c.step op).1 ∧ (c.step op).1.abs = (plainStep c.abs op).1 ∧ ObsEq (c.step op).2 (plainStep c.abs op).2 := by
  cases op with
  | add k v =>
    obtain ⟨h1, h2, h3, h4⟩ := add_refines c k v h
    exact ⟨h1, h2, obsEq_of_eq (congrArg Out.evicted h3) h4⟩
  | get k =>
    obtain ⟨h1, h2, h3, h4⟩ := get_refines c k h
    exact ⟨h1, h2, obsEq_of_eq (congrArg Out.value h3) h4⟩
  | contains k =>
    exact ⟨h, rfl, obsEq_of_eq (congrArg Out.present (abs_has h.core k).symm) (gone_self _).symm⟩
  | peek k =>
    exact ⟨h, rfl, obsEq_of_eq (congrArg Out.value (peek_refines c k h)) (gone_self _).symm⟩
  | remove k =>
    obtain ⟨h1, h2, h3, h4⟩ := remove_refines c k h
    exact ⟨h1, h2, obsEq_of_eq (congrArg Out.removed h3) h4⟩
  | removeOldest =>
    obtain ⟨h1, h2, h3, h4⟩ := removeOldest_refines c h
    exact ⟨h1, h2, obsEq_of_eq (congrArg Out.oldest h3) h4⟩
  | keys =>
    exact ⟨h, rfl, obsEq_of_eq (congrArg Out.keys (keys_refines c)) (gone_self _).symm⟩
  | len =>
    exact ⟨h, rfl, obsEq_of_eq (congrArg Out.len (len_refines c)) (gone_self _).symm⟩
  | purge =>
    obtain ⟨h1, h2, h3⟩ := purge_refines c h
    refine ⟨h1, h2, rfl, ?_⟩
    show (if Out.purged = Out.purged then _ else _)
    rw [if_pos rfl]
    exact h3
  | containsOrAdd k v =>
    obtain ⟨h1, h2, h3, h4, h5⟩ := containsOrAdd_refines c k v h
    refine ⟨h1, h2, obsEq_of_eq ?_ h5⟩
    show Out.okEvicted _ _ = Out.okEvicted _ _
    rw [h3, h4]

theorem lib_sim_run (ops : List Op) : ∀ c : LRU, Inv c →
    TraceEq (trace LRU.step c ops) (trace plainStep c.abs ops) ∧
    (finalState LRU.step c ops).abs = finalState plainStep c.abs ops ∧ Inv (finalState LRU.step c ops) := by
  induction ops with
  | nil => intro c h; exact ⟨trivial, rfl, h⟩
  | cons op ops ih =>
    intro c h
    obtain ⟨h1, h2, h3⟩ := step_refines c op h
    obtain ⟨i1, i2, i3⟩ := ih (c.step op).1 h1
    rw [h2] at i1 i2
    exact ⟨⟨h3, i1⟩, i2, i3⟩

/-- MAIN THEOREM.  For every capacity `size > 0` (what `NewLRU` accepts) and EVERY history of `Add`, `Get`, `Contains`,
    `Peek`, `Remove`, `RemoveOldest`, `Keys`, `Len`, `Purge`, `ContainsOrAdd`: the library's `simplelru.LRU` (linked list +
    map of element pointers) and the hand-written recency-list model `SV.LRU.Simple` return the same value at every step,
    the eviction callback is invoked with exactly the entries that leave the hand model's state, in the same order (for
    `Purge`, whose order is Go's map iteration order: the same entries in some order); the final states are related by
    the abstraction function, and the representation invariant holds. -/
theorem lib_refines_plain_model (size : Nat) (hs : 0 < size) (ops : List Op) :
    TraceEq (trace LRU.step (LRU.new size) ops) (trace plainStep ⟨size, []⟩ ops) ∧
    (finalState LRU.step (LRU.new size) ops).abs = finalState plainStep ⟨size, []⟩ ops ∧
    Inv (finalState LRU.step (LRU.new size) ops) :=
  lib_sim_run ops (LRU.new size) (Inv.new size hs)

theorem step_out_purged (c : LRU) (op : Op) : (c.step op).2.1 = Out.purged ↔ op = Op.purge := by
  cases op <;> simp [LRU.step]

theorem lib_sim_run_eq (ops : List Op) (hp : ∀ op ∈ ops, op ≠ Op.purge) : ∀ c : LRU, Inv c →
    trace LRU.step c ops = trace plainStep c.abs ops := by
  induction ops with
  | nil => intro c _; rfl
  | cons op ops ih =>
    intro c h
    obtain ⟨h1, h2, h3, h4⟩ := step_refines c op h
    have hne : ¬ (c.step op).2.1 = Out.purged := fun e => hp op (List.mem_cons_self ..) ((step_out_purged c op).mp e)
    rw [if_neg hne] at h4
    have := ih (fun o ho => hp o (List.mem_cons_of_mem _ ho)) (c.step op).1 h1
    rw [h2] at this
    show (c.step op).2 :: _ = (plainStep c.abs op).2 :: _
    rw [this, Prod.ext h3 h4]

/-- without `Purge` in the history the two traces are EQUAL -/
theorem lib_refines_plain_model_eq (size : Nat) (hs : 0 < size) (ops : List Op) (hp : ∀ op ∈ ops, op ≠ Op.purge) :
    trace LRU.step (LRU.new size) ops = trace plainStep ⟨size, []⟩ ops :=
  lib_sim_run_eq ops hp (LRU.new size) (Inv.new size hs)

/-! ## 7. The invariant in the words of the library, and its preservation -/

/-- every operation keeps the representation invariant -/
theorem inv_step (c : LRU) (op : Op) (h : Inv c) : Inv (c.step op).1 := (step_refines c op h).1

theorem inv_add (c : LRU) (k v : Bytes) (h : Inv c) : Inv (c.add k v).1 := (add_refines c k v h).1
theorem inv_get (c : LRU) (k : Bytes) (h : Inv c) : Inv (c.get k).1 := (get_refines c k h).1
theorem inv_remove (c : LRU) (k : Bytes) (h : Inv c) : Inv (c.remove k).1 := (remove_refines c k h).1
theorem inv_removeOldest (c : LRU) (h : Inv c) : Inv c.removeOldest.1 := (removeOldest_refines c h).1
theorem inv_purge (c : LRU) (h : Inv c) : Inv c.purge.1 := (purge_refines c h).1
theorem inv_containsOrAdd (c : LRU) (k v : Bytes) (h : Inv c) : Inv (c.containsOrAdd k v).1 :=
  (containsOrAdd_refines c k v h).1

/-- `items` and `evictList` hold the same keys (each once) -/
theorem Inv.sameKeys {c : LRU} (h : Inv c) : (c.items.map (·.1)).Perm (c.evictList.map (·.key)) := by
  rw [List.perm_ext_iff_of_nodup h.core.itemsNodup h.core.keysNodup]
  intro k
  constructor
  · intro hk
    obtain ⟨p, hp, rfl⟩ := List.mem_map.mp hk
    obtain ⟨k, id⟩ := p
    obtain ⟨e, he, hek, _⟩ := h.core.resolve (SV.Persist.alookup_of_mem_nodup c.items h.core.itemsNodup hp)
    exact hek ▸ List.mem_map_of_mem he
  · intro hk
    obtain ⟨e, he, rfl⟩ := List.mem_map.mp hk
    exact List.mem_map.mpr ⟨(e.key, e.id), mem_of_alookup _ _ _ (h.core.lookup_mem he), rfl⟩

/-- `len(c.items) == c.evictList.Len()` -/
theorem Inv.sameLen {c : LRU} (h : Inv c) : c.items.length = c.evictList.length := by
  have := h.sameKeys.length_eq
  simpa using this

/-- no dangling and no stale map entry: `items[k]` points to a linked element, and that element carries key `k` -/
theorem Inv.deref {c : LRU} (h : Inv c) {k : Bytes} {id : Nat} (hp : (k, id) ∈ c.items) :
    ∃ e, DL.deref c.evictList id = some e ∧ e ∈ c.evictList ∧ e.key = k ∧ e.id = id := by
  obtain ⟨e, he, hek, hid, _, hd⟩ := h.core.resolve (SV.Persist.alookup_of_mem_nodup c.items h.core.itemsNodup hp)
  exact ⟨e, hd, he, hek, hid⟩

theorem evictOldest_size (c : LRU) : c.evictOldest.1.size = c.size := by
  unfold LRU.evictOldest; split <;> rfl

theorem add_size (c : LRU) (k v : Bytes) : (c.add k v).1.size = c.size := by
  unfold LRU.add
  split
  · rfl
  · split
    · exact evictOldest_size _
    · rfl

theorem step_size (c : LRU) (op : Op) : (c.step op).1.size = c.size := by
  cases op with
  | add k v => exact add_size c k v
  | get k => show (c.get k).1.size = _; unfold LRU.get; split <;> rfl
  | remove k =>
    show (c.remove k).1.size = _
    unfold LRU.remove
    split
    · split <;> rfl
    · rfl
  | removeOldest => show c.removeOldest.1.size = _; unfold LRU.removeOldest; split <;> rfl
  | containsOrAdd k v =>
    show (c.containsOrAdd k v).1.size = _
    unfold LRU.containsOrAdd
    split
    · rfl
    · exact add_size c k v
  | _ => rfl

theorem finalState_size (ops : List Op) : ∀ c : LRU, (finalState LRU.step c ops).size = c.size := by
  induction ops with
  | nil => intro c; rfl
  | cons op ops ih => intro c; show (finalState LRU.step (c.step op).1 ops).size = _; rw [ih, step_size]

/-! ## 8. Corollaries, stated on the library model -/

/-- never more than `size` entries, after any history -/
theorem lib_len_le_size (size : Nat) (hs : 0 < size) (ops : List Op) :
    (finalState LRU.step (LRU.new size) ops).len ≤ size ∧
    (finalState LRU.step (LRU.new size) ops).items.length ≤ size := by
  obtain ⟨_, _, h⟩ := lib_refines_plain_model size hs ops
  have hb := h.bound
  rw [finalState_size] at hb
  exact ⟨hb, by rw [h.sameLen]; exact hb⟩

/-! ### what `Add`, `Get`, `Peek` do, case by case -/

/-- key present: `Add` overwrites in place and moves to front, `Get` moves to front, `Peek` reads -/
theorem present_case {c : LRU} (h : Inv c) {k : Bytes} {id : Nat} (v : Bytes) (hl : alookup k c.items = some id) :
    ∃ e, e ∈ c.evictList ∧ e.key = k ∧ e.id = id ∧ c.peek k = some e.val ∧
      c.add k v = ({ c with evictList := { e with val := v } :: c.evictList.filter (·.key != k) }, false, []) ∧
      c.get k = ({ c with evictList := e :: c.evictList.filter (·.key != k) }, some e.val) := by
  obtain ⟨e, he, hek, hid, _, hd⟩ := h.core.resolve hl
  subst hek
  refine ⟨e, he, rfl, hid, ?_, ?_, ?_⟩
  · simp only [LRU.peek, hl, hd]; rfl
  · simp only [LRU.add, hl]
    rw [← hid, moveToFront_eq h.core he, setValue_front h.core he]
  · simp only [LRU.get, hl, hd]
    rw [← hid, moveToFront_eq h.core he]
    rfl

/-- key absent, room left: `Add` links a new element at the front -/
theorem room_case {c : LRU} {k : Bytes} (v : Bytes) (hl : alookup k c.items = none)
    (hle : c.evictList.length + 1 ≤ c.size) : c.add k v = (c.pushNew k v, false, []) := by
  simp only [LRU.add, hl]
  rw [if_neg]
  show ¬ (_ :: c.evictList).length > c.size
  simp only [List.length_cons]; omega

/-- key absent, cache full: `Add` links a new element at the front and unlinks the back element -/
theorem full_case {c : LRU} (h : Inv c) {k : Bytes} (v : Bytes) (hl : alookup k c.items = none)
    (hgt : c.evictList.length + 1 > c.size) :
    ∃ o init, c.evictList = init ++ [o] ∧ (c.add k v).2 = (true, [o.kv]) ∧
      (c.add k v).1.evictList = ⟨c.nextId, k, v⟩ :: init := by
  have hp := h.sizePos
  have hadd : c.add k v = ((c.pushNew k v).evictOldest.1, true, (c.pushNew k v).evictOldest.2) := by
    simp only [LRU.add, hl]
    rw [if_pos]
    show (_ :: c.evictList).length > c.size
    simp only [List.length_cons]; omega
  cases hg : c.evictList.getLast? with
  | none =>
    rw [List.getLast?_eq_none_iff] at hg
    rw [hg] at hgt; simp at hgt; omega
  | some o =>
    obtain ⟨init, hinit⟩ := List.getLast?_eq_some_iff.mp hg
    have hev1 : (c.pushNew k v).evictList = (⟨c.nextId, k, v⟩ :: init) ++ [o] := by
      show _ :: c.evictList = _
      rw [hinit]; rfl
    have ho1 : (c.pushNew k v).evictList.getLast? = some o := by rw [hev1]; exact List.getLast?_concat
    obtain ⟨_, e2, _, e4⟩ := evictOldest_core (h.core.pushNew v hl) ho1
    refine ⟨o, init, hinit, ?_, ?_⟩
    · rw [hadd, e4]
    · rw [hadd]
      show (c.pushNew k v).evictOldest.1.evictList = _
      rw [e2, hev1, List.dropLast_concat]

/-- `Peek`/`Contains` read through the map what a scan of the list for the key would find -/
theorem peek_eq_find {c : LRU} (h : Inv c) (k : Bytes) :
    c.peek k = (c.evictList.find? (·.key == k)).map (·.val) := by
  cases hl : alookup k c.items with
  | some id =>
    obtain ⟨e, _, _, _, hf, hd⟩ := h.core.resolve hl
    simp only [LRU.peek, hl, hd, hf]
  | none => simp only [LRU.peek, hl, h.core.absent hl]; rfl

theorem contains_eq_find {c : LRU} (h : Inv c) (k : Bytes) :
    c.contains k = (c.evictList.find? (·.key == k)).isSome := by
  rw [LRU.contains, h.core.lookup]
  cases c.evictList.find? (·.key == k) <;> rfl

/-- the lookups after a refresh of `e` (possibly with a new value `w`) -/
theorem peek_touch {c : LRU} (h : Inv c) {e : Elem} (he : e ∈ c.evictList) (w : Bytes) :
    let c' : LRU := { c with evictList := { e with val := w } :: c.evictList.filter (·.key != e.key) }
    c'.peek e.key = some w ∧ ∀ k', k' ≠ e.key → c'.peek k' = c.peek k' := by
  intro c'
  have hi : Inv c' := (touch_refines h he w).1
  refine ⟨?_, ?_⟩
  · rw [peek_eq_find hi]
    show ((({ e with val := w } : Elem) :: c.evictList.filter (·.key != e.key)).find? (·.key == e.key)).map (·.val) = _
    simp
  · intro k' hk
    rw [peek_eq_find hi, peek_eq_find h]
    show ((({ e with val := w } : Elem) :: c.evictList.filter (·.key != e.key)).find? (·.key == k')).map (·.val) = _
    have : (e.key == k') = false := by simp; exact fun e => hk e.symm
    rw [List.find?_cons]
    simp only [this]
    rw [find_filter_key, if_neg hk]

/-- the evicted entry is the least recently used one: `Add` evicts iff the key is new and the cache is full; then the
    callback gets exactly the back element of the list = the head of `Keys()` (oldest first) = what `GetOldest` shows,
    that key is gone, and `Keys()` afterwards is the old `Keys()` without its head, followed by the new key.
    Without an eviction the callback is not invoked. -/
theorem lib_add_evicts_lru (c : LRU) (k v : Bytes) (h : Inv c) :
    (c.add k v).2.1 = (!c.contains k && decide (c.len = c.size)) ∧
    ((c.add k v).2.1 = false → (c.add k v).2.2 = []) ∧
    ((c.add k v).2.1 = true → ∃ o, DL.back c.evictList = some o ∧ (c.add k v).2.2 = [(o.key, o.val)] ∧
        c.keys.head? = some o.key ∧ (c.add k v).1.keys = c.keys.tail ++ [k] ∧
        (c.add k v).1.contains o.key = false) := by
  have hb := h.bound
  cases hl : alookup k c.items with
  | some id =>
    obtain ⟨e, _, _, _, _, hadd, _⟩ := present_case h v hl
    have hc : c.contains k = true := by rw [LRU.contains, hl]; rfl
    rw [hadd, hc]
    exact ⟨rfl, fun _ => rfl, fun hf => by cases hf⟩
  | none =>
    have hc : c.contains k = false := by rw [LRU.contains, hl]; rfl
    by_cases hgt : c.evictList.length + 1 > c.size
    · obtain ⟨o, init, hinit, h2, h3⟩ := full_case h v hl hgt
      have hlen : c.len = c.size := by show c.evictList.length = c.size; omega
      have h21 : (c.add k v).2.1 = true := by rw [h2]
      have h22 : (c.add k v).2.2 = [o.kv] := by rw [h2]
      refine ⟨(by rw [h21, hc, hlen]; simp), (fun hf => by rw [h21] at hf; cases hf), fun _ => ?_⟩
      refine ⟨o, (by rw [DL.back, hinit]; exact List.getLast?_concat), h22, ?_, ?_, ?_⟩
      · simp [LRU.keys, hinit]
      · simp [LRU.keys, hinit, h3]
      · have hi := inv_add c k v h
        rw [LRU.contains, hi.core.lookup, h3]
        have hkn := h.core.keysNodup
        rw [hinit, List.map_append, List.nodup_append] at hkn
        have hab := h.core.absent hl
        rw [List.find?_eq_none] at hab
        have : (⟨c.nextId, k, v⟩ :: init : List Elem).find? (·.key == o.key) = none := by
          rw [List.find?_eq_none]
          intro x hx
          rcases List.mem_cons.mp hx with rfl | hx'
          · have := hab o (by rw [hinit]; simp)
            simp at this ⊢
            exact fun e => this e.symm
          · have := hkn.2.2 x.key (List.mem_map_of_mem hx') o.key (by simp)
            simpa using this
        rw [this]; rfl
    · have hadd := room_case v hl (by omega)
      have hlen : ¬ c.len = c.size := by show ¬ c.evictList.length = c.size; omega
      rw [hadd, hc]
      exact ⟨(by simp [hlen]), fun _ => rfl, fun hf => by cases hf⟩

/-- `Add` of a present key does not evict, does not invoke the callback, keeps `Len`, overwrites the value and makes
    the key the most recently used one; nothing else moves -/
theorem lib_add_present (c : LRU) (k v : Bytes) (h : Inv c) (hc : c.contains k = true) :
    (c.add k v).2 = (false, []) ∧ (c.add k v).1.len = c.len ∧
    (c.add k v).1.keys = c.keys.filter (· != k) ++ [k] ∧ (c.add k v).1.peek k = some v ∧
    (∀ k', k' ≠ k → (c.add k v).1.peek k' = c.peek k') := by
  cases hl : alookup k c.items with
  | none => rw [LRU.contains, hl] at hc; cases hc
  | some id =>
    obtain ⟨e, he, hek, hid, _, hadd, _⟩ := present_case h v hl
    subst hek
    have hi := inv_add c e.key v h
    rw [hadd] at hi ⊢
    refine ⟨rfl, ?_, ?_, ?_, ?_⟩
    · have := length_touch h.core he
      simp only [LRU.len, List.length_cons] at this ⊢
      exact this
    · simp only [LRU.keys, List.reverse_cons, List.map_append, List.map_cons, List.map_nil, List.filter_map,
        List.filter_reverse]
      rfl
    · exact (peek_touch h he v).1
    · exact (peek_touch h he v).2

/-- after `Add(k, v)` the front element carries `(k, v)`: the key just written is the most recently used one and is
    never the one evicted -/
theorem add_front (c : LRU) (k v : Bytes) (h : Inv c) :
    ∃ i rest, (c.add k v).1.evictList = ⟨i, k, v⟩ :: rest := by
  cases hl : alookup k c.items with
  | some id =>
    obtain ⟨e, _, hek, _, _, hadd, _⟩ := present_case h v hl
    rw [hadd]
    exact ⟨e.id, _, by rw [← hek]⟩
  | none =>
    by_cases hgt : c.evictList.length + 1 > c.size
    · obtain ⟨o, init, _, _, h3⟩ := full_case h v hl hgt
      exact ⟨_, _, h3⟩
    · rw [room_case v hl (by omega)]
      exact ⟨_, _, rfl⟩

theorem lib_add_then_read (c : LRU) (k v : Bytes) (h : Inv c) :
    (c.add k v).1.contains k = true ∧ (c.add k v).1.peek k = some v ∧ (c.add k v).1.keys.getLast? = some k := by
  have hi := inv_add c k v h
  obtain ⟨i, rest, hev⟩ := add_front c k v h
  refine ⟨?_, ?_, ?_⟩
  · rw [contains_eq_find hi, hev]; simp
  · rw [peek_eq_find hi, hev]; simp
  · rw [LRU.keys, hev]; simp

/-- `Get`, `Contains`, `Peek` agree on presence and on the value; `Contains` and `Peek` leave the cache as it is (their
    model has no resulting state at all), `Get` of an absent key too; `Get` of a present key moves it to the most recent
    end of `Keys()` and changes nothing else -/
theorem lib_get_contains_peek (c : LRU) (k : Bytes) (h : Inv c) :
    (c.get k).2 = c.peek k ∧ (c.peek k).isSome = c.contains k ∧
    (c.step (.contains k)).1 = c ∧ (c.step (.peek k)).1 = c ∧
    (c.contains k = false → (c.get k).1 = c) ∧
    (c.contains k = true → (c.get k).1.keys = c.keys.filter (· != k) ++ [k] ∧ (c.get k).1.len = c.len) ∧
    (∀ k', (c.get k).1.peek k' = c.peek k') := by
  cases hl : alookup k c.items with
  | some id =>
    obtain ⟨e, he, hek, _, hpk, _, hget⟩ := present_case h [] hl
    subst hek
    have hc : c.contains e.key = true := by rw [LRU.contains, hl]; rfl
    rw [hget, hpk, hc]
    refine ⟨rfl, rfl, rfl, rfl, (fun hf => by cases hf), fun _ => ⟨?_, ?_⟩, ?_⟩
    · simp only [LRU.keys, List.reverse_cons, List.map_append, List.map_cons, List.map_nil, List.filter_map,
        List.filter_reverse]
      rfl
    · exact length_touch h.core he
    · intro k'
      obtain ⟨t1, t2⟩ := peek_touch h he e.val
      by_cases hk : k' = e.key
      · rw [hk, hpk]; exact t1
      · exact t2 k' hk
  | none =>
    have hc : c.contains k = false := by rw [LRU.contains, hl]; rfl
    have hget : c.get k = (c, none) := by simp only [LRU.get, hl]
    have hpk : c.peek k = none := by simp only [LRU.peek, hl]
    rw [hget, hpk, hc]
    exact ⟨rfl, rfl, rfl, rfl, fun _ => rfl, (fun hf => by cases hf), fun _ => rfl⟩

/-- `ContainsOrAdd` reports `ok` = the key was resident; then nothing at all happens (no refresh, no overwrite, no
    callback).  Otherwise it is `Add`: the key is resident afterwards with the given value, `evicted` is `Add`'s flag,
    i.e. true exactly when the cache was full, and the callback gets `Add`'s (the least recently used) entry. -/
theorem lib_containsOrAdd (c : LRU) (k v : Bytes) (h : Inv c) :
    (c.containsOrAdd k v).2.1 = c.contains k ∧
    (c.contains k = true → c.containsOrAdd k v = (c, true, false, [])) ∧
    (c.contains k = false →
      (c.containsOrAdd k v).1 = (c.add k v).1 ∧ (c.containsOrAdd k v).2.2 = (c.add k v).2 ∧
      (c.containsOrAdd k v).1.contains k = true ∧ (c.containsOrAdd k v).1.peek k = some v ∧
      (c.containsOrAdd k v).2.2.1 = decide (c.len = c.size)) := by
  cases hc : c.contains k with
  | true =>
    simp only [LRU.containsOrAdd, hc, if_true]
    exact ⟨trivial, fun _ => trivial, fun hf => by cases hf⟩
  | false =>
    have hcoa : c.containsOrAdd k v = ((c.add k v).1, false, (c.add k v).2.1, (c.add k v).2.2) := by
      simp only [LRU.containsOrAdd, hc, Bool.false_eq_true, if_false]
    obtain ⟨r1, r2, _⟩ := lib_add_then_read c k v h
    have hflag := (lib_add_evicts_lru c k v h).1
    rw [hc] at hflag
    rw [hcoa]
    exact ⟨rfl, (fun hf => by cases hf), fun _ => ⟨rfl, rfl, r1, r2, (by rw [hflag]; rfl)⟩⟩

/-- `Remove` reports whether the key was resident; a resident key is unlinked, nothing else moves, AND THE EVICTION
    CALLBACK IS INVOKED with the removed pair (`removeElement` does not distinguish an eviction from a removal) -/
theorem lib_remove (c : LRU) (k : Bytes) (h : Inv c) :
    (c.remove k).2.1 = c.contains k ∧
    (c.contains k = false → c.remove k = (c, false, [])) ∧
    (c.contains k = true → ∃ v, c.peek k = some v ∧ (c.remove k).2.2 = [(k, v)] ∧
        (c.remove k).1.contains k = false ∧ (c.remove k).1.keys = c.keys.filter (· != k)) := by
  cases hl : alookup k c.items with
  | none =>
    have hc : c.contains k = false := by rw [LRU.contains, hl]; rfl
    have hrm : c.remove k = (c, false, []) := by simp only [LRU.remove, hl]
    rw [hrm, hc]
    exact ⟨rfl, fun _ => rfl, fun hf => by cases hf⟩
  | some id =>
    have hc : c.contains k = true := by rw [LRU.contains, hl]; rfl
    obtain ⟨e, he, hek, _, _, hd⟩ := h.core.resolve hl
    have hpk : c.peek k = some e.val := by simp only [LRU.peek, hl, hd]; rfl
    subst hek
    have hrm : c.remove e.key = ((c.removeElement e).1, true, (c.removeElement e).2) := by
      simp only [LRU.remove, hl, hd]
    obtain ⟨_, hev, _⟩ := h.core.removeElement he
    have hi := inv_remove c e.key h
    rw [hrm] at hi ⊢
    rw [hc]
    refine ⟨rfl, (fun hf => by cases hf), fun _ => ⟨_, hpk, ?_, ?_, ?_⟩⟩
    · rfl
    · rw [contains_eq_find hi]
      show ((c.removeElement e).1.evictList.find? (·.key == e.key)).isSome = false
      rw [hev, find_filter_key, if_pos rfl]
      rfl
    · show (c.removeElement e).1.evictList.reverse.map (·.key) = _
      rw [hev]
      simp only [LRU.keys, List.filter_map, List.filter_reverse]
      rfl

/-! ## 9. Closing the chain of C15: the library model under the `lruCache` wrapper refines the reference LRU

`SV/LRU/RefSpec.lean` proves `Simple.stepL` (the hand model under the wrapper's `Put`/`HasOrAdd`/`Get`/`Peek`/`Has`/
`Remove`/`Clear`) equal to the independent reference `Ref`.  Here the same wrapper is put on the library model; by the step
lemmas above it yields the hand model's outputs, hence the reference's. -/

/-- `lruCache` → `simpleLRUCacheAdapter` → `lru.Cache` → `simplelru.LRU`: `Put` is `Add` (size dropped); `HasOrAdd` is
    `ContainsOrAdd` followed, when not found, by `added = Contains(key)`; `Remove` drops the flag; `Clear` is `Purge` -/
def LRU.stepL (c : LRU) : LOp → LRU × LOut
  | .put k v _ => ((c.add k v).1, .evicted (c.add k v).2.1)
  | .hoa k v _ =>
    ((c.containsOrAdd k v).1,
     if (c.containsOrAdd k v).2.1 then .hasAdded true false
     else .hasAdded false ((c.containsOrAdd k v).1.contains k))
  | .get k => ((c.get k).1, .value (c.get k).2)
  | .peek k => (c, .value (c.peek k))
  | .has k => (c, .present (c.contains k))
  | .rm k => ((c.remove k).1, .done)
  | .clear => (c.purge.1, .done)

/-- `Keys()`, the values in the same order, `SizeInBytesContained()` (the adapter returns 0), `Len()` -/
def LRU.obsL (c : LRU) : SV.LRU.Obs := ⟨c.keys, c.evictList.reverse.map (·.val), 0, c.len⟩

theorem obsL_eq (c : LRU) : c.obsL = c.abs.obs := by
  show (⟨c.keys, c.evictList.reverse.map (·.val), 0, c.len⟩ : SV.LRU.Obs)
    = ⟨c.abs.keys, (c.evictList.map Elem.kv).reverse.map (·.2), 0, (c.evictList.map Elem.kv).length⟩
  rw [keys_refines, ← List.map_reverse, List.map_map, List.length_map]
  rfl

theorem stepL_refines (c : LRU) (op : LOp) (h : Inv c) :
    Inv (c.stepL op).1 ∧ (c.stepL op).1.abs = (c.abs.stepL op).1 ∧ (c.stepL op).2 = (c.abs.stepL op).2 := by
  cases op with
  | put k v sz =>
    obtain ⟨h1, h2, h3, _⟩ := add_refines c k v h
    exact ⟨h1, h2, congrArg LOut.evicted h3⟩
  | hoa k v sz =>
    obtain ⟨c1, c2, c3⟩ := lib_containsOrAdd c k v h
    have hh := abs_has h.core k
    cases hc : c.contains k with
    | true =>
      rw [hc] at hh
      have := c2 hc
      simp only [LRU.stepL, Simple.stepL, this, Simple.containsOrAdd, hh, if_true]
      exact ⟨h, trivial, trivial⟩
    | false =>
      rw [hc] at hh
      obtain ⟨d1, _, d3, _, _⟩ := c3 hc
      obtain ⟨h1, h2, _, _⟩ := add_refines c k v h
      rw [hc] at c1
      simp only [LRU.stepL, Simple.stepL, c1, d3, Simple.containsOrAdd, hh, Bool.false_eq_true, if_false]
      rw [d1]
      exact ⟨h1, h2, trivial⟩
  | get k =>
    obtain ⟨h1, h2, h3, _⟩ := get_refines c k h
    exact ⟨h1, h2, congrArg LOut.value h3⟩
  | peek k => exact ⟨h, rfl, congrArg LOut.value (peek_refines c k h)⟩
  | has k => exact ⟨h, rfl, congrArg LOut.present (abs_has h.core k).symm⟩
  | rm k =>
    obtain ⟨h1, h2, _, _⟩ := remove_refines c k h
    exact ⟨h1, h2, rfl⟩
  | clear =>
    obtain ⟨h1, h2, _⟩ := purge_refines c h
    exact ⟨h1, h2, rfl⟩

/-- C15 without the assumption on hashicorp's library: for every capacity ≥ 1 and every history of the wrapper's
    operations, the LIBRARY model (list + pointer map) produces the reference LRU's outputs and observations
    (`Keys` in order, values, `Len`) at every step -/
theorem lib_refines_reference (cap : Nat) (hc : 1 ≤ cap) (ops : List LOp) :
    SV.LRU.runTrace LRU.stepL LRU.obsL (LRU.new cap) ops
      = SV.LRU.runTrace Ref.step Ref.obs (Ref.init cap none) ops ∧
    (SV.LRU.runFinal LRU.stepL (LRU.new cap) ops).abs.toRef = SV.LRU.runFinal Ref.step (Ref.init cap none) ops ∧
    Inv (SV.LRU.runFinal LRU.stepL (LRU.new cap) ops) :=
  SV.LRU.sim_run LRU.stepL LRU.obsL Inv (fun c => c.abs.toRef)
    (fun c op h => by
      obtain ⟨h1, h2, h3⟩ := stepL_refines c op h
      obtain ⟨_, g2, g3⟩ := Simple.step_refines c.abs op (abs_inv h) h.sizePos
      exact ⟨h1, by rw [h2]; exact g2, by rw [h3]; exact g3⟩)
    (fun c _ => by rw [obsL_eq]; exact Simple.obs_eq c.abs)
    ops (LRU.new cap) (Inv.new cap hc)

/-! ## 10. Non-vacuity: size 2, six operations with a refresh, an eviction, an overwrite and an evicting `ContainsOrAdd` -/

/-- the hypotheses of the main theorem can be met -/
example : Inv (LRU.new 2) := Inv.new 2 (by decide)

/-- what the library model does on `demo`: step 3 (`Get 1`) refreshes key 1, so step 4 evicts key 2 and the callback
    sees `(2, 20)`; step 5 overwrites key 1 without evicting; step 6 (`ContainsOrAdd 4`) evicts key 3 -/
example : trace LRU.step (LRU.new 2) demo =
    [ (.evicted false, []), (.evicted false, []), (.value (some [10]), []), (.evicted true, [([2], [20])]),
      (.evicted false, []), (.okEvicted false true, [([3], [30])]) ] := by decide

/-- and the hand model says the same, step by step -/
example : trace LRU.step (LRU.new 2) demo = trace plainStep ⟨2, []⟩ demo := by decide

example : (finalState LRU.step (LRU.new 2) demo).abs = finalState plainStep ⟨2, []⟩ demo := rfl

/-- the concrete final state: two linked elements, two map entries pointing at them, ids not reused -/
example : (finalState LRU.step (LRU.new 2) demo).evictList = [⟨3, [4], [40]⟩, ⟨0, [1], [11]⟩] ∧
    (finalState LRU.step (LRU.new 2) demo).items = [([1], 0), ([4], 3)] ∧
    (finalState LRU.step (LRU.new 2) demo).keys = [[1], [4]] := by decide

/-- the state after `Add 1, Add 2, Get 1` (full, key 2 least recently used) -/
def demoFull : LRU := finalState LRU.step (LRU.new 2) (demo.take 3)

theorem demoFull_inv : Inv demoFull := (lib_refines_plain_model 2 (by decide) (demo.take 3)).2.2

/-- `lib_add_evicts_lru`, evicting instance: key new, cache full → flag, callback = least recently used entry -/
example : (demoFull.add [3] [30]).2 = (true, [([2], [20])]) ∧ demoFull.keys = [[2], [1]] ∧
    (demoFull.add [3] [30]).1.keys = [[1], [3]] := by decide

/-- `lib_add_present`, instance: the hypothesis `contains` holds, no eviction, refreshed and overwritten -/
example : demoFull.contains [2] = true ∧ (demoFull.add [2] [21]).2 = (false, []) ∧
    (demoFull.add [2] [21]).1.keys = [[1], [2]] ∧ (demoFull.add [2] [21]).1.peek [2] = some [21] := by decide

/-- `lib_get_contains_peek`, instances: `Peek`/`Contains` do not protect key 2 from eviction, `Get` does -/
example : demoFull.peek [2] = some [20] ∧ ((demoFull.get [2]).1.add [3] [30]).2.2 = [([1], [10])] ∧
    (demoFull.add [3] [30]).2.2 = [([2], [20])] := by decide

/-- `lib_containsOrAdd`, both branches -/
example : demoFull.containsOrAdd [1] [99] = (demoFull, true, false, []) ∧
    (demoFull.containsOrAdd [3] [30]).2 = (false, true, [([2], [20])]) := by
  refine ⟨rfl, by decide⟩

/-- why `Purge` is compared up to the order of the callbacks: the library walks the MAP (here: insertion order `1, 2`,
    in Go: unspecified), the recency order is `2, 1` -/
example : (demoFull.step .purge).2 = (.purged, [([1], [10]), ([2], [20])]) ∧
    (plainStep demoFull.abs .purge).2 = (.purged, [([2], [20]), ([1], [10])]) := by decide

/-- the wrapper-level chain on a concrete history (the plain-cache demo of RefSpec) -/
example : SV.LRU.runTrace LRU.stepL LRU.obsL (LRU.new 2) demoPlain
    = SV.LRU.runTrace Ref.step Ref.obs (Ref.init 2 none) demoPlain := by decide

end SV.LRU.Lib
