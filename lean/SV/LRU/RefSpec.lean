/-
  SV.LRU.RefSpec — property C15 at the level of whole histories.

  1. `Ref`: an INDEPENDENT reference LRU, written for readability (one recency list, oldest first; operations
     defined declaratively; one `trim` for both the item and the byte bound).
  2. `LOp`/`LOut`, `Ref.step`, and the implementations seen through the `lruCache` wrapper of lrucache.go:
     `Cap.stepL` (capacityLRU), `Simple.stepL` (hashicorp simplelru), `Cache.stepL` (the wrapper model itself).
  3. Refinement: abstraction functions `Cap.toRef`, `Simple.toRef`, `Cache.toRef`; step lemmas
     `Cap.step_refines`, `Simple.step_refines`, `Cache.step_refines`; history theorems `cap_refines_ref`,
     `simple_refines_ref`, `cache_refines_ref` (same outputs and same Keys / values / bytes / Len after every step).
  4. The property in its own words, proved from the reference alone: `ref_never_evicts_just_written`,
     `ref_evicts_least_recent_first`, `ref_bytes_is_sum`, `ref_flags_truthful`,
     `ref_len_le_cap_unless_single_oversized`.
  5. Concrete instances (`decide`) and the corners in which the requested equalities fail.
-/
import SV.LRU.Proofs
namespace SV.LRU

/-! ## 1. The reference LRU -/

/-- Reference state. `items` lists the residents from LEAST to MOST recently used (the order of `Keys`), with
    distinct keys. `maxBytes = none` is the plain LRU: no byte bound, sizes ignored (every resident counts 0). -/

structure Ref where
  cap : Nat
  maxBytes : Option Int
  items : List Entry
  deriving Repr, DecidableEq

namespace Ref

def init (cap : Nat) (maxBytes : Option Int) : Ref := ⟨cap, maxBytes, []⟩

/-- Σ sizes -/
def total : List Entry → Int
  | [] => 0
  | e :: l => e.size + total l

def keys (r : Ref) : List Bytes := r.items.map (·.key)
def vals (r : Ref) : List Bytes := r.items.map (·.val)
def len (r : Ref) : Nat := r.items.length
def bytes (r : Ref) : Int := total r.items
def find (r : Ref) (k : Bytes) : Option Entry := r.items.find? (·.key == k)
def has (r : Ref) (k : Bytes) : Bool := r.items.any (·.key == k)
def peek (r : Ref) (k : Bytes) : Option Bytes := (r.find k).map (·.val)
def without (r : Ref) (k : Bytes) : List Entry := r.items.filter (·.key != k)

/-- only the sized cache validates sizes: a negative size is refused -/
def rejects (r : Ref) (size : Int) : Bool := r.maxBytes.isSome && decide (size < 0)
/-- the size a resident is accounted with -/
def stored (r : Ref) (size : Int) : Int := if r.maxBytes.isSome then size else 0

/-- more residents than the item capacity, or (sized cache) more bytes than the byte capacity -/
def exceeds (cap : Nat) (maxBytes : Option Int) (l : List Entry) : Bool :=
  decide (l.length > cap) ||
    (match maxBytes with
     | none => false
     | some m => decide (total l > m))

/-- drop least recently used entries while a limit is exceeded and more than one entry remains -/
def trim (cap : Nat) (maxBytes : Option Int) : List Entry → List Entry
  | [] => []
  | [x] => [x]
  | x :: y :: rest =>
    if exceeds cap maxBytes (x :: y :: rest) then trim cap maxBytes (y :: rest) else x :: y :: rest

/-- the residents right after a write, before trimming: everything else in its old order, then the written
    entry as the most recent one -/
def written (r : Ref) (k v : Bytes) (size : Int) : List Entry := r.without k ++ [⟨k, v, r.stored size⟩]

/-- `Put` → (state, evicted?) -/
def put (r : Ref) (k v : Bytes) (size : Int) : Ref × Bool :=
  if r.rejects size then (r, false)
  else
    ({ r with items := trim r.cap r.maxBytes (r.written k v size) },
     decide ((trim r.cap r.maxBytes (r.written k v size)).length < (r.written k v size).length))

/-- `HasOrAdd` → (state, has, added); a resident key is NOT refreshed; a refused size is not an insertion -/
def hasOrAdd (r : Ref) (k v : Bytes) (size : Int) : Ref × Bool × Bool :=
  if r.has k then (r, true, false)
  else if r.rejects size then (r, false, false)
  else ((r.put k v size).1, false, true)

/-- `Get` refreshes recency; `peek`/`has` do not -/
def get (r : Ref) (k : Bytes) : Ref × Option Bytes :=
  match r.find k with
  | none => (r, none)
  | some e => ({ r with items := r.without k ++ [e] }, some e.val)

def remove (r : Ref) (k : Bytes) : Ref := { r with items := r.without k }
def clear (r : Ref) : Ref := { r with items := [] }

end Ref

/-! ## 2. Operations, outputs, and the three step functions -/

inductive LOp
  | put (k v : Bytes) (size : Int)
  | hoa (k v : Bytes) (size : Int)
  | get (k : Bytes)
  | peek (k : Bytes)
  | has (k : Bytes)
  | rm (k : Bytes)
  | clear
  deriving Repr, DecidableEq

inductive LOut
  | evicted (b : Bool)
  | hasAdded (has added : Bool)
  | value (v : Option Bytes)
  | present (b : Bool)
  | done
  deriving Repr, DecidableEq

def Ref.step (r : Ref) : LOp → Ref × LOut
  | .put k v s => ((r.put k v s).1, .evicted (r.put k v s).2)
  | .hoa k v s => ((r.hasOrAdd k v s).1, .hasAdded (r.hasOrAdd k v s).2.1 (r.hasOrAdd k v s).2.2)
  | .get k => ((r.get k).1, .value (r.get k).2)
  | .peek k => (r, .value (r.peek k))
  | .has k => (r, .present (r.has k))
  | .rm k => (r.remove k, .done)
  | .clear => (r.clear, .done)

/-- `capacityLRU` behind `lruCache` (current code): `Put` → `AddSized`; `HasOrAdd` → `AddSizedIfMissing`, then
    `added` is what the `Contains` re-check says -/
def Cap.stepL (c : Cap) : LOp → Cap × LOut
  | .put k v s => ((c.addSized Variant.current k v s).1, .evicted (c.addSized Variant.current k v s).2)
  | .hoa k v s =>
    if (c.addSizedIfMissing Variant.current k v s).2.1 then (c, .hasAdded true false)
    else ((c.addSizedIfMissing Variant.current k v s).1,
          .hasAdded false ((c.addSizedIfMissing Variant.current k v s).1.has k))
  | .get k => ((c.get k).1, .value (c.get k).2)
  | .peek k => (c, .value (c.peek k))
  | .has k => (c, .present (c.has k))
  | .rm k => ((c.remove k).1, .done)
  | .clear => (c.purge, .done)

/-- hashicorp `simplelru` behind `lru.Cache`, `simpleLRUCacheAdapter` and `lruCache`: sizes are dropped;
    `Put` → `Add`; `HasOrAdd` → `ContainsOrAdd` -/
def Simple.stepL (c : Simple) : LOp → Simple × LOut
  | .put k v _ => ((c.add k v).1, .evicted (c.add k v).2)
  | .hoa k v _ =>
    if (c.containsOrAdd k v).2.1 then (c, .hasAdded true false)
    else ((c.containsOrAdd k v).1, .hasAdded false true)
  | .get k => ((c.get k).1, .value (c.get k).2)
  | .peek k => (c, .value (c.peek k))
  | .has k => (c, .present (c.has k))
  | .rm k => (c.remove k, .done)
  | .clear => ({ c with entries := [] }, .done)

/-- the validated wrapper model `Cache` itself (handler invocations ignored here);
    `Cache.stepL_sized`/`Cache.stepL_plain` show it is `Cap.stepL`/`Simple.stepL` on the backend -/
def Cache.stepL (c : Cache) : LOp → Cache × LOut
  | .put k v s => ((c.put Variant.current k v s).1, .evicted (c.put Variant.current k v s).2.1)
  | .hoa k v s => ((c.hasOrAdd Variant.current k v s).1,
      .hasAdded (c.hasOrAdd Variant.current k v s).2.1 (c.hasOrAdd Variant.current k v s).2.2.1)
  | .get k => ((c.get k).1, .value (c.get k).2)
  | .peek k => (c, .value (c.peek k))
  | .has k => (c, .present (c.has k))
  | .rm k => (c.remove k, .done)
  | .clear => (c.clear, .done)

/-- what a client can observe between operations: `Keys` (oldest first), the values in the same order,
    `SizeInBytesContained`, `Len` -/
structure Obs where
  keys : List Bytes
  vals : List Bytes
  bytes : Int
  len : Nat
  deriving Repr, DecidableEq

def Ref.obs (r : Ref) : Obs := ⟨r.keys, r.vals, r.bytes, r.len⟩
def Cap.obs (c : Cap) : Obs := ⟨c.keys, c.entries.reverse.map (·.val), c.bytes, c.entries.length⟩
def Simple.obs (c : Simple) : Obs := ⟨c.keys, c.entries.reverse.map (·.2), 0, c.entries.length⟩
def Cache.obs (c : Cache) : Obs :=
  ⟨c.keys, (match c.b with | .sized s => s.entries.reverse.map (·.val) | .plain s => s.entries.reverse.map (·.2)),
   c.sizeInBytes, c.len⟩

/-- state after a history -/
def runFinal {σ : Type} (step : σ → LOp → σ × LOut) : σ → List LOp → σ
  | s, [] => s
  | s, op :: ops => runFinal step (step s op).1 ops

/-- output and observation after EVERY step of a history -/
def runTrace {σ : Type} (step : σ → LOp → σ × LOut) (obs : σ → Obs) : σ → List LOp → List (LOut × Obs)
  | _, [] => []
  | s, op :: ops => ((step s op).2, obs (step s op).1) :: runTrace step obs (step s op).1 ops

/-! ### abstraction functions (the implementations keep their lists most-recent FIRST) -/

def Cap.toRef (c : Cap) : Ref := ⟨c.cap, some c.maxBytes, c.entries.reverse⟩
/-- the plain LRU has no sizes: every resident counts 0 bytes -/
def plainItem (p : Bytes × Bytes) : Entry := ⟨p.1, p.2, 0⟩
def Simple.toRef (c : Simple) : Ref := ⟨c.cap, none, c.entries.reverse.map plainItem⟩
def Cache.toRef (c : Cache) : Ref :=
  match c.b with
  | .sized s => s.toRef
  | .plain s => s.toRef

/-- non-vacuity history (sized cache, cap = 2, 10 bytes), evaluated on both sides in section 5 -/
def demoOps : List LOp :=
  [ .put [1] [10] 4,          -- a
    .put [2] [20] 4,          -- a b
    .get [1],                 -- b a   (refresh changes the victim)
    .put [3] [30] 2,          -- evicts b (count)     → a c
    .put [3] [31] (-1),       -- rejected
    .put [1] [11] 9,          -- growing overwrite: c a(9) = 11 > 10 → evicts c
    .hoa [1] [12] 1,          -- present
    .hoa [4] [40] (-3),       -- refused
    .peek [1] ]


/-! ## trim lemmas -/
namespace Ref

@[simp] theorem total_nil : total [] = 0 := rfl
@[simp] theorem total_cons (e : Entry) (l : List Entry) : total (e :: l) = e.size + total l := rfl

@[simp] theorem total_append (a b : List Entry) : total (a ++ b) = total a + total b := by
  induction a with
  | nil => simp
  | cons x xs ih => simp only [List.cons_append, total_cons, ih]; omega

theorem total_reverse (l : List Entry) : total l.reverse = total l := by
  induction l with
  | nil => rfl
  | cons x xs ih => simp only [List.reverse_cons, total_append, total_cons, total_nil, ih]; omega

theorem total_eq_sumSizes (l : List Entry) : total l = sumSizes l := by
  induction l with
  | nil => rfl
  | cons x xs ih => simp only [total_cons, sumSizes_cons, ih]

theorem total_eq_sum (l : List Entry) : total l = (l.map (·.size)).sum := by
  induction l with
  | nil => rfl
  | cons x xs ih => simp only [total_cons, List.map_cons, List.sum_cons, ih]

theorem trim_cons (cap : Nat) (mb : Option Int) (x : Entry) (t : List Entry) (ht : t ≠ []) :
    trim cap mb (x :: t) = if exceeds cap mb (x :: t) then trim cap mb t else x :: t := by
  cases t with
  | nil => exact absurd rfl ht
  | cons y rest => rfl

theorem trim_noop (cap : Nat) (mb : Option Int) (l : List Entry) (h : l.length ≤ 1 ∨ exceeds cap mb l = false) :
    trim cap mb l = l := by
  match l, h with
  | [], _ => rfl
  | [x], _ => rfl
  | x :: y :: rest, h =>
    rcases h with h | h
    · simp at h
    · rw [trim_cons _ _ _ _ (by simp), h]; rfl

/-- everything there is to know about `trim`: it drops a prefix (the least recently used entries), keeps the last
    entry, stops as soon as the rest fits, and drops no more than needed -/
theorem trim_spec (cap : Nat) (mb : Option Int) (l : List Entry) :
    ∃ dropped, l = dropped ++ trim cap mb l ∧
      (l ≠ [] → trim cap mb l ≠ []) ∧
      ((trim cap mb l).length ≤ 1 ∨ exceeds cap mb (trim cap mb l) = false) ∧
      (∀ d e, dropped = d ++ [e] → trim cap mb l ≠ [] ∧ exceeds cap mb (e :: trim cap mb l) = true) := by
  induction l with
  | nil => exact ⟨[], rfl, fun h => h, Or.inl (by simp [trim]), by simp⟩
  | cons x t ih =>
    cases t with
    | nil => exact ⟨[], rfl, by simp [trim], Or.inl (by simp [trim]), by simp⟩
    | cons y rest =>
      rw [trim_cons _ _ _ _ (by simp)]
      cases hx : exceeds cap mb (x :: y :: rest) with
      | false =>
        simp only [Bool.false_eq_true, if_false]
        exact ⟨[], rfl, fun h => h, Or.inr hx, by simp⟩
      | true =>
        simp only [if_true]
        obtain ⟨d, h1, h2, h3, h4⟩ := ih
        have hne := h2 (by simp)
        refine ⟨x :: d, by rw [List.cons_append, ← h1], fun _ => hne, h3, ?_⟩
        intro d' e hd
        refine ⟨hne, ?_⟩
        cases d' with
        | nil =>
          simp only [List.nil_append, List.cons.injEq] at hd
          obtain ⟨rfl, rfl⟩ := hd
          simp only [List.nil_append] at h1
          rw [← h1]; exact hx
        | cons z zs =>
          simp only [List.cons_append, List.cons.injEq] at hd
          exact (h4 zs e hd.2).2

theorem trim_append_last (cap : Nat) (mb : Option Int) (l : List Entry) (x : Entry) :
    ∃ dropped kept, l = dropped ++ kept ∧ trim cap mb (l ++ [x]) = kept ++ [x] := by
  obtain ⟨d, h1, h2, _, _⟩ := trim_spec cap mb (l ++ [x])
  have hne := h2 (by simp)
  obtain ⟨kept, hk⟩ : ∃ kept, trim cap mb (l ++ [x]) = kept ++ [x] := by
    have hd := List.dropLast_concat_getLast hne
    refine ⟨(trim cap mb (l ++ [x])).dropLast, ?_⟩
    have h1' := h1
    rw [← hd, ← List.append_assoc] at h1'
    have := (List.append_inj' h1' rfl).2
    simp only [List.cons.injEq, and_true] at this
    exact hd.symm.trans (congrArg (fun z => (trim cap mb (l ++ [x])).dropLast ++ [z]) this.symm)
  refine ⟨d, kept, ?_, hk⟩
  rw [hk, ← List.append_assoc] at h1
  exact List.append_cancel_right h1

end Ref

/-! ## 3a. `capacityLRU` refines the reference -/

theorem shouldEvict_eq (c : Cap) (hb : c.bytes = sumSizes c.entries) :
    c.shouldEvict = (!decide (c.entries.length = 1) && Ref.exceeds c.cap (some c.maxBytes) c.entries.reverse) := by
  unfold Cap.shouldEvict Ref.exceeds
  rw [Ref.total_reverse, Ref.total_eq_sumSizes, ← hb, List.length_reverse]
  split <;> simp [*]

theorem evictLoop_trim (fuel : Nat) : ∀ (c : Cap) (acc : List Entry), c.bytes = sumSizes c.entries →
    c.entries.length ≤ fuel →
    (Cap.evictLoop fuel c acc).1.entries.reverse = Ref.trim c.cap (some c.maxBytes) c.entries.reverse := by
  induction fuel with
  | zero =>
    intro c acc hb hl
    have : c.entries = [] := List.eq_nil_of_length_eq_zero (by omega)
    simp [Cap.evictLoop, this, Ref.trim]
  | succ fuel ih =>
    intro c acc hb hl
    cases hs : c.shouldEvict with
    | false =>
      rw [evictLoop_false fuel c acc hs]
      rw [shouldEvict_eq c hb] at hs
      symm; apply Ref.trim_noop
      simp only [Bool.and_eq_false_iff, Bool.not_eq_false', decide_eq_true_eq] at hs
      rcases hs with hs | hs
      · left; simp [hs]
      · right; exact hs
    | true =>
      cases hg : c.entries.getLast? with
      | none =>
        rw [evictLoop_none fuel c acc hs hg]
        have hnil : c.entries = [] := by simpa using hg
        simp [hnil, Ref.trim]
      | some e =>
        rw [evictLoop_some fuel c acc e hs hg]
        obtain ⟨ys, hys⟩ := List.getLast?_eq_some_iff.mp hg
        rw [shouldEvict_eq c hb] at hs
        simp only [Bool.and_eq_true, Bool.not_eq_true', decide_eq_false_iff_not] at hs
        have hsum : sumSizes c.entries = sumSizes c.entries.dropLast + e.size := by
          rw [hys]; simp
        have hlen : c.entries.length = c.entries.dropLast.length + 1 := by
          rw [hys]; simp
        rw [ih { c with entries := c.entries.dropLast, bytes := c.bytes - e.size } (acc ++ [e])
          (by show c.bytes - e.size = sumSizes c.entries.dropLast; omega)
          (by show c.entries.dropLast.length ≤ fuel; omega)]
        show Ref.trim c.cap (some c.maxBytes) c.entries.dropLast.reverse = _
        have hne : ys.reverse ≠ [] := by
          intro h0
          have : ys = [] := by simpa using h0
          rw [hys, this] at hs
          simp at hs
        have hex := hs.2
        rw [hys] at hex ⊢
        simp only [List.dropLast_concat, List.reverse_append, List.reverse_singleton, List.singleton_append] at hex ⊢
        rw [Ref.trim_cons _ _ _ _ hne, hex]
        rfl

theorem evictIfNeeded_trim (c : Cap) (hb : c.bytes = sumSizes c.entries) :
    (c.evictIfNeeded).1.entries.reverse = Ref.trim c.cap (some c.maxBytes) c.entries.reverse :=
  evictLoop_trim _ c [] hb (by omega)

theorem evictIfNeeded_flag (c : Cap) (hb : c.bytes = sumSizes c.entries) :
    (!(c.evictIfNeeded).2.isEmpty) = decide ((c.evictIfNeeded).1.entries.length < c.entries.length) := by
  obtain ⟨h1, _⟩ := evictIfNeeded_split c hb
  have hl := congrArg List.length h1
  simp only [List.length_append, List.length_reverse] at hl
  cases hev : (c.evictIfNeeded).2 with
  | nil => rw [hev] at hl; simp at hl ⊢; omega
  | cons x xs => rw [hev] at hl; simp at hl ⊢; omega

theorem addSizedCore_entries (c : Cap) (k v : Bytes) (size : Int) (hs : 0 ≤ size) :
    (c.addSizedCore Variant.current k v size).entries = ⟨k, v, size⟩ :: c.entries.filter (·.key != k) := by
  unfold Cap.addSizedCore
  rw [if_neg (by omega)]
  cases hk : c.has k with
  | true =>
    obtain ⟨old, hfind, _, _⟩ := has_find c k hk
    simp [Cap.update, hfind, Variant.current]
  | false =>
    obtain ⟨_, hne⟩ := has_false c k hk
    simp only [Bool.false_eq_true, if_false, Cap.addNew]
    congr 1
    symm
    rw [List.filter_eq_self]
    intro a ha
    simpa using hne a ha

@[simp] theorem Cap.toRef_cap (c : Cap) : c.toRef.cap = c.cap := rfl
@[simp] theorem Cap.toRef_maxBytes (c : Cap) : c.toRef.maxBytes = some c.maxBytes := rfl
@[simp] theorem Cap.toRef_items (c : Cap) : c.toRef.items = c.entries.reverse := rfl

theorem Cap.toRef_has (c : Cap) (k : Bytes) : c.toRef.has k = c.has k := by
  simp [Ref.has, Cap.has, List.any_reverse]

theorem Cap.toRef_written (c : Cap) (k v : Bytes) (size : Int) :
    c.toRef.written k v size = (⟨k, v, size⟩ :: c.entries.filter (·.key != k)).reverse := by
  simp [Ref.written, Ref.without, Ref.stored, List.filter_reverse]

/-- core of the simulation: a write with a valid size -/
theorem Cap.toRef_write (c : Cap) (k v : Bytes) (size : Int) (h : CapInv c) (hs : 0 ≤ size) :
    ((c.addSizedCore Variant.current k v size).evictIfNeeded).1.toRef = (c.toRef.put k v size).1 ∧
    (!((c.addSizedCore Variant.current k v size).evictIfNeeded).2.isEmpty) = (c.toRef.put k v size).2 := by
  obtain ⟨rest, _, _, _, hb, hcap, hmb⟩ := addSizedCore_shape c k v size h hs
  have hent := addSizedCore_entries c k v size hs
  obtain ⟨_, _, hcap', hmb'⟩ := evictIfNeeded_split _ hb
  have htrim := evictIfNeeded_trim _ hb
  have hflag := evictIfNeeded_flag _ hb
  rw [hcap, hmb, hent, ← Cap.toRef_written] at htrim
  have hrej : c.toRef.rejects size = false := by simp [Ref.rejects]; omega
  constructor
  · simp only [Ref.put, hrej, Bool.false_eq_true, if_false]
    show Ref.mk _ _ _ = Ref.mk _ _ _
    rw [htrim, hcap', hmb', hcap, hmb]
    rfl
  · simp only [Ref.put, hrej, Bool.false_eq_true, if_false]
    rw [hflag, Cap.toRef_cap, Cap.toRef_maxBytes, ← htrim, List.length_reverse, Cap.toRef_written,
      List.length_reverse, hent]

theorem find_unique {α : Type} (key : α → Bytes) (l : List α) (k : Bytes) (e : α) (hn : (l.map key).Nodup)
    (he : e ∈ l) (hk : key e = k) : l.find? (fun x => key x == k) = some e := by
  induction l with
  | nil => simp at he
  | cons x xs ih =>
    simp only [List.map_cons, List.nodup_cons] at hn
    by_cases hx : key x = k
    · rcases List.mem_cons.mp he with rfl | he'
      · simp [hx]
      · exact absurd (by rw [hx, ← hk]; exact List.mem_map_of_mem he') hn.1
    · rcases List.mem_cons.mp he with rfl | he'
      · exact absurd hk hx
      · have hb : (key x == k) = false := by simp [hx]
        rw [List.find?_cons, hb]
        exact ih hn.2 he'

/-- with distinct keys a lookup by key does not depend on the direction of the scan -/
theorem find_reverse {α : Type} (key : α → Bytes) (l : List α) (k : Bytes) (hn : (l.map key).Nodup) :
    l.reverse.find? (fun x => key x == k) = l.find? (fun x => key x == k) := by
  cases hf : l.find? (fun x => key x == k) with
  | none =>
    rw [List.find?_eq_none] at hf ⊢
    intro x hx
    exact hf x (List.mem_reverse.mp hx)
  | some e =>
    apply find_unique
    · rw [List.map_reverse]; exact (List.reverse_perm _).nodup_iff.mpr hn
    · exact List.mem_reverse.mpr (List.mem_of_find?_eq_some hf)
    · simpa using List.find?_some hf

theorem Cap.toRef_find (c : Cap) (k : Bytes) (h : CapInv c) : c.toRef.find k = c.find k :=
  find_reverse Entry.key c.entries k h.keysNodup

theorem filter_of_find_none (l : List Entry) (k : Bytes) (h : l.find? (·.key == k) = none) :
    l.filter (·.key != k) = l := by
  rw [List.filter_eq_self]
  rw [List.find?_eq_none] at h
  intro a ha
  simpa using h a ha

theorem Cap.bytes_eq (c : Cap) (h : CapInv c) : c.bytes = c.toRef.bytes := by
  rw [h.bytes, Ref.bytes, Cap.toRef_items, Ref.total_reverse, Ref.total_eq_sumSizes]

theorem Cap.obs_eq (c : Cap) (h : CapInv c) : c.obs = c.toRef.obs := by
  simp only [Cap.obs, Ref.obs, Cap.bytes_eq c h, Ref.keys, Ref.vals, Ref.len, Cap.keys, Cap.toRef_items,
    List.length_reverse]

/-- STEP LEMMA (sized cache): one operation on `capacityLRU` behind the wrapper is one operation of the reference -/
theorem Cap.step_refines (c : Cap) (op : LOp) (h : CapInv c) :
    CapInv (c.stepL op).1 ∧ (c.stepL op).1.toRef = (c.toRef.step op).1 ∧ (c.stepL op).2 = (c.toRef.step op).2 := by
  cases op with
  | put k v s =>
    refine ⟨CapInv.addSized c k v s h, ?_⟩
    by_cases hs : s < 0
    · have hrej : c.toRef.rejects s = true := by simp [Ref.rejects, hs]
      simp only [Cap.stepL, Ref.step, addSized_negative c k v s h hs, Ref.put, hrej, if_true, and_self]
    · obtain ⟨h1, h2⟩ := Cap.toRef_write c k v s h (by omega)
      exact ⟨h1, congrArg LOut.evicted h2⟩
  | hoa k v s =>
    obtain ⟨f1, f2, _, f4⟩ := addSizedIfMissing_flags c k v s h
    have hinv := CapInv.addSizedIfMissing c k v s h
    simp only [Cap.stepL, Ref.step, Ref.hasOrAdd, Cap.toRef_has]
    rw [f1]
    cases hk : c.has k with
    | true => simp only [if_true]; exact ⟨h, trivial, trivial⟩
    | false =>
      simp only [Bool.false_eq_true, if_false]
      refine ⟨hinv, ?_⟩
      by_cases hs : s < 0
      · have hrej : c.toRef.rejects s = true := by simp [Ref.rejects, hs]
        rw [f4 hk hs, hrej, hk]
        simp
      · have hrej : c.toRef.rejects s = false := by simp [Ref.rejects]; omega
        obtain ⟨h1, _⟩ := Cap.toRef_write c k v s h (by omega)
        have hhead := addSized_head c k v s h (by omega)
        have heq : (c.addSizedIfMissing Variant.current k v s).1
            = ((c.addSizedCore Variant.current k v s).evictIfNeeded).1 := by
          unfold Cap.addSizedIfMissing
          simp only [Variant.current, Bool.false_and, Bool.false_eq_true, if_false, hk, hs]
          rw [addNew_eq_core c k v s hk hs]
          rfl
        rw [heq, hrej]
        simp only [Bool.false_eq_true, if_false]
        refine ⟨h1, ?_⟩
        congr 1
        have hhead' : ((c.addSizedCore Variant.current k v s).evictIfNeeded).1.entries.head? = some ⟨k, v, s⟩ := hhead
        unfold Cap.has
        cases he : ((c.addSizedCore Variant.current k v s).evictIfNeeded).1.entries with
        | nil => rw [he] at hhead'; simp at hhead'
        | cons x xs =>
          rw [he] at hhead'
          simp only [List.head?_cons, Option.some.injEq] at hhead'
          simp [hhead']
  | get k =>
    refine ⟨CapInv.get c k h, ?_⟩
    simp only [Cap.stepL, Ref.step, Ref.get, Cap.get, Cap.toRef_find c k h]
    cases hf : c.find k with
    | none => exact ⟨rfl, rfl⟩
    | some e =>
      refine ⟨?_, rfl⟩
      simp [Cap.toRef, Ref.without, List.filter_reverse]
  | peek k =>
    exact ⟨h, rfl, by simp only [Cap.stepL, Ref.step, Ref.peek, Cap.peek, Cap.toRef_find c k h]⟩
  | has k =>
    exact ⟨h, rfl, by simp only [Cap.stepL, Ref.step, Cap.toRef_has]⟩
  | rm k =>
    refine ⟨CapInv.remove c k h, ?_, rfl⟩
    simp only [Cap.stepL, Ref.step, Ref.remove, Cap.remove]
    cases hf : c.find k with
    | none =>
      simp only [Cap.toRef, Ref.without, List.filter_reverse]
      rw [filter_of_find_none c.entries k hf]
    | some e => simp [Cap.toRef, Ref.without, List.filter_reverse]
  | clear =>
    exact ⟨CapInv.purge c, rfl, rfl⟩

/-- the `Bool` returned by `capacityLRU.Remove` (dropped by the wrapper) is truthful as well -/
theorem Cap.remove_flag (c : Cap) (k : Bytes) : (c.remove k).2 = c.toRef.has k := by
  rw [Cap.toRef_has]
  unfold Cap.remove
  cases hk : c.has k with
  | true => obtain ⟨e, hf, _, _⟩ := has_find c k hk; rw [hf]
  | false => rw [(has_false c k hk).1]

/-! ## 3b. hashicorp `simplelru` refines the reference with `maxBytes = none` -/

@[simp] theorem Simple.toRef_cap (c : Simple) : c.toRef.cap = c.cap := rfl
@[simp] theorem Simple.toRef_maxBytes (c : Simple) : c.toRef.maxBytes = none := rfl
@[simp] theorem Simple.toRef_items (c : Simple) : c.toRef.items = c.entries.reverse.map plainItem := rfl

theorem Ref.exceeds_none (cap : Nat) (l : List Entry) : Ref.exceeds cap none l = decide (l.length > cap) := by
  simp [Ref.exceeds]

theorem Simple.toRef_has (c : Simple) (k : Bytes) : c.toRef.has k = c.has k := by
  simp only [Ref.has, Simple.has, Simple.toRef_items, List.any_map, List.any_reverse]
  rfl

theorem Simple.toRef_without (c : Simple) (k : Bytes) :
    c.toRef.without k = ((c.entries.filter (·.1 != k)).reverse).map plainItem := by
  simp only [Ref.without, Simple.toRef_items, List.filter_map, List.filter_reverse]
  rfl

theorem Simple.toRef_find (c : Simple) (k : Bytes) (h : SimpleInv c) :
    c.toRef.find k = (c.entries.find? (·.1 == k)).map plainItem := by
  simp only [Ref.find, Simple.toRef_items, List.find?_map]
  exact congrArg _ (find_reverse Prod.fst c.entries k h.keysNodup)

theorem Simple.filter_lt (c : Simple) (k : Bytes) (hk : c.has k = true) :
    (c.entries.filter (·.1 != k)).length + 1 ≤ c.entries.length := by
  have hlt : (c.entries.filter (·.1 != k)).length < c.entries.length := by
    rw [List.length_filter_lt_length_iff_exists]
    unfold Simple.has at hk
    simp only [List.any_eq_true] at hk
    obtain ⟨x, hx, hxk⟩ := hk
    exact ⟨x, hx, by simpa using hxk⟩
  omega

theorem Simple.filter_absent (c : Simple) (k : Bytes) (hk : c.has k = false) :
    c.entries.filter (·.1 != k) = c.entries := by
  rw [List.filter_eq_self]
  unfold Simple.has at hk
  simp only [List.any_eq_false] at hk
  intro a ha
  simpa using hk a ha

theorem Simple.add_cap (c : Simple) (k v : Bytes) : (c.add k v).1.cap = c.cap := by
  unfold Simple.add
  split
  · rfl
  · dsimp only; split <;> rfl

theorem Simple.toRef_written (c : Simple) (k v : Bytes) (size : Int) :
    c.toRef.written k v size = ((c.entries.filter (·.1 != k)).reverse).map plainItem ++ [plainItem (k, v)] := by
  simp only [Ref.written, Simple.toRef_without, Ref.stored, Simple.toRef_maxBytes]
  rfl

theorem Simple.add_trim (c : Simple) (k v : Bytes) (size : Int) (h : SimpleInv c) (hc : 1 ≤ c.cap) :
    Ref.trim c.cap none (c.toRef.written k v size) = ((c.add k v).1.entries.reverse).map plainItem ∧
    (c.add k v).2 = decide ((c.add k v).1.entries.length < (c.toRef.written k v size).length) := by
  have hb := h.bound
  rw [Simple.toRef_written]
  cases hk : c.has k with
  | true =>
    have hlt := Simple.filter_lt c k hk
    have hadd : c.add k v = ({ c with entries := (k, v) :: c.entries.filter (·.1 != k) }, false) := by
      unfold Simple.add; simp [hk]
    rw [hadd]
    rw [Ref.trim_noop]
    · exact ⟨by simp, by simp⟩
    · right
      rw [Ref.exceeds_none]
      simp
      omega
  | false =>
    rw [Simple.filter_absent c k hk]
    by_cases hgt : c.entries.length + 1 > c.cap
    · have hne : c.entries ≠ [] := by
        intro h0; rw [h0] at hgt; simp at hgt; omega
      obtain ⟨ys, z, hys⟩ : ∃ ys z, c.entries = ys ++ [z] :=
        ⟨c.entries.dropLast, c.entries.getLast hne, (List.dropLast_concat_getLast hne).symm⟩
      have hlen : c.entries.length = ys.length + 1 := by rw [hys]; simp
      have hadd : c.add k v = ({ c with entries := (k, v) :: ys }, true) := by
        unfold Simple.add
        simp only [hk, Bool.false_eq_true, if_false, List.length_cons, hgt, if_true]
        rw [hys, ← List.cons_append, List.dropLast_concat]
      rw [hadd, hys]
      have hrw : List.map plainItem (ys ++ [z]).reverse ++ [plainItem (k, v)]
          = plainItem z :: (List.map plainItem ys.reverse ++ [plainItem (k, v)]) := by simp
      rw [hrw, Ref.trim_cons _ _ _ _ (by simp)]
      have hex : Ref.exceeds c.cap none (plainItem z :: (List.map plainItem ys.reverse ++ [plainItem (k, v)])) = true := by
        rw [Ref.exceeds_none]; simp; omega
      rw [hex]
      simp only [if_true]
      rw [Ref.trim_noop _ _ _ (Or.inr (by rw [Ref.exceeds_none]; simp; omega))]
      exact ⟨by simp, by simp⟩
    · have hadd : c.add k v = ({ c with entries := (k, v) :: c.entries }, false) := by
        unfold Simple.add
        simp only [hk, Bool.false_eq_true, if_false, List.length_cons, hgt]
      rw [hadd]
      rw [Ref.trim_noop _ _ _ (Or.inr (by rw [Ref.exceeds_none]; simp; omega))]
      exact ⟨by simp, by simp⟩

/-- core of the simulation: `Add` is the reference `put` (whatever size the wrapper was given) -/
theorem Simple.toRef_add (c : Simple) (k v : Bytes) (size : Int) (h : SimpleInv c) (hc : 1 ≤ c.cap) :
    (c.add k v).1.toRef = (c.toRef.put k v size).1 ∧ (c.add k v).2 = (c.toRef.put k v size).2 := by
  obtain ⟨h1, h2⟩ := Simple.add_trim c k v size h hc
  simp only [Ref.put, Ref.rejects, Simple.toRef_maxBytes, Option.isSome_none, Bool.false_and, Bool.false_eq_true,
    if_false, Simple.toRef_cap, h1, List.length_map, List.length_reverse]
  exact ⟨by simp only [Simple.toRef, Simple.add_cap], h2⟩

theorem SimpleInv.get (c : Simple) (k : Bytes) (h : SimpleInv c) : SimpleInv (c.get k).1 := by
  unfold Simple.get
  cases hf : c.entries.find? (·.1 == k) with
  | none => exact h
  | some e =>
    have hek : e.1 = k := by simpa using List.find?_some hf
    have hmem : e ∈ c.entries := List.mem_of_find?_eq_some hf
    have hk : c.has k = true := by
      unfold Simple.has
      simp only [List.any_eq_true]
      exact ⟨e, hmem, by simp [hek]⟩
    have hlt := Simple.filter_lt c k hk
    refine ⟨?_, ?_⟩
    · show ((e :: c.entries.filter (·.1 != k)).map (·.1)).Nodup
      simp only [List.map_cons, List.nodup_cons]
      refine ⟨by simp [hek], List.Nodup.sublist (List.Sublist.map _ List.filter_sublist) h.keysNodup⟩
    · show (e :: c.entries.filter (·.1 != k)).length ≤ c.cap
      have := h.bound
      simp only [List.length_cons]
      omega

theorem SimpleInv.remove (c : Simple) (k : Bytes) (h : SimpleInv c) : SimpleInv (c.remove k) :=
  ⟨List.Nodup.sublist (List.Sublist.map _ List.filter_sublist) h.keysNodup,
   Nat.le_trans (List.length_filter_le _ _) h.bound⟩

theorem Simple.obs_eq (c : Simple) : c.obs = c.toRef.obs := by
  have h0 : ∀ l : List (Bytes × Bytes), Ref.total (l.map plainItem) = 0 := by
    intro l
    induction l with
    | nil => rfl
    | cons x xs ih => simp only [List.map_cons, Ref.total_cons, ih]; rfl
  simp only [Simple.obs, Ref.obs, Ref.keys, Ref.vals, Ref.len, Ref.bytes, Simple.keys, Simple.toRef_items,
    List.length_reverse, List.length_map, List.map_map, h0]
  rfl

/-- STEP LEMMA (plain cache) -/
theorem Simple.step_refines (c : Simple) (op : LOp) (h : SimpleInv c) (hc : 1 ≤ c.cap) :
    (SimpleInv (c.stepL op).1 ∧ (c.stepL op).1.cap = c.cap) ∧
    (c.stepL op).1.toRef = (c.toRef.step op).1 ∧ (c.stepL op).2 = (c.toRef.step op).2 := by
  cases op with
  | put k v s =>
    obtain ⟨h1, h2⟩ := Simple.toRef_add c k v s h hc
    exact ⟨⟨SimpleInv.add c k v h hc, Simple.add_cap c k v⟩, h1, congrArg LOut.evicted h2⟩
  | hoa k v s =>
    simp only [Simple.stepL, Ref.step, Ref.hasOrAdd, Simple.toRef_has, Simple.containsOrAdd, Ref.rejects,
      Simple.toRef_maxBytes, Option.isSome_none, Bool.false_and, Bool.false_eq_true, if_false]
    cases hk : c.has k with
    | true => simp only [if_true]; exact ⟨⟨h, trivial⟩, trivial, trivial⟩
    | false =>
      simp only [Bool.false_eq_true, if_false]
      exact ⟨⟨SimpleInv.add c k v h hc, Simple.add_cap c k v⟩, (Simple.toRef_add c k v s h hc).1, trivial⟩
  | get k =>
    refine ⟨⟨SimpleInv.get c k h, ?_⟩, ?_⟩
    · simp only [Simple.stepL, Simple.get]; split <;> rfl
    · simp only [Simple.stepL, Ref.step, Ref.get, Simple.get, Simple.toRef_find c k h]
      cases hf : c.entries.find? (·.1 == k) with
      | none => exact ⟨rfl, rfl⟩
      | some e =>
        refine ⟨?_, rfl⟩
        simp only [Option.map_some, Simple.toRef_without]
        simp [Simple.toRef]
  | peek k =>
    refine ⟨⟨h, rfl⟩, rfl, ?_⟩
    simp only [Simple.stepL, Ref.step, Ref.peek, Simple.peek, Simple.toRef_find c k h, Option.map_map]
    rfl
  | has k =>
    exact ⟨⟨h, rfl⟩, rfl, by simp only [Simple.stepL, Ref.step, Simple.toRef_has]⟩
  | rm k =>
    refine ⟨⟨SimpleInv.remove c k h, rfl⟩, ?_, rfl⟩
    simp only [Simple.stepL, Ref.step, Ref.remove, Simple.toRef_without]
    rfl
  | clear =>
    exact ⟨⟨⟨List.nodup_nil, Nat.zero_le _⟩, rfl⟩, rfl, rfl⟩

/-! ## 3c. whole histories -/

/-- a step-wise simulation lifts to histories: same outputs and same observations after every step, related
    final states -/
theorem sim_run {σ : Type} (step : σ → LOp → σ × LOut) (obs : σ → Obs) (inv : σ → Prop) (abs : σ → Ref)
    (hstep : ∀ s op, inv s →
      inv (step s op).1 ∧ abs (step s op).1 = ((abs s).step op).1 ∧ (step s op).2 = ((abs s).step op).2)
    (hobs : ∀ s, inv s → obs s = (abs s).obs) (ops : List LOp) :
    ∀ s, inv s → runTrace step obs s ops = runTrace Ref.step Ref.obs (abs s) ops ∧
      abs (runFinal step s ops) = runFinal Ref.step (abs s) ops ∧ inv (runFinal step s ops) := by
  induction ops with
  | nil => intro s hs; exact ⟨rfl, rfl, hs⟩
  | cons op ops ih =>
    intro s hs
    obtain ⟨h1, h2, h3⟩ := hstep s op hs
    obtain ⟨i1, i2, i3⟩ := ih (step s op).1 h1
    simp only [runTrace, runFinal]
    rw [i1, h2, h3, hobs _ h1, h2]
    rw [h2] at i2
    exact ⟨rfl, i2, i3⟩

/-- MAIN THEOREM (sized cache, C15).  For every item capacity, byte capacity and history, `capacityLRU` behind the
    `lruCache` wrapper and the reference LRU produce the same output at every step and show the same `Keys` (same order),
    values, `SizeInBytesContained` and `Len` after every step; the final states are related by `Cap.toRef`.
    (`1 ≤ cap` is not needed on this side; the Go constructor enforces it anyway.) -/
theorem cap_refines_ref (cap : Nat) (maxBytes : Int) (ops : List LOp) :
    runTrace Cap.stepL Cap.obs (Cap.init cap maxBytes) ops
      = runTrace Ref.step Ref.obs (Ref.init cap (some maxBytes)) ops ∧
    (runFinal Cap.stepL (Cap.init cap maxBytes) ops).toRef = runFinal Ref.step (Ref.init cap (some maxBytes)) ops ∧
    CapInv (runFinal Cap.stepL (Cap.init cap maxBytes) ops) :=
  sim_run Cap.stepL Cap.obs CapInv Cap.toRef (fun s op hs => Cap.step_refines s op hs) Cap.obs_eq ops
    (Cap.init cap maxBytes) (CapInv.init cap maxBytes)

/-- the same, spelled out for the final state of a history (hence for the state after every prefix) -/
theorem cap_refines_ref_final (cap : Nat) (maxBytes : Int) (ops : List LOp) :
    let c := runFinal Cap.stepL (Cap.init cap maxBytes) ops
    let r := runFinal Ref.step (Ref.init cap (some maxBytes)) ops
    c.keys = r.keys ∧ c.entries.reverse.map (·.val) = r.vals ∧ (∀ k, c.peek k = r.peek k) ∧
    (∀ k, c.has k = r.has k) ∧ c.bytes = r.bytes ∧ c.entries.length = r.len := by
  intro c r
  obtain ⟨_, h2, h3⟩ := cap_refines_ref cap maxBytes ops
  have h2' : c.toRef = r := h2
  have h3' : CapInv c := h3
  have ho := Cap.obs_eq c h3'
  rw [h2'] at ho
  simp only [Cap.obs, Ref.obs, Obs.mk.injEq] at ho
  obtain ⟨o1, o2, o3, o4⟩ := ho
  refine ⟨o1, o2, ?_, ?_, o3, o4⟩
  · intro k; rw [← h2', Ref.peek, Cap.toRef_find c k h3']; rfl
  · intro k; rw [← h2', Cap.toRef_has]

/-- MAIN THEOREM (plain cache, C15): hashicorp's `simplelru` behind the wrapper is the same reference with
    `maxBytes = none` -/
theorem simple_refines_ref (cap : Nat) (hc : 1 ≤ cap) (ops : List LOp) :
    runTrace Simple.stepL Simple.obs ⟨cap, []⟩ ops = runTrace Ref.step Ref.obs (Ref.init cap none) ops ∧
    (runFinal Simple.stepL ⟨cap, []⟩ ops).toRef = runFinal Ref.step (Ref.init cap none) ops ∧
    SimpleInv (runFinal Simple.stepL ⟨cap, []⟩ ops) := by
  obtain ⟨h1, h2, h3⟩ := sim_run Simple.stepL Simple.obs (fun s => SimpleInv s ∧ 1 ≤ s.cap) Simple.toRef
    (fun s op hs => by
      obtain ⟨⟨a, b⟩, c, d⟩ := Simple.step_refines s op hs.1 hs.2
      exact ⟨⟨a, by rw [b]; exact hs.2⟩, c, d⟩)
    (fun s _ => Simple.obs_eq s) ops ⟨cap, []⟩ ⟨⟨List.nodup_nil, Nat.zero_le _⟩, hc⟩
  exact ⟨h1, h2, h3.1⟩

theorem simple_refines_ref_final (cap : Nat) (hc : 1 ≤ cap) (ops : List LOp) :
    let c := runFinal Simple.stepL ⟨cap, []⟩ ops
    let r := runFinal Ref.step (Ref.init cap none) ops
    c.keys = r.keys ∧ c.entries.reverse.map (·.2) = r.vals ∧ (∀ k, c.peek k = r.peek k) ∧
    (∀ k, c.has k = r.has k) ∧ r.bytes = 0 ∧ c.entries.length = r.len := by
  intro c r
  obtain ⟨_, h2, h3⟩ := simple_refines_ref cap hc ops
  have h2' : c.toRef = r := h2
  have h3' : SimpleInv c := h3
  have ho := Simple.obs_eq c
  rw [h2'] at ho
  simp only [Simple.obs, Ref.obs, Obs.mk.injEq] at ho
  obtain ⟨o1, o2, o3, o4⟩ := ho
  refine ⟨o1, o2, ?_, ?_, o3.symm, o4⟩
  · intro k
    rw [← h2', Ref.peek, Simple.toRef_find c k h3', Simple.peek, Option.map_map]
    rfl
  · intro k; rw [← h2', Simple.toRef_has]

/-! ### the wrapper `lruCache` itself -/

theorem Cache.stepL_sized (s : Cap) (hs : List String) (op : LOp) :
    Cache.stepL ⟨.sized s, hs⟩ op = (⟨.sized (s.stepL op).1, hs⟩, (s.stepL op).2) := by
  cases op with
  | hoa k v sz =>
    rcases hr : s.addSizedIfMissing Variant.current k v sz with ⟨s', has, ev⟩
    simp only [Cache.stepL, Cap.stepL, Cache.hasOrAdd, hr]
    cases has <;> cases s'.has k <;> simp [Variant.current]
  | _ => rfl

theorem Cache.stepL_plain (s : Simple) (hs : List String) (op : LOp) :
    Cache.stepL ⟨.plain s, hs⟩ op = (⟨.plain (s.stepL op).1, hs⟩, (s.stepL op).2) := by
  cases op with
  | hoa k v sz =>
    rcases hr : s.containsOrAdd k v with ⟨s', has, ev⟩
    simp only [Cache.stepL, Simple.stepL, Cache.hasOrAdd, hr]
    cases has <;> simp
  | _ => rfl

/-- what the wrapper needs of its backend -/
def Cache.Inv (c : Cache) : Prop :=
  match c.b with
  | .sized s => CapInv s
  | .plain s => SimpleInv s ∧ 1 ≤ s.cap

theorem Cache.obs_eq (c : Cache) (h : c.Inv) : c.obs = c.toRef.obs := by
  obtain ⟨b, hs⟩ := c
  cases b with
  | sized s => exact Cap.obs_eq s h
  | plain s => exact Simple.obs_eq s

/-- STEP LEMMA for `lruCache` over either backend -/
theorem Cache.step_refines (c : Cache) (op : LOp) (h : c.Inv) :
    (c.stepL op).1.Inv ∧ (c.stepL op).1.toRef = (c.toRef.step op).1 ∧ (c.stepL op).2 = (c.toRef.step op).2 := by
  obtain ⟨b, hs⟩ := c
  cases b with
  | sized s =>
    rw [Cache.stepL_sized]
    exact Cap.step_refines s op h
  | plain s =>
    rw [Cache.stepL_plain]
    obtain ⟨⟨a, b⟩, c, d⟩ := Simple.step_refines s op h.1 h.2
    exact ⟨⟨a, by rw [b]; exact h.2⟩, c, d⟩

/-- C15 for `lruCache` as constructed by `NewCacheWithSizeInBytes` / `NewCache`, with any registered handlers -/
theorem cache_refines_ref (c : Cache) (h : c.Inv) (ops : List LOp) :
    runTrace Cache.stepL Cache.obs c ops = runTrace Ref.step Ref.obs c.toRef ops ∧
    (runFinal Cache.stepL c ops).toRef = runFinal Ref.step c.toRef ops ∧ (runFinal Cache.stepL c ops).Inv :=
  sim_run Cache.stepL Cache.obs Cache.Inv Cache.toRef Cache.step_refines Cache.obs_eq ops c h

/-! ## 4. The property in its own words, from the reference alone -/

namespace Ref

theorem has_iff_mem_keys (r : Ref) (k : Bytes) : r.has k = true ↔ k ∈ r.keys := by
  simp [Ref.has, Ref.keys]

theorem mem_without (r : Ref) (k : Bytes) (e : Entry) : e ∈ r.without k ↔ e ∈ r.items ∧ e.key ≠ k := by
  simp [Ref.without]

theorem exceeds_mono (cap : Nat) (mb : Option Int) (l l' : List Entry) (hl : l'.length ≤ l.length)
    (ht : total l' ≤ total l) (h : exceeds cap mb l = false) : exceeds cap mb l' = false := by
  unfold exceeds at h ⊢
  cases mb with
  | none => simp at h ⊢; omega
  | some m => simp at h ⊢; omega

theorem total_filter_le (p : Entry → Bool) (l : List Entry) (hs : ∀ e ∈ l, 0 ≤ e.size) :
    total (l.filter p) ≤ total l := by
  induction l with
  | nil => simp
  | cons x xs ih =>
    have hx := hs x (by simp)
    have := ih (fun e he => hs e (List.mem_cons_of_mem _ he))
    by_cases hp : p x = true
    · simp only [List.filter_cons, hp, if_true, total_cons]; omega
    · simp only [List.filter_cons, hp, if_false, total_cons, Bool.false_eq_true]; omega

/-- the state invariant of the reference: distinct keys, valid sizes (all 0 on the plain LRU), within the limits
    unless a single entry remains -/
structure WF (r : Ref) : Prop where
  keysNodup : (r.items.map (·.key)).Nodup
  sizes : ∀ e ∈ r.items, 0 ≤ e.size
  plain : r.maxBytes = none → ∀ e ∈ r.items, e.size = 0
  fits : r.items.length ≤ 1 ∨ exceeds r.cap r.maxBytes r.items = false

theorem WF.init (cap : Nat) (mb : Option Int) : WF (Ref.init cap mb) :=
  ⟨by simp [Ref.init], by simp [Ref.init], by simp [Ref.init], Or.inl (by simp [Ref.init])⟩

/-- a write keeps a suffix of "everything else, then the written entry", and that suffix contains the written entry -/
theorem put_shape (r : Ref) (k v : Bytes) (size : Int) (h : r.rejects size = false) :
    ∃ dropped kept, r.without k = dropped ++ kept ∧
      (r.put k v size).1.items = kept ++ [⟨k, v, r.stored size⟩] ∧
      (r.put k v size).2 = !dropped.isEmpty ∧
      (∀ d e, dropped = d ++ [e] →
        exceeds r.cap r.maxBytes (e :: (kept ++ [⟨k, v, r.stored size⟩])) = true) ∧
      ((kept ++ [(⟨k, v, r.stored size⟩ : Entry)]).length ≤ 1 ∨
        exceeds r.cap r.maxBytes (kept ++ [⟨k, v, r.stored size⟩]) = false) := by
  obtain ⟨d, kept, h1, h2⟩ := trim_append_last r.cap r.maxBytes (r.without k) ⟨k, v, r.stored size⟩
  obtain ⟨d', s1, _, s3, s4⟩ := trim_spec r.cap r.maxBytes (r.written k v size)
  have hw : r.written k v size = r.without k ++ [⟨k, v, r.stored size⟩] := rfl
  have hd : d' = d := by
    rw [hw, h2, h1, List.append_assoc] at s1
    exact (List.append_cancel_right s1).symm
  subst hd
  rw [hw, h2] at s3 s4
  refine ⟨d', kept, h1, ?_, ?_, fun a e ha => (s4 a e ha).2, s3⟩
  · simp only [Ref.put, h, Bool.false_eq_true, if_false, hw, h2]
  · simp only [Ref.put, h, Bool.false_eq_true, if_false, hw, h2]
    simp only [h1, List.length_append]
    cases d' <;> simp

theorem put_rejected (r : Ref) (k v : Bytes) (size : Int) (h : r.rejects size = true) :
    r.put k v size = (r, false) := by
  simp [Ref.put, h]

theorem put_cap (r : Ref) (k v : Bytes) (size : Int) :
    (r.put k v size).1.cap = r.cap ∧ (r.put k v size).1.maxBytes = r.maxBytes := by
  unfold Ref.put; split <;> exact ⟨rfl, rfl⟩

theorem stored_nonneg (r : Ref) (size : Int) (h : r.rejects size = false) : 0 ≤ r.stored size := by
  unfold rejects at h; unfold stored
  cases hm : r.maxBytes.isSome <;> simp [hm] at h ⊢
  omega

theorem WF.put (r : Ref) (k v : Bytes) (size : Int) (h : WF r) : WF (r.put k v size).1 := by
  cases hr : r.rejects size with
  | true => rw [put_rejected r k v size hr]; exact h
  | false =>
    obtain ⟨d, kept, h1, h2, _, _, h5⟩ := put_shape r k v size hr
    obtain ⟨hc, hm⟩ := put_cap r k v size
    have hsub : ∀ e ∈ kept, e ∈ r.items ∧ e.key ≠ k := fun e he =>
      (mem_without r k e).mp (by rw [h1]; exact List.mem_append_right _ he)
    have hnd : (kept.map (·.key)).Nodup := by
      have : ((r.without k).map (·.key)).Nodup := filter_keys_nodup k _ h.keysNodup
      rw [h1, List.map_append] at this
      exact List.Nodup.sublist (List.sublist_append_right _ _) this
    refine ⟨?_, ?_, ?_, ?_⟩
    · rw [h2, List.map_append, List.nodup_append]
      refine ⟨hnd, by simp, ?_⟩
      intro a ha b hb
      simp only [List.map_cons, List.map_nil, List.mem_singleton] at hb
      obtain ⟨e, he, rfl⟩ := List.mem_map.mp ha
      rw [hb]; exact (hsub e he).2
    · intro e he
      rw [h2] at he
      rcases List.mem_append.mp he with he | he
      · exact h.sizes e (hsub e he).1
      · simp only [List.mem_singleton] at he
        rw [he]; exact stored_nonneg r size hr
    · intro hn e he
      rw [hm] at hn
      rw [h2] at he
      rcases List.mem_append.mp he with he | he
      · exact h.plain hn e (hsub e he).1
      · simp only [List.mem_singleton] at he
        rw [he]; simp [stored, hn]
    · rw [hc, hm, h2]; exact h5

theorem find_facts (r : Ref) (k : Bytes) (e : Entry) (h : WF r) (hf : r.find k = some e) :
    e ∈ r.items ∧ e.key = k ∧ (r.without k).length + 1 = r.items.length ∧ total (r.without k) + e.size = total r.items := by
  have hf' : r.items.find? (·.key == k) = some e := hf
  obtain ⟨a, b⟩ := filter_find_facts k r.items e h.keysNodup hf'
  rw [← total_eq_sumSizes, ← total_eq_sumSizes] at b
  exact ⟨List.mem_of_find?_eq_some hf', by simpa using List.find?_some hf', a, b⟩

theorem WF.get (r : Ref) (k : Bytes) (h : WF r) : WF (r.get k).1 := by
  unfold Ref.get
  cases hf : r.find k with
  | none => exact h
  | some e =>
    obtain ⟨hmem, hek, hlen, htot⟩ := find_facts r k e h hf
    have hsub : ∀ x ∈ r.without k ++ [e], x ∈ r.items := by
      intro x hx
      rcases List.mem_append.mp hx with hx | hx
      · exact ((mem_without r k x).mp hx).1
      · simp only [List.mem_singleton] at hx; rw [hx]; exact hmem
    refine ⟨?_, fun x hx => h.sizes x (hsub x hx), fun hn x hx => h.plain hn x (hsub x hx), ?_⟩
    · show ((r.without k ++ [e]).map (·.key)).Nodup
      rw [List.map_append, List.nodup_append]
      refine ⟨filter_keys_nodup k _ h.keysNodup, by simp, ?_⟩
      intro a ha b hb
      simp only [List.map_cons, List.map_nil, List.mem_singleton] at hb
      obtain ⟨x, hx, rfl⟩ := List.mem_map.mp ha
      rw [hb, hek]; exact ((mem_without r k x).mp hx).2
    · show (r.without k ++ [e]).length ≤ 1 ∨ exceeds r.cap r.maxBytes (r.without k ++ [e]) = false
      rcases h.fits with hf1 | hf1
      · left; simp only [List.length_append, List.length_singleton]; omega
      · right
        apply exceeds_mono _ _ _ _ _ _ hf1
        · simp only [List.length_append, List.length_singleton]; omega
        · simp only [total_append, total_cons, total_nil]; omega

theorem WF.remove (r : Ref) (k : Bytes) (h : WF r) : WF (r.remove k) := by
  have hsub : ∀ x ∈ r.without k, x ∈ r.items := fun x hx => ((mem_without r k x).mp hx).1
  refine ⟨filter_keys_nodup k _ h.keysNodup, fun x hx => h.sizes x (hsub x hx),
    fun hn x hx => h.plain hn x (hsub x hx), ?_⟩
  show (r.without k).length ≤ 1 ∨ exceeds r.cap r.maxBytes (r.without k) = false
  have hl : (r.without k).length ≤ r.items.length := List.length_filter_le _ _
  rcases h.fits with hf1 | hf1
  · left; omega
  · right; exact exceeds_mono _ _ _ _ hl (total_filter_le _ _ h.sizes) hf1

theorem WF.step (r : Ref) (op : LOp) (h : WF r) : WF (r.step op).1 := by
  cases op with
  | put k v s => exact WF.put r k v s h
  | hoa k v s =>
    simp only [Ref.step, Ref.hasOrAdd]
    split
    · exact h
    · split
      · exact h
      · exact WF.put r k v s h
  | get k => exact WF.get r k h
  | peek k => exact h
  | has k => exact h
  | rm k => exact WF.remove r k h
  | clear => exact ⟨by simp [Ref.step, Ref.clear], by simp [Ref.step, Ref.clear], by simp [Ref.step, Ref.clear],
      Or.inl (by simp [Ref.step, Ref.clear])⟩

theorem step_cap (r : Ref) (op : LOp) : (r.step op).1.cap = r.cap ∧ (r.step op).1.maxBytes = r.maxBytes := by
  cases op with
  | put k v s => exact put_cap r k v s
  | hoa k v s =>
    simp only [Ref.step, Ref.hasOrAdd]
    split
    · exact ⟨rfl, rfl⟩
    · split
      · exact ⟨rfl, rfl⟩
      · exact put_cap r k v s
  | get k => simp only [Ref.step, Ref.get]; split <;> exact ⟨rfl, rfl⟩
  | _ => exact ⟨rfl, rfl⟩

theorem run_WF (ops : List LOp) : ∀ r : Ref, WF r →
    WF (runFinal Ref.step r ops) ∧ (runFinal Ref.step r ops).cap = r.cap ∧
      (runFinal Ref.step r ops).maxBytes = r.maxBytes := by
  induction ops with
  | nil => intro r h; exact ⟨h, rfl, rfl⟩
  | cons op ops ih =>
    intro r h
    obtain ⟨a, b, c⟩ := ih (r.step op).1 (WF.step r op h)
    obtain ⟨d, e⟩ := step_cap r op
    exact ⟨a, by rw [← d]; exact b, by rw [← e]; exact c⟩

end Ref

/-- "…except that the most recently written entry always stays": an accepted Put leaves its entry resident, as the
    most recently used one, with the value and size just given -/
theorem ref_never_evicts_just_written (r : Ref) (k v : Bytes) (size : Int) (h : r.rejects size = false) :
    (r.put k v size).1.items.getLast? = some ⟨k, v, r.stored size⟩ ∧
    (r.put k v size).1.keys.getLast? = some k ∧
    (r.put k v size).1.has k = true ∧ (r.put k v size).1.peek k = some v := by
  obtain ⟨d, kept, h1, h2, _⟩ := Ref.put_shape r k v size h
  have hk : ∀ e ∈ kept, (e.key == k) = false := by
    intro e he
    have := ((Ref.mem_without r k e).mp (by rw [h1]; exact List.mem_append_right _ he)).2
    simpa using this
  refine ⟨by rw [h2]; simp, by rw [Ref.keys, h2]; simp, ?_, ?_⟩
  · rw [Ref.has, h2]; simp
  · rw [Ref.peek, Ref.find, h2, List.find?_append]
    have : kept.find? (·.key == k) = none := by
      rw [List.find?_eq_none]; intro e he; simp [hk e he]
    rw [this]; simp

/-- the same for an inserting HasOrAdd -/
theorem ref_never_evicts_just_added (r : Ref) (k v : Bytes) (size : Int) (h : (r.hasOrAdd k v size).2.2 = true) :
    (r.hasOrAdd k v size).1.items.getLast? = some ⟨k, v, r.stored size⟩ ∧ (r.hasOrAdd k v size).1.has k = true := by
  unfold Ref.hasOrAdd at h ⊢
  cases hk : r.has k with
  | true => simp [hk] at h
  | false =>
    cases hr : r.rejects size with
    | true => simp [hk, hr] at h
    | false =>
      simp only [Bool.false_eq_true, if_false]
      obtain ⟨a, _, b, _⟩ := ref_never_evicts_just_written r k v size hr
      exact ⟨a, b⟩

/-- "the least recently used entries are evicted": what an accepted Put drops is a PREFIX of the least→most recent
    order of the other residents; the survivors keep their order, the written entry comes last; the `evicted` flag
    says whether the prefix is non-empty; and nothing is dropped needlessly — with the last dropped entry put back
    the cache would exceed a limit -/
theorem ref_evicts_least_recent_first (r : Ref) (k v : Bytes) (size : Int) (h : r.rejects size = false) :
    ∃ dropped kept, r.without k = dropped ++ kept ∧
      (r.put k v size).1.items = kept ++ [⟨k, v, r.stored size⟩] ∧
      (r.put k v size).2 = !dropped.isEmpty ∧
      (∀ d e, dropped = d ++ [e] → Ref.exceeds r.cap r.maxBytes (e :: (r.put k v size).1.items) = true) := by
  obtain ⟨d, kept, h1, h2, h3, h4, _⟩ := Ref.put_shape r k v size h
  exact ⟨d, kept, h1, h2, h3, by rw [h2]; exact h4⟩

/-- "SizeInBytesContained equals the sum of resident sizes" -/
theorem ref_bytes_is_sum (r : Ref) : r.bytes = (r.items.map (·.size)).sum := Ref.total_eq_sum r.items

/-- …and it moves as an incrementally maintained counter would: minus the overwritten entry, plus the new size,
    minus everything evicted -/
theorem ref_put_bytes (r : Ref) (k v : Bytes) (size : Int) (h : r.rejects size = false) :
    ∃ dropped kept, r.without k = dropped ++ kept ∧ (r.put k v size).1.items = kept ++ [⟨k, v, r.stored size⟩] ∧
      (r.put k v size).1.bytes = Ref.total (r.without k) + r.stored size - Ref.total dropped := by
  obtain ⟨d, kept, h1, h2, _⟩ := Ref.put_shape r k v size h
  refine ⟨d, kept, h1, h2, ?_⟩
  rw [Ref.bytes, h2, h1]
  simp only [Ref.total_append, Ref.total_cons, Ref.total_nil]
  omega

/-- on the plain LRU the byte count is always 0 (`simpleLRUCacheAdapter.SizeInBytesContained`) -/
theorem ref_plain_bytes_zero (cap : Nat) (ops : List LOp) : (runFinal Ref.step (Ref.init cap none) ops).bytes = 0 := by
  obtain ⟨h, _, hm⟩ := Ref.run_WF ops (Ref.init cap none) (Ref.WF.init cap none)
  have hp := h.plain hm
  rw [Ref.bytes]
  generalize (runFinal Ref.step (Ref.init cap none) ops).items = l at hp
  induction l with
  | nil => rfl
  | cons x xs ih =>
    rw [Ref.total_cons, hp x (by simp), ih (fun e he => hp e (List.mem_cons_of_mem _ he))]
    rfl

/-- "Put and HasOrAdd return truthfully whether an eviction or an insertion happened" -/
theorem ref_flags_truthful (r : Ref) (k v : Bytes) (size : Int) (h : r.WF) :
    -- Put: evicted ⇔ some other resident is no longer resident
    ((r.put k v size).2 = true ↔ ∃ e ∈ r.items, e.key ≠ k ∧ (r.put k v size).1.has e.key = false) ∧
    -- HasOrAdd: has ⇔ the key was resident
    ((r.hasOrAdd k v size).2.1 = r.has k) ∧
    -- HasOrAdd: added ⇔ the key was not resident and now is
    ((r.hasOrAdd k v size).2.2 = true ↔ (r.has k = false ∧ (r.hasOrAdd k v size).1.has k = true)) ∧
    -- HasOrAdd: nothing added ⇒ nothing changed
    ((r.hasOrAdd k v size).2.2 = false → (r.hasOrAdd k v size).1 = r) := by
  refine ⟨?_, ?_, ?_, ?_⟩
  · cases hr : r.rejects size with
    | true =>
      rw [Ref.put_rejected r k v size hr]
      simp only [Bool.false_eq_true, false_iff, not_exists, not_and]
      intro e he _ hh
      have : r.has e.key = true := by simp only [Ref.has, List.any_eq_true]; exact ⟨e, he, by simp⟩
      rw [this] at hh; exact Bool.noConfusion hh
    | false =>
      obtain ⟨d, kept, h1, h2, h3, _⟩ := Ref.put_shape r k v size hr
      have hnd : ((d ++ kept).map (·.key)).Nodup := by
        rw [← h1]; exact filter_keys_nodup k _ h.keysNodup
      rw [h3]
      constructor
      · intro hd
        cases d with
        | nil => simp at hd
        | cons e d' =>
          have hmem : e ∈ r.without k := by rw [h1]; simp
          obtain ⟨he, hek⟩ := (Ref.mem_without r k e).mp hmem
          refine ⟨e, he, hek, ?_⟩
          rw [Ref.has, h2]
          simp only [List.cons_append, List.map_cons, List.nodup_cons, List.map_append, List.mem_append,
            not_or] at hnd
          simp only [List.any_append, List.any_cons, List.any_nil, Bool.or_false, Bool.or_eq_false_iff,
            List.any_eq_false, beq_iff_eq]
          refine ⟨?_, beq_eq_false_iff_ne.mpr (fun hh => hek hh.symm)⟩
          intro x hx hxe
          exact hnd.1.2 (by rw [← hxe]; exact List.mem_map_of_mem hx)
      · intro ⟨e, he, hek, hh⟩
        cases d with
        | cons _ _ => rfl
        | nil =>
          exfalso
          have hmem : e ∈ kept := by
            have := (Ref.mem_without r k e).mpr ⟨he, hek⟩
            rw [h1] at this; simpa using this
          rw [Ref.has, h2] at hh
          simp only [List.any_append, Bool.or_eq_false_iff, List.any_eq_false] at hh
          exact hh.1 e hmem (by simp)
  · unfold Ref.hasOrAdd
    cases hk : r.has k with
    | true => simp
    | false => simp only [Bool.false_eq_true, if_false]; split <;> rfl
  · unfold Ref.hasOrAdd
    cases hk : r.has k with
    | true => simp
    | false =>
      cases hr : r.rejects size with
      | true => simp [hk]
      | false =>
        simp only [Bool.false_eq_true, if_false, true_and, true_iff]
        exact (ref_never_evicts_just_written r k v size hr).2.2.1
  · unfold Ref.hasOrAdd
    cases hk : r.has k with
    | true => simp
    | false =>
      cases hr : r.rejects size with
      | true => simp
      | false => simp

/-- "evicted when the item capacity — or the byte capacity — is exceeded, except that the most recently written
    entry always stays": after any history the count is within the item capacity, and the bytes are within the
    byte capacity unless exactly one (oversized) entry remains -/
theorem ref_len_le_cap_unless_single_oversized (cap : Nat) (hc : 1 ≤ cap) (mb : Option Int) (ops : List LOp) :
    (runFinal Ref.step (Ref.init cap mb) ops).len ≤ cap ∧
    (∀ m, mb = some m → (runFinal Ref.step (Ref.init cap mb) ops).len ≤ 1 ∨
        (runFinal Ref.step (Ref.init cap mb) ops).bytes ≤ m) ∧
    (∀ m, mb = some m → 0 ≤ m → (runFinal Ref.step (Ref.init cap mb) ops).len = 1 ∨
        (runFinal Ref.step (Ref.init cap mb) ops).bytes ≤ m) := by
  obtain ⟨h, hcap, hm⟩ := Ref.run_WF ops (Ref.init cap mb) (Ref.WF.init cap mb)
  have hf := h.fits
  rw [hcap, hm] at hf
  generalize runFinal Ref.step (Ref.init cap mb) ops = r at hf
  change r.items.length ≤ 1 ∨ Ref.exceeds cap mb r.items = false at hf
  have key : ∀ m, mb = some m → r.len ≤ 1 ∨ r.bytes ≤ m := by
    intro m hmb
    rcases hf with hf | hf
    · exact Or.inl hf
    · right
      rw [hmb] at hf
      simp [Ref.exceeds] at hf
      exact hf.2
  refine ⟨?_, key, ?_⟩
  · rcases hf with hf | hf
    · show r.items.length ≤ cap; omega
    · cases mb <;> simp [Ref.exceeds] at hf <;> (show r.items.length ≤ cap) <;> omega
  · intro m hmb h0
    rcases key m hmb with hk | hk
    · by_cases h1 : r.len = 1
      · exact Or.inl h1
      · right
        have : r.items = [] := List.eq_nil_of_length_eq_zero (by have : r.len = r.items.length := rfl; omega)
        rw [Ref.bytes, this]; exact h0
    · exact Or.inr hk

/-! ## 5. Non-vacuity, concrete instances, and the corners where equality fails -/

/-- the 9-operation history of `demoOps` on the reference, spelled out: cap = 2, 10 bytes -/
example : runTrace Ref.step Ref.obs (Ref.init 2 (some 10)) demoOps =
    [ (.evicted false,        ⟨[[1]],      [[10]],       4, 1⟩),
      (.evicted false,        ⟨[[1], [2]], [[10], [20]], 8, 2⟩),
      (.value (some [10]),    ⟨[[2], [1]], [[20], [10]], 8, 2⟩),   -- Get refreshed [1] …
      (.evicted true,         ⟨[[1], [3]], [[10], [30]], 6, 2⟩),   -- … so the victim is [2]
      (.evicted false,        ⟨[[1], [3]], [[10], [30]], 6, 2⟩),   -- negative size: rejected, nothing changes
      (.evicted true,         ⟨[[1]],      [[11]],       9, 1⟩),   -- growing overwrite 4 → 9 evicts [3]
      (.hasAdded true false,  ⟨[[1]],      [[11]],       9, 1⟩),
      (.hasAdded false false, ⟨[[1]],      [[11]],       9, 1⟩),   -- refused insertion is not reported as added
      (.value (some [11]),    ⟨[[1]],      [[11]],       9, 1⟩) ] := by decide

/-- both sides evaluated (this is `cap_refines_ref 2 10 demoOps`, by computation) -/
example : runTrace Cap.stepL Cap.obs (Cap.init 2 10) demoOps
    = runTrace Ref.step Ref.obs (Ref.init 2 (some 10)) demoOps := by decide

/-- the same through the wrapper `lruCache`, with a registered handler -/
example : runTrace Cache.stepL Cache.obs ⟨.sized (Cap.init 2 10), ["h"]⟩ demoOps
    = runTrace Ref.step Ref.obs (Ref.init 2 (some 10)) demoOps := by decide

/-- a single oversized entry stays (bytes 25 > 10) and is the only resident -/
example : (runFinal Ref.step (Ref.init 3 (some 10)) [.put [1] [1] 3, .put [2] [2] 3, .put [3] [3] 25]).obs
    = ⟨[[3]], [[3]], 25, 1⟩ := by decide
example : (runFinal Cap.stepL (Cap.init 3 10) [.put [1] [1] 3, .put [2] [2] 3, .put [3] [3] 25]).obs
    = ⟨[[3]], [[3]], 25, 1⟩ := by decide

/-- plain LRU, cap = 2: overwrite refreshes without eviction, a new key at capacity evicts exactly the oldest,
    sizes (even negative ones) are ignored -/
def demoPlain : List LOp :=
  [ .put [1] [10] 7, .put [2] [20] (-5),
    .put [1] [11] 100,        -- overwrite at capacity: refresh, no eviction → 2 1
    .put [3] [30] 0,          -- new key at capacity: evicts [2] → 1 3
    .hoa [3] [31] 0,          -- present: no refresh
    .hoa [4] [40] (-1),       -- inserted (no size check on the plain LRU), evicts [1] → 3 4
    .get [3],                 -- → 4 3
    .rm [4], .peek [3], .clear, .has [3] ]

example : runTrace Ref.step Ref.obs (Ref.init 2 none) demoPlain =
    [ (.evicted false,        ⟨[[1]],      [[10]],       0, 1⟩),
      (.evicted false,        ⟨[[1], [2]], [[10], [20]], 0, 2⟩),
      (.evicted false,        ⟨[[2], [1]], [[20], [11]], 0, 2⟩),
      (.evicted true,         ⟨[[1], [3]], [[11], [30]], 0, 2⟩),
      (.hasAdded true false,  ⟨[[1], [3]], [[11], [30]], 0, 2⟩),
      (.hasAdded false true,  ⟨[[3], [4]], [[30], [40]], 0, 2⟩),
      (.value (some [30]),    ⟨[[4], [3]], [[40], [30]], 0, 2⟩),
      (.done,                 ⟨[[3]],      [[30]],       0, 1⟩),
      (.value (some [30]),    ⟨[[3]],      [[30]],       0, 1⟩),
      (.done,                 ⟨[],         [],           0, 0⟩),
      (.present false,        ⟨[],         [],           0, 0⟩) ] := by decide

example : runTrace Simple.stepL Simple.obs ⟨2, []⟩ demoPlain
    = runTrace Ref.step Ref.obs (Ref.init 2 none) demoPlain := by decide
example : runTrace Cache.stepL Cache.obs ⟨.plain ⟨2, []⟩, ["h1", "h2"]⟩ demoPlain
    = runTrace Ref.step Ref.obs (Ref.init 2 none) demoPlain := by decide

/-- the hypotheses of the step lemmas are satisfiable by non-trivial states -/
example : CapInv ⟨2, 10, [⟨[2], [20], 4⟩, ⟨[1], [10], 4⟩], 8⟩ :=
  ⟨by decide, by simp, by decide, Or.inr ⟨by decide, by decide⟩⟩
example : SimpleInv ⟨2, [([2], [20]), ([1], [10])]⟩ ∧ 1 ≤ (2 : Nat) := ⟨⟨by decide, by decide⟩, by decide⟩
example : Cache.Inv ⟨.sized (Cap.init 2 10), ["h"]⟩ := CapInv.init 2 10
example : Cache.Inv ⟨.plain ⟨2, []⟩, []⟩ := ⟨⟨List.nodup_nil, Nat.zero_le _⟩, by decide⟩
example : Ref.WF ⟨2, some 10, [⟨[1], [10], 4⟩, ⟨[2], [20], 4⟩]⟩ :=
  ⟨by decide, by simp, by simp, Or.inr (by decide)⟩
example : (Ref.mk 2 (some 10) [⟨[1], [10], 4⟩, ⟨[2], [20], 4⟩]).rejects 9 = false := by decide
example : ((Ref.mk 2 (some 10) [⟨[1], [10], 4⟩, ⟨[2], [20], 4⟩]).hasOrAdd [3] [30] 1).2.2 = true := by decide
/-- `ref_evicts_least_recent_first` at work: both older residents go, oldest first, for one 9-byte entry -/
example : ((Ref.mk 2 (some 10) [⟨[1], [10], 4⟩, ⟨[2], [20], 4⟩]).put [3] [30] 9)
    = (⟨2, some 10, [⟨[3], [30], 9⟩]⟩, true) := by decide

/-! ### where the requested equalities fail -/

/-- `cap = 0` on the plain LRU (rejected by `lru.New`): simplelru evicts the entry it has just been given, the
    reference keeps the most recently written entry. Hence `1 ≤ cap` in `simple_refines_ref`. -/
theorem simple_cap0_counterexample :
    runTrace Simple.stepL Simple.obs ⟨0, []⟩ [.put [1] [2] 0]
      ≠ runTrace Ref.step Ref.obs (Ref.init 0 none) [.put [1] [2] 0] := by decide

/-- …whereas `capacityLRU` with `cap = 0` still agrees with the reference (`cap_refines_ref` needs no bound) -/
example : runTrace Cap.stepL Cap.obs (Cap.init 0 10) demoOps
    = runTrace Ref.step Ref.obs (Ref.init 0 (some 10)) demoOps := by decide

/-- "count ≤ cap always" needs `1 ≤ cap`: with `cap = 0` the just-written entry still stays -/
theorem ref_len_cap0_counterexample :
    ¬ (runFinal Ref.step (Ref.init 0 (some 10)) [.put [1] [2] 1]).len ≤ 0 := by decide

/-- "bytes ≤ maxBytes unless exactly one entry remains" needs `0 ≤ maxBytes` (the Go constructor demands ≥ 1):
    with a negative byte capacity even the empty cache is "over"; the general form is `len ≤ 1 ∨ bytes ≤ maxBytes` -/
theorem ref_negative_maxBytes_counterexample :
    ¬ ((Ref.init 1 (some (-1))).len = 1 ∨ (Ref.init 1 (some (-1))).bytes ≤ -1) := by decide

/-- the refinement is about the CURRENT code: the legacy `HasOrAdd` reported an insertion that the sized cache had
    refused (F12) … -/
theorem legacy_hasOrAdd_counterexample :
    (Cache.hasOrAdd Variant.legacy ⟨.sized (Cap.init 2 10), []⟩ [1] [1] (-1)).2.2.1 = true ∧
    ((Ref.init 2 (some 10)).hasOrAdd [1] [1] (-1)).2.2 = false ∧
    (Cache.hasOrAdd Variant.current ⟨.sized (Cap.init 2 10), []⟩ [1] [1] (-1)).2.2.1 = false := by decide

/-- … and the legacy growing overwrite evicted without saying so (F11): flag `false` where the reference (and the
    current code) truthfully say `true` -/
theorem legacy_silent_eviction_vs_ref :
    let c : Cap := ⟨3, 10, [⟨[1], [], 4⟩, ⟨[2], [], 4⟩], 8⟩
    (c.addSized Variant.legacy [1] [] 8).2 = false ∧ (c.toRef.put [1] [] 8).2 = true ∧
    (c.addSized Variant.current [1] [] 8).2 = true ∧
    (c.addSized Variant.legacy [1] [] 8).1.toRef = (c.toRef.put [1] [] 8).1 := by decide
end SV.LRU
