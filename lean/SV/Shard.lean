/-
  SV.Shard — model of sharded/shardIDProvider.go.

  The Go code computes the masks with float64 `math.Log2/Ceil/Floor`; the model uses
  the integer formulas (Nat.log2).  Equality of the two on the whole domain
  [2, 2^31-1] is established by the exhaustive comparison of the C19 check, not by a
  theorem (float64 is outside the kernel).
-/
import SV.Common
namespace SV.Shard

/-- `ceil(log2 n)` for `n ≥ 2` (0 below) -/
def clog2 (n : Nat) : Nat := if n ≤ 1 then 0 else Nat.log2 (n - 1) + 1

def maskHigh (n : Nat) : Nat := 2 ^ clog2 n - 1
def maskLow (n : Nat) : Nat := 2 ^ (clog2 n - 1) - 1
/-- `int(floor(log2(n-1)))/8 + 1` -/
def bytesNeeded (n : Nat) : Nat := if n = 1 then 1 else Nat.log2 (n - 1) / 8 + 1

/-- `addr = addr<<8 + b` in uint32 -/
def foldAddr (bs : Bytes) : Nat :=
  bs.foldl (fun a b => (a * 256 + b.toNat) % 4294967296) 0

def suffixOf (n : Nat) (key : Bytes) : Bytes :=
  if key.length > bytesNeeded n then key.drop (key.length - bytesNeeded n) else key

def computeId (n : Nat) (key : Bytes) : Nat :=
  let addr := foldAddr (suffixOf n key)
  let idx := addr &&& maskHigh n
  if idx > n - 1 then addr &&& maskLow n else idx

/-- constructor guard: `numOfShards >= minNumOfShards` (int32 argument) -/
def validCount (n : Nat) : Bool := 2 ≤ n && n < 2147483648

end SV.Shard

namespace SV.Shard

/-- big-endian key of `i` on `k` bytes -/
def beKey : Nat → Nat → Bytes
  | 0, _ => []
  | k + 1, i => beKey k (i / 256) ++ [UInt8.ofNat (i % 256)]

def ontoCount (n : Nat) : Nat :=
  ((List.range n).filter fun i => computeId n (beKey (bytesNeeded n) i) == i).length

abbrev Triple := Nat × Nat × Nat
def triple (n : Nat) : Triple := (maskHigh n, maskLow n, bytesNeeded n)

/-- run-length encoding of `triple` over `[a,b]` by bisection (sound because every component is
    monotone in `n`, see `SV.ShardProofs.segs_sound`) -/
def segs : Nat → Nat → Nat → List (Nat × Nat × Triple)
  | 0, a, b => [(a, b, triple a)]
  | fuel + 1, a, b =>
    if triple a = triple b then [(a, b, triple a)]
    else
      let m := (a + b) / 2
      segs fuel a m ++ segs fuel (m + 1) b

def mergeSegs : List (Nat × Nat × Triple) → List (Nat × Nat × Triple)
  | [] => []
  | [s] => [s]
  | (a, b, t) :: (c, d, u) :: rest =>
    if t = u ∧ b + 1 = c then mergeSegs ((a, d, t) :: rest) else (a, b, t) :: mergeSegs ((c, d, u) :: rest)
termination_by l => l.length

def showSegs (l : List (Nat × Nat × Triple)) : String :=
  " ".intercalate (l.map fun (a, b, h, lo, bn) => s!"{a}-{b}:{h},{lo},{bn}")

end SV.Shard
