/-
  SV.GenProofs.TxLists — tie BY TRANSLATION for the per-sender list walks of the mempool (C04, C07):
  one iteration of `findInsertionPlace` (translated as a decision: 0 = go on with the previous element, 1 = insert right
  after this element, 2 = errItemAlreadyInCache) and the loop exits of the two nonce-directed removals are proved to be the
  model's (`insertRev`, `dropLowerOrEqual`, `dropHigherRev`) for all arguments.  `SV/Generated/Funcs.lean` is regenerated
  from /repo's current source on every run.
-/
import SV.Generated.Funcs
import SV.TxCache.Model
import SV.CommonProofs
namespace SV.GenProofs
open SV SV.TxCache

theorem insertionStep_leaves :
    Gen.insertionStep_leaves = ["currentTx.Tx.GetGasPrice() : Int", "currentTx.Tx.GetNonce() : Int", "currentTx.TxHash : Bytes", "incomingTx.Tx.GetGasPrice() : Int", "incomingTx.Tx.GetNonce() : Int", "incomingTx.TxHash : Bytes"] := rfl

/-- the ways one iteration ends other than going on: found the place (code 1), duplicate (code 2) -/
theorem insertionStep_outcomes :
    Gen.insertionStep_outcomes = ["return element, nil", "return nil, errItemAlreadyInCache"] := rfl

theorem cmpBytes_eq_zero (a b : Bytes) : Gen.cmpBytes a b = 0 ↔ a = b := by
  unfold Gen.cmpBytes
  constructor
  · intro h
    cases h1 : bytesLt a b with
    | true => simp [h1] at h
    | false =>
      cases h2 : bytesLt b a with
      | true => simp [h1, h2] at h
      | false =>
        apply Classical.byContradiction
        intro hne
        rcases bytesLt_total a b hne with h3 | h3
        · rw [h1] at h3; exact Bool.noConfusion h3
        · rw [h2] at h3; exact Bool.noConfusion h3
  · intro h
    subst h
    simp [bytesLt_irrefl]

theorem cmpBytes_neg (a b : Bytes) : Gen.cmpBytes a b < 0 ↔ bytesLt a b = true := by
  unfold Gen.cmpBytes
  cases h1 : bytesLt a b with
  | true => simp
  | false => cases h2 : bytesLt b a <;> simp

/-- the model's sorted insertion (`insertRev`, the list reversed: the code walks from the back) takes, at each element,
    exactly the decision the source takes there -/
theorem insertRev_cons_eq_source (t c : Tx) (rest : List Tx) :
    insertRev t (c :: rest) =
      (if Gen.insertionStep (incomingTx_Tx_GetNonce := t.nonce) (incomingTx_Tx_GetGasPrice := t.gasPrice) (currentTx_Tx_GetNonce := c.nonce) (currentTx_Tx_GetGasPrice := c.gasPrice) (currentTx_TxHash := c.hash) (incomingTx_TxHash := t.hash) = 1 then some (t :: c :: rest)
       else if Gen.insertionStep (incomingTx_Tx_GetNonce := t.nonce) (incomingTx_Tx_GetGasPrice := t.gasPrice) (currentTx_Tx_GetNonce := c.nonce) (currentTx_Tx_GetGasPrice := c.gasPrice) (currentTx_TxHash := c.hash) (incomingTx_TxHash := t.hash) = 2 then none
       else (insertRev t rest).map (c :: ·)) := by
  have hz := cmpBytes_eq_zero c.hash t.hash
  have hn := cmpBytes_neg c.hash t.hash
  unfold Gen.insertionStep
  simp only [insertRev, gt_iff_lt, Int.natCast_inj, Int.ofNat_lt, decide_eq_true_eq]
  by_cases h1 : c.nonce = t.nonce
  · simp only [h1, if_true]
    by_cases h2 : t.gasPrice < c.gasPrice
    · simp [h2]
    · simp only [h2, if_false]
      by_cases h3 : c.gasPrice = t.gasPrice
      · simp only [h3, if_true]
        by_cases h4 : c.hash = t.hash
        · have h0 := hz.mpr h4
          rw [h4] at h0
          simp [h4, h0]
        · have h5 : ¬ Gen.cmpBytes c.hash t.hash = 0 := fun h => h4 (hz.mp h)
          simp only [h4, h5, if_false]
          by_cases h6 : bytesLt c.hash t.hash = true
          · have := hn.mpr h6
            simp [h6, this]
          · have h7 : ¬ Gen.cmpBytes c.hash t.hash < 0 := fun h => h6 (hn.mp h)
            simp [h6, h7]
      · simp [h3]
  · simp only [h1, if_false]
    by_cases h2 : c.nonce < t.nonce
    · simp [h2]
    · simp [h2]

theorem removeLowerStops_leaves : Gen.removeLowerStops_leaves = ["targetNonce : Int", "txNonce : Int"] := rfl
theorem removeHigherStops_leaves : Gen.removeHigherStops_leaves = ["givenNonce : Int", "txNonce : Int"] := rfl

/-- `removeTransactionsWithLowerOrEqualNonceReturnHashes` stops at the first nonce strictly above the target — the model's
    `dropLowerOrEqual` keeps the list from exactly that element on -/
theorem dropLowerOrEqual_cons_eq_source (n : Nat) (c : Tx) (rest : List Tx) :
    dropLowerOrEqual n (c :: rest) =
      (if Gen.removeLowerStops (txNonce := c.nonce) (targetNonce := n) = [true] then c :: rest else dropLowerOrEqual n rest) := by
  simp only [dropLowerOrEqual, Gen.removeLowerStops, gt_iff_lt, Int.ofNat_lt]
  by_cases h : n < c.nonce <;> simp [h]

/-- `removeTransactionsWithHigherOrEqualNonce` (eviction of a sender's suffix, walking from the back) stops at the first
    nonce strictly below the given one -/
theorem dropHigherRev_cons_eq_source (n : Nat) (c : Tx) (rest : List Tx) :
    dropHigherRev n (c :: rest) =
      (if Gen.removeHigherStops (txNonce := c.nonce) (givenNonce := n) = [true] then c :: rest else dropHigherRev n rest) := by
  simp only [dropHigherRev, Gen.removeHigherStops, Int.ofNat_lt]
  by_cases h : c.nonce < n <;> simp [h]

end SV.GenProofs
