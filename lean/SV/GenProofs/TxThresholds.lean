/-
  SV.GenProofs — the tie BY TRANSLATION: `SV/Generated/Funcs.lean` is regenerated on every run from /repo's current source
  by tools/extract (trans.go), which translates the pure leaf logic of the repository (comparators, threshold tests, gap and
  duplicate detectors, loop-exit, expiry and flush conditions) to Lean definitions over their LEAVES.  Each theorem below
  proves one generated definition equal to the corresponding expression of the hand-written model, for all arguments; the
  `*_leaves` theorems pin the operands the source reads.  A changed comparison, boundary, tie-break or operand in the
  source therefore breaks one of these obligations on the next run.

  Integers are mathematical here (conversions are identities): wrap-around is covered by the correspondence runs and, for
  the gas budget, by the hypothesis `acc ≤ gasReq` which the selection loop maintains (SelProofs.selectLoop_gas).
-/
import SV.Generated.Funcs
import SV.TxCache.Model
namespace SV.GenProofs
open SV

private theorem dec_natCast_lt (a b : Nat) : decide ((a : Int) < (b : Int)) = decide (a < b) := by
  simp [Int.ofNat_lt]
private theorem dec_natCast_le (a b : Nat) : decide ((a : Int) ≤ (b : Int)) = decide (a ≤ b) := by
  simp [Int.ofNat_le]

/-! ### mempool thresholds (C06, C07) -/

theorem poolExceeded_leaves :
    Gen.poolExceeded_leaves = ["cache.areThereTooManyBytes() : Bool", "cache.areThereTooManySenders() : Bool", "cache.areThereTooManyTxs() : Bool"] ∧
    Gen.tooManyBytes_leaves = ["cache.NumBytes() : Int", "cache.config.NumBytesThreshold : Int"] ∧
    Gen.tooManySenders_leaves = ["cache.CountSenders() : Int", "cache.config.CountThreshold : Int"] ∧
    Gen.tooManyTxs_leaves = ["cache.CountTx() : Int", "cache.config.CountThreshold : Int"] := ⟨rfl, rfl, rfl, rfl⟩

/-- `TxCache.isCapacityExceeded` is the model's `Pool.exceeded` (counters read through their clamped getters) -/
theorem poolExceeded_eq (p : TxCache.Pool) :
    p.exceeded =
      Gen.poolExceeded (cache_areThereTooManyBytes := (Gen.tooManyBytes (cache_NumBytes := (TxCache.clampNat p.numBytes)) (cache_config_NumBytesThreshold := p.cfg.numBytesThreshold))) (cache_areThereTooManySenders := (Gen.tooManySenders (cache_CountSenders := (TxCache.clampNat p.cntSenders)) (cache_config_CountThreshold := p.cfg.countThreshold))) (cache_areThereTooManyTxs := (Gen.tooManyTxs (cache_CountTx := (TxCache.clampNat p.cntTx)) (cache_config_CountThreshold := p.cfg.countThreshold))) := by
  simp only [TxCache.Pool.exceeded, Gen.poolExceeded, Gen.tooManyBytes, Gen.tooManySenders, Gen.tooManyTxs, gt_iff_lt,
    dec_natCast_lt]

theorem senderExceeded_leaves :
    Gen.senderExceeded_leaves = ["listForSender.constraints.maxNumBytes : Int", "listForSender.constraints.maxNumTxs : Int", "listForSender.countTx() : Int", "listForSender.totalBytes.Get() : Int"] := rfl

/-- `txListForSender.isCapacityExceeded` is the model's `senderExceeded` -/
theorem senderExceeded_eq (cfg : TxCache.Config) (l : List TxCache.Tx) :
    TxCache.senderExceeded cfg l =
      Gen.senderExceeded (listForSender_constraints_maxNumBytes := cfg.numBytesPerSender) (listForSender_constraints_maxNumTxs := cfg.countPerSender) (listForSender_totalBytes_Get := (TxCache.listBytes l)) (listForSender_countTx := l.length) := by
  simp only [TxCache.senderExceeded, Gen.senderExceeded, gt_iff_lt, dec_natCast_lt]

end SV.GenProofs
