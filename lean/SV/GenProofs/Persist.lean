/-
  SV.GenProofs — the tie BY TRANSLATION: `SV/Generated/Funcs.lean` is regenerated on every run from /repo's current source
  by tools/extract (trans.go), which translates the pure leaf logic of the repository (comparators, threshold tests, gap and
  duplicate detectors, loop-exit, expiry and flush conditions) to Lean definitions over their LEAVES.  Each theorem below
  proves one generated definition equal to the corresponding expression of the hand-written model, for all arguments; the
  `*_leaves` theorems pin the operands the source reads.  A changed comparison, boundary, tie-break or operand in the
  source therefore breaks one of these obligations on the next run.

  Integers are mathematical here (conversions are identities): wrap-around is covered by the correspondence runs and, for
  the gas budget, by the hypothesis `acc ≤ gasReq` which the selection loop maintains (SelProofs.selectLoop_gas).
-/
import SV.Generated.Funcs
import SV.Persist.Model
namespace SV.GenProofs
open SV

private theorem dec_natCast_lt (a b : Nat) : decide ((a : Int) < (b : Int)) = decide (a < b) := by
  simp [Int.ofNat_lt]
private theorem dec_natCast_le (a b : Nat) : decide ((a : Int) ≤ (b : Int)) = decide (a ≤ b) := by
  simp [Int.ofNat_le]

/-! ### batching persisters (C08, C10) -/

theorem noFlush_leaves :
    Gen.dbNoFlushNeeded_leaves = ["s.maxBatchSize : Int", "s.sizeBatch : Int"] ∧
    Gen.serialNoFlushNeeded_leaves = ["s.maxBatchSize : Int", "s.sizeBatch : Int"] := ⟨rfl, rfl⟩

/-- `updateBatchWithIncrement` of both persisters: after `sizeBatch++` the batch is flushed unless `sizeBatch < maxBatchSize` — the
    model's `P.bump` -/
theorem bump_eq (p : Persist.P) :
    p.bump = (if Gen.dbNoFlushNeeded (s_sizeBatch := p.sizeBatch) (s_maxBatchSize := p.maxBatch) then { p with sizeBatch := p.sizeBatch + 1 }
              else ({ p with sizeBatch := p.sizeBatch + 1 } : Persist.P).flush) ∧
    Gen.serialNoFlushNeeded (s_sizeBatch := p.sizeBatch) (s_maxBatchSize := p.maxBatch) = Gen.dbNoFlushNeeded (s_sizeBatch := p.sizeBatch) (s_maxBatchSize := p.maxBatch) := by
  refine ⟨?_, rfl⟩
  unfold Persist.P.bump Gen.dbNoFlushNeeded
  have : (decide (((p.sizeBatch : Int) + 1) < (p.maxBatch : Int))) = decide (p.sizeBatch + 1 < p.maxBatch) := by
    apply decide_eq_decide.mpr; omega
  simp only [this, decide_eq_true_eq]



end SV.GenProofs
