/-
  SV.GenProofs — the tie BY TRANSLATION: `SV/Generated/Funcs.lean` is regenerated on every run from /repo's current source
  by tools/extract (trans.go), which translates the pure leaf logic of the repository (comparators, threshold tests, gap and
  duplicate detectors, loop-exit, expiry and flush conditions) to Lean definitions over their LEAVES.  Each theorem below
  proves one generated definition equal to the corresponding expression of the hand-written model, for all arguments; the
  `*_leaves` theorems pin the operands the source reads.  A changed comparison, boundary, tie-break or operand in the
  source therefore breaks one of these obligations on the next run.

  Integers are mathematical here (conversions are identities): wrap-around is covered by the correspondence runs and, for
  the gas budget, by the hypothesis `acc ≤ gasReq` which the selection loop maintains (SelProofs.selectLoop_gas).
-/
import SV.Generated.Funcs
import SV.TxCache.Model
namespace SV.GenProofs
open SV

private theorem dec_natCast_lt (a b : Nat) : decide ((a : Int) < (b : Int)) = decide (a < b) := by
  simp [Int.ofNat_lt]
private theorem dec_natCast_le (a b : Nat) : decide ((a : Int) ≤ (b : Int)) = decide (a ≤ b) := by
  simp [Int.ofNat_le]

/-! ### the comparator (C03, C07) -/

theorem moreValuable_leaves :
    Gen.moreValuable_leaves = ["wrappedTx.PricePerUnit : Int", "otherTransaction.PricePerUnit : Int", "wrappedTx.Tx.GetGasLimit() : Int",
      "otherTransaction.Tx.GetGasLimit() : Int", "wrappedTx.TxHash : Bytes", "otherTransaction.TxHash : Bytes",
      "wrappedTx.computeExactPricePerUnit() : Int", "otherTransaction.computeExactPricePerUnit() : Int"] := rfl

/-- the saturating 64-bit field `PricePerUnit` -/
def sat64 (n : Nat) : Int := if n < 18446744073709551615 then (n : Int) else 18446744073709551615

theorem cmpBytes_lt (a b : Bytes) : decide (Gen.cmpBytes a b < 0) = bytesLt a b := by
  unfold Gen.cmpBytes
  cases h : bytesLt a b with
  | true => simp
  | false => cases h2 : bytesLt b a <;> simp

/-- `isTransactionMoreValuableForNetwork` — comparing the saturated 64-bit fields first and the exact quotients only when
    both are saturated — IS the model's comparator on the exact (unbounded) price per unit: PPU ↓, gas limit ↓, hash ↑ -/
theorem moreValuable_eq (a b : TxCache.Tx) :
    TxCache.moreValuable TxCache.Variant.current a b =
      Gen.moreValuable (sat64 (a.ppu TxCache.Variant.current)) (sat64 (b.ppu TxCache.Variant.current))
        a.gasLimit b.gasLimit a.hash b.hash (a.ppu TxCache.Variant.current) (b.ppu TxCache.Variant.current) := by
  have hgl : (decide ((a.gasLimit : Int) ≠ (b.gasLimit : Int))) = decide (a.gasLimit ≠ b.gasLimit) := by
    apply decide_eq_decide.mpr; omega
  have hgl2 : (decide ((a.gasLimit : Int) > (b.gasLimit : Int))) = decide (a.gasLimit > b.gasLimit) := by
    apply decide_eq_decide.mpr; omega
  unfold TxCache.moreValuable Gen.moreValuable
  simp only [cmpBytes_lt, hgl, hgl2]
  generalize a.ppu TxCache.Variant.current = x
  generalize b.ppu TxCache.Variant.current = y
  by_cases hxy : x = y
  · subst hxy
    simp [Gen.cmpInt]
  · have hne : (x : Int) ≠ (y : Int) := by omega
    by_cases hx : x < 18446744073709551615 <;> by_cases hy : y < 18446744073709551615 <;>
      simp only [sat64, hx, hy, ↓reduceIte, hxy, ne_eq, not_false_eq_true, decide_true, decide_not, Gen.cmpInt]
    all_goals
      simp only [Bool.not_eq_true', decide_eq_true_eq, decide_eq_false_iff_not, Bool.not_true, Bool.false_eq_true, ↓reduceIte]
      repeat' split
    all_goals first
      | (apply decide_eq_decide.mpr; omega)
      | (exfalso; omega)
      | (exfalso; simp_all; done)
      | (exfalso; simp_all; omega)


end SV.GenProofs
