/-
  SV.GenProofs — the tie BY TRANSLATION: `SV/Generated/Funcs.lean` is regenerated on every run from /repo's current source
  by tools/extract (trans.go), which translates the pure leaf logic of the repository (comparators, threshold tests, gap and
  duplicate detectors, loop-exit, expiry and flush conditions) to Lean definitions over their LEAVES.  Each theorem below
  proves one generated definition equal to the corresponding expression of the hand-written model, for all arguments; the
  `*_leaves` theorems pin the operands the source reads.  A changed comparison, boundary, tie-break or operand in the
  source therefore breaks one of these obligations on the next run.

  Integers are mathematical here (conversions are identities): wrap-around is covered by the correspondence runs and, for
  the gas budget, by the hypothesis `acc ≤ gasReq` which the selection loop maintains (SelProofs.selectLoop_gas).
-/
import SV.Generated.Funcs
import SV.TxCache.Model
namespace SV.GenProofs
open SV

private theorem dec_natCast_lt (a b : Nat) : decide ((a : Int) < (b : Int)) = decide (a < b) := by
  simp [Int.ofNat_lt]
private theorem dec_natCast_le (a b : Nat) : decide ((a : Int) ≤ (b : Int)) = decide (a ≤ b) := by
  simp [Int.ofNat_le]

/-! ### the comparator (C03, C07) -/

theorem moreValuable_leaves :
    Gen.moreValuable_leaves = ["otherTransaction.PricePerUnit : Int", "otherTransaction.Tx.GetGasLimit() : Int", "otherTransaction.TxHash : Bytes", "otherTransaction.computeExactPricePerUnit() : Int", "wrappedTx.PricePerUnit : Int", "wrappedTx.Tx.GetGasLimit() : Int", "wrappedTx.TxHash : Bytes", "wrappedTx.computeExactPricePerUnit() : Int"] := rfl

/-- the saturating 64-bit field `PricePerUnit` -/
def sat64 (n : Nat) : Int := if n < 18446744073709551615 then (n : Int) else 18446744073709551615

theorem cmpBytes_lt (a b : Bytes) : decide (Gen.cmpBytes a b < 0) = bytesLt a b := by
  unfold Gen.cmpBytes
  cases h : bytesLt a b with
  | true => simp
  | false => cases h2 : bytesLt b a <;> simp

/-- `isTransactionMoreValuableForNetwork` — comparing the saturated 64-bit fields first and the exact quotients only when
    both are saturated — IS the model's comparator on the exact (unbounded) price per unit: PPU ↓, gas limit ↓, hash ↑ -/
theorem moreValuable_eq (a b : TxCache.Tx) :
    TxCache.moreValuable TxCache.Variant.current a b =
      Gen.moreValuable (wrappedTx_PricePerUnit := (sat64 (a.ppu TxCache.Variant.current))) (otherTransaction_PricePerUnit := (sat64 (b.ppu TxCache.Variant.current))) (wrappedTx_Tx_GetGasLimit := a.gasLimit) (otherTransaction_Tx_GetGasLimit := b.gasLimit) (wrappedTx_TxHash := a.hash) (otherTransaction_TxHash := b.hash) (wrappedTx_computeExactPricePerUnit := (a.ppu TxCache.Variant.current)) (otherTransaction_computeExactPricePerUnit := (b.ppu TxCache.Variant.current)) := by
  have hgl : (decide ((a.gasLimit : Int) ≠ (b.gasLimit : Int))) = decide (a.gasLimit ≠ b.gasLimit) := by
    apply decide_eq_decide.mpr; omega
  have hgl2 : (decide ((a.gasLimit : Int) > (b.gasLimit : Int))) = decide (a.gasLimit > b.gasLimit) := by
    apply decide_eq_decide.mpr; omega
  unfold TxCache.moreValuable Gen.moreValuable
  simp only [cmpBytes_lt, hgl, hgl2]
  generalize a.ppu TxCache.Variant.current = x
  generalize b.ppu TxCache.Variant.current = y
  by_cases hxy : x = y
  · subst hxy
    simp [Gen.cmpInt]
  · have hne : (x : Int) ≠ (y : Int) := by omega
    by_cases hx : x < 18446744073709551615 <;> by_cases hy : y < 18446744073709551615 <;>
      simp only [sat64, hx, hy, ↓reduceIte, hxy, ne_eq, not_false_eq_true, decide_true, decide_not, Gen.cmpInt]
    all_goals
      simp only [Bool.not_eq_true', decide_eq_true_eq, decide_eq_false_iff_not, Bool.not_true, Bool.false_eq_true, ↓reduceIte]
      repeat' split
    all_goals first
      | (apply decide_eq_decide.mpr; omega)
      | (exfalso; omega)
      | (exfalso; simp_all; done)
      | (exfalso; simp_all; omega)


/-! ### the price per gas unit itself (C03: "floor(fee / gasLimit) for every fee the host can return") -/

theorem pricePerUnit_leaves : Gen.pricePerUnit_leaves = ["fee : Int", "gasLimit : Int"] := rfl

/-- `computePricePerUnit` (math/big code path included) returns the exact quotient ⌊fee / gasLimit⌋ saturated at 2^64 − 1 — the
    64-bit field the comparator reads first; together with `moreValuable_eq` (exact quotients compared when saturated) the
    ordering is by the exact, unbounded price per unit -/
theorem pricePerUnit_eq (t : TxCache.Tx) (hg : t.gasLimit ≠ 0) :
    Gen.pricePerUnit (fee := t.fee) (gasLimit := t.gasLimit) = sat64 (t.ppu TxCache.Variant.current) := by
  have hp : t.ppu TxCache.Variant.current = t.fee / t.gasLimit := by
    unfold TxCache.Tx.ppu; simp [TxCache.Variant.current, hg]
  rw [hp]
  have hq : ((t.fee : Int) / (t.gasLimit : Int)) = ((t.fee / t.gasLimit : Nat) : Int) := (Int.natCast_ediv _ _).symm
  generalize hqq : t.fee / t.gasLimit = q at hq
  unfold Gen.pricePerUnit Gen.cmpInt sat64
  by_cases hf : t.fee < 18446744073709551616
  · have h1 : (decide ((0 : Int) ≤ (t.fee : Int)) && decide ((t.fee : Int) < 18446744073709551616)) = true := by
      simp only [Bool.and_eq_true, decide_eq_true_eq]; omega
    have hmod : (t.fee : Int) % 18446744073709551616 = (t.fee : Int) := Int.emod_eq_of_lt (by omega) (by omega)
    rw [if_pos h1, hmod, hq]
    have hql : q ≤ t.fee := by rw [← hqq]; exact Nat.div_le_self _ _
    split <;> omega
  · have h1 : (decide ((0 : Int) ≤ (t.fee : Int)) && decide ((t.fee : Int) < 18446744073709551616)) = false := by
      simp only [Bool.and_eq_false_iff, decide_eq_false_iff_not]; right; omega
    have h2 : ¬ (decide ((if (t.fee : Int) < 0 then (-1 : Int) else if (0 : Int) < (t.fee : Int) then 1 else 0) < 0) = true) := by
      simp only [decide_eq_true_eq]
      have : (0 : Int) < (t.fee : Int) := by omega
      rw [if_neg (by omega), if_pos this]; omega
    rw [if_neg (by rw [h1]; exact Bool.false_ne_true), if_neg h2]
    dsimp only
    rw [hq]
    by_cases hq64 : q < 18446744073709551616
    · have h3 : (decide ((0 : Int) ≤ (q : Int)) && decide ((q : Int) < 18446744073709551616)) = true := by
        simp only [Bool.and_eq_true, decide_eq_true_eq]; omega
      have hmod : (q : Int) % 18446744073709551616 = (q : Int) := Int.emod_eq_of_lt (by omega) (by omega)
      rw [if_pos h3, hmod]
      split <;> omega
    · have h3 : (decide ((0 : Int) ≤ (q : Int)) && decide ((q : Int) < 18446744073709551616)) = false := by
        simp only [Bool.and_eq_false_iff, decide_eq_false_iff_not]; right; omega
      rw [if_neg (by rw [h3]; exact Bool.false_ne_true)]
      split <;> omega

/-- a gas limit of 0 leaves the field at its zero value (`precomputeFields` does not call `computePricePerUnit`), which is the
    model's `ppu = 0` -/
theorem ppu_zero_gas (t : TxCache.Tx) (hg : t.gasLimit = 0) : t.ppu TxCache.Variant.current = 0 := by
  unfold TxCache.Tx.ppu; simp [hg]

end SV.GenProofs
