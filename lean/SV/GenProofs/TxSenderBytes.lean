/-
  SV.GenProofs.TxSenderBytes — the per-sender byte counter (`txListForSender.totalBytes`, an atomic counter): the two statements
  of the source that change it (`onAddedTransaction`, `onRemovedListElement`) are translated on every run (mode `effect`) and
  are the updates of the transcribed per-sender list (SV/TxCache/GoList.lean), whose coherence with the list content
  (`SWF`: totalBytes = Σ sizes) is proved there for every operation.
-/
import SV.Generated.Funcs
import SV.TxCache.GoList
namespace SV.GenProofs
open SV SV.TxCache SV.TxCache.GoList

theorem senderBytes_leaves :
    Gen.senderBytesAfterAdd_leaves = ["listForSender.totalBytes : Int", "tx.Size : Int"] ∧
    Gen.senderBytesAfterRemove_leaves = ["listForSender.totalBytes : Int", "tx.Size : Int"] := ⟨rfl, rfl⟩

/-- a successful insertion (`AddTx` up to `onAddedTransaction`) moves the counter exactly as the source does -/
theorem senderBytes_insert (s s' : SenderList) (t : Tx) (h : s.insert t = (s', true)) :
    s'.totalBytes = Gen.senderBytesAfterAdd (listForSender_totalBytes := s.totalBytes) (tx_Size := (t.size : Int)) := by
  unfold SenderList.insert at h
  split at h
  · simp at h
  · simp only [Prod.mk.injEq, and_true] at h; subst h; rfl
  · simp only [Prod.mk.injEq, and_true] at h; subst h; rfl

/-- a rejected insertion (duplicate) leaves the counter alone -/
theorem senderBytes_insert_rejected (s s' : SenderList) (t : Tx) (h : s.insert t = (s', false)) : s'.totalBytes = s.totalBytes := by
  unfold SenderList.insert at h
  split at h
  · simp only [Prod.mk.injEq, and_true] at h; subst h; rfl
  · simp at h
  · simp at h

/-- every removal (`onRemovedListElement`) subtracts the size of the removed transaction -/
theorem senderBytes_remove (b sz : Int) : b - sz = Gen.senderBytesAfterRemove (listForSender_totalBytes := b) (tx_Size := sz) := rfl

end SV.GenProofs
