/-
  SV.GenProofs — the tie BY TRANSLATION: `SV/Generated/Funcs.lean` is regenerated on every run from /repo's current source
  by tools/extract (trans.go), which translates the pure leaf logic of the repository (comparators, threshold tests, gap and
  duplicate detectors, loop-exit, expiry and flush conditions) to Lean definitions over their LEAVES.  Each theorem below
  proves one generated definition equal to the corresponding expression of the hand-written model, for all arguments; the
  `*_leaves` theorems pin the operands the source reads.  A changed comparison, boundary, tie-break or operand in the
  source therefore breaks one of these obligations on the next run.

  Integers are mathematical here (conversions are identities): wrap-around is covered by the correspondence runs and, for
  the gas budget, by the hypothesis `acc ≤ gasReq` which the selection loop maintains (SelProofs.selectLoop_gas).
-/
import SV.Generated.Funcs
import SV.LRU.Model
namespace SV.GenProofs
open SV

private theorem dec_natCast_lt (a b : Nat) : decide ((a : Int) < (b : Int)) = decide (a < b) := by
  simp [Int.ofNat_lt]
private theorem dec_natCast_le (a b : Nat) : decide ((a : Int) ≤ (b : Int)) = decide (a ≤ b) := by
  simp [Int.ofNat_le]

/-! ### capacity LRU (C15, C17) -/

theorem lruShouldEvict_leaves :
    Gen.lruShouldEvict_leaves = ["c.currentCapacityInBytes : Int", "c.evictList.Len() : Int", "c.maxCapacityInBytes : Int", "c.size : Int"] := rfl

/-- `capacityLRU.shouldEvict` is the model's `Cap.shouldEvict` -/
theorem lruShouldEvict_eq (c : LRU.Cap) :
    c.shouldEvict = Gen.lruShouldEvict (c_evictList_Len := c.entries.length) (c_size := c.cap) (c_currentCapacityInBytes := c.bytes) (c_maxCapacityInBytes := c.maxBytes) := by
  unfold LRU.Cap.shouldEvict Gen.lruShouldEvict
  by_cases h : c.entries.length = 1
  · simp [h]
  · have h' : ¬ ((c.entries.length : Int) = 1) := by omega
    simp only [h, h', ↓reduceIte, decide_false, Bool.false_eq_true, gt_iff_lt, dec_natCast_lt]


/-! ### the byte counter of the size-bounded LRU (`currentCapacityInBytes`): every statement of the source that changes it is
    translated (mode `effect`) and is the model's update -/

theorem lruBytes_leaves :
    Gen.lruBytesAfterAdd_leaves = ["c.currentCapacityInBytes : Int", "sizeInBytes : Int"] ∧
    Gen.lruBytesAfterRemove_leaves = ["c.currentCapacityInBytes : Int", "kv.size : Int"] ∧
    Gen.lruBytesAfterResize_leaves = ["c.currentCapacityInBytes : Int", "sizeInBytes : Int", "v.size : Int"] := ⟨rfl, rfl, rfl⟩

/-- `addNew`: the counter grows by the declared size -/
theorem lruBytes_addNew (c : LRU.Cap) (k v : Bytes) (size : Int) :
    (c.addNew k v size).bytes = Gen.lruBytesAfterAdd (c_currentCapacityInBytes := c.bytes) (sizeInBytes := size) := rfl

/-- `removeElement` (eviction of the oldest entry and `Remove`): the counter shrinks by the size stored with the entry -/
theorem lruBytes_removeOldest (c : LRU.Cap) (e : LRU.Entry) (h : c.entries.getLast? = some e) :
    c.removeOldest.1.bytes = Gen.lruBytesAfterRemove (c_currentCapacityInBytes := c.bytes) (kv_size := e.size) := by
  simp only [LRU.Cap.removeOldest, h, Gen.lruBytesAfterRemove]
theorem lruBytes_remove (c : LRU.Cap) (k : Bytes) (e : LRU.Entry) (h : c.find k = some e) :
    (c.remove k).1.bytes = Gen.lruBytesAfterRemove (c_currentCapacityInBytes := c.bytes) (kv_size := e.size) := by
  simp only [LRU.Cap.remove, h, Gen.lruBytesAfterRemove]

/-- `adjustSize` run on an entry whose stored size is `stored`: the counter loses the stored size and gains the new one.  In
    `update` the source first adds `size − old` and stores `size`, then runs `adjustSize` (stored = size, a net zero): together
    the model's `bytes + (size − old.size)` -/
theorem lruBytes_update_eq_source (bytes size old : Int) :
    bytes + (size - old) =
      Gen.lruBytesAfterResize (c_currentCapacityInBytes := bytes + (size - old)) (v_size := size) (sizeInBytes := size) ∧
    bytes + (size - old) = Gen.lruBytesAfterResize (c_currentCapacityInBytes := bytes) (v_size := old) (sizeInBytes := size) := by
  simp only [Gen.lruBytesAfterResize]; omega

end SV.GenProofs
