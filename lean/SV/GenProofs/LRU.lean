/-
  SV.GenProofs — the tie BY TRANSLATION: `SV/Generated/Funcs.lean` is regenerated on every run from /repo's current source
  by tools/extract (trans.go), which translates the pure leaf logic of the repository (comparators, threshold tests, gap and
  duplicate detectors, loop-exit, expiry and flush conditions) to Lean definitions over their LEAVES.  Each theorem below
  proves one generated definition equal to the corresponding expression of the hand-written model, for all arguments; the
  `*_leaves` theorems pin the operands the source reads.  A changed comparison, boundary, tie-break or operand in the
  source therefore breaks one of these obligations on the next run.

  Integers are mathematical here (conversions are identities): wrap-around is covered by the correspondence runs and, for
  the gas budget, by the hypothesis `acc ≤ gasReq` which the selection loop maintains (SelProofs.selectLoop_gas).
-/
import SV.Generated.Funcs
import SV.LRU.Model
namespace SV.GenProofs
open SV

private theorem dec_natCast_lt (a b : Nat) : decide ((a : Int) < (b : Int)) = decide (a < b) := by
  simp [Int.ofNat_lt]
private theorem dec_natCast_le (a b : Nat) : decide ((a : Int) ≤ (b : Int)) = decide (a ≤ b) := by
  simp [Int.ofNat_le]

/-! ### capacity LRU (C15, C17) -/

theorem lruShouldEvict_leaves :
    Gen.lruShouldEvict_leaves = ["c.currentCapacityInBytes : Int", "c.evictList.Len() : Int", "c.maxCapacityInBytes : Int", "c.size : Int"] := rfl

/-- `capacityLRU.shouldEvict` is the model's `Cap.shouldEvict` -/
theorem lruShouldEvict_eq (c : LRU.Cap) :
    c.shouldEvict = Gen.lruShouldEvict (c_evictList_Len := c.entries.length) (c_size := c.cap) (c_currentCapacityInBytes := c.bytes) (c_maxCapacityInBytes := c.maxBytes) := by
  unfold LRU.Cap.shouldEvict Gen.lruShouldEvict
  by_cases h : c.entries.length = 1
  · simp [h]
  · have h' : ¬ ((c.entries.length : Int) = 1) := by omega
    simp only [h, h', ↓reduceIte, decide_false, Bool.false_eq_true, gt_iff_lt, dec_natCast_lt]


end SV.GenProofs
