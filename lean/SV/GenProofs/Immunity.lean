/-
  SV.GenProofs — the tie BY TRANSLATION: `SV/Generated/Funcs.lean` is regenerated on every run from /repo's current source
  by tools/extract (trans.go), which translates the pure leaf logic of the repository (comparators, threshold tests, gap and
  duplicate detectors, loop-exit, expiry and flush conditions) to Lean definitions over their LEAVES.  Each theorem below
  proves one generated definition equal to the corresponding expression of the hand-written model, for all arguments; the
  `*_leaves` theorems pin the operands the source reads.  A changed comparison, boundary, tie-break or operand in the
  source therefore breaks one of these obligations on the next run.

  Integers are mathematical here (conversions are identities): wrap-around is covered by the correspondence runs and, for
  the gas budget, by the hypothesis `acc ≤ gasReq` which the selection loop maintains (SelProofs.selectLoop_gas).
-/
import SV.Generated.Funcs
import SV.Immunity.Model
namespace SV.GenProofs
open SV

private theorem dec_natCast_lt (a b : Nat) : decide ((a : Int) < (b : Int)) = decide (a < b) := by
  simp [Int.ofNat_lt]
private theorem dec_natCast_le (a b : Nat) : decide ((a : Int) ≤ (b : Int)) = decide (a ≤ b) := by
  simp [Int.ofNat_le]

/-! ### immunity cache (C12, C13) -/

theorem chunk_leaves :
    Gen.chunkExceeded_leaves = ["chunk.config.maxNumBytes : Int", "chunk.config.maxNumItems : Int", "chunk.numBytes : Int", "len(chunk.items) : Int"] ∧
    Gen.chunkMaxNumItems_leaves = ["config.MaxNumItems : Int", "config.NumChunks : Int"] ∧
    Gen.chunkMaxNumBytes_leaves = ["config.MaxNumBytes : Int", "config.NumChunks : Int"] ∧
    Gen.chunkNumItemsToEvict_leaves = ["config.NumChunks : Int", "config.NumItemsToPreemptivelyEvict : Int"] := ⟨rfl, rfl, rfl, rfl⟩

/-- `immunityChunk.isCapacityExceededNoLock` is the model's `Chunk.exceeded` (capacity REACHED, not exceeded: `≥`) -/
theorem chunkExceeded_eq (cfg : Immunity.ChunkCfg) (c : Immunity.Chunk) :
    c.exceeded cfg = Gen.chunkExceeded (len_chunk_items := c.items.length) (chunk_config_maxNumItems := cfg.maxNumItems) (chunk_numBytes := c.numBytes) (chunk_config_maxNumBytes := cfg.maxNumBytes) := by
  simp only [Immunity.Chunk.exceeded, Gen.chunkExceeded, ge_iff_le, dec_natCast_le]

/-- `CacheConfig.getChunkConfig`: every per-chunk limit is the cache limit divided (rounding down) by max(NumChunks, 1) -/
theorem chunkCfg_eq (c : Immunity.Config) :
    ((c.chunkCfg.maxNumItems : Nat) : Int) = Gen.chunkMaxNumItems (config_NumChunks := c.numChunks) (config_MaxNumItems := c.maxNumItems) ∧
    ((c.chunkCfg.maxNumBytes : Nat) : Int) = Gen.chunkMaxNumBytes (config_NumChunks := c.numChunks) (config_MaxNumBytes := c.maxNumBytes) ∧
    ((c.chunkCfg.numToEvict : Nat) : Int) = Gen.chunkNumItemsToEvict (config_NumChunks := c.numChunks) (config_NumItemsToPreemptivelyEvict := c.numItemsToEvict) := by
  have hmax : ((max c.numChunks 1 : Nat) : Int) = max (c.numChunks : Int) 1 := by omega
  refine ⟨?_, ?_, ?_⟩ <;>
    simp only [Immunity.Config.chunkCfg, Gen.chunkMaxNumItems, Gen.chunkMaxNumBytes, Gen.chunkNumItemsToEvict, Int.natCast_ediv, hmax]


/-! ### the byte counter of an immunity chunk (`numBytes`) -/

theorem chunkBytes_leaves :
    Gen.chunkBytesAfterAdd_leaves = ["chunk.numBytes : Int", "item.size : Int"] ∧
    Gen.chunkBytesAfterRemove_leaves = ["chunk.numBytes : Int", "item.size : Int"] := ⟨rfl, rfl⟩

/-- `trackNumBytesOnRemoveNoLock`, folded over the items an eviction removes, is the model's `subBytes` (clamped at 0 after
    EACH item, as in the source) -/
theorem subBytes_eq_source (b : Int) (removed : List Immunity.Item) :
    Immunity.subBytes b removed =
      removed.foldl (fun b it => Gen.chunkBytesAfterRemove (chunk_numBytes := b) (item_size := it.size)) b := rfl

/-- `RemoveItem` of a resident item: the model's counter is the source's -/
theorem chunkBytes_removeItem (c : Immunity.Chunk) (k : Bytes) (it : Immunity.Item) (h : c.get k = some it) :
    (c.removeItem k).1.numBytes = Gen.chunkBytesAfterRemove (chunk_numBytes := c.numBytes) (item_size := it.size) := by
  simp only [Immunity.Chunk.removeItem, h, Gen.chunkBytesAfterRemove]

/-- `trackNumBytesOnAddNoLock`: an insertion adds the declared size (the expression the model's `addItem` uses) -/
theorem chunkBytes_add (b size : Int) : b + size = Gen.chunkBytesAfterAdd (chunk_numBytes := b) (item_size := size) := rfl

end SV.GenProofs
