/-
  SV.GenProofs — the tie BY TRANSLATION: `SV/Generated/Funcs.lean` is regenerated on every run from /repo's current source
  by tools/extract (trans.go), which translates the pure leaf logic of the repository (comparators, threshold tests, gap and
  duplicate detectors, loop-exit, expiry and flush conditions) to Lean definitions over their LEAVES.  Each theorem below
  proves one generated definition equal to the corresponding expression of the hand-written model, for all arguments; the
  `*_leaves` theorems pin the operands the source reads.  A changed comparison, boundary, tie-break or operand in the
  source therefore breaks one of these obligations on the next run.

  Integers are mathematical here (conversions are identities): wrap-around is covered by the correspondence runs and, for
  the gas budget, by the hypothesis `acc ≤ gasReq` which the selection loop maintains (SelProofs.selectLoop_gas).
-/
import SV.Generated.Funcs
import SV.TxCache.Model
namespace SV.GenProofs
open SV

private theorem dec_natCast_lt (a b : Nat) : decide ((a : Int) < (b : Int)) = decide (a < b) := by
  simp [Int.ofNat_lt]
private theorem dec_natCast_le (a b : Nat) : decide ((a : Int) ≤ (b : Int)) = decide (a ≤ b) := by
  simp [Int.ofNat_le]

/-! ### selection: hazards and loop exits (C01, C02, C03) -/

theorem detector_leaves :
    Gen.initialGap_leaves = ["item.currentTransactionNonce : Int", "item.latestSelectedTransaction == nil : Bool", "senderNonce : Int"] ∧
    Gen.middleGap_leaves = ["item.currentTransactionNonce : Int", "item.latestSelectedTransaction == nil : Bool", "item.latestSelectedTransactionNonce : Int"] ∧
    Gen.lowerNonce_leaves = ["item.currentTransactionNonce : Int", "senderNonce : Int"] ∧
    Gen.nonceDuplicate_leaves = ["item.currentTransactionNonce : Int", "item.latestSelectedTransaction == nil : Bool", "item.latestSelectedTransactionNonce : Int"] :=
  ⟨rfl, rfl, rfl, rfl⟩

/-- the four nonce tests of `classify` are `detectInitialGap`, `detectMiddleGap`, `detectLowerNonce`, `detectNonceDuplicate` -/
theorem initialGap_eq (latest : Option Nat) (cur n : Nat) :
    (latest.isNone && decide (cur > n)) = Gen.initialGap (item_latestSelectedTransaction_nil := latest.isNone) (item_currentTransactionNonce := cur) (senderNonce := n) := by
  cases latest <;> simp [Gen.initialGap]
theorem middleGap_eq (latest : Option Nat) (cur : Nat) :
    (match latest with | some l => decide (cur > l + 1) | none => false) = Gen.middleGap (item_latestSelectedTransaction_nil := latest.isNone) (item_currentTransactionNonce := cur) (item_latestSelectedTransactionNonce := (latest.getD 0 : Nat)) := by
  cases latest with
  | none => simp [Gen.middleGap]
  | some l =>
    simp only [Gen.middleGap, Option.isNone_some, Option.getD_some, Bool.false_eq_true, ↓reduceIte, gt_iff_lt]
    have : ((l : Int) + (1 : Int)) = ((l + 1 : Nat) : Int) := by simp
    rw [this, dec_natCast_lt]
theorem lowerNonce_eq (cur n : Nat) : decide (cur < n) = Gen.lowerNonce (item_currentTransactionNonce := cur) (senderNonce := n) := by
  simp [Gen.lowerNonce]
theorem nonceDuplicate_eq (latest : Option Nat) (cur : Nat) :
    (match latest with | some l => decide (cur = l) | none => false) = Gen.nonceDuplicate (item_latestSelectedTransaction_nil := latest.isNone) (item_currentTransactionNonce := cur) (item_latestSelectedTransactionNonce := (latest.getD 0 : Nat)) := by
  cases latest with
  | none => simp [Gen.nonceDuplicate]
  | some l =>
    simp only [Gen.nonceDuplicate, Option.isNone_some, Option.getD_some, Bool.false_eq_true, ↓reduceIte]
    apply decide_eq_decide.mpr; omega

theorem feeExceedsBalance_leaves :
    Gen.feeExceedsBalance_leaves = ["fee == nil : Bool", "feePayerRecord.consumedBalance : Int", "feePayerRecord.initialBalance : Int", "sessionWrapper.getAccountRecord(feePayer) : Int", "tx.Fee : Int", "tx.FeePayer : Int"] := rfl

/-- `detectWillFeeExceedBalance` (math/big): the FEE PAYER's consumed balance plus this fee exceeds its initial balance —
    strictly, on unbounded integers; the record consulted is `getAccountRecord(tx.FeePayer)` (pinned by the leaves) -/
theorem feeExceedsBalance_eq (consumed fee balance : Nat) (d1 d2 : Int) :
    decide (consumed + fee > balance) = Gen.feeExceedsBalance (tx_Fee := fee) (fee_nil := false) (tx_FeePayer := d1) (sessionWrapper_getAccountRecord_feePayer := d2) (feePayerRecord_consumedBalance := consumed) (feePayerRecord_initialBalance := balance) := by
  unfold Gen.feeExceedsBalance Gen.cmpInt
  simp only [Bool.false_eq_true, ↓reduceIte]
  apply decide_eq_decide.mpr
  constructor
  · intro h
    rw [if_neg (by omega), if_pos (by omega)]; omega
  · intro h
    split at h
    · omega
    · split at h <;> omega

/-- `classify` written with the generated detectors (so: the model's classification IS the code's sequence of tests) -/
theorem classify_uses_generated_detectors (s : TxCache.Session) (consumed : Bytes → Nat) (it : TxCache.HItem) :
    TxCache.classify s consumed it =
      (if Gen.initialGap (item_latestSelectedTransaction_nil := it.latest.isNone) (item_currentTransactionNonce := it.cur.nonce) (senderNonce := (s.nonce it.cur.sender)) then .dropSender
       else if Gen.middleGap (item_latestSelectedTransaction_nil := it.latest.isNone) (item_currentTransactionNonce := it.cur.nonce) (item_latestSelectedTransactionNonce := (it.latest.getD 0 : Nat)) then .dropSender
       else if Gen.feeExceedsBalance (tx_Fee := it.cur.fee) (fee_nil := false) (tx_FeePayer := 0) (sessionWrapper_getAccountRecord_feePayer := 0) (feePayerRecord_consumedBalance := (consumed it.cur.payer)) (feePayerRecord_initialBalance := (s.balance it.cur.payer)) then .dropSender
       else if Gen.lowerNonce (item_currentTransactionNonce := it.cur.nonce) (senderNonce := (s.nonce it.cur.sender)) then .skipTx
       else if s.badGuard it.cur then .skipTx
       else if Gen.nonceDuplicate (item_latestSelectedTransaction_nil := it.latest.isNone) (item_currentTransactionNonce := it.cur.nonce) (item_latestSelectedTransactionNonce := (it.latest.getD 0 : Nat)) then .skipTx
       else .take) := by
  unfold TxCache.classify
  dsimp only
  rw [← initialGap_eq, ← middleGap_eq, ← lowerNonce_eq, ← nonceDuplicate_eq, ← feeExceedsBalance_eq]
  rfl

theorem selectionStops_leaves :
    Gen.selectionStops_leaves = ["accumulatedGas : Int", "gasLimit : Int", "gasRequested : Int", "len(selectedTransactions) : Int", "maxNum : Int", "selectionLoopDurationCheckInterval : Int", "selectionLoopMaximumDuration : Int", "time.Since(selectionLoopStartTime) : Int"] := rfl

/-- the three `break` conditions of the selection loop, in source order, are the three stops of `selectLoop`
    (gas budget — in the repaired, non-wrapping form, valid because the loop keeps `acc ≤ gasReq` —, count budget, time budget
    consulted every `interval` selections; the stop oracle stands for `time.Since(start) > maximumDuration`) -/
theorem selectionStops_eq (gasLimit gasReq acc len maxNum interval : Nat) (since maxDur : Int) :
    Gen.selectionStops (gasLimit := gasLimit) (gasRequested := gasReq) (accumulatedGas := acc) (len_selectedTransactions := len) (maxNum := maxNum) (selectionLoopDurationCheckInterval := interval) (time_Since_selectionLoopStartTime := since) (selectionLoopMaximumDuration := maxDur) =
      [TxCache.gasExceeded TxCache.Variant.current acc gasLimit gasReq, decide (len ≥ maxNum),
       (decide (len % interval = 0) && decide (since > maxDur))] := by
  simp only [Gen.selectionStops, TxCache.gasExceeded, TxCache.Variant.current, Bool.false_eq_true, ↓reduceIte]
  congr 1
  · have : (decide ((gasLimit : Int) > (gasReq : Int) - (acc : Int))) = decide (acc + gasLimit > gasReq) := by
      apply decide_eq_decide.mpr; omega
    exact this
  · congr 1
    · apply decide_eq_decide.mpr; omega
    · congr 1
      congr 1
      apply decide_eq_decide.mpr
      constructor
      · intro h
        have : ((len % interval : Nat) : Int) = 0 := by rw [Int.natCast_emod]; exact h
        exact_mod_cast this
      · intro h
        rw [← Int.natCast_emod, h]; rfl

end SV.GenProofs
