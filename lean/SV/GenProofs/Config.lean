/-
  SV.GenProofs.Config — the constructors' validity tests, translated from the source (`ConfigSourceMe.verify`,
  `ConfigDestinationMe.verify`, `CacheConfig.Verify`, the factory's batch-size/capacity test) together with the bounds
  they compare against (SV/Generated/Facts.lean): every configuration ACCEPTED by the constructors satisfies the side
  conditions the property theorems assume (`1 ≤ numItemsToEvict`, `1 ≤ countPerSender`, `1 ≤ numChunks`, …).
-/
import SV.Generated.Funcs
import SV.Generated.Facts
import SV.TxCache.Model
import SV.Immunity.Model
namespace SV.GenProofs
open SV

private theorem ite_false_chain {c : Prop} [Decidable c] {b : Bool} (h : (if c then false else b) = true) : ¬ c ∧ b = true := by
  by_cases hc : c
  · rw [if_pos hc] at h; exact absurd h Bool.false_ne_true
  · rw [if_neg hc] at h; exact ⟨hc, h⟩

theorem config_leaves :
    Gen.txConfigAccepted_leaves = ["config.CountPerSenderThreshold : Int", "config.CountThreshold : Int", "config.NumBytesPerSenderThreshold : Int", "config.NumBytesThreshold : Int", "config.NumChunks : Int", "config.NumItemsToPreemptivelyEvict : Int", "len(config.Name) : Int", "maxNumBytesLowerBound : Int", "maxNumBytesPerSenderLowerBound : Int", "maxNumBytesPerSenderUpperBound : Int", "maxNumBytesUpperBound : Int", "maxNumItemsLowerBound : Int", "maxNumItemsPerSenderLowerBound : Int", "numChunksLowerBound : Int", "numChunksUpperBound : Int", "numItemsToPreemptivelyEvictLowerBound : Int"] ∧
    Gen.immunityConfigAccepted_leaves = ["config.MaxNumBytes : Int", "config.MaxNumItems : Int", "config.NumChunks : Int", "config.NumItemsToPreemptivelyEvict : Int", "len(config.Name) : Int", "maxNumBytesLowerBound : Int", "maxNumBytesUpperBound : Int", "maxNumItemsLowerBound : Int", "numChunksLowerBound : Int", "numChunksUpperBound : Int", "numItemsToPreemptivelyEvictLowerBound : Int"] ∧
    Gen.crossConfigAccepted_leaves = Gen.immunityConfigAccepted_leaves ∧
    Gen.unitConfRejected_leaves = ["cacheConf.Capacity : Int", "dbConf.MaxBatchSize : Int"] := ⟨rfl, rfl, rfl, rfl⟩

/-- `NewTxCache` accepts the configuration (name of length `nameLen`, `numChunks` chunks, thresholds as in the model's `Config`) -/
def txAccepted (cfg : TxCache.Config) (nameLen numChunks : Nat) : Bool :=
  Gen.txConfigAccepted (len_config_Name := nameLen) (config_NumChunks := numChunks) (numChunksLowerBound := Facts.txNumChunksLowerBound) (numChunksUpperBound := Facts.txNumChunksUpperBound) (config_NumBytesPerSenderThreshold := cfg.numBytesPerSender) (maxNumBytesPerSenderLowerBound := Facts.txMaxNumBytesPerSenderLowerBound) (maxNumBytesPerSenderUpperBound := Facts.txMaxNumBytesPerSenderUpperBound) (config_CountPerSenderThreshold := cfg.countPerSender) (maxNumItemsPerSenderLowerBound := Facts.txMaxNumItemsPerSenderLowerBound) (config_NumBytesThreshold := cfg.numBytesThreshold) (maxNumBytesLowerBound := Facts.txMaxNumBytesLowerBound) (maxNumBytesUpperBound := Facts.txMaxNumBytesUpperBound) (config_CountThreshold := cfg.countThreshold) (maxNumItemsLowerBound := Facts.txMaxNumItemsLowerBound) (config_NumItemsToPreemptivelyEvict := cfg.numItemsToEvict) (numItemsToPreemptivelyEvictLowerBound := Facts.txNumItemsToPreemptivelyEvictLowerBound)

/-- every configuration accepted by `NewTxCache` meets the side conditions of the mempool theorems -/
theorem txAccepted_bounds (cfg : TxCache.Config) (nameLen numChunks : Nat) (h : txAccepted cfg nameLen numChunks = true) :
    1 ≤ nameLen ∧ 1 ≤ numChunks ∧ numChunks ≤ 128 ∧
    1 ≤ cfg.numBytesPerSender ∧ cfg.numBytesPerSender ≤ 33554432 ∧ 1 ≤ cfg.countPerSender ∧
    4 ≤ cfg.numBytesThreshold ∧ cfg.numBytesThreshold ≤ 1073741824 ∧ 4 ≤ cfg.countThreshold ∧ 1 ≤ cfg.numItemsToEvict := by
  unfold txAccepted Gen.txConfigAccepted at h
  simp only [Facts.txNumChunksLowerBound, Facts.txNumChunksUpperBound, Facts.txMaxNumBytesPerSenderLowerBound,
    Facts.txMaxNumBytesPerSenderUpperBound, Facts.txMaxNumItemsPerSenderLowerBound, Facts.txMaxNumBytesLowerBound,
    Facts.txMaxNumBytesUpperBound, Facts.txMaxNumItemsLowerBound, Facts.txNumItemsToPreemptivelyEvictLowerBound] at h
  obtain ⟨h1, h⟩ := ite_false_chain h
  obtain ⟨h2, h⟩ := ite_false_chain h
  obtain ⟨h3, h⟩ := ite_false_chain h
  obtain ⟨h4, h⟩ := ite_false_chain h
  obtain ⟨h5, h⟩ := ite_false_chain h
  obtain ⟨h6, h⟩ := ite_false_chain h
  obtain ⟨h7, _⟩ := ite_false_chain h
  simp at h1 h2 h3 h4 h5 h6 h7
  have a2 := of_decide_eq_false h2.1
  have a3 := of_decide_eq_false h3.1
  have a4 := of_decide_eq_false h4
  have a5 := of_decide_eq_false h5.1
  have a6 := of_decide_eq_false h6
  have a7 := of_decide_eq_false h7
  omega

-- the acceptance test is satisfiable (smallest accepted configuration) and does reject
example : txAccepted ⟨true, 4, 1, 4, 1, 1⟩ 1 1 = true := by decide
example : txAccepted ⟨true, 4, 1, 4, 1, 0⟩ 1 1 = false := by decide
example : txAccepted ⟨true, 4, 1, 3, 1, 1⟩ 1 1 = false := by decide

/-- `NewImmunityCache` (and `NewCrossTxCache`, whose validator is the same test) accepts the configuration -/
def immunityAccepted (cfg : Immunity.Config) (nameLen : Nat) : Bool :=
  Gen.immunityConfigAccepted (len_config_Name := nameLen) (config_NumChunks := cfg.numChunks) (numChunksLowerBound := Facts.imNumChunksLowerBound) (numChunksUpperBound := Facts.imNumChunksUpperBound) (config_MaxNumItems := cfg.maxNumItems) (maxNumItemsLowerBound := Facts.imMaxNumItemsLowerBound) (config_MaxNumBytes := cfg.maxNumBytes) (maxNumBytesLowerBound := Facts.imMaxNumBytesLowerBound) (maxNumBytesUpperBound := Facts.imMaxNumBytesUpperBound) (config_NumItemsToPreemptivelyEvict := cfg.numItemsToEvict) (numItemsToPreemptivelyEvictLowerBound := Facts.imNumItemsToPreemptivelyEvictLowerBound)

theorem immunityAccepted_bounds (cfg : Immunity.Config) (nameLen : Nat) (h : immunityAccepted cfg nameLen = true) :
    1 ≤ nameLen ∧ 1 ≤ cfg.numChunks ∧ cfg.numChunks ≤ 128 ∧ 4 ≤ cfg.maxNumItems ∧
    4 ≤ cfg.maxNumBytes ∧ cfg.maxNumBytes ≤ 1073741824 ∧ 1 ≤ cfg.numItemsToEvict := by
  unfold immunityAccepted Gen.immunityConfigAccepted at h
  simp only [Facts.imNumChunksLowerBound, Facts.imNumChunksUpperBound, Facts.imMaxNumItemsLowerBound,
    Facts.imMaxNumBytesLowerBound, Facts.imMaxNumBytesUpperBound, Facts.imNumItemsToPreemptivelyEvictLowerBound] at h
  obtain ⟨h1, h⟩ := ite_false_chain h
  obtain ⟨h2, h⟩ := ite_false_chain h
  obtain ⟨h3, h⟩ := ite_false_chain h
  obtain ⟨h4, h⟩ := ite_false_chain h
  obtain ⟨h5, _⟩ := ite_false_chain h
  simp at h1 h2 h3 h4 h5
  have a2 := of_decide_eq_false h2.1
  have a3 := of_decide_eq_false h3
  have a4 := of_decide_eq_false h4.1
  have a5 := of_decide_eq_false h5
  omega

/-- the cross-shard cache's validator is literally the same test -/
theorem crossAccepted_eq : @Gen.crossConfigAccepted = @Gen.immunityConfigAccepted := rfl

example : immunityAccepted ⟨1, 4, 4, 1⟩ 1 = true := by decide
example : immunityAccepted ⟨129, 4, 4, 1⟩ 1 = false := by decide

/-- the factory refuses a storage unit whose persister batch is larger than its cache: accepted ⇒ MaxBatchSize ≤ Capacity -/
theorem unitConf_accepted (maxBatch capacity : Nat) (h : Gen.unitConfRejected (dbConf_MaxBatchSize := maxBatch) (cacheConf_Capacity := capacity) = false) : maxBatch ≤ capacity := by
  unfold Gen.unitConfRejected at h
  simp only [decide_eq_false_iff_not, Int.not_lt] at h
  omega

end SV.GenProofs
