/-
  SV.GenProofs.Shard — the two tests of `shardIDProvider.ComputeId` (sharded/shardIDProvider.go), translated from the
  source on every run, are the tests of the model `SV.Shard.computeId` (C19).  The byte accumulation and the masking
  themselves are bit operations the translator leaves to the correspondence runs (every shard count of the domain through
  the mask segments, random and canonical keys); what is pinned here is WHICH suffix is read and WHEN the low mask is used.
-/
import SV.Generated.Funcs
import SV.Shard
namespace SV.GenProofs
open SV SV.Shard

theorem shardKeepsWholeKey_leaves : Gen.shardKeepsWholeKey_leaves = ["len(key) : Int", "sp.bytesNeeded : Int"] := rfl
theorem shardFallsBackToLowMask_leaves : Gen.shardFallsBackToLowMask_leaves = ["shardIndex : Int", "sp.numOfShards : Int"] := rfl

/-- the suffix the model reads is the one the source reads: the key is cut exactly when it is strictly longer than the
    bytes needed, and then to its last `bytesNeeded` bytes -/
theorem suffixOf_eq_source (n : Nat) (key : Bytes) :
    suffixOf n key =
      (if Gen.shardKeepsWholeKey (len_key := key.length) (sp_bytesNeeded := bytesNeeded n)
       then key.drop (key.length - bytesNeeded n) else key) := by
  simp only [suffixOf, Gen.shardKeepsWholeKey, gt_iff_lt, Int.ofNat_lt, decide_eq_true_eq]

/-- the model falls back to the low mask exactly when the source does (`shardIndex > numOfShards − 1`, in the source an
    unsigned subtraction that cannot wrap because the constructor refuses counts below 2) -/
theorem computeId_eq_source (n : Nat) (key : Bytes) (hn : 1 ≤ n) :
    computeId n key =
      (let addr := foldAddr (suffixOf n key)
       if Gen.shardFallsBackToLowMask (shardIndex := ((addr &&& maskHigh n : Nat) : Int)) (sp_numOfShards := n)
       then addr &&& maskLow n else addr &&& maskHigh n) := by
  simp only [computeId, Gen.shardFallsBackToLowMask, gt_iff_lt, decide_eq_true_eq]
  have h : ((n : Int) - 1) = ((n - 1 : Nat) : Int) := by omega
  rw [h]
  simp only [Int.ofNat_lt]

end SV.GenProofs
