/-
  SV.GenProofs — the tie BY TRANSLATION: `SV/Generated/Funcs.lean` is regenerated on every run from /repo's current source
  by tools/extract (trans.go), which translates the pure leaf logic of the repository (comparators, threshold tests, gap and
  duplicate detectors, loop-exit, expiry and flush conditions) to Lean definitions over their LEAVES.  Each theorem below
  proves one generated definition equal to the corresponding expression of the hand-written model, for all arguments; the
  `*_leaves` theorems pin the operands the source reads.  A changed comparison, boundary, tie-break or operand in the
  source therefore breaks one of these obligations on the next run.

  Integers are mathematical here (conversions are identities): wrap-around is covered by the correspondence runs and, for
  the gas budget, by the hypothesis `acc ≤ gasReq` which the selection loop maintains (SelProofs.selectLoop_gas).
-/
import SV.Generated.Funcs
import SV.Misc.TimeCache
namespace SV.GenProofs
open SV

private theorem dec_natCast_lt (a b : Nat) : decide ((a : Int) < (b : Int)) = decide (a < b) := by
  simp [Int.ofNat_lt]
private theorem dec_natCast_le (a b : Nat) : decide ((a : Int) ≤ (b : Int)) = decide (a ≤ b) := by
  simp [Int.ofNat_le]

/-! ### time caches (C18) -/

theorem sweepExpired_leaves : Gen.sweepExpired_leaves = ["element.span : Int", "time.Since(element.timestamp) : Int"] := rfl

/-- the deletion test of `sweep` is the model's: an entry goes iff `now − timestamp > span` (strictly) -/
theorem sweepExpired_eq (now : Nat) (e : TimeCache.Entry) :
    decide (now - e.timestamp > e.span) = Gen.sweepExpired (time_Since_element_timestamp := ((now - e.timestamp : Nat) : Int)) (element_span := e.span) := by
  simp only [Gen.sweepExpired, gt_iff_lt, dec_natCast_lt]


theorem upsertExtendsSpan_leaves : Gen.upsertExtendsSpan_leaves = ["duration : Int", "existing.span : Int"] := rfl

/-- `upsert` of a present key: the source replaces the span exactly when the stored one is strictly smaller — the model's
    `max` (an Upsert never shortens the life of a key) -/
theorem upsert_span_eq_source (stored given : Nat) :
    max stored given = (if Gen.upsertExtendsSpan (existing_span := stored) (duration := given) then given else stored) := by
  simp only [Gen.upsertExtendsSpan, dec_natCast_lt, decide_eq_true_eq]
  by_cases h : stored < given
  · simp [h, Nat.max_eq_right (Nat.le_of_lt h)]
  · simp [h, Nat.max_eq_left (Nat.le_of_not_lt h)]

end SV.GenProofs
