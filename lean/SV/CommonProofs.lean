import SV.Common
namespace SV

theorem bytesLt_irrefl : ∀ a : Bytes, bytesLt a a = false
  | [] => rfl
  | x :: xs => by
    simp only [bytesLt]
    have : ¬ x < x := UInt8.lt_irrefl x
    simp [this, bytesLt_irrefl xs]

theorem bytesLt_trans : ∀ a b c : Bytes, bytesLt a b = true → bytesLt b c = true → bytesLt a c = true
  | [], [], _, h, _ => by simp [bytesLt] at h
  | [], _ :: _, [], _, h => by simp [bytesLt] at h
  | [], _ :: _, _ :: _, _, _ => by simp [bytesLt]
  | _ :: _, [], _, h, _ => by simp [bytesLt] at h
  | _ :: _, _ :: _, [], _, h => by simp [bytesLt] at h
  | x :: xs, y :: ys, z :: zs, h1, h2 => by
    simp only [bytesLt] at h1 h2 ⊢
    have hx := UInt8.lt_iff_toNat_lt (a := x) (b := y)
    have hy := UInt8.lt_iff_toNat_lt (a := y) (b := z)
    have hz := UInt8.lt_iff_toNat_lt (a := x) (b := z)
    have hx' := UInt8.lt_iff_toNat_lt (a := y) (b := x)
    have hy' := UInt8.lt_iff_toNat_lt (a := z) (b := y)
    have hz' := UInt8.lt_iff_toNat_lt (a := z) (b := x)
    by_cases c1 : x < y
    · by_cases c2 : y < z
      · have : x < z := by rw [hz]; rw [hx] at c1; rw [hy] at c2; omega
        simp [this]
      · by_cases c3 : z < y
        · simp [c2, c3] at h2
        · have e : y = z := UInt8.toNat_inj.mp (by rw [hy] at c2; rw [hy'] at c3; omega)
          subst e; simp [c1]
    · by_cases c1' : y < x
      · simp [c1, c1'] at h1
      · have e : x = y := UInt8.toNat_inj.mp (by rw [hx] at c1; rw [hx'] at c1'; omega)
        subst e
        simp only [c1, if_false] at h1
        by_cases c2 : x < z
        · simp [c2]
        · by_cases c3 : z < x
          · simp [c2, c3] at h2
          · simp only [c2, c3, if_false] at h2 ⊢
            exact bytesLt_trans xs ys zs h1 h2

theorem bytesLt_total : ∀ a b : Bytes, a ≠ b → bytesLt a b = true ∨ bytesLt b a = true
  | [], [], h => absurd rfl h
  | [], _ :: _, _ => by simp [bytesLt]
  | _ :: _, [], _ => by simp [bytesLt]
  | x :: xs, y :: ys, h => by
    simp only [bytesLt]
    by_cases c1 : x < y
    · simp [c1]
    · by_cases c2 : y < x
      · simp [c1, c2]
      · have e : x = y := UInt8.toNat_inj.mp (by
          rw [UInt8.lt_iff_toNat_lt] at c1 c2; omega)
        subst e
        simp only [c1, if_false]
        have : xs ≠ ys := fun e => h (by rw [e])
        exact bytesLt_total xs ys this

theorem bytesLt_asymm (a b : Bytes) (h : bytesLt a b = true) : bytesLt b a = false := by
  cases hb : bytesLt b a with
  | false => rfl
  | true =>
    have := bytesLt_trans a b a h hb
    rw [bytesLt_irrefl] at this
    exact absurd this (by decide)

theorem bytesLt_ne (a b : Bytes) (h : bytesLt a b = true) : a ≠ b := by
  intro e; subst e; rw [bytesLt_irrefl] at h; exact absurd h (by decide)

end SV
