import SV.Shard
namespace SV.Shard

theorem log2_bounds (m : Nat) (h : m ≠ 0) : 2 ^ Nat.log2 m ≤ m ∧ m < 2 ^ (Nat.log2 m + 1) :=
  ⟨Nat.log2_self_le h, Nat.lt_log2_self⟩

theorem clog2_spec (n : Nat) (h : 2 ≤ n) :
    1 ≤ clog2 n ∧ 2 ^ (clog2 n - 1) < n ∧ n ≤ 2 ^ clog2 n := by
  have hm : n - 1 ≠ 0 := by omega
  obtain ⟨h1, h2⟩ := log2_bounds (n - 1) hm
  unfold clog2
  have : ¬ n ≤ 1 := by omega
  simp only [this, if_false]
  refine ⟨by omega, ?_, ?_⟩
  · simp only [Nat.add_sub_cancel]; omega
  · omega

theorem mod_lt_of_pos_pow (a k : Nat) : a % 2 ^ k < 2 ^ k := Nat.mod_lt _ (Nat.two_pow_pos k)

theorem computeId_lt (n : Nat) (key : Bytes) (h : 2 ≤ n) : computeId n key < n := by
  obtain ⟨h1, h2, h3⟩ := clog2_spec n h
  unfold computeId maskHigh maskLow
  simp only [Nat.and_two_pow_sub_one_eq_mod]
  split
  · have := mod_lt_of_pos_pow (foldAddr (suffixOf n key)) (clog2 n - 1)
    omega
  · omega

theorem suffixOf_append (n : Nat) (pre suf : Bytes) (h : suf.length = bytesNeeded n) :
    suffixOf n (pre ++ suf) = suf := by
  unfold suffixOf
  split
  · rename_i hl
    simp only [List.length_append] at hl ⊢
    have : pre.length + suf.length - bytesNeeded n = pre.length := by omega
    rw [this]; simp
  · rename_i hl
    simp only [List.length_append] at hl
    have : pre.length = 0 := by omega
    have : pre = [] := List.eq_nil_of_length_eq_zero this
    simp [this]

theorem suffixOf_self (n : Nat) (suf : Bytes) (h : suf.length ≤ bytesNeeded n) :
    suffixOf n suf = suf := by
  unfold suffixOf; split <;> first | omega | rfl

/-- the id depends only on the trailing `bytesNeeded n` bytes -/
theorem computeId_suffix (n : Nat) (pre suf : Bytes) (h : suf.length = bytesNeeded n) :
    computeId n (pre ++ suf) = computeId n suf := by
  unfold computeId
  rw [suffixOf_append n pre suf h, suffixOf_self n suf (by omega)]

/-! onto -/

theorem foldl_addr_append (a : Nat) (xs : Bytes) (b : UInt8) :
    (xs ++ [b]).foldl (fun a b => (a * 256 + b.toNat) % 4294967296) a =
      ((xs.foldl (fun a b => (a * 256 + b.toNat) % 4294967296) a) * 256 + b.toNat) % 4294967296 := by
  simp [List.foldl_append]

theorem beKey_length (k i : Nat) : (beKey k i).length = k := by
  induction k generalizing i with
  | zero => rfl
  | succ k ih => simp [beKey, ih]

theorem foldAddr_beKey (k i : Nat) (hk : k ≤ 4) : foldAddr (beKey k i) = i % 256 ^ k := by
  induction k generalizing i with
  | zero => simp [beKey, foldAddr, Nat.mod_one]
  | succ k ih =>
    have ihk := ih (i / 256) (by omega)
    unfold foldAddr at ihk ⊢
    simp only [beKey]
    rw [foldl_addr_append, ihk]
    have hb : (UInt8.ofNat (i % 256)).toNat = i % 256 := by
      simp [UInt8.toNat_ofNat']
    rw [hb]
    have hpow : 256 ^ (k + 1) ≤ 4294967296 := by
      have : k + 1 = 1 ∨ k + 1 = 2 ∨ k + 1 = 3 ∨ k + 1 = 4 := by omega
      rcases this with h | h | h | h <;> rw [h] <;> decide
    have h1 : (i / 256 % 256 ^ k) * 256 + i % 256 = i % 256 ^ (k + 1) := by
      rw [Nat.pow_succ, Nat.mul_comm (256 ^ k) 256, Nat.mod_mul]
      omega
    rw [h1]
    have : i % 256 ^ (k + 1) < 256 ^ (k + 1) := Nat.mod_lt _ (Nat.pow_pos (by decide))
    exact Nat.mod_eq_of_lt (by omega)

theorem bytesNeeded_le_four (n : Nat) (h2 : 2 ≤ n) (h : n < 2147483648) : bytesNeeded n ≤ 4 := by
  unfold bytesNeeded
  have : ¬ n = 1 := by omega
  simp only [this, if_false]
  have hm : n - 1 ≠ 0 := by omega
  have hl : Nat.log2 (n - 1) < 31 := by
    rw [Nat.log2_lt hm]; omega
  omega

theorem lt_pow_bytesNeeded (n : Nat) (h2 : 2 ≤ n) : n - 1 < 256 ^ bytesNeeded n := by
  unfold bytesNeeded
  have : ¬ n = 1 := by omega
  simp only [this, if_false]
  have hm : n - 1 ≠ 0 := by omega
  have h1 : n - 1 < 2 ^ (Nat.log2 (n - 1) + 1) := Nat.lt_log2_self
  have h3 : (256 : Nat) ^ (Nat.log2 (n - 1) / 8 + 1) = 2 ^ (8 * (Nat.log2 (n - 1) / 8 + 1)) := by
    rw [Nat.pow_mul]
  rw [h3]
  have : Nat.log2 (n - 1) + 1 ≤ 8 * (Nat.log2 (n - 1) / 8 + 1) := by omega
  exact Nat.lt_of_lt_of_le h1 (Nat.pow_le_pow_right (by decide) this)

/-- every id below `n` is produced by its big-endian key of `bytesNeeded n` bytes -/
theorem computeId_onto (n i : Nat) (h2 : 2 ≤ n) (hn : n < 2147483648) (hi : i < n) :
    computeId n (beKey (bytesNeeded n) i) = i := by
  obtain ⟨h1, hlo, hhi⟩ := clog2_spec n h2
  have hb := bytesNeeded_le_four n h2 hn
  have hp := lt_pow_bytesNeeded n h2
  unfold computeId maskHigh maskLow
  simp only [Nat.and_two_pow_sub_one_eq_mod]
  rw [suffixOf_self n _ (by rw [beKey_length]; exact Nat.le_refl _), foldAddr_beKey _ _ hb]
  have e1 : i % 256 ^ bytesNeeded n = i := Nat.mod_eq_of_lt (by omega)
  have e2 : i % 2 ^ clog2 n = i := Nat.mod_eq_of_lt (by omega)
  rw [e1, e2]
  simp only [show ¬ i > n - 1 by omega, if_false]

end SV.Shard

namespace SV.Shard

/-! monotonicity of the three mask components, soundness of the bisection run-length encoding -/

theorem log2_mono {a b : Nat} (ha : a ≠ 0) (h : a ≤ b) : Nat.log2 a ≤ Nat.log2 b := by
  have hb : b ≠ 0 := by omega
  rw [Nat.le_log2 hb]
  exact Nat.le_trans (Nat.log2_self_le ha) h

theorem clog2_mono {a b : Nat} (ha : 2 ≤ a) (h : a ≤ b) : clog2 a ≤ clog2 b := by
  unfold clog2
  have h1 : ¬ a ≤ 1 := by omega
  have h2 : ¬ b ≤ 1 := by omega
  simp only [h1, h2, if_false]
  have := log2_mono (a := a - 1) (b := b - 1) (by omega) (by omega)
  omega

theorem bytesNeeded_mono {a b : Nat} (ha : 2 ≤ a) (h : a ≤ b) : bytesNeeded a ≤ bytesNeeded b := by
  unfold bytesNeeded
  have h1 : ¬ a = 1 := by omega
  have h2 : ¬ b = 1 := by omega
  simp only [h1, h2, if_false]
  have := log2_mono (a := a - 1) (b := b - 1) (by omega) (by omega)
  have := Nat.div_le_div_right (c := 8) this
  omega

theorem two_pow_inj {a b : Nat} (h : 2 ^ a = 2 ^ b) : a = b := (Nat.pow_right_inj (by decide)).mp h

/-- if the masks agree at both ends of an interval they agree inside -/
theorem triple_const {a n b : Nat} (ha : 2 ≤ a) (h1 : a ≤ n) (h2 : n ≤ b) (he : triple a = triple b) :
    triple n = triple a := by
  unfold triple maskHigh maskLow at *
  simp only [Prod.mk.injEq] at he ⊢
  obtain ⟨e1, _, e3⟩ := he
  have c1 := clog2_mono ha h1
  have c2 := clog2_mono (by omega : 2 ≤ n) h2
  have b1 := bytesNeeded_mono ha h1
  have b2 := bytesNeeded_mono (by omega : 2 ≤ n) h2
  have p1 := Nat.two_pow_pos (clog2 a)
  have p2 := Nat.two_pow_pos (clog2 b)
  have : clog2 a = clog2 b := two_pow_inj (by omega)
  have : clog2 n = clog2 a := by omega
  rw [this]
  exact ⟨rfl, rfl, by omega⟩

def SegOk (s : Nat × Nat × Triple) : Prop := ∀ n, s.1 ≤ n → n ≤ s.2.1 → triple n = s.2.2

theorem segs_sound (fuel a b : Nat) (ha : 2 ≤ a) (hf : b - a < 2 ^ fuel) :
    ∀ s ∈ segs fuel a b, SegOk s := by
  induction fuel generalizing a b with
  | zero =>
    intro s hs n h1 h2
    simp only [segs, List.mem_singleton] at hs
    subst hs
    simp only at h1 h2 ⊢
    have : n = a := by simp at hf; omega
    rw [this]
  | succ fuel ih =>
    intro s hs
    unfold segs at hs
    split at hs
    · rename_i he
      simp only [List.mem_singleton] at hs
      subst hs
      intro n h1 h2
      exact triple_const ha h1 h2 he
    · simp only [List.mem_append] at hs
      have hp : 2 ^ (fuel + 1) = 2 * 2 ^ fuel := by rw [Nat.pow_succ]; omega
      rcases hs with hs | hs
      · exact ih a ((a + b) / 2) ha (by omega) s hs
      · exact ih ((a + b) / 2 + 1) b (by omega) (by omega) s hs

theorem mergeSegs_sound : ∀ (l : List (Nat × Nat × Triple)), (∀ s ∈ l, SegOk s) → ∀ s ∈ mergeSegs l, SegOk s := by
  intro l
  induction l using mergeSegs.induct with
  | case1 => intro _ s hs; simp [mergeSegs] at hs
  | case2 s0 => intro h s hs; simp only [mergeSegs, List.mem_singleton] at hs; subst hs; exact h _ (List.mem_singleton.mpr rfl)
  | case3 a b t c d u rest hc ih =>
    intro h s hs
    rw [mergeSegs, if_pos hc] at hs
    apply ih _ s hs
    intro s' hs'
    rcases List.mem_cons.mp hs' with rfl | hs'
    · intro n h1 h2
      simp only at h1 h2 ⊢
      by_cases hn : n ≤ b
      · exact h (a, b, t) (List.mem_cons_self ..) n h1 hn
      · have := h (c, d, u) (List.mem_cons_of_mem _ (List.mem_cons_self ..)) n (by simp only; omega) h2
        rw [hc.1]; exact this
    · exact h s' (List.mem_cons_of_mem _ (List.mem_cons_of_mem _ hs'))
  | case4 a b t c d u rest hc ih =>
    intro h s hs
    rw [mergeSegs, if_neg hc] at hs
    rcases List.mem_cons.mp hs with rfl | hs
    · exact h _ (List.mem_cons_self ..)
    · exact ih (fun s' hs' => h s' (List.mem_cons_of_mem _ hs')) s hs

end SV.Shard
