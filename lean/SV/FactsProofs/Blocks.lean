/-
  SV.FactsProofs — theorems about the facts regenerated from /repo's current source by tools/extract
  (lean/SV/Generated/Facts.lean is rewritten on every run; these proofs are re-checked against it).
-/
import SV.Generated.Facts
namespace SV.Facts

/-- the persister read paths read the pending batch in one critical section and the flush paths hold the batch mutex
    until LevelDB has the batch: the block structure of SV.Conc.PersistConc is the structure of the code -/
theorem persister_blocks :
    (dbGetBatchReadsAtomic && dbHasBatchReadsAtomic && serialGetBatchReadsAtomic && serialHasBatchReadsAtomic &&
     serialFlushHoldsLock && dbFlushHoldsLock) = true := by decide

end SV.Facts
