/-
  SV.FactsProofs — theorems about the facts regenerated from /repo's current source by tools/extract
  (lean/SV/Generated/Facts.lean is rewritten on every run; these proofs are re-checked against it).
-/
import SV.Generated.Facts
namespace SV.Facts

/-- the persister read paths read the pending batch in one critical section and the flush paths hold the batch mutex
    until LevelDB has the batch: the block structure of SV.Conc.PersistConc is the structure of the code -/
theorem persister_blocks :
    (dbGetBatchReadsAtomic && dbHasBatchReadsAtomic && serialGetBatchReadsAtomic && serialHasBatchReadsAtomic &&
     serialFlushHoldsLock && dbFlushHoldsLock) = true := by decide

/-- a flush is ONE critical section of the batch mutex in both persisters: the records handed to LevelDB and the records dropped
    by the reset that follows are the same records — nothing can enter the batch between the write and the reset -/
theorem flush_is_one_critical_section : (serialFlushHoldsLock && dbFlushHoldsLock) = true := by decide

/-- DB resets its pending batch only after the LevelDB write of a flush succeeded (size-triggered and timer-triggered flush):
    a write that fails leaves the acknowledged operations in the batch, to be written by the next flush -/
theorem failed_write_keeps_the_batch : dbResetOnlyAfterSuccessfulWrite = true := by decide

end SV.Facts
