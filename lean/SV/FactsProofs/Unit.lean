/-
  SV.FactsProofs.Unit — regenerated facts behind C16/C17: the storage unit's Put/Get/Remove and the adapter's Put are single
  critical sections of their lock, so a concurrent history of such calls is a sequential one and the sequential theorems apply.
-/
import SV.Generated.Facts
namespace SV.Facts

theorem unit_operations_are_single_sections :
    (unitGetSingleSection && unitPutSingleSection && unitRemoveSingleSection && unitHasSingleSection) = true := by decide

end SV.Facts
