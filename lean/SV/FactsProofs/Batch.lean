/-
  SV.FactsProofs.Batch — the pending batch of the LevelDB persisters (leveldb/batch.go), regenerated: `Put`, `Delete` and
  `Reset` perform, unconditionally and under the batch's own mutex, exactly the three effects the model's `P.put`,
  `P.remove` and `P.flush` perform on (`cached`, `removed`, `ops`): a condition, an early return or a missing marker in the
  source changes the extracted list and breaks these theorems.
-/
import SV.Generated.Facts
import SV.Persist.Model
namespace SV.Facts
open SV SV.Persist

/-- the model's effects, named like the extractor names the source's -/
def modelPutEffects : List String := ["cached.set", "ldb.put", "removed.del"]
def modelDeleteEffects : List String := ["cached.del", "ldb.del", "removed.set"]
def modelResetEffects : List String := ["cached.clear", "ldb.reset", "removed.clear"]

theorem batch_put_effects : batchPutEffects = modelPutEffects := by decide
theorem batch_delete_effects : batchDeleteEffects = modelDeleteEffects := by decide
theorem batch_reset_effects : batchResetEffects = modelResetEffects := by decide

/-- what those names mean in the model (before the batch counter is bumped): `put` sets the cached value, withdraws a removal
    marker and appends a put record; `remove` erases the cached value, sets the removal marker and appends a delete record -/
theorem model_put_does (p : P) (k : Bytes) (v : Val) :
    p.put k v = P.bump { p with cached := aset k v p.cached, removed := p.removed.filter (· != k), ops := p.ops ++ [.put k v.bytes] } := rfl
theorem model_remove_does (p : P) (k : Bytes) :
    p.remove k = P.bump { p with removed := if p.removed.contains k then p.removed else p.removed ++ [k],
                                 cached := aerase k p.cached, ops := p.ops ++ [.del k] } := rfl
theorem model_flush_does (p : P) : p.flush.cached = [] ∧ p.flush.removed = [] ∧ p.flush.ops = [] := ⟨rfl, rfl, rfl⟩

end SV.Facts
