/-
  SV.FactsProofs.Adapter — regenerated fact behind C17: the adapter's Put is a single critical section of its lock.
-/
import SV.Generated.Facts
namespace SV.Facts

theorem adapter_put_is_single_section : adapterPutSingleSection = true := by decide

end SV.Facts
