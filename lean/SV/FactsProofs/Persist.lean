/-
  SV.FactsProofs — theorems about the facts regenerated from /repo's current source by tools/extract
  (lean/SV/Generated/Facts.lean is rewritten on every run; these proofs are re-checked against it).
-/
import SV.Generated.Facts
namespace SV.Facts

/-- every goleveldb write of package leveldb is issued with Sync: true (hypothesis of the C10 durability argument) -/
theorem all_writes_sync : ∀ w ∈ leveldbWrites, w.2 = true := by decide
/-- …and there is at least one write site per persister (the fact list is not vacuous) -/
theorem write_sites_present : 2 ≤ leveldbWrites.length := by decide

/-- the persister read paths read the pending batch in one critical section and the flush paths hold the batch mutex
    until LevelDB has the batch: the block structure of SV.Conc.PersistConc is the structure of the code -/
theorem persister_blocks :
    (dbGetBatchReadsAtomic && dbHasBatchReadsAtomic && serialGetBatchReadsAtomic && serialHasBatchReadsAtomic &&
     serialFlushHoldsLock && dbFlushHoldsLock) = true := by decide

end SV.Facts
