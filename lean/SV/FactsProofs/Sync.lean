/-
  SV.FactsProofs — theorems about the facts regenerated from /repo's current source by tools/extract
  (lean/SV/Generated/Facts.lean is rewritten on every run; these proofs are re-checked against it).
-/
import SV.Generated.Facts
namespace SV.Facts

/-- every goleveldb write of package leveldb is issued with Sync: true (hypothesis of the C10 durability argument) -/
theorem all_writes_sync : ∀ w ∈ leveldbWrites, w.2 = true := by decide
/-- …and there is at least one write site per persister (the fact list is not vacuous) -/
theorem write_sites_present : 2 ≤ leveldbWrites.length := by decide

end SV.Facts
