/-
  SV.FactsProofs — theorems about the facts regenerated from /repo's current source by tools/extract
  (lean/SV/Generated/Facts.lean is rewritten on every run; these proofs are re-checked against it).
-/
import SV.Generated.Facts
namespace SV.Facts

/-- every goleveldb write of package leveldb is issued with Sync: true (hypothesis of the C10 durability argument) -/
theorem all_writes_sync : ∀ w ∈ leveldbWrites, w.2 = true := by decide
/-- …and there is at least one write site per persister (the fact list is not vacuous) -/
theorem write_sites_present : 2 ≤ leveldbWrites.length := by decide

/-- both flush paths hand goleveldb the batch's own record list (`batch.batch`: every Put/Delete of the batch in the order they
    were issued, each value copied by goleveldb at `Put` time) — what the model's `flush` writes; not something rebuilt from
    the lookup maps at flush time -/
theorem writes_pass_the_record_list :
    leveldbWriteArgs = ["DB.putBatch: dbBatch.batch", "putBatchAct.doPutRequest: p.batch.batch"] := by decide

end SV.Facts
