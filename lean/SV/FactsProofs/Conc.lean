/-
  SV.FactsProofs — theorems about the facts regenerated from /repo's current source by tools/extract
  (lean/SV/Generated/Facts.lean is rewritten on every run; these proofs are re-checked against it).
-/
import SV.Generated.Facts
namespace SV.Facts

/-- the listed methods are single critical sections -/
theorem single_sections : ∀ m ∈ singleCriticalSection, m.2 = true := by decide
theorem single_sections_present : 20 ≤ singleCriticalSection.length := by decide

/-- every operation of the size-bounded LRU that the cache wrapper reaches is ONE critical section of the LRU's own mutex: a
    concurrent caller sees the two structures and the byte counter only between operations (what the sequential refinement
    theorems of C15 are then about) -/
theorem sized_lru_sections :
    ∀ n ∈ ["lrucache/capacity:capacityLRU.AddSized", "lrucache/capacity:capacityLRU.AddSizedIfMissing",
           "lrucache/capacity:capacityLRU.AddSizedAndReturnEvicted", "lrucache/capacity:capacityLRU.Get",
           "lrucache/capacity:capacityLRU.Remove", "lrucache/capacity:capacityLRU.Keys"],
      (n, true) ∈ singleCriticalSection := by decide

/-- Kahn-style acyclicity test: repeatedly delete the edges whose source has no incoming edge -/
def prune (edges : List (Nat × Nat)) : List (Nat × Nat) :=
  edges.filter (fun e => edges.any (fun f => f.2 == e.1))

def acyclicFuel : Nat → List (Nat × Nat) → Bool
  | 0, edges => edges.isEmpty
  | n + 1, edges => if edges.isEmpty then true else acyclicFuel n (prune edges)

def acyclic (edges : List (Nat × Nat)) : Bool := acyclicFuel (edges.length + 1) edges

/-- the lock-order graph ("held A while acquiring B") extracted from the source has no cycle -/
theorem lockOrder_acyclic : acyclic lockOrderIdx = true := by decide

-- the test does reject cycles
example : acyclic [(0, 1), (1, 2), (2, 0)] = false := by decide
example : acyclic [(0, 1), (1, 0), (3, 4)] = false := by decide
example : acyclic [(0, 1), (0, 2), (1, 2)] = true := by decide

/-- `TxCache.AddTx` performs both index updates inside one critical section: concurrent AddTx calls execute as SOME
    sequential order of these sections (hypothesis of SV.TxCache.AddCommute) -/
theorem addTx_updates_atomic : addTxIndexUpdatesAtomic = true := by decide

/-- eviction's removals (senders' lists, then hash index) of every pass run inside `mutTxOperation`: they are atomic with respect
    to AddTx and RemoveTxByHash, so a sender list emptied and dropped by the eviction cannot be the one a concurrent AddTx is
    about to insert into (defect F13 before the repair: such a transaction stayed reachable by hash only — neither
    selectable nor evictable) -/
theorem eviction_removals_atomic : evictionRemovalsUnderTxOperationLock = true := by decide

/-- the mempool's atomic counters are paired with the chunk-locked map updates: they change iff the map operation reported a
    change, with no lookup before it (no check-then-act) — the mechanism behind "once all goroutines have finished, CountTx
    and NumBytes equal the number and total Size of the transactions reachable by hash" -/
theorem counters_paired_with_map_updates : (hashIndexCountersPaired && senderCounterPaired) = true := by decide

end SV.Facts
