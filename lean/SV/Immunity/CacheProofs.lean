/-
  SV.Immunity.CacheProofs — the immunity-cache theorems lifted from one chunk to the whole cache,
  for any number of chunks (properties C12, C13).

  The chunk-level results live in `SV.Immunity.Proofs`; here the cache = config + list of chunks routed by
  `fnv32 key % numChunks` is treated: invariant `CacheInv` (with ROUTING), capacity bound, agreement of the
  views (Get / items / Count / NumBytes / CountImmune), truthful HasOrAdd flags, the protection property
  `CProtected` along arbitrary cache-level histories, refusals change nothing.
-/
import SV.Immunity.Proofs
namespace SV.Immunity

/-! ### chunk-level complements -/

theorem find?_key_of_nodup (l : List Item) (it : Item) (hnd : (l.map (·.key)).Nodup) (hit : it ∈ l) :
    l.find? (·.key == it.key) = some it := by
  induction l with
  | nil => cases hit
  | cons a rest ih =>
    rw [List.map_cons, List.nodup_cons] at hnd
    rcases List.mem_cons.mp hit with rfl | hr
    · simp
    · have hne : a.key ≠ it.key := fun e => hnd.1 (e ▸ List.mem_map_of_mem hr)
      have : (a.key == it.key) = false := by simpa using hne
      rw [List.find?_cons, this]
      exact ih hnd.2 hr

/-- with distinct keys, `get` returns exactly the resident item -/
theorem ChunkInv.get_of_mem {cfg : ChunkCfg} {c : Chunk} (h : ChunkInv cfg c) {it : Item} (hit : it ∈ c.items) :
    c.get it.key = some it := find?_key_of_nodup c.items it h.keysNodup hit

theorem has_eq_isSome (c : Chunk) (k : Bytes) : c.has k = (c.get k).isSome := by
  rw [Bool.eq_iff_iff, has_eq_true_iff, Chunk.get, List.find?_isSome]
  simp

/-- `ChunkInv.addItem` without the side condition `1 ≤ maxNumItems`
    (a chunk of capacity 0 is empty and refuses every add) -/
theorem ChunkInv.addItem' (cfg : ChunkCfg) (c : Chunk) (k p : Bytes) (size : Int) (h : ChunkInv cfg c) (hs : 0 ≤ size) :
    ChunkInv cfg (c.addItem Variant.current cfg k p size).1 := by
  by_cases hm : 1 ≤ cfg.maxNumItems
  · exact ChunkInv.addItem cfg c k p size h hs hm
  · have hnil : c.items = [] := List.eq_nil_of_length_eq_zero (by have := h.bound; omega)
    have hk : c.has k = false := by simp [Chunk.has, hnil]
    have hex : c.exceeded cfg = true := by
      have : cfg.maxNumItems = 0 := by omega
      simp [Chunk.exceeded, hnil, this]
    rw [addItem_all_immune_refused cfg c k p size (by simp [hnil]) hex hk]
    exact h

def COp.key : COp → Bytes
  | .add k _ _ => k
  | .rm k => k
  | .imm k => k

/-- sizes passed to `add` are non-negative (Go: `item.Size()` is a length) -/
def COp.sizeOk : COp → Prop
  | .add _ _ s => 0 ≤ s
  | _ => True

theorem ChunkInv.apply' (cfg : ChunkCfg) (c : Chunk) (op : COp) (hw : op.sizeOk) (h : ChunkInv cfg c) :
    ChunkInv cfg (c.apply cfg op) := by
  cases op with
  | add k p s => exact ChunkInv.addItem' cfg c k p s h hw
  | rm k => exact ChunkInv.removeItem cfg c k h
  | imm k => exact ChunkInv.immunizeKey cfg c k h

/-- a chunk operation on key `k` creates no item keys other than `k` -/
theorem apply_item_keys (cfg : ChunkCfg) (c : Chunk) (op : COp) :
    ∀ it ∈ (c.apply cfg op).items, it.key = op.key ∨ ∃ it' ∈ c.items, it'.key = it.key := by
  intro it hit
  cases op with
  | add k p s =>
    change it ∈ (c.addItem Variant.current cfg k p s).1.items at hit
    rcases addItem_cases cfg c k p s with ⟨_, e⟩ | ⟨_, _, e⟩ | ⟨_, c', he, e⟩
    · rw [e] at hit; exact Or.inr ⟨it, hit, rfl⟩
    · rw [e] at hit; exact Or.inr ⟨it, hit, rfl⟩
    · rw [e] at hit
      rcases List.mem_append.mp hit with hi | hi
      · exact Or.inr ⟨it, (evictIfNeeded_sublist cfg c c' he).subset hi, rfl⟩
      · left; rw [List.mem_singleton.mp hi]; rfl
  | rm k =>
    change it ∈ (c.removeItem k).1.items at hit
    unfold Chunk.removeItem at hit
    dsimp only at hit
    split at hit
    · exact Or.inr ⟨it, hit, rfl⟩
    · exact Or.inr ⟨it, (List.mem_filter.mp hit).1, rfl⟩
  | imm k =>
    change it ∈ (c.immunizeKey k).1.items at hit
    unfold Chunk.immunizeKey at hit
    dsimp only at hit
    obtain ⟨it', hit', rfl⟩ := List.mem_map.mp hit
    refine Or.inr ⟨it', hit', ?_⟩
    split <;> rfl

/-- a chunk operation on key `k` creates no immune keys other than `k` -/
theorem apply_immune_keys (cfg : ChunkCfg) (c : Chunk) (op : COp) :
    ∀ x ∈ (c.apply cfg op).immuneKeys, x = op.key ∨ x ∈ c.immuneKeys := by
  intro x hx
  cases op with
  | add k p s =>
    change x ∈ (c.addItem Variant.current cfg k p s).1.immuneKeys at hx
    rw [addItem_immuneKeys] at hx
    exact Or.inr hx
  | rm k =>
    change x ∈ (c.removeItem k).1.immuneKeys at hx
    unfold Chunk.removeItem at hx
    dsimp only at hx
    split at hx <;> exact Or.inr (List.mem_filter.mp hx).1
  | imm k =>
    change x ∈ (c.immunizeKey k).1.immuneKeys at hx
    unfold Chunk.immunizeKey at hx
    dsimp only at hx
    split at hx
    · exact Or.inr hx
    · rcases List.mem_append.mp hx with h | h
      · exact Or.inr h
      · exact Or.inl (List.mem_singleton.mp h)

/-- an accepted add makes `get k` return exactly the new item -/
theorem addItem_added_get (cfg : ChunkCfg) (c : Chunk) (k p : Bytes) (size : Int)
    (ha : (c.addItem Variant.current cfg k p size).2.2 = true) :
    (c.addItem Variant.current cfg k p size).1.get k = some ⟨k, p, size, c.immuneKeys.contains k⟩ := by
  rcases addItem_cases cfg c k p size with ⟨_, e⟩ | ⟨_, _, e⟩ | ⟨hk, c', he, e⟩
  · rw [e] at ha; simp at ha
  · rw [e] at ha; simp at ha
  · rw [e]
    have hnone : c'.items.find? (fun it : Item => it.key == k) = none := by
      rw [List.find?_eq_none]
      intro it hit
      have := (has_eq_false_iff c k).mp hk it ((evictIfNeeded_sublist cfg c c' he).subset hit)
      simpa using this
    show (c'.items ++ [_]).find? (fun it : Item => it.key == k) = _
    rw [List.find?_append, hnone, evictIfNeeded_immuneKeys cfg c c' he]
    simp

/-- an add of `k` leaves `get k'` (k' ≠ k) as it was, or `k'` was a NON-immune resident and has been evicted -/
theorem addItem_get_other (cfg : ChunkCfg) (c : Chunk) (k p : Bytes) (size : Int) (h : ChunkInv cfg c)
    (k' : Bytes) (hne : k' ≠ k) :
    (c.addItem Variant.current cfg k p size).1.get k' = c.get k' ∨
    ((c.addItem Variant.current cfg k p size).1.get k' = none ∧ ∃ it, c.get k' = some it ∧ it.immune = false) := by
  rcases addItem_cases cfg c k p size with ⟨_, e⟩ | ⟨_, _, e⟩ | ⟨hk, c', he, e⟩
  · rw [e]; exact Or.inl rfl
  · rw [e]; exact Or.inl rfl
  · rw [e]
    have hsub := evictIfNeeded_sublist cfg c c' he
    have hget : ∀ ch : Chunk, ch.items = c'.items ++ [⟨k, p, size, c'.immuneKeys.contains k⟩] →
        ch.get k' = c'.get k' := by
      intro ch hch
      unfold Chunk.get
      rw [hch, List.find?_append]
      have : (k == k') = false := by simpa using (Ne.symm hne)
      simp [this]
    rw [hget _ rfl]
    cases hg' : c'.get k' with
    | some it =>
      left
      obtain ⟨hit, hkey⟩ := get_some_mem c' k' it hg'
      rw [← hkey]
      exact (h.get_of_mem (hsub.subset hit)).symm
    | none =>
      cases hg : c.get k' with
      | none => exact Or.inl rfl
      | some it =>
        right
        refine ⟨rfl, it, rfl, ?_⟩
        obtain ⟨hit, hkey⟩ := get_some_mem c k' it hg
        cases himm : it.immune with
        | false => rfl
        | true =>
          exact absurd hkey (get_none c' k' hg' it (evictIfNeeded_keeps_immune cfg c c' he it hit himm))

theorem immunizeKey_get_payload (c : Chunk) (k' k : Bytes) :
    ((c.immunizeKey k').1.get k).map (·.payload) = (c.get k).map (·.payload) := by
  unfold Chunk.immunizeKey Chunk.get
  dsimp only
  induction c.items with
  | nil => rfl
  | cons a rest ih =>
    rw [List.map_cons, List.find?_cons, List.find?_cons]
    have hkey : (if a.key == k' then { a with immune := true } else a).key = a.key := by split <;> rfl
    have hpay : (if a.key == k' then { a with immune := true } else a).payload = a.payload := by split <;> rfl
    rw [hkey]
    cases a.key == k
    · exact ih
    · show Option.map _ (some _) = Option.map _ (some a)
      simp only [Option.map_some, hpay]

theorem immunizeKey_immuneKeys_mem (c : Chunk) (k' x : Bytes) :
    x ∈ (c.immunizeKey k').1.immuneKeys ↔ x ∈ c.immuneKeys ∨ x = k' := by
  unfold Chunk.immunizeKey
  dsimp only
  split
  · rename_i hc
    constructor
    · exact Or.inl
    · rintro (h | rfl)
      · exact h
      · exact List.contains_iff_mem.mp hc
  · simp

/-! ### the cache: basic facts about routing and `setChunk` -/

theorem Cache.idx_lt (c : Cache) (hp : 1 ≤ c.cfg.numChunks) (k : Bytes) : c.idx k < c.cfg.numChunks :=
  Nat.mod_lt _ hp

@[simp] theorem Cache.setChunk_cfg (c : Cache) (i : Nat) (ch : Chunk) : (c.setChunk i ch).cfg = c.cfg := rfl
@[simp] theorem Cache.setChunk_idx (c : Cache) (i : Nat) (ch : Chunk) (k : Bytes) : (c.setChunk i ch).idx k = c.idx k := rfl

theorem Cache.setChunk_get? (c : Cache) (i j : Nat) (ch : Chunk) :
    (c.setChunk i ch).chunks[j]? = if i = j then (if i < c.chunks.length then some ch else none) else c.chunks[j]? :=
  List.getElem?_set

/-- writing back the chunk that is already there changes nothing (whatever the index) -/
theorem Cache.setChunk_chunkOf (c : Cache) (k : Bytes) : c.setChunk (c.idx k) (c.chunkOf k) = c := by
  unfold Cache.setChunk Cache.chunkOf
  by_cases hi : c.idx k < c.chunks.length
  · have : (c.chunks[c.idx k]?).getD Chunk.empty = c.chunks[c.idx k] := by simp [hi]
    rw [this, List.set_getElem_self]
  · rw [List.set_eq_of_length_le (by omega)]

theorem Cache.chunkOf_setChunk (c : Cache) (i : Nat) (ch : Chunk) (k : Bytes) (hi : i < c.chunks.length) :
    (c.setChunk i ch).chunkOf k = if c.idx k = i then ch else c.chunkOf k := by
  unfold Cache.chunkOf
  rw [Cache.setChunk_idx, Cache.setChunk_get?]
  by_cases e : c.idx k = i
  · rw [if_pos e.symm, if_pos hi, if_pos e]; rfl
  · rw [if_neg (fun e' => e e'.symm), if_neg e]

theorem Cache.chunkOf_congr (c : Cache) (k k' : Bytes) (e : c.idx k = c.idx k') : c.chunkOf k = c.chunkOf k' := by
  unfold Cache.chunkOf; rw [e]

/-! ### 1. the cache invariant -/

/-- cache invariant: as many chunks as configured (≥ 1), every chunk satisfies the chunk invariant for the per-chunk
    limits, and ROUTING: whatever is stored in chunk `i` (items, immune keys) hashes to `i` -/
structure CacheInv (c : Cache) : Prop where
  len : c.chunks.length = c.cfg.numChunks
  pos : 1 ≤ c.cfg.numChunks
  chunk : ∀ (i : Nat) (ch : Chunk), c.chunks[i]? = some ch → ChunkInv c.cfg.chunkCfg ch
  routeItems : ∀ (i : Nat) (ch : Chunk), c.chunks[i]? = some ch → ∀ it ∈ ch.items, fnv32 it.key % c.cfg.numChunks = i
  routeImmune : ∀ (i : Nat) (ch : Chunk), c.chunks[i]? = some ch → ∀ k ∈ ch.immuneKeys, fnv32 k % c.cfg.numChunks = i

theorem CacheInv.idx_lt {c : Cache} (h : CacheInv c) (k : Bytes) : c.idx k < c.chunks.length := by
  rw [h.len]; exact c.idx_lt h.pos k

/-- the chunk a key is routed to is a real chunk of the cache -/
theorem CacheInv.chunkOf_get? {c : Cache} (h : CacheInv c) (k : Bytes) : c.chunks[c.idx k]? = some (c.chunkOf k) := by
  have hi := h.idx_lt k
  unfold Cache.chunkOf
  simp [hi]

theorem CacheInv.chunkOf_mem {c : Cache} (h : CacheInv c) (k : Bytes) : c.chunkOf k ∈ c.chunks :=
  List.mem_iff_getElem?.mpr ⟨_, h.chunkOf_get? k⟩

theorem CacheInv.chunkOf_inv {c : Cache} (h : CacheInv c) (k : Bytes) : ChunkInv c.cfg.chunkCfg (c.chunkOf k) :=
  h.chunk _ _ (h.chunkOf_get? k)

theorem CacheInv.chunk_mem {c : Cache} (h : CacheInv c) {ch : Chunk} (hm : ch ∈ c.chunks) : ChunkInv c.cfg.chunkCfg ch := by
  obtain ⟨i, hi⟩ := List.mem_iff_getElem?.mp hm
  exact h.chunk i ch hi

/-- a chunk holding an item with key `k` is THE chunk of `k` -/
theorem CacheInv.chunk_of_item {c : Cache} (h : CacheInv c) {ch : Chunk} (hm : ch ∈ c.chunks) {it : Item}
    (hit : it ∈ ch.items) : ch = c.chunkOf it.key := by
  obtain ⟨i, hi⟩ := List.mem_iff_getElem?.mp hm
  have hr : c.idx it.key = i := h.routeItems i ch hi it hit
  have := h.chunkOf_get? it.key
  rw [hr, hi] at this
  exact Option.some.inj this

theorem CacheInv.chunk_of_immune {c : Cache} (h : CacheInv c) {ch : Chunk} (hm : ch ∈ c.chunks) {k : Bytes}
    (hk : k ∈ ch.immuneKeys) : ch = c.chunkOf k := by
  obtain ⟨i, hi⟩ := List.mem_iff_getElem?.mp hm
  have hr : c.idx k = i := h.routeImmune i ch hi k hk
  have := h.chunkOf_get? k
  rw [hr, hi] at this
  exact Option.some.inj this

/-- valid configurations: at least one chunk. (`ChunkInv` of an empty chunk needs nothing else; the property's
    "at least one item per chunk", `1 ≤ maxNumItems / numChunks`, is what makes adds succeed, not what makes them safe.) -/
theorem CacheInv.init (cfg : Config) (hn : 1 ≤ cfg.numChunks) : CacheInv (Cache.init cfg) := by
  have hget : ∀ (i : Nat) (ch : Chunk), (Cache.init cfg).chunks[i]? = some ch → ch = Chunk.empty := by
    intro i ch hi
    unfold Cache.init at hi
    rw [List.getElem?_replicate] at hi
    split at hi
    · exact (Option.some.inj hi).symm
    · cases hi
  constructor
  · simp [Cache.init]
  · exact hn
  · intro i ch hi; rw [hget i ch hi]; exact ChunkInv.empty _
  · intro i ch hi it hit; rw [hget i ch hi] at hit; cases hit
  · intro i ch hi k hk; rw [hget i ch hi] at hk; cases hk

/-- the property's "valid configuration": at least one chunk, at least one item and one byte per chunk -/
structure Config.Valid (cfg : Config) : Prop where
  chunks : 1 ≤ cfg.numChunks
  items : 1 ≤ cfg.maxNumItems / cfg.numChunks
  bytes : 1 ≤ cfg.maxNumBytes / cfg.numChunks

theorem CacheInv.init_valid (cfg : Config) (hv : cfg.Valid) : CacheInv (Cache.init cfg) := CacheInv.init cfg hv.chunks

theorem Cache.init_chunkOf (cfg : Config) (k : Bytes) : (Cache.init cfg).chunkOf k = Chunk.empty := by
  unfold Cache.chunkOf Cache.init
  rw [List.getElem?_replicate]
  split <;> rfl

/-- what "at least one item and one byte per chunk" buys: the first add into a fresh cache is accepted
    (safety — `CacheInv` — needs only `1 ≤ numChunks`) -/
theorem init_add_succeeds (cfg : Config) (hv : cfg.Valid) (k p : Bytes) (s : Int) :
    ((Cache.init cfg).hasOrAdd Variant.current k p s).2 = (false, true) := by
  have hmax : max cfg.numChunks 1 = cfg.numChunks := Nat.max_eq_left hv.chunks
  have h1 : 1 ≤ cfg.chunkCfg.maxNumItems := by
    show 1 ≤ cfg.maxNumItems / max cfg.numChunks 1; rw [hmax]; exact hv.items
  have h2 : 1 ≤ cfg.chunkCfg.maxNumBytes := by
    show 1 ≤ cfg.maxNumBytes / max cfg.numChunks 1; rw [hmax]; exact hv.bytes
  have hex : Chunk.empty.exceeded cfg.chunkCfg = false := by
    simp [Chunk.exceeded, Chunk.empty]; omega
  have hev : Chunk.empty.evictIfNeeded cfg.chunkCfg = some Chunk.empty := by
    unfold Chunk.evictIfNeeded; rw [hex]; rfl
  unfold Cache.hasOrAdd
  rw [Cache.init_chunkOf]
  show ((Chunk.empty.addItem Variant.current cfg.chunkCfg k p s).2.1, (Chunk.empty.addItem Variant.current cfg.chunkCfg k p s).2.2) = _
  rcases addItem_cases cfg.chunkCfg Chunk.empty k p s with ⟨hk, _⟩ | ⟨_, he, _⟩ | ⟨_, c', _, e⟩
  · cases hk
  · rw [hev] at he; cases he
  · rw [e]

/-- replacing chunk `i` by a chunk that satisfies the chunk invariant and only holds keys routed to `i` -/
theorem CacheInv.setChunk {c : Cache} (h : CacheInv c) (i : Nat) (ch : Chunk) (hc : ChunkInv c.cfg.chunkCfg ch)
    (hri : ∀ it ∈ ch.items, fnv32 it.key % c.cfg.numChunks = i)
    (hrk : ∀ k ∈ ch.immuneKeys, fnv32 k % c.cfg.numChunks = i) : CacheInv (c.setChunk i ch) := by
  have hcases : ∀ (j : Nat) (ch' : Chunk), (c.setChunk i ch).chunks[j]? = some ch' → (i = j ∧ ch' = ch) ∨ c.chunks[j]? = some ch' := by
    intro j ch' hj
    rw [Cache.setChunk_get?] at hj
    split at hj
    · split at hj
      · rename_i e _; exact Or.inl ⟨e, (Option.some.inj hj).symm⟩
      · cases hj
    · exact Or.inr hj
  constructor
  · show (c.chunks.set i ch).length = c.cfg.numChunks
    rw [List.length_set]; exact h.len
  · exact h.pos
  · intro j ch' hj
    rcases hcases j ch' hj with ⟨_, rfl⟩ | hj'
    · exact hc
    · exact h.chunk j ch' hj'
  · intro j ch' hj
    rcases hcases j ch' hj with ⟨rfl, rfl⟩ | hj'
    · exact hri
    · exact h.routeItems j ch' hj'
  · intro j ch' hj
    rcases hcases j ch' hj with ⟨rfl, rfl⟩ | hj'
    · exact hrk
    · exact h.routeImmune j ch' hj'

/-- every single-key cache operation is "run the chunk operation on the chunk of the key and write it back" -/
def Cache.applyAt (c : Cache) (op : COp) : Cache :=
  c.setChunk (c.idx op.key) ((c.chunkOf op.key).apply c.cfg.chunkCfg op)

theorem CacheInv.applyAt {c : Cache} (h : CacheInv c) (op : COp) (hw : op.sizeOk) : CacheInv (c.applyAt op) := by
  refine h.setChunk _ _ (ChunkInv.apply' _ _ op hw (h.chunkOf_inv _)) ?_ ?_
  · intro it hit
    rcases apply_item_keys _ _ op it hit with e | ⟨it', hit', e⟩
    · rw [e]; rfl
    · rw [← e]; exact h.routeItems _ _ (h.chunkOf_get? _) it' hit'
  · intro x hx
    rcases apply_immune_keys _ _ op x hx with e | hx'
    · rw [e]; rfl
    · exact h.routeImmune _ _ (h.chunkOf_get? _) x hx'

theorem Cache.hasOrAdd_fst (c : Cache) (k p : Bytes) (s : Int) :
    (c.hasOrAdd Variant.current k p s).1 = c.applyAt (.add k p s) := rfl

theorem Cache.remove_fst (c : Cache) (k : Bytes) : (c.remove k).1 = c.applyAt (.rm k) := rfl

/-- one step of the `ImmunizeKeys` loop -/
def Cache.immunizeOne (c : Cache) (k : Bytes) : Cache := c.applyAt (.imm k)

theorem Cache.immunizeKeys_fold (keys : List Bytes) (c : Cache) (a b : Nat) :
    (keys.foldl (fun (acc : Cache × Nat × Nat) k =>
      let (ch, now) := (acc.1.chunkOf k).immunizeKey k
      (acc.1.setChunk (acc.1.idx k) ch, if now then acc.2.1 + 1 else acc.2.1, if now then acc.2.2 else acc.2.2 + 1))
      (c, a, b)).1 = keys.foldl Cache.immunizeOne c := by
  induction keys generalizing c a b with
  | nil => rfl
  | cons k rest ih =>
    rw [List.foldl_cons, List.foldl_cons]
    exact ih _ _ _

/-- the capacity gate of `ImmunizeKeys` -/
def Cache.gateRefuses (c : Cache) (keys : List Bytes) : Prop := c.countImmune + keys.length > c.cfg.maxNumItems

instance (c : Cache) (keys : List Bytes) : Decidable (c.gateRefuses keys) := by unfold Cache.gateRefuses; infer_instance

theorem Cache.immunizeKeys_refused (c : Cache) (keys : List Bytes) (hg : c.gateRefuses keys) :
    c.immunizeKeys keys = (c, 0, 0) := by
  unfold Cache.gateRefuses at hg; unfold Cache.immunizeKeys; rw [if_pos hg]

theorem Cache.immunizeKeys_accepted (c : Cache) (keys : List Bytes) (hg : ¬ c.gateRefuses keys) :
    (c.immunizeKeys keys).1 = keys.foldl Cache.immunizeOne c := by
  unfold Cache.gateRefuses at hg; unfold Cache.immunizeKeys; rw [if_neg hg]; exact Cache.immunizeKeys_fold keys c 0 0

theorem CacheInv.hasOrAdd {c : Cache} (h : CacheInv c) (k p : Bytes) (s : Int) (hs : 0 ≤ s) :
    CacheInv (c.hasOrAdd Variant.current k p s).1 := h.applyAt (.add k p s) hs

theorem CacheInv.remove {c : Cache} (h : CacheInv c) (k : Bytes) : CacheInv (c.remove k).1 := h.applyAt (.rm k) trivial

theorem CacheInv.immunizeOne {c : Cache} (h : CacheInv c) (k : Bytes) : CacheInv (c.immunizeOne k) := h.applyAt (.imm k) trivial

theorem CacheInv.foldl_immunizeOne {c : Cache} (h : CacheInv c) (keys : List Bytes) :
    CacheInv (keys.foldl Cache.immunizeOne c) := by
  induction keys generalizing c with
  | nil => exact h
  | cons k rest ih => exact ih (h.immunizeOne k)

theorem CacheInv.immunizeKeys {c : Cache} (h : CacheInv c) (keys : List Bytes) : CacheInv (c.immunizeKeys keys).1 := by
  by_cases hg : c.gateRefuses keys
  · rw [Cache.immunizeKeys_refused c keys hg]; exact h
  · rw [Cache.immunizeKeys_accepted c keys hg]; exact h.foldl_immunizeOne keys

theorem CacheInv.clear {c : Cache} (h : CacheInv c) : CacheInv c.clear := CacheInv.init c.cfg h.pos

/-- cache-level operations of a history -/
inductive CacheOp where
  | add (k p : Bytes) (size : Int)
  | rm (k : Bytes)
  | imm (keys : List Bytes)
  | clear
  deriving DecidableEq

def Cache.apply (c : Cache) : CacheOp → Cache
  | .add k p s => (c.hasOrAdd Variant.current k p s).1
  | .rm k => (c.remove k).1
  | .imm keys => (c.immunizeKeys keys).1
  | .clear => c.clear

def CacheOp.sizeOk : CacheOp → Prop
  | .add _ _ s => 0 ≤ s
  | _ => True

theorem Cache.foldl_immunizeOne_cfg (keys : List Bytes) (c : Cache) : (keys.foldl Cache.immunizeOne c).cfg = c.cfg := by
  induction keys generalizing c with
  | nil => rfl
  | cons k rest ih => rw [List.foldl_cons, ih]; rfl

@[simp] theorem Cache.apply_cfg (c : Cache) (op : CacheOp) : (c.apply op).cfg = c.cfg := by
  cases op with
  | add k p s => rfl
  | rm k => rfl
  | imm keys =>
    show (c.immunizeKeys keys).1.cfg = c.cfg
    by_cases hg : c.gateRefuses keys
    · rw [Cache.immunizeKeys_refused c keys hg]
    · rw [Cache.immunizeKeys_accepted c keys hg]
      exact Cache.foldl_immunizeOne_cfg keys c
  | clear => rfl


theorem CacheInv.apply {c : Cache} (h : CacheInv c) (op : CacheOp) (hw : op.sizeOk) : CacheInv (c.apply op) := by
  cases op with
  | add k p s => exact h.hasOrAdd k p s hw
  | rm k => exact h.remove k
  | imm keys => exact h.immunizeKeys keys
  | clear => exact h.clear

theorem CacheInv.foldl {c : Cache} (h : CacheInv c) (ops : List CacheOp) (hw : ∀ op ∈ ops, op.sizeOk) :
    CacheInv (ops.foldl Cache.apply c) := by
  induction ops generalizing c with
  | nil => exact h
  | cons op rest ih =>
    exact ih (h.apply op (hw op List.mem_cons_self)) (fun o ho => hw o (List.mem_cons_of_mem _ ho))

/-- every cache reachable from `Cache.init cfg` (any number of chunks ≥ 1) satisfies the invariant -/
theorem CacheInv.run (cfg : Config) (hn : 1 ≤ cfg.numChunks) (ops : List CacheOp) (hw : ∀ op ∈ ops, op.sizeOk) :
    CacheInv (ops.foldl Cache.apply (Cache.init cfg)) := (CacheInv.init cfg hn).foldl ops hw

theorem Cache.foldl_apply_cfg (ops : List CacheOp) (c : Cache) : (ops.foldl Cache.apply c).cfg = c.cfg := by
  induction ops generalizing c with
  | nil => rfl
  | cons op rest ih => rw [List.foldl_cons, ih, Cache.apply_cfg]

/-! ### 2. the cache never holds more than MaxNumItems items -/

theorem sum_map_le_mul {α : Type} (l : List α) (f : α → Nat) (b : Nat) (h : ∀ x ∈ l, f x ≤ b) :
    (l.map f).sum ≤ l.length * b := by
  induction l with
  | nil => simp
  | cons a rest ih =>
    have h1 := h a List.mem_cons_self
    have h2 := ih (fun x hx => h x (List.mem_cons_of_mem _ hx))
    simp only [List.map_cons, List.sum_cons, List.length_cons]
    rw [Nat.succ_mul]
    omega

theorem Config.chunkCfg_maxNumItems (cfg : Config) (hn : 1 ≤ cfg.numChunks) :
    cfg.chunkCfg.maxNumItems = cfg.maxNumItems / cfg.numChunks := by
  show cfg.maxNumItems / max cfg.numChunks 1 = _
  rw [Nat.max_eq_left hn]

/-- C13: the cache (all chunks together) never holds more than MaxNumItems items -/
theorem count_le_max {c : Cache} (h : CacheInv c) : c.count ≤ c.cfg.maxNumItems := by
  have h1 : c.count ≤ c.chunks.length * c.cfg.chunkCfg.maxNumItems :=
    sum_map_le_mul c.chunks (·.items.length) _ (fun ch hch => (h.chunk_mem hch).bound)
  rw [h.len, Config.chunkCfg_maxNumItems c.cfg h.pos] at h1
  exact Nat.le_trans h1 (Nat.mul_div_le _ _)

/-- … along every history, for every valid configuration -/
theorem count_le_max_run (cfg : Config) (hn : 1 ≤ cfg.numChunks) (ops : List CacheOp) (hw : ∀ op ∈ ops, op.sizeOk) :
    (ops.foldl Cache.apply (Cache.init cfg)).count ≤ cfg.maxNumItems := by
  have := count_le_max (CacheInv.run cfg hn ops hw)
  rwa [Cache.foldl_apply_cfg] at this

/-! ### 3. the views agree -/

/-- all immune keys of the cache (the union of the chunks' `immuneKeys` sets) -/
def Cache.immuneKeys (c : Cache) : List Bytes := c.chunks.flatMap (·.immuneKeys)

/-- an item is in the cache iff it is in the chunk its key is routed to -/
theorem mem_items_iff {c : Cache} (h : CacheInv c) (it : Item) : it ∈ c.items ↔ it ∈ (c.chunkOf it.key).items := by
  unfold Cache.items
  rw [List.mem_flatMap]
  constructor
  · rintro ⟨ch, hch, hit⟩
    rw [← h.chunk_of_item hch hit]; exact hit
  · intro hit
    exact ⟨_, h.chunkOf_mem _, hit⟩

theorem mem_immuneKeys_iff {c : Cache} (h : CacheInv c) (k : Bytes) : k ∈ c.immuneKeys ↔ k ∈ (c.chunkOf k).immuneKeys := by
  unfold Cache.immuneKeys
  rw [List.mem_flatMap]
  constructor
  · rintro ⟨ch, hch, hk⟩
    rw [← h.chunk_of_immune hch hk]; exact hk
  · intro hk
    exact ⟨_, h.chunkOf_mem _, hk⟩

/-- Get and the item list (Keys / ForEachItem) describe the same map -/
theorem get_iff {c : Cache} (h : CacheInv c) (k p : Bytes) :
    c.get k = some p ↔ ∃ it ∈ c.items, it.key = k ∧ it.payload = p := by
  unfold Cache.get
  constructor
  · intro hg
    rw [Option.map_eq_some_iff] at hg
    obtain ⟨it, hget, hp⟩ := hg
    obtain ⟨hit, hkey⟩ := get_some_mem _ k it hget
    refine ⟨it, ?_, hkey, hp⟩
    rw [mem_items_iff h, hkey]; exact hit
  · rintro ⟨it, hit, rfl, rfl⟩
    rw [mem_items_iff h] at hit
    rw [(h.chunkOf_inv it.key).get_of_mem hit]; rfl

/-- Has (= `(get k).isSome`) and the key list -/
theorem has_iff {c : Cache} (h : CacheInv c) (k : Bytes) : (c.get k).isSome = true ↔ k ∈ c.items.map (·.key) := by
  rw [Option.isSome_iff_exists, List.mem_map]
  constructor
  · rintro ⟨p, hp⟩
    obtain ⟨it, hit, hk, _⟩ := (get_iff h k p).mp hp
    exact ⟨it, hit, hk⟩
  · rintro ⟨it, hit, hk⟩
    exact ⟨it.payload, (get_iff h k it.payload).mpr ⟨it, hit, hk, rfl⟩⟩

/-- the keys of the cache are pairwise distinct — across chunks, by routing -/
theorem items_keys_nodup {c : Cache} (h : CacheInv c) : (c.items.map (·.key)).Nodup := by
  unfold Cache.items
  rw [List.map_flatMap, List.nodup_iff_pairwise_ne, List.pairwise_flatMap]
  refine ⟨fun ch hch => (h.chunk_mem hch).keysNodup, ?_⟩
  rw [List.pairwise_iff_getElem]
  intro i j hi hj hij x hx y hy e
  obtain ⟨a, ha, rfl⟩ := List.mem_map.mp hx
  obtain ⟨b, hb, hab⟩ := List.mem_map.mp hy
  have r1 := h.routeItems i _ (List.getElem?_eq_getElem hi) a ha
  have r2 := h.routeItems j _ (List.getElem?_eq_getElem hj) b hb
  rw [hab, ← e, r1] at r2
  omega

/-- Count = Len = number of items -/
theorem count_eq_length (c : Cache) : c.count = c.items.length := by
  unfold Cache.count Cache.items
  rw [List.length_flatMap]

theorem numBytes_eq_aux (l : List Chunk) (h : ∀ ch ∈ l, ch.numBytes = sumSz ch.items) :
    (l.map (·.numBytes)).foldl (· + ·) 0 = sumSz (l.flatMap (·.items)) := by
  induction l with
  | nil => rfl
  | cons a rest ih =>
    rw [List.map_cons, List.foldl_cons, foldl_add_int, List.flatMap_cons, sumSz_append,
      ih (fun ch hch => h ch (List.mem_cons_of_mem _ hch)), h a List.mem_cons_self]
    omega

/-- NumBytes = Σ of the sizes of the resident items (no clamp ever fires) -/
theorem numBytes_eq_sum {c : Cache} (h : CacheInv c) : c.numBytes = sumSz c.items :=
  numBytes_eq_aux c.chunks (fun _ hch => (h.chunk_mem hch).bytes)

theorem numBytes_nonneg {c : Cache} (h : CacheInv c) : 0 ≤ c.numBytes := by
  rw [numBytes_eq_sum h]
  apply sumSz_nonneg
  intro it hit
  rw [mem_items_iff h] at hit
  exact (h.chunkOf_inv it.key).sizes it hit

/-- CountImmune = number of DISTINCT immune keys over all chunks -/
theorem immuneKeys_nodup {c : Cache} (h : CacheInv c) : c.immuneKeys.Nodup := by
  unfold Cache.immuneKeys
  rw [List.nodup_iff_pairwise_ne, List.pairwise_flatMap]
  refine ⟨fun ch hch => (h.chunk_mem hch).immuneNodup, ?_⟩
  rw [List.pairwise_iff_getElem]
  intro i j hi hj hij x hx y hy e
  have r1 := h.routeImmune i _ (List.getElem?_eq_getElem hi) x hx
  have r2 := h.routeImmune j _ (List.getElem?_eq_getElem hj) y hy
  rw [← e, r1] at r2
  omega

theorem countImmune_eq_length (c : Cache) : c.countImmune = c.immuneKeys.length := by
  unfold Cache.countImmune Cache.immuneKeys
  rw [List.length_flatMap]

/-- how the immune-key set evolves: adds leave it alone, `remove k` deletes `k`, an accepted `immunizeKeys keys` adds `keys`,
    a refused one and nothing else changes it, `clear` empties it.  Together with `countImmune_eq_length`/`immuneKeys_nodup`:
    CountImmune = number of accepted immune keys not since removed. -/
theorem chunkOf_applyAt {c : Cache} (h : CacheInv c) (op : COp) (k : Bytes) :
    (c.applyAt op).chunkOf k =
      if c.idx k = c.idx op.key then (c.chunkOf k).apply c.cfg.chunkCfg op else c.chunkOf k := by
  unfold Cache.applyAt
  rw [Cache.chunkOf_setChunk _ _ _ _ (h.idx_lt _)]
  split
  · rename_i e; rw [c.chunkOf_congr _ _ e]
  · rfl

theorem immuneKeys_hasOrAdd {c : Cache} (h : CacheInv c) (k p : Bytes) (s : Int) (hs : 0 ≤ s) (x : Bytes) :
    x ∈ (c.hasOrAdd Variant.current k p s).1.immuneKeys ↔ x ∈ c.immuneKeys := by
  rw [mem_immuneKeys_iff (h.hasOrAdd k p s hs), mem_immuneKeys_iff h, Cache.hasOrAdd_fst, chunkOf_applyAt h]
  split
  · show x ∈ ((c.chunkOf x).addItem Variant.current c.cfg.chunkCfg k p s).1.immuneKeys ↔ _
    rw [addItem_immuneKeys]
  · rfl

theorem immuneKeys_remove {c : Cache} (h : CacheInv c) (k x : Bytes) :
    x ∈ (c.remove k).1.immuneKeys ↔ x ∈ c.immuneKeys ∧ x ≠ k := by
  rw [mem_immuneKeys_iff (h.remove k), mem_immuneKeys_iff h, Cache.remove_fst, chunkOf_applyAt h]
  split
  · show x ∈ ((c.chunkOf x).removeItem k).1.immuneKeys ↔ _
    have : ((c.chunkOf x).removeItem k).1.immuneKeys = (c.chunkOf x).immuneKeys.filter (· != k) := by
      unfold Chunk.removeItem; dsimp only; split <;> rfl
    rw [this, List.mem_filter]; simp
  · rename_i hne
    have : x ≠ k := fun e => hne (e ▸ rfl)
    simp [this]

theorem immuneKeys_immunizeOne {c : Cache} (h : CacheInv c) (k x : Bytes) :
    x ∈ (c.immunizeOne k).immuneKeys ↔ x ∈ c.immuneKeys ∨ x = k := by
  rw [mem_immuneKeys_iff (h.immunizeOne k), mem_immuneKeys_iff h, Cache.immunizeOne, chunkOf_applyAt h]
  split
  · show x ∈ ((c.chunkOf x).immunizeKey k).1.immuneKeys ↔ _
    rw [immunizeKey_immuneKeys_mem]
  · rename_i hne
    have : x ≠ k := fun e => hne (e ▸ rfl)
    simp [this]

theorem immuneKeys_foldl_immunizeOne {c : Cache} (h : CacheInv c) (keys : List Bytes) (x : Bytes) :
    x ∈ (keys.foldl Cache.immunizeOne c).immuneKeys ↔ x ∈ c.immuneKeys ∨ x ∈ keys := by
  induction keys generalizing c with
  | nil => simp
  | cons k rest ih =>
    rw [List.foldl_cons, ih (h.immunizeOne k), immuneKeys_immunizeOne h, List.mem_cons, or_assoc]

theorem immuneKeys_immunizeKeys {c : Cache} (h : CacheInv c) (keys : List Bytes) (x : Bytes) :
    x ∈ (c.immunizeKeys keys).1.immuneKeys ↔ x ∈ c.immuneKeys ∨ (¬ c.gateRefuses keys ∧ x ∈ keys) := by
  by_cases hg : c.gateRefuses keys
  · rw [Cache.immunizeKeys_refused c keys hg]; simp [hg]
  · rw [Cache.immunizeKeys_accepted c keys hg, immuneKeys_foldl_immunizeOne h]; simp [hg]

theorem immuneKeys_clear (c : Cache) : c.clear.immuneKeys = [] := by
  unfold Cache.clear Cache.init Cache.immuneKeys
  induction c.cfg.numChunks with
  | zero => rfl
  | succ n ih => rw [List.replicate_succ, List.flatMap_cons, ih]; rfl

/-- the immune capacity: an accepted `ImmunizeKeys` keeps CountImmune ≤ MaxNumItems -/
theorem countImmune_immunizeOne_le {c : Cache} (h : CacheInv c) (k : Bytes) :
    (c.immunizeOne k).countImmune ≤ c.countImmune + 1 := by
  rw [countImmune_eq_length, countImmune_eq_length]
  have hnd := immuneKeys_nodup (h.immunizeOne k)
  have : (c.immunizeOne k).immuneKeys.length ≤ (k :: c.immuneKeys).length :=
    List.Nodup.length_le_of_subset hnd (fun x hx => by
      rcases (immuneKeys_immunizeOne h k x).mp hx with h1 | h1
      · exact List.mem_cons_of_mem _ h1
      · rw [h1]; exact List.mem_cons_self)
  simpa using this


theorem countImmune_foldl_immunizeOne_le {c : Cache} (h : CacheInv c) (keys : List Bytes) :
    (keys.foldl Cache.immunizeOne c).countImmune ≤ c.countImmune + keys.length := by
  induction keys generalizing c with
  | nil => simp
  | cons k rest ih =>
    have h1 := ih (h.immunizeOne k)
    have h2 := countImmune_immunizeOne_le h k
    rw [List.foldl_cons, List.length_cons]
    omega

/-- the immune-key capacity is an invariant of every cache operation -/
theorem countImmune_le_max_step {c : Cache} (h : CacheInv c) (op : CacheOp) (hw : op.sizeOk)
    (hc : c.countImmune ≤ c.cfg.maxNumItems) : (c.apply op).countImmune ≤ c.cfg.maxNumItems := by
  have hsub : ∀ c' : Cache, CacheInv c' → (∀ x, x ∈ c'.immuneKeys → x ∈ c.immuneKeys) → c'.countImmune ≤ c.countImmune := by
    intro c' h' hs
    rw [countImmune_eq_length, countImmune_eq_length]
    exact List.Nodup.length_le_of_subset (immuneKeys_nodup h') hs
  cases op with
  | add k p s =>
    exact Nat.le_trans (hsub _ (h.hasOrAdd k p s hw) (fun x hx => (immuneKeys_hasOrAdd h k p s hw x).mp hx)) hc
  | rm k =>
    exact Nat.le_trans (hsub _ (h.remove k) (fun x hx => ((immuneKeys_remove h k x).mp hx).1)) hc
  | imm keys =>
    show (c.immunizeKeys keys).1.countImmune ≤ _
    by_cases hg : c.gateRefuses keys
    · rw [Cache.immunizeKeys_refused c keys hg]; exact hc
    · rw [Cache.immunizeKeys_accepted c keys hg]
      have := countImmune_foldl_immunizeOne_le h keys
      unfold Cache.gateRefuses at hg
      omega
  | clear =>
    show c.clear.countImmune ≤ _
    rw [countImmune_eq_length, immuneKeys_clear]; exact Nat.zero_le _

theorem countImmune_le_max_run (cfg : Config) (hn : 1 ≤ cfg.numChunks) (ops : List CacheOp) (hw : ∀ op ∈ ops, op.sizeOk) :
    (ops.foldl Cache.apply (Cache.init cfg)).countImmune ≤ cfg.maxNumItems := by
  suffices ∀ c : Cache, CacheInv c → c.countImmune ≤ c.cfg.maxNumItems →
      (ops.foldl Cache.apply c).countImmune ≤ c.cfg.maxNumItems by
    have h0 : (Cache.init cfg).countImmune = 0 := by
      rw [countImmune_eq_length]; exact congrArg List.length (immuneKeys_clear (Cache.init cfg))
    exact this _ (CacheInv.init cfg hn) (by rw [h0]; exact Nat.zero_le _)
  induction ops with
  | nil => intro c _ hc; exact hc
  | cons op rest ih =>
    intro c h hc
    have hwo := hw op List.mem_cons_self
    have := ih (fun o ho => hw o (List.mem_cons_of_mem _ ho)) (c.apply op) (h.apply op hwo)
      (by rw [Cache.apply_cfg]; exact countImmune_le_max_step h op hwo hc)
    rwa [Cache.apply_cfg] at this

/-! ### 4. cache-level flags of HasOrAdd -/

theorem get_applyAt {c : Cache} (h : CacheInv c) (op : COp) (k : Bytes) :
    (c.applyAt op).get k =
      if c.idx k = c.idx op.key then (((c.chunkOf k).apply c.cfg.chunkCfg op).get k).map (·.payload) else c.get k := by
  unfold Cache.get
  rw [chunkOf_applyAt h]
  split <;> rfl

/-- C13: `has` ⇔ the key was present; `added` ⇔ it became present; and then it is retrievable with the given payload -/
theorem hasOrAdd_flags {c : Cache} (h : CacheInv c) (k p : Bytes) (s : Int) :
    let r := c.hasOrAdd Variant.current k p s
    r.2.1 = (c.get k).isSome ∧
    (r.2.2 = true ↔ ((c.get k).isSome = false ∧ (r.1.get k).isSome = true)) ∧
    (r.2.2 = true → r.1.get k = some p) := by
  intro r
  have hget : r.1.get k = ((((c.chunkOf k).addItem Variant.current c.cfg.chunkCfg k p s).1).get k).map (·.payload) := by
    show (c.applyAt (.add k p s)).get k = _
    rw [get_applyAt h]
    exact if_pos rfl
  have hold : (c.get k).isSome = (c.chunkOf k).has k := by
    unfold Cache.get; rw [Option.isSome_map, has_eq_isSome]
  have hnew : (r.1.get k).isSome = ((c.chunkOf k).addItem Variant.current c.cfg.chunkCfg k p s).1.has k := by
    rw [hget, Option.isSome_map, has_eq_isSome]
  obtain ⟨f1, f2, _⟩ := addItem_flags c.cfg.chunkCfg (c.chunkOf k) k p s
  refine ⟨?_, ?_, ?_⟩
  · rw [hold]; exact f1
  · rw [hold, hnew]; exact f2
  · intro ha
    rw [hget, addItem_added_get _ _ _ _ _ ha]; rfl

/-- C12: an add of a key that is present changes NOTHING (in particular not its payload) and reports has = true -/
theorem hasOrAdd_present (c : Cache) (k p : Bytes) (s : Int) (hk : (c.get k).isSome = true) :
    c.hasOrAdd Variant.current k p s = (c, true, false) := by
  have hk' : (c.chunkOf k).has k = true := by
    rw [has_eq_isSome]; unfold Cache.get at hk; rwa [Option.isSome_map] at hk
  unfold Cache.hasOrAdd
  rw [addItem_present _ _ _ _ _ hk']
  show (c.setChunk (c.idx k) (c.chunkOf k), true, false) = _
  rw [Cache.setChunk_chunkOf]

/-- keys routed to OTHER chunks are not touched at all by an add -/
theorem hasOrAdd_other_chunk {c : Cache} (h : CacheInv c) (k p : Bytes) (s : Int) (k' : Bytes) (hne : c.idx k' ≠ c.idx k) :
    (c.hasOrAdd Variant.current k p s).1.chunkOf k' = c.chunkOf k' := by
  rw [Cache.hasOrAdd_fst, chunkOf_applyAt h]
  exact if_neg hne

/-- C12: residency of another key `k'` changes only by eviction of a NON-immune item of the same chunk:
    either `get k'` is as before, or `k'` was resident, not immune, in the chunk of `k`, and is now absent -/
theorem hasOrAdd_get_other {c : Cache} (h : CacheInv c) (k p : Bytes) (s : Int) (k' : Bytes) (hne : k' ≠ k) :
    (c.hasOrAdd Variant.current k p s).1.get k' = c.get k' ∨
    ((c.hasOrAdd Variant.current k p s).1.get k' = none ∧ (c.get k').isSome = true ∧ c.idx k' = c.idx k ∧
      k' ∉ c.immuneKeys) := by
  rw [Cache.hasOrAdd_fst, get_applyAt h]
  split
  · rename_i e
    have hinv := h.chunkOf_inv k'
    rcases addItem_get_other c.cfg.chunkCfg (c.chunkOf k') k p s hinv k' hne with e1 | ⟨e1, it, e2, e3⟩
    · left
      show Option.map _ (((c.chunkOf k').addItem Variant.current c.cfg.chunkCfg k p s).1.get k') = _
      rw [e1]; rfl
    · right
      refine ⟨?_, ?_, e, ?_⟩
      · show Option.map _ (((c.chunkOf k').addItem Variant.current c.cfg.chunkCfg k p s).1.get k') = _
        rw [e1]; rfl
      · unfold Cache.get; rw [e2]; rfl
      · rw [mem_immuneKeys_iff h]
        obtain ⟨hit, hkey⟩ := get_some_mem _ k' it e2
        have hf := hinv.flags it hit
        rw [e3, hkey] at hf
        intro hmem
        rw [List.contains_iff_mem.mpr hmem] at hf
        cases hf
  · exact Or.inl rfl

/-- C12: an add never changes the payload under which a present key (the added one or any other) is stored -/
theorem hasOrAdd_payload_stable {c : Cache} (h : CacheInv c) (k p : Bytes) (s : Int) (k' q : Bytes)
    (hq : c.get k' = some q) :
    (c.hasOrAdd Variant.current k p s).1.get k' = some q ∨ (c.hasOrAdd Variant.current k p s).1.get k' = none := by
  by_cases e : k' = k
  · subst e
    rw [hasOrAdd_present c k' p s (by rw [hq]; rfl)]
    exact Or.inl hq
  · rcases hasOrAdd_get_other h k p s k' e with e1 | ⟨e1, _⟩
    · rw [e1]; exact Or.inl hq
    · exact Or.inr e1

/-- an add makes no key other than `k` appear -/
theorem hasOrAdd_no_new_other {c : Cache} (h : CacheInv c) (k p : Bytes) (s : Int) (k' q : Bytes) (hne : k' ≠ k)
    (hq : (c.hasOrAdd Variant.current k p s).1.get k' = some q) : c.get k' = some q := by
  rcases hasOrAdd_get_other h k p s k' hne with e1 | ⟨e1, _⟩
  · rw [← e1]; exact hq
  · rw [e1] at hq; cases hq

/-- an immune key is never lost to an add (cache-level form of "eviction skips immune items") -/
theorem hasOrAdd_keeps_immune {c : Cache} (h : CacheInv c) (k p : Bytes) (s : Int) (k' q : Bytes)
    (himm : k' ∈ c.immuneKeys) (hq : c.get k' = some q) : (c.hasOrAdd Variant.current k p s).1.get k' = some q := by
  by_cases e : k' = k
  · subst e
    rw [hasOrAdd_present c k' p s (by rw [hq]; rfl)]
    exact hq
  · rcases hasOrAdd_get_other h k p s k' e with e1 | ⟨_, _, _, e4⟩
    · rw [e1]; exact hq
    · exact absurd himm e4

/-! ### 5. cache-level protection (C12) -/

/-- `k` is in the immune set of its chunk and resident with payload `p` -/
def CProtected (c : Cache) (k p : Bytes) : Prop := k ∈ (c.chunkOf k).immuneKeys ∧ c.get k = some p

/-- `k` is immune (now, or "in the future" if it is not resident yet) -/
def CImmune (c : Cache) (k : Bytes) : Prop := k ∈ (c.chunkOf k).immuneKeys

theorem cimmune_iff {c : Cache} (h : CacheInv c) (k : Bytes) : CImmune c k ↔ k ∈ c.immuneKeys :=
  (mem_immuneKeys_iff h k).symm

/-- the cache-level notion is the chunk-level `Protected` of the chunk the key is routed to -/
theorem cprotected_iff {c : Cache} (h : CacheInv c) (k p : Bytes) : CProtected c k p ↔ Protected (c.chunkOf k) k p := by
  have hinv := h.chunkOf_inv k
  unfold CProtected Protected Cache.get
  constructor
  · rintro ⟨hk, hg⟩
    rw [Option.map_eq_some_iff] at hg
    obtain ⟨it, hget, hp⟩ := hg
    obtain ⟨hit, hkey⟩ := get_some_mem _ k it hget
    refine ⟨hk, it, hit, hkey, hp, ?_⟩
    rw [hinv.flags it hit, hkey]
    exact List.contains_iff_mem.mpr hk
  · rintro ⟨hk, it, hit, rfl, rfl, _⟩
    refine ⟨hk, ?_⟩
    rw [hinv.get_of_mem hit]; rfl

/-- in terms of the cache's views only -/
theorem cprotected_iff_views {c : Cache} (h : CacheInv c) (k p : Bytes) :
    CProtected c k p ↔ k ∈ c.immuneKeys ∧ ∃ it ∈ c.items, it.key = k ∧ it.payload = p := by
  unfold CProtected
  rw [← mem_immuneKeys_iff h, get_iff h]

theorem cprotected_applyAt {c : Cache} (h : CacheInv c) (k p : Bytes) (op : COp) (hw : op.sizeOk)
    (hp : CProtected c k p) (hop : op ≠ COp.rm k) : CProtected (c.applyAt op) k p := by
  by_cases e : c.idx k = c.idx op.key
  · rw [cprotected_iff (h.applyAt op hw), chunkOf_applyAt h, if_pos e]
    exact Protected.step _ _ k p op (h.chunkOf_inv k) ((cprotected_iff h k p).mp hp) hop
  · unfold CProtected Cache.get at hp ⊢
    rw [chunkOf_applyAt h, if_neg e]
    exact hp

theorem cimmune_applyAt {c : Cache} (h : CacheInv c) (k : Bytes) (op : COp)
    (hp : CImmune c k) (hop : op ≠ COp.rm k) : CImmune (c.applyAt op) k := by
  unfold CImmune at hp ⊢
  rw [chunkOf_applyAt h]
  split
  · cases op with
    | add k' p' s =>
      show k ∈ ((c.chunkOf k).addItem Variant.current c.cfg.chunkCfg k' p' s).1.immuneKeys
      rw [addItem_immuneKeys]; exact hp
    | rm k' =>
      have hne : k ≠ k' := fun e => hop (e ▸ rfl)
      have : ((c.chunkOf k).removeItem k').1.immuneKeys = (c.chunkOf k).immuneKeys.filter (· != k') := by
        unfold Chunk.removeItem; dsimp only; split <;> rfl
      show k ∈ ((c.chunkOf k).removeItem k').1.immuneKeys
      rw [this, List.mem_filter]
      exact ⟨hp, by simpa using hne⟩
    | imm k' =>
      show k ∈ ((c.chunkOf k).immunizeKey k').1.immuneKeys
      rw [immunizeKey_immuneKeys_mem]; exact Or.inl hp
  · exact hp

theorem cprotected_foldl_immunizeOne {c : Cache} (h : CacheInv c) (k p : Bytes) (keys : List Bytes)
    (hp : CProtected c k p) : CProtected (keys.foldl Cache.immunizeOne c) k p := by
  induction keys generalizing c with
  | nil => exact hp
  | cons k' rest ih =>
    exact ih (h.immunizeOne k') (cprotected_applyAt h k p (.imm k') trivial hp (fun e => by cases e))

theorem cimmune_foldl_immunizeOne {c : Cache} (h : CacheInv c) (k : Bytes) (keys : List Bytes)
    (hp : CImmune c k) : CImmune (keys.foldl Cache.immunizeOne c) k := by
  induction keys generalizing c with
  | nil => exact hp
  | cons k' rest ih =>
    exact ih (h.immunizeOne k') (cimmune_applyAt h k (.imm k') hp (fun e => by cases e))

/-- C12: protection is preserved by EVERY cache operation other than `remove k` and `clear`:
    adds of any key (whatever eviction they trigger), removes of other keys, `ImmunizeKeys` of any keys (accepted or refused) -/
theorem cprotected_step {c : Cache} (h : CacheInv c) (k p : Bytes) (op : CacheOp) (hw : op.sizeOk)
    (hp : CProtected c k p) (hrm : op ≠ CacheOp.rm k) (hcl : op ≠ CacheOp.clear) : CProtected (c.apply op) k p := by
  cases op with
  | add k' p' s => exact cprotected_applyAt h k p (.add k' p' s) hw hp (fun e => by cases e)
  | rm k' => exact cprotected_applyAt h k p (.rm k') trivial hp (fun e => hrm (by cases e; rfl))
  | imm keys =>
    show CProtected (c.immunizeKeys keys).1 k p
    by_cases hg : c.gateRefuses keys
    · rw [Cache.immunizeKeys_refused c keys hg]; exact hp
    · rw [Cache.immunizeKeys_accepted c keys hg]; exact cprotected_foldl_immunizeOne h k p keys hp
  | clear => exact absurd rfl hcl

/-- future immunity (an immunized key that is not (yet) resident) persists in the same way -/
theorem cimmune_step {c : Cache} (h : CacheInv c) (k : Bytes) (op : CacheOp)
    (hp : CImmune c k) (hrm : op ≠ CacheOp.rm k) (hcl : op ≠ CacheOp.clear) : CImmune (c.apply op) k := by
  cases op with
  | add k' p' s => exact cimmune_applyAt h k (.add k' p' s) hp (fun e => by cases e)
  | rm k' => exact cimmune_applyAt h k (.rm k') hp (fun e => hrm (by cases e; rfl))
  | imm keys =>
    show CImmune (c.immunizeKeys keys).1 k
    by_cases hg : c.gateRefuses keys
    · rw [Cache.immunizeKeys_refused c keys hg]; exact hp
    · rw [Cache.immunizeKeys_accepted c keys hg]; exact cimmune_foldl_immunizeOne h k keys hp
  | clear => exact absurd rfl hcl

/-- C12: … hence along any cache-level history without `remove k` and `clear`: the item stays retrievable with its
    ORIGINAL payload -/
theorem cprotected_run {c : Cache} (h : CacheInv c) (k p : Bytes) (ops : List CacheOp) (hw : ∀ op ∈ ops, op.sizeOk)
    (hp : CProtected c k p) (hrm : CacheOp.rm k ∉ ops) (hcl : CacheOp.clear ∉ ops) :
    CProtected (ops.foldl Cache.apply c) k p := by
  induction ops generalizing c with
  | nil => exact hp
  | cons op rest ih =>
    have hwo := hw op List.mem_cons_self
    exact ih (h.apply op hwo) (fun o ho => hw o (List.mem_cons_of_mem _ ho))
      (cprotected_step h k p op hwo hp (fun e => hrm (e ▸ List.mem_cons_self)) (fun e => hcl (e ▸ List.mem_cons_self)))
      (fun hm => hrm (List.mem_cons_of_mem _ hm)) (fun hm => hcl (List.mem_cons_of_mem _ hm))

theorem cprotected_run_get {c : Cache} (h : CacheInv c) (k p : Bytes) (ops : List CacheOp) (hw : ∀ op ∈ ops, op.sizeOk)
    (hp : CProtected c k p) (hrm : CacheOp.rm k ∉ ops) (hcl : CacheOp.clear ∉ ops) :
    (ops.foldl Cache.apply c).get k = some p := (cprotected_run h k p ops hw hp hrm hcl).2

theorem cimmune_run {c : Cache} (h : CacheInv c) (k : Bytes) (ops : List CacheOp) (hw : ∀ op ∈ ops, op.sizeOk)
    (hp : CImmune c k) (hrm : CacheOp.rm k ∉ ops) (hcl : CacheOp.clear ∉ ops) :
    CImmune (ops.foldl Cache.apply c) k := by
  induction ops generalizing c with
  | nil => exact hp
  | cons op rest ih =>
    have hwo := hw op List.mem_cons_self
    exact ih (h.apply op hwo) (fun o ho => hw o (List.mem_cons_of_mem _ ho))
      (cimmune_step h k op hp (fun e => hrm (e ▸ List.mem_cons_self)) (fun e => hcl (e ▸ List.mem_cons_self)))
      (fun hm => hrm (List.mem_cons_of_mem _ hm)) (fun hm => hcl (List.mem_cons_of_mem _ hm))

/-- payloads are not touched by immunization -/
theorem get_immunizeOne {c : Cache} (h : CacheInv c) (k' k : Bytes) : (c.immunizeOne k').get k = c.get k := by
  rw [Cache.immunizeOne, get_applyAt h]
  split
  · show Option.map _ (((c.chunkOf k).immunizeKey k').1.get k) = _
    rw [immunizeKey_get_payload]; rfl
  · rfl

theorem get_foldl_immunizeOne {c : Cache} (h : CacheInv c) (keys : List Bytes) (k : Bytes) :
    (keys.foldl Cache.immunizeOne c).get k = c.get k := by
  induction keys generalizing c with
  | nil => rfl
  | cons k' rest ih => rw [List.foldl_cons, ih (h.immunizeOne k'), get_immunizeOne h]

/-- `ImmunizeKeys` (accepted or refused) never changes what `Get` returns -/
theorem get_immunizeKeys {c : Cache} (h : CacheInv c) (keys : List Bytes) (k : Bytes) :
    (c.immunizeKeys keys).1.get k = c.get k := by
  by_cases hg : c.gateRefuses keys
  · rw [Cache.immunizeKeys_refused c keys hg]
  · rw [Cache.immunizeKeys_accepted c keys hg, get_foldl_immunizeOne h]

/-- an accepted `ImmunizeKeys keys` makes every `k ∈ keys` immune (resident or not) -/
theorem cimmune_of_immunize {c : Cache} (h : CacheInv c) (keys : List Bytes) (hg : ¬ c.gateRefuses keys)
    (k : Bytes) (hk : k ∈ keys) : CImmune (c.immunizeKeys keys).1 k := by
  rw [cimmune_iff (h.immunizeKeys keys), immuneKeys_immunizeKeys h]
  exact Or.inr ⟨hg, hk⟩

/-- C12: protection starts when `ImmunizeKeys keys` is accepted (the gate passes) and `k ∈ keys` is resident with payload `p` -/
theorem cprotected_of_immunize {c : Cache} (h : CacheInv c) (keys : List Bytes) (hg : ¬ c.gateRefuses keys)
    (k p : Bytes) (hk : k ∈ keys) (hres : c.get k = some p) : CProtected (c.immunizeKeys keys).1 k p :=
  ⟨cimmune_of_immunize h keys hg k hk, by rw [get_immunizeKeys h]; exact hres⟩

/-- C12: … or when a key that was immunized earlier (future immunity) is added -/
theorem cprotected_of_add {c : Cache} (h : CacheInv c) (k p : Bytes) (s : Int) (hk : CImmune c k)
    (ha : (c.hasOrAdd Variant.current k p s).2.2 = true) : CProtected (c.hasOrAdd Variant.current k p s).1 k p := by
  refine ⟨?_, (hasOrAdd_flags h k p s).2.2 ha⟩
  exact cimmune_applyAt h k (.add k p s) hk (fun e => by cases e)

/-- C12, the whole story: `ImmunizeKeys keys` accepted with `k ∈ keys`; any history `ops₁` without `remove k`/`clear`;
    `HasOrAdd k p` reports added; any history `ops₂` without `remove k`/`clear`: `Get k` still returns `p`. -/
theorem immunize_then_add_protected {c : Cache} (h : CacheInv c) (keys : List Bytes) (hg : ¬ c.gateRefuses keys)
    (k p : Bytes) (s : Int) (hs : 0 ≤ s) (hk : k ∈ keys) (ops₁ ops₂ : List CacheOp)
    (hw₁ : ∀ op ∈ ops₁, op.sizeOk) (hw₂ : ∀ op ∈ ops₂, op.sizeOk)
    (hrm₁ : CacheOp.rm k ∉ ops₁) (hcl₁ : CacheOp.clear ∉ ops₁) (hrm₂ : CacheOp.rm k ∉ ops₂) (hcl₂ : CacheOp.clear ∉ ops₂)
    (ha : ((ops₁.foldl Cache.apply (c.immunizeKeys keys).1).hasOrAdd Variant.current k p s).2.2 = true) :
    (ops₂.foldl Cache.apply ((ops₁.foldl Cache.apply (c.immunizeKeys keys).1).hasOrAdd Variant.current k p s).1).get k
      = some p := by
  have h1 := h.immunizeKeys keys
  have h2 := h1.foldl ops₁ hw₁
  have i2 := cimmune_run h1 k ops₁ hw₁ (cimmune_of_immunize h keys hg k hk) hrm₁ hcl₁
  exact cprotected_run_get (h2.hasOrAdd k p s hs) k p ops₂ hw₂ (cprotected_of_add h2 k p s i2 ha) hrm₂ hcl₂

/-! ### 6. refusals change nothing -/

/-- C12: a refused add (has = false, added = false: eviction failed because everything evictable is immune)
    leaves the whole cache unchanged -/
theorem refused_add_changes_nothing (c : Cache) (k p : Bytes) (s : Int) (c' : Cache)
    (h : c.hasOrAdd Variant.current k p s = (c', false, false)) : c' = c := by
  unfold Cache.hasOrAdd at h
  cases hr : (c.chunkOf k).addItem Variant.current c.cfg.chunkCfg k p s with
  | mk ch fl =>
    obtain ⟨has, added⟩ := fl
    rw [hr] at h
    dsimp only at h
    obtain ⟨h1, h2⟩ := Prod.mk.inj h
    obtain ⟨h2, h3⟩ := Prod.mk.inj h2
    subst h2 h3
    rw [addItem_refused _ _ _ _ _ ch hr] at h1
    rw [← h1, Cache.setChunk_chunkOf]

/-- C12: when every resident of the chunk of `k` is immune and that chunk is at capacity, the add is refused -/
theorem hasOrAdd_all_immune_refused (c : Cache) (k p : Bytes) (s : Int)
    (hall : ∀ it ∈ (c.chunkOf k).items, it.immune = true) (hex : (c.chunkOf k).exceeded c.cfg.chunkCfg = true)
    (hk : (c.get k).isSome = false) : c.hasOrAdd Variant.current k p s = (c, false, false) := by
  have hk' : (c.chunkOf k).has k = false := by
    rw [has_eq_isSome]; unfold Cache.get at hk; rwa [Option.isSome_map] at hk
  unfold Cache.hasOrAdd
  rw [addItem_all_immune_refused _ _ _ _ _ hall hex hk']
  show (c.setChunk (c.idx k) (c.chunkOf k), false, false) = _
  rw [Cache.setChunk_chunkOf]

/-- C13: the `ImmunizeKeys` capacity gate refuses the call AS A WHOLE: numNow = numFuture = 0 and NO chunk changes
    (so no key of the batch became immune, no view changed) -/
theorem immunize_gate_refuses_whole (c : Cache) (keys : List Bytes)
    (hg : c.countImmune + keys.length > c.cfg.maxNumItems) :
    c.immunizeKeys keys = (c, 0, 0) ∧
    (∀ i : Nat, (c.immunizeKeys keys).1.chunks[i]? = c.chunks[i]?) ∧
    (∀ k, (c.immunizeKeys keys).1.chunkOf k = c.chunkOf k) ∧
    (c.immunizeKeys keys).1.immuneKeys = c.immuneKeys ∧ (c.immunizeKeys keys).1.items = c.items := by
  have e := Cache.immunizeKeys_refused c keys hg
  rw [e]
  exact ⟨rfl, fun _ => rfl, fun _ => rfl, rfl, rfl⟩


instance : DecidablePred CacheOp.sizeOk := fun op => by
  cases op <;> unfold CacheOp.sizeOk <;> infer_instance

instance (c : Cache) (k p : Bytes) : Decidable (CProtected c k p) := by unfold CProtected; infer_instance
instance (c : Cache) (k : Bytes) : Decidable (CImmune c k) := by unfold CImmune; infer_instance

/-! ### non-vacuity: 2 chunks, capacity 4 (2 per chunk, evict 1 per chunk), both chunks used;
    immunize-before-add, eviction pressure, a refused add, a refused ImmunizeKeys -/
namespace Demo

def cfg : Config := ⟨2, 4, 1000, 2⟩

/-- odd one-byte keys are routed to chunk 0, even ones to chunk 1 -/
example : fnv32 [1] % 2 = 0 ∧ fnv32 [3] % 2 = 0 ∧ fnv32 [5] % 2 = 0 ∧ fnv32 [7] % 2 = 0 ∧
    fnv32 [2] % 2 = 1 ∧ fnv32 [4] % 2 = 1 := by decide
example : cfg.chunkCfg.maxNumItems = 2 ∧ cfg.chunkCfg.numToEvict = 1 := by decide
example : cfg.Valid := ⟨by decide, by decide, by decide⟩

/-- key [1] is immunized BEFORE it is added (future immunity); chunk 0 = {[1]*, [3]} is then full, chunk 1 = {[2]} -/
def pre : List CacheOp := [.imm [[1]], .add [1] [0xa1] 1, .add [2] [0xa2] 1, .add [3] [0xa3] 1]
/-- add [5]: chunk 0 is full → evicts [3] (oldest NON-immune; [1] is older but immune); immunize [5] (resident);
    add [7]: chunk 0 is full of immune items → refused; add [4]: chunk 1 full, cache at MaxNumItems = 4;
    add [1] again with another payload: has = true, payload kept; ImmunizeKeys of 3 keys: 2 + 3 > 4 → refused as a whole -/
def mid : List CacheOp := [.add [5] [0xa5] 1, .imm [[5]], .add [7] [0xa7] 1, .add [4] [0xa4] 1, .add [1] [0xff] 1,
  .imm [[9], [11], [13]]]

def c0 : Cache := Cache.init cfg
def c1 : Cache := pre.foldl Cache.apply c0
def c2 : Cache := mid.foldl Cache.apply c1

theorem inv0 : CacheInv c0 := CacheInv.init cfg (by decide)
theorem inv1 : CacheInv c1 := inv0.foldl pre (by decide)
theorem inv2 : CacheInv c2 := inv1.foldl mid (by decide)

-- `CacheInv.init` / `CacheInv.run`: hypotheses met
example : CacheInv (mid.foldl Cache.apply (pre.foldl Cache.apply (Cache.init cfg))) := inv2
-- `count_le_max`: met, and tight (4 items, both chunks full)
example : c2.count ≤ 4 := count_le_max inv2
example : c2.count = 4 ∧ c2.chunks.map (·.items.length) = [2, 2] := by decide
-- views (`get_iff`, `items_keys_nodup`, `count_eq_length`, `numBytes_eq_sum`, `countImmune_eq_length`)
example : c2.items.map (fun it => (it.key, it.payload, it.immune)) =
    [([1], [0xa1], true), ([5], [0xa5], true), ([2], [0xa2], false), ([4], [0xa4], false)] := by decide
example : c2.get [1] = some [0xa1] ∧ c2.get [5] = some [0xa5] ∧ c2.get [3] = none ∧ c2.get [7] = none := by decide
example : ∃ it ∈ c2.items, it.key = [1] ∧ it.payload = [0xa1] := (get_iff inv2 [1] [0xa1]).mp (by decide)
example : c2.numBytes = 4 ∧ sumSz c2.items = 4 ∧ c2.countImmune = 2 ∧ c2.immuneKeys = [[1], [5]] := by decide
-- `hasOrAdd_flags` on the evicting add of [5] to the full chunk 0: added, [3] evicted, immune [1] kept
example : (c1.hasOrAdd Variant.current [5] [0xa5] 1).2 = (false, true) ∧ c1.get [5] = none ∧
    (c1.hasOrAdd Variant.current [5] [0xa5] 1).1.get [5] = some [0xa5] := by decide
example : c1.get [3] = some [0xa3] ∧ (c1.hasOrAdd Variant.current [5] [0xa5] 1).1.get [3] = none ∧
    c1.idx [3] = c1.idx [5] ∧ [3] ∉ c1.immuneKeys := by decide          -- the "evicted" branch of `hasOrAdd_get_other`
example : (c1.hasOrAdd Variant.current [5] [0xa5] 1).1.get [2] = c1.get [2] ∧ c1.idx [2] ≠ c1.idx [5] := by decide
example : (c1.hasOrAdd Variant.current [5] [0xa5] 1).1.get [1] = some [0xa1] :=
  hasOrAdd_keeps_immune inv1 [5] [0xa5] 1 [1] [0xa1] (by decide) (by decide)
-- `hasOrAdd_present`: the duplicate add of [1] with payload ff
example : c2.hasOrAdd Variant.current [1] [0xff] 1 = (c2, true, false) := hasOrAdd_present c2 [1] [0xff] 1 (by decide)
-- `refused_add_changes_nothing` / `hasOrAdd_all_immune_refused`: chunk 0 = {[1]*, [5]*} is full of immune items
example : (c2.hasOrAdd Variant.current [7] [0xa7] 1).2 = (false, false) := by decide
example : c2.hasOrAdd Variant.current [7] [0xa7] 1 = (c2, false, false) :=
  hasOrAdd_all_immune_refused c2 [7] [0xa7] 1 (by decide) (by decide) (by decide)
example : (c2.hasOrAdd Variant.current [7] [0xa7] 1).1 = c2 :=
  refused_add_changes_nothing c2 [7] [0xa7] 1 _ (by
    have : (c2.hasOrAdd Variant.current [7] [0xa7] 1).2 = (false, false) := by decide
    exact Prod.ext rfl this)
-- `immunize_gate_refuses_whole`: 2 immune keys + 3 new ones > 4
example : c2.countImmune + [[9], [11], [13]].length > c2.cfg.maxNumItems := by decide
example : c2.immunizeKeys [[9], [11], [13]] = (c2, 0, 0) := (immunize_gate_refuses_whole c2 _ (by decide)).1
-- the gate passes for the two accepted calls
example : ¬ c0.gateRefuses [[1]] := by decide
-- `cprotected_of_add` (immunize before add), `cprotected_of_immunize` (immunize after add), `cprotected_run`
example : CImmune (c0.immunizeKeys [[1]]).1 [1] := cimmune_of_immunize inv0 [[1]] (by decide) [1] (by decide)
example : CProtected c1 [1] [0xa1] := by decide
example : CProtected ((c0.immunizeKeys [[1]]).1.hasOrAdd Variant.current [1] [0xa1] 1).1 [1] [0xa1] :=
  cprotected_of_add (inv0.immunizeKeys [[1]]) [1] [0xa1] 1
    (cimmune_of_immunize inv0 [[1]] (by decide) [1] (by decide)) (by decide)
example : CProtected c2 [1] [0xa1] :=
  cprotected_run inv1 [1] [0xa1] mid (by decide) (by decide) (by decide) (by decide)
example : CProtected ((Cache.apply c1 (.add [5] [0xa5] 1)).immunizeKeys [[5]]).1 [5] [0xa5] :=
  cprotected_of_immunize (inv1.apply _ (by decide)) [[5]] (by decide) [5] [0xa5] (by decide) (by decide)
-- the whole story in one statement: immunize [1]; add it; then the rest of the history (eviction pressure etc.)
def rest : List CacheOp := [CacheOp.add [2] [0xa2] 1, .add [3] [0xa3] 1] ++ mid
theorem gate_ok : ¬ c0.gateRefuses [[1]] := by decide
theorem added_ok : ((([] : List CacheOp).foldl Cache.apply (c0.immunizeKeys [[1]]).1).hasOrAdd
    Variant.current [1] [0xa1] 1).2.2 = true := by decide
theorem rest_ok : (∀ op ∈ rest, op.sizeOk) ∧ CacheOp.rm [1] ∉ rest ∧ CacheOp.clear ∉ rest := by decide
example : (rest.foldl Cache.apply
    ((([] : List CacheOp).foldl Cache.apply (c0.immunizeKeys [[1]]).1).hasOrAdd Variant.current [1] [0xa1] 1).1).get [1]
      = some [0xa1] :=
  immunize_then_add_protected inv0 [[1]] gate_ok [1] [0xa1] 1 (by decide) (by decide) [] rest
    (by decide) rest_ok.1 (by decide) (by decide) rest_ok.2.1 rest_ok.2.2 added_ok
-- and protection really ends with `remove k` / `clear` (so the two exclusions in `cprotected_step` are necessary)
example : ¬ CProtected (c2.apply (.rm [1])) [1] [0xa1] ∧ ¬ CProtected (c2.apply .clear) [1] [0xa1] := by decide

end Demo

end SV.Immunity
