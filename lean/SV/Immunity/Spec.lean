/-
  SV.Immunity.Spec — specification-level definitions for the immunity cache chunk (definitions only).
-/
import SV.Immunity.Model
namespace SV.Immunity

/-- chunk invariant -/
structure ChunkInv (cfg : ChunkCfg) (c : Chunk) : Prop where
  keysNodup : (c.items.map (·.key)).Nodup
  immuneNodup : c.immuneKeys.Nodup
  flags : ∀ it ∈ c.items, it.immune = c.immuneKeys.contains it.key
  sizes : ∀ it ∈ c.items, 0 ≤ it.size
  bytes : c.numBytes = (c.items.map (·.size)).foldl (· + ·) 0
  bound : c.items.length ≤ cfg.maxNumItems

/-- `k` is immune and resident with payload `p` -/
def Protected (c : Chunk) (k p : Bytes) : Prop :=
  k ∈ c.immuneKeys ∧ ∃ it ∈ c.items, it.key = k ∧ it.payload = p ∧ it.immune = true

/-- reference FIFO eviction phrased over (queue, immune set) without per-item flags:
    remove the first `n` items whose key is not in `imm` -/
def specRemoveOldest (imm : List Bytes) : Nat → List Item → List Item × List Item
  | 0, l => (l, [])
  | _, [] => ([], [])
  | n + 1, it :: rest =>
    if imm.contains it.key then
      let (keep, rem) := specRemoveOldest imm (n + 1) rest
      (it :: keep, rem)
    else
      let (keep, rem) := specRemoveOldest imm n rest
      (keep, it :: rem)

/-- chunk operations of a history -/
inductive COp where
  | add (k p : Bytes) (size : Int)
  | rm (k : Bytes)
  | imm (k : Bytes)

def Chunk.apply (cfg : ChunkCfg) (c : Chunk) : COp → Chunk
  | .add k p s => (c.addItem Variant.current cfg k p s).1
  | .rm k => (c.removeItem k).1
  | .imm k => (c.immunizeKey k).1

end SV.Immunity
