/-
  SV.Immunity.FifoSpec — C13 / C12: with a single chunk the immunity cache IS a FIFO queue with batch eviction.

  Part 1  an independent reference `Q`, written from the property text: a queue of (key, payload, size) entries,
          oldest first, plus a set of immune keys. No per-item flags, no stored byte counter, no "remove oldest" walk:
          a round of eviction is "the first `n` entries whose key is not immune" (`filter`, `take`) removed by value.
  Part 2  the abstraction `Chunk.toQ` (forget the flags and the byte counter) and the refinement theorems
          `chunk_refines_queue` (one step) and `chunk_run_refines_queue` (every history from the empty chunk).
  Part 3  the reference behaves as the property says: `q_evicts_oldest_non_immune`, `q_evicts_older_first`, `q_batches`,
          `q_keeps_immune`, `q_refusal_iff`, `q_add_present_noop`, `q_add_entries_stable`, `q_bound`;
          and C12 transferred back to the model through the refinement: `chunk_refusal_iff`.

  Corners in which the reference was made to follow the code (chunk.go), and which the property text leaves open:
   * "capacity reached" is `≥` (count ≥ maxNumItems or bytes ≥ maxNumBytes), not "exceeded": an add into a chunk holding
     exactly maxNumItems items evicts first (`isCapacityExceededNoLock` uses `>=`).
   * an eviction is a sequence of rounds; each round removes the `n = numToEvict` oldest non-immune entries (fewer if
     fewer exist). The first round must remove at least one entry, otherwise the add is refused and NOTHING changes.
     A further round is run only if the previous round removed a whole batch of `n` AND the queue is still full.
     Hence: eviction may stop with the queue still full (the last batch was short: no evictable entry is left),
     and the add then proceeds anyway; with `n = 0` every add that finds the queue full is refused.
   * a duplicate key is detected BEFORE any eviction (current code; the legacy order is refuted in Proofs.lean).
   * `remove k` withdraws the immunity of `k` even when `k` is not queued; `immunize k` records a future immunity.
   * the immune "set" is a duplicate-free list in order of first immunization, so that states can be compared with `=`.
   * rounds remove their victims by value; since keys are distinct (`Q.Wf`, preserved by every operation) this is the
     same as removing those positions.
   * `Q.rounds` carries fuel for structural recursion (so that `decide` evaluates it); `queue length + 1` always
     suffices and any larger amount gives the same result (`Q.rounds_fuel_irrelevant`).
-/
import SV.Immunity.Proofs
namespace SV.Immunity

/-! ## Part 1 — the reference -/

/-- a queued entry: (key, payload, size) -/
abbrev Entry := Bytes × Bytes × Int

/-- the reference state -/
structure Q where
  queue : List Entry      -- oldest first, distinct keys
  immune : List Bytes     -- the set of immune keys (of queued entries, or of entries still to come)
  deriving Repr, DecidableEq

namespace Q

def empty : Q := ⟨[], []⟩

def count (q : Q) : Nat := q.queue.length

/-- Σ sizes -/
def bytes (q : Q) : Int := (q.queue.map (·.2.2)).sum

def has (q : Q) (k : Bytes) : Bool := q.queue.any (·.1 == k)

/-- item capacity or byte capacity reached -/
def full (cfg : ChunkCfg) (q : Q) : Bool :=
  decide (q.count ≥ cfg.maxNumItems) || decide (q.bytes ≥ (cfg.maxNumBytes : Int))

/-- the entries whose key is not immune, oldest first -/
def evictable (q : Q) : List Entry := q.queue.filter (fun e => !q.immune.contains e.1)

/-- the victims of one round: the `n` oldest evictable entries (all of them if fewer) -/
def victims (q : Q) (n : Nat) : List Entry := q.evictable.take n

/-- the queue without the given entries -/
def without (q : Q) (vs : List Entry) : Q := { q with queue := q.queue.filter (fun e => !vs.contains e) }

/-- run a round; run another one as long as the last round removed a whole batch and the queue is still full -/
def rounds (cfg : ChunkCfg) : Nat → Q → Q
  | 0, q => q
  | fuel + 1, q =>
    let vs := q.victims cfg.numToEvict
    let q' := q.without vs
    if vs.length = cfg.numToEvict ∧ q'.full cfg = true then rounds cfg fuel q' else q'

/-- eviction: fails (`none`) when the first round finds nothing to remove -/
def evict (cfg : ChunkCfg) (q : Q) : Option Q :=
  if (q.victims cfg.numToEvict).isEmpty then none else some (rounds cfg (q.count + 1) q)

def push (q : Q) (k p : Bytes) (size : Int) : Q := { q with queue := q.queue ++ [(k, p, size)] }

/-- add → (state, has, added) -/
def add (cfg : ChunkCfg) (q : Q) (k p : Bytes) (size : Int) : Q × Bool × Bool :=
  if q.has k then (q, true, false)
  else if q.full cfg then
    match q.evict cfg with
    | none => (q, false, false)
    | some q' => (q'.push k p size, false, true)
  else (q.push k p size, false, true)

/-- remove → (state, was queued): drops the entry and the (current or future) immunity of `k` -/
def remove (q : Q) (k : Bytes) : Q × Bool :=
  (⟨q.queue.filter (fun e => e.1 != k), q.immune.filter (· != k)⟩, q.has k)

/-- immunize → (state, is queued now) -/
def immunize (q : Q) (k : Bytes) : Q × Bool :=
  ({ q with immune := if q.immune.contains k then q.immune else q.immune ++ [k] }, q.has k)

def apply (cfg : ChunkCfg) (q : Q) : COp → Q
  | .add k p s => (q.add cfg k p s).1
  | .rm k => (q.remove k).1
  | .imm k => (q.immunize k).1

/-- the result flags of one operation; `rm`/`imm` return one flag, reported in the first component -/
def flags (cfg : ChunkCfg) (q : Q) : COp → Bool × Bool
  | .add k p s => (q.add cfg k p s).2
  | .rm k => ((q.remove k).2, false)
  | .imm k => ((q.immunize k).2, false)

def run (cfg : ChunkCfg) (q : Q) (ops : List COp) : Q := ops.foldl (apply cfg) q

/-- the flags returned at every step of a history -/
def trace (cfg : ChunkCfg) : Q → List COp → List (Bool × Bool)
  | _, [] => []
  | q, op :: ops => q.flags cfg op :: trace cfg (q.apply cfg op) ops

end Q

/-! ## Part 2 — abstraction and refinement -/

def Item.entry (it : Item) : Entry := (it.key, it.payload, it.size)

/-- forget the per-item flags and the stored byte counter -/
def Chunk.toQ (c : Chunk) : Q := ⟨c.items.map Item.entry, c.immuneKeys⟩

def Chunk.flags (cfg : ChunkCfg) (c : Chunk) : COp → Bool × Bool
  | .add k p s => (c.addItem Variant.current cfg k p s).2
  | .rm k => ((c.removeItem k).2, false)
  | .imm k => ((c.immunizeKey k).2, false)

def Chunk.trace (cfg : ChunkCfg) : Chunk → List COp → List (Bool × Bool)
  | _, [] => []
  | c, op :: ops => c.flags cfg op :: Chunk.trace cfg (c.apply cfg op) ops

/-- `Chunk` has no `DecidableEq`; its three fields, for evaluation by `decide` -/
def Chunk.fields (c : Chunk) : List Item × List Bytes × Int := (c.items, c.immuneKeys, c.numBytes)

/-! ### non-vacuity: capacity 3 items / 100 bytes, batch 2, a 9-operation history -/

def fifoA : Bytes := [0xa]
def fifoB : Bytes := [0xb]
def fifoC : Bytes := [0xc]
def fifoD : Bytes := [0xd]
def fifoE : Bytes := [0xe]

def fifoDemoCfg : ChunkCfg := ⟨3, 100, 2⟩

/-- 1 immunize A before it exists · 2 add A (100 bytes: byte capacity reached) · 3 add B: REFUSED, the only resident is
    immune · 4 remove A (also withdraws the immunity) · 5–7 add B, C, D (D has 100 bytes) · 8 add B again: no-op ·
    9 add E: capacity reached; round 1 evicts the batch B, C, the queue is still full by bytes, round 2 evicts D
    (short batch), E is appended -/
def fifoDemoOps : List COp :=
  [.imm fifoA, .add fifoA [1] 100, .add fifoB [2] 1, .rm fifoA, .add fifoB [2] 1, .add fifoC [3] 1,
   .add fifoD [4] 100, .add fifoB [9] 7, .add fifoE [5] 1]

theorem fifoDemoOps_sizes : ∀ op ∈ fifoDemoOps, (match op with | .add _ _ s => 0 ≤ s | _ => True) := by
  intro op hop
  simp only [fifoDemoOps, List.mem_cons, List.not_mem_nil, or_false] at hop
  rcases hop with rfl | rfl | rfl | rfl | rfl | rfl | rfl | rfl | rfl <;> simp

-- the model, evaluated
example : ((fifoDemoOps.take 2).foldl (Chunk.apply fifoDemoCfg) Chunk.empty).fields
    = ([⟨fifoA, [1], 100, true⟩], [fifoA], 100) := by decide
example : ((fifoDemoOps.take 3).foldl (Chunk.apply fifoDemoCfg) Chunk.empty).fields
    = ([⟨fifoA, [1], 100, true⟩], [fifoA], 100) := by decide
example : ((fifoDemoOps.take 8).foldl (Chunk.apply fifoDemoCfg) Chunk.empty).fields
    = ([⟨fifoB, [2], 1, false⟩, ⟨fifoC, [3], 1, false⟩, ⟨fifoD, [4], 100, false⟩], [], 102) := by decide
example : (fifoDemoOps.foldl (Chunk.apply fifoDemoCfg) Chunk.empty).fields = ([⟨fifoE, [5], 1, false⟩], [], 1) := by
  decide
example : Chunk.trace fifoDemoCfg Chunk.empty fifoDemoOps
    = [(false, false), (false, true), (false, false), (true, false), (false, true), (false, true), (false, true),
       (true, false), (false, true)] := by decide

-- the reference, evaluated
example : Q.run fifoDemoCfg Q.empty (fifoDemoOps.take 3) = ⟨[(fifoA, [1], 100)], [fifoA]⟩ := by decide
example : Q.run fifoDemoCfg Q.empty (fifoDemoOps.take 8)
    = ⟨[(fifoB, [2], 1), (fifoC, [3], 1), (fifoD, [4], 100)], []⟩ := by decide
example : (Q.run fifoDemoCfg Q.empty (fifoDemoOps.take 8)).bytes = 102 := by decide
example : Q.run fifoDemoCfg Q.empty fifoDemoOps = ⟨[(fifoE, [5], 1)], []⟩ := by decide
example : Q.trace fifoDemoCfg Q.empty fifoDemoOps
    = [(false, false), (false, true), (false, false), (true, false), (false, true), (false, true), (false, true),
       (true, false), (false, true)] := by decide

-- both sides agree (by evaluation; by the theorem: see after `chunk_run_refines_queue`)
example : (fifoDemoOps.foldl (Chunk.apply fifoDemoCfg) Chunk.empty).toQ = Q.run fifoDemoCfg Q.empty fifoDemoOps ∧
    Chunk.trace fifoDemoCfg Chunk.empty fifoDemoOps = Q.trace fifoDemoCfg Q.empty fifoDemoOps := by decide
/-! ### list facts -/

private theorem nodup_of_nodup_map {α β : Type} (f : α → β) (l : List α) (h : (l.map f).Nodup) : l.Nodup := by
  induction l with
  | nil => exact List.nodup_nil
  | cons a l ih =>
    rw [List.map_cons, List.nodup_cons] at h
    rw [List.nodup_cons]
    exact ⟨fun hm => h.1 (List.mem_map_of_mem hm), ih h.2⟩

/-- removing the first `m` elements of a duplicate-free list "by value" leaves the rest -/
private theorem filter_not_take {α : Type} [BEq α] [LawfulBEq α] (l : List α) (hnd : l.Nodup) (m : Nat) :
    l.filter (fun e => !(l.take m).contains e) = l.drop m := by
  induction l generalizing m with
  | nil => simp
  | cons a l ih =>
    cases m with
    | zero => simp
    | succ m =>
      rw [List.nodup_cons] at hnd
      rw [List.take_succ_cons, List.drop_succ_cons, List.filter_cons_of_neg (by simp), ← ih hnd.2 m]
      apply List.filter_congr
      intro x hx
      have : x ≠ a := fun e => hnd.1 (e ▸ hx)
      simp [this]

private theorem mem_entries_key (l : List Item) (e : Entry) (h : e ∈ l.map Item.entry) : e.1 ∈ l.map (·.key) := by
  obtain ⟨it, hit, rfl⟩ := List.mem_map.mp h
  exact List.mem_map_of_mem hit

/-- the coded `removeOldest` (driven by per-item flags), seen on entries, removes exactly the first `n`
    entries whose key is not in the immune set — provided flags are truthful and keys distinct -/
theorem removeOldest_entries (imm : List Bytes) (n : Nat) (l : List Item)
    (hf : ∀ it ∈ l, it.immune = imm.contains it.key) (hnd : (l.map (·.key)).Nodup) :
    (removeOldest n l).2.map Item.entry = ((l.map Item.entry).filter (fun e => !imm.contains e.1)).take n ∧
    (removeOldest n l).1.map Item.entry =
      (l.map Item.entry).filter
        (fun e => !(((l.map Item.entry).filter (fun e => !imm.contains e.1)).take n).contains e) := by
  induction l generalizing n with
  | nil => simp [removeOldest_nil]
  | cons a rest ih =>
    cases n with
    | zero =>
      simp only [removeOldest_zero, List.take_zero, List.map_nil, List.contains_nil, Bool.not_false, true_and]
      exact (List.filter_eq_self.mpr (fun _ _ => rfl)).symm
    | succ n =>
      have ha := hf a List.mem_cons_self
      have hr : ∀ it ∈ rest, it.immune = imm.contains it.key := fun it hit => hf it (List.mem_cons_of_mem _ hit)
      rw [List.map_cons, List.nodup_cons] at hnd
      have hnotin : ∀ e ∈ rest.map Item.entry, e ≠ a.entry := by
        intro e he heq
        have := mem_entries_key rest e he
        rw [heq] at this
        exact hnd.1 this
      cases hai : a.immune with
      | true =>
        rw [hai] at ha
        obtain ⟨ih1, ih2⟩ := ih (n + 1) hr hnd.2
        rw [removeOldest_cons_immune n a rest hai]
        have hdrop : ((a :: rest).map Item.entry).filter (fun e => !imm.contains e.1)
            = (rest.map Item.entry).filter (fun e => !imm.contains e.1) := by
          rw [List.map_cons, List.filter_cons_of_neg]
          show ¬ (!imm.contains a.key) = true
          rw [← ha]; decide
        rw [hdrop]
        refine ⟨ih1, ?_⟩
        rw [List.map_cons, List.map_cons, List.filter_cons_of_pos, ih2]
        have : a.entry ∉ ((rest.map Item.entry).filter (fun e => !imm.contains e.1)).take (n + 1) := by
          intro hm
          exact hnotin _ (List.mem_filter.mp (List.mem_of_mem_take hm)).1 rfl
        simpa using this
      | false =>
        rw [hai] at ha
        obtain ⟨ih1, ih2⟩ := ih n hr hnd.2
        rw [removeOldest_cons_not n a rest hai]
        have hkeep : ((a :: rest).map Item.entry).filter (fun e => !imm.contains e.1)
            = a.entry :: (rest.map Item.entry).filter (fun e => !imm.contains e.1) := by
          rw [List.map_cons, List.filter_cons_of_pos]
          show (!imm.contains a.key) = true
          rw [← ha]; decide
        rw [hkeep, List.take_succ_cons]
        refine ⟨by rw [List.map_cons, ih1], ?_⟩
        rw [List.map_cons, List.filter_cons_of_neg (by simp), ih2]
        apply List.filter_congr
        intro x hx
        have := hnotin x hx
        simp [this]

/-! ### the abstraction commutes with the observers -/

theorem toQ_has (c : Chunk) (k : Bytes) : c.toQ.has k = c.has k := by
  simp only [Chunk.toQ, Q.has, Chunk.has, List.any_map]
  rfl

theorem toQ_count (c : Chunk) : c.toQ.count = c.items.length := by
  simp [Chunk.toQ, Q.count]

theorem toQ_bytes (c : Chunk) : c.toQ.bytes = sumSz c.items := by
  simp only [Chunk.toQ, Q.bytes]
  induction c.items with
  | nil => rfl
  | cons a l ih =>
    rw [sumSz_cons, ← ih]
    simp [Item.entry]

theorem toQ_full (cfg : ChunkCfg) (c : Chunk) (hb : c.numBytes = sumSz c.items) :
    c.toQ.full cfg = c.exceeded cfg := by
  simp only [Q.full, Chunk.exceeded, toQ_count, toQ_bytes, hb]

/-- what the eviction loop needs of the chunk invariant (everything but the capacity bound) -/
structure EvInv (c : Chunk) : Prop where
  keysNodup : (c.items.map (·.key)).Nodup
  flags : ∀ it ∈ c.items, it.immune = c.immuneKeys.contains it.key
  binv : BInv c

theorem ChunkInv.evInv {cfg : ChunkCfg} {c : Chunk} (h : ChunkInv cfg c) : EvInv c :=
  ⟨h.keysNodup, h.flags, h.binv⟩

theorem EvInv.step {c : Chunk} (h : EvInv c) (n : Nat) : EvInv (c.removeOldestStep n).1 := by
  have hsub : (c.removeOldestStep n).1.items.Sublist c.items := (removeOldest_partition n c.items).2.1
  exact ⟨h.keysNodup.sublist (hsub.map _), fun it hit => h.flags it (hsub.subset hit), removeOldestStep_BInv c n h.binv⟩

/-- one coded eviction step = one reference round -/
theorem step_toQ {c : Chunk} (h : EvInv c) (n : Nat) :
    (c.removeOldestStep n).1.toQ = c.toQ.without (c.toQ.victims n) ∧
    (c.removeOldestStep n).2 = (c.toQ.victims n).length := by
  obtain ⟨h1, h2⟩ := removeOldest_entries c.immuneKeys n c.items h.flags h.keysNodup
  constructor
  · show Q.mk ((removeOldest n c.items).1.map Item.entry) c.immuneKeys = _
    rw [h2]
    rfl
  · rw [removeOldestStep_snd, ← List.length_map (f := Item.entry), h1]
    rfl

theorem EvInv.full {c : Chunk} (h : EvInv c) (cfg : ChunkCfg) : c.toQ.full cfg = c.exceeded cfg :=
  toQ_full cfg c h.binv.2

theorem evictMore_succ (cfg : ChunkCfg) (f : Nat) (c : Chunk) (r : Nat) :
    evictMore cfg (f + 1) c r =
      if (c.exceeded cfg && r == cfg.numToEvict) = true then
        evictMore cfg f (c.removeOldestStep cfg.numToEvict).1 (c.removeOldestStep cfg.numToEvict).2
      else c := rfl

theorem Q.rounds_succ (cfg : ChunkCfg) (f : Nat) (q : Q) :
    Q.rounds cfg (f + 1) q =
      if (q.victims cfg.numToEvict).length = cfg.numToEvict ∧ (q.without (q.victims cfg.numToEvict)).full cfg = true then
        Q.rounds cfg f (q.without (q.victims cfg.numToEvict))
      else q.without (q.victims cfg.numToEvict) := rfl

/-- the coded loop (which carries the size of the previous batch) = the reference rounds, given enough fuel -/
theorem evictMore_toQ (cfg : ChunkCfg) (hn : 1 ≤ cfg.numToEvict) (f : Nat) (c : Chunk) (h : EvInv c)
    (hlen : c.items.length ≤ f) :
    (evictMore cfg (f + 1) (c.removeOldestStep cfg.numToEvict).1 (c.removeOldestStep cfg.numToEvict).2).toQ
      = Q.rounds cfg (f + 1) c.toQ := by
  induction f generalizing c with
  | zero =>
    obtain ⟨hs1, hs2⟩ := step_toQ h cfg.numToEvict
    have hl := removeOldestStep_length c cfg.numToEvict
    have hr0 : (c.removeOldestStep cfg.numToEvict).2 = 0 := by omega
    rw [evictMore_succ, Q.rounds_succ, ← hs2, ← hs1, hr0]
    have hne : ¬ (0 = cfg.numToEvict) := by omega
    have hne' : (0 == cfg.numToEvict) = false := by simpa using hne
    simp [hne, hne']
  | succ f ih =>
    obtain ⟨hs1, hs2⟩ := step_toQ h cfg.numToEvict
    have hl := removeOldestStep_length c cfg.numToEvict
    have h1 := h.step cfg.numToEvict
    rw [evictMore_succ, Q.rounds_succ, ← hs2, ← hs1, h1.full cfg]
    by_cases hc : (c.removeOldestStep cfg.numToEvict).2 = cfg.numToEvict ∧
        (c.removeOldestStep cfg.numToEvict).1.exceeded cfg = true
    · rw [if_pos hc, if_pos (by simp [hc.1, hc.2])]
      exact ih _ h1 (by omega)
    · rw [if_neg hc, if_neg (by simpa [and_comm] using hc)]

theorem evictIfNeeded_toQ (cfg : ChunkCfg) (c : Chunk) (h : EvInv c) (hex : c.exceeded cfg = true) :
    (c.evictIfNeeded cfg).map Chunk.toQ = c.toQ.evict cfg := by
  obtain ⟨hs1, hs2⟩ := step_toQ h cfg.numToEvict
  have hle : (c.removeOldestStep cfg.numToEvict).2 ≤ cfg.numToEvict := (removeOldest_partition _ _).2.2
  unfold Chunk.evictIfNeeded Q.evict
  rw [if_pos hex]
  dsimp only
  by_cases hr : (c.removeOldestStep cfg.numToEvict).2 = 0
  · rw [if_pos hr, if_pos]
    · rfl
    · rw [hr] at hs2
      rw [List.isEmpty_iff]
      exact List.length_eq_zero_iff.mp hs2.symm
  · rw [if_neg hr, if_neg]
    · rw [Option.map_some, toQ_count, evictMore_toQ cfg (by omega) _ c h (Nat.le_refl _)]
    · rw [List.isEmpty_iff]
      intro he
      rw [he] at hs2
      exact hr hs2

/-! ### the three operations commute with the abstraction -/

theorem toQ_insert (c' : Chunk) (k p : Bytes) (size : Int) (b : Bool) (x : Int) :
    Chunk.toQ { c' with items := c'.items ++ [⟨k, p, size, b⟩], numBytes := x } = c'.toQ.push k p size := by
  simp [Chunk.toQ, Q.push, Item.entry]

theorem addItem_refines (cfg : ChunkCfg) (c : Chunk) (h : EvInv c) (k p : Bytes) (size : Int) :
    ((c.addItem Variant.current cfg k p size).1.toQ, (c.addItem Variant.current cfg k p size).2)
      = c.toQ.add cfg k p size := by
  unfold Q.add
  rw [toQ_has, h.full cfg]
  rcases addItem_cases cfg c k p size with ⟨hk, e⟩ | ⟨hk, he, e⟩ | ⟨hk, c', he, e⟩
  · rw [e, if_pos hk]
  · rw [e, if_neg (by simp [hk])]
    cases hex : c.exceeded cfg with
    | false => simp [Chunk.evictIfNeeded, hex] at he
    | true =>
      have := evictIfNeeded_toQ cfg c h hex
      rw [he] at this
      rw [if_pos rfl, ← this]
      rfl
  · rw [e, if_neg (by simp [hk])]
    cases hex : c.exceeded cfg with
    | false =>
      have : c' = c := by simpa [Chunk.evictIfNeeded, hex] using he.symm
      subst this
      rw [if_neg (by simp), toQ_insert]
    | true =>
      have := evictIfNeeded_toQ cfg c h hex
      rw [he] at this
      rw [if_pos rfl, ← this, toQ_insert]
      rfl

theorem filter_key_entries (l : List Item) (k : Bytes) :
    (l.map Item.entry).filter (fun e => e.1 != k) = (l.filter (·.key != k)).map Item.entry := by
  rw [List.filter_map]; rfl

theorem removeItem_refines (c : Chunk) (k : Bytes) :
    ((c.removeItem k).1.toQ, (c.removeItem k).2) = c.toQ.remove k := by
  unfold Chunk.removeItem Q.remove
  rw [toQ_has]
  dsimp only
  split
  · rename_i hg
    have hne := get_none c k hg
    have hf : c.items.filter (·.key != k) = c.items :=
      List.filter_eq_self.mpr (fun it hit => by simpa using hne it hit)
    have hh : c.has k = false := (has_eq_false_iff c k).mpr hne
    simp only [Chunk.toQ, filter_key_entries, hf, hh]
  · rename_i it hg
    obtain ⟨hit, hkey⟩ := get_some_mem c k it hg
    have hh : c.has k = true := (has_eq_true_iff c k).mpr ⟨it, hit, hkey⟩
    simp only [Chunk.toQ, filter_key_entries, hh]

theorem immunizeKey_refines (c : Chunk) (k : Bytes) :
    ((c.immunizeKey k).1.toQ, (c.immunizeKey k).2) = c.toQ.immunize k := by
  unfold Chunk.immunizeKey Q.immunize
  rw [toQ_has]
  have hmap : (c.items.map (fun it => if it.key == k then { it with immune := true } else it)).map Item.entry
      = c.items.map Item.entry := by
    rw [List.map_map]
    apply List.map_congr_left
    intro a _
    simp only [Function.comp]
    split <;> rfl
  simp only [Chunk.toQ, hmap]
  rfl

/-- `numBytes` is the byte count of the reference queue -/
theorem numBytes_eq_queue_bytes {cfg : ChunkCfg} {c : Chunk} (h : ChunkInv cfg c) : c.numBytes = c.toQ.bytes := by
  rw [toQ_bytes]; exact h.bytes

/-- **C13, one step.** Under the chunk invariant every operation of the model and of the reference FIFO queue
    commute through the abstraction, and return the same flags. -/
theorem chunk_refines_queue (cfg : ChunkCfg) (c : Chunk) (h : ChunkInv cfg c) (op : COp) :
    (c.apply cfg op).toQ = c.toQ.apply cfg op ∧ c.flags cfg op = c.toQ.flags cfg op := by
  cases op with
  | add k p s =>
    have := addItem_refines cfg c h.evInv k p s
    exact ⟨congrArg Prod.fst this, congrArg Prod.snd this⟩
  | rm k =>
    have := removeItem_refines c k
    exact ⟨congrArg Prod.fst this, by show (_, false) = (_, false); rw [congrArg Prod.snd this]⟩
  | imm k =>
    have := immunizeKey_refines c k
    exact ⟨congrArg Prod.fst this, by show (_, false) = (_, false); rw [congrArg Prod.snd this]⟩

/-- `ChunkInv.addItem` does not need `1 ≤ maxNumItems` -/
theorem ChunkInv.addItemQ (cfg : ChunkCfg) (c : Chunk) (k p : Bytes) (size : Int) (h : ChunkInv cfg c) (hs : 0 ≤ size) :
    ChunkInv cfg (c.addItem Variant.current cfg k p size).1 := by
  by_cases hm : 1 ≤ cfg.maxNumItems
  · exact ChunkInv.addItem cfg c k p size h hs hm
  · have hb := h.bound
    have hnil : c.items = [] := List.eq_nil_of_length_eq_zero (by omega)
    have hex : c.exceeded cfg = true := by simp [Chunk.exceeded, hnil]; omega
    rw [addItem_all_immune_refused cfg c k p size (by simp [hnil]) hex (by simp [Chunk.has, hnil])]
    exact h

theorem ChunkInv.applyQ (cfg : ChunkCfg) (c : Chunk) (op : COp)
    (hw : match op with | .add _ _ s => 0 ≤ s | _ => True) (h : ChunkInv cfg c) : ChunkInv cfg (c.apply cfg op) := by
  cases op with
  | add k p s => exact ChunkInv.addItemQ cfg c k p s h hw
  | rm k => exact ChunkInv.removeItem cfg c k h
  | imm k => exact ChunkInv.immunizeKey cfg c k h

/-- history-level refinement from any state satisfying the invariant -/
theorem chunk_run_refines_queue_from (cfg : ChunkCfg) (c : Chunk) (h : ChunkInv cfg c) (ops : List COp)
    (hw : ∀ op ∈ ops, (match op with | .add _ _ s => 0 ≤ s | _ => True)) :
    ChunkInv cfg (ops.foldl (Chunk.apply cfg) c) ∧
    (ops.foldl (Chunk.apply cfg) c).toQ = c.toQ.run cfg ops ∧
    Chunk.trace cfg c ops = Q.trace cfg c.toQ ops := by
  induction ops generalizing c with
  | nil => exact ⟨h, rfl, rfl⟩
  | cons op ops ih =>
    obtain ⟨h1, h2⟩ := chunk_refines_queue cfg c h op
    have hi := ChunkInv.applyQ cfg c op (hw op List.mem_cons_self) h
    obtain ⟨i1, i2, i3⟩ := ih (c.apply cfg op) hi (fun o ho => hw o (List.mem_cons_of_mem _ ho))
    refine ⟨i1, ?_, ?_⟩
    · rw [List.foldl_cons, i2, h1]; rfl
    · show c.flags cfg op :: Chunk.trace cfg (c.apply cfg op) ops = c.toQ.flags cfg op :: Q.trace cfg (c.toQ.apply cfg op) ops
      rw [i3, h1, h2]

/-- **C13, histories.** For every history of adds (sizes ≥ 0), removes and immunizations applied to the empty chunk,
    the single-chunk cache and the reference FIFO queue agree on: the resident sequence (keys, in order),
    the payloads, the sizes, `numBytes`, the immune set, and the flags returned at every step. -/
theorem chunk_run_refines_queue (cfg : ChunkCfg) (ops : List COp)
    (hw : ∀ op ∈ ops, (match op with | .add _ _ s => 0 ≤ s | _ => True)) :
    let c := ops.foldl (Chunk.apply cfg) Chunk.empty
    let q := Q.run cfg Q.empty ops
    c.toQ = q ∧
    c.items.map (·.key) = q.queue.map (·.1) ∧
    c.items.map (·.payload) = q.queue.map (·.2.1) ∧
    c.items.map (·.size) = q.queue.map (·.2.2) ∧
    c.numBytes = q.bytes ∧
    c.immuneKeys = q.immune ∧
    Chunk.trace cfg Chunk.empty ops = Q.trace cfg Q.empty ops := by
  intro c q
  obtain ⟨hi, h1, h2⟩ := chunk_run_refines_queue_from cfg Chunk.empty (ChunkInv.empty cfg) ops hw
  have hq : c.toQ = q := h1
  refine ⟨hq, ?_, ?_, ?_, ?_, ?_, h2⟩
  · rw [← hq]; simp [Chunk.toQ, Item.entry]
  · rw [← hq]; simp [Chunk.toQ, Item.entry]
  · rw [← hq]; simp [Chunk.toQ, Item.entry]
  · rw [← hq]; exact numBytes_eq_queue_bytes hi
  · rw [← hq]; rfl

-- the hypotheses are satisfiable / the theorems apply to the demo history
example : (fifoDemoOps.foldl (Chunk.apply fifoDemoCfg) Chunk.empty).toQ = Q.run fifoDemoCfg Q.empty fifoDemoOps :=
  (chunk_run_refines_queue fifoDemoCfg fifoDemoOps fifoDemoOps_sizes).1

/-- the state before operation 9 satisfies the hypothesis of `chunk_refines_queue` -/
example : ChunkInv fifoDemoCfg ((fifoDemoOps.take 8).foldl (Chunk.apply fifoDemoCfg) Chunk.empty) :=
  (chunk_run_refines_queue_from fifoDemoCfg Chunk.empty (ChunkInv.empty _) (fifoDemoOps.take 8)
    (fun op hop => fifoDemoOps_sizes op (List.mem_of_mem_take hop))).1


/-! ### the reference on its own: well-formedness, rounds -/

namespace Q

/-- the state invariant of the reference: keys are distinct -/
def Wf (q : Q) : Prop := (q.queue.map (·.1)).Nodup

instance (q : Q) : Decidable q.Wf := inferInstanceAs (Decidable (List.Nodup _))

theorem Wf.nodup {q : Q} (h : q.Wf) : q.queue.Nodup := nodup_of_nodup_map _ _ h

theorem without_immune (q : Q) (vs : List Entry) : (q.without vs).immune = q.immune := rfl

theorem without_sublist (q : Q) (vs : List Entry) : (q.without vs).queue.Sublist q.queue := List.filter_sublist

theorem without_nil (q : Q) : q.without [] = q := by
  cases q with
  | mk queue immune =>
    simp only [without, List.contains_nil, Bool.not_false]
    rw [List.filter_eq_self.mpr (fun _ _ => rfl)]

theorem without_without (q : Q) (a b : List Entry) : (q.without a).without b = q.without (a ++ b) := by
  simp only [without, List.filter_filter, List.contains_append, Bool.not_or]
  congr 1
  apply List.filter_congr
  intro x _
  exact Bool.and_comm _ _

theorem evictable_sublist (q : Q) : q.evictable.Sublist q.queue := List.filter_sublist

theorem evictable_nodup {q : Q} (h : q.Wf) : q.evictable.Nodup := h.nodup.sublist q.evictable_sublist

theorem victims_sublist (q : Q) (n : Nat) : (q.victims n).Sublist q.queue :=
  (List.take_sublist _ _).trans q.evictable_sublist

/-- after removing the first `m` evictable entries, the evictable entries are the remaining ones -/
theorem evictable_without_take {q : Q} (h : q.Wf) (m : Nat) :
    (q.without (q.evictable.take m)).evictable = q.evictable.drop m := by
  rw [← filter_not_take q.evictable (evictable_nodup h) m]
  simp only [evictable, without, List.filter_filter]
  apply List.filter_congr
  intro x _
  rw [Bool.and_comm]

/-- round number `i+1`, seen from the initial state -/
theorem round_from_start {q : Q} (h : q.Wf) (i n : Nat) :
    (q.without (q.evictable.take (i * n))).victims n = (q.evictable.drop (i * n)).take n ∧
    (q.without (q.evictable.take (i * n))).without ((q.without (q.evictable.take (i * n))).victims n)
      = q.without (q.evictable.take ((i + 1) * n)) := by
  have hv : (q.without (q.evictable.take (i * n))).victims n = (q.evictable.drop (i * n)).take n := by
    unfold victims; rw [evictable_without_take h]
  refine ⟨hv, ?_⟩
  rw [hv, without_without, Nat.succ_mul, List.take_add]

/-- anything preserved by one round is preserved by the rounds -/
theorem rounds_pres (P : Q → Prop) (hP : ∀ q n, P q → P (q.without (q.victims n))) (cfg : ChunkCfg) (f : Nat) (q : Q) (h : P q) :
    P (rounds cfg f q) := by
  induction f generalizing q with
  | zero => exact h
  | succ f ih =>
    rw [rounds_succ]
    split
    · exact ih _ (hP _ _ h)
    · exact hP _ _ h

theorem evict_some {cfg : ChunkCfg} {q q' : Q} (he : q.evict cfg = some q') :
    q.victims cfg.numToEvict ≠ [] ∧ q' = rounds cfg (q.count + 1) q := by
  unfold evict at he
  split at he
  · cases he
  · rename_i hne
    cases he
    exact ⟨fun e => hne (by rw [e]; rfl), rfl⟩

theorem evict_none {cfg : ChunkCfg} {q : Q} : q.evict cfg = none ↔ q.victims cfg.numToEvict = [] := by
  unfold evict
  split
  · rename_i h; simpa using List.isEmpty_iff.mp h
  · rename_i h
    simp only [reduceCtorEq, false_iff]
    intro e; exact h (by rw [e]; rfl)

theorem victims_eq_nil_iff (q : Q) (n : Nat) :
    q.victims n = [] ↔ n = 0 ∨ ∀ e ∈ q.queue, q.immune.contains e.1 = true := by
  unfold victims evictable
  rw [List.take_eq_nil_iff, List.filter_eq_nil_iff]
  simp

/-- the rounds, seen from the initial state: after `i` full rounds the loop performs rounds `i+1 … j`, where
    `j` is the first round that is short or leaves the queue not full -/
theorem rounds_char (cfg : ChunkCfg) (hn : 1 ≤ cfg.numToEvict) {q : Q} (h : q.Wf) (f i : Nat)
    (hf : q.evictable.length - i * cfg.numToEvict < f) :
    ∃ j, i < j ∧
      rounds cfg f (q.without (q.evictable.take (i * cfg.numToEvict))) = q.without (q.evictable.take (j * cfg.numToEvict)) ∧
      (∀ i', i < i' → i' < j → i' * cfg.numToEvict ≤ q.evictable.length ∧
        (q.without (q.evictable.take (i' * cfg.numToEvict))).full cfg = true) ∧
      (j * cfg.numToEvict ≤ q.evictable.length → (q.without (q.evictable.take (j * cfg.numToEvict))).full cfg = false) := by
  induction f generalizing i with
  | zero => omega
  | succ f ih =>
    obtain ⟨hv, hw⟩ := round_from_start h i cfg.numToEvict
    rw [rounds_succ, hw, hv]
    have hlen : ((q.evictable.drop (i * cfg.numToEvict)).take cfg.numToEvict).length
        = min cfg.numToEvict (q.evictable.length - i * cfg.numToEvict) := by
      rw [List.length_take, List.length_drop]
    have hsm : (i + 1) * cfg.numToEvict = i * cfg.numToEvict + cfg.numToEvict := Nat.succ_mul _ _
    split
    · rename_i hc
      have hfull : (i + 1) * cfg.numToEvict ≤ q.evictable.length := by
        have := hc.1; rw [hlen] at this; omega
      obtain ⟨j, hj, e, hmid, hlast⟩ := ih (i + 1) (by omega)
      refine ⟨j, by omega, e, ?_, hlast⟩
      intro i' h1 h2
      by_cases hi' : i' = i + 1
      · subst hi'; exact ⟨hfull, hc.2⟩
      · exact hmid i' (by omega) h2
    · rename_i hc
      refine ⟨i + 1, by omega, rfl, fun i' h1 h2 => by omega, ?_⟩
      intro hfull
      have hl : ((q.evictable.drop (i * cfg.numToEvict)).take cfg.numToEvict).length = cfg.numToEvict := by
        rw [hlen]; omega
      cases hb : (q.without (q.evictable.take ((i + 1) * cfg.numToEvict))).full cfg with
      | false => rfl
      | true => exact absurd ⟨hl, hb⟩ hc

/-- removing the first `m` evictable entries shortens the queue by exactly that many -/
private theorem filter_not_take_filter_length {α : Type} [BEq α] [LawfulBEq α] (p : α → Bool) (l : List α) (hnd : l.Nodup) (m : Nat) :
    (l.filter (fun e => !((l.filter p).take m).contains e)).length + ((l.filter p).take m).length = l.length := by
  induction l generalizing m with
  | nil => simp
  | cons a l ih =>
    rw [List.nodup_cons] at hnd
    have hcongr : ∀ V : List α, l.filter (fun e => !(a :: V).contains e) = l.filter (fun e => !V.contains e) := by
      intro V
      apply List.filter_congr
      intro x hx
      have : x ≠ a := fun e => hnd.1 (e ▸ hx)
      simp [this]
    cases m with
    | zero => simp
    | succ m =>
      by_cases hp : p a = true
      · rw [List.filter_cons_of_pos hp, List.take_succ_cons, List.filter_cons_of_neg (by simp), hcongr]
        have := ih hnd.2 m
        simp only [List.length_cons]
        omega
      · have hk : (!((l.filter p).take (m + 1)).contains a) = true := by
          have : a ∉ (l.filter p).take (m + 1) := fun hm =>
            hnd.1 (List.mem_filter.mp (List.mem_of_mem_take hm)).1
          simpa using this
        rw [List.filter_cons_of_neg hp, List.filter_cons_of_pos (p := fun e => !((l.filter p).take (m + 1)).contains e) hk]
        have := ih hnd.2 (m + 1)
        simp only [List.length_cons]
        omega

theorem without_take_count {q : Q} (h : q.Wf) (m : Nat) :
    (q.without (q.evictable.take m)).count + (q.evictable.take m).length = q.count :=
  filter_not_take_filter_length (fun (e : Entry) => !q.immune.contains e.1) q.queue h.nodup m

theorem has_eq_false_iff (q : Q) (k : Bytes) : q.has k = false ↔ ∀ e ∈ q.queue, e.1 ≠ k := by
  simp [has, List.any_eq_false]

theorem evict_sublist {cfg : ChunkCfg} {q q' : Q} (he : q.evict cfg = some q') : q'.queue.Sublist q.queue := by
  rw [(evict_some he).2]
  exact rounds_pres (fun x => x.queue.Sublist q.queue) (fun x n hx => (without_sublist x _).trans hx) cfg _ q
    (List.Sublist.refl _)

theorem without_count_lt (q : Q) (vs : List Entry) (hne : vs ≠ []) (hsub : vs.Sublist q.queue) :
    (q.without vs).count < q.count := by
  unfold without count
  rw [List.length_filter_lt_length_iff_exists]
  cases vs with
  | nil => exact absurd rfl hne
  | cons v vs => exact ⟨v, hsub.subset List.mem_cons_self, by simp⟩

/-- a successful eviction removes at least one entry -/
theorem evict_count_lt {cfg : ChunkCfg} {q q' : Q} (he : q.evict cfg = some q') : q'.count < q.count := by
  obtain ⟨hne, rfl⟩ := evict_some he
  have h1 := without_count_lt q _ hne (victims_sublist q cfg.numToEvict)
  have hmono : ∀ f x, (rounds cfg f x).count ≤ x.count := fun f x =>
    rounds_pres (fun y => y.count ≤ x.count) (fun y n hy => Nat.le_trans (without_sublist y _).length_le hy) cfg f x
      (Nat.le_refl _)
  rw [rounds_succ]
  split
  · exact Nat.lt_of_le_of_lt (hmono _ _) h1
  · exact h1

/-- keys stay distinct -/
theorem Wf.apply (cfg : ChunkCfg) {q : Q} (h : q.Wf) (op : COp) : (q.apply cfg op).Wf := by
  cases op with
  | add k p size =>
    have hpush : ∀ q' : Q, q'.queue.Sublist q.queue → q.has k = false → (q'.push k p size).Wf := by
      intro q' hsub hk
      unfold Wf push
      rw [List.map_append, List.nodup_append]
      refine ⟨List.Nodup.sublist (hsub.map _) h, by simp, ?_⟩
      intro a ha b hb
      simp only [List.map_cons, List.map_nil, List.mem_singleton] at hb
      obtain ⟨e, he, rfl⟩ := List.mem_map.mp ha
      rw [hb]
      exact (has_eq_false_iff q k).mp hk e (hsub.subset he)
    show (q.add cfg k p size).1.Wf
    unfold add
    split
    · exact h
    · rename_i hk
      have hk' : q.has k = false := by simpa using hk
      split
      · split
        · exact h
        · rename_i q' he
          exact hpush q' (evict_sublist he) hk'
      · exact hpush q (List.Sublist.refl _) hk'
  | rm k => exact List.Nodup.sublist ((List.filter_sublist).map _) h
  | imm k => exact h

theorem Wf.run (cfg : ChunkCfg) (ops : List COp) : (Q.run cfg Q.empty ops).Wf := by
  have : ∀ (q : Q), q.Wf → (Q.run cfg q ops).Wf := by
    induction ops with
    | nil => exact fun _ h => h
    | cons op ops ih => exact fun q h => ih _ (h.apply cfg op)
  exact this _ List.nodup_nil

end Q

section Property
open Q

/-! ## Part 3 — the reference behaves as the property says -/

/-- **batches.** A successful eviction performs `j ≥ 1` rounds; seen from the initial state, the entries removed are the
    first `j·n` of the evictable (= non-immune) entries, oldest first — all of them if fewer are left; every round but
    the last removed a whole batch of `n` and left the queue still full; the loop stopped either because the last
    batch was short or because the queue is no longer full. -/
theorem q_batches (cfg : ChunkCfg) {q q' : Q} (h : q.Wf) (he : q.evict cfg = some q') :
    1 ≤ cfg.numToEvict ∧ q.evictable ≠ [] ∧
    ∃ j, 1 ≤ j ∧ q' = q.without (q.evictable.take (j * cfg.numToEvict)) ∧
      (∀ i, 1 ≤ i → i < j → i * cfg.numToEvict ≤ q.evictable.length ∧
        (q.without (q.evictable.take (i * cfg.numToEvict))).full cfg = true) ∧
      (j * cfg.numToEvict ≤ q.evictable.length → q'.full cfg = false) ∧
      q'.count + min (j * cfg.numToEvict) q.evictable.length = q.count := by
  obtain ⟨hne, rfl⟩ := evict_some he
  have hn : 1 ≤ cfg.numToEvict := by
    rcases Nat.eq_zero_or_pos cfg.numToEvict with h0 | h0
    · exact absurd (by rw [h0]; rfl) hne
    · exact h0
  have hE : q.evictable ≠ [] := fun e => hne (by unfold victims; rw [e]; exact List.take_nil)
  refine ⟨hn, hE, ?_⟩
  have hlen : q.evictable.length ≤ q.count := q.evictable_sublist.length_le
  obtain ⟨j, hj, e, hmid, hlast⟩ := rounds_char cfg hn h (q.count + 1) 0 (by omega)
  rw [Nat.zero_mul, List.take_zero, without_nil] at e
  refine ⟨j, hj, e, fun i h1 h2 => hmid i h1 h2, ?_, ?_⟩
  · rw [e]; exact hlast
  · rw [e, ← without_take_count h (j * cfg.numToEvict), List.length_take]

/-- **oldest first among the non-immune.** The victims of a successful eviction are a non-empty prefix of the
    sequence of non-immune entries (oldest first); everything else stays, in order; the immune set is untouched. -/
theorem q_evicts_oldest_non_immune (cfg : ChunkCfg) {q q' : Q} (h : q.Wf) (he : q.evict cfg = some q') :
    ∃ m, 1 ≤ m ∧ m ≤ q.evictable.length ∧
      q'.queue = q.queue.filter (fun e => !(q.evictable.take m).contains e) ∧ q'.immune = q.immune := by
  obtain ⟨hn, hE, j, hj, e, _, _, _⟩ := q_batches cfg h he
  have hpos : 1 ≤ q.evictable.length := by
    cases hq : q.evictable with
    | nil => exact absurd hq hE
    | cons a l => simp
  have hjn : 1 ≤ j * cfg.numToEvict := Nat.mul_le_mul hj hn
  refine ⟨min (j * cfg.numToEvict) q.evictable.length, by omega, Nat.min_le_right _ _, ?_, ?_⟩
  · rw [← List.take_eq_take_min, e]; rfl
  · rw [e]; rfl

/-- the same in plain words: if an entry is evicted, every older non-immune entry is evicted too -/
theorem q_evicts_older_first (cfg : ChunkCfg) {q q' : Q} (h : q.Wf) (he : q.evict cfg = some q')
    (l₁ l₂ l₃ : List Entry) (e₁ e₂ : Entry) (hq : q.queue = l₁ ++ e₁ :: l₂ ++ e₂ :: l₃)
    (h1 : q.immune.contains e₁.1 = false) (h2 : e₂ ∉ q'.queue) : e₁ ∉ q'.queue := by
  obtain ⟨m, _, _, hq', _⟩ := q_evicts_oldest_non_immune cfg h he
  have hnd := evictable_nodup h
  have he2q : e₂ ∈ q.queue := by rw [hq]; simp
  have he2 : e₂ ∈ q.evictable.take m := by
    rw [hq', List.mem_filter] at h2
    have : ¬ (!(q.evictable.take m).contains e₂) = true := fun hc => h2 ⟨he2q, hc⟩
    simpa using this
  have hni2 : (!q.immune.contains e₂.1) = true := (List.mem_filter.mp (List.mem_of_mem_take he2)).2
  -- split the evictable sequence around `e₂`
  let F : List Entry → List Entry := List.filter (fun e => !q.immune.contains e.1)
  have hE : q.evictable = (F l₁ ++ e₁ :: F l₂) ++ e₂ :: F l₃ := by
    show F q.queue = _
    rw [hq]
    simp only [F, List.filter_append, List.filter_cons, h1, hni2]
    simp
  rw [hE] at hnd he2
  have hnotA : e₂ ∉ F l₁ ++ e₁ :: F l₂ := by
    intro hm
    exact (List.nodup_append.mp hnd).2.2 e₂ hm e₂ List.mem_cons_self rfl
  have hm : (F l₁ ++ e₁ :: F l₂).length < m := by
    rcases Nat.lt_or_ge (F l₁ ++ e₁ :: F l₂).length m with hlt | hge
    · exact hlt
    · rw [List.take_append_of_le_length hge] at he2
      exact absurd (List.mem_of_mem_take he2) hnotA
  have he1 : e₁ ∈ q.evictable.take m := by
    rw [hE, List.take_append, List.take_of_length_le (Nat.le_of_lt hm)]
    simp
  rw [hq', List.mem_filter]
  intro hc
  have := hc.2
  simp [he1] at this

/-- **never an immune key.** Eviction leaves every entry with an immune key in place, and the immune set unchanged. -/
theorem q_keeps_immune (cfg : ChunkCfg) {q q' : Q} (he : q.evict cfg = some q') :
    q'.immune = q.immune ∧ ∀ e ∈ q.queue, q.immune.contains e.1 = true → e ∈ q'.queue := by
  rw [(evict_some he).2]
  refine rounds_pres (fun x => x.immune = q.immune ∧ ∀ e ∈ q.queue, q.immune.contains e.1 = true → e ∈ x.queue)
    ?_ cfg _ q ⟨rfl, fun _ h _ => h⟩
  intro x n ⟨hx1, hx2⟩
  refine ⟨hx1, ?_⟩
  intro e heq himm
  show e ∈ x.queue.filter _
  rw [List.mem_filter]
  refine ⟨hx2 e heq himm, ?_⟩
  have : e ∉ x.victims n := by
    intro hm
    have := (List.mem_filter.mp (List.mem_of_mem_take hm)).2
    rw [hx1, himm] at this
    cases this
  simpa using this

/-- an add (whatever its outcome) keeps every entry with an immune key, and the immune set -/
theorem q_add_keeps_immune (cfg : ChunkCfg) (q : Q) (k p : Bytes) (size : Int) :
    (q.add cfg k p size).1.immune = q.immune ∧
    ∀ e ∈ q.queue, q.immune.contains e.1 = true → e ∈ (q.add cfg k p size).1.queue := by
  unfold add
  split
  · exact ⟨rfl, fun _ h _ => h⟩
  · split
    · split
      · exact ⟨rfl, fun _ h _ => h⟩
      · rename_i q' he
        obtain ⟨h1, h2⟩ := q_keeps_immune cfg he
        exact ⟨h1, fun e heq himm => List.mem_append_left _ (h2 e heq himm)⟩
    · exact ⟨rfl, fun e heq _ => List.mem_append_left _ heq⟩

/-- **refusal (C12).** An add is refused — flags (false, false) — exactly when the key is new, the queue is full and
    nothing can be evicted: every queued key is immune (or the batch size is 0). A refused add changes nothing. -/
theorem q_refusal_iff (cfg : ChunkCfg) (q : Q) (k p : Bytes) (size : Int) :
    ((q.add cfg k p size).2 = (false, false) ↔
      (q.has k = false ∧ q.full cfg = true ∧
        (cfg.numToEvict = 0 ∨ ∀ e ∈ q.queue, q.immune.contains e.1 = true))) ∧
    ((q.add cfg k p size).2 = (false, false) → (q.add cfg k p size).1 = q) := by
  unfold add
  cases hk : q.has k with
  | true => simp
  | false =>
    cases hf : q.full cfg with
    | false => simp
    | true =>
      cases hev : q.evict cfg with
      | none =>
        have := (victims_eq_nil_iff q cfg.numToEvict).mp (evict_none.mp hev)
        simp only [Bool.false_eq_true, if_false, if_true]
        exact ⟨⟨fun _ => ⟨by trivial, by trivial, this⟩, fun _ => by trivial⟩, fun _ => by trivial⟩
      | some q' =>
        have : ¬ (cfg.numToEvict = 0 ∨ ∀ e ∈ q.queue, q.immune.contains e.1 = true) := fun hc =>
          (evict_some hev).1 ((victims_eq_nil_iff q cfg.numToEvict).mpr hc)
        simp only [Bool.false_eq_true, if_false, if_true]
        exact ⟨⟨fun h => by simp at h, fun h => absurd h.2.2 this⟩, fun h => by simp at h⟩

/-- an add of a key that is already queued changes nothing and reports (has, added) = (true, false) -/
theorem q_add_present_noop (cfg : ChunkCfg) (q : Q) (k p : Bytes) (size : Int) (hk : q.has k = true) :
    q.add cfg k p size = (q, true, false) := by
  unfold add; rw [if_pos hk]

/-- no add ever changes an existing entry: an entry of the result whose key was queued before is that old entry -/
theorem q_add_entries_stable (cfg : ChunkCfg) (q : Q) (k p : Bytes) (size : Int) :
    ∀ e ∈ (q.add cfg k p size).1.queue, (∃ e₀ ∈ q.queue, e₀.1 = e.1) → e ∈ q.queue := by
  have hpush : ∀ q' : Q, q'.queue.Sublist q.queue → q.has k = false →
      ∀ e ∈ (q'.push k p size).queue, (∃ e₀ ∈ q.queue, e₀.1 = e.1) → e ∈ q.queue := by
    intro q' hsub hk e he ⟨e₀, he₀, hkey⟩
    rcases List.mem_append.mp he with hin | hnew
    · exact hsub.subset hin
    · rw [List.mem_singleton.mp hnew] at hkey
      exact absurd hkey ((Q.has_eq_false_iff q k).mp hk e₀ he₀)
  unfold add
  split
  · exact fun _ h _ => h
  · rename_i hk
    have hk' : q.has k = false := by simpa using hk
    split
    · split
      · exact fun _ h _ => h
      · rename_i q' he
        exact hpush q' (evict_sublist he) hk'
    · exact hpush q (List.Sublist.refl _) hk'

/-- **capacity.** No step takes the count above `maxNumItems` (the hypothesis `1 ≤ maxNumItems` is not needed). -/
theorem q_bound (cfg : ChunkCfg) (q : Q) (op : COp) (hb : q.count ≤ cfg.maxNumItems) :
    (q.apply cfg op).count ≤ cfg.maxNumItems := by
  cases op with
  | add k p s =>
    show (q.add cfg k p s).1.count ≤ _
    unfold add
    split
    · exact hb
    · split
      · split
        · exact hb
        · rename_i q' he
          have := evict_count_lt he
          show (q'.queue ++ [_]).length ≤ _
          rw [List.length_append, List.length_singleton]
          unfold count at *
          omega
      · rename_i hf
        have : q.count < cfg.maxNumItems := by
          simp [full] at hf
          omega
        show (q.queue ++ [_]).length ≤ _
        rw [List.length_append, List.length_singleton]
        unfold count at *
        omega
  | rm k => exact Nat.le_trans (List.length_filter_le _ _) hb
  | imm k => exact hb

theorem q_bound_run (cfg : ChunkCfg) (ops : List COp) : (Q.run cfg Q.empty ops).count ≤ cfg.maxNumItems := by
  have : ∀ (q : Q), q.count ≤ cfg.maxNumItems → (Q.run cfg q ops).count ≤ cfg.maxNumItems := by
    induction ops with
    | nil => exact fun _ h => h
    | cons op ops ih => exact fun q h => ih _ (q_bound cfg q op h)
  exact this _ (Nat.zero_le _)

/-- the state before the two-round eviction of operation 9, and a 5-entry state where both rounds skip an immune entry -/
def fifoQ8 : Q := ⟨[(fifoB, [2], 1), (fifoC, [3], 1), (fifoD, [4], 100)], []⟩
def fifoQ5 : Q := ⟨[(fifoA, [1], 1), (fifoB, [2], 1), (fifoC, [3], 1), (fifoD, [4], 1), (fifoE, [5], 100)], [fifoB]⟩
def fifoCfg5 : ChunkCfg := ⟨5, 100, 2⟩

-- hypotheses of `q_batches` / `q_evicts_oldest_non_immune` / `q_evicts_older_first` / `q_keeps_immune` are satisfiable;
-- two rounds each
example : fifoQ8.Wf ∧ fifoQ8.evict fifoDemoCfg = some ⟨[], []⟩ := by decide
example := q_batches fifoDemoCfg (q := fifoQ8) (q' := ⟨[], []⟩) (by decide) (by decide)
example := q_evicts_oldest_non_immune fifoCfg5 (q := fifoQ5) (q' := ⟨[(fifoB, [2], 1)], [fifoB]⟩) (by decide) (by decide)
example := q_keeps_immune fifoCfg5 (q := fifoQ5) (q' := ⟨[(fifoB, [2], 1)], [fifoB]⟩) (by decide)
example := q_evicts_older_first fifoCfg5 (q := fifoQ5) (q' := ⟨[(fifoB, [2], 1)], [fifoB]⟩) (by decide) (by decide)
  [] [(fifoB, [2], 1), (fifoC, [3], 1)] [(fifoE, [5], 100)] (fifoA, [1], 1) (fifoD, [4], 1) (by decide) (by decide) (by decide)
example : fifoQ8.without (fifoQ8.evictable.take (1 * 2)) = ⟨[(fifoD, [4], 100)], []⟩ ∧
    (fifoQ8.without (fifoQ8.evictable.take (1 * 2))).full fifoDemoCfg = true := by decide
example : fifoQ5.Wf ∧ fifoQ5.full fifoCfg5 = true ∧
    fifoQ5.evict fifoCfg5 = some ⟨[(fifoB, [2], 1)], [fifoB]⟩ ∧
    fifoQ5.evictable.take (2 * 2) = [(fifoA, [1], 1), (fifoC, [3], 1), (fifoD, [4], 1), (fifoE, [5], 100)] ∧
    fifoQ5.add fifoCfg5 [0xf] [6] 1 = (⟨[(fifoB, [2], 1), ([0xf], [6], 1)], [fifoB]⟩, false, true) := by decide
-- a single short round: only one evictable entry is left, the queue stays full by bytes, the loop stops
example : (⟨[(fifoA, [1], 100), (fifoB, [2], 1)], [fifoA]⟩ : Q).add fifoDemoCfg fifoC [3] 1
    = (⟨[(fifoA, [1], 100), (fifoC, [3], 1)], [fifoA]⟩, false, true) := by decide
-- refusal (`q_refusal_iff`, right-hand side satisfiable): full, the only entry is immune
example : (⟨[(fifoA, [1], 100)], [fifoA]⟩ : Q).has fifoB = false ∧
    (⟨[(fifoA, [1], 100)], [fifoA]⟩ : Q).full fifoDemoCfg = true ∧
    (∀ e ∈ (⟨[(fifoA, [1], 100)], [fifoA]⟩ : Q).queue, (⟨[(fifoA, [1], 100)], [fifoA]⟩ : Q).immune.contains e.1 = true) ∧
    (⟨[(fifoA, [1], 100)], [fifoA]⟩ : Q).add fifoDemoCfg fifoB [2] 1 = (⟨[(fifoA, [1], 100)], [fifoA]⟩, false, false) := by
  decide
-- batch size 0: every add that finds the queue full is refused
example : (⟨[(fifoA, [1], 100)], []⟩ : Q).add ⟨3, 100, 0⟩ fifoB [2] 1 = (⟨[(fifoA, [1], 100)], []⟩, false, false) := by decide
-- capacity REACHED (≥), not exceeded: with 3 of 3 items the add already evicts
example : ((⟨[(fifoA, [1], 1), (fifoB, [2], 1), (fifoC, [3], 1)], []⟩ : Q).add fifoDemoCfg fifoD [4] 1).1
    = ⟨[(fifoC, [3], 1), (fifoD, [4], 1)], []⟩ := by decide
-- `q_add_present_noop`
example : fifoQ8.has fifoB = true ∧ fifoQ8.add fifoDemoCfg fifoB [9] 7 = (fifoQ8, true, false) := by decide


end Property

/-! ### the fuel of `Q.rounds` is a technicality -/

/-- any amount of fuel above the queue length gives the same result (every continuing round removes `n ≥ 1` entries) -/
theorem Q.rounds_fuel_irrelevant (cfg : ChunkCfg) (hn : 1 ≤ cfg.numToEvict) (f g : Nat) (q : Q)
    (hf : q.count < f) (hg : q.count < g) : Q.rounds cfg f q = Q.rounds cfg g q := by
  induction f generalizing g q with
  | zero => omega
  | succ f ih =>
    cases g with
    | zero => omega
    | succ g =>
      rw [Q.rounds_succ, Q.rounds_succ]
      split
      · rename_i hc
        have hne : q.victims cfg.numToEvict ≠ [] := by
          intro e
          have := hc.1
          rw [e] at this
          simp at this
          omega
        have := Q.without_count_lt q _ hne (Q.victims_sublist q _)
        exact ih g _ (by omega) (by omega)
      · rfl

/-! ### transfer to the model: C12 refusal, exactly -/

/-- **C12 on the model, obtained through the refinement.** Under the invariant an add is refused exactly when the key
    is new, capacity is reached and no resident is evictable (all immune, or batch size 0); the chunk is then unchanged. -/
theorem chunk_refusal_iff (cfg : ChunkCfg) (c : Chunk) (h : ChunkInv cfg c) (k p : Bytes) (size : Int) :
    ((c.addItem Variant.current cfg k p size).2 = (false, false) ↔
      (c.has k = false ∧ c.exceeded cfg = true ∧ (cfg.numToEvict = 0 ∨ ∀ it ∈ c.items, it.immune = true))) ∧
    ((c.addItem Variant.current cfg k p size).2 = (false, false) → (c.addItem Variant.current cfg k p size).1 = c) := by
  have hr := addItem_refines cfg c h.evInv k p size
  have h2 : (c.addItem Variant.current cfg k p size).2 = (c.toQ.add cfg k p size).2 := congrArg Prod.snd hr
  obtain ⟨q1, _⟩ := q_refusal_iff cfg c.toQ k p size
  refine ⟨?_, fun hf => addItem_refused cfg c k p size _ (by rw [← hf])⟩
  rw [h2, q1, toQ_has, h.evInv.full cfg]
  have : (∀ e ∈ c.toQ.queue, c.toQ.immune.contains e.1 = true) ↔ ∀ it ∈ c.items, it.immune = true := by
    constructor
    · intro hq it hit
      rw [h.flags it hit]
      exact hq it.entry (List.mem_map_of_mem hit)
    · intro hc e he
      obtain ⟨it, hit, rfl⟩ := List.mem_map.mp he
      rw [← hc it hit, h.flags it hit]
      rfl
  rw [this]


end SV.Immunity
