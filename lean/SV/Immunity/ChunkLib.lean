/-
  SV.Immunity.ChunkLib — /repo/immunitycache/chunk.go + cacheItem.go modelled AS THE CODE IMPLEMENTS THEM, with the chunk's
  TWO structures kept apart, and the proof that this model refines the hand-written chunk model `SV.Immunity.Chunk`
  (SV/Immunity/Model.lean) on which properties C12 and C13 are stated.

  Go state (chunk.go):
      type immunityChunk struct { config; items map[string]chunkItemWrapper; itemsAsList *list.List;
                                  immuneKeys map[string]struct{}; numBytes int; mutex }
      type chunkItemWrapper struct { item *cacheItem; listElement *list.Element }
  Model state `LChunk`:
      `list`        `container/list` abstracted to the sequence of its elements, FRONT (oldest) FIRST; an element is
                    `Elem{id, item}`: `id` stands for the identity of the `*list.Element`, `item` for the `*cacheItem` its
                    `Value` points to (key, payload, size and the mutable flag `isImmune`);
      `items`       the Go map as an association list key ↦ element id.  The wrapper's two pointers are ONE id: both are
                    created by the same `addItemNoLock` (`PushBack(item)` returns the element whose `Value` is `item`), so
                    `wrapper.item == wrapper.listElement.Value` always.  Reading `wrapper.item` is therefore `deref` of the id;
      `immuneKeys`  the Go set as a duplicate-free list (insertion = append when absent, exactly the hand model's choice);
      `numBytes`    as in Go (clamped at 0 after every subtraction);
      `nextId`      allocation counter: element identities are never reused.
  The model of the hand-written file keeps ONE list (`Chunk.items`) and says "(the map `items` holds the same entries)".
  Here nothing of the kind is assumed: every lookup goes through the map to an id and then to the list; every removal
  removes from the map BY KEY and from the list BY ELEMENT ID; the eviction loop walks the list by element pointers
  (`Front()`, `Next()` saved before `removeNoLock`) and deletes from the map by the walked item's key;
  `Count`/`isCapacityExceededNoLock`/`AppendKeys`/`ForEachItem` read the MAP, `KeysInOrder`/`removeOldestNoLock` read the
  LIST — exactly as chunk.go does.

  What the model does with a DANGLING pointer (a map entry whose element is no longer linked): `deref` fails, the read
  yields nothing and `removeNoLock` does nothing; Go would still reach the detached object.  `Coh` excludes the
  situation (`Coh.resolve`), and the disagreement examples of section 9 only use observations that do not depend on it.

  Results
    * `Coh` (coherence of map and list), `coh_iff_explicit` (`Coh.explicit`/`Coh.of_explicit`: the invariant in words),
      `Coh.sameKeys`, `Coh.sameLen`, `Coh.deref`, `Coh.empty`, preservation by every operation (`Coh.removeOldest`,
      `Coh.addItem`, `Coh.removeItem`, `Coh.immunizeKey(s)`, `coh_step`, `coh_run`) for every configuration and every size;
    * `Inv cfg c` = `Coh c` ∧ the hand model's `ChunkInv cfg` of the abstraction (numBytes = Σ sizes, flags = immuneKeys,
      capacity bound), `Inv.empty`, `inv_step`, `inv_run` (sizes ≥ 0);
    * refinement (same results, commuting with `abs`): `removeOldest_refines`, `evictIfNeeded_refines`, `addItem_refines`,
      `removeItem_refines`, `immunizeKey_refines`, `immunizeKeys_refines`, `getItem_refines`, `step_refines`,
      `lib_chunk_refines_model` (every history from the fresh chunk);
    * the pointer walk visits the elements linked at its start (`loop_eq_walk`); the fuel of the two loops is immaterial:
      `removeOldestLoop_fuel`, `evictLoop_fuel`, `evictItems_fuel`;
    * on the faithful model: `lib_count_eq_len`, `lib_count_le_max` (any history, any sizes), `lib_immune_not_evicted`,
      `lib_immune_not_removedOldest`, `lib_immune_survives_step/_run/_get`, `lib_immunize_flags`,
      `lib_immunized_never_evicted`, `lib_future_immune_on_add`, `lib_keysInOrder`, `lib_appendKeys_perm`,
      `lib_forEachItem_perm`, `lib_refusal_unchanged` (no coherence needed);
    * section 9: incoherent states (stale map entry, orphan element, crossed pointers) on which the code-faithful
      operations and the hand model disagree, `stale_refuses_all`, and the stale-cursor variant of the eviction walk;
    * section 10: a capacity-3 history evaluated by `decide`.
  Correspondence with the hand model: on coherent states NO behavioural difference was found (three results of `AddItem`,
  the refusal leaving the state untouched, clamped byte bookkeeping, `RemoveItem` withdrawing the immune key of an absent
  item, the eviction loop and its stopping rule).  What the hand model lacks and is supplied here: the chunk-level
  `ImmunizeKeys` with its two counters (`handImmunizeKeys` folds the hand model's one-key `immunizeKey`, as
  `Cache.immunizeKeys` does), `AppendKeys`/`ForEachItem` (map order: stated up to permutation).  chunk.go has no
  `IsItemImmune`; the flag is read off `GetItem`'s result.
-/
import SV.Immunity.CacheProofs
import SV.Persist.Proofs
namespace SV.Immunity.Lib
open SV SV.Immunity

/-! ## 1. The model -/

/-- a `*list.Element` whose `Value` is a `*cacheItem` -/
structure Elem where
  id : Nat
  item : Item
  deriving Repr, DecidableEq

/-! ### `container/list`, reduced to the order of the elements -/
namespace DL

/-- following an element pointer -/
def deref (l : List Elem) (id : Nat) : Option Elem := l.find? (·.id == id)
/-- `Front()` (nil for the empty list) -/
def front (l : List Elem) : Option Nat := l.head?.map (·.id)
/-- `e.Next()`: the element linked after `e`; nil for the last element and for an element that is not linked
    (`container/list` clears `e.next` and `e.list` in `Remove`) -/
def next : List Elem → Nat → Option Nat
  | [], _ => none
  | e :: rest, id => if e.id == id then rest.head?.map (·.id) else next rest id
/-- `PushBack` -/
def pushBack (l : List Elem) (e : Elem) : List Elem := l ++ [e]
/-- `Remove(e)` (a no-op when `e` is not linked, as in Go) -/
def remove (l : List Elem) (id : Nat) : List Elem := l.filter (·.id != id)
/-- `e.Value.(*cacheItem).immunizeAgainstEviction()` through the pointer -/
def setImmune (l : List Elem) (id : Nat) : List Elem :=
  l.map (fun e => if e.id == id then { e with item := { e.item with immune := true } } else e)

end DL

structure LChunk where
  items : List (Bytes × Nat)
  list : List Elem
  immuneKeys : List Bytes
  numBytes : Int
  nextId : Nat
  deriving Repr, DecidableEq

namespace LChunk

/-- `newImmunityChunk` -/
def empty : LChunk := ⟨[], [], [], 0, 0⟩

/-- `getItemNoLock`: `wrapper, ok := chunk.items[key]; if !ok { return nil, false }; return wrapper.item, true` -/
def getItemNoLock (c : LChunk) (k : Bytes) : Option Item :=
  match alookup k c.items with
  | none => none
  | some id => (DL.deref c.list id).map (·.item)

/-- `GetItem` -/
def getItem (c : LChunk) (k : Bytes) : Option Item := c.getItemNoLock k

/-- `itemExistsNoLock`: `_, exists := chunk.items[item.key]` -/
def itemExists (c : LChunk) (k : Bytes) : Bool := (alookup k c.items).isSome

/-- one iteration of the loop of `ImmunizeKeys` → (chunk, ok).  `ok` is the map's answer; the flag is set through the
    pointer; the key is recorded in `immuneKeys` whatever `ok` is. -/
def immunizeKey (c : LChunk) (k : Bytes) : LChunk × Bool :=
  ({ c with list := (match alookup k c.items with
                     | some id => DL.setImmune c.list id
                     | none => c.list),
            immuneKeys := if c.immuneKeys.contains k then c.immuneKeys else c.immuneKeys ++ [k] },
   (alookup k c.items).isSome)

/-- `ImmunizeKeys` → (chunk, numNow, numFuture) -/
def immunizeKeys (c : LChunk) (keys : List Bytes) : LChunk × Nat × Nat :=
  keys.foldl (fun (acc : LChunk × Nat × Nat) k =>
    ((acc.1.immunizeKey k).1,
     if (acc.1.immunizeKey k).2 then acc.2.1 + 1 else acc.2.1,
     if (acc.1.immunizeKey k).2 then acc.2.2 else acc.2.2 + 1)) (c, 0, 0)

/-- `isCapacityExceededNoLock`: `len(chunk.items) >= maxNumItems || chunk.numBytes >= maxNumBytes` — the MAP's size -/
def isCapacityExceeded (cfg : ChunkCfg) (c : LChunk) : Bool :=
  decide (c.items.length ≥ cfg.maxNumItems) || decide (c.numBytes ≥ (cfg.maxNumBytes : Int))

/-- `removeNoLock(element)`: `item := element.Value.(*cacheItem); delete(chunk.items, item.key);
    chunk.itemsAsList.Remove(element); trackNumBytesOnRemoveNoLock(item)` (the last = subtract, clamp at 0) -/
def removeNoLock (c : LChunk) (e : Elem) : LChunk :=
  { c with items := aerase e.item.key c.items, list := DL.remove c.list e.id,
           numBytes := max (c.numBytes - e.item.size) 0 }

/-- the loop of `removeOldestNoLock(numToRemove)`; state = (chunk, cursor `element`, `numRemoved`).
    `element != nil && numRemoved < numToRemove`; an immune item is skipped; otherwise `element.Next()` is taken on the
    list BEFORE `removeNoLock(elementToRemove)`.  `fuel` bounds the number of iterations (`removeOldestLoop_fuel`:
    the length of the list is enough).  The `none` branch of `deref` is a dangling cursor, which cannot arise. -/
def removeOldestLoop (numToRemove : Nat) : Nat → LChunk → Option Nat → Nat → LChunk × Nat
  | 0, c, _, r => (c, r)
  | _ + 1, c, none, r => (c, r)
  | fuel + 1, c, some id, r =>
    if r < numToRemove then
      match DL.deref c.list id with
      | none => (c, r)
      | some e =>
        if e.item.immune then removeOldestLoop numToRemove fuel c (DL.next c.list id) r
        else removeOldestLoop numToRemove fuel (c.removeNoLock e) (DL.next c.list id) (r + 1)
    else (c, r)

/-- `removeOldestNoLock` / `RemoveOldest` → (chunk, numRemoved).  (Go's `numToRemove` is an `int`; a negative value
    behaves as 0: the loop condition `numRemoved < numToRemove` fails at once.) -/
def removeOldest (c : LChunk) (numToRemove : Nat) : LChunk × Nat :=
  removeOldestLoop numToRemove c.list.length c (DL.front c.list) 0

/-- the `for` loop of `evictItemsNoLock`: `for isCapacityExceededNoLock() && numRemovedInStep == numToRemoveEachStep`;
    state = (chunk, `numRemovedInStep`).  (`numRemoved` is only logged and is not modelled.)  `evictLoop_fuel`: any
    fuel above the length of the list gives the same result. -/
def evictLoop (cfg : ChunkCfg) : Nat → LChunk → Nat → LChunk
  | 0, c, _ => c
  | fuel + 1, c, lastRemoved =>
    if c.isCapacityExceeded cfg && lastRemoved == cfg.numToEvict then
      evictLoop cfg fuel (c.removeOldest cfg.numToEvict).1 (c.removeOldest cfg.numToEvict).2
    else c

/-- `evictItemsNoLock` → (chunk, err ≠ nil): the first step is done out of the loop; `ErrFailedCacheEviction` when it
    removed nothing -/
def evictItems (cfg : ChunkCfg) (c : LChunk) : LChunk × Bool :=
  if (c.removeOldest cfg.numToEvict).2 = 0 then ((c.removeOldest cfg.numToEvict).1, true)
  else (evictLoop cfg (c.list.length + 1) (c.removeOldest cfg.numToEvict).1 (c.removeOldest cfg.numToEvict).2, false)

/-- `evictItemsIfCapacityExceededNoLock` → (chunk, err ≠ nil) -/
def evictItemsIfCapacityExceeded (cfg : ChunkCfg) (c : LChunk) : LChunk × Bool :=
  if c.isCapacityExceeded cfg then c.evictItems cfg else (c, false)

/-- `addItemNoLock`: `element := itemsAsList.PushBack(item); items[item.key] = chunkItemWrapper{item, element}` -/
def addItemNoLock (c : LChunk) (item : Item) : LChunk :=
  { c with list := DL.pushBack c.list ⟨c.nextId, item⟩, items := aset item.key c.nextId c.items,
           nextId := c.nextId + 1 }

/-- `immunizeItemOnAddNoLock(item)`; `id` is the element just created for `item` -/
def immunizeItemOnAdd (c : LChunk) (k : Bytes) (id : Nat) : LChunk :=
  if c.immuneKeys.contains k then { c with list := DL.setImmune c.list id } else c

/-- `trackNumBytesOnAddNoLock` -/
def trackNumBytesOnAdd (c : LChunk) (size : Int) : LChunk := { c with numBytes := c.numBytes + size }

/-- the three calls that end `AddItem`: `addItemNoLock(item); immunizeItemOnAddNoLock(item); trackNumBytesOnAddNoLock(item)`
    for the fresh `item = newCacheItem(payload, key, size)` of `HasOrAdd` (flag unset) -/
def insertNew (c : LChunk) (k payload : Bytes) (size : Int) : LChunk :=
  (((c.addItemNoLock ⟨k, payload, size, false⟩).immunizeItemOnAdd k c.nextId).trackNumBytesOnAdd size)

/-- `AddItem` → (chunk, has, added): duplicate test, then eviction (which may refuse), then the insertion -/
def addItem (cfg : ChunkCfg) (c : LChunk) (k payload : Bytes) (size : Int) : LChunk × Bool × Bool :=
  if c.itemExists k then (c, true, false)
  else if (c.evictItemsIfCapacityExceeded cfg).2 then ((c.evictItemsIfCapacityExceeded cfg).1, false, false)
  else ((c.evictItemsIfCapacityExceeded cfg).1.insertNew k payload size, false, true)

/-- `RemoveItem` → (chunk, found): `delete(immuneKeys, key)` first, whatever follows -/
def removeItem (c : LChunk) (k : Bytes) : LChunk × Bool :=
  match alookup k c.items with
  | none => ({ c with immuneKeys := c.immuneKeys.filter (· != k) }, false)
  | some id =>
    match DL.deref c.list id with
    | some e => (({ c with immuneKeys := c.immuneKeys.filter (· != k) } : LChunk).removeNoLock e, true)
    | none => ({ c with immuneKeys := c.immuneKeys.filter (· != k) }, true)

/-- `Count`: `len(chunk.items)` — the MAP -/
def count (c : LChunk) : Nat := c.items.length
/-- `CountImmune`: `len(chunk.immuneKeys)` -/
def countImmune (c : LChunk) : Nat := c.immuneKeys.length
/-- `KeysInOrder`: walks the LIST from `Front()` -/
def keysInOrder (c : LChunk) : List Bytes := c.list.map (·.item.key)
/-- `AppendKeys`: ranges over the MAP (Go's iteration order is unspecified; the model uses the association list's) -/
def appendKeys (c : LChunk) (acc : List Bytes) : List Bytes := acc ++ c.items.map (·.1)
/-- `ForEachItem`: ranges over the MAP, reads `itemWrapper.item.payload`; the calls made, in (unspecified) order -/
def forEachItem (c : LChunk) : List (Bytes × Bytes) :=
  c.items.filterMap (fun p => (DL.deref c.list p.2).map (fun e => (p.1, e.item.payload)))

end LChunk

/-! ### operations, outputs, histories -/

inductive Op
  | add (k p : Bytes) (size : Int)
  | remove (k : Bytes)
  | immunize (keys : List Bytes)
  | get (k : Bytes)
  | removeOldest (n : Nat)
  | count
  | countImmune
  | numBytes
  | keysInOrder
  deriving Repr, DecidableEq

inductive Out
  | hasAdded (has added : Bool)
  | found (b : Bool)
  | nowFuture (numNow numFuture : Nat)
  | item (it : Option Item)
  | num (n : Nat)
  | bytes (n : Int)
  | keys (l : List Bytes)
  deriving Repr, DecidableEq

/-- one call on the code-faithful model -/
def LChunk.step (cfg : ChunkCfg) (c : LChunk) : Op → LChunk × Out
  | .add k p s => ((c.addItem cfg k p s).1, .hasAdded (c.addItem cfg k p s).2.1 (c.addItem cfg k p s).2.2)
  | .remove k => ((c.removeItem k).1, .found (c.removeItem k).2)
  | .immunize keys => ((c.immunizeKeys keys).1, .nowFuture (c.immunizeKeys keys).2.1 (c.immunizeKeys keys).2.2)
  | .get k => (c, .item (c.getItem k))
  | .removeOldest n => ((c.removeOldest n).1, .num (c.removeOldest n).2)
  | .count => (c, .num c.count)
  | .countImmune => (c, .num c.countImmune)
  | .numBytes => (c, .bytes c.numBytes)
  | .keysInOrder => (c, .keys c.keysInOrder)

/-- chunk-level `ImmunizeKeys` on the hand model: its `immunizeKey`, folded with the two counters (the very fold
    `Cache.immunizeKeys` performs) -/
def handImmunizeKeys (c : Chunk) (keys : List Bytes) : Chunk × Nat × Nat :=
  keys.foldl (fun (acc : Chunk × Nat × Nat) k =>
    ((acc.1.immunizeKey k).1,
     if (acc.1.immunizeKey k).2 then acc.2.1 + 1 else acc.2.1,
     if (acc.1.immunizeKey k).2 then acc.2.2 else acc.2.2 + 1)) (c, 0, 0)

/-- the same call on the hand-written model (`Variant.current`) -/
def handStep (cfg : ChunkCfg) (c : Chunk) : Op → Chunk × Out
  | .add k p s => ((c.addItem Variant.current cfg k p s).1,
      .hasAdded (c.addItem Variant.current cfg k p s).2.1 (c.addItem Variant.current cfg k p s).2.2)
  | .remove k => ((c.removeItem k).1, .found (c.removeItem k).2)
  | .immunize keys => ((handImmunizeKeys c keys).1, .nowFuture (handImmunizeKeys c keys).2.1 (handImmunizeKeys c keys).2.2)
  | .get k => (c, .item (c.get k))
  | .removeOldest n => ((c.removeOldestStep n).1, .num (c.removeOldestStep n).2)
  | .count => (c, .num c.items.length)
  | .countImmune => (c, .num c.immuneKeys.length)
  | .numBytes => (c, .bytes c.numBytes)
  | .keysInOrder => (c, .keys (c.items.map (·.key)))

/-- the abstraction function: forget the map, the element ids and the allocation counter -/
def LChunk.abs (c : LChunk) : Chunk := ⟨c.list.map (·.item), c.immuneKeys, c.numBytes⟩

def finalState {σ : Type} (step : σ → Op → σ × Out) : σ → List Op → σ
  | s, [] => s
  | s, op :: ops => finalState step (step s op).1 ops

def trace {σ : Type} (step : σ → Op → σ × Out) : σ → List Op → List Out
  | _, [] => []
  | s, op :: ops => (step s op).2 :: trace step (step s op).1 ops

/-- the three fields of a hand-model chunk (`Chunk` derives no `DecidableEq`; the examples compare this) -/
def chunkView (c : Chunk) : List Item × List Bytes × Int := (c.items, c.immuneKeys, c.numBytes)

namespace Demo

/-- 3 items, 1000 bytes, 1 item evicted per step -/
def cfg : ChunkCfg := ⟨3, 1000, 1⟩

/-- key `[1]` is immunized before it exists; three adds fill the chunk; the fourth evicts — NOT `[1]`, the oldest, which
    is immune, but `[2]`; then `[3]` is removed -/
def history : List Op :=
  [ .immunize [[1]], .add [1] [0xa1] 10, .add [2] [0xa2] 20, .add [3] [0xa3] 30, .add [4] [0xa4] 40,
    .remove [3], .keysInOrder ]

def final : LChunk := finalState (LChunk.step cfg) LChunk.empty history

end Demo

/-! ## 2. Lists of elements -/

section lists

theorem find_unique {α β : Type} [BEq β] [LawfulBEq β] (f : α → β) (l : List α) (e : α) (hn : (l.map f).Nodup)
    (he : e ∈ l) : l.find? (fun x => f x == f e) = some e := by
  induction l with
  | nil => cases he
  | cons x xs ih =>
    rw [List.map_cons, List.nodup_cons] at hn
    rcases List.mem_cons.mp he with rfl | he'
    · simp
    · have hx : f x ≠ f e := fun h => hn.1 (h ▸ List.mem_map_of_mem he')
      have hb : (f x == f e) = false := by simpa using hx
      rw [List.find?_cons, hb]
      exact ih hn.2 he'

/-- an injective-on-the-list attribute identifies the element -/
theorem eq_of_attr_eq {α β : Type} [BEq β] [LawfulBEq β] (f : α → β) (l : List α) (x e : α) (hn : (l.map f).Nodup)
    (hx : x ∈ l) (he : e ∈ l) (h : f x = f e) : x = e := by
  have h1 := find_unique f l x hn hx
  rw [h, find_unique f l e hn he] at h1
  exact (Option.some.inj h1).symm

theorem deref_of_mem (l : List Elem) (e : Elem) (hn : (l.map (·.id)).Nodup) (he : e ∈ l) :
    DL.deref l e.id = some e := find_unique (fun x : Elem => x.id) l e hn he

theorem find_key_of_mem (l : List Elem) (e : Elem) (hn : (l.map (·.item.key)).Nodup) (he : e ∈ l) :
    l.find? (·.item.key == e.item.key) = some e := find_unique (fun x : Elem => x.item.key) l e hn he

theorem deref_some {l : List Elem} {id : Nat} {e : Elem} (h : DL.deref l id = some e) : e ∈ l ∧ e.id = id := by
  unfold DL.deref at h
  exact ⟨List.mem_of_find?_eq_some h, by simpa using List.find?_some h⟩

/-- with distinct keys and distinct ids, "the element with that key" and "the element with that id" are the same -/
theorem id_eq_iff_key_eq (l : List Elem) (x e : Elem) (hk : (l.map (·.item.key)).Nodup) (hi : (l.map (·.id)).Nodup)
    (hx : x ∈ l) (he : e ∈ l) : x.id = e.id ↔ x.item.key = e.item.key := by
  constructor
  · intro h; rw [eq_of_attr_eq (·.id) l x e hi hx he h]
  · intro h; rw [eq_of_attr_eq (·.item.key) l x e hk hx he h]

theorem filter_id_eq_filter_key (l : List Elem) (e : Elem) (hk : (l.map (·.item.key)).Nodup)
    (hi : (l.map (·.id)).Nodup) (he : e ∈ l) :
    l.filter (·.id != e.id) = l.filter (·.item.key != e.item.key) := by
  apply List.filter_congr
  intro x hx
  have := id_eq_iff_key_eq l x e hk hi hx he
  by_cases h : x.id = e.id
  · have h2 := this.mp h
    simp [h, h2]
  · have h2 : x.item.key ≠ e.item.key := fun h' => h (this.mpr h')
    rw [bne_iff_ne.mpr h, bne_iff_ne.mpr h2]

theorem find_filter_key (l : List Elem) (k k' : Bytes) :
    (l.filter (·.item.key != k)).find? (·.item.key == k') = if k' = k then none else l.find? (·.item.key == k') := by
  induction l with
  | nil => simp
  | cons x xs ih =>
    by_cases hx : x.item.key = k
    · have : (x.item.key != k) = false := by simp [hx]
      rw [List.filter_cons, this]
      simp only [Bool.false_eq_true, if_false]
      rw [ih]
      split
      · rfl
      · rename_i hne
        have hb : (x.item.key == k') = false := by simp [hx]; exact fun h => hne h.symm
        rw [List.find?_cons, hb]
    · have : (x.item.key != k) = true := by simp [hx]
      rw [List.filter_cons, this]
      simp only [if_true]
      rw [List.find?_cons, List.find?_cons, ih]
      cases hb : (x.item.key == k') with
      | true =>
        have : x.item.key = k' := by simpa using hb
        have hne : ¬ k' = k := fun h => hx (this.trans h)
        simp [hne]
      | false => rfl

theorem not_mem_keys_filter (l : List Elem) (k : Bytes) : k ∉ (l.filter (·.item.key != k)).map (·.item.key) := by
  intro hm
  obtain ⟨x, hx, hxk⟩ := List.mem_map.mp hm
  have := (List.mem_filter.mp hx).2
  simp [hxk] at this

/-- `Next()` of a linked element: the head of what follows it -/
theorem next_middle (pre : List Elem) (e : Elem) (s : List Elem) (hi : ((pre ++ e :: s).map (·.id)).Nodup) :
    DL.next (pre ++ e :: s) e.id = s.head?.map (·.id) := by
  induction pre with
  | nil => simp [DL.next]
  | cons x xs ih =>
    rw [List.cons_append, List.map_cons, List.nodup_cons] at hi
    have hx : x.id ≠ e.id := fun h => hi.1 (by rw [h]; exact List.mem_map_of_mem (by simp))
    have hb : (x.id == e.id) = false := by simpa using hx
    rw [List.cons_append, DL.next, hb]
    exact ih hi.2

/-- `Remove(e)` of a linked element unlinks exactly that element -/
theorem remove_middle (pre : List Elem) (e : Elem) (s : List Elem) (hi : ((pre ++ e :: s).map (·.id)).Nodup) :
    DL.remove (pre ++ e :: s) e.id = pre ++ s := by
  have hne : ∀ x ∈ pre ++ s, x.id ≠ e.id := by
    intro x hx h
    rw [List.map_append, List.map_cons, List.nodup_append] at hi
    obtain ⟨h1, h2, h3⟩ := hi
    rcases List.mem_append.mp hx with hp | hs
    · exact h3 x.id (List.mem_map_of_mem hp) e.id (by simp) h
    · rw [List.nodup_cons] at h2
      exact h2.1 (h ▸ List.mem_map_of_mem hs)
  unfold DL.remove
  rw [List.filter_append, List.filter_cons]
  have h1 : pre.filter (·.id != e.id) = pre := by
    rw [List.filter_eq_self]
    intro x hx
    simpa using hne x (List.mem_append_left _ hx)
  have h2 : s.filter (·.id != e.id) = s := by
    rw [List.filter_eq_self]
    intro x hx
    simpa using hne x (List.mem_append_right _ hx)
  rw [h1, h2]
  simp

theorem mem_remove {l : List Elem} {id : Nat} {x : Elem} : x ∈ DL.remove l id ↔ x ∈ l ∧ x.id ≠ id := by
  unfold DL.remove
  rw [List.mem_filter]
  simp

/-- the pointer write of `setImmune` touches neither keys, nor ids, nor sizes, nor payloads -/
theorem setImmune_keys (l : List Elem) (id : Nat) : (DL.setImmune l id).map (·.item.key) = l.map (·.item.key) := by
  unfold DL.setImmune
  rw [List.map_map]
  apply List.map_congr_left
  intro x _
  simp only [Function.comp]
  split <;> rfl

theorem setImmune_ids (l : List Elem) (id : Nat) : (DL.setImmune l id).map (·.id) = l.map (·.id) := by
  unfold DL.setImmune
  rw [List.map_map]
  apply List.map_congr_left
  intro x _
  simp only [Function.comp]
  split <;> rfl

theorem setImmune_find_key (l : List Elem) (id : Nat) (k : Bytes) :
    ((DL.setImmune l id).find? (·.item.key == k)).map (·.id) = (l.find? (·.item.key == k)).map (·.id) := by
  induction l with
  | nil => rfl
  | cons x xs ih =>
    unfold DL.setImmune at ih ⊢
    rw [List.map_cons, List.find?_cons, List.find?_cons]
    have hk : (if x.id == id then { x with item := { x.item with immune := true } } else x).item.key = x.item.key := by
      split <;> rfl
    have hid : (if x.id == id then { x with item := { x.item with immune := true } } else x).id = x.id := by
      split <;> rfl
    rw [hk]
    cases hb : (x.item.key == k) with
    | true =>
      simp only [Option.map_some]
      exact congrArg some hid
    | false => exact ih

theorem mem_setImmune {l : List Elem} {id : Nat} {y : Elem} (hy : y ∈ DL.setImmune l id) :
    ∃ x ∈ l, x.id = y.id ∧ x.item.key = y.item.key := by
  unfold DL.setImmune at hy
  obtain ⟨x, hx, rfl⟩ := List.mem_map.mp hy
  refine ⟨x, hx, ?_, ?_⟩ <;> split <;> rfl

/-- an element that is already immune is not changed by any `setImmune` -/
theorem mem_setImmune_of_immune {l : List Elem} (id : Nat) {x : Elem} (hx : x ∈ l) (hi : x.item.immune = true) :
    x ∈ DL.setImmune l id := by
  unfold DL.setImmune
  refine List.mem_map.mpr ⟨x, hx, ?_⟩
  split
  · obtain ⟨i, ⟨k, p, s, im⟩⟩ := x
    simp only at hi
    subst hi
    rfl
  · rfl

/-- the abstraction of `setImmune` on the element that carries key `k` -/
theorem setImmune_items (l : List Elem) (e : Elem) (hk : (l.map (·.item.key)).Nodup) (hi : (l.map (·.id)).Nodup)
    (he : e ∈ l) :
    (DL.setImmune l e.id).map (·.item) =
      (l.map (·.item)).map (fun it => if it.key == e.item.key then { it with immune := true } else it) := by
  unfold DL.setImmune
  rw [List.map_map, List.map_map]
  apply List.map_congr_left
  intro x hx
  simp only [Function.comp]
  have := id_eq_iff_key_eq l x e hk hi hx he
  by_cases h : x.id = e.id
  · have h2 := this.mp h
    simp [h, h2]
  · have h2 : x.item.key ≠ e.item.key := fun h' => h (this.mpr h')
    have b1 : (x.id == e.id) = false := by simpa using h
    have b2 : (x.item.key == e.item.key) = false := by simpa using h2
    rw [b1, b2]
    rfl

/-- flagging "every item with key `k`" when none has it changes nothing -/
theorem map_flag_absent (l : List Item) (k : Bytes) (h : ∀ it ∈ l, it.key ≠ k) :
    l.map (fun it => if it.key == k then { it with immune := true } else it) = l := by
  conv => rhs; rw [← List.map_id l]
  apply List.map_congr_left
  intro x hx
  have : (x.key == k) = false := by simpa using h x hx
  simp [this]

theorem find_item (l : List Elem) (k : Bytes) :
    (l.map (·.item)).find? (·.key == k) = (l.find? (·.item.key == k)).map (·.item) := by
  induction l with
  | nil => rfl
  | cons x xs ih =>
    rw [List.map_cons, List.find?_cons, List.find?_cons]
    cases hb : (x.item.key == k) with
    | true => rfl
    | false => exact ih

theorem any_item (l : List Elem) (k : Bytes) :
    (l.map (·.item)).any (·.key == k) = (l.find? (·.item.key == k)).isSome := by
  induction l with
  | nil => rfl
  | cons x xs ih =>
    rw [List.map_cons, List.any_cons, List.find?_cons]
    cases hb : (x.item.key == k) with
    | true => rfl
    | false => simpa using ih

theorem filter_item (l : List Elem) (k : Bytes) :
    (l.filter (·.item.key != k)).map (·.item) = (l.map (·.item)).filter (·.key != k) := by
  induction l with
  | nil => rfl
  | cons x xs ih =>
    rw [List.map_cons, List.filter_cons, List.filter_cons]
    cases hb : (x.item.key != k) with
    | true => simp [ih]
    | false => simpa using ih

theorem mem_of_alookup (k : Bytes) (l : List (Bytes × Nat)) (v : Nat) (h : alookup k l = some v) : (k, v) ∈ l := by
  induction l with
  | nil => simp [alookup] at h
  | cons a r ih =>
    obtain ⟨k', v'⟩ := a
    simp only [alookup] at h
    split at h
    · rename_i hk
      have : k' = k := by simpa using hk
      cases h
      rw [this]
      exact List.mem_cons_self
    · exact List.mem_cons_of_mem _ (ih h)

theorem alookup_of_mem (l : List (Bytes × Nat)) (hn : (l.map (·.1)).Nodup) (k : Bytes) (v : Nat) (h : (k, v) ∈ l) :
    alookup k l = some v := by
  induction l with
  | nil => cases h
  | cons a r ih =>
    obtain ⟨k', v'⟩ := a
    rw [List.map_cons, List.nodup_cons] at hn
    rcases List.mem_cons.mp h with e | hr
    · cases e
      simp [alookup]
    · have hne : k' ≠ k := fun e => hn.1 (e ▸ List.mem_map_of_mem (f := (·.1)) hr)
      have hb : (k' == k) = false := by simpa using hne
      simp only [alookup, hb]
      exact ih hn.2 hr

theorem alookup_none_iff (l : List (Bytes × Nat)) (k : Bytes) : alookup k l = none ↔ k ∉ l.map (·.1) := by
  induction l with
  | nil => simp [alookup]
  | cons a r ih =>
    obtain ⟨k', v'⟩ := a
    simp only [alookup, List.map_cons, List.mem_cons, not_or]
    by_cases hk : k' = k
    · simp [hk]
    · have hb : (k' == k) = false := by simpa using hk
      simp only [hb, Bool.false_eq_true, if_false]
      rw [ih]
      exact ⟨fun h => ⟨fun e => hk e.symm, h⟩, fun h => h.2⟩

end lists

/-! ## 3. Coherence of the map and the list -/

/-- the map and the list describe the same set of entries -/
structure Coh (c : LChunk) : Prop where
  /-- no key twice in the list -/
  keysNodup : (c.list.map (·.item.key)).Nodup
  /-- an element is linked once -/
  idsNodup : (c.list.map (·.id)).Nodup
  /-- ids are never reused -/
  idsFresh : ∀ e ∈ c.list, e.id < c.nextId
  /-- a Go map binds a key once -/
  itemsNodup : (c.items.map (·.1)).Nodup
  /-- `items[k]` is (the pointer to) the list element that carries key `k` — in both directions: a key is bound in the
      map iff some linked element carries it, and then the binding is that element -/
  lookup : ∀ k, alookup k c.items = (c.list.find? (·.item.key == k)).map (·.id)

/-- `Coh` spelled out without `alookup`/`find?` -/
structure Explicit (c : LChunk) : Prop where
  mapKeysNodup : (c.items.map (·.1)).Nodup
  listKeysNodup : (c.list.map (·.item.key)).Nodup
  idsNodup : (c.list.map (·.id)).Nodup
  idsFresh : ∀ e ∈ c.list, e.id < c.nextId
  /-- every map entry points to a linked element, and that element carries the entry's key -/
  mapToList : ∀ k id, (k, id) ∈ c.items → ∃ e ∈ c.list, e.id = id ∧ e.item.key = k
  /-- every linked element is the target of the map entry of its key -/
  listToMap : ∀ e ∈ c.list, (e.item.key, e.id) ∈ c.items

theorem Coh.empty : Coh LChunk.empty :=
  { keysNodup := List.nodup_nil, idsNodup := List.nodup_nil, idsFresh := fun e he => (by cases he),
    itemsNodup := List.nodup_nil, lookup := fun _ => rfl }

/-- no dangling and no stale map entry -/
theorem Coh.resolve {c : LChunk} (h : Coh c) {k : Bytes} {id : Nat} (hl : alookup k c.items = some id) :
    ∃ e, e ∈ c.list ∧ e.item.key = k ∧ e.id = id ∧ c.list.find? (·.item.key == k) = some e ∧
      DL.deref c.list id = some e := by
  have := h.lookup k
  rw [hl] at this
  cases hf : c.list.find? (·.item.key == k) with
  | none => rw [hf] at this; simp at this
  | some e =>
    rw [hf] at this
    have hid : e.id = id := by simpa using this.symm
    have hm := List.mem_of_find?_eq_some hf
    have hk : e.item.key = k := by simpa using List.find?_some hf
    refine ⟨e, hm, hk, hid, rfl, ?_⟩
    rw [← hid]
    exact deref_of_mem _ e h.idsNodup hm

theorem Coh.absent {c : LChunk} (h : Coh c) {k : Bytes} (hl : alookup k c.items = none) :
    ∀ e ∈ c.list, e.item.key ≠ k := by
  have := h.lookup k
  rw [hl] at this
  cases hf : c.list.find? (·.item.key == k) with
  | none =>
    rw [List.find?_eq_none] at hf
    intro e he
    simpa using hf e he
  | some e => rw [hf] at this; simp at this

theorem Coh.lookup_mem {c : LChunk} (h : Coh c) {e : Elem} (he : e ∈ c.list) :
    alookup e.item.key c.items = some e.id := by
  rw [h.lookup, find_key_of_mem _ e h.keysNodup he]; rfl

theorem Coh.explicit {c : LChunk} (h : Coh c) : Explicit c :=
  { mapKeysNodup := h.itemsNodup, listKeysNodup := h.keysNodup, idsNodup := h.idsNodup, idsFresh := h.idsFresh,
    mapToList := fun k id hp => by
      obtain ⟨e, he, hk, hid, _⟩ := h.resolve (alookup_of_mem c.items h.itemsNodup k id hp)
      exact ⟨e, he, hid, hk⟩
    listToMap := fun e he => mem_of_alookup _ _ _ (h.lookup_mem he) }

theorem Coh.of_explicit {c : LChunk} (h : Explicit c) : Coh c :=
  { keysNodup := h.listKeysNodup, idsNodup := h.idsNodup, idsFresh := h.idsFresh, itemsNodup := h.mapKeysNodup,
    lookup := fun k => by
      cases hl : alookup k c.items with
      | some id =>
        obtain ⟨e, he, hid, hk⟩ := h.mapToList k id (mem_of_alookup _ _ _ hl)
        rw [← hk, find_key_of_mem _ e h.listKeysNodup he, ← hid]; rfl
      | none =>
        cases hf : c.list.find? (·.item.key == k) with
        | none => rfl
        | some e =>
          have hm := List.mem_of_find?_eq_some hf
          have hk : e.item.key = k := by simpa using List.find?_some hf
          have := alookup_of_mem c.items h.mapKeysNodup _ _ (h.listToMap e hm)
          rw [hk, hl] at this
          cases this }

theorem coh_iff_explicit (c : LChunk) : Coh c ↔ Explicit c := ⟨Coh.explicit, Coh.of_explicit⟩

/-- the map's keys are the list's keys -/
theorem Coh.sameKeys {c : LChunk} (h : Coh c) : (c.items.map (·.1)).Perm (c.list.map (·.item.key)) := by
  rw [List.perm_ext_iff_of_nodup h.itemsNodup h.keysNodup]
  intro k
  constructor
  · intro hk
    obtain ⟨p, hp, rfl⟩ := List.mem_map.mp hk
    obtain ⟨k, id⟩ := p
    obtain ⟨e, he, _, hek⟩ := h.explicit.mapToList k id hp
    exact hek ▸ List.mem_map_of_mem he
  · intro hk
    obtain ⟨e, he, rfl⟩ := List.mem_map.mp hk
    exact List.mem_map.mpr ⟨(e.item.key, e.id), h.explicit.listToMap e he, rfl⟩

/-- `len(chunk.items) == chunk.itemsAsList.Len()` -/
theorem Coh.sameLen {c : LChunk} (h : Coh c) : c.items.length = c.list.length := by
  have := h.sameKeys.length_eq
  simpa using this

/-- following the pointer of a map entry always succeeds and lands on the entry's key -/
theorem Coh.deref {c : LChunk} (h : Coh c) {k : Bytes} {id : Nat} (hp : (k, id) ∈ c.items) :
    ∃ e, DL.deref c.list id = some e ∧ e ∈ c.list ∧ e.item.key = k ∧ e.id = id := by
  obtain ⟨e, he, hek, hid, _, hd⟩ := h.resolve (alookup_of_mem c.items h.itemsNodup k id hp)
  exact ⟨e, hd, he, hek, hid⟩

/-! ### the primitive updates keep coherence -/

/-- `removeNoLock` of a linked element is "remove its key" from both structures -/
theorem Coh.removeNoLock {c : LChunk} (h : Coh c) {e : Elem} (he : e ∈ c.list) :
    Coh (c.removeNoLock e) ∧ (c.removeNoLock e).list = c.list.filter (·.item.key != e.item.key) := by
  have hev : (c.removeNoLock e).list = c.list.filter (·.item.key != e.item.key) :=
    filter_id_eq_filter_key _ e h.keysNodup h.idsNodup he
  refine ⟨⟨?_, ?_, ?_, ?_, ?_⟩, hev⟩
  · rw [hev]; exact List.Nodup.sublist (List.Sublist.map _ List.filter_sublist) h.keysNodup
  · rw [hev]; exact List.Nodup.sublist (List.Sublist.map _ List.filter_sublist) h.idsNodup
  · rw [hev]; intro x hx; exact h.idsFresh x (List.mem_filter.mp hx).1
  · exact SV.Persist.nodup_keys_aerase e.item.key c.items h.itemsNodup
  · intro k
    rw [hev, find_filter_key]
    show alookup k (aerase e.item.key c.items) = _
    split
    · rename_i hk; rw [hk]; exact SV.Persist.alookup_aerase_self e.item.key c.items
    · rename_i hk; rw [SV.Persist.alookup_aerase_ne hk]; exact h.lookup k

/-- `PushBack` + map insert of a key the map does not bind -/
theorem Coh.addItemNoLock {c : LChunk} (h : Coh c) (item : Item) (hl : alookup item.key c.items = none) :
    Coh (c.addItemNoLock item) := by
  have hab := h.absent hl
  refine ⟨?_, ?_, ?_, ?_, ?_⟩
  · show ((c.list ++ [(⟨c.nextId, item⟩ : Elem)]).map (·.item.key)).Nodup
    rw [List.map_append, List.nodup_append]
    refine ⟨h.keysNodup, by simp, ?_⟩
    intro a ha b hb
    obtain ⟨x, hx, rfl⟩ := List.mem_map.mp ha
    simp only [List.map_cons, List.map_nil, List.mem_singleton] at hb
    rw [hb]
    exact hab x hx
  · show ((c.list ++ [(⟨c.nextId, item⟩ : Elem)]).map (·.id)).Nodup
    rw [List.map_append, List.nodup_append]
    refine ⟨h.idsNodup, by simp, ?_⟩
    intro a ha b hb
    obtain ⟨x, hx, rfl⟩ := List.mem_map.mp ha
    simp only [List.map_cons, List.map_nil, List.mem_singleton] at hb
    have := h.idsFresh x hx
    omega
  · intro x hx
    show x.id < c.nextId + 1
    rcases List.mem_append.mp hx with hx' | hx'
    · exact Nat.lt_succ_of_lt (h.idsFresh x hx')
    · rw [List.mem_singleton.mp hx']; exact Nat.lt_succ_self _
  · exact SV.Persist.nodup_keys_aset item.key c.nextId c.items h.itemsNodup
  · intro k'
    show alookup k' (aset item.key c.nextId c.items) =
      ((c.list ++ [(⟨c.nextId, item⟩ : Elem)]).find? (·.item.key == k')).map (·.id)
    rw [List.find?_append]
    by_cases hk : k' = item.key
    · subst hk
      rw [SV.Persist.alookup_aset_self]
      have : c.list.find? (·.item.key == item.key) = none := by
        rw [List.find?_eq_none]
        intro x hx
        simpa using hab x hx
      rw [this]
      simp
    · rw [SV.Persist.alookup_aset_ne hk, h.lookup k']
      have : (item.key == k') = false := by simpa using fun e : item.key = k' => hk e.symm
      cases c.list.find? (·.item.key == k') with
      | some e => rfl
      | none => simp [this]

/-- the pointer write of `immunizeAgainstEviction` concerns neither structure's shape -/
theorem Coh.setImmune {c : LChunk} (h : Coh c) (id : Nat) : Coh { c with list := DL.setImmune c.list id } := by
  refine ⟨?_, ?_, ?_, h.itemsNodup, ?_⟩
  · show ((DL.setImmune c.list id).map (·.item.key)).Nodup
    rw [setImmune_keys]; exact h.keysNodup
  · show ((DL.setImmune c.list id).map (·.id)).Nodup
    rw [setImmune_ids]; exact h.idsNodup
  · intro y hy
    obtain ⟨x, hx, hid, _⟩ := mem_setImmune hy
    rw [← hid]; exact h.idsFresh x hx
  · intro k
    show alookup k c.items = ((DL.setImmune c.list id).find? (·.item.key == k)).map (·.id)
    rw [setImmune_find_key]; exact h.lookup k

theorem Coh.congr_shape {c c' : LChunk} (h : Coh c) (h1 : c'.items = c.items) (h2 : c'.list = c.list)
    (h3 : c'.nextId = c.nextId) : Coh c' := by
  obtain ⟨a, b, i, n, x⟩ := c'
  simp only at h1 h2 h3
  subst h1 h2 h3
  exact ⟨h.keysNodup, h.idsNodup, h.idsFresh, h.itemsNodup, h.lookup⟩

/-! ## 4. The eviction walk

`removeOldestLoop` follows element pointers through a list that it is modifying.  `loop_eq_walk` shows that (ids being
distinct, and `Next()` being taken before the removal) it visits exactly the elements that were linked when it
started, in order: the structural `walk`.  `walk_spec` then relates the walk to the hand model's `removeOldest`. -/

theorem chunk_ext {a b : Chunk} (h1 : a.items = b.items) (h2 : a.immuneKeys = b.immuneKeys)
    (h3 : a.numBytes = b.numBytes) : a = b := by
  cases a; cases b
  simp only at h1 h2 h3
  subst h1 h2 h3
  rfl

/-- the walk over the elements linked at the start -/
def walk (n : Nat) : LChunk → List Elem → Nat → LChunk × Nat
  | c, [], r => (c, r)
  | c, e :: s, r =>
    if r < n then (if e.item.immune then walk n c s r else walk n (c.removeNoLock e) s (r + 1)) else (c, r)

theorem loop_eq_walk (n : Nat) (s : List Elem) : ∀ (fuel : Nat) (c : LChunk) (pre : List Elem) (r : Nat),
    (c.list.map (·.id)).Nodup → c.list = pre ++ s → s.length ≤ fuel →
    LChunk.removeOldestLoop n fuel c (s.head?.map (·.id)) r = walk n c s r := by
  induction s with
  | nil =>
    intro fuel c pre r _ _ _
    cases fuel <;> simp [LChunk.removeOldestLoop, walk]
  | cons e s ih =>
    intro fuel c pre r hnd hl hf
    cases fuel with
    | zero => simp at hf
    | succ f =>
      have he : e ∈ c.list := by rw [hl]; simp
      have hd : DL.deref c.list e.id = some e := deref_of_mem _ e hnd he
      have hn : DL.next c.list e.id = s.head?.map (·.id) := by
        rw [hl]; exact next_middle pre e s (hl ▸ hnd)
      simp only [List.head?_cons, Option.map_some, LChunk.removeOldestLoop, walk, hd, hn]
      by_cases hr : r < n
      · rw [if_pos hr, if_pos hr]
        cases him : e.item.immune with
        | true =>
          simp only [if_true]
          exact ih f c (pre ++ [e]) r hnd (by rw [hl]; simp) (by simp at hf; omega)
        | false =>
          simp only [Bool.false_eq_true, if_false]
          have hl' : (c.removeNoLock e).list = pre ++ s := by
            show DL.remove c.list e.id = pre ++ s
            rw [hl]; exact remove_middle pre e s (hl ▸ hnd)
          refine ih f (c.removeNoLock e) pre (r + 1) ?_ hl' (by simp at hf; omega)
          show ((DL.remove c.list e.id).map (·.id)).Nodup
          exact List.Nodup.sublist (List.Sublist.map _ List.filter_sublist) hnd
      · rw [if_neg hr, if_neg hr]

theorem subBytes_cons (b : Int) (it : Item) (rem : List Item) :
    subBytes b (it :: rem) = subBytes (max (b - it.size) 0) rem := by
  simp [subBytes]

theorem walk_spec (n : Nat) (s : List Elem) : ∀ (c : LChunk) (pre : List Elem) (r : Nat), Coh c → c.list = pre ++ s →
    Coh (walk n c s r).1 ∧
    (walk n c s r).1.list.map (·.item) = pre.map (·.item) ++ (removeOldest (n - r) (s.map (·.item))).1 ∧
    (walk n c s r).2 = r + (removeOldest (n - r) (s.map (·.item))).2.length ∧
    (walk n c s r).1.numBytes = subBytes c.numBytes (removeOldest (n - r) (s.map (·.item))).2 ∧
    (walk n c s r).1.immuneKeys = c.immuneKeys ∧ (walk n c s r).1.nextId = c.nextId ∧
    (∀ x ∈ c.list, x.item.immune = true → x ∈ (walk n c s r).1.list) ∧
    (walk n c s r).1.list.Sublist c.list := by
  induction s with
  | nil =>
    intro c pre r h hl
    simp only [walk, List.map_nil, removeOldest_nil, List.append_nil, List.length_nil, Nat.add_zero]
    refine ⟨h, by rw [hl]; simp, trivial, by simp [subBytes], trivial, trivial, fun x hx _ => hx, List.Sublist.refl _⟩
  | cons e s ih =>
    intro c pre r h hl
    have he : e ∈ c.list := by rw [hl]; simp
    by_cases hr : r < n
    · obtain ⟨m, hm⟩ : ∃ m, n - r = m + 1 := ⟨n - r - 1, by omega⟩
      cases him : e.item.immune with
      | true =>
        have hw : walk n c (e :: s) r = walk n c s r := by simp [walk, hr, him]
        obtain ⟨h1, h2, h3, h4, h5, h6, h7, h8⟩ := ih c (pre ++ [e]) r h (by rw [hl]; simp)
        rw [hw, hm, List.map_cons, removeOldest_cons_immune m e.item _ him]
        rw [hm] at h2 h3 h4
        refine ⟨h1, ?_, h3, h4, h5, h6, h7, h8⟩
        rw [h2]; simp
      | false =>
        have hw : walk n c (e :: s) r = walk n (c.removeNoLock e) s (r + 1) := by simp [walk, hr, him]
        have hl' : (c.removeNoLock e).list = pre ++ s := by
          show DL.remove c.list e.id = pre ++ s
          rw [hl]; exact remove_middle pre e s (hl ▸ h.idsNodup)
        obtain ⟨h1, h2, h3, h4, h5, h6, h7, h8⟩ := ih (c.removeNoLock e) pre (r + 1) (h.removeNoLock he).1 hl'
        have hm' : n - (r + 1) = m := by omega
        rw [hw, hm, List.map_cons, removeOldest_cons_not m e.item _ him]
        rw [hm'] at h2 h3 h4
        refine ⟨h1, h2, ?_, ?_, h5, h6, ?_, ?_⟩
        · rw [h3]; simp; omega
        · rw [h4, subBytes_cons]; rfl
        · intro x hx hxi
          apply h7 x _ hxi
          rw [hl']
          rw [hl] at hx
          rcases List.mem_append.mp hx with hp | hs
          · exact List.mem_append_left _ hp
          · rcases List.mem_cons.mp hs with rfl | hs'
            · rw [him] at hxi; cases hxi
            · exact List.mem_append_right _ hs'
        · exact h8.trans (List.filter_sublist (l := c.list))
    · have hw : walk n c (e :: s) r = (c, r) := by simp [walk, hr]
      have h0 : n - r = 0 := by omega
      rw [hw, h0, removeOldest_zero]
      refine ⟨h, by rw [hl]; simp, rfl, by simp [subBytes], rfl, rfl, fun x hx _ => hx, List.Sublist.refl _⟩

theorem removeOldest_eq_walk {c : LChunk} (h : (c.list.map (·.id)).Nodup) (n : Nat) :
    c.removeOldest n = walk n c c.list 0 :=
  loop_eq_walk n c.list c.list.length c [] 0 h rfl (Nat.le_refl _)

/-- the fuel of `removeOldestLoop` is immaterial: any bound ≥ the length of the list gives the same result -/
theorem removeOldestLoop_fuel {c : LChunk} (h : (c.list.map (·.id)).Nodup) (n fuel : Nat) (hf : c.list.length ≤ fuel) :
    LChunk.removeOldestLoop n fuel c (DL.front c.list) 0 = c.removeOldest n := by
  rw [removeOldest_eq_walk h]
  exact loop_eq_walk n c.list fuel c [] 0 h rfl hf

/-- `removeOldestNoLock(n)` under coherence: coherence is kept, the result and the new state are the hand model's
    `removeOldestStep`, no immune element is unlinked, nothing is linked anew -/
theorem removeOldest_spec {c : LChunk} (h : Coh c) (n : Nat) :
    Coh (c.removeOldest n).1 ∧ (c.removeOldest n).1.abs = (c.abs.removeOldestStep n).1 ∧
    (c.removeOldest n).2 = (c.abs.removeOldestStep n).2 ∧ (c.removeOldest n).1.nextId = c.nextId ∧
    (∀ x ∈ c.list, x.item.immune = true → x ∈ (c.removeOldest n).1.list) ∧
    (c.removeOldest n).1.list.Sublist c.list := by
  rw [removeOldest_eq_walk h.idsNodup]
  obtain ⟨h1, h2, h3, h4, h5, h6, h7, h8⟩ := walk_spec n c.list c [] 0 h rfl
  simp only [Nat.sub_zero, List.map_nil, List.nil_append, Nat.zero_add] at h2 h3 h4
  refine ⟨h1, chunk_ext ?_ ?_ ?_, ?_, h6, h7, h8⟩
  · rw [removeOldestStep_items]; exact h2
  · rw [removeOldestStep_immuneKeys]; exact h5
  · rw [removeOldestStep_numBytes]; exact h4
  · rw [removeOldestStep_snd]; exact h3

theorem Coh.removeOldest {c : LChunk} (h : Coh c) (n : Nat) : Coh (c.removeOldest n).1 := (removeOldest_spec h n).1

theorem removeOldest_refines {c : LChunk} (h : Coh c) (n : Nat) :
    (c.removeOldest n).1.abs = (c.abs.removeOldestStep n).1 ∧ (c.removeOldest n).2 = (c.abs.removeOldestStep n).2 :=
  ⟨(removeOldest_spec h n).2.1, (removeOldest_spec h n).2.2.1⟩

/-- a step that removed nothing did nothing (no coherence needed): the state `AddItem` leaves behind when it refuses -/
theorem removeOldestLoop_zero (n : Nat) : ∀ (fuel : Nat) (c : LChunk) (cur : Option Nat) (r : Nat),
    r ≤ (LChunk.removeOldestLoop n fuel c cur r).2 ∧
    ((LChunk.removeOldestLoop n fuel c cur r).2 = r → (LChunk.removeOldestLoop n fuel c cur r).1 = c) := by
  intro fuel
  induction fuel with
  | zero => intro c cur r; simp [LChunk.removeOldestLoop]
  | succ f ih =>
    intro c cur r
    cases cur with
    | none => simp [LChunk.removeOldestLoop]
    | some id =>
      simp only [LChunk.removeOldestLoop]
      split
      · split
        · exact ⟨Nat.le_refl _, fun _ => rfl⟩
        · split
          · exact ih _ _ _
          · have := ih (c.removeNoLock ‹Elem›) (DL.next c.list id) (r + 1)
            exact ⟨by omega, fun hh => by omega⟩
      · exact ⟨Nat.le_refl _, fun _ => rfl⟩

theorem removeOldest_zero_unchanged (c : LChunk) (n : Nat) (h : (c.removeOldest n).2 = 0) : (c.removeOldest n).1 = c :=
  (removeOldestLoop_zero n _ c _ 0).2 h

/-! ## 5. Eviction -/

theorem evictMore_succ (cfg : ChunkCfg) (fuel : Nat) (c : Chunk) (last : Nat) :
    evictMore cfg (fuel + 1) c last =
      if (c.exceeded cfg && last == cfg.numToEvict) = true then
        evictMore cfg fuel (c.removeOldestStep cfg.numToEvict).1 (c.removeOldestStep cfg.numToEvict).2
      else c := rfl

theorem evictIfNeeded_unfold (cfg : ChunkCfg) (c : Chunk) :
    c.evictIfNeeded cfg =
      if c.exceeded cfg = true then
        (if (c.removeOldestStep cfg.numToEvict).2 = 0 then none
         else some (evictMore cfg (c.items.length + 1) (c.removeOldestStep cfg.numToEvict).1
                      (c.removeOldestStep cfg.numToEvict).2))
      else some c := rfl

/-- `isCapacityExceededNoLock` reads the MAP's size; the hand model reads the list's length -/
theorem isCapacityExceeded_abs {c : LChunk} (h : Coh c) (cfg : ChunkCfg) :
    c.isCapacityExceeded cfg = c.abs.exceeded cfg := by
  unfold LChunk.isCapacityExceeded Chunk.exceeded
  rw [h.sameLen]
  simp [LChunk.abs]

theorem removeOldest_length {c : LChunk} (h : Coh c) (n : Nat) :
    (c.removeOldest n).1.list.length + (c.removeOldest n).2 = c.list.length ∧ (c.removeOldest n).2 ≤ n := by
  obtain ⟨_, h2, h3, _⟩ := removeOldest_spec h n
  have hl := removeOldestStep_length c.abs n
  rw [← h2, ← h3] at hl
  have hle := (removeOldest_partition n c.abs.items).2.2
  rw [← removeOldestStep_snd, ← h3] at hle
  simp only [LChunk.abs, List.length_map] at hl
  exact ⟨hl, hle⟩

theorem evictLoop_spec (cfg : ChunkCfg) : ∀ (fuel : Nat) (c : LChunk) (last : Nat), Coh c →
    Coh (LChunk.evictLoop cfg fuel c last) ∧ (LChunk.evictLoop cfg fuel c last).abs = evictMore cfg fuel c.abs last ∧
    (LChunk.evictLoop cfg fuel c last).nextId = c.nextId ∧
    (∀ x ∈ c.list, x.item.immune = true → x ∈ (LChunk.evictLoop cfg fuel c last).list) ∧
    (LChunk.evictLoop cfg fuel c last).list.Sublist c.list := by
  intro fuel
  induction fuel with
  | zero => intro c last h; exact ⟨h, rfl, rfl, fun x hx _ => hx, List.Sublist.refl _⟩
  | succ f ih =>
    intro c last h
    rw [evictMore_succ]
    simp only [LChunk.evictLoop]
    rw [isCapacityExceeded_abs h]
    split
    · obtain ⟨s1, s2, s3, s4, s5, s6⟩ := removeOldest_spec h cfg.numToEvict
      obtain ⟨i1, i2, i3, i4, i5⟩ := ih (c.removeOldest cfg.numToEvict).1 (c.removeOldest cfg.numToEvict).2 s1
      refine ⟨i1, ?_, i3.trans s4, fun x hx hi => i4 x (s5 x hx hi) hi, i5.trans s6⟩
      rw [i2, s2, s3]
    · exact ⟨h, rfl, rfl, fun x hx _ => hx, List.Sublist.refl _⟩

theorem evictLoop_exit (cfg : ChunkCfg) (fuel : Nat) (c : LChunk) (last : Nat) (h : last ≠ cfg.numToEvict) :
    LChunk.evictLoop cfg fuel c last = c := by
  cases fuel with
  | zero => rfl
  | succ f =>
    have : (last == cfg.numToEvict) = false := by simpa using h
    simp [LChunk.evictLoop, this]

/-- the fuel of the `for` loop of `evictItemsNoLock` is immaterial: every iteration that continues has unlinked
    `numItemsToPreemptivelyEvict ≥ 1` elements -/
theorem evictLoop_fuel (cfg : ChunkCfg) (hn : 1 ≤ cfg.numToEvict) : ∀ (f1 f2 : Nat) (c : LChunk) (last : Nat), Coh c →
    c.list.length < f1 → c.list.length < f2 → LChunk.evictLoop cfg f1 c last = LChunk.evictLoop cfg f2 c last := by
  intro f1
  induction f1 with
  | zero => intro f2 c last _ h1; omega
  | succ a ih =>
    intro f2 c last h h1 h2
    cases f2 with
    | zero => omega
    | succ b =>
      simp only [LChunk.evictLoop]
      split
      · obtain ⟨hl, _⟩ := removeOldest_length h cfg.numToEvict
        by_cases hr : (c.removeOldest cfg.numToEvict).2 = cfg.numToEvict
        · exact ih b _ _ (h.removeOldest _) (by omega) (by omega)
        · rw [evictLoop_exit cfg a _ _ hr, evictLoop_exit cfg b _ _ hr]
      · rfl

/-- `evictItemsIfCapacityExceededNoLock` under coherence: it is the hand model's `evictIfNeeded`; an error leaves the
    chunk as it was; immune elements stay linked; nothing is linked anew -/
theorem evictIfNeeded_spec {c : LChunk} (h : Coh c) (cfg : ChunkCfg) :
    Coh (c.evictItemsIfCapacityExceeded cfg).1 ∧
    c.abs.evictIfNeeded cfg =
      (if (c.evictItemsIfCapacityExceeded cfg).2 = true then none else some (c.evictItemsIfCapacityExceeded cfg).1.abs) ∧
    ((c.evictItemsIfCapacityExceeded cfg).2 = true → (c.evictItemsIfCapacityExceeded cfg).1 = c) ∧
    (c.evictItemsIfCapacityExceeded cfg).1.nextId = c.nextId ∧
    (∀ x ∈ c.list, x.item.immune = true → x ∈ (c.evictItemsIfCapacityExceeded cfg).1.list) ∧
    (c.evictItemsIfCapacityExceeded cfg).1.list.Sublist c.list := by
  rw [evictIfNeeded_unfold]
  unfold LChunk.evictItemsIfCapacityExceeded
  rw [isCapacityExceeded_abs h]
  split
  · unfold LChunk.evictItems
    obtain ⟨s1, s2, s3, s4, s5, s6⟩ := removeOldest_spec h cfg.numToEvict
    rw [← s3]
    split
    · rename_i h0
      have hu := removeOldest_zero_unchanged c cfg.numToEvict h0
      refine ⟨s1, by simp, fun _ => hu, s4, s5, s6⟩
    · obtain ⟨i1, i2, i3, i4, i5⟩ :=
        evictLoop_spec cfg (c.list.length + 1) (c.removeOldest cfg.numToEvict).1 (c.removeOldest cfg.numToEvict).2 s1
      refine ⟨i1, ?_, by simp, i3.trans s4, fun x hx hi => i4 x (s5 x hx hi) hi, i5.trans s6⟩
      simp only [Bool.false_eq_true, if_false]
      rw [i2, s2, s3]
      simp [LChunk.abs]
  · exact ⟨h, by simp, by simp, rfl, fun x hx _ => hx, List.Sublist.refl _⟩

theorem evictIfNeeded_refines {c : LChunk} (h : Coh c) (cfg : ChunkCfg) :
    c.abs.evictIfNeeded cfg =
      (if (c.evictItemsIfCapacityExceeded cfg).2 = true then none else some (c.evictItemsIfCapacityExceeded cfg).1.abs) :=
  (evictIfNeeded_spec h cfg).2.1

/-- with any fuel above the length of the list, the loop of `evictItemsNoLock` computes what `evictItems` returns -/
theorem evictItems_fuel {c : LChunk} (h : Coh c) (cfg : ChunkCfg) (fuel : Nat) (hf : c.list.length < fuel)
    (hr : (c.removeOldest cfg.numToEvict).2 ≠ 0) :
    LChunk.evictLoop cfg fuel (c.removeOldest cfg.numToEvict).1 (c.removeOldest cfg.numToEvict).2 =
      (c.evictItems cfg).1 := by
  obtain ⟨hl, hle⟩ := removeOldest_length h cfg.numToEvict
  unfold LChunk.evictItems
  rw [if_neg hr]
  exact evictLoop_fuel cfg (by omega) _ _ _ _ (h.removeOldest _) (by omega) (by omega)

/-! ## 6. The operations under coherence -/

/-- the duplicate test of `AddItem` asks the MAP; the hand model scans the list -/
theorem itemExists_abs {c : LChunk} (h : Coh c) (k : Bytes) : c.itemExists k = c.abs.has k := by
  unfold LChunk.itemExists Chunk.has
  rw [h.lookup]
  show _ = (c.list.map (·.item)).any (·.key == k)
  rw [any_item]
  cases c.list.find? (·.item.key == k) <;> rfl

theorem setImmune_append_fresh (l : List Elem) (id : Nat) (it : Item) (hf : ∀ x ∈ l, x.id ≠ id) :
    DL.setImmune (l ++ [(⟨id, it⟩ : Elem)]) id = l ++ [(⟨id, { it with immune := true }⟩ : Elem)] := by
  unfold DL.setImmune
  rw [List.map_append]
  congr 1
  · conv => rhs; rw [← List.map_id l]
    apply List.map_congr_left
    intro x hx
    have : (x.id == id) = false := by simpa using hf x hx
    simp [this]
  · simp

/-- what the three closing calls of `AddItem` leave in the list: the old elements, then the new one, flagged iff its key
    is in `immuneKeys` -/
theorem insertNew_list {c : LChunk} (h : Coh c) (k p : Bytes) (size : Int) :
    (c.insertNew k p size).list = c.list ++ [(⟨c.nextId, ⟨k, p, size, c.immuneKeys.contains k⟩⟩ : Elem)] := by
  unfold LChunk.insertNew LChunk.trackNumBytesOnAdd LChunk.immunizeItemOnAdd
  show (if c.immuneKeys.contains k = true then
          ({ c.addItemNoLock ⟨k, p, size, false⟩ with
              list := DL.setImmune (c.addItemNoLock ⟨k, p, size, false⟩).list c.nextId } : LChunk)
        else c.addItemNoLock ⟨k, p, size, false⟩).list = _
  cases hc : c.immuneKeys.contains k with
  | true =>
    simp only [if_true]
    show DL.setImmune (c.list ++ [(⟨c.nextId, ⟨k, p, size, false⟩⟩ : Elem)]) c.nextId = _
    rw [setImmune_append_fresh _ _ _ (fun x hx => Nat.ne_of_lt (h.idsFresh x hx))]
  | false =>
    simp only [Bool.false_eq_true, if_false]
    rfl

theorem insertNew_spec {c : LChunk} (h : Coh c) (k p : Bytes) (size : Int) (hl : alookup k c.items = none) :
    Coh (c.insertNew k p size) ∧
    (c.insertNew k p size).abs =
      { c.abs with items := c.abs.items ++ [⟨k, p, size, c.abs.immuneKeys.contains k⟩],
                   numBytes := c.abs.numBytes + size } := by
  have h1 : Coh (c.addItemNoLock ⟨k, p, size, false⟩) := h.addItemNoLock ⟨k, p, size, false⟩ hl
  constructor
  · unfold LChunk.insertNew LChunk.trackNumBytesOnAdd LChunk.immunizeItemOnAdd
    split
    · exact (h1.setImmune c.nextId).congr_shape rfl rfl rfl
    · exact h1.congr_shape rfl rfl rfl
  · apply chunk_ext
    · show (c.insertNew k p size).list.map (·.item) = c.list.map (·.item) ++ [⟨k, p, size, c.immuneKeys.contains k⟩]
      rw [insertNew_list h]; simp
    · show (c.insertNew k p size).immuneKeys = c.immuneKeys
      unfold LChunk.insertNew LChunk.trackNumBytesOnAdd LChunk.immunizeItemOnAdd
      split <;> rfl
    · show (c.insertNew k p size).numBytes = c.numBytes + size
      unfold LChunk.insertNew LChunk.trackNumBytesOnAdd LChunk.immunizeItemOnAdd
      split <;> rfl

/-- `AddItem`: coherence kept, same new state, same `(has, added)` -/
theorem addItem_spec {c : LChunk} (h : Coh c) (cfg : ChunkCfg) (k p : Bytes) (size : Int) :
    Coh (c.addItem cfg k p size).1 ∧ (c.addItem cfg k p size).1.abs = (c.abs.addItem Variant.current cfg k p size).1 ∧
    (c.addItem cfg k p size).2 = (c.abs.addItem Variant.current cfg k p size).2 := by
  obtain ⟨e1, e2, e3, e4, e5, e6⟩ := evictIfNeeded_spec h cfg
  unfold LChunk.addItem
  rw [itemExists_abs h]
  rcases addItem_cases cfg c.abs k p size with ⟨hk, e⟩ | ⟨hk, hn, e⟩ | ⟨hk, c', he, e⟩
  · rw [e, if_pos hk]; exact ⟨h, rfl, rfl⟩
  · rw [e, if_neg (by simp [hk])]
    have herr : (c.evictItemsIfCapacityExceeded cfg).2 = true := by
      cases hb : (c.evictItemsIfCapacityExceeded cfg).2 with
      | true => rfl
      | false => rw [e2, hb] at hn; simp at hn
    rw [if_pos herr, e3 herr]
    exact ⟨h, rfl, rfl⟩
  · rw [e, if_neg (by simp [hk])]
    have herr : (c.evictItemsIfCapacityExceeded cfg).2 = false := by
      cases hb : (c.evictItemsIfCapacityExceeded cfg).2 with
      | true => rw [e2, hb] at he; simp at he
      | false => rfl
    have hc' : c' = (c.evictItemsIfCapacityExceeded cfg).1.abs := by
      rw [e2, herr] at he
      simpa using he.symm
    rw [if_neg (by simp [herr])]
    have hk' : (c.evictItemsIfCapacityExceeded cfg).1.abs.has k = false := by
      rw [← hc', has_eq_false_iff]
      intro it hit
      exact (has_eq_false_iff c.abs k).mp hk it ((evictIfNeeded_sublist cfg c.abs c' he).subset hit)
    have hl : alookup k (c.evictItemsIfCapacityExceeded cfg).1.items = none := by
      have := itemExists_abs e1 k
      rw [hk'] at this
      unfold LChunk.itemExists at this
      cases hh : alookup k (c.evictItemsIfCapacityExceeded cfg).1.items with
      | none => rfl
      | some v => rw [hh] at this; simp at this
    obtain ⟨i1, i2⟩ := insertNew_spec e1 k p size hl
    refine ⟨i1, ?_, rfl⟩
    show ((c.evictItemsIfCapacityExceeded cfg).1.insertNew k p size).abs = _
    rw [i2, ← hc']

theorem Coh.addItem {c : LChunk} (h : Coh c) (cfg : ChunkCfg) (k p : Bytes) (size : Int) :
    Coh (c.addItem cfg k p size).1 := (addItem_spec h cfg k p size).1

theorem addItem_refines {c : LChunk} (h : Coh c) (cfg : ChunkCfg) (k p : Bytes) (size : Int) :
    (c.addItem cfg k p size).1.abs = (c.abs.addItem Variant.current cfg k p size).1 ∧
    (c.addItem cfg k p size).2 = (c.abs.addItem Variant.current cfg k p size).2 := (addItem_spec h cfg k p size).2

/-- `GetItem` -/
theorem getItem_refines {c : LChunk} (h : Coh c) (k : Bytes) : c.getItem k = c.abs.get k := by
  unfold LChunk.getItem LChunk.getItemNoLock Chunk.get
  show _ = (c.list.map (·.item)).find? (·.key == k)
  rw [find_item]
  cases hl : alookup k c.items with
  | none =>
    have hab := h.absent hl
    have : c.list.find? (·.item.key == k) = none := by
      rw [List.find?_eq_none]; intro x hx; simpa using hab x hx
    rw [this]; rfl
  | some id =>
    obtain ⟨e, _, _, _, hf, hd⟩ := h.resolve hl
    simp only [hd, hf]

/-- `RemoveItem`: coherence kept, same new state, same result -/
theorem removeItem_spec {c : LChunk} (h : Coh c) (k : Bytes) :
    Coh (c.removeItem k).1 ∧ (c.removeItem k).1.abs = (c.abs.removeItem k).1 ∧ (c.removeItem k).2 = (c.abs.removeItem k).2 := by
  have hg := getItem_refines h k
  unfold LChunk.getItem LChunk.getItemNoLock at hg
  unfold LChunk.removeItem Chunk.removeItem
  cases hl : alookup k c.items with
  | none =>
    rw [hl] at hg
    simp only [← hg]
    exact ⟨h.congr_shape rfl rfl rfl, rfl, trivial⟩
  | some id =>
    obtain ⟨e, he, hek, hid, hf, hd⟩ := h.resolve hl
    rw [hl] at hg
    simp only [hd, Option.map_some] at hg
    simp only [hd, ← hg]
    have hc1 : Coh ({ c with immuneKeys := c.immuneKeys.filter (· != k) } : LChunk) := h.congr_shape rfl rfl rfl
    obtain ⟨r1, r2⟩ := hc1.removeNoLock (e := e) he
    refine ⟨r1, chunk_ext ?_ rfl rfl, trivial⟩
    show (LChunk.removeNoLock _ e).list.map (·.item) = (c.list.map (·.item)).filter (·.key != k)
    rw [r2, hek, filter_item]

theorem Coh.removeItem {c : LChunk} (h : Coh c) (k : Bytes) : Coh (c.removeItem k).1 := (removeItem_spec h k).1

theorem removeItem_refines {c : LChunk} (h : Coh c) (k : Bytes) :
    (c.removeItem k).1.abs = (c.abs.removeItem k).1 ∧ (c.removeItem k).2 = (c.abs.removeItem k).2 :=
  (removeItem_spec h k).2

/-- one iteration of `ImmunizeKeys`: coherence kept, same new state, same `ok` -/
theorem immunizeKey_spec {c : LChunk} (h : Coh c) (k : Bytes) :
    Coh (c.immunizeKey k).1 ∧ (c.immunizeKey k).1.abs = (c.abs.immunizeKey k).1 ∧
    (c.immunizeKey k).2 = (c.abs.immunizeKey k).2 := by
  have hex := itemExists_abs h k
  unfold LChunk.itemExists at hex
  unfold LChunk.immunizeKey Chunk.immunizeKey
  refine ⟨?_, chunk_ext ?_ rfl rfl, hex⟩
  · cases hl : alookup k c.items with
    | none => exact h.congr_shape rfl rfl rfl
    | some id => exact (h.setImmune id).congr_shape rfl rfl rfl
  · show List.map (fun e : Elem => e.item) (match alookup k c.items with
          | some id => DL.setImmune c.list id
          | none => c.list) =
        (c.list.map (·.item)).map (fun it => if it.key == k then { it with immune := true } else it)
    cases hl : alookup k c.items with
    | none =>
      have hab := h.absent hl
      rw [map_flag_absent]
      intro it hit
      obtain ⟨x, hx, rfl⟩ := List.mem_map.mp hit
      exact hab x hx
    | some id =>
      obtain ⟨e, he, hek, hid, _, _⟩ := h.resolve hl
      show (DL.setImmune c.list id).map (·.item) = _
      rw [← hid, ← hek]
      exact setImmune_items c.list e h.keysNodup h.idsNodup he

theorem Coh.immunizeKey {c : LChunk} (h : Coh c) (k : Bytes) : Coh (c.immunizeKey k).1 := (immunizeKey_spec h k).1

theorem immunizeKey_refines {c : LChunk} (h : Coh c) (k : Bytes) :
    (c.immunizeKey k).1.abs = (c.abs.immunizeKey k).1 ∧ (c.immunizeKey k).2 = (c.abs.immunizeKey k).2 :=
  (immunizeKey_spec h k).2

theorem immunizeKeys_fold_spec (keys : List Bytes) : ∀ (c : LChunk) (a b : Nat), Coh c →
    Coh (keys.foldl (fun (acc : LChunk × Nat × Nat) k =>
      ((acc.1.immunizeKey k).1,
       if (acc.1.immunizeKey k).2 then acc.2.1 + 1 else acc.2.1,
       if (acc.1.immunizeKey k).2 then acc.2.2 else acc.2.2 + 1)) (c, a, b)).1 ∧
    (keys.foldl (fun (acc : LChunk × Nat × Nat) k =>
      ((acc.1.immunizeKey k).1,
       if (acc.1.immunizeKey k).2 then acc.2.1 + 1 else acc.2.1,
       if (acc.1.immunizeKey k).2 then acc.2.2 else acc.2.2 + 1)) (c, a, b)).1.abs =
    (keys.foldl (fun (acc : Chunk × Nat × Nat) k =>
      ((acc.1.immunizeKey k).1,
       if (acc.1.immunizeKey k).2 then acc.2.1 + 1 else acc.2.1,
       if (acc.1.immunizeKey k).2 then acc.2.2 else acc.2.2 + 1)) (c.abs, a, b)).1 ∧
    (keys.foldl (fun (acc : LChunk × Nat × Nat) k =>
      ((acc.1.immunizeKey k).1,
       if (acc.1.immunizeKey k).2 then acc.2.1 + 1 else acc.2.1,
       if (acc.1.immunizeKey k).2 then acc.2.2 else acc.2.2 + 1)) (c, a, b)).2 =
    (keys.foldl (fun (acc : Chunk × Nat × Nat) k =>
      ((acc.1.immunizeKey k).1,
       if (acc.1.immunizeKey k).2 then acc.2.1 + 1 else acc.2.1,
       if (acc.1.immunizeKey k).2 then acc.2.2 else acc.2.2 + 1)) (c.abs, a, b)).2 := by
  induction keys with
  | nil => intro c a b h; exact ⟨h, rfl, rfl⟩
  | cons k ks ih =>
    intro c a b h
    obtain ⟨s1, s2, s3⟩ := immunizeKey_spec h k
    simp only [List.foldl_cons]
    rw [← s2, ← s3]
    exact ih _ _ _ s1

/-- `ImmunizeKeys`: coherence kept, same new state, same `(numNow, numFuture)` -/
theorem immunizeKeys_spec {c : LChunk} (h : Coh c) (keys : List Bytes) :
    Coh (c.immunizeKeys keys).1 ∧ (c.immunizeKeys keys).1.abs = (handImmunizeKeys c.abs keys).1 ∧
    (c.immunizeKeys keys).2 = (handImmunizeKeys c.abs keys).2 :=
  immunizeKeys_fold_spec keys c 0 0 h

theorem Coh.immunizeKeys {c : LChunk} (h : Coh c) (keys : List Bytes) : Coh (c.immunizeKeys keys).1 :=
  (immunizeKeys_spec h keys).1

theorem immunizeKeys_refines {c : LChunk} (h : Coh c) (keys : List Bytes) :
    (c.immunizeKeys keys).1.abs = (handImmunizeKeys c.abs keys).1 ∧
    (c.immunizeKeys keys).2 = (handImmunizeKeys c.abs keys).2 := (immunizeKeys_spec h keys).2

/-! ## 7. Refinement along histories -/

/-- one call: coherence is kept, the new states correspond, the results are EQUAL -/
theorem step_refines (cfg : ChunkCfg) (c : LChunk) (op : Op) (h : Coh c) :
    Coh (c.step cfg op).1 ∧ (c.step cfg op).1.abs = (handStep cfg c.abs op).1 ∧
    (c.step cfg op).2 = (handStep cfg c.abs op).2 := by
  cases op with
  | add k p s =>
    obtain ⟨h1, h2, h3⟩ := addItem_spec h cfg k p s
    exact ⟨h1, h2, by simp only [LChunk.step, handStep]; rw [h3]⟩
  | remove k =>
    obtain ⟨h1, h2, h3⟩ := removeItem_spec h k
    exact ⟨h1, h2, by simp only [LChunk.step, handStep]; rw [h3]⟩
  | immunize keys =>
    obtain ⟨h1, h2, h3⟩ := immunizeKeys_spec h keys
    exact ⟨h1, h2, by simp only [LChunk.step, handStep]; rw [h3]⟩
  | get k => exact ⟨h, rfl, by simp only [LChunk.step, handStep]; rw [getItem_refines h k]⟩
  | removeOldest n =>
    obtain ⟨h1, h2, h3, _⟩ := removeOldest_spec h n
    exact ⟨h1, h2, by simp only [LChunk.step, handStep]; rw [h3]⟩
  | count =>
    refine ⟨h, rfl, ?_⟩
    simp only [LChunk.step, handStep, LChunk.count, LChunk.abs, List.length_map]
    rw [h.sameLen]
  | countImmune => exact ⟨h, rfl, rfl⟩
  | numBytes => exact ⟨h, rfl, rfl⟩
  | keysInOrder =>
    refine ⟨h, rfl, ?_⟩
    simp only [LChunk.step, handStep, LChunk.keysInOrder, LChunk.abs, List.map_map]
    rfl

/-- `Coh` is kept by every operation, for every configuration and every size -/
theorem coh_step (cfg : ChunkCfg) (c : LChunk) (op : Op) (h : Coh c) : Coh (c.step cfg op).1 := (step_refines cfg c op h).1

theorem lib_sim_run (cfg : ChunkCfg) (ops : List Op) : ∀ c : LChunk, Coh c →
    trace (LChunk.step cfg) c ops = trace (handStep cfg) c.abs ops ∧
    (finalState (LChunk.step cfg) c ops).abs = finalState (handStep cfg) c.abs ops ∧
    Coh (finalState (LChunk.step cfg) c ops) := by
  induction ops with
  | nil => intro c h; exact ⟨rfl, rfl, h⟩
  | cons op ops ih =>
    intro c h
    obtain ⟨h1, h2, h3⟩ := step_refines cfg c op h
    obtain ⟨i1, i2, i3⟩ := ih _ h1
    simp only [trace, finalState]
    rw [← h2, ← h3]
    exact ⟨by rw [i1], i2, i3⟩

/-- MAIN THEOREM.  For every configuration and every list of operations applied to the fresh chunk, the model that
    keeps the map and the list apart returns, call after call, exactly what the hand-written one-list model returns; the
    final states correspond; the final state is coherent. -/
theorem lib_chunk_refines_model (cfg : ChunkCfg) (ops : List Op) :
    trace (LChunk.step cfg) LChunk.empty ops = trace (handStep cfg) Chunk.empty ops ∧
    (finalState (LChunk.step cfg) LChunk.empty ops).abs = finalState (handStep cfg) Chunk.empty ops ∧
    Coh (finalState (LChunk.step cfg) LChunk.empty ops) :=
  lib_sim_run cfg ops LChunk.empty Coh.empty

theorem coh_run (cfg : ChunkCfg) (ops : List Op) : Coh (finalState (LChunk.step cfg) LChunk.empty ops) :=
  (lib_chunk_refines_model cfg ops).2.2

/-- instance: the 7-call history of `Demo` (an immunization, an eviction that skips the immune item, a removal), both
    sides evaluated -/
example : trace (LChunk.step Demo.cfg) LChunk.empty Demo.history = trace (handStep Demo.cfg) Chunk.empty Demo.history ∧
    chunkView Demo.final.abs = chunkView (finalState (handStep Demo.cfg) Chunk.empty Demo.history) := by decide

theorem Demo.final_coh : Coh Demo.final := coh_run Demo.cfg Demo.history

/-! ### the hand model's invariant (numBytes = Σ sizes, flags = immuneKeys, bound), carried over -/

/-- sizes passed to `AddItem` are non-negative (Go: `sizeInBytes` of `HasOrAdd`) -/
def Op.sizeOk : Op → Prop
  | .add _ _ s => 0 ≤ s
  | _ => True

instance (op : Op) : Decidable op.sizeOk := by
  cases op <;> simp only [Op.sizeOk] <;> infer_instance

theorem chunkInv_removeOldestStep {cfg : ChunkCfg} {c : Chunk} (h : ChunkInv cfg c) (n : Nat) :
    ChunkInv cfg (c.removeOldestStep n).1 := by
  have hsub : (c.removeOldestStep n).1.items.Sublist c.items := (removeOldest_partition n c.items).2.1
  have hb := removeOldestStep_BInv c n h.binv
  exact { keysNodup := h.keysNodup.sublist (hsub.map _), immuneNodup := h.immuneNodup,
          flags := fun it hit => h.flags it (hsub.subset hit), sizes := hb.1, bytes := hb.2,
          bound := Nat.le_trans hsub.length_le h.bound }

theorem chunkInv_handImmunizeKeys {cfg : ChunkCfg} (keys : List Bytes) : ∀ (c : Chunk) (a b : Nat), ChunkInv cfg c →
    ChunkInv cfg (keys.foldl (fun (acc : Chunk × Nat × Nat) k =>
      ((acc.1.immunizeKey k).1,
       if (acc.1.immunizeKey k).2 then acc.2.1 + 1 else acc.2.1,
       if (acc.1.immunizeKey k).2 then acc.2.2 else acc.2.2 + 1)) (c, a, b)).1 := by
  induction keys with
  | nil => intro c a b h; exact h
  | cons k ks ih =>
    intro c a b h
    simp only [List.foldl_cons]
    exact ih _ _ _ (ChunkInv.immunizeKey cfg c k h)

theorem chunkInv_handStep {cfg : ChunkCfg} {c : Chunk} (h : ChunkInv cfg c) (op : Op) (hw : op.sizeOk) :
    ChunkInv cfg (handStep cfg c op).1 := by
  cases op with
  | add k p s => exact ChunkInv.addItem' cfg c k p s h hw
  | remove k => exact ChunkInv.removeItem cfg c k h
  | immunize keys => exact chunkInv_handImmunizeKeys keys c 0 0 h
  | removeOldest n => exact chunkInv_removeOldestStep h n
  | get k => exact h
  | count => exact h
  | countImmune => exact h
  | numBytes => exact h
  | keysInOrder => exact h

/-- coherence of the two structures + the hand model's bookkeeping invariant on what they describe -/
structure Inv (cfg : ChunkCfg) (c : LChunk) : Prop where
  coh : Coh c
  chunk : ChunkInv cfg c.abs

theorem Inv.empty (cfg : ChunkCfg) : Inv cfg LChunk.empty := ⟨Coh.empty, ChunkInv.empty cfg⟩

theorem inv_step (cfg : ChunkCfg) (c : LChunk) (op : Op) (hw : op.sizeOk) (h : Inv cfg c) : Inv cfg (c.step cfg op).1 := by
  obtain ⟨h1, h2, _⟩ := step_refines cfg c op h.coh
  exact ⟨h1, h2 ▸ chunkInv_handStep h.chunk op hw⟩

theorem inv_run (cfg : ChunkCfg) (ops : List Op) (hw : ∀ op ∈ ops, op.sizeOk) :
    ∀ c : LChunk, Inv cfg c → Inv cfg (finalState (LChunk.step cfg) c ops) := by
  induction ops with
  | nil => intro c h; exact h
  | cons op ops ih =>
    intro c h
    exact ih (fun o ho => hw o (List.mem_cons_of_mem _ ho)) _ (inv_step cfg c op (hw op List.mem_cons_self) h)

theorem Demo.final_inv : Inv Demo.cfg Demo.final :=
  inv_run Demo.cfg Demo.history (by decide) LChunk.empty (Inv.empty Demo.cfg)

/-- `NumBytes()` is the sum of the sizes of the linked items, the flag of every linked item says whether its key is in
    `immuneKeys`, `CountImmune` counts distinct keys -/
theorem Inv.numBytes_eq {cfg : ChunkCfg} {c : LChunk} (h : Inv cfg c) : c.numBytes = sumSz (c.list.map (·.item)) :=
  h.chunk.bytes

theorem Inv.flags {cfg : ChunkCfg} {c : LChunk} (h : Inv cfg c) {e : Elem} (he : e ∈ c.list) :
    e.item.immune = c.immuneKeys.contains e.item.key :=
  h.chunk.flags e.item (List.mem_map_of_mem he)

/-! ### the capacity bound holds whatever the sizes are -/

theorem handStep_bound (cfg : ChunkCfg) (c : Chunk) (op : Op) (h : c.items.length ≤ cfg.maxNumItems) :
    (handStep cfg c op).1.items.length ≤ cfg.maxNumItems := by
  cases op with
  | add k p s =>
    show (c.addItem Variant.current cfg k p s).1.items.length ≤ _
    rcases addItem_cases cfg c k p s with ⟨_, e⟩ | ⟨_, _, e⟩ | ⟨_, c', he, e⟩
    · rw [e]; exact h
    · rw [e]; exact h
    · rw [e]
      show (c'.items ++ [_]).length ≤ _
      rw [List.length_append, List.length_singleton]
      have hlen := evictIfNeeded_length cfg c c' he
      cases hex : c.exceeded cfg with
      | true => have := hlen.2 hex; omega
      | false =>
        have : c.items.length < cfg.maxNumItems := by
          simp [Chunk.exceeded] at hex
          omega
        omega
  | remove k =>
    show (c.removeItem k).1.items.length ≤ _
    unfold Chunk.removeItem
    dsimp only
    split
    · exact h
    · exact Nat.le_trans (List.length_filter_le _ _) h
  | immunize keys =>
    show (handImmunizeKeys c keys).1.items.length ≤ _
    have : ∀ (ks : List Bytes) (c : Chunk) (a b : Nat),
        (ks.foldl (fun (acc : Chunk × Nat × Nat) k =>
          ((acc.1.immunizeKey k).1,
           if (acc.1.immunizeKey k).2 then acc.2.1 + 1 else acc.2.1,
           if (acc.1.immunizeKey k).2 then acc.2.2 else acc.2.2 + 1)) (c, a, b)).1.items.length = c.items.length := by
      intro ks
      induction ks with
      | nil => intro c a b; rfl
      | cons k ks ih =>
        intro c a b
        simp only [List.foldl_cons]
        rw [ih]
        simp [Chunk.immunizeKey]
    unfold handImmunizeKeys
    rw [this]; exact h
  | removeOldest n =>
    exact Nat.le_trans (removeOldest_partition n c.items).2.1.length_le h
  | get k => exact h
  | count => exact h
  | countImmune => exact h
  | numBytes => exact h
  | keysInOrder => exact h

theorem handRun_bound (cfg : ChunkCfg) (ops : List Op) : ∀ c : Chunk, c.items.length ≤ cfg.maxNumItems →
    (finalState (handStep cfg) c ops).items.length ≤ cfg.maxNumItems := by
  induction ops with
  | nil => intro c h; exact h
  | cons op ops ih => intro c h; exact ih _ (handStep_bound cfg c op h)

/-! ## 8. Corollaries stated on the code-faithful model -/

/-- `Count()` (`len(items)`, the map) is the length of the linked list -/
theorem lib_count_eq_len {c : LChunk} (h : Coh c) : c.count = c.list.length := h.sameLen

/-- … hence after ANY history (any sizes, any configuration) `Count()` ≤ `maxNumItems` of the chunk -/
theorem lib_count_le_max (cfg : ChunkCfg) (ops : List Op) :
    (finalState (LChunk.step cfg) LChunk.empty ops).count ≤ cfg.maxNumItems := by
  obtain ⟨_, h2, h3⟩ := lib_chunk_refines_model cfg ops
  rw [lib_count_eq_len h3]
  have := handRun_bound cfg ops Chunk.empty (Nat.zero_le _)
  rw [← h2] at this
  simpa [LChunk.abs] using this

example : Demo.final.count = 2 ∧ Demo.final.list.length = 2 ∧ Demo.cfg.maxNumItems = 3 := by decide

/-- `KeysInOrder()` lists the keys of the linked elements, oldest first — which is the hand model's item list -/
theorem lib_keysInOrder (c : LChunk) : c.keysInOrder = c.abs.items.map (·.key) := by
  simp [LChunk.keysInOrder, LChunk.abs, List.map_map]

/-- … and under coherence these are the keys the map binds: `AppendKeys` (map order) is a permutation of them -/
theorem lib_appendKeys_perm {c : LChunk} (h : Coh c) (acc : List Bytes) :
    (c.appendKeys acc).Perm (acc ++ c.keysInOrder) :=
  List.Perm.append_left acc h.sameKeys

/-- `ForEachItem` calls the function once per linked element, with its key and payload (in the map's order) -/
theorem lib_forEachItem_perm {c : LChunk} (h : Coh c) :
    c.forEachItem.Perm (c.list.map (fun e => (e.item.key, e.item.payload))) := by
  have hn1 : (c.list.map (fun e => (e.item.key, e.item.payload))).Nodup := by
    have : ((c.list.map (fun e => (e.item.key, e.item.payload))).map (·.1)).Nodup := by
      rw [List.map_map]; exact h.keysNodup
    exact List.Pairwise.of_map (·.1) (fun a b hab he => hab (he ▸ rfl)) this
  have hn2 : c.forEachItem.Nodup := by
    have hp : c.items.Pairwise (fun a b => a.1 ≠ b.1) := List.pairwise_map.mp h.itemsNodup
    refine List.Pairwise.filterMap _ ?_ hp
    intro a a' hne b hb b' hb' hbb
    cases hd : DL.deref c.list a.2 with
    | none => rw [hd] at hb; simp at hb
    | some e =>
      cases hd' : DL.deref c.list a'.2 with
      | none => rw [hd'] at hb'; simp at hb'
      | some e' =>
        rw [hd] at hb; rw [hd'] at hb'
        simp only [Option.map_some, Option.some.injEq] at hb hb'
        rw [← hb, ← hb'] at hbb
        exact hne (Prod.mk.inj hbb).1
  rw [List.perm_ext_iff_of_nodup hn2 hn1]
  intro q
  constructor
  · intro hq
    obtain ⟨p, hp, hf⟩ := List.mem_filterMap.mp hq
    obtain ⟨k, id⟩ := p
    obtain ⟨e, hd, he, hek, _⟩ := h.deref hp
    simp only [hd, Option.map_some, Option.some.injEq] at hf
    rw [← hf, ← hek]
    exact List.mem_map_of_mem (f := fun e : Elem => (e.item.key, e.item.payload)) he
  · intro hq
    obtain ⟨e, he, rfl⟩ := List.mem_map.mp hq
    refine List.mem_filterMap.mpr ⟨(e.item.key, e.id), h.explicit.listToMap e he, ?_⟩
    show (DL.deref c.list e.id).map _ = _
    rw [deref_of_mem _ e h.idsNodup he]
    rfl

/-- a refused `AddItem` (`has = false`, `added = false`) leaves the chunk exactly as it was -/
theorem lib_refusal_unchanged {c : LChunk} (cfg : ChunkCfg) (k p : Bytes) (size : Int)
    (hr : (c.addItem cfg k p size).2 = (false, false)) : (c.addItem cfg k p size).1 = c := by
  unfold LChunk.addItem at hr ⊢
  split
  · rfl
  · split
    · rename_i herr
      unfold LChunk.evictItemsIfCapacityExceeded at herr ⊢
      split
      · rename_i hex
        rw [if_pos hex] at herr
        unfold LChunk.evictItems at herr ⊢
        split
        · rename_i h0; exact removeOldest_zero_unchanged c _ h0
        · rename_i h0; rw [if_neg h0] at herr; cases herr
      · rfl
    · rename_i h1 h2
      rw [if_neg h1, if_neg h2] at hr
      cases hr

/-! ### an immune item is never evicted (statements about the linked ELEMENT, identity included) -/

theorem immunizeKey_keeps_immune (c : LChunk) (k : Bytes) {e : Elem} (he : e ∈ c.list) (hi : e.item.immune = true) :
    e ∈ (c.immunizeKey k).1.list := by
  unfold LChunk.immunizeKey
  show e ∈ (match alookup k c.items with
            | some id => DL.setImmune c.list id
            | none => c.list)
  split
  · exact mem_setImmune_of_immune _ he hi
  · exact he

theorem immunizeKeys_keeps_immune (keys : List Bytes) : ∀ (c : LChunk) (a b : Nat) {e : Elem}, e ∈ c.list →
    e.item.immune = true →
    e ∈ (keys.foldl (fun (acc : LChunk × Nat × Nat) k =>
      ((acc.1.immunizeKey k).1,
       if (acc.1.immunizeKey k).2 then acc.2.1 + 1 else acc.2.1,
       if (acc.1.immunizeKey k).2 then acc.2.2 else acc.2.2 + 1)) (c, a, b)).1.list := by
  induction keys with
  | nil => intro c a b e he _; exact he
  | cons k ks ih =>
    intro c a b e he hi
    simp only [List.foldl_cons]
    exact ih _ _ _ (immunizeKey_keeps_immune c k he hi) hi

/-- `AddItem` never unlinks (nor alters) an immune element — whatever it has to evict to make room -/
theorem lib_immune_not_evicted {c : LChunk} (h : Coh c) (cfg : ChunkCfg) (k p : Bytes) (size : Int) {e : Elem}
    (he : e ∈ c.list) (hi : e.item.immune = true) : e ∈ (c.addItem cfg k p size).1.list := by
  obtain ⟨e1, _, _, _, e5, _⟩ := evictIfNeeded_spec h cfg
  unfold LChunk.addItem
  split
  · exact he
  · split
    · exact e5 e he hi
    · show e ∈ ((c.evictItemsIfCapacityExceeded cfg).1.insertNew k p size).list
      rw [insertNew_list e1]
      exact List.mem_append_left _ (e5 e he hi)

/-- `RemoveOldest(n)` never unlinks an immune element -/
theorem lib_immune_not_removedOldest {c : LChunk} (h : Coh c) (n : Nat) {e : Elem}
    (he : e ∈ c.list) (hi : e.item.immune = true) : e ∈ (c.removeOldest n).1.list :=
  (removeOldest_spec h n).2.2.2.2.1 e he hi

/-- `RemoveItem` of ANOTHER key leaves the element linked -/
theorem removeItem_keeps_other {c : LChunk} (h : Coh c) (k : Bytes) {e : Elem} (he : e ∈ c.list)
    (hk : e.item.key ≠ k) : e ∈ (c.removeItem k).1.list := by
  unfold LChunk.removeItem
  cases hl : alookup k c.items with
  | none => exact he
  | some id =>
    obtain ⟨e', he', hek, hid, _, hd⟩ := h.resolve hl
    simp only [hd]
    show e ∈ DL.remove c.list e'.id
    rw [mem_remove]
    refine ⟨he, fun hh => hk ?_⟩
    rw [eq_of_attr_eq (fun x : Elem => x.id) c.list e e' h.idsNodup he he' hh]
    exact hek

/-- an immune linked element stays linked, unchanged, across every call except `RemoveItem` of its own key -/
theorem lib_immune_survives_step (cfg : ChunkCfg) {c : LChunk} (h : Coh c) {e : Elem} (he : e ∈ c.list)
    (hi : e.item.immune = true) (op : Op) (hop : op ≠ Op.remove e.item.key) : e ∈ (c.step cfg op).1.list := by
  cases op with
  | add k p s => exact lib_immune_not_evicted h cfg k p s he hi
  | remove k => exact removeItem_keeps_other h k he (fun hk => hop (by rw [hk]))
  | immunize keys => exact immunizeKeys_keeps_immune keys c 0 0 he hi
  | removeOldest n => exact lib_immune_not_removedOldest h n he hi
  | get k => exact he
  | count => exact he
  | countImmune => exact he
  | numBytes => exact he
  | keysInOrder => exact he

/-- … hence along every history that does not remove its key -/
theorem lib_immune_survives_run (cfg : ChunkCfg) (ops : List Op) : ∀ {c : LChunk}, Coh c → ∀ {e : Elem}, e ∈ c.list →
    e.item.immune = true → Op.remove e.item.key ∉ ops → e ∈ (finalState (LChunk.step cfg) c ops).list := by
  induction ops with
  | nil => intro c _ e he _ _; exact he
  | cons op ops ih =>
    intro c h e he hi hno
    have hne : op ≠ Op.remove e.item.key := fun e' => hno (e' ▸ List.mem_cons_self)
    exact ih (coh_step cfg c op h) (lib_immune_survives_step cfg h he hi op hne) hi
      (fun hm => hno (List.mem_cons_of_mem _ hm))

/-- instance: element 0 (key `[1]`, flagged) of `Demo.final` survives three more evicting adds -/
example : (⟨0, ⟨[1], [0xa1], 10, true⟩⟩ : Elem) ∈
    (finalState (LChunk.step Demo.cfg) Demo.final [.add [5] [0xa5] 1, .add [6] [0xa6] 1, .add [7] [0xa7] 1]).list :=
  lib_immune_survives_run Demo.cfg _ Demo.final_coh (e := ⟨0, ⟨[1], [0xa1], 10, true⟩⟩) (by decide) rfl (by decide)

/-- … and `GetItem` keeps returning it -/
theorem lib_immune_survives_get (cfg : ChunkCfg) (ops : List Op) {c : LChunk} (h : Coh c) {e : Elem} (he : e ∈ c.list)
    (hi : e.item.immune = true) (hno : Op.remove e.item.key ∉ ops) :
    (finalState (LChunk.step cfg) c ops).getItem e.item.key = some e.item := by
  have hc := (lib_sim_run cfg ops c h).2.2
  have hm := lib_immune_survives_run cfg ops h he hi hno
  unfold LChunk.getItem LChunk.getItemNoLock
  rw [hc.lookup_mem hm]
  simp only [deref_of_mem _ e hc.idsNodup hm, Option.map_some]

/-! ### how an element becomes immune -/

/-- the same `*list.Element` carrying the same key, payload and size -/
def SameElem (e e' : Elem) : Prop :=
  e'.id = e.id ∧ e'.item.key = e.item.key ∧ e'.item.payload = e.item.payload ∧ e'.item.size = e.item.size

theorem immunizeKey_flags {c : LChunk} (h : Coh c) (k : Bytes) {e : Elem} (he : e ∈ c.list) :
    ∃ e' ∈ (c.immunizeKey k).1.list, SameElem e e' ∧ (e.item.immune = true ∨ e.item.key = k → e'.item.immune = true) := by
  unfold LChunk.immunizeKey
  show ∃ e' ∈ (match alookup k c.items with
               | some id => DL.setImmune c.list id
               | none => c.list), _
  cases hl : alookup k c.items with
  | none =>
    refine ⟨e, he, ⟨rfl, rfl, rfl, rfl⟩, ?_⟩
    rintro (hi | hk)
    · exact hi
    · exact absurd hk (h.absent hl e he)
  | some id =>
    refine ⟨if e.id == id then { e with item := { e.item with immune := true } } else e,
      List.mem_map.mpr ⟨e, he, rfl⟩, ?_, ?_⟩
    · split <;> exact ⟨rfl, rfl, rfl, rfl⟩
    · rintro (hi | hk)
      · split
        · rfl
        · exact hi
      · have := h.lookup_mem he
        rw [hk, hl] at this
        have hid : e.id = id := (Option.some.inj this).symm
        simp [hid]

theorem immunizeKeys_flags (keys : List Bytes) : ∀ (c : LChunk) (a b : Nat), Coh c → ∀ {e : Elem}, e ∈ c.list →
    e.item.immune = true ∨ e.item.key ∈ keys →
    ∃ e' ∈ (keys.foldl (fun (acc : LChunk × Nat × Nat) k =>
      ((acc.1.immunizeKey k).1,
       if (acc.1.immunizeKey k).2 then acc.2.1 + 1 else acc.2.1,
       if (acc.1.immunizeKey k).2 then acc.2.2 else acc.2.2 + 1)) (c, a, b)).1.list,
      SameElem e e' ∧ e'.item.immune = true := by
  induction keys with
  | nil =>
    intro c a b _ e he hor
    rcases hor with hi | hk
    · exact ⟨e, he, ⟨rfl, rfl, rfl, rfl⟩, hi⟩
    · cases hk
  | cons k ks ih =>
    intro c a b h e he hor
    obtain ⟨e1, he1, hs1, hf1⟩ := immunizeKey_flags h k he
    simp only [List.foldl_cons]
    have hor1 : e1.item.immune = true ∨ e1.item.key ∈ ks := by
      rcases hor with hi | hk
      · exact Or.inl (hf1 (Or.inl hi))
      · rcases List.mem_cons.mp hk with hk' | hk'
        · exact Or.inl (hf1 (Or.inr hk'))
        · exact Or.inr (hs1.2.1 ▸ hk')
    obtain ⟨e', he', hs', hi'⟩ := ih _ _ _ (h.immunizeKey k) he1 hor1
    exact ⟨e', he', ⟨hs'.1.trans hs1.1, hs'.2.1.trans hs1.2.1, hs'.2.2.1.trans hs1.2.2.1, hs'.2.2.2.trans hs1.2.2.2⟩, hi'⟩

/-- `ImmunizeKeys(keys)` sets — through the map, through the pointer — the flag of the linked element of every
    resident key of `keys` -/
theorem lib_immunize_flags {c : LChunk} (h : Coh c) (keys : List Bytes) {e : Elem} (he : e ∈ c.list)
    (hk : e.item.key ∈ keys) : ∃ e' ∈ (c.immunizeKeys keys).1.list, SameElem e e' ∧ e'.item.immune = true :=
  immunizeKeys_flags keys c 0 0 h he (Or.inr hk)

/-- C12 on the code-faithful model: once a resident key has been immunized, the element that carries it stays linked —
    same element, same payload — whatever is added, evicted or immunized afterwards, until `RemoveItem` of that key -/
theorem lib_immunized_never_evicted (cfg : ChunkCfg) {c : LChunk} (h : Coh c) (keys : List Bytes) {e : Elem}
    (he : e ∈ c.list) (hk : e.item.key ∈ keys) (ops : List Op) (hno : Op.remove e.item.key ∉ ops) :
    ∃ e' ∈ (finalState (LChunk.step cfg) c (Op.immunize keys :: ops)).list, SameElem e e' ∧ e'.item.immune = true ∧
      (finalState (LChunk.step cfg) c (Op.immunize keys :: ops)).getItem e.item.key = some e'.item := by
  obtain ⟨e', he', hs, hi⟩ := lib_immunize_flags h keys he hk
  have hc := h.immunizeKeys keys
  have hno' : Op.remove e'.item.key ∉ ops := by rw [hs.2.1]; exact hno
  refine ⟨e', lib_immune_survives_run cfg ops hc he' hi hno', hs, hi, ?_⟩
  rw [← hs.2.1]
  exact lib_immune_survives_get cfg ops hc he' hi hno'

/-- C12, the other way in: a key immunized BEFORE it is added gets its element flagged by `AddItem` itself -/
theorem lib_future_immune_on_add {c : LChunk} (h : Coh c) (cfg : ChunkCfg) (k p : Bytes) (size : Int)
    (hk : k ∈ c.immuneKeys) (ha : (c.addItem cfg k p size).2.2 = true) :
    ∃ id, (⟨id, ⟨k, p, size, true⟩⟩ : Elem) ∈ (c.addItem cfg k p size).1.list := by
  obtain ⟨e1, e2, e3, _, _, _⟩ := evictIfNeeded_spec h cfg
  have himm : (c.evictItemsIfCapacityExceeded cfg).1.immuneKeys = c.immuneKeys := by
    cases hb : (c.evictItemsIfCapacityExceeded cfg).2 with
    | true => rw [e3 hb]
    | false =>
      rw [hb] at e2
      simp only [Bool.false_eq_true, if_false] at e2
      exact evictIfNeeded_immuneKeys cfg c.abs _ e2
  unfold LChunk.addItem at ha ⊢
  split
  · rename_i h1; rw [if_pos h1] at ha; cases ha
  · rename_i h1
    split
    · rename_i h2; rw [if_neg h1, if_pos h2] at ha; cases ha
    · refine ⟨(c.evictItemsIfCapacityExceeded cfg).1.nextId, ?_⟩
      show _ ∈ ((c.evictItemsIfCapacityExceeded cfg).1.insertNew k p size).list
      rw [insertNew_list e1, himm, List.contains_iff_mem.mpr hk]
      simp

/-! ## 9. What coherence buys: incoherent states on which the code and the hand model disagree

The hand model has ONE list, so it cannot even express these states; `abs` reads the list.  On each of them a
code-faithful operation returns something else than the hand model's operation on the abstraction — the refinement
theorems are false without `Coh`. -/

namespace Incoherent

def cfg : ChunkCfg := ⟨3, 1000, 1⟩
def cfg1 : ChunkCfg := ⟨1, 1000, 1⟩

/-- a STALE MAP ENTRY: key `[1]` is still bound (to element 0) but element 0 is no longer linked — what a removal that
    unlinks the element and forgets `delete(chunk.items, key)` leaves behind -/
def stale : LChunk := ⟨[([1], 0)], [], [], 0, 1⟩

example : ¬ Coh stale := fun h => by have := h.sameLen; simp [stale] at this

/-- `Count()` says 1, the list (and the hand model) hold nothing -/
example : stale.count = 1 ∧ stale.keysInOrder = [] ∧ stale.abs.items.length = 0 := by decide

/-- `AddItem([1])`: the code answers "duplicate" (has, not added); the hand model adds -/
example : (stale.step cfg (.add [1] [0xaa] 1)).2 = .hasAdded true false ∧
    (handStep cfg stale.abs (.add [1] [0xaa] 1)).2 = .hasAdded false true := by decide

/-- with room for one item the stale entry makes the chunk refuse EVERY new key for ever (the map is "full", the walk
    over the empty list evicts nothing); the hand model adds -/
example : (stale.step cfg1 (.add [2] [0xbb] 1)) = (stale, .hasAdded false false) ∧
    (handStep cfg1 stale.abs (.add [2] [0xbb] 1)).2 = .hasAdded false true := by decide

theorem stale_refuses_all (k p : Bytes) (s : Int) (hk : k ≠ [1]) : stale.addItem cfg1 k p s = (stale, false, false) := by
  have h1 : stale.itemExists k = false := by
    have : ([1] == k) = false := by simpa using fun h : [1] = k => hk h.symm
    simp [LChunk.itemExists, stale, alookup, this]
  have h2 : stale.evictItemsIfCapacityExceeded cfg1 = (stale, true) := by decide
  unfold LChunk.addItem
  rw [h1, h2]
  rfl

/-- a LINKED ELEMENT WITHOUT MAP ENTRY — what a `delete` with the wrong key, or a forgotten map insert, leaves behind -/
def orphan : LChunk := ⟨[], [⟨0, ⟨[1], [0xaa], 1, false⟩⟩], [], 1, 1⟩

example : ¬ Coh orphan := fun h => by have := h.sameLen; simp [orphan] at this

/-- `GetItem`/`RemoveItem` do not find the item the hand model finds; `AddItem` links the key a second time -/
example : (orphan.step cfg (.get [1])).2 = .item none ∧
    (handStep cfg orphan.abs (.get [1])).2 = .item (some ⟨[1], [0xaa], 1, false⟩) ∧
    (orphan.step cfg (.remove [1])).2 = .found false ∧ (handStep cfg orphan.abs (.remove [1])).2 = .found true ∧
    (orphan.step cfg (.add [1] [0xbb] 1)).2 = .hasAdded false true ∧
    (handStep cfg orphan.abs (.add [1] [0xbb] 1)).2 = .hasAdded true false ∧
    (orphan.step cfg (.add [1] [0xbb] 1)).1.keysInOrder = [[1], [1]] := by decide

/-- CROSSED POINTERS: both keys bound, both elements linked, but each entry points to the other key's element -/
def crossed : LChunk :=
  ⟨[([1], 1), ([2], 0)], [⟨0, ⟨[1], [0xa1], 1, false⟩⟩, ⟨1, ⟨[2], [0xa2], 1, false⟩⟩], [], 2, 2⟩

example : ¬ Coh crossed := fun h => by
  have := h.lookup [1]
  simp [crossed, alookup] at this

/-- `GetItem([1])` returns key `[2]`'s item; `RemoveItem([1])` unlinks key `[2]`'s element and deletes `[2]` from the map
    (`removeNoLock` deletes `item.key`), so `[1]` stays bound and listed -/
example : (crossed.step cfg (.get [1])).2 = .item (some ⟨[2], [0xa2], 1, false⟩) ∧
    (crossed.step cfg (.remove [1])).1.keysInOrder = [[1]] ∧
    (crossed.step cfg (.remove [1])).1.items = [([1], 1)] ∧
    (handStep cfg crossed.abs (.remove [1])).1.items.map (·.key) = [[2]] := by decide

/-- THE STALE CURSOR.  `removeOldestNoLock` saves `element.Next()` BEFORE `removeNoLock(elementToRemove)`.  Taking it
    after — on the list from which the element has been unlinked — yields nil (`container/list` clears the links of a
    removed element), and the loop stops after its first removal. -/
def removeOldestLoopStale (numToRemove : Nat) : Nat → LChunk → Option Nat → Nat → LChunk × Nat
  | 0, c, _, r => (c, r)
  | _ + 1, c, none, r => (c, r)
  | fuel + 1, c, some id, r =>
    if r < numToRemove then
      match DL.deref c.list id with
      | none => (c, r)
      | some e =>
        if e.item.immune then removeOldestLoopStale numToRemove fuel c (DL.next c.list id) r
        else removeOldestLoopStale numToRemove fuel (c.removeNoLock e) (DL.next (c.removeNoLock e).list id) (r + 1)
    else (c, r)

def three : LChunk :=
  finalState (LChunk.step cfg) LChunk.empty [.add [1] [0xa1] 1, .add [2] [0xa2] 1, .add [3] [0xa3] 1]

/-- asked to remove 2 of 3 evictable items: the code removes 2, the stale-cursor variant 1 -/
example : (three.removeOldest 2).2 = 2 ∧ (three.removeOldest 2).1.keysInOrder = [[3]] ∧
    (removeOldestLoopStale 2 three.list.length three (DL.front three.list) 0).2 = 1 ∧
    (removeOldestLoopStale 2 three.list.length three (DL.front three.list) 0).1.keysInOrder = [[2], [3]] := by decide

end Incoherent

/-! ## 10. Non-vacuity: a history on a chunk of capacity 3 -/

namespace Demo

example : history.length = 7 := rfl

example : trace (LChunk.step cfg) LChunk.empty history =
    [ .nowFuture 0 1, .hasAdded false true, .hasAdded false true, .hasAdded false true, .hasAdded false true,
      .found true, .keys [[1], [4]] ] := by decide

/-- the final state: the map binds `[1]` and `[4]` to elements 0 and 3 (ids 1 and 2 are gone for good), the list
    links element 0 (flagged) and element 3, 50 bytes -/
example : finalState (LChunk.step cfg) LChunk.empty history =
    ⟨[([1], 0), ([4], 3)], [⟨0, ⟨[1], [0xa1], 10, true⟩⟩, ⟨3, ⟨[4], [0xa4], 40, false⟩⟩], [[1]], 50, 4⟩ := by decide

/-- the hand model, evaluated on its own, says the same (an instance of `lib_chunk_refines_model`) -/
example : trace (LChunk.step cfg) LChunk.empty history = trace (handStep cfg) Chunk.empty history :=
  (lib_chunk_refines_model cfg history).1

/-- the hypotheses of the theorems of sections 6–8 are met by the non-trivial state `final` (`final_coh`, `final_inv`) -/
example : final.count = 2 ∧ final.count = final.list.length ∧ final.count ≤ cfg.maxNumItems ∧ final.numBytes = 50 ∧
    final.countImmune = 1 ∧ final.getItem [1] = some ⟨[1], [0xa1], 10, true⟩ ∧ final.getItem [2] = none := by decide

example : (finalState (LChunk.step cfg) final [.add [5] [0xa5] 1, .add [6] [0xa6] 1, .add [7] [0xa7] 1]).keysInOrder =
    [[1], [6], [7]] := by decide

/-- all three results of `AddItem` occur: added, duplicate, refused (capacity 1, the only resident item is immune) -/
example : trace (LChunk.step ⟨1, 1000, 1⟩) LChunk.empty
      [.add [1] [0xa1] 1, .add [1] [0xff] 1, .immunize [[1], [9]], .add [2] [0xa2] 1, .get [1], .count] =
    [.hasAdded false true, .hasAdded true false, .nowFuture 1 1, .hasAdded false false,
     .item (some ⟨[1], [0xa1], 1, true⟩), .num 1] := by decide

/-- the byte limit evicts too, and `RemoveOldest(2)` skips the immune item -/
example : trace (LChunk.step ⟨10, 50, 1⟩) LChunk.empty
      [.add [1] [0xa1] 30, .immunize [[1]], .add [2] [0xa2] 30, .add [3] [0xa3] 5, .keysInOrder, .numBytes,
       .add [4] [0xa4] 5, .removeOldest 2, .keysInOrder] =
    [.hasAdded false true, .nowFuture 1 0, .hasAdded false true, .hasAdded false true, .keys [[1], [3]], .bytes 35,
     .hasAdded false true, .num 2, .keys [[1]]] := by decide

end Demo
end SV.Immunity.Lib
