/-
  SV.Immunity.Model — executable model of immunitycache (cache.go, chunk.go, cacheItem.go, config.go)
  and of txcache/crossTxCache.go, which is a thin wrapper around it.
-/
import SV.Common
namespace SV.Immunity

structure Variant where
  evictBeforeDupCheck : Bool   -- F10: AddItem evicted before testing for a duplicate
  deriving Repr, DecidableEq

def Variant.legacy : Variant := ⟨true⟩
def Variant.current : Variant := ⟨false⟩

structure Item where
  key : Bytes
  payload : Bytes
  size : Int
  immune : Bool
  deriving Repr, DecidableEq

structure Config where
  numChunks : Nat
  maxNumItems : Nat
  maxNumBytes : Nat
  numItemsToEvict : Nat
  deriving Repr

/-- `getChunkConfig`: per-chunk limits are the cache limits divided by the number of chunks -/
structure ChunkCfg where
  maxNumItems : Nat
  maxNumBytes : Nat
  numToEvict : Nat
  deriving Repr

def Config.chunkCfg (c : Config) : ChunkCfg :=
  let n := max c.numChunks 1
  ⟨c.maxNumItems / n, c.maxNumBytes / n, c.numItemsToEvict / n⟩

structure Chunk where
  items : List Item          -- itemsAsList, oldest first (the map `items` holds the same entries)
  immuneKeys : List Bytes    -- the set immuneKeys
  numBytes : Int
  deriving Repr

def Chunk.empty : Chunk := ⟨[], [], 0⟩

def Chunk.has (c : Chunk) (k : Bytes) : Bool := c.items.any (·.key == k)
def Chunk.get (c : Chunk) (k : Bytes) : Option Item := c.items.find? (·.key == k)

def Chunk.exceeded (cfg : ChunkCfg) (c : Chunk) : Bool :=
  decide (c.items.length ≥ cfg.maxNumItems) || decide (c.numBytes ≥ (cfg.maxNumBytes : Int))

/-- `removeOldestNoLock n`: remove the first `n` non-immune items (oldest first); returns remaining items, removed items -/
def removeOldest : Nat → List Item → List Item × List Item
  | 0, l => (l, [])
  | _, [] => ([], [])
  | n + 1, it :: rest =>
    if it.immune then
      let (keep, rem) := removeOldest (n + 1) rest
      (it :: keep, rem)
    else
      let (keep, rem) := removeOldest n rest
      (keep, it :: rem)

/-- `trackNumBytesOnRemoveNoLock` folded over the removed items (clamped at 0 after each) -/
def subBytes (b : Int) (removed : List Item) : Int := removed.foldl (fun b it => max (b - it.size) 0) b

def Chunk.removeOldestStep (c : Chunk) (n : Nat) : Chunk × Nat :=
  let (keep, rem) := removeOldest n c.items
  ({ c with items := keep, numBytes := subBytes c.numBytes rem }, rem.length)

/-- the loop of `evictItemsNoLock` after the first step -/
def evictMore (cfg : ChunkCfg) : Nat → Chunk → Nat → Chunk
  | 0, c, _ => c
  | fuel + 1, c, lastRemoved =>
    if c.exceeded cfg && lastRemoved == cfg.numToEvict then
      let (c', r) := c.removeOldestStep cfg.numToEvict
      evictMore cfg fuel c' r
    else c

/-- `evictItemsIfCapacityExceededNoLock`: `none` = ErrFailedCacheEviction -/
def Chunk.evictIfNeeded (cfg : ChunkCfg) (c : Chunk) : Option Chunk :=
  if c.exceeded cfg then
    let (c1, r) := c.removeOldestStep cfg.numToEvict
    if r = 0 then none else some (evictMore cfg (c.items.length + 1) c1 r)
  else some c

/-- `AddItem` → (chunk, has, added) -/
def Chunk.addItem (v : Variant) (cfg : ChunkCfg) (c : Chunk) (k payload : Bytes) (size : Int) : Chunk × Bool × Bool :=
  let insert (c : Chunk) : Chunk :=
    { c with items := c.items ++ [⟨k, payload, size, c.immuneKeys.contains k⟩], numBytes := c.numBytes + size }
  if v.evictBeforeDupCheck then
    match c.evictIfNeeded cfg with
    | none => (c, false, false)
    | some c' => if c'.has k then (c', true, false) else (insert c', false, true)
  else
    if c.has k then (c, true, false)
    else
      match c.evictIfNeeded cfg with
      | none => (c, false, false)
      | some c' => (insert c', false, true)

/-- `RemoveItem` -/
def Chunk.removeItem (c : Chunk) (k : Bytes) : Chunk × Bool :=
  let imm := c.immuneKeys.filter (· != k)
  match c.get k with
  | none => ({ c with immuneKeys := imm }, false)
  | some it => ({ items := c.items.filter (·.key != k), immuneKeys := imm, numBytes := max (c.numBytes - it.size) 0 }, true)

/-- chunk-level `ImmunizeKeys` for one key → (chunk, isNow) -/
def Chunk.immunizeKey (c : Chunk) (k : Bytes) : Chunk × Bool :=
  let now := c.has k
  ({ c with items := c.items.map (fun it => if it.key == k then { it with immune := true } else it),
            immuneKeys := if c.immuneKeys.contains k then c.immuneKeys else c.immuneKeys ++ [k] }, now)

/-! ### the cache: an array of chunks indexed by fnv32 key % NumChunks -/

structure Cache where
  cfg : Config
  chunks : List Chunk
  deriving Repr

def Cache.init (cfg : Config) : Cache := ⟨cfg, List.replicate cfg.numChunks Chunk.empty⟩

def Cache.idx (c : Cache) (k : Bytes) : Nat := fnv32 k % c.cfg.numChunks

def Cache.chunkOf (c : Cache) (k : Bytes) : Chunk := (c.chunks[c.idx k]?).getD Chunk.empty

def Cache.setChunk (c : Cache) (i : Nat) (ch : Chunk) : Cache := { c with chunks := c.chunks.set i ch }

def Cache.count (c : Cache) : Nat := (c.chunks.map (·.items.length)).sum
def Cache.countImmune (c : Cache) : Nat := (c.chunks.map (·.immuneKeys.length)).sum
def Cache.numBytes (c : Cache) : Int := (c.chunks.map (·.numBytes)).foldl (· + ·) 0
def Cache.items (c : Cache) : List Item := c.chunks.flatMap (·.items)

def Cache.hasOrAdd (v : Variant) (c : Cache) (k payload : Bytes) (size : Int) : Cache × Bool × Bool :=
  let (ch, has, added) := (c.chunkOf k).addItem v c.cfg.chunkCfg k payload size
  (c.setChunk (c.idx k) ch, has, added)

def Cache.remove (c : Cache) (k : Bytes) : Cache × Bool :=
  let (ch, r) := (c.chunkOf k).removeItem k
  (c.setChunk (c.idx k) ch, r)

def Cache.get (c : Cache) (k : Bytes) : Option Bytes := ((c.chunkOf k).get k).map (·.payload)

/-- `ImmunizeKeys` → (cache, numNow, numFuture); refused as a whole when the immune capacity would be exceeded -/
def Cache.immunizeKeys (c : Cache) (keys : List Bytes) : Cache × Nat × Nat :=
  if c.countImmune + keys.length > c.cfg.maxNumItems then (c, 0, 0)
  else
    keys.foldl (fun (acc : Cache × Nat × Nat) k =>
      let (ch, now) := (acc.1.chunkOf k).immunizeKey k
      (acc.1.setChunk (acc.1.idx k) ch, if now then acc.2.1 + 1 else acc.2.1, if now then acc.2.2 else acc.2.2 + 1)) (c, 0, 0)

def Cache.clear (c : Cache) : Cache := Cache.init c.cfg

end SV.Immunity
