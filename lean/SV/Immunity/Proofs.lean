/-
  SV.Immunity.Proofs — proofs about the immunity cache chunk model (C12, C13).
-/
import SV.Immunity.Spec
namespace SV.Immunity

/-! ### removeOldest: rewriting lemmas -/

theorem removeOldest_zero (l : List Item) : removeOldest 0 l = (l, []) := by
  cases l <;> simp [removeOldest]

theorem removeOldest_nil (n : Nat) : removeOldest n [] = ([], []) := by
  cases n <;> simp [removeOldest]

theorem removeOldest_cons_immune (n : Nat) (it : Item) (rest : List Item) (h : it.immune = true) :
    removeOldest (n + 1) (it :: rest) = (it :: (removeOldest (n + 1) rest).1, (removeOldest (n + 1) rest).2) := by
  simp [removeOldest, h]

theorem removeOldest_cons_not (n : Nat) (it : Item) (rest : List Item) (h : it.immune = false) :
    removeOldest (n + 1) (it :: rest) = ((removeOldest n rest).1, it :: (removeOldest n rest).2) := by
  simp [removeOldest, h]

/-- eviction never touches an immune item -/
theorem removeOldest_keeps_immune (n : Nat) (l : List Item) :
    (∀ it ∈ (removeOldest n l).2, it.immune = false) ∧ (∀ it ∈ l, it.immune = true → it ∈ (removeOldest n l).1) := by
  induction l generalizing n with
  | nil => simp [removeOldest_nil]
  | cons a rest ih =>
    cases n with
    | zero => rw [removeOldest_zero]; exact ⟨by simp, fun it hit _ => hit⟩
    | succ n =>
      cases ha : a.immune with
      | true =>
        rw [removeOldest_cons_immune n a rest ha]
        refine ⟨(ih (n + 1)).1, ?_⟩
        intro it hit himm
        rcases List.mem_cons.mp hit with rfl | hr
        · exact List.mem_cons_self
        · exact List.mem_cons_of_mem _ ((ih (n + 1)).2 it hr himm)
      | false =>
        rw [removeOldest_cons_not n a rest ha]
        refine ⟨?_, ?_⟩
        · intro it hit
          rcases List.mem_cons.mp hit with rfl | hr
          · exact ha
          · exact (ih n).1 it hr
        · intro it hit himm
          rcases List.mem_cons.mp hit with rfl | hr
          · rw [ha] at himm; cases himm
          · exact (ih n).2 it hr himm

theorem removeOldest_partition (n : Nat) (l : List Item) :
    ((removeOldest n l).1 ++ (removeOldest n l).2).Perm l ∧ (removeOldest n l).1.Sublist l ∧ (removeOldest n l).2.length ≤ n := by
  induction l generalizing n with
  | nil => simp [removeOldest_nil]
  | cons a rest ih =>
    cases n with
    | zero => simp [removeOldest_zero]
    | succ n =>
      cases ha : a.immune with
      | true =>
        rw [removeOldest_cons_immune n a rest ha]
        obtain ⟨h1, h2, h3⟩ := ih (n + 1)
        exact ⟨by simpa using h1, h2.cons_cons a, h3⟩
      | false =>
        rw [removeOldest_cons_not n a rest ha]
        obtain ⟨h1, h2, h3⟩ := ih n
        refine ⟨?_, h2.cons a, by simp; omega⟩
        exact List.perm_middle.trans (h1.cons a)

theorem removeOldest_eq_spec_aux (imm : List Bytes) (n : Nat) (l : List Item)
    (h : ∀ it ∈ l, it.immune = imm.contains it.key) :
    removeOldest n l = specRemoveOldest imm n l := by
  induction l generalizing n with
  | nil => cases n <;> simp [removeOldest, specRemoveOldest]
  | cons a rest ih =>
    cases n with
    | zero => simp [removeOldest, specRemoveOldest]
    | succ n =>
      have ha := h a List.mem_cons_self
      have hr : ∀ it ∈ rest, it.immune = imm.contains it.key := fun it hit => h it (List.mem_cons_of_mem _ hit)
      simp only [removeOldest, specRemoveOldest, ha, ih _ hr]

/-- under the invariant the coded eviction is the reference FIFO eviction -/
theorem removeOldest_eq_spec (cfg : ChunkCfg) (c : Chunk) (h : ChunkInv cfg c) (n : Nat) :
    removeOldest n c.items = specRemoveOldest c.immuneKeys n c.items :=
  removeOldest_eq_spec_aux c.immuneKeys n c.items h.flags

theorem removeOldest_all_immune (n : Nat) (l : List Item) (h : ∀ it ∈ l, it.immune = true) :
    removeOldest n l = (l, []) := by
  induction l generalizing n with
  | nil => exact removeOldest_nil n
  | cons a rest ih =>
    cases n with
    | zero => exact removeOldest_zero _
    | succ n =>
      rw [removeOldest_cons_immune n a rest (h a List.mem_cons_self),
        ih (n + 1) (fun it hit => h it (List.mem_cons_of_mem _ hit))]

/-! ### sums of sizes -/

def sumSz (l : List Item) : Int := (l.map (·.size)).foldl (· + ·) 0

theorem foldl_add_int (a : Int) (l : List Int) : l.foldl (· + ·) a = a + l.foldl (· + ·) 0 := by
  induction l generalizing a with
  | nil => simp
  | cons x xs ih =>
    simp only [List.foldl_cons]
    rw [ih (a + x), ih (0 + x)]
    omega

theorem sumSz_nil : sumSz [] = 0 := rfl

theorem sumSz_cons (a : Item) (l : List Item) : sumSz (a :: l) = a.size + sumSz l := by
  unfold sumSz
  simp only [List.map_cons, List.foldl_cons]
  rw [foldl_add_int]
  omega

theorem sumSz_append (l₁ l₂ : List Item) : sumSz (l₁ ++ l₂) = sumSz l₁ + sumSz l₂ := by
  induction l₁ with
  | nil => simp [sumSz_nil]
  | cons a l ih => rw [List.cons_append, sumSz_cons, sumSz_cons, ih]; omega

theorem sumSz_nonneg (l : List Item) (h : ∀ it ∈ l, 0 ≤ it.size) : 0 ≤ sumSz l := by
  induction l with
  | nil => simp [sumSz_nil]
  | cons a l ih =>
    rw [sumSz_cons]
    have := h a List.mem_cons_self
    have := ih (fun it hit => h it (List.mem_cons_of_mem _ hit))
    omega

theorem removeOldest_sum (n : Nat) (l : List Item) :
    sumSz l = sumSz (removeOldest n l).1 + sumSz (removeOldest n l).2 := by
  induction l generalizing n with
  | nil => simp [removeOldest_nil, sumSz_nil]
  | cons a rest ih =>
    cases n with
    | zero => simp [removeOldest_zero, sumSz_nil]
    | succ n =>
      cases ha : a.immune with
      | true =>
        rw [removeOldest_cons_immune n a rest ha]
        simp only [sumSz_cons]
        have := ih (n + 1)
        omega
      | false =>
        rw [removeOldest_cons_not n a rest ha]
        simp only [sumSz_cons]
        have := ih n
        omega

/-- the clamp in `subBytes` is dead when the removed items are accounted in `b` -/
theorem subBytes_eq (b : Int) (rem : List Item) (hs : ∀ it ∈ rem, 0 ≤ it.size) (hb : sumSz rem ≤ b) :
    subBytes b rem = b - sumSz rem := by
  induction rem generalizing b with
  | nil => simp [subBytes, sumSz_nil]
  | cons a rest ih =>
    have h0 := hs a List.mem_cons_self
    have hr : ∀ it ∈ rest, 0 ≤ it.size := fun it hit => hs it (List.mem_cons_of_mem _ hit)
    have hrn := sumSz_nonneg rest hr
    rw [sumSz_cons] at hb ⊢
    have hmax : max (b - a.size) 0 = b - a.size := by omega
    have : subBytes b (a :: rest) = subBytes (max (b - a.size) 0) rest := by
      simp [subBytes]
    rw [this, hmax, ih (b - a.size) hr (by omega)]
    omega

/-! ### eviction -/

theorem removeOldestStep_items (c : Chunk) (n : Nat) :
    (c.removeOldestStep n).1.items = (removeOldest n c.items).1 := rfl

theorem removeOldestStep_immuneKeys (c : Chunk) (n : Nat) :
    (c.removeOldestStep n).1.immuneKeys = c.immuneKeys := rfl

theorem removeOldestStep_numBytes (c : Chunk) (n : Nat) :
    (c.removeOldestStep n).1.numBytes = subBytes c.numBytes (removeOldest n c.items).2 := rfl

theorem removeOldestStep_snd (c : Chunk) (n : Nat) :
    (c.removeOldestStep n).2 = (removeOldest n c.items).2.length := rfl

/-- anything preserved by one eviction step is preserved by the eviction loop -/
theorem evictMore_pres (P : Chunk → Prop) (hP : ∀ c n, P c → P (c.removeOldestStep n).1)
    (cfg : ChunkCfg) (fuel : Nat) (c : Chunk) (r : Nat) (h : P c) : P (evictMore cfg fuel c r) := by
  induction fuel generalizing c r with
  | zero => exact h
  | succ fuel ih =>
    unfold evictMore
    split
    · exact ih _ _ (hP c cfg.numToEvict h)
    · exact h

theorem evictIfNeeded_pres (P : Chunk → Prop) (hP : ∀ c n, P c → P (c.removeOldestStep n).1)
    (cfg : ChunkCfg) (c c' : Chunk) (h : P c) (he : c.evictIfNeeded cfg = some c') : P c' := by
  unfold Chunk.evictIfNeeded at he
  split at he
  · dsimp only at he
    split at he
    · cases he
    · cases he
      exact evictMore_pres P hP cfg _ _ _ (hP c cfg.numToEvict h)
  · cases he; exact h

theorem evictIfNeeded_immuneKeys (cfg : ChunkCfg) (c c' : Chunk) (he : c.evictIfNeeded cfg = some c') :
    c'.immuneKeys = c.immuneKeys :=
  evictIfNeeded_pres (fun x => x.immuneKeys = c.immuneKeys) (fun _ _ h => h) cfg c c' rfl he

theorem evictIfNeeded_sublist (cfg : ChunkCfg) (c c' : Chunk) (he : c.evictIfNeeded cfg = some c') :
    c'.items.Sublist c.items :=
  evictIfNeeded_pres (fun x => x.items.Sublist c.items)
    (fun x n h => (removeOldest_partition n x.items).2.1.trans h) cfg c c' (List.Sublist.refl _) he

theorem evictIfNeeded_keeps_immune (cfg : ChunkCfg) (c c' : Chunk) (he : c.evictIfNeeded cfg = some c') :
    ∀ it ∈ c.items, it.immune = true → it ∈ c'.items :=
  evictIfNeeded_pres (fun x => ∀ it ∈ c.items, it.immune = true → it ∈ x.items)
    (fun x n h it hit himm => (removeOldest_keeps_immune n x.items).2 it (h it hit himm) himm) cfg c c'
    (fun _ hit _ => hit) he

/-- byte accounting invariant -/
def BInv (c : Chunk) : Prop := (∀ it ∈ c.items, 0 ≤ it.size) ∧ c.numBytes = sumSz c.items

theorem removeOldestStep_BInv (c : Chunk) (n : Nat) (h : BInv c) : BInv (c.removeOldestStep n).1 := by
  obtain ⟨hs, hb⟩ := h
  obtain ⟨hperm, hsub, _⟩ := removeOldest_partition n c.items
  have hrem : ∀ it ∈ (removeOldest n c.items).2, 0 ≤ it.size := fun it hit =>
    hs it (hperm.subset (List.mem_append_right _ hit))
  have hkeep : ∀ it ∈ (removeOldest n c.items).1, 0 ≤ it.size := fun it hit => hs it (hsub.subset hit)
  have hsum := removeOldest_sum n c.items
  have hk0 := sumSz_nonneg _ hkeep
  refine ⟨hkeep, ?_⟩
  rw [removeOldestStep_numBytes, removeOldestStep_items, subBytes_eq _ _ hrem (by omega)]
  omega

theorem evictIfNeeded_BInv (cfg : ChunkCfg) (c c' : Chunk) (h : BInv c) (he : c.evictIfNeeded cfg = some c') :
    BInv c' :=
  evictIfNeeded_pres BInv removeOldestStep_BInv cfg c c' h he

theorem removeOldestStep_length (c : Chunk) (n : Nat) :
    (c.removeOldestStep n).1.items.length + (c.removeOldestStep n).2 = c.items.length := by
  rw [removeOldestStep_items, removeOldestStep_snd]
  have := (removeOldest_partition n c.items).1.length_eq
  simpa using this

theorem evictIfNeeded_length (cfg : ChunkCfg) (c c' : Chunk) (he : c.evictIfNeeded cfg = some c') :
    c'.items.length ≤ c.items.length ∧ (c.exceeded cfg = true → c'.items.length < c.items.length) := by
  refine ⟨(evictIfNeeded_sublist cfg c c' he).length_le, ?_⟩
  intro hex
  unfold Chunk.evictIfNeeded at he
  rw [if_pos hex] at he
  dsimp only at he
  split at he
  · cases he
  · rename_i hr
    cases he
    have hlen := removeOldestStep_length c cfg.numToEvict
    have : (evictMore cfg (c.items.length + 1) (c.removeOldestStep cfg.numToEvict).1
        (c.removeOldestStep cfg.numToEvict).2).items.length ≤ (c.removeOldestStep cfg.numToEvict).1.items.length :=
      evictMore_pres (fun x => x.items.length ≤ (c.removeOldestStep cfg.numToEvict).1.items.length)
        (fun x n h => by
          have := removeOldestStep_length x n
          omega) cfg _ _ _ (Nat.le_refl _)
    omega

/-! ### has / get -/

theorem has_eq_true_iff (c : Chunk) (k : Bytes) : c.has k = true ↔ ∃ it ∈ c.items, it.key = k := by
  simp [Chunk.has, List.any_eq_true]

theorem has_eq_false_iff (c : Chunk) (k : Bytes) : c.has k = false ↔ ∀ it ∈ c.items, it.key ≠ k := by
  simp [Chunk.has, List.any_eq_false]

/-! ### addItem (current variant): the three outcomes -/

theorem addItem_cases (cfg : ChunkCfg) (c : Chunk) (k p : Bytes) (size : Int) :
    (c.has k = true ∧ c.addItem Variant.current cfg k p size = (c, true, false)) ∨
    (c.has k = false ∧ c.evictIfNeeded cfg = none ∧ c.addItem Variant.current cfg k p size = (c, false, false)) ∨
    (c.has k = false ∧ ∃ c', c.evictIfNeeded cfg = some c' ∧
      c.addItem Variant.current cfg k p size =
        ({ c' with items := c'.items ++ [⟨k, p, size, c'.immuneKeys.contains k⟩],
                   numBytes := c'.numBytes + size }, false, true)) := by
  unfold Chunk.addItem
  simp only [Variant.current, Bool.false_eq_true, if_false]
  cases hk : c.has k with
  | true => left; simp
  | false =>
    right
    cases he : c.evictIfNeeded cfg with
    | none => left; simp
    | some c' => right; exact ⟨rfl, c', rfl, by simp⟩

/-! ### invariant preservation -/

theorem ChunkInv.empty (cfg : ChunkCfg) : ChunkInv cfg Chunk.empty := by
  constructor <;> simp [Chunk.empty]

theorem ChunkInv.binv {cfg : ChunkCfg} {c : Chunk} (h : ChunkInv cfg c) : BInv c := ⟨h.sizes, h.bytes⟩

theorem ChunkInv.addItem (cfg : ChunkCfg) (c : Chunk) (k p : Bytes) (size : Int) (h : ChunkInv cfg c) (hs : 0 ≤ size)
    (hm : 1 ≤ cfg.maxNumItems) : ChunkInv cfg (c.addItem Variant.current cfg k p size).1 := by
  rcases addItem_cases cfg c k p size with ⟨_, e⟩ | ⟨_, _, e⟩ | ⟨hk, c', he, e⟩
  · rw [e]; exact h
  · rw [e]; exact h
  · rw [e]
    have hsub := evictIfNeeded_sublist cfg c c' he
    have himm := evictIfNeeded_immuneKeys cfg c c' he
    have hb := evictIfNeeded_BInv cfg c c' h.binv he
    have hlen := evictIfNeeded_length cfg c c' he
    have hnk : ∀ it ∈ c'.items, it.key ≠ k := fun it hit =>
      (has_eq_false_iff c k).mp hk it (hsub.subset hit)
    constructor
    · show ((c'.items ++ [Item.mk k p size (c'.immuneKeys.contains k)]).map Item.key).Nodup
      rw [List.map_append, List.nodup_append]
      refine ⟨(h.keysNodup.sublist (hsub.map _)), by simp, ?_⟩
      intro a ha b hb'
      simp only [List.map_cons, List.map_nil, List.mem_singleton] at hb'
      obtain ⟨it, hit, rfl⟩ := List.mem_map.mp ha
      rw [hb']
      exact hnk it hit
    · show c'.immuneKeys.Nodup
      rw [himm]; exact h.immuneNodup
    · show ∀ it ∈ c'.items ++ [Item.mk k p size (c'.immuneKeys.contains k)], it.immune = c'.immuneKeys.contains it.key
      intro it hit
      rcases List.mem_append.mp hit with hi | hi
      · rw [himm]; exact h.flags it (hsub.subset hi)
      · rw [List.mem_singleton.mp hi]
    · show ∀ it ∈ c'.items ++ [Item.mk k p size (c'.immuneKeys.contains k)], 0 ≤ it.size
      intro it hit
      rcases List.mem_append.mp hit with hi | hi
      · exact hb.1 it hi
      · rw [List.mem_singleton.mp hi]; exact hs
    · show c'.numBytes + size = sumSz (c'.items ++ [Item.mk k p size (c'.immuneKeys.contains k)])
      rw [sumSz_append, sumSz_cons, sumSz_nil, hb.2]
      simp
    · show (c'.items ++ [Item.mk k p size (c'.immuneKeys.contains k)]).length ≤ cfg.maxNumItems
      rw [List.length_append, List.length_singleton]
      have hbd := h.bound
      cases hex : c.exceeded cfg with
      | true => have := hlen.2 hex; omega
      | false =>
        have : c.items.length < cfg.maxNumItems := by
          simp [Chunk.exceeded] at hex
          omega
        omega

theorem get_some_mem (c : Chunk) (k : Bytes) (it : Item) (h : c.get k = some it) : it ∈ c.items ∧ it.key = k := by
  unfold Chunk.get at h
  exact ⟨List.mem_of_find?_eq_some h, by simpa using List.find?_some h⟩

theorem get_none (c : Chunk) (k : Bytes) (h : c.get k = none) : ∀ it ∈ c.items, it.key ≠ k := by
  unfold Chunk.get at h
  intro it hit
  simpa using (List.find?_eq_none.mp h) it hit

/-- with distinct keys, filtering out the key of a member removes exactly its size -/
theorem sumSz_filter_key (l : List Item) (it : Item) (hnd : (l.map (·.key)).Nodup) (hit : it ∈ l) :
    sumSz l = it.size + sumSz (l.filter (·.key != it.key)) := by
  induction l with
  | nil => cases hit
  | cons a rest ih =>
    rw [List.map_cons, List.nodup_cons] at hnd
    rcases List.mem_cons.mp hit with rfl | hr
    · have : rest.filter (·.key != it.key) = rest := by
        rw [List.filter_eq_self]
        intro b hb
        have : b.key ≠ it.key := fun e => hnd.1 (e ▸ List.mem_map_of_mem hb)
        simpa using this
      simp [this, sumSz_cons]
    · have hne : a.key ≠ it.key := fun e => hnd.1 (e ▸ List.mem_map_of_mem hr)
      have : (a.key != it.key) = true := by simpa using hne
      rw [List.filter_cons, if_pos this, sumSz_cons, sumSz_cons, ih hnd.2 hr]
      omega

theorem contains_filter_ne (l : List Bytes) (k x : Bytes) (h : x ≠ k) :
    (l.filter (· != k)).contains x = l.contains x := by
  rw [Bool.eq_iff_iff]
  simp only [List.contains_iff_mem, List.mem_filter, bne_iff_ne, ne_eq]
  exact ⟨fun h' => h'.1, fun h' => ⟨h', h⟩⟩

theorem ChunkInv.removeItem (cfg : ChunkCfg) (c : Chunk) (k : Bytes) (h : ChunkInv cfg c) : ChunkInv cfg (c.removeItem k).1 := by
  unfold Chunk.removeItem
  dsimp only
  split
  · rename_i hg
    have hne := get_none c k hg
    constructor
    · exact h.keysNodup
    · exact h.immuneNodup.sublist List.filter_sublist
    · intro it hit
      show it.immune = (c.immuneKeys.filter (· != k)).contains it.key
      rw [contains_filter_ne _ _ _ (hne it hit)]
      exact h.flags it hit
    · exact h.sizes
    · exact h.bytes
    · exact h.bound
  · rename_i it hg
    obtain ⟨hit, hkey⟩ := get_some_mem c k it hg
    subst hkey
    have hsub : (c.items.filter (·.key != it.key)).Sublist c.items := List.filter_sublist
    constructor
    · exact h.keysNodup.sublist (hsub.map _)
    · exact h.immuneNodup.sublist List.filter_sublist
    · intro x hx
      show x.immune = (c.immuneKeys.filter (· != it.key)).contains x.key
      have hx' := List.mem_filter.mp hx
      rw [contains_filter_ne _ _ _ (by simpa using hx'.2)]
      exact h.flags x hx'.1
    · intro x hx
      exact h.sizes x (hsub.subset hx)
    · show max (c.numBytes - it.size) 0 = sumSz (c.items.filter (·.key != it.key))
      have h1 := sumSz_filter_key c.items it h.keysNodup hit
      have h2 := sumSz_nonneg (c.items.filter (·.key != it.key)) (fun x hx => h.sizes x (hsub.subset hx))
      have h3 : c.numBytes = sumSz c.items := h.bytes
      omega
    · exact Nat.le_trans hsub.length_le h.bound

theorem ChunkInv.immunizeKey (cfg : ChunkCfg) (c : Chunk) (k : Bytes) (h : ChunkInv cfg c) : ChunkInv cfg (c.immunizeKey k).1 := by
  unfold Chunk.immunizeKey
  dsimp only
  have hkeys : (c.items.map (fun it => if it.key == k then { it with immune := true } else it)).map (·.key)
      = c.items.map (·.key) := by
    rw [List.map_map]
    apply List.map_congr_left
    intro a _
    simp only [Function.comp]
    split <;> rfl
  have hsizes : (c.items.map (fun it => if it.key == k then { it with immune := true } else it)).map (·.size)
      = c.items.map (·.size) := by
    rw [List.map_map]
    apply List.map_congr_left
    intro a _
    simp only [Function.comp]
    split <;> rfl
  constructor
  · dsimp only
    rw [hkeys]; exact h.keysNodup
  · show (if c.immuneKeys.contains k then c.immuneKeys else c.immuneKeys ++ [k]).Nodup
    split
    · exact h.immuneNodup
    · rename_i hc
      rw [List.nodup_append]
      refine ⟨h.immuneNodup, by simp, ?_⟩
      intro a ha b hb
      rw [List.mem_singleton.mp hb]
      intro e
      subst e
      exact hc (List.contains_iff_mem.mpr ha)
  · intro x hx
    show x.immune = (if c.immuneKeys.contains k then c.immuneKeys else c.immuneKeys ++ [k]).contains x.key
    obtain ⟨it, hit, rfl⟩ := List.mem_map.mp hx
    have hf := h.flags it hit
    by_cases hk : it.key = k
    · subst hk
      simp only [beq_self_eq_true, if_true]
      split
      · rename_i hc; exact hc.symm
      · simp
    · have : (it.key == k) = false := by simpa using hk
      simp only [this, Bool.false_eq_true, if_false]
      rw [hf]
      split
      · simp
      · rw [Bool.eq_iff_iff]
        simp [hk]
  · intro x hx
    obtain ⟨it, hit, rfl⟩ := List.mem_map.mp hx
    have := h.sizes it hit
    split <;> exact this
  · dsimp only
    rw [hsizes]; exact h.bytes
  · show (c.items.map _).length ≤ cfg.maxNumItems
    rw [List.length_map]; exact h.bound

/-! ### C12 / C13 on addItem -/

/-- C12: an add evicts only non-immune items: every immune resident stays, as the very same item (same payload) -/
theorem addItem_keeps_immune (cfg : ChunkCfg) (c : Chunk) (k p : Bytes) (size : Int) :
    ∀ it ∈ c.items, it.immune = true → it ∈ (c.addItem Variant.current cfg k p size).1.items := by
  intro it hit himm
  rcases addItem_cases cfg c k p size with ⟨_, e⟩ | ⟨_, _, e⟩ | ⟨hk, c', he, e⟩
  · rw [e]; exact hit
  · rw [e]; exact hit
  · rw [e]
    exact List.mem_append_left _ (evictIfNeeded_keeps_immune cfg c c' he it hit himm)

/-- C12: adds never overwrite the payload of a key that is already present; has=true exactly then -/
theorem addItem_present (cfg : ChunkCfg) (c : Chunk) (k p : Bytes) (size : Int) (hk : c.has k = true) :
    c.addItem Variant.current cfg k p size = (c, true, false) := by
  rcases addItem_cases cfg c k p size with ⟨_, e⟩ | ⟨hk', _, _⟩ | ⟨hk', _⟩
  · exact e
  · rw [hk] at hk'; cases hk'
  · rw [hk] at hk'; cases hk'

/-- C12: a refused add leaves the chunk unchanged -/
theorem addItem_refused (cfg : ChunkCfg) (c : Chunk) (k p : Bytes) (size : Int) (c' : Chunk)
    (h : c.addItem Variant.current cfg k p size = (c', false, false)) : c' = c := by
  rcases addItem_cases cfg c k p size with ⟨_, e⟩ | ⟨_, _, e⟩ | ⟨hk, c'', he, e⟩
  · rw [e] at h; simp at h
  · rw [e] at h; exact (Prod.mk.inj h).1.symm
  · rw [e] at h; simp at h

/-- C12: if every resident is immune and capacity is reached, the add is refused -/
theorem addItem_all_immune_refused (cfg : ChunkCfg) (c : Chunk) (k p : Bytes) (size : Int)
    (hall : ∀ it ∈ c.items, it.immune = true) (hex : c.exceeded cfg = true) (hk : c.has k = false) :
    c.addItem Variant.current cfg k p size = (c, false, false) := by
  have he : c.evictIfNeeded cfg = none := by
    unfold Chunk.evictIfNeeded
    rw [if_pos hex]
    dsimp only
    have : (c.removeOldestStep cfg.numToEvict).2 = 0 := by
      rw [removeOldestStep_snd, removeOldest_all_immune _ _ hall]; rfl
    rw [if_pos this]
  rcases addItem_cases cfg c k p size with ⟨hk', _⟩ | ⟨_, _, e⟩ | ⟨_, c', he', _⟩
  · rw [hk] at hk'; cases hk'
  · exact e
  · rw [he] at he'; cases he'

/-- C13: flags are truthful: has ⇔ was present; added ⇔ became present -/
theorem addItem_flags (cfg : ChunkCfg) (c : Chunk) (k p : Bytes) (size : Int) :
    let r := c.addItem Variant.current cfg k p size
    r.2.1 = c.has k ∧ (r.2.2 = true ↔ (c.has k = false ∧ r.1.has k = true)) ∧
    (r.2.2 = true → ∃ it ∈ r.1.items, it.key = k ∧ it.payload = p ∧ it.size = size) := by
  intro r
  rcases addItem_cases cfg c k p size with ⟨hk, e⟩ | ⟨hk, _, e⟩ | ⟨hk, c', he, e⟩
  · simp only [r, e, hk]; simp
  · simp only [r, e, hk]; simp
  · simp only [r, e, hk]
    refine ⟨by simp, ?_, ?_⟩
    · simp [Chunk.has]
    · intro _
      exact ⟨⟨k, p, size, c'.immuneKeys.contains k⟩, by simp, rfl, rfl, rfl⟩

/-! ### protection -/

theorem addItem_immuneKeys (cfg : ChunkCfg) (c : Chunk) (k p : Bytes) (size : Int) :
    (c.addItem Variant.current cfg k p size).1.immuneKeys = c.immuneKeys := by
  rcases addItem_cases cfg c k p size with ⟨_, e⟩ | ⟨_, _, e⟩ | ⟨hk, c', he, e⟩
  · rw [e]
  · rw [e]
  · rw [e]; exact evictIfNeeded_immuneKeys cfg c c' he

/-- C12: protection is preserved by every operation except removing that key -/
theorem Protected.step (cfg : ChunkCfg) (c : Chunk) (k p : Bytes) (op : COp) (hi : ChunkInv cfg c) (h : Protected c k p)
    (hop : op ≠ COp.rm k) : Protected (c.apply cfg op) k p := by
  obtain ⟨hk, it, hit, hkey, hpay, himm⟩ := h
  cases op with
  | add k' p' s =>
    show Protected (c.addItem Variant.current cfg k' p' s).1 k p
    refine ⟨?_, it, addItem_keeps_immune cfg c k' p' s it hit himm, hkey, hpay, himm⟩
    rw [addItem_immuneKeys]; exact hk
  | rm k' =>
    have hne : k ≠ k' := fun e => hop (e ▸ rfl)
    show Protected (c.removeItem k').1 k p
    unfold Chunk.removeItem
    dsimp only
    have hk' : k ∈ c.immuneKeys.filter (· != k') := by
      rw [List.mem_filter]; exact ⟨hk, by simpa using hne⟩
    split
    · exact ⟨hk', it, hit, hkey, hpay, himm⟩
    · refine ⟨hk', it, ?_, hkey, hpay, himm⟩
      show it ∈ c.items.filter (·.key != k')
      rw [List.mem_filter]
      exact ⟨hit, by rw [hkey]; simpa using hne⟩
  | imm k' =>
    show Protected (c.immunizeKey k').1 k p
    unfold Chunk.immunizeKey
    dsimp only
    refine ⟨?_, (if it.key == k' then { it with immune := true } else it), ?_, ?_, ?_, ?_⟩
    · show k ∈ (if c.immuneKeys.contains k' then c.immuneKeys else c.immuneKeys ++ [k'])
      split
      · exact hk
      · exact List.mem_append_left _ hk
    · show _ ∈ c.items.map _
      exact List.mem_map.mpr ⟨it, hit, rfl⟩
    · split <;> exact hkey
    · split <;> exact hpay
    · split
      · rfl
      · exact himm

theorem ChunkInv.apply (cfg : ChunkCfg) (c : Chunk) (op : COp) (hm : 1 ≤ cfg.maxNumItems)
    (hw : match op with | .add _ _ s => 0 ≤ s | _ => True) (h : ChunkInv cfg c) : ChunkInv cfg (c.apply cfg op) := by
  cases op with
  | add k p s => exact ChunkInv.addItem cfg c k p s h hw hm
  | rm k => exact ChunkInv.removeItem cfg c k h
  | imm k => exact ChunkInv.immunizeKey cfg c k h

theorem ChunkInv.foldl (cfg : ChunkCfg) (c : Chunk) (ops : List COp) (hm : 1 ≤ cfg.maxNumItems)
    (hw : ∀ op ∈ ops, (match op with | .add _ _ s => 0 ≤ s | _ => True)) (h : ChunkInv cfg c) :
    ChunkInv cfg (ops.foldl (Chunk.apply cfg) c) := by
  induction ops generalizing c with
  | nil => exact h
  | cons op ops ih =>
    rw [List.foldl_cons]
    exact ih _ (fun o ho => hw o (List.mem_cons_of_mem _ ho))
      (ChunkInv.apply cfg c op hm (hw op List.mem_cons_self) h)

/-- …hence along any history without `rm k` -/
theorem Protected.run (cfg : ChunkCfg) (c : Chunk) (k p : Bytes) (ops : List COp) (hi : ChunkInv cfg c)
    (hw : ∀ op ∈ ops, (match op with | .add _ _ s => 0 ≤ s | _ => True)) (hm : 1 ≤ cfg.maxNumItems)
    (h : Protected c k p) (hop : COp.rm k ∉ ops) : Protected (ops.foldl (Chunk.apply cfg) c) k p := by
  induction ops generalizing c with
  | nil => exact h
  | cons op ops ih =>
    rw [List.foldl_cons]
    have hne : op ≠ COp.rm k := fun e => hop (e ▸ List.mem_cons_self)
    exact ih _ (ChunkInv.apply cfg c op hm (hw op List.mem_cons_self) hi)
      (fun o ho => hw o (List.mem_cons_of_mem _ ho))
      (Protected.step cfg c k p op hi h hne)
      (fun hmem => hop (List.mem_cons_of_mem _ hmem))

/-- C12: protection starts when an immune key is added, or a resident key is immunized -/
theorem Protected.of_add (cfg : ChunkCfg) (c : Chunk) (k p : Bytes) (size : Int) (hi : ChunkInv cfg c)
    (hk : k ∈ c.immuneKeys) (ha : (c.addItem Variant.current cfg k p size).2.2 = true) :
    Protected (c.addItem Variant.current cfg k p size).1 k p := by
  rcases addItem_cases cfg c k p size with ⟨_, e⟩ | ⟨_, _, e⟩ | ⟨hk', c', he, e⟩
  · rw [e] at ha; simp at ha
  · rw [e] at ha; simp at ha
  · rw [e]
    have himm := evictIfNeeded_immuneKeys cfg c c' he
    have hc : c'.immuneKeys.contains k = true := by rw [himm]; exact List.contains_iff_mem.mpr hk
    refine ⟨by show k ∈ c'.immuneKeys; rw [himm]; exact hk,
      ⟨k, p, size, c'.immuneKeys.contains k⟩, ?_, rfl, rfl, hc⟩
    show _ ∈ c'.items ++ [_]
    simp

theorem Protected.of_immunize (cfg : ChunkCfg) (c : Chunk) (k : Bytes) (it : Item) (hi : ChunkInv cfg c)
    (hit : it ∈ c.items) (hk : it.key = k) : Protected (c.immunizeKey k).1 k it.payload := by
  unfold Chunk.immunizeKey
  dsimp only
  refine ⟨?_, { it with immune := true }, ?_, hk, rfl, rfl⟩
  · show k ∈ (if c.immuneKeys.contains k then c.immuneKeys else c.immuneKeys ++ [k])
    split
    · rename_i hc; exact List.contains_iff_mem.mp hc
    · simp
  · show _ ∈ c.items.map _
    refine List.mem_map.mpr ⟨it, hit, ?_⟩
    simp [hk]

/-- C13: Remove withdraws current or future immunity -/
theorem removeItem_withdraws (c : Chunk) (k : Bytes) : k ∉ (c.removeItem k).1.immuneKeys ∧ (c.removeItem k).1.has k = false := by
  unfold Chunk.removeItem
  dsimp only
  split
  · rename_i hg
    refine ⟨by simp, ?_⟩
    rw [has_eq_false_iff]
    exact get_none c k hg
  · refine ⟨by simp, ?_⟩
    rw [has_eq_false_iff]
    intro x hx
    have := (List.mem_filter.mp hx).2
    simpa using this

/-- C13: reachable chunks satisfy the invariant, in particular hold at most maxNumItems items and NumBytes = Σ sizes -/
theorem ChunkInv.run (cfg : ChunkCfg) (ops : List COp) (hm : 1 ≤ cfg.maxNumItems)
    (hw : ∀ op ∈ ops, (match op with | .add _ _ s => 0 ≤ s | _ => True)) :
    ChunkInv cfg (ops.foldl (Chunk.apply cfg) Chunk.empty) :=
  ChunkInv.foldl cfg Chunk.empty ops hm hw (ChunkInv.empty cfg)

/-- the legacy order (evict, then look for a duplicate) overwrites a resident key: concrete counter-example -/
theorem legacy_overwrite_counterexample : ∃ (cfg : ChunkCfg) (c : Chunk) (k p : Bytes),
    c.has k = true ∧ (c.addItem Variant.legacy cfg k p 1).2 = (false, true) ∧
    ((c.addItem Variant.legacy cfg k p 1).1.get k).map (·.payload) ≠ (c.get k).map (·.payload) :=
  ⟨⟨2, 100, 1⟩, ⟨[⟨[1], [0xaa], 1, false⟩, ⟨[2], [0xaa], 1, false⟩], [], 2⟩, [1], [0xbb], by decide⟩

end SV.Immunity
