/-
  SV.GenProofs — the tie BY TRANSLATION: `SV/Generated/Funcs.lean` is regenerated on every run from /repo's current source
  by tools/extract (trans.go), which translates the pure leaf logic of the repository (comparators, threshold tests, gap and
  duplicate detectors, loop-exit, expiry and flush conditions) to Lean definitions over their LEAVES.  Each theorem below
  proves one generated definition equal to the corresponding expression of the hand-written model, for all arguments; the
  `*_leaves` theorems pin the operands the source reads.  A changed comparison, boundary, tie-break or operand in the
  source therefore breaks one of these obligations on the next run.

  Integers are mathematical here (conversions are identities): wrap-around is covered by the correspondence runs and, for
  the gas budget, by the hypothesis `acc ≤ gasReq` which the selection loop maintains (SelProofs.selectLoop_gas).
-/
import SV.Generated.Funcs
import SV.TxCache.Model
import SV.LRU.Model
import SV.Immunity.Model
import SV.Persist.Model
import SV.Misc.TimeCache
namespace SV.GenProofs
open SV

/-- nothing the translator was asked for is missing -/
theorem nothing_absent : Gen.absent = [] := rfl

private theorem dec_natCast_lt (a b : Nat) : decide ((a : Int) < (b : Int)) = decide (a < b) := by
  simp [Int.ofNat_lt]
private theorem dec_natCast_le (a b : Nat) : decide ((a : Int) ≤ (b : Int)) = decide (a ≤ b) := by
  simp [Int.ofNat_le]

/-! ### mempool thresholds (C06, C07) -/

theorem poolExceeded_leaves :
    Gen.poolExceeded_leaves = ["cache.areThereTooManyBytes() : Bool", "cache.areThereTooManySenders() : Bool", "cache.areThereTooManyTxs() : Bool"] ∧
    Gen.tooManyBytes_leaves = ["cache.NumBytes() : Int", "cache.config.NumBytesThreshold : Int"] ∧
    Gen.tooManySenders_leaves = ["cache.CountSenders() : Int", "cache.config.CountThreshold : Int"] ∧
    Gen.tooManyTxs_leaves = ["cache.CountTx() : Int", "cache.config.CountThreshold : Int"] := ⟨rfl, rfl, rfl, rfl⟩

/-- `TxCache.isCapacityExceeded` is the model's `Pool.exceeded` (counters read through their clamped getters) -/
theorem poolExceeded_eq (p : TxCache.Pool) :
    p.exceeded =
      Gen.poolExceeded (Gen.tooManyBytes (TxCache.clampNat p.numBytes) p.cfg.numBytesThreshold)
        (Gen.tooManySenders (TxCache.clampNat p.cntSenders) p.cfg.countThreshold)
        (Gen.tooManyTxs (TxCache.clampNat p.cntTx) p.cfg.countThreshold) := by
  simp only [TxCache.Pool.exceeded, Gen.poolExceeded, Gen.tooManyBytes, Gen.tooManySenders, Gen.tooManyTxs, gt_iff_lt,
    dec_natCast_lt]

theorem senderExceeded_leaves :
    Gen.senderExceeded_leaves = ["listForSender.constraints.maxNumBytes : Int", "listForSender.constraints.maxNumTxs : Int",
      "listForSender.totalBytes.Get() : Int", "listForSender.countTx() : Int"] := rfl

/-- `txListForSender.isCapacityExceeded` is the model's `senderExceeded` -/
theorem senderExceeded_eq (cfg : TxCache.Config) (l : List TxCache.Tx) :
    TxCache.senderExceeded cfg l =
      Gen.senderExceeded cfg.numBytesPerSender cfg.countPerSender (TxCache.listBytes l) l.length := by
  simp only [TxCache.senderExceeded, Gen.senderExceeded, gt_iff_lt, dec_natCast_lt]

/-! ### selection: hazards and loop exits (C01, C02, C03) -/

theorem detector_leaves :
    Gen.initialGap_leaves = ["item.latestSelectedTransaction == nil : Bool", "item.currentTransactionNonce : Int", "senderNonce : Int"] ∧
    Gen.middleGap_leaves = ["item.latestSelectedTransaction == nil : Bool", "item.currentTransactionNonce : Int", "item.latestSelectedTransactionNonce : Int"] ∧
    Gen.lowerNonce_leaves = ["item.currentTransactionNonce : Int", "senderNonce : Int"] ∧
    Gen.nonceDuplicate_leaves = ["item.latestSelectedTransaction == nil : Bool", "item.currentTransactionNonce : Int", "item.latestSelectedTransactionNonce : Int"] :=
  ⟨rfl, rfl, rfl, rfl⟩

/-- the four nonce tests of `classify` are `detectInitialGap`, `detectMiddleGap`, `detectLowerNonce`, `detectNonceDuplicate` -/
theorem initialGap_eq (latest : Option Nat) (cur n : Nat) :
    (latest.isNone && decide (cur > n)) = Gen.initialGap latest.isNone cur n := by
  cases latest <;> simp [Gen.initialGap]
theorem middleGap_eq (latest : Option Nat) (cur : Nat) :
    (match latest with | some l => decide (cur > l + 1) | none => false) = Gen.middleGap latest.isNone cur (latest.getD 0 : Nat) := by
  cases latest with
  | none => simp [Gen.middleGap]
  | some l =>
    simp only [Gen.middleGap, Option.isNone_some, Option.getD_some, Bool.false_eq_true, ↓reduceIte, gt_iff_lt]
    have : ((l : Int) + (1 : Int)) = ((l + 1 : Nat) : Int) := by simp
    rw [this, dec_natCast_lt]
theorem lowerNonce_eq (cur n : Nat) : decide (cur < n) = Gen.lowerNonce cur n := by
  simp [Gen.lowerNonce]
theorem nonceDuplicate_eq (latest : Option Nat) (cur : Nat) :
    (match latest with | some l => decide (cur = l) | none => false) = Gen.nonceDuplicate latest.isNone cur (latest.getD 0 : Nat) := by
  cases latest with
  | none => simp [Gen.nonceDuplicate]
  | some l =>
    simp only [Gen.nonceDuplicate, Option.isNone_some, Option.getD_some, Bool.false_eq_true, ↓reduceIte]
    apply decide_eq_decide.mpr; omega

/-- `classify` written with the generated detectors (so: the model's classification IS the code's sequence of tests) -/
theorem classify_uses_generated_detectors (s : TxCache.Session) (consumed : Bytes → Nat) (it : TxCache.HItem) :
    TxCache.classify s consumed it =
      (if Gen.initialGap it.latest.isNone it.cur.nonce (s.nonce it.cur.sender) then .dropSender
       else if Gen.middleGap it.latest.isNone it.cur.nonce (it.latest.getD 0 : Nat) then .dropSender
       else if decide (consumed it.cur.payer + it.cur.fee > s.balance it.cur.payer) then .dropSender
       else if Gen.lowerNonce it.cur.nonce (s.nonce it.cur.sender) then .skipTx
       else if s.badGuard it.cur then .skipTx
       else if Gen.nonceDuplicate it.latest.isNone it.cur.nonce (it.latest.getD 0 : Nat) then .skipTx
       else .take) := by
  unfold TxCache.classify
  dsimp only
  rw [← initialGap_eq, ← middleGap_eq, ← lowerNonce_eq, ← nonceDuplicate_eq]
  rfl

theorem selectionStops_leaves :
    Gen.selectionStops_leaves = ["gasLimit : Int", "gasRequested : Int", "accumulatedGas : Int", "len(selectedTransactions) : Int",
      "maxNum : Int", "selectionLoopDurationCheckInterval : Int", "time.Since(selectionLoopStartTime) : Int",
      "selectionLoopMaximumDuration : Int"] := rfl

/-- the three `break` conditions of the selection loop, in source order, are the three stops of `selectLoop`
    (gas budget — in the repaired, non-wrapping form, valid because the loop keeps `acc ≤ gasReq` —, count budget, time budget
    consulted every `interval` selections; the stop oracle stands for `time.Since(start) > maximumDuration`) -/
theorem selectionStops_eq (gasLimit gasReq acc len maxNum interval : Nat) (since maxDur : Int) :
    Gen.selectionStops gasLimit gasReq acc len maxNum interval since maxDur =
      [TxCache.gasExceeded TxCache.Variant.current acc gasLimit gasReq, decide (len ≥ maxNum),
       (decide (len % interval = 0) && decide (since > maxDur))] := by
  simp only [Gen.selectionStops, TxCache.gasExceeded, TxCache.Variant.current, Bool.false_eq_true, ↓reduceIte]
  congr 1
  · have : (decide ((gasLimit : Int) > (gasReq : Int) - (acc : Int))) = decide (acc + gasLimit > gasReq) := by
      apply decide_eq_decide.mpr; omega
    exact this
  · congr 1
    · apply decide_eq_decide.mpr; omega
    · congr 1
      congr 1
      apply decide_eq_decide.mpr
      constructor
      · intro h
        have : ((len % interval : Nat) : Int) = 0 := by rw [Int.natCast_emod]; exact h
        exact_mod_cast this
      · intro h
        rw [← Int.natCast_emod, h]; rfl

/-! ### the comparator (C03, C07) -/

theorem moreValuable_leaves :
    Gen.moreValuable_leaves = ["wrappedTx.PricePerUnit : Int", "otherTransaction.PricePerUnit : Int", "wrappedTx.Tx.GetGasLimit() : Int",
      "otherTransaction.Tx.GetGasLimit() : Int", "wrappedTx.TxHash : Bytes", "otherTransaction.TxHash : Bytes",
      "wrappedTx.computeExactPricePerUnit() : Int", "otherTransaction.computeExactPricePerUnit() : Int"] := rfl

/-- the saturating 64-bit field `PricePerUnit` -/
def sat64 (n : Nat) : Int := if n < 18446744073709551615 then (n : Int) else 18446744073709551615

theorem cmpBytes_lt (a b : Bytes) : decide (Gen.cmpBytes a b < 0) = bytesLt a b := by
  unfold Gen.cmpBytes
  cases h : bytesLt a b with
  | true => simp
  | false => cases h2 : bytesLt b a <;> simp

/-- `isTransactionMoreValuableForNetwork` — comparing the saturated 64-bit fields first and the exact quotients only when
    both are saturated — IS the model's comparator on the exact (unbounded) price per unit: PPU ↓, gas limit ↓, hash ↑ -/
theorem moreValuable_eq (a b : TxCache.Tx) :
    TxCache.moreValuable TxCache.Variant.current a b =
      Gen.moreValuable (sat64 (a.ppu TxCache.Variant.current)) (sat64 (b.ppu TxCache.Variant.current))
        a.gasLimit b.gasLimit a.hash b.hash (a.ppu TxCache.Variant.current) (b.ppu TxCache.Variant.current) := by
  have hgl : (decide ((a.gasLimit : Int) ≠ (b.gasLimit : Int))) = decide (a.gasLimit ≠ b.gasLimit) := by
    apply decide_eq_decide.mpr; omega
  have hgl2 : (decide ((a.gasLimit : Int) > (b.gasLimit : Int))) = decide (a.gasLimit > b.gasLimit) := by
    apply decide_eq_decide.mpr; omega
  unfold TxCache.moreValuable Gen.moreValuable
  simp only [cmpBytes_lt, hgl, hgl2]
  generalize a.ppu TxCache.Variant.current = x
  generalize b.ppu TxCache.Variant.current = y
  by_cases hxy : x = y
  · subst hxy
    simp [Gen.cmpInt]
  · have hne : (x : Int) ≠ (y : Int) := by omega
    by_cases hx : x < 18446744073709551615 <;> by_cases hy : y < 18446744073709551615 <;>
      simp only [sat64, hx, hy, ↓reduceIte, hxy, ne_eq, not_false_eq_true, decide_true, decide_not, Gen.cmpInt]
    all_goals
      simp only [Bool.not_eq_true', decide_eq_true_eq, decide_eq_false_iff_not, Bool.not_true, Bool.false_eq_true, ↓reduceIte]
      repeat' split
    all_goals first
      | (apply decide_eq_decide.mpr; omega)
      | (exfalso; omega)
      | (exfalso; simp_all; done)
      | (exfalso; simp_all; omega)

/-! ### capacity LRU (C15, C17) -/

theorem lruShouldEvict_leaves :
    Gen.lruShouldEvict_leaves = ["c.evictList.Len() : Int", "c.size : Int", "c.currentCapacityInBytes : Int", "c.maxCapacityInBytes : Int"] := rfl

/-- `capacityLRU.shouldEvict` is the model's `Cap.shouldEvict` -/
theorem lruShouldEvict_eq (c : LRU.Cap) :
    c.shouldEvict = Gen.lruShouldEvict c.entries.length c.cap c.bytes c.maxBytes := by
  unfold LRU.Cap.shouldEvict Gen.lruShouldEvict
  by_cases h : c.entries.length = 1
  · simp [h]
  · have h' : ¬ ((c.entries.length : Int) = 1) := by omega
    simp only [h, h', ↓reduceIte, decide_false, Bool.false_eq_true, gt_iff_lt, dec_natCast_lt]

/-! ### immunity cache (C12, C13) -/

theorem chunk_leaves :
    Gen.chunkExceeded_leaves = ["len(chunk.items) : Int", "chunk.config.maxNumItems : Int", "chunk.numBytes : Int", "chunk.config.maxNumBytes : Int"] ∧
    Gen.chunkMaxNumItems_leaves = ["config.NumChunks : Int", "config.MaxNumItems : Int"] ∧
    Gen.chunkMaxNumBytes_leaves = ["config.NumChunks : Int", "config.MaxNumBytes : Int"] ∧
    Gen.chunkNumItemsToEvict_leaves = ["config.NumChunks : Int", "config.NumItemsToPreemptivelyEvict : Int"] := ⟨rfl, rfl, rfl, rfl⟩

/-- `immunityChunk.isCapacityExceededNoLock` is the model's `Chunk.exceeded` (capacity REACHED, not exceeded: `≥`) -/
theorem chunkExceeded_eq (cfg : Immunity.ChunkCfg) (c : Immunity.Chunk) :
    c.exceeded cfg = Gen.chunkExceeded c.items.length cfg.maxNumItems c.numBytes cfg.maxNumBytes := by
  simp only [Immunity.Chunk.exceeded, Gen.chunkExceeded, ge_iff_le, dec_natCast_le]

/-- `CacheConfig.getChunkConfig`: every per-chunk limit is the cache limit divided (rounding down) by max(NumChunks, 1) -/
theorem chunkCfg_eq (c : Immunity.Config) :
    ((c.chunkCfg.maxNumItems : Nat) : Int) = Gen.chunkMaxNumItems c.numChunks c.maxNumItems ∧
    ((c.chunkCfg.maxNumBytes : Nat) : Int) = Gen.chunkMaxNumBytes c.numChunks c.maxNumBytes ∧
    ((c.chunkCfg.numToEvict : Nat) : Int) = Gen.chunkNumItemsToEvict c.numChunks c.numItemsToEvict := by
  have hmax : ((max c.numChunks 1 : Nat) : Int) = max (c.numChunks : Int) 1 := by omega
  refine ⟨?_, ?_, ?_⟩ <;>
    simp only [Immunity.Config.chunkCfg, Gen.chunkMaxNumItems, Gen.chunkMaxNumBytes, Gen.chunkNumItemsToEvict, Int.natCast_ediv, hmax]

/-! ### time caches (C18) -/

theorem sweepExpired_leaves : Gen.sweepExpired_leaves = ["time.Since(element.timestamp) : Int", "element.span : Int"] := rfl

/-- the deletion test of `sweep` is the model's: an entry goes iff `now − timestamp > span` (strictly) -/
theorem sweepExpired_eq (now : Nat) (e : TimeCache.Entry) :
    decide (now - e.timestamp > e.span) = Gen.sweepExpired ((now - e.timestamp : Nat) : Int) e.span := by
  simp only [Gen.sweepExpired, gt_iff_lt, dec_natCast_lt]

/-! ### batching persisters (C08, C10) -/

theorem noFlush_leaves :
    Gen.dbNoFlushNeeded_leaves = ["s.sizeBatch : Int", "s.maxBatchSize : Int"] ∧
    Gen.serialNoFlushNeeded_leaves = ["s.sizeBatch : Int", "s.maxBatchSize : Int"] := ⟨rfl, rfl⟩

/-- `updateBatchWithIncrement` of both persisters: after `sizeBatch++` the batch is flushed unless `sizeBatch < maxBatchSize` — the
    model's `P.bump` -/
theorem bump_eq (p : Persist.P) :
    p.bump = (if Gen.dbNoFlushNeeded p.sizeBatch p.maxBatch then { p with sizeBatch := p.sizeBatch + 1 }
              else ({ p with sizeBatch := p.sizeBatch + 1 } : Persist.P).flush) ∧
    Gen.serialNoFlushNeeded p.sizeBatch p.maxBatch = Gen.dbNoFlushNeeded p.sizeBatch p.maxBatch := by
  refine ⟨?_, rfl⟩
  unfold Persist.P.bump Gen.dbNoFlushNeeded
  have : (decide (((p.sizeBatch : Int) + 1) < (p.maxBatch : Int))) = decide (p.sizeBatch + 1 < p.maxBatch) := by
    apply decide_eq_decide.mpr; omega
  simp only [this, decide_eq_true_eq]

end SV.GenProofs
