/-
  SV.Misc.FifoRingProofs — the slot-array model `SV.Misc.FifoRing` of a `ConcurrentMapShard` refines the age-ordered
  model `SV.Misc.Fifo` (property C20).

  Results (all for every `maxSize = m ≥ 1`; `1 ≤ m` is part of `RingInv` through `idxAdd < m`):
    1. `RingInv.init`, `RingInv.set`, `RingInv.setIfAbsent`, `RingInv.remove`      — representation invariant
    2. `toShard_set`, `toShard_setIfAbsent`, `toShard_remove`, `toShard_init`        — literal commutation with `toShard`
       `RingInv.toShardInv`                                                            — `RingInv r → ShardInv r.m r.toShard`
    3. `keys_eq`, `keys_fuel`, `keys_resident`, `keys_nodup`                          — `Keys()` of a shard, same ORDER
    4. `step_refines`, `run_refines`, `run_init`                                       — arbitrary operation sequences
       `ring_bound`, `ring_set_resident`, `ring_survives`, `ring_set_keys`             — C20 theorems transferred
  The degenerate shard `m = 1` is covered by 1–4 (nothing is ever resident: `m1_nothing_resident`); only the transferred
  C20 properties that are false for `m = 1` (`ring_set_resident`, `ring_survives`, `ring_set_keys`) assume `2 ≤ m`,
  which is what the C20 domain `S ≥ 2N` gives (`shardSize_ge_two`).
-/
import SV.Misc.FifoRing
import SV.Misc.FifoProofs
namespace SV.Fifo
open SV

/-! ### modular index arithmetic -/

theorem mod_two (x m : Nat) (h : x < 2 * m) : (x < m ∧ x % m = x) ∨ (m ≤ x ∧ x % m = x - m) := by
  by_cases hx : x < m
  · exact Or.inl ⟨hx, Nat.mod_eq_of_lt hx⟩
  · right
    refine ⟨by omega, ?_⟩
    rw [Nat.mod_eq_sub_mod (by omega), Nat.mod_eq_of_lt (by omega)]

/-- `(a + 1) % m` is `a + 1`, or wraps to `0` -/
theorem succ_mod_cases (a m : Nat) (ha : a < m) :
    (a + 1 < m ∧ (a + 1) % m = a + 1) ∨ (a + 1 = m ∧ (a + 1) % m = 0) := by
  rcases mod_two (a + 1) m (by omega) with ⟨h1, h2⟩ | ⟨h1, h2⟩
  · exact Or.inl ⟨h1, h2⟩
  · exact Or.inr ⟨by omega, by omega⟩

/-- explicit value of the slot index of age `j` -/
theorem vi_cases (a m j : Nat) (ha : a < m) (hj : j < m) :
    (j < a ∧ (a + m - 1 - j) % m = a - 1 - j) ∨ (a ≤ j ∧ (a + m - 1 - j) % m = a + m - 1 - j) := by
  rcases mod_two (a + m - 1 - j) m (by omega) with ⟨h1, h2⟩ | ⟨h1, h2⟩
  · exact Or.inr ⟨by omega, h2⟩
  · exact Or.inl ⟨by omega, by omega⟩

theorem vi_lt (a m j : Nat) (ha : a < m) : (a + m - 1 - j) % m < m := Nat.mod_lt _ (by omega)

theorem vi_ne (a m j : Nat) (ha : a < m) (hj : j < m - 1) : (a + m - 1 - j) % m ≠ a := by
  rcases vi_cases a m j ha (by omega) with ⟨h1, h2⟩ | ⟨h1, h2⟩ <;> omega

theorem vi_inj (a m j j' : Nat) (ha : a < m) (hj : j < m) (hj' : j' < m)
    (h : (a + m - 1 - j) % m = (a + m - 1 - j') % m) : j = j' := by
  rcases vi_cases a m j ha hj with ⟨h1, h2⟩ | ⟨h1, h2⟩ <;>
  rcases vi_cases a m j' ha hj' with ⟨h3, h4⟩ | ⟨h3, h4⟩ <;> omega

/-- every slot other than `idxAdd` has an age `j < m − 1` -/
theorem vi_surj (a m i : Nat) (ha : a < m) (hi : i < m) (hne : i ≠ a) :
    ∃ j, j < m - 1 ∧ (a + m - 1 - j) % m = i := by
  by_cases h : i < a
  · refine ⟨a - 1 - i, by omega, ?_⟩
    rcases vi_cases a m (a - 1 - i) ha (by omega) with ⟨h1, h2⟩ | ⟨h1, h2⟩ <;> omega
  · refine ⟨a + m - 1 - i, by omega, ?_⟩
    rcases vi_cases a m (a + m - 1 - i) ha (by omega) with ⟨h1, h2⟩ | ⟨h1, h2⟩ <;> omega

/-- the oldest age `m − 2` sits right after `idxAdd` -/
theorem vi_last (a m : Nat) (hm : 2 ≤ m) : (a + m - 1 - (m - 2)) % m = (a + 1) % m := by
  congr 1; omega

/-- after `idxAdd++ ; idxAdd %= maxSize` the youngest age is the old `idxAdd` -/
theorem vi_zero_succ (a m : Nat) (ha : a < m) : ((a + 1) % m + m - 1 - 0) % m = a := by
  rcases succ_mod_cases a m ha with ⟨h1, h2⟩ | ⟨h1, h2⟩
  · rw [h2]
    rcases mod_two (a + 1 + m - 1 - 0) m (by omega) with ⟨h3, h4⟩ | ⟨h3, h4⟩ <;> omega
  · rw [h2]
    rcases mod_two (0 + m - 1 - 0) m (by omega) with ⟨h3, h4⟩ | ⟨h3, h4⟩ <;> omega

/-- … and every other age grows by one -/
theorem vi_succ (a m j : Nat) (ha : a < m) (hj : j + 1 < m) :
    ((a + 1) % m + m - 1 - (j + 1)) % m = (a + m - 1 - j) % m := by
  rcases succ_mod_cases a m ha with ⟨h1, h2⟩ | ⟨h1, h2⟩
  · rw [h2]; congr 1; omega
  · rw [h2]
    rcases mod_two (0 + m - 1 - (j + 1)) m (by omega) with ⟨h3, h4⟩ | ⟨h3, h4⟩ <;>
    rcases mod_two (a + m - 1 - j) m (by omega) with ⟨h5, h6⟩ | ⟨h5, h6⟩ <;> omega

/-! ### association lists and the projection that forgets `arrayIdx` -/

theorem alookup_strip (k : Bytes) (l : List (Bytes × (Bytes × Nat))) :
    alookup k (l.map (fun p => (p.1, p.2.1))) = (alookup k l).map (·.1) := by
  induction l with
  | nil => rfl
  | cons a r ih =>
    obtain ⟨k1, v1, i1⟩ := a
    simp only [List.map_cons, alookup]
    split
    · rfl
    · exact ih

theorem aset_strip (k v : Bytes) (i : Nat) (l : List (Bytes × (Bytes × Nat))) :
    (aset k (v, i) l).map (fun p => (p.1, p.2.1)) = aset k v (l.map (fun p => (p.1, p.2.1))) := by
  induction l with
  | nil => rfl
  | cons a r ih =>
    obtain ⟨k1, v1, i1⟩ := a
    simp only [List.map_cons, aset]
    split
    · rfl
    · simp only [List.map_cons, ih]

theorem aerase_strip (k : Bytes) (l : List (Bytes × (Bytes × Nat))) :
    (aerase k l).map (fun p => (p.1, p.2.1)) = aerase k (l.map (fun p => (p.1, p.2.1))) := by
  induction l with
  | nil => rfl
  | cons a r ih =>
    obtain ⟨k1, v1, i1⟩ := a
    simp only [List.map_cons, aerase]
    split
    · exact ih
    · simp only [List.map_cons, ih]

theorem keys_strip (l : List (Bytes × (Bytes × Nat))) :
    (l.map (fun p => (p.1, p.2.1))).map (·.1) = l.map (·.1) := by
  simp [List.map_map, Function.comp_def]

theorem alookup_isSome_strip (k : Bytes) (l : List (Bytes × (Bytes × Nat))) :
    (alookup k (l.map (fun p => (p.1, p.2.1)))).isSome = (alookup k l).isSome := by
  rw [alookup_strip]; cases alookup k l <;> rfl

/-! ### `blank` pointwise -/

theorem getElem?_blank (k : Bytes) (l : List (Option Bytes)) (i : Nat) :
    (blank k l)[i]? = (l[i]?).map (fun x => if x = some k then none else x) := by
  simp only [blank, List.getElem?_map]

theorem getElem?_blank_some (k x : Bytes) (l : List (Option Bytes)) (i : Nat) :
    (blank k l)[i]? = some (some x) ↔ x ≠ k ∧ l[i]? = some (some x) := by
  rw [getElem?_blank]
  cases h : l[i]? with
  | none => simp
  | some y =>
    simp only [Option.map_some, Option.some.injEq]
    by_cases hy : y = some k
    · subst hy
      simp only [if_true]
      constructor
      · intro h'; cases h'
      · rintro ⟨h1, h2⟩; exact absurd (Option.some.inj h2).symm h1
    · simp only [if_neg hy]
      constructor
      · intro h'; subst h'
        exact ⟨fun e => hy (by rw [e]), rfl⟩
      · exact fun h' => h'.2


/-! ### the representation invariant -/

/-- consistency of `mapKeys` and `items`, without the requirement that the slot at `idxAdd` is blank (this is what
    holds in the middle of `appendKeyToList`, between `mapKeys[idxAdd] = key` and the blanking of the next slot) -/
structure SlotsInv (r : Ring) : Prop where
  len : r.slots.length = r.m
  idx : r.idxAdd < r.m
  /-- every item's `arrayIdx` points at a slot holding its key -/
  itemSlot : ∀ (k v : Bytes) (i : Nat), alookup k r.items = some (v, i) → r.slots[i]? = some (some k)
  /-- every non-empty slot holds a key of `items` -/
  slotItem : ∀ (i : Nat) (k : Bytes), r.slots[i]? = some (some k) → (alookup k r.items).isSome = true
  /-- the keys in the slots are pairwise distinct -/
  slotsInj : ∀ (i j : Nat) (k : Bytes), r.slots[i]? = some (some k) → r.slots[j]? = some (some k) → i = j
  /-- `items` is a map -/
  itemsNodup : (r.items.map (·.1)).Nodup

/-- the representation invariant of a shard between two operations -/
structure RingInv (r : Ring) : Prop extends SlotsInv r where
  /-- the slot at `idxAdd` is blank -/
  hole : r.slots[r.idxAdd]? = some none

/-- second half of `appendKeyToList`: `idxAdd++ ; idxAdd %= maxSize ; keyToRemove := mapKeys[idxAdd] ;
    mapKeys[idxAdd] = "" ; delete(items, keyToRemove)` -/
def Ring.advance (r : Ring) : Ring :=
  match r.slot ((r.idxAdd + 1) % r.m) with
  | some old => ⟨r.m, (r.idxAdd + 1) % r.m, r.slots.set ((r.idxAdd + 1) % r.m) none, aerase old r.items⟩
  | none => ⟨r.m, (r.idxAdd + 1) % r.m, r.slots.set ((r.idxAdd + 1) % r.m) none, r.items⟩

theorem appendKey_eq (r : Ring) (k : Bytes) :
    r.appendKey k = ({ r with slots := r.slots.set r.idxAdd (some k) } : Ring).advance := by
  simp only [Ring.appendKey, Ring.advance, Ring.slot]
  cases (r.slots.set r.idxAdd (some k))[(r.idxAdd + 1) % r.m]?.getD none <;> rfl

theorem set_eq (r : Ring) (k v : Bytes) :
    r.set k v = (⟨r.m, r.idxAdd, r.blankSlots k, aset k (v, r.idxAdd) r.items⟩ : Ring).appendKey k := by
  unfold Ring.set Ring.blankSlots
  dsimp only
  split <;> rfl

theorem slot_eq_some {r : Ring} {i : Nat} {x : Bytes} : r.slot i = some x ↔ r.slots[i]? = some (some x) := by
  unfold Ring.slot
  cases h : r.slots[i]? with
  | none => simp
  | some y => simp

theorem RingInv.init (m : Nat) (hm : 1 ≤ m) : RingInv (Ring.init m) where
  len := by simp [Ring.init]
  idx := by simp only [Ring.init]; omega
  itemSlot := by intro k v i h; simp [Ring.init, alookup] at h
  slotItem := by
    intro i k h
    simp only [Ring.init, List.getElem?_replicate] at h
    split at h <;> simp at h
  slotsInj := by
    intro i j k h
    simp only [Ring.init, List.getElem?_replicate] at h
    split at h <;> simp at h
  itemsNodup := by simp [Ring.init]
  hole := by
    simp only [Ring.init, List.getElem?_replicate]
    rw [if_pos (by omega)]

/-- under the invariant, blanking the one slot `v.arrayIdx` blanks every occurrence of the key -/
theorem blankSlots_eq (r : Ring) (k : Bytes) (h : SlotsInv r) : r.blankSlots k = blank k r.slots := by
  apply List.ext_getElem?
  intro i
  rw [getElem?_blank]
  unfold Ring.blankSlots
  cases ha : alookup k r.items with
  | none =>
    dsimp only
    cases hs : r.slots[i]? with
    | none => rfl
    | some y =>
      have hy : y ≠ some k := by
        rintro rfl
        have := h.slotItem i k hs
        rw [ha] at this; cases this
      simp [hy]
  | some p =>
    obtain ⟨w, i0⟩ := p
    dsimp only
    have h0 := h.itemSlot k w i0 ha
    have hi0 : i0 < r.slots.length := by
      rcases Nat.lt_or_ge i0 r.slots.length with h' | h'
      · exact h'
      · rw [List.getElem?_eq_none h'] at h0; cases h0
    rw [List.getElem?_set]
    by_cases hi : i0 = i
    · subst hi
      rw [if_pos rfl, if_pos hi0, h0]
      simp
    · rw [if_neg hi]
      cases hs : r.slots[i]? with
      | none => rfl
      | some y =>
        have hy : y ≠ some k := by
          rintro rfl
          exact hi (h.slotsInj i0 i k h0 hs)
        simp [hy]

/-- `mapKeys[idxAdd] = key` after the overwrite-blanking and `items[key] = …` re-establishes consistency -/
theorem RingInv.write (r : Ring) (k v : Bytes) (h : RingInv r) :
    SlotsInv ⟨r.m, r.idxAdd, (blank k r.slots).set r.idxAdd (some k), aset k (v, r.idxAdd) r.items⟩ := by
  have hlenB : (blank k r.slots).length = r.m := by rw [blank_length]; exact h.len
  have hget : ∀ i x, ((blank k r.slots).set r.idxAdd (some k))[i]? = some (some x) ↔
      (i = r.idxAdd ∧ x = k) ∨ (i ≠ r.idxAdd ∧ x ≠ k ∧ r.slots[i]? = some (some x)) := by
    intro i x
    rw [List.getElem?_set]
    by_cases hi : r.idxAdd = i
    · subst hi
      rw [if_pos rfl, if_pos (by rw [hlenB]; exact h.idx)]
      constructor
      · intro e
        have : k = x := by simpa using e
        exact Or.inl ⟨rfl, this.symm⟩
      · rintro (⟨_, rfl⟩ | ⟨h1, _⟩)
        · rfl
        · exact absurd rfl h1
    · rw [if_neg hi, getElem?_blank_some]
      constructor
      · intro e; exact Or.inr ⟨fun e' => hi e'.symm, e⟩
      · rintro (⟨h1, _⟩ | ⟨_, h2⟩)
        · exact absurd h1.symm hi
        · exact h2
  refine ⟨?_, h.idx, ?_, ?_, ?_, ?_⟩
  · simp only [List.length_set]; exact hlenB
  · intro x w i hx
    dsimp only at hx ⊢
    rw [hget]
    by_cases hxk : x = k
    · subst hxk
      rw [alookup_aset_self] at hx
      have : r.idxAdd = i := by simpa using congrArg Prod.snd (Option.some.inj hx)
      exact Or.inl ⟨this.symm, rfl⟩
    · rw [alookup_aset_ne hxk] at hx
      have hs := h.itemSlot x w i hx
      refine Or.inr ⟨?_, hxk, hs⟩
      rintro rfl
      rw [h.hole] at hs; cases hs
  · intro i x hx
    dsimp only at hx ⊢
    rw [hget] at hx
    rcases hx with ⟨_, rfl⟩ | ⟨_, hxk, hs⟩
    · rw [alookup_aset_self]; rfl
    · rw [alookup_aset_ne hxk]; exact h.slotItem i x hs
  · intro i j x hi hj
    dsimp only at hi hj
    rw [hget] at hi hj
    rcases hi with ⟨hi1, hi2⟩ | ⟨_, hi2, hi3⟩ <;> rcases hj with ⟨hj1, hj2⟩ | ⟨_, hj2, hj3⟩
    · rw [hi1, hj1]
    · exact absurd hi2 hj2
    · exact absurd hj2 hi2
    · exact h.slotsInj i j x hi3 hj3
  · exact nodup_keys_aset k _ r.items h.itemsNodup

/-- the second half of `appendKeyToList` turns consistency into the full invariant -/
theorem SlotsInv.advance (r : Ring) (h : SlotsInv r) : RingInv r.advance := by
  have ha' : (r.idxAdd + 1) % r.m < r.m := Nat.mod_lt _ (by have := h.idx; omega)
  have hget : ∀ i x, (r.slots.set ((r.idxAdd + 1) % r.m) none)[i]? = some (some x) ↔
      (i ≠ (r.idxAdd + 1) % r.m ∧ r.slots[i]? = some (some x)) := by
    intro i x
    rw [List.getElem?_set]
    by_cases hi : (r.idxAdd + 1) % r.m = i
    · rw [if_pos hi, if_pos (by rw [h.len]; exact ha')]
      constructor
      · intro e; cases e
      · rintro ⟨h1, _⟩; exact absurd hi.symm h1
    · rw [if_neg hi]
      constructor
      · intro e; exact ⟨fun e' => hi e'.symm, e⟩
      · exact fun e => e.2
  have hhole : (r.slots.set ((r.idxAdd + 1) % r.m) none)[(r.idxAdd + 1) % r.m]? = some none :=
    List.getElem?_set_self (by rw [h.len]; exact ha')
  unfold Ring.advance
  cases hs : r.slot ((r.idxAdd + 1) % r.m) with
  | none =>
    dsimp only
    have hne : ∀ x, r.slots[(r.idxAdd + 1) % r.m]? ≠ some (some x) := by
      intro x e
      rw [slot_eq_some.mpr e] at hs; cases hs
    refine ⟨⟨?_, ha', ?_, ?_, ?_, h.itemsNodup⟩, hhole⟩
    · simp only [List.length_set]; exact h.len
    · intro x w i hx
      dsimp only at hx ⊢
      rw [hget]
      have := h.itemSlot x w i hx
      exact ⟨by rintro rfl; exact hne x this, this⟩
    · intro i x hx
      dsimp only at hx ⊢
      rw [hget] at hx
      exact h.slotItem i x hx.2
    · intro i j x hi hj
      dsimp only at hi hj
      rw [hget] at hi hj
      exact h.slotsInj i j x hi.2 hj.2
  | some old =>
    dsimp only
    have hold : r.slots[(r.idxAdd + 1) % r.m]? = some (some old) := slot_eq_some.mp hs
    refine ⟨⟨?_, ha', ?_, ?_, ?_, nodup_keys_aerase old r.items h.itemsNodup⟩, hhole⟩
    · simp only [List.length_set]; exact h.len
    · intro x w i hx
      dsimp only at hx ⊢
      rw [hget]
      have hxo : x ≠ old := by
        rintro rfl
        rw [alookup_aerase_self] at hx; cases hx
      rw [alookup_aerase_ne hxo] at hx
      have := h.itemSlot x w i hx
      refine ⟨?_, this⟩
      rintro rfl
      rw [hold] at this
      exact hxo (Option.some.inj (Option.some.inj this)).symm
    · intro i x hx
      dsimp only at hx ⊢
      rw [hget] at hx
      have hxo : x ≠ old := by
        rintro rfl
        exact hx.1 (h.slotsInj i _ x hx.2 hold)
      rw [alookup_aerase_ne hxo]
      exact h.slotItem i x hx.2
    · intro i j x hi hj
      dsimp only at hi hj
      rw [hget] at hi hj
      exact h.slotsInj i j x hi.2 hj.2

/-- 1. `Set` preserves the invariant -/
theorem RingInv.set (r : Ring) (k v : Bytes) (h : RingInv r) : RingInv (r.set k v) := by
  rw [set_eq, appendKey_eq, blankSlots_eq r k h.toSlotsInv]
  exact SlotsInv.advance _ (RingInv.write r k v h)

theorem Ring.setIfAbsent_present (r : Ring) (k v : Bytes) (hp : (alookup k r.items).isSome = true) :
    r.setIfAbsent k v = (r, false) := by
  unfold Ring.setIfAbsent
  cases ha : alookup k r.items with
  | none => rw [ha] at hp; cases hp
  | some p => rfl

theorem Ring.setIfAbsent_absent (r : Ring) (k v : Bytes) (hp : (alookup k r.items).isSome = false) :
    r.setIfAbsent k v = (r.set k v, true) := by
  unfold Ring.setIfAbsent Ring.set
  cases ha : alookup k r.items with
  | none => rfl
  | some p => rw [ha] at hp; cases hp

/-- 1. `SetIfAbsent` preserves the invariant -/
theorem RingInv.setIfAbsent (r : Ring) (k v : Bytes) (h : RingInv r) : RingInv (r.setIfAbsent k v).1 := by
  cases hp : (alookup k r.items).isSome with
  | true => rw [Ring.setIfAbsent_present r k v hp]; exact h
  | false => rw [Ring.setIfAbsent_absent r k v hp]; exact RingInv.set r k v h

theorem Ring.remove_present (r : Ring) (k : Bytes) (h : SlotsInv r) (hp : (alookup k r.items).isSome = true) :
    r.remove k = ⟨r.m, r.idxAdd, blank k r.slots, aerase k r.items⟩ := by
  rw [← blankSlots_eq r k h]
  unfold Ring.remove Ring.blankSlots
  cases ha : alookup k r.items with
  | none => rw [ha] at hp; cases hp
  | some p => rfl

theorem Ring.remove_absent (r : Ring) (k : Bytes) (hp : (alookup k r.items).isSome = false) : r.remove k = r := by
  unfold Ring.remove
  cases ha : alookup k r.items with
  | none => rfl
  | some p => rw [ha] at hp; cases hp

/-- 1. `Remove` preserves the invariant -/
theorem RingInv.remove (r : Ring) (k : Bytes) (h : RingInv r) : RingInv (r.remove k) := by
  cases hp : (alookup k r.items).isSome with
  | false => rw [Ring.remove_absent r k hp]; exact h
  | true =>
    rw [Ring.remove_present r k h.toSlotsInv hp]
    refine ⟨⟨?_, h.idx, ?_, ?_, ?_, nodup_keys_aerase k r.items h.itemsNodup⟩, ?_⟩
    · rw [blank_length]; exact h.len
    · intro x w i hx
      dsimp only at hx ⊢
      have hxk : x ≠ k := by
        rintro rfl
        rw [alookup_aerase_self] at hx; cases hx
      rw [alookup_aerase_ne hxk] at hx
      exact (getElem?_blank_some k x r.slots i).mpr ⟨hxk, h.itemSlot x w i hx⟩
    · intro i x hx
      dsimp only at hx ⊢
      rw [getElem?_blank_some] at hx
      rw [alookup_aerase_ne hx.1]
      exact h.slotItem i x hx.2
    · intro i j x hi hj
      dsimp only at hi hj
      rw [getElem?_blank_some] at hi hj
      exact h.slotsInj i j x hi.2 hj.2
    · dsimp only
      rw [getElem?_blank, h.hole]; rfl


/-! ### the abstraction function -/

theorem Shard.ext' {s t : Shard} (hv : s.view = t.view) (hw : s.vals = t.vals) : s = t := by
  cases s; cases t; simp_all

theorem toShard_view_length (r : Ring) : r.toShard.view.length = r.m - 1 := by simp [Ring.toShard]

theorem toShard_view_getElem? (r : Ring) (j : Nat) (hj : j < r.m - 1) :
    r.toShard.view[j]? = some (r.slot (r.vidx j)) := by
  simp only [Ring.toShard, List.getElem?_map, List.getElem?_range hj, Option.map_some]

theorem toShard_view_getElem?_none (r : Ring) (j : Nat) (hj : r.m - 1 ≤ j) : r.toShard.view[j]? = none :=
  List.getElem?_eq_none (by rw [toShard_view_length]; exact hj)

/-- a list is the view of `r` iff it has the right length and the right entries -/
theorem view_ext (r : Ring) (l : List (Option Bytes)) (hl : l.length = r.m - 1)
    (h : ∀ j, j < r.m - 1 → l[j]? = some (r.slot (r.vidx j))) : r.toShard.view = l := by
  apply List.ext_getElem?
  intro j
  rcases Nat.lt_or_ge j (r.m - 1) with hj | hj
  · rw [toShard_view_getElem? r j hj, h j hj]
  · rw [toShard_view_getElem?_none r j hj, List.getElem?_eq_none (by rw [hl]; exact hj)]

theorem view_getElem?_some (r : Ring) (j : Nat) (x : Bytes) :
    r.toShard.view[j]? = some (some x) ↔ j < r.m - 1 ∧ r.slots[r.vidx j]? = some (some x) := by
  rcases Nat.lt_or_ge j (r.m - 1) with hj | hj
  · rw [toShard_view_getElem? r j hj]
    simp only [Option.some.injEq, slot_eq_some, hj, true_and]
  · rw [toShard_view_getElem?_none r j hj]
    constructor
    · intro e; cases e
    · intro e; omega

theorem toShard_init (m : Nat) : (Ring.init m).toShard = Shard.init m := by
  apply Shard.ext'
  · apply view_ext
    · simp [Shard.init, Ring.init]
    · intro j hj
      simp only [Ring.init] at hj
      simp only [Shard.init, Ring.init, Ring.slot, List.getElem?_replicate, if_pos hj]
      split <;> rfl
  · rfl

/-- blanking commutes with the abstraction -/
theorem view_blank (r : Ring) (k : Bytes) (its : List (Bytes × (Bytes × Nat))) :
    (⟨r.m, r.idxAdd, blank k r.slots, its⟩ : Ring).toShard.view = blank k r.toShard.view := by
  apply view_ext
  · rw [blank_length]; exact toShard_view_length r
  · intro j hj
    dsimp only at hj
    rw [getElem?_blank, toShard_view_getElem? r j hj]
    simp only [Option.map_some, Ring.slot, Ring.vidx, getElem?_blank]
    cases r.slots[(r.idxAdd + r.m - 1 - j) % r.m]? with
    | none => simp
    | some y => simp

theorem nodup_filterMap_id (l : List (Option Bytes))
    (hinj : ∀ (i j : Nat) (x : Bytes), l[i]? = some (some x) → l[j]? = some (some x) → i = j) :
    (l.filterMap id).Nodup := by
  induction l with
  | nil => simp
  | cons a t ih =>
    have iht := ih (fun i j x hi hj => by
      have := hinj (i + 1) (j + 1) x (by simpa using hi) (by simpa using hj)
      omega)
    cases a with
    | none => simpa using iht
    | some x =>
      simp only [List.filterMap_cons, id]
      rw [List.nodup_cons]
      refine ⟨?_, iht⟩
      intro hm
      obtain ⟨i, hi⟩ := List.mem_iff_getElem?.mp ((mem_fm x t).mp hm)
      have := hinj 0 (i + 1) x (by simp) (by simpa using hi)
      omega

theorem mem_view (r : Ring) (x : Bytes) :
    some x ∈ r.toShard.view ↔ ∃ j, j < r.m - 1 ∧ r.slots[r.vidx j]? = some (some x) := by
  rw [List.mem_iff_getElem?]
  constructor
  · rintro ⟨j, hj⟩; exact ⟨j, (view_getElem?_some r j x).mp hj⟩
  · rintro ⟨j, hj⟩; exact ⟨j, (view_getElem?_some r j x).mpr hj⟩

/-- the ring invariant implies the invariant of the age-ordered model: every theorem of `FifoProofs` that assumes
    `ShardInv` applies to `r.toShard` -/
theorem RingInv.toShardInv (r : Ring) (h : RingInv r) : ShardInv r.m r.toShard where
  len := toShard_view_length r
  nodup := by
    apply nodup_filterMap_id
    intro i j x hi hj
    rw [view_getElem?_some] at hi hj
    have := h.slotsInj _ _ x hi.2 hj.2
    exact vi_inj r.idxAdd r.m i j h.idx (by omega) (by omega) this
  agree := by
    intro k
    rw [mem_view]
    show (alookup k (r.items.map (fun p => (p.1, p.2.1)))).isSome = true ↔ _
    rw [alookup_isSome_strip]
    constructor
    · intro hp
      cases ha : alookup k r.items with
      | none => rw [ha] at hp; cases hp
      | some p =>
        obtain ⟨w, i⟩ := p
        have hs := h.itemSlot k w i ha
        have hi : i < r.m := by
          rw [← h.len]
          rcases Nat.lt_or_ge i r.slots.length with h' | h'
          · exact h'
          · rw [List.getElem?_eq_none h'] at hs; cases hs
        have hne : i ≠ r.idxAdd := by
          rintro rfl
          rw [h.hole] at hs; cases hs
        obtain ⟨j, hj, hv⟩ := vi_surj r.idxAdd r.m i h.idx hi hne
        exact ⟨j, hj, by unfold Ring.vidx; rw [hv]; exact hs⟩
    · rintro ⟨j, _, hs⟩
      exact h.slotItem _ k hs
  valsNodup := by
    show ((r.items.map (fun p => (p.1, p.2.1))).map (·.1)).Nodup
    rw [keys_strip]; exact h.itemsNodup

/-- `appendKeyToList` on the ring is `Shard.append` on the view (needs only well-formed indices and `2 ≤ maxSize`) -/
theorem appendKey_toShard (r : Ring) (k : Bytes) (hlen : r.slots.length = r.m) (hidx : r.idxAdd < r.m)
    (hm : 2 ≤ r.m) : (r.appendKey k).toShard = r.toShard.append k := by
  have hlast : r.toShard.view.getLast? = some (r.slot ((r.idxAdd + 1) % r.m)) := by
    rw [List.getLast?_eq_getElem?, toShard_view_length, toShard_view_getElem? r _ (by omega)]
    unfold Ring.vidx
    rw [show r.m - 1 - 1 = r.m - 2 by omega, vi_last r.idxAdd r.m hm]
  have hne : (r.idxAdd + 1) % r.m ≠ r.idxAdd := by
    rcases succ_mod_cases r.idxAdd r.m hidx with ⟨h1, h2⟩ | ⟨h1, h2⟩ <;> omega
  have ha' : (r.idxAdd + 1) % r.m < r.m := Nat.mod_lt _ (by omega)
  -- the slot read as `keyToRemove`
  have hread : (r.slots.set r.idxAdd (some k))[(r.idxAdd + 1) % r.m]?.getD none = r.slot ((r.idxAdd + 1) % r.m) := by
    rw [List.getElem?_set_ne (Ne.symm hne)]; rfl
  -- the new view
  have hview : ∀ its, (⟨r.m, (r.idxAdd + 1) % r.m,
      (r.slots.set r.idxAdd (some k)).set ((r.idxAdd + 1) % r.m) none, its⟩ : Ring).toShard.view
        = some k :: r.toShard.view.dropLast := by
    intro its
    apply view_ext
    · simp only [List.length_cons, List.length_dropLast, toShard_view_length]; omega
    · intro j hj
      dsimp only at hj
      simp only [Ring.slot, Ring.vidx]
      cases j with
      | zero =>
        rw [vi_zero_succ r.idxAdd r.m hidx, List.getElem?_set_ne hne,
          List.getElem?_set_self (by rw [hlen]; exact hidx)]
        rfl
      | succ j =>
        rw [vi_succ r.idxAdd r.m j hidx (by omega)]
        have h1 : (r.idxAdd + r.m - 1 - j) % r.m ≠ r.idxAdd := vi_ne r.idxAdd r.m j hidx (by omega)
        have h2 : (r.idxAdd + r.m - 1 - j) % r.m ≠ (r.idxAdd + 1) % r.m := by
          rw [← vi_last r.idxAdd r.m hm]
          intro e
          have := vi_inj r.idxAdd r.m j (r.m - 2) hidx (by omega) (by omega) e
          omega
        rw [List.getElem?_set_ne (Ne.symm h2), List.getElem?_set_ne (Ne.symm h1)]
        rw [List.getElem?_cons_succ, List.getElem?_dropLast, toShard_view_length, if_pos (by omega),
          toShard_view_getElem? r j (by omega)]
        rfl
  unfold Shard.append
  rw [hlast]
  simp only [Ring.appendKey, Ring.slot, hread]
  cases hs : r.slots[(r.idxAdd + 1) % r.m]?.getD none with
  | none =>
    dsimp only
    exact Shard.ext' (hview _) rfl
  | some old =>
    dsimp only
    exact Shard.ext' (hview _) (aerase_strip old r.items)

/-- `Shard.set` as blank-then-append -/
theorem shard_set_eq (s : Shard) (k v : Bytes) (hne : s.view ≠ [])
    (hag : (alookup k s.vals).isSome = false → some k ∉ s.view) :
    s.set k v = (⟨blank k s.view, aset k v s.vals⟩ : Shard).append k := by
  have hs1 : (if (alookup k s.vals).isSome = true then { s with view := blank k s.view } else s)
      = (⟨blank k s.view, s.vals⟩ : Shard) := by
    split
    · rfl
    · rename_i hp
      rw [blank_eq_self k s.view (hag (by simpa using hp))]
  have hemp : s.view.isEmpty = false := by
    cases hv : s.view with
    | nil => exact absurd hv hne
    | cons _ _ => rfl
  unfold Shard.set
  simp only [hs1, hemp]
  rw [if_neg (by simp)]

/-- 2. refinement: `Set` commutes with the abstraction (all `maxSize ≥ 1`) -/
theorem toShard_set (r : Ring) (k v : Bytes) (h : RingInv r) : (r.set k v).toShard = r.toShard.set k v := by
  rw [set_eq, blankSlots_eq r k h.toSlotsInv]
  rcases Nat.lt_or_ge r.m 2 with hm | hm
  · -- maxSize = 1: the key is written into the only slot, which is at once blanked again
    have hm1 : r.m = 1 := by have := h.idx; omega
    have ha : r.idxAdd = 0 := by have := h.idx; omega
    have hv : r.toShard.view = [] := List.eq_nil_of_length_eq_zero (by rw [toShard_view_length]; omega)
    have hlenB : (blank k r.slots).length = 1 := by rw [blank_length, h.len, hm1]
    have hR : r.toShard.set k v = ⟨[], aerase k (aset k v r.toShard.vals)⟩ := by
      unfold Shard.set Shard.append
      by_cases hp : (alookup k r.toShard.vals).isSome = true
      · simp [hv, blank, hp]
      · simp [hv, hp]
    rw [hR, appendKey_eq]
    unfold Ring.advance
    have hslot : (⟨r.m, r.idxAdd, (blank k r.slots).set r.idxAdd (some k), aset k (v, r.idxAdd) r.items⟩ : Ring).slot
        ((r.idxAdd + 1) % r.m) = some k := by
      simp only [Ring.slot, ha, hm1]
      rw [List.getElem?_set_self (by rw [hlenB]; omega)]
      rfl
    simp only [hslot]
    apply Shard.ext'
    · exact List.eq_nil_of_length_eq_zero (by rw [toShard_view_length]; dsimp only; omega)
    · show (aerase k (aset k (v, r.idxAdd) r.items)).map (fun p => (p.1, p.2.1)) = _
      rw [aerase_strip, aset_strip]; rfl
  · have hsi := h.toShardInv
    rw [appendKey_toShard ⟨r.m, r.idxAdd, blank k r.slots, aset k (v, r.idxAdd) r.items⟩ k
      (by rw [blank_length]; exact h.len) h.idx hm]
    rw [shard_set_eq r.toShard k v
      (by intro e; have := toShard_view_length r; rw [e] at this; simp at this; omega)
      (by intro hp hmem; have := (hsi.agree k).mpr hmem; rw [hp] at this; cases this)]
    congr 1
    exact Shard.ext' (view_blank r k _) (aset_strip k v r.idxAdd r.items)

/-- 2. refinement: `SetIfAbsent` commutes with the abstraction, including the returned flag -/
theorem toShard_setIfAbsent (r : Ring) (k v : Bytes) (h : RingInv r) :
    ((r.setIfAbsent k v).1.toShard, (r.setIfAbsent k v).2) = r.toShard.setIfAbsent k v := by
  have hvals : (alookup k r.toShard.vals).isSome = (alookup k r.items).isSome := alookup_isSome_strip k r.items
  cases hp : (alookup k r.items).isSome with
  | true =>
    rw [Ring.setIfAbsent_present r k v hp, setIfAbsent_present r.toShard k v (by rw [hvals]; exact hp)]
  | false =>
    rw [Ring.setIfAbsent_absent r k v hp, setIfAbsent_absent r.toShard k v (by rw [hvals]; exact hp),
      toShard_set r k v h]

/-- 2. refinement: `Remove` commutes with the abstraction -/
theorem toShard_remove (r : Ring) (k : Bytes) (h : RingInv r) : (r.remove k).toShard = r.toShard.remove k := by
  have hvals : (alookup k r.toShard.vals).isSome = (alookup k r.items).isSome := alookup_isSome_strip k r.items
  unfold Shard.remove
  cases hp : (alookup k r.items).isSome with
  | true =>
    rw [Ring.remove_present r k h.toSlotsInv hp, if_pos (by rw [hvals]; exact hp)]
    exact Shard.ext' (view_blank r k _) (aerase_strip k r.items)
  | false =>
    rw [Ring.remove_absent r k hp, if_neg (by rw [hvals, hp]; simp)]

/-- `Get`/`Has` read the same thing -/
theorem toShard_get (r : Ring) (k : Bytes) : r.get k = alookup k r.toShard.vals :=
  (alookup_strip k r.items).symm


/-! ### 3. `Keys()` -/

/-- the loop of `Keys()` started `d` slots after `idxAdd` walks the ring up to `idxAdd` (exclusive); `n = m − d`
    units of fuel are enough -/
theorem keysLoop_spec (r : Ring) (ha : r.idxAdd < r.m) :
    ∀ (n d fuel : Nat), d + n = r.m → 1 ≤ d → n ≤ fuel →
      r.keysLoop fuel ((r.idxAdd + d) % r.m)
        = ((List.range' d n).map (fun t => r.slot ((r.idxAdd + t) % r.m))).filterMap id := by
  intro n
  induction n with
  | zero =>
    intro d fuel hd _ _
    have : (r.idxAdd + d) % r.m = r.idxAdd := by
      rw [show d = r.m by omega, Nat.add_mod_right, Nat.mod_eq_of_lt ha]
    rw [this]
    cases fuel with
    | zero => rfl
    | succ f => simp [Ring.keysLoop]
  | succ n ih =>
    intro d fuel hd h1 hf
    cases fuel with
    | zero => omega
    | succ f =>
      have hne : (r.idxAdd + d) % r.m ≠ r.idxAdd := by
        rcases mod_two (r.idxAdd + d) r.m (by omega) with ⟨h3, h4⟩ | ⟨h3, h4⟩ <;> omega
      have hnext : ((r.idxAdd + d) % r.m + 1) % r.m = (r.idxAdd + (d + 1)) % r.m := by
        rw [Nat.mod_add_mod]; rfl
      have ih' := ih (d + 1) f (by omega) (by omega) (by omega)
      rw [Ring.keysLoop, if_neg hne, hnext, ih', List.range'_succ, List.map_cons, List.filterMap_cons]
      simp only [id]
      cases r.slot ((r.idxAdd + d) % r.m) <;> rfl

theorem view_reverse (r : Ring) (ha : r.idxAdd < r.m) :
    r.toShard.view.reverse = (List.range' 1 (r.m - 1)).map (fun t => r.slot ((r.idxAdd + t) % r.m)) := by
  apply List.ext_getElem?
  intro t
  rcases Nat.lt_or_ge t (r.m - 1) with ht | ht
  · rw [List.getElem?_reverse (by rw [toShard_view_length]; exact ht), toShard_view_length,
      toShard_view_getElem? r _ (by omega), List.getElem?_map, List.getElem?_range' ht]
    simp only [Option.map_some, Ring.vidx]
    congr 3
    omega
  · rw [List.getElem?_eq_none (by simp [toShard_view_length]; omega),
      List.getElem?_eq_none (by simp; omega)]

/-- 3. the per-shard sequence sent by `Keys()` is literally the `keys` of the age-ordered model: ring order starting
    right after `idxAdd`, i.e. oldest first, blanks skipped. (Across shards `Keys()` gives no order: one goroutine per
    shard writes to a common channel.) -/
theorem keys_eq (r : Ring) (ha : r.idxAdd < r.m) : r.keys = r.toShard.keys := by
  unfold Ring.keys Shard.keys
  rw [keysLoop_spec r ha (r.m - 1) 1 r.m (by omega) (by omega) (by omega), view_reverse r ha]

/-- the fuel of `keysLoop` is never exhausted: more fuel does not change the result, the loop stops at `i == idxAdd` -/
theorem keys_fuel (r : Ring) (ha : r.idxAdd < r.m) (extra : Nat) :
    r.keysLoop (r.m + extra) ((r.idxAdd + 1) % r.m) = r.keys := by
  unfold Ring.keys
  rw [keysLoop_spec r ha (r.m - 1) 1 r.m (by omega) (by omega) (by omega),
    keysLoop_spec r ha (r.m - 1) 1 (r.m + extra) (by omega) (by omega) (by omega)]

/-- `Keys()` lists exactly the resident keys, each once -/
theorem keys_resident (r : Ring) (h : RingInv r) (k : Bytes) : k ∈ r.keys ↔ (r.get k).isSome = true := by
  rw [keys_eq r h.idx, keys_eq_vals r.m r.toShard h.toShardInv k, toShard_get]

theorem keys_nodup (r : Ring) (h : RingInv r) : r.keys.Nodup := by
  rw [keys_eq r h.idx]
  unfold Shard.keys
  rw [List.filterMap_reverse]
  exact (List.reverse_perm _).nodup_iff.mpr h.toShardInv.nodup

/-! ### 4. operation sequences -/

/-- one step: invariant, state and output are related -/
theorem step_refines (r : Ring) (op : Op) (h : RingInv r) :
    RingInv (r.step op).1 ∧ (r.step op).1.toShard = (r.toShard.step op).1 ∧ (r.step op).2 = (r.toShard.step op).2 := by
  cases op with
  | set k v => exact ⟨RingInv.set r k v h, toShard_set r k v h, rfl⟩
  | setIfAbsent k v =>
    have := toShard_setIfAbsent r k v h
    refine ⟨RingInv.setIfAbsent r k v h, ?_, ?_⟩
    · exact congrArg Prod.fst this
    · exact congrArg some (congrArg Prod.snd this)
  | remove k => exact ⟨RingInv.remove r k h, toShard_remove r k h, rfl⟩

/-- any sequence of operations: the ring and the age-ordered shard stay related and produce the same outputs -/
theorem run_refines (ops : List Op) : ∀ (r : Ring), RingInv r →
    RingInv (r.run ops).1 ∧ (r.run ops).1.toShard = (r.toShard.run ops).1 ∧ (r.run ops).2 = (r.toShard.run ops).2 := by
  induction ops with
  | nil => intro r h; exact ⟨h, rfl, rfl⟩
  | cons op ops ih =>
    intro r h
    obtain ⟨h1, h2, h3⟩ := step_refines r op h
    obtain ⟨h4, h5, h6⟩ := ih (r.step op).1 h1
    simp only [Ring.run, Shard.run]
    rw [← h2, ← h3]
    exact ⟨h4, h5, by rw [h6]⟩

/-- 4. corollary: from the initial shard (`maxSize = m ≥ 1`) -/
theorem run_init (m : Nat) (hm : 1 ≤ m) (ops : List Op) :
    RingInv ((Ring.init m).run ops).1 ∧
    ((Ring.init m).run ops).1.toShard = ((Shard.init m).run ops).1 ∧
    ((Ring.init m).run ops).2 = ((Shard.init m).run ops).2 ∧
    ((Ring.init m).run ops).1.keys = ((Shard.init m).run ops).1.keys ∧
    (∀ k, ((Ring.init m).run ops).1.get k = alookup k ((Shard.init m).run ops).1.vals) := by
  obtain ⟨h1, h2, h3⟩ := run_refines ops (Ring.init m) (RingInv.init m hm)
  rw [toShard_init] at h2 h3
  refine ⟨h1, h2, h3, ?_, ?_⟩
  · rw [keys_eq _ h1.idx, h2]
  · intro k; rw [toShard_get, h2]

theorem run_m (ops : List Op) : ∀ (r : Ring), (r.run ops).1.m = r.m := by
  induction ops with
  | nil => intro r; rfl
  | cons op ops ih =>
    intro r
    simp only [Ring.run]
    rw [ih]
    cases op with
    | set k v =>
      simp only [Ring.step, set_eq, appendKey_eq, Ring.advance]
      split <;> rfl
    | setIfAbsent k v =>
      simp only [Ring.step, Ring.setIfAbsent]
      split
      · rfl
      · simp only [appendKey_eq, Ring.advance]
        split <;> rfl
    | remove k =>
      simp only [Ring.step, Ring.remove]
      split <;> rfl

/-! ### transfer of the property theorems of `FifoProofs` to the ring -/

/-- a shard never holds more than `maxSize − 1` entries -/
theorem ring_bound (r : Ring) (h : RingInv r) : r.items.length ≤ r.m - 1 := by
  have := shard_bound r.m r.toShard h.toShardInv
  simpa [Ring.toShard] using this

/-- C20 on the ring: the entry just inserted is resident with its value (`maxSize ≥ 2`, which is what `S ≥ 2N` gives,
    `shardSize_ge_two`); for `maxSize = 1` it is NOT (see `m1_nothing_resident`) -/
theorem ring_set_resident (r : Ring) (k v : Bytes) (h : RingInv r) (hm : 2 ≤ r.m) : (r.set k v).get k = some v := by
  rw [toShard_get, toShard_set r k v h]
  exact set_resident r.m r.toShard k v h.toShardInv hm

theorem foldl_set_refines (ks : List (Bytes × Bytes)) : ∀ (r : Ring), RingInv r →
    RingInv (ks.foldl (fun r p => r.set p.1 p.2) r) ∧
    (ks.foldl (fun r p => r.set p.1 p.2) r).toShard = ks.foldl (fun s p => s.set p.1 p.2) r.toShard := by
  induction ks with
  | nil => intro r h; exact ⟨h, rfl⟩
  | cons p ks ih =>
    intro r h
    simp only [List.foldl_cons]
    rw [← toShard_set r p.1 p.2 h]
    exact ih _ (RingInv.set r p.1 p.2 h)

/-- C20 on the ring: an entry survives `maxSize − 2` further insertions of other keys -/
theorem ring_survives (r : Ring) (k v : Bytes) (ks : List (Bytes × Bytes)) (h : RingInv r) (hm : 2 ≤ r.m)
    (hne : ∀ p ∈ ks, p.1 ≠ k) (hl : ks.length ≤ r.m - 2) :
    (ks.foldl (fun r p => r.set p.1 p.2) (r.set k v)).get k = some v := by
  rw [toShard_get, (foldl_set_refines ks (r.set k v) (RingInv.set r k v h)).2, toShard_set r k v h]
  exact survives r.m r.toShard k v ks h.toShardInv hm hne hl

/-- C20 on the ring: after `Set`, `Keys()` of the shard is the old sequence without `k` and without the key evicted
    from the oldest position, followed by `k` -/
theorem ring_set_keys (r : Ring) (k v : Bytes) (h : RingInv r) (hm : 2 ≤ r.m) :
    (r.set k v).keys = ((blank k r.toShard.view).dropLast.reverse.filterMap id) ++ [k] := by
  rw [keys_eq _ (RingInv.set r k v h).idx, toShard_set r k v h]
  exact set_keys r.m r.toShard k v h.toShardInv hm

/-- degenerate shard `maxSize = 1`: nothing is ever resident -/
theorem m1_nothing_resident (r : Ring) (h : RingInv r) (hm : r.m = 1) : r.items = [] := by
  have := ring_bound r h
  exact List.eq_nil_of_length_eq_zero (by omega)

/-! ### non-vacuity: concrete runs -/

/-- seven operations on a ring of four slots: three inserts, an overwrite (which wraps `idxAdd` and evicts the oldest
    key `[1]`), a removal, two more inserts (into slots that are blank, so nobody is evicted) -/
def demoOps : List Op :=
  [.set [1] [10], .set [2] [20], .set [3] [30], .set [2] [21], .remove [3], .set [4] [40], .set [5] [50]]

example : ((Ring.init 4).run (demoOps.take 3)).1 =
    ⟨4, 3, [some [1], some [2], some [3], none], [([1], [10], 0), ([2], [20], 1), ([3], [30], 2)]⟩ := by decide
-- the overwrite of `[2]` blanks slot 1, writes slot 3, wraps `idxAdd` to 0 and evicts `[1]` from slot 0
example : ((Ring.init 4).run (demoOps.take 4)).1 =
    ⟨4, 0, [none, none, some [3], some [2]], [([2], [21], 3), ([3], [30], 2)]⟩ := by decide
example : ((Ring.init 4).run (demoOps.take 5)).1 =
    ⟨4, 0, [none, none, none, some [2]], [([2], [21], 3)]⟩ := by decide
example : ((Ring.init 4).run demoOps).1 =
    ⟨4, 2, [some [4], some [5], none, some [2]], [([2], [21], 3), ([4], [40], 0), ([5], [50], 1)]⟩ := by decide
example : ((Ring.init 4).run demoOps).1.toShard.view = [some [5], some [4], some [2]] ∧
    ((Ring.init 4).run demoOps).1.toShard.vals = [([2], [21]), ([4], [40]), ([5], [50])] := by decide
example : ((Ring.init 4).run demoOps).1.toShard = ((Shard.init 4).run demoOps).1 := by rfl
example : ((Ring.init 4).run demoOps).1.keys = [[2], [4], [5]] := by decide
example : ((Ring.init 4).run (demoOps ++ [.setIfAbsent [2] [22], .setIfAbsent [6] [60]])).2
    = [none, none, none, none, none, none, none, some false, some true] := by decide
-- the hypotheses of the theorems are met on this run
example : RingInv ((Ring.init 4).run demoOps).1 := (run_init 4 (by decide) demoOps).1
example : 2 ≤ ((Ring.init 4).run demoOps).1.m := by decide
-- an instance of `ring_survives` with all hypotheses discharged
example : ([([4], [40]), ([5], [50])].foldl (fun r p => r.set p.1 p.2) ((Ring.init 4).set [2] [21])).get [2] = some [21] :=
  ring_survives (Ring.init 4) [2] [21] _ (RingInv.init 4 (by decide)) (by decide) (by decide) (by decide)
-- `1 ≤ m` is needed: `cmap.New` never builds a shard with `maxSize = 0` (the Go code would divide by zero)
example : ¬ RingInv (Ring.init 0) := fun h => Nat.not_lt_zero _ h.idx
-- maxSize = 1: the refinement still holds, nothing is resident
example : ((Ring.init 1).run demoOps).1 = ⟨1, 0, [none], []⟩ := by decide
example : ((Ring.init 1).run demoOps).1.toShard = ((Shard.init 1).run demoOps).1 := by rfl
example : ((Ring.init 1).set [7] [70]).get [7] = none := by decide
-- survival: `[2]` (re-)inserted at step 4 survives the m − 2 = 2 insertions of `[4]`, `[5]`; a third one evicts it
example : (((Ring.init 4).run demoOps).1.set [6] [60]).get [2] = none := by decide

end SV.Fifo
