/-
  SV.Misc.AdapterProofs — the storage/cacher adapter (bounded LRU tier spilling its victims to a persister)
  never loses a key (C17), and the F11 counter-example for the legacy LRU.
-/
import SV.Misc.Adapter
import SV.LRU.Proofs
namespace SV.Adapter
open SV SV.LRU

/-! ### association lists (local copies of the lemmas of SV.Persist.Proofs, to keep this file self-contained) -/

section alist
variable {β : Type}

theorem alookup_aset_self (k : Bytes) (v : β) (l : List (Bytes × β)) :
    alookup k (aset k v l) = some v := by
  induction l with
  | nil => simp [aset, alookup]
  | cons a r ih =>
    obtain ⟨k', v'⟩ := a
    simp only [aset]
    split
    · simp [alookup]
    · rename_i hne
      simp only [alookup, if_neg hne]
      exact ih

theorem alookup_aset_ne {k k' : Bytes} (hne : k' ≠ k) (v : β) (l : List (Bytes × β)) :
    alookup k' (aset k v l) = alookup k' l := by
  induction l with
  | nil =>
    have : ¬ ((k == k') = true) := by simpa using fun h => hne h.symm
    simp [aset, alookup, this]
  | cons a r ih =>
    obtain ⟨k1, v1⟩ := a
    simp only [aset]
    split
    · rename_i heq
      have h1 : k1 = k := by simpa using heq
      subst h1
      have : ¬ ((k1 == k') = true) := by simpa using fun h => hne h.symm
      simp [alookup, this]
    · simp only [alookup, ih]

end alist

/-! ### the spill fold of `A.put` -/

/-- persisting one victim (a value that serialises to zero bytes is skipped) -/
def spill (db : List (Bytes × Bytes)) (e : Entry) : List (Bytes × Bytes) :=
  if e.val.isEmpty then db else aset e.key e.val db

theorem put_eq (vr : Variant) (a : A) (k v : Bytes) (size : Int) :
    a.put vr k v size =
      (⟨(a.mem.addSizedAndReturnEvicted vr k v size).1, (a.mem.addSizedAndReturnEvicted vr k v size).2.foldl spill a.db⟩,
        !(a.mem.addSizedAndReturnEvicted vr k v size).2.isEmpty) := rfl

theorem spill_good (V : Bytes → Bytes) (hv : ∀ x, V x ≠ []) (db : List (Bytes × Bytes)) (e : Entry)
    (he : e.val = V e.key) : spill db e = aset e.key (V e.key) db := by
  unfold spill
  have : e.val.isEmpty = false := by
    rw [he]
    cases hV : V e.key with
    | nil => exact absurd hV (hv _)
    | cons _ _ => rfl
  rw [this, he]
  simp

/-- keys that are not among the victims are untouched -/
theorem spill_miss (V : Bytes → Bytes) (hv : ∀ x, V x ≠ []) (x : Bytes) (vs : List Entry) :
    ∀ (db : List (Bytes × Bytes)), (∀ e ∈ vs, e.val = V e.key) → (∀ e ∈ vs, e.key ≠ x) →
      alookup x (vs.foldl spill db) = alookup x db := by
  induction vs with
  | nil => intro db _ _; rfl
  | cons e r ih =>
    intro db hvals hne
    simp only [List.foldl_cons]
    rw [ih _ (fun e' he' => hvals e' (List.mem_cons_of_mem _ he')) (fun e' he' => hne e' (List.mem_cons_of_mem _ he'))]
    rw [spill_good V hv db e (hvals e List.mem_cons_self)]
    exact alookup_aset_ne (fun h => hne e List.mem_cons_self h.symm) _ _

/-- every victim key is afterwards bound to its value -/
theorem spill_hit (V : Bytes → Bytes) (hv : ∀ x, V x ≠ []) (x : Bytes) (vs : List Entry) :
    ∀ (db : List (Bytes × Bytes)), (∀ e ∈ vs, e.val = V e.key) → (∃ e ∈ vs, e.key = x) →
      alookup x (vs.foldl spill db) = some (V x) := by
  induction vs with
  | nil => intro db _ h; obtain ⟨e, he, _⟩ := h; cases he
  | cons e r ih =>
    intro db hvals hex
    have hvals' : ∀ e' ∈ r, e'.val = V e'.key := fun e' he' => hvals e' (List.mem_cons_of_mem _ he')
    simp only [List.foldl_cons]
    by_cases hr : ∃ e' ∈ r, e'.key = x
    · exact ih _ hvals' hr
    · have hne : ∀ e' ∈ r, e'.key ≠ x := fun e' he' hk => hr ⟨e', he', hk⟩
      rw [spill_miss V hv x r _ hvals' hne]
      obtain ⟨e', he', hk⟩ := hex
      rcases List.mem_cons.mp he' with rfl | he'
      · rw [spill_good V hv db e' (hvals e' List.mem_cons_self), hk]
        exact alookup_aset_self _ _ _
      · exact absurd hk (hne e' he')

/-- a binding `k ↦ V k` survives the spill -/
theorem spill_pres (V : Bytes → Bytes) (hv : ∀ x, V x ≠ []) (x : Bytes) (vs : List Entry) (db : List (Bytes × Bytes))
    (hvals : ∀ e ∈ vs, e.val = V e.key) (h : alookup x db = some (V x)) :
    alookup x (vs.foldl spill db) = some (V x) := by
  by_cases hr : ∃ e ∈ vs, e.key = x
  · exact spill_hit V hv x vs db hvals hr
  · rw [spill_miss V hv x vs db hvals (fun e he hk => hr ⟨e, he, hk⟩)]
    exact h

/-- all values written are the bound ones -/
theorem spill_vals (V : Bytes → Bytes) (hv : ∀ x, V x ≠ []) (vs : List Entry) (db : List (Bytes × Bytes))
    (hvals : ∀ e ∈ vs, e.val = V e.key) (hdb : ∀ k v, alookup k db = some v → v = V k) :
    ∀ k v, alookup k (vs.foldl spill db) = some v → v = V k := by
  intro x v hx
  by_cases hr : ∃ e ∈ vs, e.key = x
  · rw [spill_hit V hv x vs db hvals hr] at hx
    cases hx; rfl
  · rw [spill_miss V hv x vs db hvals (fun e he hk => hr ⟨e, he, hk⟩)] at hx
    exact hdb x v hx

/-! ### residency -/

theorem has_of_mem (c : Cap) (e : Entry) (he : e ∈ c.entries) : c.has e.key = true := by
  unfold Cap.has
  simp only [List.any_eq_true]
  exact ⟨e, he, by simp⟩

theorem mem_of_has (c : Cap) (k : Bytes) (h : c.has k = true) : ∃ e ∈ c.entries, e.key = k := by
  obtain ⟨e, _, he, hk⟩ := has_find c k h
  exact ⟨e, he, hk⟩

/-- the entries after a Get are old entries; residency is unchanged -/
theorem get_mem (c : Cap) (k : Bytes) (e : Entry) (he : e ∈ (c.get k).1.entries) : e ∈ c.entries := by
  unfold Cap.get at he
  cases hf : c.find k with
  | none => rw [hf] at he; exact he
  | some e0 =>
    rw [hf] at he
    have he' : e ∈ e0 :: c.entries.filter (·.key != k) := he
    rcases List.mem_cons.mp he' with rfl | he'
    · exact List.mem_of_find?_eq_some hf
    · exact (List.mem_filter.mp he').1

theorem get_has (c : Cap) (k x : Bytes) (h : c.has x = true) : (c.get k).1.has x = true := by
  unfold Cap.get
  cases hf : c.find k with
  | none => exact h
  | some e0 =>
    have hf' : c.entries.find? (·.key == k) = some e0 := hf
    have hek : e0.key = k := by simpa using List.find?_some hf'
    show Cap.has { c with entries := e0 :: c.entries.filter (·.key != k) } x = true
    by_cases hxk : x = k
    · have hxe : x = e0.key := by rw [hek]; exact hxk
      rw [hxe]
      exact has_of_mem { c with entries := e0 :: c.entries.filter (·.key != k) } e0 List.mem_cons_self
    · obtain ⟨e, he, hk⟩ := mem_of_has c x h
      rw [← hk]
      apply has_of_mem
      show e ∈ e0 :: c.entries.filter (·.key != k)
      refine List.mem_cons_of_mem _ (List.mem_filter.mpr ⟨he, ?_⟩)
      simp only [bne_iff_ne, ne_eq]
      rw [hk]; exact hxk

/-! ### the invariant -/

structure AInv (V : Bytes → Bytes) (S : List Bytes) (a : A) : Prop where
  cap : LRU.CapInv a.mem
  memVals : ∀ e ∈ a.mem.entries, e.val = V e.key
  dbVals : ∀ k v, alookup k a.db = some v → v = V k
  stored : ∀ k ∈ S, a.mem.has k = true ∨ alookup k a.db = some (V k)

theorem AInv.init (V : Bytes → Bytes) (cap : Nat) (maxBytes : Int) : AInv V [] ⟨LRU.Cap.init cap maxBytes, []⟩ := by
  refine ⟨CapInv.init cap maxBytes, ?_, ?_, ?_⟩
  · intro e he; simp [Cap.init] at he
  · intro k v h; simp [alookup] at h
  · intro k hk; cases hk

/-- the victims of a write carry the bound values -/
theorem victims_vals (V : Bytes → Bytes) (S : List Bytes) (a : A) (k : Bytes) (size : Int) (h : AInv V S a) :
    ∀ e ∈ (a.mem.addSizedAndReturnEvicted Variant.current k (V k) size).2, e.val = V e.key := by
  intro e he
  obtain ⟨_, h2, _, _⟩ := addSizedAndReturnEvicted_conservation a.mem k (V k) size h.cap
  exact h.memVals e (h2 e he).1

/-- the entries resident after a write are the written one or old ones -/
theorem resident_after (a : A) (k v : Bytes) (size : Int) (h : CapInv a.mem) :
    ∀ e ∈ (a.mem.addSizedAndReturnEvicted Variant.current k v size).1.entries,
      e = ⟨k, v, size⟩ ∨ e ∈ a.mem.entries := by
  intro e he
  have he' : e ∈ ((a.mem.addSizedCore Variant.current k v size).evictIfNeeded).1.entries := he
  by_cases hs : size < 0
  · rw [addSizedCore_negative a.mem k v size hs, evictIfNeeded_noop a.mem h.bytes h.fits] at he'
    exact Or.inr he'
  · obtain ⟨rest, h1, h2, _, h4, _, _⟩ := addSizedCore_shape a.mem k v size h (by omega)
    obtain ⟨hsplit, _⟩ := evictIfNeeded_split _ h4
    have hm : e ∈ (a.mem.addSizedCore Variant.current k v size).entries := by
      rw [hsplit]; exact List.mem_append_left _ he'
    rw [h1] at hm
    rcases List.mem_cons.mp hm with rfl | hm
    · exact Or.inl rfl
    · exact Or.inr ((h2 e).mp hm).1

/-- C17: a Put (valid size, non-empty serialisation) keeps every key put so far, and the new one, retrievable -/
theorem AInv.put (V : Bytes → Bytes) (S : List Bytes) (a : A) (k : Bytes) (size : Int) (h : AInv V S a)
    (hs : 0 ≤ size) (hv : ∀ x, V x ≠ []) : AInv V (k :: S) (a.put LRU.Variant.current k (V k) size).1 := by
  rw [put_eq]
  obtain ⟨c1, c2, _, c4⟩ := addSizedAndReturnEvicted_conservation a.mem k (V k) size h.cap
  have hvv := victims_vals V S a k size h
  have hhead : (a.mem.addSizedAndReturnEvicted Variant.current k (V k) size).1.has k = true := by
    have hh := addSized_head a.mem k (V k) size h.cap hs
    rw [c4] at hh
    cases hent : (a.mem.addSizedAndReturnEvicted Variant.current k (V k) size).1.entries with
    | nil => rw [hent] at hh; cases hh
    | cons x xs =>
      rw [hent] at hh
      simp only [List.head?_cons, Option.some.injEq] at hh
      have : x ∈ (a.mem.addSizedAndReturnEvicted Variant.current k (V k) size).1.entries := by
        rw [hent]; exact List.mem_cons_self
      have := has_of_mem _ x this
      rw [hh] at this
      exact this
  refine ⟨?_, ?_, ?_, ?_⟩
  · have := CapInv.addSized a.mem k (V k) size h.cap
    rw [c4] at this
    exact this
  · intro e he
    rcases resident_after a k (V k) size h.cap e he with rfl | he
    · rfl
    · exact h.memVals e he
  · exact spill_vals V hv _ a.db hvv h.dbVals
  · intro x hx
    show (a.mem.addSizedAndReturnEvicted Variant.current k (V k) size).1.has x = true ∨
      alookup x ((a.mem.addSizedAndReturnEvicted Variant.current k (V k) size).2.foldl spill a.db) = some (V x)
    by_cases hxk : x = k
    · left; rw [hxk]; exact hhead
    · rcases List.mem_cons.mp hx with hx | hx
      · exact absurd hx hxk
      · rcases h.stored x hx with hm | hd
        · obtain ⟨e, he, hek⟩ := mem_of_has a.mem x hm
          rcases c1 e he (by rw [hek]; exact hxk) with hr | hvict
          · left; rw [← hek]; exact has_of_mem _ e hr
          · right; exact spill_hit V hv x _ a.db hvv ⟨e, hvict, hek⟩
        · right; exact spill_pres V hv x _ a.db hvv hd

theorem AInv.get (V : Bytes → Bytes) (S : List Bytes) (a : A) (k : Bytes) (h : AInv V S a) : AInv V S (a.get k).1 := by
  have hshape : (a.get k).1 = a ∨ (a.get k).1 = { a with mem := (a.mem.get k).1 } := by
    unfold A.get
    split
    · rename_i m v heq
      right
      rw [heq]
    · left; rfl
  rcases hshape with he | he
  · rw [he]; exact h
  · rw [he]
    refine ⟨CapInv.get a.mem k h.cap, ?_, h.dbVals, ?_⟩
    · intro e hm
      exact h.memVals e (get_mem a.mem k e hm)
    · intro x hx
      rcases h.stored x hx with hm | hd
      · left; exact get_has a.mem k x hm
      · right; exact hd

/-- every key put so far is reported by Has and returned by Get with its value -/
theorem retrievable (V : Bytes → Bytes) (S : List Bytes) (a : A) (k : Bytes) (h : AInv V S a) (hk : k ∈ S) :
    a.has k = true ∧ (a.get k).2 = some (V k) := by
  cases hm : a.mem.has k with
  | true =>
    obtain ⟨e, hf, he, hek⟩ := has_find a.mem k hm
    refine ⟨by simp [A.has, hm], ?_⟩
    have hval := h.memVals e he
    unfold A.get Cap.get
    rw [hf]
    show some e.val = some (V k)
    rw [hval, hek]
  | false =>
    obtain ⟨hf, _⟩ := has_false a.mem k hm
    have hd : alookup k a.db = some (V k) := by
      rcases h.stored k hk with h1 | h1
      · rw [hm] at h1; cases h1
      · exact h1
    refine ⟨by simp [A.has, hm, hd], ?_⟩
    unfold A.get Cap.get
    rw [hf]
    exact hd

/-- entries leave the memory tier only by being written to the persister in the same step; the flag says whether anything was spilled -/
theorem put_spills (V : Bytes → Bytes) (S : List Bytes) (a : A) (k : Bytes) (size : Int) (h : AInv V S a) (hv : ∀ x, V x ≠ []) :
    let r := a.put LRU.Variant.current k (V k) size
    (∀ e ∈ a.mem.entries, e.key ≠ k → r.1.mem.has e.key = false → alookup e.key r.1.db = some e.val) ∧
    (r.2 = true ↔ ∃ e ∈ a.mem.entries, e.key ≠ k ∧ r.1.mem.has e.key = false) := by
  intro r
  have hr : r = a.put LRU.Variant.current k (V k) size := rfl
  rw [put_eq] at hr
  obtain ⟨c1, c2, _, _⟩ := addSizedAndReturnEvicted_conservation a.mem k (V k) size h.cap
  have hvv := victims_vals V S a k size h
  rw [hr]
  refine ⟨?_, ?_⟩
  · intro e he hek hnr
    have hnr' : (a.mem.addSizedAndReturnEvicted Variant.current k (V k) size).1.has e.key = false := hnr
    show alookup e.key ((a.mem.addSizedAndReturnEvicted Variant.current k (V k) size).2.foldl spill a.db) = some e.val
    rcases c1 e he hek with hres | hvict
    · rw [has_of_mem _ e hres] at hnr'; cases hnr'
    · rw [h.memVals e he]
      exact spill_hit V hv e.key _ a.db hvv ⟨e, hvict, rfl⟩
  · show (!(a.mem.addSizedAndReturnEvicted Variant.current k (V k) size).2.isEmpty) = true ↔
      ∃ e ∈ a.mem.entries, e.key ≠ k ∧ (a.mem.addSizedAndReturnEvicted Variant.current k (V k) size).1.has e.key = false
    constructor
    · intro hne
      cases hvs : (a.mem.addSizedAndReturnEvicted Variant.current k (V k) size).2 with
      | nil => rw [hvs] at hne; cases hne
      | cons e rest =>
        obtain ⟨h1, h2, h3⟩ := c2 e (by rw [hvs]; exact List.mem_cons_self)
        exact ⟨e, h1, h2, h3⟩
    · intro ⟨e, he, hek, hnr⟩
      rcases c1 e he hek with hres | hvict
      · rw [has_of_mem _ e hres] at hnr; cases hnr
      · cases hvs : (a.mem.addSizedAndReturnEvicted Variant.current k (V k) size).2 with
        | nil => rw [hvs] at hvict; cases hvict
        | cons _ _ => rfl

/-- histories of Puts and Gets -/
inductive Op where
  | put (k : Bytes) (size : Int)
  | get (k : Bytes)

def A.step (V : Bytes → Bytes) (a : A) : Op → A
  | .put k size => (a.put LRU.Variant.current k (V k) size).1
  | .get k => (a.get k).1

def putKeys : List Op → List Bytes
  | [] => []
  | .put k _ :: r => k :: putKeys r
  | .get _ :: r => putKeys r

theorem run_inv (V : Bytes → Bytes) (hv : ∀ x, V x ≠ []) (ops : List Op) :
    ∀ (S : List Bytes) (a : A), AInv V S a →
      (∀ op ∈ ops, (match op with | .put _ s => 0 ≤ s | .get _ => True)) →
      ∃ S', AInv V S' (ops.foldl (A.step V) a) ∧ (∀ x ∈ S, x ∈ S') ∧ (∀ x ∈ putKeys ops, x ∈ S') := by
  induction ops with
  | nil =>
    intro S a h _
    exact ⟨S, h, fun _ hx => hx, fun _ hx => by cases hx⟩
  | cons op r ih =>
    intro S a h hs
    have hs' : ∀ op ∈ r, (match op with | .put _ s => 0 ≤ s | .get _ => True) :=
      fun o ho => hs o (List.mem_cons_of_mem _ ho)
    simp only [List.foldl_cons]
    cases op with
    | put k size =>
      have hsz : 0 ≤ size := hs (.put k size) List.mem_cons_self
      obtain ⟨S', hi, h1, h2⟩ := ih (k :: S) _ (AInv.put V S a k size h hsz hv) hs'
      refine ⟨S', hi, fun x hx => h1 x (List.mem_cons_of_mem _ hx), ?_⟩
      intro x hx
      have hx' : x ∈ k :: putKeys r := hx
      rcases List.mem_cons.mp hx' with rfl | hx'
      · exact h1 _ List.mem_cons_self
      · exact h2 x hx'
    | get k =>
      obtain ⟨S', hi, h1, h2⟩ := ih S _ (AInv.get V S a k h) hs'
      exact ⟨S', hi, h1, fun x hx => h2 x hx⟩

theorem run_never_loses (V : Bytes → Bytes) (hv : ∀ x, V x ≠ []) (cap : Nat) (maxBytes : Int) (ops : List Op)
    (hs : ∀ op ∈ ops, (match op with | .put _ s => 0 ≤ s | .get _ => True)) (k : Bytes) (hk : k ∈ putKeys ops) :
    let a := ops.foldl (A.step V) ⟨LRU.Cap.init cap maxBytes, []⟩
    a.has k = true ∧ (a.get k).2 = some (V k) := by
  intro a
  obtain ⟨S', hi, _, h2⟩ := run_inv V hv ops [] _ (AInv.init V cap maxBytes) hs
  exact retrievable V S' a k hi (h2 k hk)

/-- F11 (pre-repair): the legacy LRU evicted silently and the adapter lost the entry -/
theorem legacy_loses_entry : ∃ (a : A) (k v : Bytes) (size : Int) (e : LRU.Entry),
    e ∈ a.mem.entries ∧ e.key ≠ k ∧ (a.put LRU.Variant.legacy k v size).1.has e.key = false :=
  ⟨⟨⟨3, 10, [⟨[1], [], 4⟩, ⟨[2], [], 4⟩], 8⟩, []⟩, [1], [], 8, ⟨[2], [], 4⟩, by decide⟩

end SV.Adapter
