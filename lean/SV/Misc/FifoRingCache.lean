/-
  SV.Misc.FifoRingCache — the whole `fifocache.FIFOShardedCache` over the faithful ring model of its shards
  (`SV.Misc.FifoRing`). Mirrors `SV.Fifo.Cache` function by function (same result types), so that the model driver can
  run either; `RCache.toCache` is the abstraction and `SV.Misc.FifoRingCacheProofs` proves that it commutes with
  every operation.

  Go sources: /repo/fifocache/fifocacheSharded.go, github.com/multiversx/concurrent-map@v0.1.4/concurrent_map.go.
-/
import SV.Misc.FifoRing
namespace SV.Fifo
open SV

structure RCache where
  n : Nat                     -- shardCount
  shards : List Ring          -- shards
  handlers : List String      -- ids of mapDataHandlers
  deriving Repr, DecidableEq

/-- `NewShardedCache(size, shards)` = `cmap.New(size, shards)`: `shardCount` shards of `shardSize` slots.
    (The constructor validates nothing; `shardCount = 0` makes every later `GetShard` divide by zero.) -/
def RCache.init (size n : Nat) : RCache := ⟨n, List.replicate n (Ring.init (shardSize size n)), []⟩

/-- `GetShard`: `m.shards[uint(fnv32(key)) % uint(m.shardCount)]` -/
def RCache.idx (c : RCache) (k : Bytes) : Nat := fnv32 k % c.n
def RCache.shard (c : RCache) (k : Bytes) : Ring := (c.shards[c.idx k]?).getD ⟨0, 0, [], []⟩
def RCache.setShard (c : RCache) (k : Bytes) (r : Ring) : RCache := { c with shards := c.shards.set (c.idx k) r }

/-- `Put`: `c.cache.Set(string(key), value) ; c.callAddedDataHandlers(key, value)` → (cache, notifications) -/
def RCache.put (c : RCache) (k v : Bytes) : RCache × List (String × Bytes × Bytes) :=
  (c.setShard k ((c.shard k).set k v), c.handlers.map (·, k, v))

/-- `HasOrAdd`: `added = c.cache.SetIfAbsent(..) ; if added { callAddedDataHandlers } ; return !added, added` -/
def RCache.hasOrAdd (c : RCache) (k v : Bytes) : RCache × Bool × Bool × List (String × Bytes × Bytes) :=
  let (r, added) := (c.shard k).setIfAbsent k v
  (c.setShard k r, !added, added, if added then c.handlers.map (·, k, v) else [])

/-- `Get` / `Peek`: `c.cache.Get(string(key))` -/
def RCache.get (c : RCache) (k : Bytes) : Option Bytes := (c.shard k).get k

/-- `Remove`: `c.cache.Remove(string(key))` -/
def RCache.remove (c : RCache) (k : Bytes) : RCache := c.setShard k ((c.shard k).remove k)

/-- `Len`: `c.cache.Count()` = Σ `len(shard.items)` -/
def RCache.len (c : RCache) : Nat := (c.shards.map (·.items.length)).sum

/-- per-shard sequences of `Keys()` -/
def RCache.keysPerShard (c : RCache) : List (List Bytes) := c.shards.map Ring.keys

/-- one possible result of `c.cache.Keys()`: the per-shard sequences in shard order (the Go code interleaves them
    non-deterministically, one goroutine per shard) -/
def RCache.keys (c : RCache) : List Bytes := c.keysPerShard.flatten

/-- the loop of `Clear`: `for _, key := range keys { c.cache.Remove(key) }` — every removal goes through `GetShard` -/
def RCache.clearWith (c : RCache) (keys : List Bytes) : RCache := keys.foldl RCache.remove c

/-- `Clear`: `keys := c.cache.Keys() ; for _, key := range keys { c.cache.Remove(key) }`
    (`FifoRingCacheProofs.toCache_clearWith` shows that the result does not depend on the order of `keys`) -/
def RCache.clear (c : RCache) : RCache := c.clearWith c.keys

/-- abstraction to the age-ordered cache model -/
def RCache.toCache (c : RCache) : Cache := ⟨c.n, c.shards.map Ring.toShard, c.handlers⟩

/-! ### operation sequences (the vocabulary of the model driver) -/

inductive COp where
  | put (k v : Bytes)
  | hasOrAdd (k v : Bytes)
  | get (k : Bytes)
  | remove (k : Bytes)
  | clear
  | len
  | keys
  | reg (id : String)       -- RegisterHandler(handler, id)
  | unreg (id : String)     -- UnRegisterHandler(id)
  deriving Repr, DecidableEq

inductive COut where
  | put (notified : List (String × Bytes × Bytes))
  | hasOrAdd (has added : Bool) (notified : List (String × Bytes × Bytes))
  | get (v : Option Bytes)
  | len (n : Nat)
  | keys (perShard : List (List Bytes))
  | unit
  deriving Repr, DecidableEq

def RCache.step (c : RCache) : COp → RCache × COut
  | .put k v => ((c.put k v).1, .put (c.put k v).2)
  | .hasOrAdd k v => ((c.hasOrAdd k v).1, .hasOrAdd (c.hasOrAdd k v).2.1 (c.hasOrAdd k v).2.2.1 (c.hasOrAdd k v).2.2.2)
  | .get k => (c, .get (c.get k))
  | .remove k => (c.remove k, .unit)
  | .clear => (c.clear, .unit)
  | .len => (c, .len c.len)
  | .keys => (c, .keys c.keysPerShard)
  | .reg id => ({ c with handlers := if c.handlers.contains id then c.handlers else c.handlers ++ [id] }, .unit)
  | .unreg id => ({ c with handlers := c.handlers.filter (· != id) }, .unit)

def Cache.step (c : Cache) : COp → Cache × COut
  | .put k v => ((c.put k v).1, .put (c.put k v).2)
  | .hasOrAdd k v => ((c.hasOrAdd k v).1, .hasOrAdd (c.hasOrAdd k v).2.1 (c.hasOrAdd k v).2.2.1 (c.hasOrAdd k v).2.2.2)
  | .get k => (c, .get (c.get k))
  | .remove k => (c.remove k, .unit)
  | .clear => (c.clear, .unit)
  | .len => (c, .len c.len)
  | .keys => (c, .keys c.keysPerShard)
  | .reg id => ({ c with handlers := if c.handlers.contains id then c.handlers else c.handlers ++ [id] }, .unit)
  | .unreg id => ({ c with handlers := c.handlers.filter (· != id) }, .unit)

def RCache.run : RCache → List COp → RCache × List COut
  | c, [] => (c, [])
  | c, op :: ops => ((RCache.run (c.step op).1 ops).1, (c.step op).2 :: (RCache.run (c.step op).1 ops).2)

def Cache.run : Cache → List COp → Cache × List COut
  | c, [] => (c, [])
  | c, op :: ops => ((Cache.run (c.step op).1 ops).1, (c.step op).2 :: (Cache.run (c.step op).1 ops).2)

end SV.Fifo
