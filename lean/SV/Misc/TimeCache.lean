/-
  SV.Misc.TimeCache — model of timecache (timeCacheCore, TimeCache, peerTimeCache, timeCacher).
  Every operation takes the clock reading `now` it observes (nanoseconds, ℕ).
-/
import SV.Common
namespace SV.TimeCache
open SV

structure Entry where
  timestamp : Nat
  span : Nat
  value : Bytes
  deriving Repr, DecidableEq

abbrev TC := List (Bytes × Entry)

/-- `TimeCache.add` / `timeCacheCore.put`: replaces span, value and timestamp -/
def add (tc : TC) (k : Bytes) (v : Bytes) (span now : Nat) : TC := aset k ⟨now, span, v⟩ tc

/-- `upsert`: span becomes the maximum, countdown restarts, value of an existing entry is kept -/
def upsert (tc : TC) (k : Bytes) (v : Bytes) (span now : Nat) : TC :=
  match alookup k tc with
  | some e => aset k ⟨now, max e.span span, e.value⟩ tc
  | none => aset k ⟨now, span, v⟩ tc

/-- `hasOrAdd` → (cache, has, added): an existing entry is left untouched (its countdown is NOT restarted) -/
def hasOrAdd (tc : TC) (k : Bytes) (v : Bytes) (span now : Nat) : TC × Bool × Bool :=
  match alookup k tc with
  | some _ => (tc, true, false)
  | none => (aset k ⟨now, span, v⟩ tc, false, true)

/-- `sweep`: delete entries with `now − timestamp > span` -/
def sweep (tc : TC) (now : Nat) : TC := tc.filter (fun e => !decide (now - e.2.timestamp > e.2.span))

def has (tc : TC) (k : Bytes) : Bool := (alookup k tc).isSome
def remove (tc : TC) (k : Bytes) : TC := aerase k tc

end SV.TimeCache

namespace SV.TimeCache

/-- Two exact models bracketing the unknown clock readings: every operation is known to have read the clock somewhere
    in `[lo, hi]`.  `must` stamps entries with the EARLIEST possible reading and sweeps at the LATEST (a key is in `must`
    only if it is certainly present); `may` does the opposite (a key is in `may` if it is possibly present). -/
structure I where
  must : TC
  may : TC

def I.add (i : I) (k v : Bytes) (span lo hi : Nat) : I := ⟨TimeCache.add i.must k v span lo, TimeCache.add i.may k v span hi⟩
def I.upsert (i : I) (k v : Bytes) (span lo hi : Nat) : I := ⟨TimeCache.upsert i.must k v span lo, TimeCache.upsert i.may k v span hi⟩
def I.sweep (i : I) (lo hi : Nat) : I := ⟨TimeCache.sweep i.must hi, TimeCache.sweep i.may lo⟩
def I.remove (i : I) (k : Bytes) : I := ⟨TimeCache.remove i.must k, TimeCache.remove i.may k⟩

end SV.TimeCache
