/-
  SV.Misc.TimeCache — model of timecache (timeCacheCore, TimeCache, peerTimeCache, timeCacher).
  Every operation takes the clock reading `now` it observes (nanoseconds, ℕ).
-/
import SV.Common
namespace SV.TimeCache
open SV

structure Entry where
  timestamp : Nat
  span : Nat
  value : Bytes
  deriving Repr, DecidableEq

abbrev TC := List (Bytes × Entry)

/-- `TimeCache.add` / `timeCacheCore.put`: replaces span, value and timestamp -/
def add (tc : TC) (k : Bytes) (v : Bytes) (span now : Nat) : TC := aset k ⟨now, span, v⟩ tc

/-- `upsert`: span becomes the maximum, countdown restarts, value of an existing entry is kept -/
def upsert (tc : TC) (k : Bytes) (v : Bytes) (span now : Nat) : TC :=
  match alookup k tc with
  | some e => aset k ⟨now, max e.span span, e.value⟩ tc
  | none => aset k ⟨now, span, v⟩ tc

/-- `hasOrAdd` → (cache, has, added): an existing entry is left untouched (its countdown is NOT restarted) -/
def hasOrAdd (tc : TC) (k : Bytes) (v : Bytes) (span now : Nat) : TC × Bool × Bool :=
  match alookup k tc with
  | some _ => (tc, true, false)
  | none => (aset k ⟨now, span, v⟩ tc, false, true)

/-- `sweep`: delete entries with `now − timestamp > span` -/
def sweep (tc : TC) (now : Nat) : TC := tc.filter (fun e => !decide (now - e.2.timestamp > e.2.span))

def has (tc : TC) (k : Bytes) : Bool := (alookup k tc).isSome
def remove (tc : TC) (k : Bytes) : TC := aerase k tc

end SV.TimeCache
