/-
  SV.Misc.UnitProofs — the storage unit (arbitrary cacher in front of a fault-injecting persister) answers like
  the map of acknowledged writes (C16).
-/
import SV.Misc.Unit
namespace SV.Unit
open SV

/-! ### association lists (local copies of the lemmas of SV.Persist.Proofs, to keep this file self-contained) -/

section alist
variable {β : Type}

theorem alookup_aset_self (k : Bytes) (v : β) (l : List (Bytes × β)) :
    alookup k (aset k v l) = some v := by
  induction l with
  | nil => simp [aset, alookup]
  | cons a r ih =>
    obtain ⟨k', v'⟩ := a
    simp only [aset]
    split
    · simp [alookup]
    · rename_i hne
      simp only [alookup, if_neg hne]
      exact ih

theorem alookup_aset_ne {k k' : Bytes} (hne : k' ≠ k) (v : β) (l : List (Bytes × β)) :
    alookup k' (aset k v l) = alookup k' l := by
  induction l with
  | nil =>
    have : ¬ ((k == k') = true) := by simpa using fun h => hne h.symm
    simp [aset, alookup, this]
  | cons a r ih =>
    obtain ⟨k1, v1⟩ := a
    simp only [aset]
    split
    · rename_i heq
      have h1 : k1 = k := by simpa using heq
      subst h1
      have : ¬ ((k1 == k') = true) := by simpa using fun h => hne h.symm
      simp [alookup, this]
    · simp only [alookup, ih]

theorem alookup_aerase_self (k : Bytes) (l : List (Bytes × β)) :
    alookup k (aerase k l) = none := by
  induction l with
  | nil => simp [aerase, alookup]
  | cons a r ih =>
    obtain ⟨k1, v1⟩ := a
    simp only [aerase]
    split
    · exact ih
    · rename_i hne
      simp only [alookup, if_neg hne]
      exact ih

theorem alookup_aerase_ne {k k' : Bytes} (hne : k' ≠ k) (l : List (Bytes × β)) :
    alookup k' (aerase k l) = alookup k' l := by
  induction l with
  | nil => simp [aerase]
  | cons a r ih =>
    obtain ⟨k1, v1⟩ := a
    simp only [aerase]
    split
    · rename_i heq
      have h1 : k1 = k := by simpa using heq
      subst h1
      have : ¬ ((k1 == k') = true) := by simpa using fun h => hne h.symm
      simp [alookup, this, ih]
    · simp only [alookup, ih]

end alist

/-- an eviction is a filter on the key, and `alookup` returns the first match -/
theorem alookup_restrict (keep : List Bytes) (k : Bytes) (c : List (Bytes × Bytes)) :
    alookup k (restrict keep c) = if keep.contains k then alookup k c else none := by
  induction c with
  | nil => simp [restrict, alookup]
  | cons a r ih =>
    obtain ⟨k1, v1⟩ := a
    unfold restrict at ih ⊢
    rw [List.filter_cons]
    by_cases hk : k1 = k
    · subst hk
      cases hc : keep.contains k1 with
      | true => simp [alookup]
      | false =>
        simp only [Bool.false_eq_true, if_false]
        rw [ih, hc]
        simp
    · have hne : ¬ ((k1 == k) = true) := by simpa using hk
      cases hc : keep.contains k1 with
      | true =>
        simp only [if_true, alookup, if_neg hne]
        exact ih
      | false =>
        simp only [Bool.false_eq_true, if_false, alookup, if_neg hne]
        exact ih

theorem alookup_restrict_some (keep : List Bytes) (k v : Bytes) (c : List (Bytes × Bytes))
    (h : alookup k (restrict keep c) = some v) : alookup k c = some v := by
  rw [alookup_restrict] at h
  split at h
  · exact h
  · cases h

/-- the cache never serves a value different from what the persister logically holds -/
def Coherent (u : U) : Prop := ∀ k v, alookup k u.cache = some v → alookup k u.db = some v

theorem Coherent.init : Coherent U.init := by
  intro k v h
  simp [U.init, alookup] at h

theorem Coherent.put (u : U) (k v : Bytes) (fail : Bool) (keep : List Bytes) (h : Coherent u) :
    Coherent (u.put k v fail keep).1 := by
  intro x w hx
  cases fail with
  | true =>
    have hx' : alookup x (aerase k (restrict keep (aset k v u.cache))) = some w := hx
    show alookup x u.db = some w
    by_cases hxk : x = k
    · subst hxk
      rw [alookup_aerase_self] at hx'
      cases hx'
    · rw [alookup_aerase_ne hxk] at hx'
      have := alookup_restrict_some _ _ _ _ hx'
      rw [alookup_aset_ne hxk] at this
      exact h x w this
  | false =>
    have hx' : alookup x (restrict keep (aset k v u.cache)) = some w := hx
    show alookup x (aset k v u.db) = some w
    have := alookup_restrict_some _ _ _ _ hx'
    by_cases hxk : x = k
    · subst hxk
      rw [alookup_aset_self] at this ⊢
      exact this
    · rw [alookup_aset_ne hxk] at this ⊢
      exact h x w this

/-- the two possible shapes of the state after a Get -/
theorem get_shape (u : U) (k : Bytes) (fail : Bool) (keep : List Bytes) :
    (u.get k fail keep).1 = u ∨
    (∃ v, alookup k u.cache = none ∧ alookup k u.db = some v ∧
      (u.get k fail keep).1 = { u with cache := restrict keep (aset k v u.cache) }) := by
  unfold U.get
  cases hc : alookup k u.cache with
  | some v => left; rfl
  | none =>
    cases fail with
    | true => left; rfl
    | false =>
      cases hd : alookup k u.db with
      | none => left; rfl
      | some v => right; exact ⟨v, rfl, rfl, rfl⟩

theorem Coherent.get (u : U) (k : Bytes) (fail : Bool) (keep : List Bytes) (h : Coherent u) :
    Coherent (u.get k fail keep).1 := by
  rcases get_shape u k fail keep with he | ⟨v, _, hd, he⟩
  · rw [he]; exact h
  · rw [he]
    intro x w hx
    have hx' : alookup x (restrict keep (aset k v u.cache)) = some w := hx
    show alookup x u.db = some w
    have := alookup_restrict_some _ _ _ _ hx'
    by_cases hxk : x = k
    · subst hxk
      rw [alookup_aset_self] at this
      rw [← this]; exact hd
    · rw [alookup_aset_ne hxk] at this
      exact h x w this

theorem Coherent.remove (u : U) (k : Bytes) (fail : Bool) (h : Coherent u) : Coherent (u.remove k fail).1 := by
  intro x w hx
  cases fail with
  | true =>
    have hx' : alookup x (aerase k u.cache) = some w := hx
    show alookup x u.db = some w
    by_cases hxk : x = k
    · subst hxk
      rw [alookup_aerase_self] at hx'
      cases hx'
    · rw [alookup_aerase_ne hxk] at hx'
      exact h x w hx'
  | false =>
    have hx' : alookup x (aerase k u.cache) = some w := hx
    show alookup x (aerase k u.db) = some w
    by_cases hxk : x = k
    · subst hxk
      rw [alookup_aerase_self] at hx'
      cases hx'
    · rw [alookup_aerase_ne hxk] at hx' ⊢
      exact h x w hx'

theorem Coherent.clearCache (u : U) (h : Coherent u) : Coherent u.clearCache := by
  have _ := h
  intro k v hk
  simp [U.clearCache, alookup] at hk

/-- a cache miss with a healthy persister answers from the persister -/
theorem get_miss (u : U) (k : Bytes) (keep : List Bytes) (hc : alookup k u.cache = none) :
    (u.get k false keep).2 = alookup k u.db := by
  unfold U.get
  rw [hc]
  cases hd : alookup k u.db with
  | none => rfl
  | some v => rfl

/-- Get answers like the persister's map whenever the persister does not fail (a cache hit cannot fail) -/
theorem get_spec (u : U) (k : Bytes) (keep : List Bytes) (h : Coherent u) :
    (u.get k false keep).2 = alookup k u.db := by
  cases hc : alookup k u.cache with
  | none => exact get_miss u k keep hc
  | some v =>
    rw [h k v hc]
    unfold U.get
    rw [hc]

theorem get_faulty (u : U) (k : Bytes) (keep : List Bytes) (h : Coherent u) :
    (u.get k true keep).2 = none ∨ (u.get k true keep).2 = alookup k u.db := by
  cases hc : alookup k u.cache with
  | none =>
    left
    unfold U.get
    rw [hc]
    rfl
  | some v =>
    right
    rw [h k v hc]
    unfold U.get
    rw [hc]

theorem has_spec (u : U) (k : Bytes) (h : Coherent u) : u.has k = (alookup k u.db).isSome := by
  unfold U.has
  cases hc : alookup k u.cache with
  | none => simp
  | some v => rw [h k v hc]; rfl

/-- the persister's map changes only by acknowledged writes -/
theorem put_db (u : U) (k v : Bytes) (fail : Bool) (keep : List Bytes) :
    (u.put k v fail keep).2 = !fail ∧ (u.put k v fail keep).1.db = (if fail then u.db else aset k v u.db) := by
  cases fail <;> exact ⟨rfl, rfl⟩

theorem remove_db (u : U) (k : Bytes) (fail : Bool) :
    (u.remove k fail).2 = !fail ∧ (u.remove k fail).1.db = (if fail then u.db else aerase k u.db) := by
  cases fail <;> exact ⟨rfl, rfl⟩

theorem get_db (u : U) (k : Bytes) (fail : Bool) (keep : List Bytes) : (u.get k fail keep).1.db = u.db := by
  rcases get_shape u k fail keep with he | ⟨v, _, _, he⟩ <;> rw [he]

/-- a rejected Put is not served afterwards: the key is out of the cache, reads fall through to the old state -/
theorem rejected_put_not_served (u : U) (k v : Bytes) (keep keep' : List Bytes) (h : Coherent u) :
    ((u.put k v true keep).1.get k false keep').2 = alookup k u.db := by
  have _ := h
  have hc : alookup k (u.put k v true keep).1.cache = none := by
    show alookup k (aerase k (restrict keep (aset k v u.cache))) = none
    exact alookup_aerase_self _ _
  rw [get_miss _ k keep' hc]
  rfl

/-- Remove clears both layers -/
theorem remove_clears (u : U) (k : Bytes) :
    alookup k (u.remove k false).1.cache = none ∧ alookup k (u.remove k false).1.db = none :=
  ⟨alookup_aerase_self k u.cache, alookup_aerase_self k u.db⟩

inductive Op where
  | put (k v : Bytes) (fail : Bool) (keep : List Bytes)
  | get (k : Bytes) (fail : Bool) (keep : List Bytes)
  | rm (k : Bytes) (fail : Bool)
  | clearCache

def U.step (u : U) : Op → U
  | .put k v f keep => (u.put k v f keep).1
  | .get k f keep => (u.get k f keep).1
  | .rm k f => (u.remove k f).1
  | .clearCache => u.clearCache

/-- the map of acknowledged writes -/
def ackStep (m : Bytes → Option Bytes) : Op → (Bytes → Option Bytes)
  | .put k v false _ => fun x => if x = k then some v else m x
  | .rm k false => fun x => if x = k then none else m x
  | _ => m

/-- the unit is coherent and its persister holds exactly the map `m` -/
def Tracks (u : U) (m : Bytes → Option Bytes) : Prop := Coherent u ∧ ∀ x, alookup x u.db = m x

theorem Tracks.step (u : U) (m : Bytes → Option Bytes) (op : Op) (h : Tracks u m) :
    Tracks (u.step op) (ackStep m op) := by
  obtain ⟨hc, hm⟩ := h
  cases op with
  | put k v f keep =>
    refine ⟨Coherent.put u k v f keep hc, ?_⟩
    intro x
    cases f with
    | true => exact hm x
    | false =>
      show alookup x (aset k v u.db) = if x = k then some v else m x
      by_cases hxk : x = k
      · subst hxk
        rw [alookup_aset_self, if_pos rfl]
      · rw [alookup_aset_ne hxk, if_neg hxk]
        exact hm x
  | get k f keep =>
    refine ⟨Coherent.get u k f keep hc, ?_⟩
    intro x
    show alookup x (u.get k f keep).1.db = m x
    rw [get_db]
    exact hm x
  | rm k f =>
    refine ⟨Coherent.remove u k f hc, ?_⟩
    intro x
    cases f with
    | true => exact hm x
    | false =>
      show alookup x (aerase k u.db) = if x = k then none else m x
      by_cases hxk : x = k
      · subst hxk
        rw [alookup_aerase_self, if_pos rfl]
      · rw [alookup_aerase_ne hxk, if_neg hxk]
        exact hm x
  | clearCache => exact ⟨Coherent.clearCache u hc, hm⟩

theorem Tracks.run (ops : List Op) : ∀ (u : U) (m : Bytes → Option Bytes), Tracks u m →
    Tracks (ops.foldl U.step u) (ops.foldl ackStep m) := by
  induction ops with
  | nil => intro u m h; exact h
  | cons op r ih =>
    intro u m h
    simp only [List.foldl_cons]
    exact ih _ _ (Tracks.step u m op h)

/-- C16: after ANY history (any cache evictions, any persister faults) Get and Has answer exactly like the map of
    acknowledged writes, and the unit stays coherent -/
theorem run_spec (ops : List Op) (k : Bytes) (keep : List Bytes) :
    let u := ops.foldl U.step U.init
    Coherent u ∧ (u.get k false keep).2 = (ops.foldl ackStep (fun _ => none)) k ∧
      u.has k = ((ops.foldl ackStep (fun _ => none)) k).isSome := by
  intro u
  have h0 : Tracks U.init (fun _ => none) := ⟨Coherent.init, fun x => rfl⟩
  obtain ⟨hc, hm⟩ := Tracks.run ops U.init _ h0
  refine ⟨hc, ?_, ?_⟩
  · rw [get_spec u k keep hc]; exact hm k
  · rw [has_spec u k hc]
    show (alookup k u.db).isSome = _
    rw [hm k]

end SV.Unit
