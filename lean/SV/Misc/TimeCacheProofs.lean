/-
  SV.Misc.TimeCacheProofs — proofs about the time-cache model (C18) and the interval (`must`/`may`) bracketing.
  Self-contained: the small association-list lemmas are re-proved here (same statements as in SV.Persist.Proofs).
-/
import SV.Misc.TimeCache
namespace SV.TimeCache
open SV

/-! ### association lists -/

section alist
variable {β : Type}

private theorem al_aset_self (k : Bytes) (v : β) (l : List (Bytes × β)) :
    alookup k (aset k v l) = some v := by
  induction l with
  | nil => simp [aset, alookup]
  | cons a r ih =>
    obtain ⟨k', v'⟩ := a
    simp only [aset]
    split
    · simp [alookup]
    · rename_i hne
      simp only [alookup, if_neg hne]
      exact ih

private theorem al_aset_ne {k k' : Bytes} (hne : k' ≠ k) (v : β) (l : List (Bytes × β)) :
    alookup k' (aset k v l) = alookup k' l := by
  induction l with
  | nil =>
    have : ¬ ((k == k') = true) := by simpa using fun h => hne h.symm
    simp [aset, alookup, this]
  | cons a r ih =>
    obtain ⟨k1, v1⟩ := a
    simp only [aset]
    split
    · rename_i heq
      have h1 : k1 = k := by simpa using heq
      subst h1
      have : ¬ ((k1 == k') = true) := by simpa using fun h => hne h.symm
      simp [alookup, this]
    · simp only [alookup, ih]

private theorem al_aerase_self (k : Bytes) (l : List (Bytes × β)) :
    alookup k (aerase k l) = none := by
  induction l with
  | nil => simp [aerase, alookup]
  | cons a r ih =>
    obtain ⟨k1, v1⟩ := a
    simp only [aerase]
    split
    · exact ih
    · rename_i hne
      simp only [alookup, if_neg hne]
      exact ih

private theorem al_aerase_ne {k k' : Bytes} (hne : k' ≠ k) (l : List (Bytes × β)) :
    alookup k' (aerase k l) = alookup k' l := by
  induction l with
  | nil => simp [aerase]
  | cons a r ih =>
    obtain ⟨k1, v1⟩ := a
    simp only [aerase]
    split
    · rename_i heq
      have h1 : k1 = k := by simpa using heq
      subst h1
      have : ¬ ((k1 == k') = true) := by simpa using fun h => hne h.symm
      simp [alookup, this, ih]
    · simp only [alookup, ih]

private theorem mem_keys_aset {k x : Bytes} (v : β) (l : List (Bytes × β)) :
    x ∈ (aset k v l).map (·.1) → x = k ∨ x ∈ l.map (·.1) := by
  induction l with
  | nil => simp [aset]
  | cons a r ih =>
    obtain ⟨k1, v1⟩ := a
    simp only [aset]
    split
    · intro h
      simp only [List.map_cons, List.mem_cons] at h ⊢
      rcases h with h | h
      · exact Or.inl h
      · exact Or.inr (Or.inr h)
    · intro h
      simp only [List.map_cons, List.mem_cons] at h ⊢
      rcases h with h | h
      · exact Or.inr (Or.inl h)
      · rcases ih h with h | h
        · exact Or.inl h
        · exact Or.inr (Or.inr h)

private theorem nd_aset (k : Bytes) (v : β) (l : List (Bytes × β)) (h : (l.map (·.1)).Nodup) :
    ((aset k v l).map (·.1)).Nodup := by
  induction l with
  | nil => simp [aset]
  | cons a r ih =>
    obtain ⟨k1, v1⟩ := a
    simp only [List.map_cons, List.nodup_cons] at h
    simp only [aset]
    split
    · rename_i heq
      have h1 : k1 = k := by simpa using heq
      subst h1
      simp only [List.map_cons, List.nodup_cons]
      exact h
    · rename_i hne
      have h1 : k1 ≠ k := by simpa using hne
      simp only [List.map_cons, List.nodup_cons]
      refine ⟨?_, ih h.2⟩
      intro hm
      rcases mem_keys_aset v r hm with hm | hm
      · exact h1 hm
      · exact h.1 hm

private theorem mem_keys_aerase {k x : Bytes} (l : List (Bytes × β)) :
    x ∈ (aerase k l).map (·.1) → x ∈ l.map (·.1) := by
  induction l with
  | nil => simp [aerase]
  | cons a r ih =>
    obtain ⟨k1, v1⟩ := a
    simp only [aerase]
    split
    · intro h
      simp only [List.map_cons, List.mem_cons]
      exact Or.inr (ih h)
    · intro h
      simp only [List.map_cons, List.mem_cons] at h ⊢
      rcases h with h | h
      · exact Or.inl h
      · exact Or.inr (ih h)

private theorem nd_aerase (k : Bytes) (l : List (Bytes × β)) (h : (l.map (·.1)).Nodup) :
    ((aerase k l).map (·.1)).Nodup := by
  induction l with
  | nil => simp [aerase]
  | cons a r ih =>
    obtain ⟨k1, v1⟩ := a
    simp only [List.map_cons, List.nodup_cons] at h
    simp only [aerase]
    split
    · exact ih h.2
    · simp only [List.map_cons, List.nodup_cons]
      exact ⟨fun hm => h.1 (mem_keys_aerase r hm), ih h.2⟩

private theorem al_none_of_not_mem (k : Bytes) (l : List (Bytes × β)) (h : k ∉ l.map (·.1)) :
    alookup k l = none := by
  induction l with
  | nil => simp [alookup]
  | cons a r ih =>
    obtain ⟨k1, v1⟩ := a
    simp only [List.map_cons, List.mem_cons, not_or] at h
    have hne : ¬ ((k1 == k) = true) := by simpa using fun h' => h.1 h'.symm
    simp only [alookup, if_neg hne]
    exact ih h.2

private theorem not_mem_keys_filter (k : Bytes) (p : Bytes × β → Bool) (l : List (Bytes × β))
    (h : k ∉ l.map (·.1)) : k ∉ (l.filter p).map (·.1) := by
  intro hm
  apply h
  rcases List.mem_map.mp hm with ⟨x, hx, rfl⟩
  exact List.mem_map.mpr ⟨x, (List.mem_filter.mp hx).1, rfl⟩

end alist

/-! ### key uniqueness -/

def KeysNodup (tc : TC) : Prop := (tc.map (·.1)).Nodup

theorem KeysNodup.add (tc : TC) (k v : Bytes) (span now : Nat) (h : KeysNodup tc) :
    KeysNodup (add tc k v span now) := nd_aset k _ tc h

theorem KeysNodup.upsert (tc : TC) (k v : Bytes) (span now : Nat) (h : KeysNodup tc) :
    KeysNodup (upsert tc k v span now) := by
  unfold TimeCache.upsert
  split
  · exact nd_aset k _ tc h
  · exact nd_aset k _ tc h

theorem KeysNodup.hasOrAdd (tc : TC) (k v : Bytes) (span now : Nat) (h : KeysNodup tc) :
    KeysNodup (hasOrAdd tc k v span now).1 := by
  unfold TimeCache.hasOrAdd
  split
  · exact h
  · exact nd_aset k _ tc h

theorem KeysNodup.sweep (tc : TC) (now : Nat) (h : KeysNodup tc) : KeysNodup (sweep tc now) := by
  unfold KeysNodup TimeCache.sweep
  unfold KeysNodup at h
  exact ((List.filter_sublist (l := tc)).map (fun x : Bytes × Entry => x.1)).nodup h

theorem KeysNodup.remove (tc : TC) (k : Bytes) (h : KeysNodup tc) : KeysNodup (remove tc k) :=
  nd_aerase k tc h

/-! ### single operations -/

/-- what a sweep does to one key -/
theorem sweep_lookup (tc : TC) (now : Nat) (k : Bytes) (h : KeysNodup tc) :
    alookup k (sweep tc now) =
      (alookup k tc).bind (fun e => if now - e.timestamp > e.span then none else some e) := by
  unfold TimeCache.sweep
  induction tc with
  | nil => simp [alookup]
  | cons a r ih =>
    obtain ⟨k1, e1⟩ := a
    have h' : k1 ∉ r.map (·.1) ∧ (r.map (·.1)).Nodup := by
      simpa [KeysNodup, List.map_cons, List.nodup_cons] using h
    by_cases hk : (k1 == k) = true
    · have hk' : k1 = k := by simpa using hk
      subst hk'
      by_cases hp : now - e1.timestamp > e1.span
      · have hf : List.filter (fun e : Bytes × Entry => !decide (now - e.2.timestamp > e.2.span)) ((k1, e1) :: r)
            = List.filter (fun e : Bytes × Entry => !decide (now - e.2.timestamp > e.2.span)) r := by
          simp [hp]
        rw [hf, al_none_of_not_mem k1 _ (not_mem_keys_filter k1 _ r h'.1)]
        simp [alookup, hp]
      · have hf : List.filter (fun e : Bytes × Entry => !decide (now - e.2.timestamp > e.2.span)) ((k1, e1) :: r)
            = (k1, e1) :: List.filter (fun e : Bytes × Entry => !decide (now - e.2.timestamp > e.2.span)) r := by
          simp [hp]
        rw [hf]
        simp [alookup, hp]
    · by_cases hp : now - e1.timestamp > e1.span
      · have hf : List.filter (fun e : Bytes × Entry => !decide (now - e.2.timestamp > e.2.span)) ((k1, e1) :: r)
            = List.filter (fun e : Bytes × Entry => !decide (now - e.2.timestamp > e.2.span)) r := by
          simp [hp]
        rw [hf, ih h'.2]
        simp only [alookup, if_neg hk]
      · have hf : List.filter (fun e : Bytes × Entry => !decide (now - e.2.timestamp > e.2.span)) ((k1, e1) :: r)
            = (k1, e1) :: List.filter (fun e : Bytes × Entry => !decide (now - e.2.timestamp > e.2.span)) r := by
          simp [hp]
        rw [hf]
        simp only [alookup, if_neg hk]
        exact ih h'.2

/-- C18 retention: a sweep reading a time within the span keeps the key -/
theorem sweep_keeps (tc : TC) (now : Nat) (k : Bytes) (e : Entry) (h : KeysNodup tc)
    (he : alookup k tc = some e) (ht : now ≤ e.timestamp + e.span) :
    alookup k (sweep tc now) = some e := by
  rw [sweep_lookup tc now k h, he]
  have : ¬ (now - e.timestamp > e.span) := by omega
  simp [this]

/-- C18 expiry: a sweep reading a time after the span has elapsed removes it -/
theorem sweep_drops (tc : TC) (now : Nat) (k : Bytes) (e : Entry) (h : KeysNodup tc)
    (he : alookup k tc = some e) (ht : e.timestamp + e.span < now) : has (sweep tc now) k = false := by
  unfold TimeCache.has
  rw [sweep_lookup tc now k h, he]
  have : now - e.timestamp > e.span := by omega
  simp [this]

/-- Add/AddWithSpan/Put replace the span and restart the countdown -/
theorem add_lookup (tc : TC) (k v : Bytes) (span now : Nat) :
    alookup k (add tc k v span now) = some ⟨now, span, v⟩ := al_aset_self k _ tc

/-- Upsert never shortens the remaining life: span becomes the maximum, countdown restarts -/
theorem upsert_lookup (tc : TC) (k v : Bytes) (span now : Nat) :
    alookup k (upsert tc k v span now) =
      some (match alookup k tc with | some e => ⟨now, max e.span span, e.value⟩ | none => ⟨now, span, v⟩) := by
  unfold TimeCache.upsert
  split
  · rename_i e he
    rw [al_aset_self, he]
  · rename_i he
    rw [al_aset_self, he]

private theorem upsert_other (tc : TC) (k k' v : Bytes) (span now : Nat) (hk : k' ≠ k) :
    alookup k' (upsert tc k v span now) = alookup k' tc := by
  unfold TimeCache.upsert
  split
  · exact al_aset_ne hk _ tc
  · exact al_aset_ne hk _ tc

private theorem hasOrAdd_other (tc : TC) (k k' v : Bytes) (span now : Nat) (hk : k' ≠ k) :
    alookup k' (hasOrAdd tc k v span now).1 = alookup k' tc := by
  unfold TimeCache.hasOrAdd
  split
  · rfl
  · exact al_aset_ne hk _ tc

theorem others_untouched (tc : TC) (k k' v : Bytes) (span now : Nat) (hk : k' ≠ k) :
    alookup k' (add tc k v span now) = alookup k' tc ∧ alookup k' (upsert tc k v span now) = alookup k' tc ∧
    alookup k' (hasOrAdd tc k v span now).1 = alookup k' tc ∧ alookup k' (remove tc k) = alookup k' tc :=
  ⟨al_aset_ne hk _ tc, upsert_other tc k k' v span now hk, hasOrAdd_other tc k k' v span now hk,
    al_aerase_ne hk tc⟩

theorem hasOrAdd_flags (tc : TC) (k v : Bytes) (span now : Nat) :
    (hasOrAdd tc k v span now).2.1 = has tc k ∧ (hasOrAdd tc k v span now).2.2 = !has tc k ∧
    (has tc k = true → (hasOrAdd tc k v span now).1 = tc) := by
  unfold TimeCache.hasOrAdd TimeCache.has
  split
  · rename_i e he
    simp [he]
  · rename_i he
    simp [he]

/-! ### histories -/

/-- operations of a history, each with the clock reading it observed -/
inductive Op where
  | add (k v : Bytes) (span : Nat) | upsert (k v : Bytes) (span : Nat) | hoa (k v : Bytes) (span : Nat) | sweep | rm (k : Bytes)

def step (tc : TC) (o : Op × Nat) : TC :=
  match o.1 with
  | .add k v s => add tc k v s o.2
  | .upsert k v s => upsert tc k v s o.2
  | .hoa k v s => (hasOrAdd tc k v s o.2).1
  | .sweep => sweep tc o.2
  | .rm k => remove tc k

def touches (k : Bytes) : Op → Bool
  | .add k' _ _ => k' == k | .upsert k' _ _ => k' == k | .rm k' => k' == k | .hoa _ _ _ => false | .sweep => false

private theorem KeysNodup.step (tc : TC) (o : Op × Nat) (h : KeysNodup tc) : KeysNodup (step tc o) := by
  obtain ⟨op, t⟩ := o
  cases op with
  | add k v s => exact KeysNodup.add tc k v s t h
  | upsert k v s => exact KeysNodup.upsert tc k v s t h
  | hoa k v s => exact KeysNodup.hasOrAdd tc k v s t h
  | sweep => exact KeysNodup.sweep tc t h
  | rm k => exact KeysNodup.remove tc k h

private theorem step_keeps (tc : TC) (k : Bytes) (e : Entry) (o : Op × Nat) (h : KeysNodup tc)
    (he : alookup k tc = some e) (hno : touches k o.1 = false) (ht : o.2 ≤ e.timestamp + e.span) :
    alookup k (step tc o) = some e := by
  obtain ⟨op, t⟩ := o
  cases op with
  | add k1 v s =>
    have hne : k ≠ k1 := by
      intro hc; subst hc; simp [touches] at hno
    show alookup k (TimeCache.add tc k1 v s t) = some e
    rw [(others_untouched tc k1 k v s t hne).1]; exact he
  | upsert k1 v s =>
    have hne : k ≠ k1 := by
      intro hc; subst hc; simp [touches] at hno
    show alookup k (TimeCache.upsert tc k1 v s t) = some e
    rw [(others_untouched tc k1 k v s t hne).2.1]; exact he
  | hoa k1 v s =>
    show alookup k (TimeCache.hasOrAdd tc k1 v s t).1 = some e
    by_cases hk : k = k1
    · subst hk
      have hh : has tc k = true := by simp [TimeCache.has, he]
      rw [(hasOrAdd_flags tc k v s t).2.2 hh]; exact he
    · rw [(others_untouched tc k1 k v s t hk).2.2.1]; exact he
  | sweep =>
    show alookup k (TimeCache.sweep tc t) = some e
    exact sweep_keeps tc t k e h he ht
  | rm k1 =>
    have hne : k ≠ k1 := by
      intro hc; subst hc; simp [touches] at hno
    show alookup k (TimeCache.remove tc k1) = some e
    rw [(others_untouched tc k1 k [] 0 0 hne).2.2.2]; exact he

/-- C18: a key present with (timestamp t0, span d) is reported present by every query until d has elapsed, no matter
    how many sweeps (or operations on other keys, or HasOrAdd on any key) run in between -/
theorem retained (tc : TC) (k : Bytes) (e : Entry) (ops : List (Op × Nat)) (h : KeysNodup tc)
    (he : alookup k tc = some e)
    (hno : ∀ o ∈ ops, touches k o.1 = false) (ht : ∀ o ∈ ops, o.2 ≤ e.timestamp + e.span) :
    alookup k (ops.foldl step tc) = some e := by
  induction ops generalizing tc with
  | nil => exact he
  | cons o r ih =>
    simp only [List.foldl_cons]
    apply ih (step tc o) (KeysNodup.step tc o h)
    · exact step_keeps tc k e o h he (hno o (List.mem_cons_self ..)) (ht o (List.mem_cons_self ..))
    · intro o' ho'; exact hno o' (List.mem_cons_of_mem _ ho')
    · intro o' ho'; exact ht o' (List.mem_cons_of_mem _ ho')

/-! ### interval soundness -/

/-- interval soundness: if every operation's true reading lies inside its bracket, then `must ⊆ exact ⊆ may`,
    and entries of `must` expire no later / entries of `may` no earlier than the exact ones -/
structure Sandwich (i : I) (tc : TC) : Prop where
  nd : KeysNodup i.must ∧ KeysNodup tc ∧ KeysNodup i.may
  lower : ∀ k em, alookup k i.must = some em → ∃ e, alookup k tc = some e ∧ em.timestamp + em.span ≤ e.timestamp + e.span ∧ em.span ≤ e.span
  upper : ∀ k e, alookup k tc = some e → ∃ eM, alookup k i.may = some eM ∧ e.timestamp + e.span ≤ eM.timestamp + eM.span ∧ e.span ≤ eM.span

theorem Sandwich.empty : Sandwich ⟨[], []⟩ [] where
  nd := by simp [KeysNodup]
  lower := by intro k em h; simp [alookup] at h
  upper := by intro k e h; simp [alookup] at h

theorem Sandwich.add (i : I) (tc : TC) (k v : Bytes) (span lo t hi : Nat) (h : Sandwich i tc)
    (h1 : lo ≤ t) (h2 : t ≤ hi) : Sandwich (i.add k v span lo hi) (add tc k v span t) where
  nd := ⟨KeysNodup.add _ k v span lo h.nd.1, KeysNodup.add _ k v span t h.nd.2.1,
    KeysNodup.add _ k v span hi h.nd.2.2⟩
  lower := by
    intro k' em hm
    by_cases hk : k' = k
    · subst hk
      have hm' : alookup k' (TimeCache.add i.must k' v span lo) = some em := hm
      rw [add_lookup] at hm'
      have : em = ⟨lo, span, v⟩ := (Option.some.inj hm').symm
      subst this
      refine ⟨⟨t, span, v⟩, add_lookup tc k' v span t, ?_, Nat.le_refl _⟩
      show lo + span ≤ t + span
      omega
    · have hm' : alookup k' (TimeCache.add i.must k v span lo) = some em := hm
      rw [(others_untouched i.must k k' v span lo hk).1] at hm'
      rw [(others_untouched tc k k' v span t hk).1]
      exact h.lower k' em hm'
  upper := by
    intro k' e he
    by_cases hk : k' = k
    · subst hk
      rw [add_lookup] at he
      have : e = ⟨t, span, v⟩ := (Option.some.inj he).symm
      subst this
      refine ⟨⟨hi, span, v⟩, add_lookup i.may k' v span hi, ?_, Nat.le_refl _⟩
      show t + span ≤ hi + span
      omega
    · rw [(others_untouched tc k k' v span t hk).1] at he
      show ∃ eM, alookup k' (TimeCache.add i.may k v span hi) = some eM ∧ _
      rw [(others_untouched i.may k k' v span hi hk).1]
      exact h.upper k' e he

theorem Sandwich.upsert (i : I) (tc : TC) (k v : Bytes) (span lo t hi : Nat) (h : Sandwich i tc)
    (h1 : lo ≤ t) (h2 : t ≤ hi) : Sandwich (i.upsert k v span lo hi) (upsert tc k v span t) where
  nd := ⟨KeysNodup.upsert _ k v span lo h.nd.1, KeysNodup.upsert _ k v span t h.nd.2.1,
    KeysNodup.upsert _ k v span hi h.nd.2.2⟩
  lower := by
    intro k' em hm
    by_cases hk : k' = k
    · subst hk
      have hm' : alookup k' (TimeCache.upsert i.must k' v span lo) = some em := hm
      rw [upsert_lookup] at hm'
      have hem := (Option.some.inj hm').symm
      refine ⟨_, upsert_lookup tc k' v span t, ?_⟩
      cases hmu : alookup k' i.must with
      | some em0 =>
        obtain ⟨e0, he0, hle1, hle2⟩ := h.lower k' em0 hmu
        rw [hmu] at hem
        rw [he0, hem]
        dsimp only
        omega
      | none =>
        rw [hmu] at hem
        rw [hem]
        cases htc : alookup k' tc with
        | some e0 => dsimp only; omega
        | none => dsimp only; omega
    · have hm' : alookup k' (TimeCache.upsert i.must k v span lo) = some em := hm
      rw [(others_untouched i.must k k' v span lo hk).2.1] at hm'
      rw [(others_untouched tc k k' v span t hk).2.1]
      exact h.lower k' em hm'
  upper := by
    intro k' e he
    by_cases hk : k' = k
    · subst hk
      rw [upsert_lookup] at he
      have hem := (Option.some.inj he).symm
      refine ⟨_, upsert_lookup i.may k' v span hi, ?_⟩
      cases htc : alookup k' tc with
      | some e0 =>
        obtain ⟨eM0, heM0, hle1, hle2⟩ := h.upper k' e0 htc
        rw [htc] at hem
        rw [heM0, hem]
        dsimp only
        omega
      | none =>
        rw [htc] at hem
        rw [hem]
        cases hmay : alookup k' i.may with
        | some eM0 => dsimp only; omega
        | none => dsimp only; omega
    · rw [(others_untouched tc k k' v span t hk).2.1] at he
      show ∃ eM, alookup k' (TimeCache.upsert i.may k v span hi) = some eM ∧ _
      rw [(others_untouched i.may k k' v span hi hk).2.1]
      exact h.upper k' e he

theorem Sandwich.sweep (i : I) (tc : TC) (lo t hi : Nat) (h : Sandwich i tc) (h1 : lo ≤ t) (h2 : t ≤ hi) :
    Sandwich (i.sweep lo hi) (sweep tc t) where
  nd := ⟨KeysNodup.sweep _ hi h.nd.1, KeysNodup.sweep _ t h.nd.2.1, KeysNodup.sweep _ lo h.nd.2.2⟩
  lower := by
    intro k em hm
    have hm' : alookup k (TimeCache.sweep i.must hi) = some em := hm
    rw [sweep_lookup _ hi k h.nd.1] at hm'
    cases hmu : alookup k i.must with
    | none => rw [hmu] at hm'; simp at hm'
    | some em0 =>
      rw [hmu] at hm'
      simp only [Option.bind_some] at hm'
      split at hm'
      · simp at hm'
      · rename_i hsurv
        have : em0 = em := Option.some.inj hm'
        subst this
        obtain ⟨e, he, hle1, hle2⟩ := h.lower k em0 hmu
        exact ⟨e, sweep_keeps tc t k e h.nd.2.1 he (by omega), hle1, hle2⟩
  upper := by
    intro k e he
    rw [sweep_lookup _ t k h.nd.2.1] at he
    cases htc : alookup k tc with
    | none => rw [htc] at he; simp at he
    | some e0 =>
      rw [htc] at he
      simp only [Option.bind_some] at he
      split at he
      · simp at he
      · rename_i hsurv
        have : e0 = e := Option.some.inj he
        subst this
        obtain ⟨eM, heM, hle1, hle2⟩ := h.upper k e0 htc
        exact ⟨eM, sweep_keeps i.may lo k eM h.nd.2.2 heM (by omega), hle1, hle2⟩

theorem Sandwich.remove (i : I) (tc : TC) (k : Bytes) (h : Sandwich i tc) :
    Sandwich (i.remove k) (remove tc k) where
  nd := ⟨KeysNodup.remove _ k h.nd.1, KeysNodup.remove _ k h.nd.2.1, KeysNodup.remove _ k h.nd.2.2⟩
  lower := by
    intro k' em hm
    have hm' : alookup k' (aerase k i.must) = some em := hm
    by_cases hk : k' = k
    · subst hk
      rw [al_aerase_self] at hm'
      simp at hm'
    · rw [al_aerase_ne hk] at hm'
      show ∃ e, alookup k' (aerase k tc) = some e ∧ _
      rw [al_aerase_ne hk]
      exact h.lower k' em hm'
  upper := by
    intro k' e he
    have he' : alookup k' (aerase k tc) = some e := he
    by_cases hk : k' = k
    · subst hk
      rw [al_aerase_self] at he'
      simp at he'
    · rw [al_aerase_ne hk] at he'
      show ∃ eM, alookup k' (aerase k i.may) = some eM ∧ _
      rw [al_aerase_ne hk]
      exact h.upper k' e he'

/-- the three-valued verdict is sound: certainly-present ⇒ present ⇒ possibly-present -/
theorem Sandwich.verdict (i : I) (tc : TC) (k : Bytes) (h : Sandwich i tc) :
    (has i.must k = true → has tc k = true) ∧ (has tc k = true → has i.may k = true) := by
  unfold TimeCache.has
  constructor
  · intro hm
    cases hmu : alookup k i.must with
    | none => rw [hmu] at hm; simp at hm
    | some em =>
      obtain ⟨e, he, _⟩ := h.lower k em hmu
      simp [he]
  · intro hm
    cases htc : alookup k tc with
    | none => rw [htc] at hm; simp at hm
    | some e =>
      obtain ⟨eM, heM, _⟩ := h.upper k e htc
      simp [heM]

end SV.TimeCache
