/-
  SV.Misc.Unit — model of storageUnit.Unit over an ARBITRARY cacher and a fault-injecting persister.
  The cacher is only assumed to return what was put and not removed since: after every cacher.Put an arbitrary
  subset of its entries may have been evicted — the eviction outcome is an input (`keep`).
-/
import SV.Common
namespace SV.Unit
open SV

structure U where
  cache : List (Bytes × Bytes)
  db : List (Bytes × Bytes)
  deriving Repr

def U.init : U := ⟨[], []⟩

/-- eviction by the cacher: only entries whose key is in `keep` survive -/
def restrict (keep : List Bytes) (c : List (Bytes × Bytes)) : List (Bytes × Bytes) := c.filter (fun e => keep.contains e.1)

/-- `Put`: cache first, then the persister; if the persister rejects the write the key is removed from the cache -/
def U.put (u : U) (k v : Bytes) (fail : Bool) (keep : List Bytes) : U × Bool :=
  let c := restrict keep (aset k v u.cache)
  if fail then ({ u with cache := aerase k c }, false)
  else (⟨c, aset k v u.db⟩, true)

/-- `Get`: cache hit, else the persister (which may fail), refilling the cache -/
def U.get (u : U) (k : Bytes) (fail : Bool) (keep : List Bytes) : U × Option Bytes :=
  match alookup k u.cache with
  | some v => (u, some v)
  | none =>
    if fail then (u, none)
    else match alookup k u.db with
      | none => (u, none)
      | some v => ({ u with cache := restrict keep (aset k v u.cache) }, some v)

def U.has (u : U) (k : Bytes) : Bool := (alookup k u.cache).isSome || (alookup k u.db).isSome

/-- `Remove`: both layers; the persister may reject (then the key stays there and the error is returned) -/
def U.remove (u : U) (k : Bytes) (fail : Bool) : U × Bool :=
  if fail then ({ u with cache := aerase k u.cache }, false)
  else (⟨aerase k u.cache, aerase k u.db⟩, true)

def U.clearCache (u : U) : U := { u with cache := [] }

end SV.Unit
